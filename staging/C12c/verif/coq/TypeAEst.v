(* TypeAEst.v -- executable model of the sample estimators of GTC/type_a.py:
   mean, standard_deviation, standard_uncertainty, variance_covariance_complex, estimate (real
   and complex data), estimate_digitized, multi_estimate_real, multi_estimate_complex.
   Parametric in N : Num; run at FNum against the implementation (bit for bit), reasoned about
   at RNum (TypeAEstFacts.v).  Definitions only.

   Every arithmetic formula is a g_* definition regenerated from the source on each run
   (gen/Gen_type_a_est.v).  Hand-written here: the loops / list building, the pieces of CPython
   the code leans on (builtin sum -- Neumaier-compensated for floats since 3.12, plain for
   complex and for uncertain-number objects --, complex / int, max, min), and the
   uncertain-number bookkeeping the estimators do: the checks of UncertainReal._elementary,
   UncertainComplex._elementary (incl. the write to `correlation` of an independent Leaf that
   raises AttributeError), set_correlation_real (|r| > 1 -> ValueError), the ensembles.
   (Since the fixes C12-estimate-complex-r0 / C12-multi-collinear-valueerror the source passes r = None for
   independent components and removes rounding excess of r through _clip_r = g_clip_r.)

   What is observed of a returned uncertain number: x, u, df, independent of every real
   component, and get_correlation of every pair of components.  The correlation registers are
   therefore modelled as the triangular matrix "r set for (i,j), i<j, or not set": every pair
   is written at most once after creation, so this determines every later read
   (get_correlation_real reads ln1.correlation.get(uid2, 0.0)). *)
From Coq Require Import ZArith List Bool.
From GTCV Require Import Num TypeAPre.
From GTCV.gen Require Import Gen_type_a_est.
Import ListNotations.

Inductive dkind := KFloat | KUreal.     (* elements are floats / UncertainReal objects *)

Section Types.
  Variable V : Type.
  Record leaf := mkLeaf { lx : V; lu : V; ldf : V; lind : bool }.
  Inductive call :=
  | CMean (k : dkind) (l : list V)
  | CMeanC (l : list (V * V))
  | CSd (k : dkind) (l : list V) (mu : option V)
  | CSdC (l : list (V * V)) (mu : option (V * V))
  | CSu (k : dkind) (l : list V) (mu : option V)
  | CSuC (l : list (V * V)) (mu : option (V * V))
  | CVcc (l : list (V * V)) (mu : option (V * V))
  | CEst (l : list V)
  | CEstC (l : list (V * V))
  | CDig (l : list V) (delta : V) (truncate : bool)
  | CMulti (k : dkind) (ls : list (list V))
  | CMultiC (ls : list (list (V * V))).
  Inductive out :=
  | OExn (e : exn)
  | ONums (l : list V)
  | OLeaves (ls : list leaf) (corr : list (list V)) (ens : list (list Z)).
End Types.
Arguments mkLeaf {V}. Arguments lx {V}. Arguments lu {V}. Arguments ldf {V}. Arguments lind {V}.
Arguments CMean {V}. Arguments CMeanC {V}. Arguments CSd {V}. Arguments CSdC {V}. Arguments CSu {V}.
Arguments CSuC {V}. Arguments CVcc {V}. Arguments CEst {V}. Arguments CEstC {V}. Arguments CDig {V}.
Arguments CMulti {V}. Arguments CMultiC {V}.
Arguments OExn {V}. Arguments ONums {V}. Arguments OLeaves {V}.

Section TypeAEst.
  Variable N : Num.
  Notation V := (T N).

  Definition zero : V := dyad N 0 0.       (* the float 0.0 *)
  Definition one : V := dyad N 1 0.
  Definition len {A} (l : list A) : Z := Z.of_nat (length l).

  (* ---------- CPython pieces ---------- *)
  Definition finite (c : V) : bool := negb (is_nan N c) && negb (is_inf N c).

  (* builtin sum over floats, CPython 3.12 (Neumaier): f = running sum, c = compensation *)
  Fixpoint neumaier (l : list V) (f c : V) : V :=
    match l with
    | [] => if negb (eqb N c zero) && finite c then add N f c else f
    | x :: l' =>
        let t := add N f x in
        let c' := if leb N (nabs N x) (nabs N f)
                  then add N c (add N (sub N f t) x)
                  else add N c (add N (sub N x t) f) in
        neumaier l' t c'
    end.

  (* sum(seq): the start value is the int 0 *)
  Definition py_sum (k : dkind) (l : list V) : V :=
    match l with
    | [] => of_Z N 0
    | x :: l' =>
        match k with
        | KFloat => neumaier l' (add N (of_Z N 0) x) zero
        | KUreal => fold_left (add N) l' x      (* 0 + un is un itself; then UncertainReal.__add__ *)
        end
    end.

  Definition cadd (a b : V * V) : V * V := (add N (fst a) (fst b), add N (snd a) (snd b)).
  Definition py_sum_c (l : list (V * V)) : V * V :=
    fold_left cadd l (of_Z N 0, of_Z N 0).

  (* complex / int : _Py_c_quot(a, (n, 0.0)) *)
  Definition cdiv_int (a : V * V) (n : Z) : res (V * V) :=
    let br := of_Z N n in
    let bi := zero in
    if eqb N (nabs N br) zero then Err ZeroDivisionError else
    ratio <- div N bi br ;;
    let denom := add N br (mul N bi ratio) in
    re <- div N (add N (fst a) (mul N (snd a) ratio)) denom ;;
    im <- div N (sub N (snd a) (mul N (fst a) ratio)) denom ;;
    Ok (re, im).

  (* max(seq) / min(seq) of a non-empty sequence *)
  Definition py_max (l : list V) : V :=
    match l with [] => zero | x :: l' => fold_left (fun m y => if ltb N m y then y else m) l' x end.
  Definition py_min (l : list V) : V :=
    match l with [] => zero | x :: l' => fold_left (fun m y => if ltb N y m then y else m) l' x end.

  (* ---------- mean ---------- *)
  Definition mean_real (k : dkind) (l : list V) : res V := g_mean_div N (len l) (py_sum k l).
  Definition mean_cplx (l : list (V * V)) : res (V * V) :=
    match l with
    | [] => Err ZeroDivisionError            (* int 0 / int 0 *)
    | _ => cdiv_int (py_sum_c l) (len l)
    end.

  Definition default {A} (o : option A) (r : res A) : res A :=
    match o with Some a => Ok a | None => r end.

  (* ---------- standard_deviation / standard_uncertainty / variance_covariance_complex ---------- *)
  Definition sd_real (k : dkind) (l : list V) (mu : option V) : res V :=
    _ <- g_sd_guard N (len l) ;;
    m <- default mu (mean_real k l) ;;
    g_sd_real N (len l) l m.

  Definition su_real (k : dkind) (l : list V) (mu : option V) : res V :=
    _ <- g_su_guard N (len l) ;;
    m <- default mu (mean_real k l) ;;
    sd <- sd_real k l (Some m) ;;
    g_su_real N (len l) sd.

  Definition vcc (l : list (V * V)) (mu : option (V * V)) : res (V * V * V * V) :=
    (* the length guard of g_vcc comes before the mean is computed *)
    _ <- g_vcc N (len l) [] zero zero ;;
    m <- default mu (mean_cplx l) ;;
    g_vcc N (len l) l (fst m) (snd m).

  Definition sd_cplx (l : list (V * V)) (mu : option (V * V)) : res (V * V * V) :=
    _ <- g_sd_guard N (len l) ;;
    m <- default mu (mean_cplx l) ;;
    '(cv11, cv12, _, cv22) <- vcc l (Some m) ;;
    g_sd_cplx N cv11 cv12 cv22.

  Definition su_cplx (l : list (V * V)) (mu : option (V * V)) : res (V * V * V) :=
    _ <- g_su_guard N (len l) ;;
    m <- default mu (mean_cplx l) ;;
    '(sre, sim, r) <- sd_cplx l (Some m) ;;
    g_su_cplx N (len l) sre sim r.

  (* ---------- uncertain-number construction ---------- *)
  (* UncertainReal._elementary(x, u, df, label, independent) *)
  Definition elementary (x u : V) (df : Z) (ind : bool) : res (leaf V) :=
    if Z.ltb df 1 then Err ValueError
    else if ltb N u zero then Err ValueError
    else Ok (mkLeaf x u (of_Z N df) ind).

  (* lib.set_correlation_real on two distinct elementary numbers *)
  Definition set_corr (ind1 ind2 : bool) (r : V) : res V :=
    if ind1 || ind2 then Err RuntimeError
    else if negb (leb N (nabs N r) one) then Err ValueError
    else Ok r.

  (* ---------- estimate ---------- *)
  Definition estimate_real (l : list V) : res (leaf V) :=
    df <- g_est_df N (len l) ;;
    mu <- mean_real KFloat l ;;            (* value_seq first: always plain floats here *)
    u <- su_real KFloat l (Some mu) ;;
    elementary mu u df (g_est_real_indep N).

  Definition estimate_cplx (l : list (V * V)) : res (leaf V * leaf V * option V) :=
    df <- g_est_df N (len l) ;;
    mu <- mean_cplx l ;;
    '(ure, uim, r) <- su_cplx l (Some mu) ;;
    let ind := g_est_cplx_indep N r in
    re <- elementary (fst mu) ure df ind ;;
    im <- elementary (snd mu) uim df ind ;;
    (* UncertainComplex._elementary: `if r is not None: real._node.correlation[...] = r`; an
       independent Leaf has no such attribute (AttributeError).  The source now always declares the pair
       dependent and always passes r (g_est_cplx_indep = false, g_est_cplx_rarg = Some r), so that branch
       is dead -- it stays in the model because it is what the callee does. *)
    match g_est_cplx_rarg N r with
    | Some r' => if ind then Err AttributeError else Ok (re, im, Some r')
    | None => Ok (re, im, None)
    end.

  (* ---------- estimate_digitized ---------- *)
  Definition estimate_digitized (l : list V) (delta : V) (truncate : bool) : res (leaf V) :=
    _ <- g_dig_guard N (len l) ;;
    let x_max := py_max l in
    let x_min := py_min l in
    mu <- mean_real KFloat l ;;
    '(mu', u) <- g_dig_body N (len l) l x_max x_min mu delta truncate ;;
    elementary mu' u (len l - 1) true.

  (* ---------- multi_estimate_real ---------- *)
  Definition first_len {A} (ls : list (list A)) : res Z :=
    match ls with [] => Err IndexError | s :: _ => Ok (len s) end.

  Definition mer_stat (k : dkind) (n : Z) (s : list V) : res (V * list V) :=
    if negb (Z.eqb (len s) n) then Err RuntimeError else
    mu <- g_mer_mean N n (py_sum k s) ;;
    dev <- mmap (fun x => g_mer_dev N x mu) s ;;
    Ok (mu, dev).

  (* u_i and the row cv[i] for every i *)
  Fixpoint mer_ucv (nn1 : Z) (devs : list (list V)) : res (list (V * list V)) :=
    match devs with
    | [] => Ok []
    | d :: rest =>
        u <- g_mer_u N nn1 d ;;
        row <- mmap (fun dj => g_mer_cv N nn1 d dj) rest ;;
        more <- mer_ucv nn1 rest ;;
        Ok ((u, row) :: more)
    end.

  Definition mer_corr_entry (ind : bool) (ui cv uj : V) : res (option V) :=
    if g_mer_guard N cv then
      r <- g_mer_r N cv ui uj ;;
      r' <- set_corr ind ind r ;;
      Ok (Some r')
    else Ok None.

  Fixpoint mer_corr (ind : bool) (ucv : list (V * list V)) : res (list (list (option V))) :=
    match ucv with
    | [] => Ok []
    | (ui, row) :: rest =>
        r <- mmap2 (mer_corr_entry ind ui) row (map fst rest) ;;
        more <- mer_corr ind rest ;;
        Ok (r :: more)
    end.

  Definition multi_estimate_real (k : dkind) (data : list (list V))
    : res (list (leaf V) * list (list (option V))) :=
    n <- first_len data ;;
    st <- mmap (mer_stat k n) data ;;
    nn1 <- g_mer_nn1 N n ;;
    ucv <- mer_ucv nn1 (map snd st) ;;
    df <- g_mer_df N n ;;
    leaves <- mmap2 (fun s uc => elementary (fst s) (fst uc) df (g_mer_indep N)) st ucv ;;
    (* real_ensemble: all members were just created dependent with the same df: assertions hold *)
    rows <- mer_corr (g_mer_indep N) ucv ;;
    Ok (leaves, rows).

  (* ---------- multi_estimate_complex ---------- *)
  Fixpoint mec_split (n : Z) (data : list (list (V * V))) : res (list (list V)) :=
    match data with
    | [] => Ok []
    | s :: rest =>
        if negb (Z.eqb (len s) n) then Err RuntimeError else
        more <- mec_split n rest ;;
        Ok (map fst s :: map snd s :: more)
    end.

  Definition mec_dev_u (nn1 : Z) (mx : V * list V) : res (list V * V) :=
    dev <- mmap (fun xij => g_mec_dev N (fst mx) xij) (snd mx) ;;
    u <- g_mec_u N nn1 dev ;;
    Ok (dev, u).

  (* UncertainComplex._elementary for consecutive (re, im) rows *)
  Fixpoint mec_leaves (n1 : Z) (mu : list (V * (list V * V))) : res (list (leaf V)) :=
    match mu with
    | (mre, (_, ure)) :: (mim, (_, uim)) :: rest =>
        re <- elementary mre ure n1 (g_mec_indep N) ;;
        im <- elementary mim uim n1 (g_mec_indep N) ;;
        _ <- (if g_mec_indep N then Err AttributeError else Ok tt) ;;
        more <- mec_leaves n1 rest ;;
        Ok (re :: im :: more)
    | _ => Ok []
    end.

  (* entry for the pair (i, j), j = i + 1 + (position in the row): i even and first position
     = the (re, im) pair of one number, whose register was initialised with r0 *)
  Definition mec_corr_entry (nn1 : Z) (di : list V) (ui : V) (partner : bool) (dj_uj : list V * V)
    : res (option V) :=
    cv <- g_mec_cv N nn1 di (fst dj_uj) ;;
    if g_mec_guard N cv then
      r <- g_mec_r N cv ui (snd dj_uj) ;;
      r' <- set_corr (g_mec_indep N) (g_mec_indep N) r ;;
      Ok (Some r')
    else Ok (if partner then Some (g_mec_r0 N) else None).

  Fixpoint mec_row (nn1 : Z) (di : list V) (ui : V) (partner : bool) (rest : list (list V * V))
    : res (list (option V)) :=
    match rest with
    | [] => Ok []
    | x :: rest' =>
        e <- mec_corr_entry nn1 di ui partner x ;;
        more <- mec_row nn1 di ui false rest' ;;
        Ok (e :: more)
    end.

  Fixpoint mec_corr (nn1 : Z) (even : bool) (du : list (list V * V)) : res (list (list (option V))) :=
    match du with
    | [] => Ok []
    | (di, ui) :: rest =>
        r <- mec_row nn1 di ui even rest ;;
        more <- mec_corr nn1 (negb even) rest ;;
        Ok (r :: more)
    end.

  Definition multi_estimate_complex (data : list (list (V * V)))
    : res (list (leaf V) * list (list (option V))) :=
    n <- first_len data ;;
    x <- mec_split n data ;;
    n1 <- g_mec_n1 N n ;;
    nn1 <- g_mec_nn1 N n n1 ;;
    means <- mmap (g_mec_mean N n) x ;;
    du <- mmap (mec_dev_u nn1) (combine means x) ;;
    leaves <- mec_leaves n1 (combine means du) ;;
    rows <- mec_corr nn1 true du ;;
    (* complex_ensemble: members dependent (checked above), same df *)
    Ok (leaves, rows).

  (* ---------- one entry point for the correspondence run ---------- *)
  Definition corr_obs (rows : list (list (option V))) : list (list V) :=
    map (map (fun o => match o with Some r => r | None => zero end)) rows.

  (* real_ensemble(rtn, df) / complex_ensemble(rtn, df): every returned component's Leaf gets the
     set of the uids of all returned components (observed as sorted positions in the result);
     the numbers made by estimate / estimate_digitized belong to no ensemble *)
  Definition ens_all {A} (lv : list A) : list (list Z) :=
    map (fun _ => map Z.of_nat (seq 0 (length lv))) lv.
  Definition ens_none {A} (lv : list A) : list (list Z) := map (fun _ => []) lv.

  Definition lift {A} (r : res A) (f : A -> out V) : out V :=
    match r with Ok a => f a | Err e => OExn e end.

  Definition run (c : call V) : out V :=
    match c with
    | CMean k l => lift (mean_real k l) (fun m => ONums [m])
    | CMeanC l => lift (mean_cplx l) (fun m => ONums [fst m; snd m])
    | CSd k l mu => lift (sd_real k l mu) (fun s => ONums [s])
    | CSdC l mu => lift (sd_cplx l mu) (fun '(a, b, r) => ONums [a; b; r])
    | CSu k l mu => lift (su_real k l mu) (fun s => ONums [s])
    | CSuC l mu => lift (su_cplx l mu) (fun '(a, b, r) => ONums [a; b; r])
    | CVcc l mu => lift (vcc l mu) (fun '(a, b, c, d) => ONums [a; b; c; d])
    | CEst l => lift (estimate_real l) (fun lf => OLeaves [lf] [] [[]])
    | CEstC l => lift (estimate_cplx l)
                      (fun '(re, im, o) => OLeaves [re; im] [[match o with Some r => r | None => zero end]] [[]; []])
    | CDig l d t => lift (estimate_digitized l d t) (fun lf => OLeaves [lf] [] [[]])
    | CMulti k ls => lift (multi_estimate_real k ls) (fun '(lv, rows) => OLeaves lv (corr_obs rows) (ens_all lv))
    | CMultiC ls => lift (multi_estimate_complex ls) (fun '(lv, rows) => OLeaves lv (corr_obs rows) (ens_all lv))
    end.

  (* ---------- comparing outputs ---------- *)
  Fixpoint list_eqb {A} (eq : A -> A -> bool) (a b : list A) : bool :=
    match a, b with
    | [], [] => true
    | x :: a', y :: b' => eq x y && list_eqb eq a' b'
    | _, _ => false
    end.
  Definition leaf_eqb (a b : leaf V) : bool :=
    same N (lx a) (lx b) && same N (lu a) (lu b) && same N (ldf a) (ldf b) && Bool.eqb (lind a) (lind b).
  Definition out_eqb (a b : out V) : bool :=
    match a, b with
    | OExn e, OExn e' => exn_eqb e e'
    | ONums l, ONums l' => list_eqb (same N) l l'
    | OLeaves l c e, OLeaves l' c' e' =>
        list_eqb leaf_eqb l l' && list_eqb (list_eqb (same N)) c c' && list_eqb (list_eqb Z.eqb) e e'
    | _, _ => false
    end.
End TypeAEst.

(* one correspondence case: -1 = the model's output is identical to the implementation's *)
From GTCV Require Import FNum.
From Coq Require Import PrimFloat.
Definition ta_case (tbl : list oracle_entry) (c : call float) (expected : out float) : Z :=
  if out_eqb (FNum tbl) (run (FNum tbl) c) expected then (-1)%Z else 0%Z.
Definition ta_model (tbl : list oracle_entry) (c : call float) : out float := run (FNum tbl) c.

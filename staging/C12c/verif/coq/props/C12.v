(* props/C12.v -- Property C12: Type-A estimates reproduce the sample statistics, jointly and
   under combination.  Statements only (closed by lemmas of TypeAEstFacts.v), non-vacuity
   examples, and the axioms each depends on.  Everything is about the model TypeAEst.v evaluated
   over the reals (RNum) -- its formula bodies are regenerated from GTC/type_a.py on every run
   (gen/Gen_type_a_est.v) -- except the one floating-point witness at the end.
   Specifications: meanR, scov (sample covariance, divisor N-1), svar, comb (the series
   j |-> sum_k a_k D_k[j]), lpu (the LPU double sum), cov_of (u_i u_j r_ij as set by the estimator). *)
From Coq Require Import ZArith List Bool Reals Lra Lia.
From GTCV Require Import Num RNum FNum TypeAPre TypeAEst TypeAEstFacts.
From GTCV.gen Require Import Gen_type_a_est.
Import ListNotations.
Local Open Scope R_scope.

(* (1) estimate, real data: sample mean, s/sqrt N, N-1 degrees of freedom -- every N >= 2 *)
Theorem C12_estimate_real :
  forall l : list R, (2 <= length l)%nat ->
    estimate_real RNum l = Ok (mkLeaf (meanR l) (sqrt (svar l) / sqrt (lenR l)) (lenR l - 1) true).
Proof. exact estimate_real_R. Qed.
Print Assumptions C12_estimate_real.

Theorem C12_estimate_real_short :
  forall l : list R, (length l <= 1)%nat -> estimate_real RNum l = Err RuntimeError.
Proof. exact estimate_real_short. Qed.
Print Assumptions C12_estimate_real_short.

(* (2) estimate, complex data, EVERY sample with N >= 2: the two components carry the 2x2 covariance
   matrix of the mean and are ALWAYS declared as one dependent pair (never two independent inputs),
   with the sample correlation -- 0 included -- in the correlation register.  History: sample
   covariance exactly 0 first raised AttributeError (fixed finding C12-estimate-complex-r0), then
   gave independent components, so that combinations such as (1+2j)*z or z.real+z.imag had dof
   3.69 / 4.41 instead of N-1 = 3 on [1+2j,-1+2j,1-2j,-1-2j] (fixed finding
   C12-estimate-complex-zero-cov-dof).  A dependent pair with common dof is the precondition under which the
   kernel gives every combination N-1 dof (C05; tied for this estimator at session level by the
   correspondence run). *)
Theorem C12_estimate_complex :
  forall l : list (R * R), (2 <= length l)%nat ->
    let re := res_ l in let im := ims_ l in let n := lenR l in
    exists lre lim r,
      estimate_cplx RNum l = Ok (lre, lim, Some r)
      /\ lx lre = meanR re /\ lx lim = meanR im /\ ldf lre = n - 1 /\ ldf lim = n - 1
      /\ lu lre * lu lre = svar re / n /\ lu lim * lu lim = svar im / n
      /\ lu lre * lu lim * r = ccov l / n
      /\ lind lre = false /\ lind lim = false /\ (ccov l = 0 -> r = 0).
Proof. exact estimate_cplx_full. Qed.
Print Assumptions C12_estimate_complex.

(* zero sample covariance with BOTH components varying (the symmetric design +-1 +-2j): one dependent
   pair, r = 0, u = (sqrt(4/3)/2, sqrt(16/3)/2) *)
Example C12_estimate_complex_symmetric_design :
  exists lre lim,
    estimate_cplx RNum [(1, 2); (-1, 2); (1, -2); (-1, -2)] = Ok (lre, lim, Some 0)
    /\ lind lre = false /\ lind lim = false /\ lu lre * lu lre = / 3 /\ lu lim * lu lim = 4 / 3.
Proof.
  set (l := [(1, 2); (-1, 2); (1, -2); (-1, -2)]).
  assert (ccov l = 0) as Hc by (unfold l, ccov, scov, meanR, lenR, len; cbn; field).
  destruct (estimate_cplx_full l) as (lre & lim & r & E & _ & _ & _ & _ & Ur & Ui & _ & Ir & Ii & Hr); [cbn; auto|].
  rewrite (Hr Hc) in E. exists lre, lim. split; [exact E|]. split; [exact Ir|]. split; [exact Ii|].
  rewrite Ur, Ui. unfold l, svar, scov, meanR, lenR, len. cbn. split; field.
Qed.

(* the input that used to raise AttributeError (constant imaginary component) *)
Example C12_estimate_complex_constant_component :
  exists lre lim, estimate_cplx RNum [(1, 1); (2, 1)] = Ok (lre, lim, Some 0) /\ lind lre = false /\ lu lim * lu lim = 0.
Proof.
  set (l := [(1, 1); (2, 1)]).
  assert (ccov l = 0) as Hc by (unfold l, ccov, scov, meanR, lenR, len; cbn; field).
  destruct (estimate_cplx_full l) as (lre & lim & r & E & _ & _ & _ & _ & Ur & Ui & _ & Ir & Ii & Hr); [cbn; auto|].
  rewrite (Hr Hc) in E. exists lre, lim. split; [exact E|]. split; [exact Ir|].
  rewrite Ui. unfold l, svar, scov, meanR, lenR, len. cbn. field.
Qed.

(* (3) mean, standard_deviation, standard_uncertainty, variance_covariance_complex agree with
   these, whatever the kind of data (floats / uncertain numbers: only values are used) *)
Theorem C12_mean : forall k (l : list R), l <> [] -> mean_real RNum k l = Ok (meanR l).
Proof. exact mean_real_R. Qed.
Print Assumptions C12_mean.
Theorem C12_standard_deviation :
  forall k (l : list R), (2 <= length l)%nat -> sd_real RNum k l None = Ok (sqrt (svar l)).
Proof. intros. rewrite sd_real_R by assumption. reflexivity. Qed.
Print Assumptions C12_standard_deviation.
Theorem C12_standard_uncertainty :
  forall k (l : list R), (2 <= length l)%nat -> su_real RNum k l None = Ok (sqrt (svar l) / sqrt (lenR l)).
Proof. intros. rewrite su_real_R by assumption. reflexivity. Qed.
Print Assumptions C12_standard_uncertainty.
Theorem C12_variance_covariance_complex :
  forall l : list (R * R), (2 <= length l)%nat ->
    vcc RNum l None = Ok (svar (res_ l), ccov l, ccov l, svar (ims_ l)).
Proof.
  intros l H. rewrite vcc_R by assumption. cbn [cmu_or fst snd].
  unfold svar, ccov, scov, ssd, sxy. rewrite lenR_res, lenR_ims. reflexivity.
Qed.
Print Assumptions C12_variance_covariance_complex.
Theorem C12_standard_deviation_complex :
  forall l mu, (2 <= length l)%nat -> sd_cplx RNum l mu = sdc_spec (cmu_or mu l) l.
Proof. exact sd_cplx_R. Qed.
Print Assumptions C12_standard_deviation_complex.

(* (4) multi_estimate_real in closed form, every M >= 1 and N >= 2: means, u_k = sqrt(S_kk/(N(N-1))),
   df = N-1, dependent, and r_kl = cv/(u_k u_l) set exactly when cv != 0 (never a ZeroDivisionError,
   never |r| > 1 in exact arithmetic: Cauchy-Schwarz) *)
Theorem C12_multi_estimate_real :
  forall k (D : list (list R)) n, (2 <= n)%Z -> D <> [] -> Forall (fun s => len s = n) D ->
    multi_estimate_real RNum k D = Ok (map (leafS n) D, rowsS (NN1 n) (map devS D)).
Proof. exact multi_estimate_real_R. Qed.
Print Assumptions C12_multi_estimate_real.

Theorem C12_multi_u :
  forall n s, (2 <= n)%Z -> len s = n -> lu (leafS n s) = sqrt (svar s / IZR n) /\ lx (leafS n s) = meanR s
                                        /\ ldf (leafS n s) = IZR n - 1.
Proof. intros n s Hn L. split; [apply uS_svar; assumption|]. split; [reflexivity|apply IZR_pred]. Qed.
Print Assumptions C12_multi_u.

(* C12_multi_cov: cov(x_k, x_l) = u_k u_l r_kl = S_kl / (N (N-1)) = scov / N *)
Theorem C12_multi_cov :
  forall k (D : list (list R)) n i j,
    (2 <= n)%Z -> Forall (fun s => len s = n) D -> (i < length D)%nat -> (j < length D)%nat ->
    forall res, multi_estimate_real RNum k D = Ok res ->
    cov_of res i j = scov (nth i D []) (nth j D []) / IZR n.
Proof. exact multi_real_cov. Qed.
Print Assumptions C12_multi_cov.

(* (5) C12_linear: for ANY linear combinations y = sum a_k x_k, z = sum b_k x_k of the returned
   numbers: the value is the mean of the combined sample, the LPU (co)variance computed from the
   u, r the estimator set is the sample (co)variance of the combined samples over N, and the
   degrees of freedom are N-1 -- i.e. what estimate() gives for the combined sample (1).
   k_cov / k_dof stand for the uncertain-number kernel; the two hypotheses are the statements of
   C04 (LPU double sum) and C05 (one ensemble => one Welch-Satterthwaite term). *)
Theorem C12_linear :
  forall (k_cov : mres -> list R -> list R -> R) (k_dof : mres -> list R -> R),
    (forall m a b, k_cov m a b = lpu (length (fst m)) (cov_of m) a b) ->
    (forall m a nu, Forall (fun lf => ldf lf = nu /\ lind lf = false) (fst m) -> k_cov m a a <> 0 -> k_dof m a = nu) ->
    forall k (D : list (list R)) n a b res,
      (2 <= n)%Z -> Forall (fun s => len s = n) D -> D <> [] ->
      length a = length D -> length b = length D ->
      multi_estimate_real RNum k D = Ok res ->
      let N := Z.to_nat n in
      Rsum (zipw Rmult a (map lx (fst res))) = meanR (comb a D N)
      /\ k_cov res a b = scov (comb a D N) (comb b D N) / IZR n
      /\ (k_cov res a a <> 0 -> k_dof res a = IZR n - 1).
Proof. exact multi_real_linear. Qed.
Print Assumptions C12_linear.

(* the purely statistical core of (5): bilinearity of the sample covariance, any M, any N >= 2 *)
Theorem C12_scov_bilinear :
  forall a b (D : list (list R)) n, (2 <= n)%nat -> Forall (fun d => length d = n) D ->
    scov (comb a D n) (comb b D n) = wsum a D (fun d => wsum b D (fun e => scov d e)).
Proof. exact scov_comb. Qed.
Print Assumptions C12_scov_bilinear.

(* (6) multi_estimate_complex (partial): its formulas are those of multi_estimate_real applied to
   the 2M component series; every correlation it sets satisfies u_i u_j r_ij = S_ij/(N(N-1)).
   The assembly of the whole 2M x 2M matrix is tied by the correspondence run only. *)
Theorem C12_multi_complex_entry_partial :
  forall n, (2 <= n)%Z -> forall (s t : list R) partner, len s = n -> len t = n ->
    exists o,
      mec_corr_entry RNum (n * (n - 1)) (ndevS s) (uS (NN1 n) (ndevS s)) partner (ndevS t, uS (NN1 n) (ndevS t)) = Ok o
      /\ uS (NN1 n) (ndevS s) * uS (NN1 n) (ndevS t) * (match o with Some r => r | None => 0 end) = scov s t / IZR n
      /\ uS (NN1 n) (ndevS s) = sqrt (svar s / IZR n).
Proof.
  intros n Hn s t partner Ls Lt.
  assert (length (ndevS s) = length (ndevS t)) as L.
  { unfold ndevS. rewrite !map_length. rewrite (len_length s n Ls), (len_length t n Lt). reflexivity. }
  eexists. split; [apply (mec_corr_entry_R n Hn _ _ partner L)|].
  apply (mec_entry_cov n Hn s t); try assumption.
  destruct (entryS (NN1 n) (ndevS s) (ndevS t)) eqn:E; [left; reflexivity|].
  destruct partner; [right; split; reflexivity|left; reflexivity].
Qed.
Print Assumptions C12_multi_complex_entry_partial.

(* (7) estimate_digitized never reports less than the plain type-A uncertainty of the mean *)
Theorem C12_digitized :
  forall (l : list R) delta tr lf, (2 <= length l)%nat ->
    estimate_digitized RNum l delta tr = Ok lf ->
    lx lf = (if tr then meanR l + delta / 2 else meanR l)
    /\ sqrt (svar l) / sqrt (lenR l) <= lu lf
    /\ ldf lf = lenR l - 1 /\ lind lf = true.
Proof. exact estimate_digitized_R. Qed.
Print Assumptions C12_digitized.

(* ---------------- non-vacuity ---------------- *)
Definition exD : list (list R) := [[1; 2; 4]; [2; 1; 5]; [3; 3; 3]].

Example C12_multi_nonvacuous :
  exists res, multi_estimate_real RNum KFloat exD = Ok res /\ length (fst res) = 3%nat.
Proof.
  eexists. split.
  - apply (multi_estimate_real_R KFloat exD 3); [lia|discriminate|].
    repeat constructor.
  - reflexivity.
Qed.

(* the two kernel hypotheses of C12_linear are satisfiable (so the theorem is not vacuous): *)
Definition ex_cov (m : mres) (a b : list R) : R := lpu (length (fst m)) (cov_of m) a b.
Definition ex_dof (m : mres) (a : list R) : R := match fst m with lf :: _ => ldf lf | [] => 0 end.
Example C12_linear_hypotheses_satisfiable :
  (forall m a b, ex_cov m a b = lpu (length (fst m)) (cov_of m) a b) /\
  (forall m a nu, Forall (fun lf => ldf lf = nu /\ lind lf = false) (fst m) -> ex_cov m a a <> 0 -> ex_dof m a = nu).
Proof.
  split; [reflexivity|]. intros [lv rows] a nu F Hc. unfold ex_dof. cbn [fst] in *.
  destruct lv as [|lf lv].
  - exfalso. apply Hc. reflexivity.
  - inversion F as [|? ? [E _] _]. exact E.
Qed.

Example C12_digitized_nonvacuous :
  exists lf, estimate_digitized RNum [1; 1; 1; 1] 1 false = Ok lf.
Proof.
  eexists. unfold estimate_digitized, g_dig_guard. cbn [len length Z.of_nat Pos.of_succ_nat Pos.succ Z.ltb Z.compare Pos.compare Pos.compare_cont bind].
  rewrite mean_real_R by discriminate. cbn [bind].
  unfold g_dig_body. rewrite R_eqb_true by (cbn; unfold Rltb; repeat (destruct Rlt_dec; try lra)).
  cbn [Z.eqb Z.leb Z.compare Pos.compare Pos.compare_cont Pos.eqb].
  rewrite R_div_ok by (cbn; lra). cbn [bind].
  rewrite R_sqrt_ok by (cbn; lra). cbn [bind]. cbv zeta. cbn [bind].
  unfold elementary. cbn [Z.ltb Z.sub Z.compare Z.pos_sub Pos.pred_double Z.succ_double Z.pred_double Z.double Pos.compare Pos.compare_cont].
  rewrite R_ltb_false; [reflexivity|].
  rewrite zero_R. cbn. apply Rmult_le_pos; [apply sqrt_pos|lra].
Qed.

(* ---------------- floating point: exactly collinear series ---------------- *)
(* Formerly C12_multi_collinear_refuted_float (fixed finding C12-multi-collinear-valueerror): in
   binary64 r = cv/(u_a u_b) rounds to 1 + 2^-52 for the exactly collinear sample
   a = [0.75, 2, -1.5], b = 2a, and set_correlation_real rejected it.  The estimators now pass r
   through _clip_r (generated as g_clip_r).  For EVERY binary64 r and every oracle table: the clipped
   value is r itself or exactly +-1, and a ValueError after clipping can only come from a value
   _clip_r left unchanged (outside the rounding band); on the old witness the same FNum model now
   returns the two numbers with correlation exactly 1. *)
From Coq Require Import PrimFloat.
Theorem C12_clip_float :
  forall tbl (r : PrimFloat.float),
    exists c, g_clip_r (FNum tbl) r = Ok c /\
              (c = r \/ c = 1%float \/ c = (-1)%float) /\
              (set_corr (FNum tbl) false false c = Err ValueError -> c = r).
Proof.
  intros tbl r. destruct (clip_float_cases tbl r) as (c & E & Hc).
  destruct (clip_float_no_rounding_error tbl r) as (c' & E' & Hs).
  rewrite E in E'. injection E' as <-. exists c. auto.
Qed.
Print Assumptions C12_clip_float.

(* and in exact arithmetic the clip never acts on what the estimators compute (|r| <= 1) *)
Theorem C12_clip_identity_on_unit_interval : forall r : R, Rabs r <= 1 -> g_clip_r RNum r = Ok r.
Proof. exact g_clip_r_R. Qed.
Print Assumptions C12_clip_identity_on_unit_interval.

Local Close Scope R_scope.
Local Open Scope float_scope.
Definition collinear_tbl : list oracle_entry :=
  [(F_sqrt, [0x1.0c71c71c71c72p+0], Ok 0x1.0625fccfd312bp+0); (F_sqrt, [0x1.0c71c71c71c72p+2], Ok 0x1.0625fccfd312bp+1);
   (F_pow, [0x1.5555555555555p-2; 0x1.0000000000000p+1], Ok 0x1.c71c71c71c71cp-4);
   (F_pow, [0x1.9555555555555p+0; 0x1.0000000000000p+1], Ok 0x1.40e38e38e38e3p+1);
   (F_pow, [(-0x1.eaaaaaaaaaaabp+0); 0x1.0000000000000p+1], Ok 0x1.d638e38e38e3ap+1);
   (F_pow, [0x1.5555555555555p-1; 0x1.0000000000000p+1], Ok 0x1.c71c71c71c71cp-2);
   (F_pow, [0x1.9555555555555p+1; 0x1.0000000000000p+1], Ok 0x1.40e38e38e38e3p+3);
   (F_pow, [(-0x1.eaaaaaaaaaaabp+1); 0x1.0000000000000p+1], Ok 0x1.d638e38e38e3ap+3)].
Example C12_multi_collinear_float :
  run (FNum collinear_tbl)
      (CMulti KFloat [[0x1.8p-1; 0x1p+1; (-0x1.8p+0)]; [0x1.8p+0; 0x1p+2; (-0x1.8p+1)]])
  = OLeaves [mkLeaf 0x1.aaaaaaaaaaaabp-2 0x1.0625fccfd312bp+0 0x1p+1 false;
             mkLeaf 0x1.aaaaaaaaaaaabp-1 0x1.0625fccfd312bp+1 0x1p+1 false]
            [[0x1p+0]; []] [[0%Z; 1%Z]; [0%Z; 1%Z]].
Proof. vm_compute. reflexivity. Qed.

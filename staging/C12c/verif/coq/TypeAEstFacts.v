(* TypeAEstFacts.v -- what the estimator model (TypeAEst.v, with the formula bodies generated
   from GTC/type_a.py) computes when arithmetic is exact: theorems about the RNum instance.
   Specifications: Rsum, meanR, devs, dot, scov (sample covariance), comb (linear combination of
   series).  Everything is by list induction: no bound on N or M. *)
From Coq Require Import ZArith List Bool Reals Lia Lra Psatz.
From GTCV Require Import Num RNum TypeAPre TypeAEst DerivTable.
From GTCV.gen Require Import Gen_type_a_est.
Import ListNotations.
Local Open Scope R_scope.

(* ================= specifications ================= *)
Definition Rsum (l : list R) : R := fold_right Rplus 0 l.
Definition lenR {A} (l : list A) : R := IZR (len l).
Definition meanR (l : list R) : R := Rsum l / lenR l.
Definition devs (mu : R) (l : list R) : list R := map (fun x => x - mu) l.
Fixpoint dot (x y : list R) : R :=
  match x, y with a :: x', b :: y' => a * b + dot x' y' | _, _ => 0 end.
(* sample covariance of two series of the same length N (divisor N - 1) *)
Definition scov (x y : list R) : R := dot (devs (meanR x) x) (devs (meanR y) y) / (lenR x - 1).
Definition svar (x : list R) : R := scov x x.

(* ================= the RNum primitives ================= *)
Lemma zero_R : zero RNum = 0.
Proof. unfold zero. cbn. lra. Qed.
Lemma one_R : one RNum = 1.
Proof. unfold one. cbn. lra. Qed.
Lemma dyad00 : dyad RNum 0 0 = 0.
Proof. cbn. lra. Qed.

Lemma R_div_ok x y : y <> 0 -> div RNum x y = Ok (x / y).
Proof. intros H. cbn. unfold R_div. destruct (Req_EM_T y 0); [contradiction|reflexivity]. Qed.
Lemma R_div_zero x : div RNum x 0 = Err ZeroDivisionError.
Proof. cbn. unfold R_div. destruct (Req_EM_T 0 0); [reflexivity|contradiction]. Qed.
Lemma R_sqrt_ok x : 0 <= x -> libm1 RNum F_sqrt x = Ok (sqrt x).
Proof. intros H. cbn. destruct (Rle_dec 0 x); [reflexivity|contradiction]. Qed.
Lemma R_pow2 x : libm2 RNum F_pow x (of_Z RNum 2) = Ok (x * x).
Proof. cbn. apply pow_R_2. Qed.
Lemma R_eqb_true x y : x = y -> eqb RNum x y = true.
Proof. intros ->. cbn. unfold Reqb. destruct (Req_EM_T y y); [reflexivity|contradiction]. Qed.
Lemma R_eqb_false x y : x <> y -> eqb RNum x y = false.
Proof. intros H. cbn. unfold Reqb. destruct (Req_EM_T x y); [contradiction|reflexivity]. Qed.
Lemma R_ltb_false x y : y <= x -> ltb RNum x y = false.
Proof. intros H. cbn. unfold Rltb. destruct (Rlt_dec x y); [lra|reflexivity]. Qed.
Lemma R_ltb_true x y : x < y -> ltb RNum x y = true.
Proof. intros H. cbn. unfold Rltb. destruct (Rlt_dec x y); [reflexivity|lra]. Qed.

Lemma len_cons {A} (a : A) l : len (a :: l) = (len l + 1)%Z.
Proof. unfold len. cbn [length]. lia. Qed.
Lemma len_nonneg {A} (l : list A) : (0 <= len l)%Z.
Proof. unfold len. lia. Qed.
Lemma lenR_cons {A} (a : A) l : lenR (a :: l) = lenR l + 1.
Proof. unfold lenR. rewrite len_cons, plus_IZR. reflexivity. Qed.
Lemma lenR_nonneg {A} (l : list A) : 0 <= lenR l.
Proof. unfold lenR. apply IZR_le, len_nonneg. Qed.
Lemma lenR_pos {A} (l : list A) : l <> [] -> 0 < lenR l.
Proof. destruct l; [congruence|]. intros _. rewrite lenR_cons. pose proof (lenR_nonneg l). lra. Qed.
Lemma lenR_ge2 {A} (l : list A) : (2 <= length l)%nat -> 2 <= lenR l.
Proof. intros H. unfold lenR, len. apply IZR_le. lia. Qed.
Lemma lenR_map {A B} (f : A -> B) l : lenR (map f l) = lenR l.
Proof. unfold lenR, len. rewrite map_length. reflexivity. Qed.

(* ================= combinators over pure steps ================= *)
Lemma mfoldl_add {B} (f : R -> B -> res R) (g : B -> R) l :
  (forall a x, f a x = Ok (a + g x)) -> forall a, mfoldl f l a = Ok (a + Rsum (map g l)).
Proof.
  intros H. induction l as [|x l IH]; intros a; cbn.
  - f_equal. lra.
  - rewrite H. cbn. rewrite IH. f_equal. unfold Rsum. lra.
Qed.
Lemma mmap_pure {A B} (f : A -> res B) (g : A -> B) l :
  (forall x, In x l -> f x = Ok (g x)) -> mmap f l = Ok (map g l).
Proof.
  induction l as [|x l IH]; intros H; cbn; [reflexivity|].
  rewrite H by (left; reflexivity). cbn. rewrite IH by (intros; apply H; right; assumption). reflexivity.
Qed.
Fixpoint zipw {A B C} (f : A -> B -> C) (l1 : list A) (l2 : list B) : list C :=
  match l1, l2 with x :: l1', y :: l2' => f x y :: zipw f l1' l2' | _, _ => [] end.
Lemma mmap2_pure {A B C} (f : A -> B -> res C) (g : A -> B -> C) l1 l2 :
  (forall x y, In x l1 -> In y l2 -> f x y = Ok (g x y)) -> mmap2 f l1 l2 = Ok (zipw g l1 l2).
Proof.
  revert l2. induction l1 as [|x l1 IH]; intros [|y l2] H; cbn; try reflexivity.
  rewrite H by (left; reflexivity). cbn.
  rewrite IH by (intros; apply H; right; assumption). reflexivity.
Qed.
Lemma zipw_length {A B C} (f : A -> B -> C) l1 l2 :
  length l1 = length l2 -> length (zipw f l1 l2) = length l1.
Proof. revert l2. induction l1; intros [|] H; cbn in *; try congruence. f_equal. apply IHl1. lia. Qed.

Lemma Rsum_dot_sq mu l : Rsum (map (fun x => (x - mu) * (x - mu)) l) = dot (devs mu l) (devs mu l).
Proof. induction l; cbn; [reflexivity|]. unfold Rsum in IHl. rewrite IHl. reflexivity. Qed.
Lemma Rsum_sq_dot d : Rsum (map (fun x => x * x) d) = dot d d.
Proof. induction d; cbn; [reflexivity|]. unfold Rsum in IHd. rewrite IHd. reflexivity. Qed.
Lemma Rsum_zipw_dot d e : Rsum (zipw Rmult d e) = dot d e.
Proof. revert e. induction d; intros [|]; cbn; try reflexivity. unfold Rsum in IHd. rewrite IHd. reflexivity. Qed.
Lemma dot_comm x y : dot x y = dot y x.
Proof. revert y. induction x; intros [|]; cbn; try reflexivity. rewrite IHx. ring. Qed.
Lemma dot_self_nonneg d : 0 <= dot d d.
Proof. induction d; cbn; [lra|]. nra. Qed.
Lemma dot_self_zero d e : dot d d = 0 -> dot d e = 0.
Proof.
  revert e. induction d as [|a d IH]; intros [|b e] H; cbn in *; try reflexivity.
  pose proof (dot_self_nonneg d). assert (a = 0) by nra. assert (dot d d = 0) by nra.
  subst. rewrite IH by assumption. ring.
Qed.

(* Cauchy-Schwarz for lists of the same length *)
Lemma dot_lin t d e : length d = length e ->
  dot (zipw (fun a b => t * a + b) d e) (zipw (fun a b => t * a + b) d e)
  = t * t * dot d d + 2 * t * dot d e + dot e e.
Proof.
  revert e. induction d as [|a d IH]; intros [|b e] H; cbn in *; try discriminate; [ring|].
  rewrite IH by lia. ring.
Qed.
Lemma cauchy_schwarz d e : length d = length e -> dot d e * dot d e <= dot d d * dot e e.
Proof.
  intros H.
  destruct (Req_dec (dot d d) 0) as [Z|NZ].
  - rewrite (dot_self_zero d e Z), Z. lra.
  - pose proof (dot_self_nonneg d) as Hd.
    pose proof (dot_self_nonneg (zipw (fun a b => (- dot d e / dot d d) * a + b) d e)) as Hq.
    rewrite dot_lin in Hq by assumption.
    assert (0 < dot d d) as Hp by lra.
    replace (- dot d e / dot d d * (- dot d e / dot d d) * dot d d + 2 * (- dot d e / dot d d) * dot d e + dot e e)
      with (dot e e - dot d e * dot d e / dot d d) in Hq by (field; lra).
    assert (dot d e * dot d e / dot d d <= dot e e) as H1 by lra.
    apply (Rmult_le_compat_r (dot d d)) in H1; [|lra].
    replace (dot d e * dot d e / dot d d * dot d d) with (dot d e * dot d e) in H1 by (field; lra).
    lra.
Qed.

(* ================= builtin sum and the means ================= *)
Lemma neumaier_R l : forall f, neumaier RNum l f 0 = f + Rsum l.
Proof.
  induction l as [|x l IH]; intros f; cbn [neumaier Rsum fold_right].
  - rewrite R_eqb_true by (rewrite zero_R; reflexivity). cbn. lra.
  - match goal with |- neumaier _ _ _ ?c = _ => replace c with 0 end.
    + rewrite IH. cbn. fold (Rsum l). lra.
    + cbn. destruct (Rleb (Rabs x) (Rabs f)); lra.
Qed.
Lemma fold_left_add_R l : forall a, fold_left (add RNum) l a = a + Rsum l.
Proof. induction l; intros; cbn; [lra|]. rewrite IHl. cbn. fold (Rsum l). lra. Qed.
Lemma py_sum_R k l : py_sum RNum k l = Rsum l.
Proof.
  destruct l as [|x l]; [reflexivity|]. destruct k; cbn [py_sum].
  - rewrite zero_R, neumaier_R. cbn. fold (Rsum l). lra.
  - rewrite fold_left_add_R. reflexivity.
Qed.
Lemma lenR_neq0 {A} (l : list A) : l <> [] -> IZR (len l) <> 0.
Proof. intros H. pose proof (lenR_pos l H). unfold lenR in *. lra. Qed.

Lemma mean_real_R k l : l <> [] -> mean_real RNum k l = Ok (meanR l).
Proof.
  intros H. unfold mean_real, g_mean_div. rewrite py_sum_R.
  change (of_Z RNum (len l)) with (IZR (len l)). rewrite R_div_ok by (apply lenR_neq0; assumption).
  reflexivity.
Qed.

(* ================= standard_deviation, standard_uncertainty, estimate (real) ================= *)
Lemma sumsq_fold l mu a :
  mfoldl (fun psum x => p <- libm2 RNum F_pow (sub RNum x mu) (of_Z RNum 2) ;; Ok (add RNum psum p)) l a
  = Ok (a + dot (devs mu l) (devs mu l)).
Proof.
  rewrite (mfoldl_add _ (fun x => (x - mu) * (x - mu))).
  - rewrite Rsum_dot_sq. reflexivity.
  - intros. rewrite R_pow2. reflexivity.
Qed.

Definition ssd (mu : R) (l : list R) : R := dot (devs mu l) (devs mu l).
Lemma ssd_nonneg mu l : 0 <= ssd mu l.
Proof. apply dot_self_nonneg. Qed.

Lemma IZR_pred n : IZR (n - 1) = IZR n - 1.
Proof. rewrite minus_IZR. reflexivity. Qed.

Lemma g_sd_real_R n l mu :
  (2 <= n)%Z -> g_sd_real RNum n l mu = Ok (sqrt (ssd mu l / (IZR n - 1))).
Proof.
  intros Hn. assert (1 <= IZR n - 1) as H1 by (apply IZR_le in Hn; lra).
  unfold g_sd_real. rewrite sumsq_fold. cbn [bind]. rewrite dyad00.
  change (of_Z RNum (n - 1)) with (IZR (n - 1)). rewrite IZR_pred.
  rewrite R_div_ok by lra. cbn [bind].
  fold (ssd mu l). replace (0 + ssd mu l) with (ssd mu l) by lra.
  rewrite R_sqrt_ok; [reflexivity|].
  apply Rmult_le_pos; [apply ssd_nonneg|]. left. apply Rinv_0_lt_compat. lra.
Qed.

Lemma g_sd_real_N1 l mu : g_sd_real RNum 1 l mu = Err ZeroDivisionError.
Proof.
  unfold g_sd_real. rewrite sumsq_fold. cbn [bind].
  change (of_Z RNum (1 - 1)) with 0. rewrite R_div_zero. reflexivity.
Qed.

Lemma len_ge2 {A} (l : list A) : (2 <= length l)%nat -> (2 <= len l)%Z.
Proof. unfold len. lia. Qed.
Lemma ge2_nonnil {A} (l : list A) : (2 <= length l)%nat -> l <> [].
Proof. destruct l; cbn; [lia|congruence]. Qed.
Lemma g_sd_guard_ok n : (n <> 0)%Z -> g_sd_guard RNum n = Ok tt.
Proof. intros H. unfold g_sd_guard. destruct (Z.eqb_spec n 0); [contradiction|reflexivity]. Qed.
Lemma g_su_guard_ok n : (n <> 0)%Z -> g_su_guard RNum n = Ok tt.
Proof. intros H. unfold g_su_guard. destruct (Z.eqb_spec n 0); [contradiction|reflexivity]. Qed.

Definition mu_or (mu : option R) (l : list R) : R := match mu with Some m => m | None => meanR l end.

Lemma default_mean_R k mu l : l <> [] -> default mu (mean_real RNum k l) = Ok (mu_or mu l).
Proof. intros H. destruct mu; cbn [default mu_or]; [reflexivity|apply mean_real_R; assumption]. Qed.

Theorem sd_real_R k l mu : (2 <= length l)%nat ->
  sd_real RNum k l mu = Ok (sqrt (ssd (mu_or mu l) l / (lenR l - 1))).
Proof.
  intros H. pose proof (len_ge2 l H) as H2. unfold sd_real.
  rewrite g_sd_guard_ok by lia. cbn [bind].
  rewrite default_mean_R by (apply ge2_nonnil; assumption). cbn [bind].
  apply g_sd_real_R. assumption.
Qed.

Lemma svar_ssd l : svar l = ssd (meanR l) l / (lenR l - 1).
Proof. reflexivity. Qed.

Lemma g_su_real_R n sd : (1 <= n)%Z -> g_su_real RNum n sd = Ok (sd / sqrt (IZR n)).
Proof.
  intros Hn. apply IZR_le in Hn. unfold g_su_real. change (of_Z RNum n) with (IZR n).
  rewrite R_sqrt_ok by lra. cbn [bind].
  rewrite R_div_ok; [reflexivity|]. intros E. apply sqrt_eq_0 in E; lra.
Qed.

Theorem su_real_R k l mu : (2 <= length l)%nat ->
  su_real RNum k l mu = Ok (sqrt (ssd (mu_or mu l) l / (lenR l - 1)) / sqrt (lenR l)).
Proof.
  intros H. pose proof (len_ge2 l H) as H2. unfold su_real.
  rewrite g_su_guard_ok by lia. cbn [bind].
  rewrite default_mean_R by (apply ge2_nonnil; assumption). cbn [bind].
  rewrite sd_real_R by assumption. cbn [bind mu_or].
  apply g_su_real_R. lia.
Qed.

Lemma g_est_df_R n : (2 <= n)%Z -> g_est_df RNum n = Ok (n - 1)%Z.
Proof. intros H. unfold g_est_df. destruct (Z.leb_spec (n - 1) 0); [lia|reflexivity]. Qed.
Lemma g_est_df_small n : (n <= 1)%Z -> g_est_df RNum n = Err RuntimeError.
Proof. intros H. unfold g_est_df. destruct (Z.leb_spec (n - 1) 0); [reflexivity|lia]. Qed.

Lemma elementary_R x u df ind : (1 <= df)%Z -> 0 <= u ->
  elementary RNum x u df ind = Ok (mkLeaf x u (IZR df) ind).
Proof.
  intros Hd Hu. unfold elementary. destruct (Z.ltb_spec df 1); [lia|].
  rewrite R_ltb_false by (rewrite zero_R; assumption). reflexivity.
Qed.

Lemma su_nonneg a b : 0 <= sqrt a / sqrt b.
Proof.
  unfold Rdiv. apply Rmult_le_pos; [apply sqrt_pos|].
  destruct (Rle_lt_dec (sqrt b) 0) as [H|H].
  - assert (sqrt b = 0) by (pose proof (sqrt_pos b); lra). rewrite H0, Rinv_0. lra.
  - left. apply Rinv_0_lt_compat. assumption.
Qed.

(* estimate(seq) for real data: the sample mean, s/sqrt N, N-1, independent *)
Theorem estimate_real_R l : (2 <= length l)%nat ->
  estimate_real RNum l
  = Ok (mkLeaf (meanR l) (sqrt (svar l) / sqrt (lenR l)) (lenR l - 1) true).
Proof.
  intros H. pose proof (len_ge2 l H) as H2. unfold estimate_real.
  rewrite g_est_df_R by assumption. cbn [bind].
  rewrite mean_real_R by (apply ge2_nonnil; assumption). cbn [bind].
  rewrite su_real_R by assumption. cbn [bind mu_or].
  rewrite elementary_R; [|lia|apply su_nonneg].
  rewrite IZR_pred. reflexivity.
Qed.

Theorem estimate_real_short l : (length l <= 1)%nat -> estimate_real RNum l = Err RuntimeError.
Proof. intros H. unfold estimate_real. rewrite g_est_df_small by (unfold len; lia). reflexivity. Qed.

(* ================= complex data ================= *)
Definition res_ (l : list (R * R)) : list R := map fst l.
Definition ims_ (l : list (R * R)) : list R := map snd l.

Lemma py_sum_c_R l : py_sum_c RNum l = (Rsum (res_ l), Rsum (ims_ l)).
Proof.
  unfold py_sum_c.
  assert (forall a, fold_left (cadd RNum) l a = (fst a + Rsum (res_ l), snd a + Rsum (ims_ l))) as H.
  { induction l as [|z l IH]; intros a; cbn.
    - destruct a; cbn; f_equal; lra.
    - rewrite IH. cbn. unfold Rsum, res_, ims_. f_equal; lra. }
  rewrite H. cbn. f_equal; lra.
Qed.

Lemma cdiv_int_R a n : (n <> 0)%Z -> cdiv_int RNum a n = Ok (fst a / IZR n, snd a / IZR n).
Proof.
  intros Hn. assert (IZR n <> 0) as Hr by (intros E; apply eq_IZR_R0 in E; contradiction).
  unfold cdiv_int. change (of_Z RNum n) with (IZR n).
  rewrite R_eqb_false.
  2:{ rewrite zero_R. cbn. apply Rabs_no_R0. assumption. }
  rewrite zero_R. rewrite R_div_ok by assumption. cbn [bind].
  change (add RNum) with Rplus. change (mul RNum) with Rmult. change (sub RNum) with Rminus.
  rewrite !R_div_ok.
  - cbn [bind]. f_equal. f_equal; field; assumption.
  - replace (IZR n + 0 * (0 / IZR n)) with (IZR n) by (field; assumption). assumption.
  - replace (IZR n + 0 * (0 / IZR n)) with (IZR n) by (field; assumption). assumption.
Qed.

Lemma mean_cplx_R l : l <> [] -> mean_cplx RNum l = Ok (meanR (res_ l), meanR (ims_ l)).
Proof.
  intros H. unfold mean_cplx. destruct l as [|z l]; [congruence|].
  rewrite cdiv_int_R, py_sum_c_R.
  - cbn [fst snd]. unfold meanR, lenR, res_, ims_, len. rewrite !map_length. reflexivity.
  - unfold len. cbn [length]. lia.
Qed.

Lemma Rsum_fst_sq m (l : list (R * R)) :
  Rsum (map (fun z => (fst z - m) * (fst z - m)) l) = ssd m (res_ l).
Proof. unfold ssd. induction l; cbn; [reflexivity|]. unfold Rsum in IHl. rewrite IHl. reflexivity. Qed.
Lemma Rsum_snd_sq m (l : list (R * R)) :
  Rsum (map (fun z => (snd z - m) * (snd z - m)) l) = ssd m (ims_ l).
Proof. unfold ssd. induction l; cbn; [reflexivity|]. unfold Rsum in IHl. rewrite IHl. reflexivity. Qed.
Lemma Rsum_cross mr mi (l : list (R * R)) :
  Rsum (map (fun z => (snd z - mi) * (fst z - mr)) l) = dot (devs mr (res_ l)) (devs mi (ims_ l)).
Proof. induction l; cbn; [reflexivity|]. unfold Rsum in IHl. rewrite IHl. unfold devs, res_, ims_. ring. Qed.

Definition sxy (mr mi : R) (l : list (R * R)) : R := dot (devs mr (res_ l)) (devs mi (ims_ l)).

Lemma g_vcc_R n l mr mi : (2 <= n)%Z ->
  g_vcc RNum n l mr mi
  = Ok (ssd mr (res_ l) / (IZR n - 1), sxy mr mi l / (IZR n - 1), sxy mr mi l / (IZR n - 1),
        ssd mi (ims_ l) / (IZR n - 1)).
Proof.
  intros Hn. assert (1 <= IZR n - 1) as H1 by (apply IZR_le in Hn; lra).
  unfold g_vcc. cbv zeta. destruct (Z.leb_spec (n - 1) 0); [lia|].
  rewrite (mfoldl_add _ (fun z => (fst z - mr) * (fst z - mr))) by (intros; rewrite R_pow2; reflexivity).
  cbn [bind]. change (of_Z RNum (n - 1)) with (IZR (n - 1)). rewrite IZR_pred.
  rewrite R_div_ok by lra. cbn [bind].
  rewrite (mfoldl_add _ (fun z => (snd z - mi) * (snd z - mi))) by (intros; rewrite R_pow2; reflexivity).
  cbn [bind]. rewrite R_div_ok by lra. cbn [bind].
  rewrite (mfoldl_add _ (fun z => (snd z - mi) * (fst z - mr))) by (intros; reflexivity).
  cbn [bind]. rewrite R_div_ok by lra. cbn [bind].
  rewrite Rsum_fst_sq, Rsum_snd_sq, Rsum_cross, dyad00. fold (sxy mr mi l).
  repeat f_equal; lra.
Qed.
Lemma g_vcc_short n l mr mi : (n <= 1)%Z -> g_vcc RNum n l mr mi = Err RuntimeError.
Proof. intros H. unfold g_vcc. cbv zeta. destruct (Z.leb_spec (n - 1) 0); [reflexivity|lia]. Qed.

Definition cmu_or (mu : option (R * R)) (l : list (R * R)) : R * R :=
  match mu with Some m => m | None => (meanR (res_ l), meanR (ims_ l)) end.
Lemma default_cmean_R mu l : l <> [] -> default mu (mean_cplx RNum l) = Ok (cmu_or mu l).
Proof. intros H. destruct mu; cbn [default cmu_or]; [reflexivity|apply mean_cplx_R; assumption]. Qed.

Theorem vcc_R l mu : (2 <= length l)%nat ->
  let m := cmu_or mu l in let d := lenR l - 1 in
  vcc RNum l mu = Ok (ssd (fst m) (res_ l) / d, sxy (fst m) (snd m) l / d, sxy (fst m) (snd m) l / d,
                      ssd (snd m) (ims_ l) / d).
Proof.
  intros H m d. pose proof (len_ge2 l H) as H2. unfold vcc.
  rewrite g_vcc_R by assumption. cbn [bind].
  rewrite default_cmean_R by (apply ge2_nonnil; assumption). cbn [bind].
  rewrite g_vcc_R by assumption. reflexivity.
Qed.

Lemma g_sd_cplx_R a c b : 0 <= a -> 0 <= b ->
  g_sd_cplx RNum a c b =
  if Req_EM_T (sqrt a * sqrt b) 0
  then (if Req_EM_T c 0 then Ok (sqrt a, sqrt b, 0) else Err RuntimeError)
  else Ok (sqrt a, sqrt b, c / (sqrt a * sqrt b)).
Proof.
  intros Ha Hb. unfold g_sd_cplx. rewrite !R_sqrt_ok by assumption. cbn [bind]. cbv zeta.
  rewrite dyad00. change (mul RNum) with Rmult.
  destruct (Req_EM_T (sqrt a * sqrt b) 0) as [E|E].
  - rewrite R_eqb_true by assumption.
    destruct (Req_EM_T c 0) as [Ec|Ec].
    + rewrite R_eqb_true by assumption. reflexivity.
    + rewrite R_eqb_false by assumption. reflexivity.
  - rewrite R_eqb_false by assumption. rewrite R_div_ok by assumption. reflexivity.
Qed.

Lemma div_nonneg a d : 0 <= a -> 0 < d -> 0 <= a / d.
Proof. intros. apply Rmult_le_pos; [assumption|]. left. apply Rinv_0_lt_compat. assumption. Qed.

(* standard_deviation for complex data, as a function of the (possibly supplied) mean *)
Definition sdc_spec (m : R * R) (l : list (R * R)) : res (R * R * R) :=
  let d := lenR l - 1 in
  let a := ssd (fst m) (res_ l) / d in let b := ssd (snd m) (ims_ l) / d in
  let c := sxy (fst m) (snd m) l / d in
  if Req_EM_T (sqrt a * sqrt b) 0
  then (if Req_EM_T c 0 then Ok (sqrt a, sqrt b, 0) else Err RuntimeError)
  else Ok (sqrt a, sqrt b, c / (sqrt a * sqrt b)).

Theorem sd_cplx_R l mu : (2 <= length l)%nat -> sd_cplx RNum l mu = sdc_spec (cmu_or mu l) l.
Proof.
  intros H. pose proof (len_ge2 l H) as H2. pose proof (lenR_ge2 l H) as H3. unfold sd_cplx.
  rewrite g_sd_guard_ok by lia. cbn [bind].
  rewrite default_cmean_R by (apply ge2_nonnil; assumption). cbn [bind].
  rewrite vcc_R by assumption. cbn [bind cmu_or].
  cbn [T RNum] in *. apply g_sd_cplx_R; apply div_nonneg; try apply ssd_nonneg; lra.
Qed.

Lemma g_su_cplx_R n a b r : (1 <= n)%Z ->
  g_su_cplx RNum n a b r = Ok (a / sqrt (IZR n), b / sqrt (IZR n), r).
Proof.
  intros Hn. apply IZR_le in Hn. unfold g_su_cplx. change (of_Z RNum n) with (IZR n).
  rewrite R_sqrt_ok by lra. cbn [bind].
  assert (sqrt (IZR n) <> 0) by (intros E; apply sqrt_eq_0 in E; lra).
  rewrite !R_div_ok by assumption. reflexivity.
Qed.

Theorem su_cplx_R l mu : (2 <= length l)%nat ->
  su_cplx RNum l mu =
  (x <- sdc_spec (cmu_or mu l) l ;;
   Ok (fst (fst x) / sqrt (lenR l), snd (fst x) / sqrt (lenR l), snd x)).
Proof.
  intros H. pose proof (len_ge2 l H) as H2. unfold su_cplx.
  rewrite g_su_guard_ok by lia. cbn [bind].
  rewrite default_cmean_R by (apply ge2_nonnil; assumption). cbn [bind].
  rewrite sd_cplx_R by assumption. cbn [cmu_or].
  destruct (sdc_spec (cmu_or mu l) l) as [[[a b] r]|e]; cbn [bind]; [|reflexivity].
  rewrite g_su_cplx_R by lia. reflexivity.
Qed.

(* the sample statistics of complex data *)
Definition ccov (l : list (R * R)) : R := scov (res_ l) (ims_ l).
Lemma lenR_res l : lenR (res_ l) = lenR l. Proof. apply lenR_map. Qed.
Lemma lenR_ims l : lenR (ims_ l) = lenR l. Proof. apply lenR_map. Qed.

Lemma sqrt_prod_zero a b : 0 <= a -> 0 <= b -> sqrt a * sqrt b = 0 -> a = 0 \/ b = 0.
Proof.
  intros Ha Hb E. apply Rmult_integral in E. destruct E as [E|E]; apply sqrt_eq_0 in E; auto.
Qed.

(* estimate(seq) for complex data, every sample with N >= 2.  Since fix C12-estimate-complex-zero-cov-dof the two
   components are ALWAYS one dependent pair (independent = False) whose correlation register holds the sample
   correlation, 0 included: they are one simultaneous sample, which is what makes every combination have N-1 dof. *)
Definition is0 (x : R) : bool := if Req_EM_T x 0 then true else false.
Definition rS (l : list (R * R)) : R :=
  if is0 (ccov l) then 0 else ccov l / (sqrt (svar (res_ l)) * sqrt (svar (ims_ l))).
Theorem estimate_cplx_R l : (2 <= length l)%nat ->
  let re := res_ l in let im := ims_ l in let n := lenR l in
  estimate_cplx RNum l =
  Ok (mkLeaf (meanR re) (sqrt (svar re) / sqrt n) (n - 1) false,
      mkLeaf (meanR im) (sqrt (svar im) / sqrt n) (n - 1) false,
      Some (rS l)).
Proof.
  intros H re im n. cbn [T RNum] in *. pose proof (len_ge2 l H) as H2. pose proof (lenR_ge2 l H) as H3.
  assert (0 < n - 1) as Hd by (unfold n; lra).
  unfold estimate_cplx. rewrite g_est_df_R by assumption. cbn [bind].
  rewrite mean_cplx_R by (apply ge2_nonnil; assumption). cbn [bind].
  rewrite su_cplx_R by assumption. cbn [cmu_or]. unfold sdc_spec. cbn [fst snd]. cbv zeta.
  fold re im n.
  assert (ssd (meanR re) re / (n - 1) = svar re) as Ea
    by (unfold svar, scov, ssd, n, re; rewrite lenR_res; reflexivity).
  assert (ssd (meanR im) im / (n - 1) = svar im) as Eb
    by (unfold svar, scov, ssd, n, im; rewrite lenR_ims; reflexivity).
  assert (sxy (meanR re) (meanR im) l / (n - 1) = ccov l) as Ec
    by (unfold ccov, scov, sxy, n; rewrite lenR_res; reflexivity).
  rewrite Ea, Eb, Ec.
  assert (0 <= svar re) as Ha by (rewrite <- Ea; apply div_nonneg; [apply ssd_nonneg|lra]).
  assert (0 <= svar im) as Hb by (rewrite <- Eb; apply div_nonneg; [apply ssd_nonneg|lra]).
  assert (sqrt (svar re) * sqrt (svar im) = 0 -> ccov l = 0) as Hz.
  { intros E. apply sqrt_prod_zero in E; try assumption.
    rewrite <- Ec. unfold sxy. fold re im.
    destruct E as [E|E].
    - rewrite <- Ea in E. unfold ssd in E.
      assert (dot (devs (meanR re) re) (devs (meanR re) re) = 0) as E0.
      { unfold Rdiv in E. apply Rmult_integral in E. destruct E as [E|E]; [assumption|].
        exfalso. apply Rinv_neq_0_compat in E; [assumption|lra]. }
      rewrite (dot_self_zero _ _ E0). unfold Rdiv. ring.
    - rewrite <- Eb in E. unfold ssd in E.
      assert (dot (devs (meanR im) im) (devs (meanR im) im) = 0) as E0.
      { unfold Rdiv in E. apply Rmult_integral in E. destruct E as [E|E]; [assumption|].
        exfalso. apply Rinv_neq_0_compat in E; [assumption|lra]. }
      rewrite dot_comm, (dot_self_zero _ _ E0). unfold Rdiv. ring. }
  unfold rS, is0. fold re im. destruct (Req_EM_T (ccov l) 0) as [Hc|Hc].
  - destruct (Req_EM_T (sqrt (svar re) * sqrt (svar im)) 0) as [E|E].
    + cbn [bind fst snd]. unfold g_est_cplx_indep, g_est_cplx_rarg.
      rewrite !elementary_R; cbn [T RNum] in *; try lia; try apply su_nonneg. cbn [bind].
      rewrite IZR_pred. reflexivity.
    + cbn [bind fst snd]. unfold g_est_cplx_indep, g_est_cplx_rarg. rewrite Hc.
      replace (0 / (sqrt (svar re) * sqrt (svar im))) with 0 by (unfold Rdiv; ring).
      rewrite !elementary_R; cbn [T RNum] in *; try lia; try apply su_nonneg. cbn [bind].
      rewrite IZR_pred. reflexivity.
  - destruct (Req_EM_T (sqrt (svar re) * sqrt (svar im)) 0) as [E|E]; [exfalso; auto|].
    cbn [bind fst snd]. unfold g_est_cplx_indep, g_est_cplx_rarg.
    rewrite !elementary_R; cbn [T RNum] in *; try lia; try apply su_nonneg. cbn [bind].
    rewrite IZR_pred. reflexivity.
Qed.

(* the covariance of the mean carried by (u_re, u_im, r) *)
Lemma cov_from_r a b c n : 0 <= a -> 0 <= b -> 0 < n -> sqrt a * sqrt b <> 0 ->
  (sqrt a / sqrt n) * (sqrt b / sqrt n) * (c / (sqrt a * sqrt b)) = c / n.
Proof.
  intros Ha Hb Hn Hab.
  assert (sqrt n <> 0) as Hs by (intros E; apply sqrt_eq_0 in E; lra).
  assert (sqrt a <> 0 /\ sqrt b <> 0) as [Hsa Hsb] by (split; intros E; apply Hab; rewrite E; ring).
  replace ((sqrt a / sqrt n) * (sqrt b / sqrt n) * (c / (sqrt a * sqrt b))) with (c / (sqrt n * sqrt n))
    by (field; auto).
  rewrite sqrt_sqrt by lra. reflexivity.
Qed.
Lemma var_from_u a n : 0 <= a -> 0 < n -> (sqrt a / sqrt n) * (sqrt a / sqrt n) = a / n.
Proof.
  intros Ha Hn. assert (sqrt n <> 0) as Hs by (intros E; apply sqrt_eq_0 in E; lra).
  replace ((sqrt a / sqrt n) * (sqrt a / sqrt n)) with ((sqrt a * sqrt a) / (sqrt n * sqrt n)) by (field; auto).
  rewrite !sqrt_sqrt by lra. reflexivity.
Qed.

Lemma scov_self_nonneg x : (2 <= length x)%nat -> 0 <= svar x.
Proof.
  intros H. pose proof (lenR_ge2 x H). unfold svar, scov. apply div_nonneg; [apply dot_self_nonneg|lra].
Qed.
Lemma div_eq_0 a d : d <> 0 -> a / d = 0 -> a = 0.
Proof.
  intros Hd E. unfold Rdiv in E. apply Rmult_integral in E. destruct E as [E|E]; [assumption|].
  exfalso. apply Rinv_neq_0_compat in E; assumption.
Qed.
(* a zero-variance series has zero covariance with everything (the cv != 0 guard is sound) *)
Lemma scov_zero_of_sd_zero x y : (2 <= length x)%nat -> length x = length y ->
  sqrt (svar x) * sqrt (svar y) = 0 -> scov x y = 0.
Proof.
  intros H L E. assert (2 <= length y)%nat as Hy by lia.
  pose proof (lenR_ge2 x H) as Hx2. pose proof (lenR_ge2 y Hy) as Hy2.
  apply sqrt_prod_zero in E; try (apply scov_self_nonneg; assumption).
  unfold scov. destruct E as [E|E]; unfold svar, scov in E; apply div_eq_0 in E; try lra.
  - rewrite (dot_self_zero _ _ E). unfold Rdiv. ring.
  - rewrite dot_comm, (dot_self_zero _ _ E). unfold Rdiv. ring.
Qed.

Theorem estimate_cplx_cov l : (2 <= length l)%nat -> ccov l <> 0 ->
  let re := res_ l in let im := ims_ l in let n := lenR l in
  (sqrt (svar re) / sqrt n) * (sqrt (svar im) / sqrt n) * (ccov l / (sqrt (svar re) * sqrt (svar im)))
  = ccov l / n
  /\ (sqrt (svar re) / sqrt n) * (sqrt (svar re) / sqrt n) = svar re / n
  /\ (sqrt (svar im) / sqrt n) * (sqrt (svar im) / sqrt n) = svar im / n.
Proof.
  intros H Hc re im n. pose proof (lenR_ge2 l H) as H3. fold n in H3.
  assert (length re = length l /\ length im = length l) as [Lr Li] by (unfold re, im, res_, ims_; rewrite !map_length; auto).
  assert (0 <= svar re) by (apply scov_self_nonneg; lia).
  assert (0 <= svar im) by (apply scov_self_nonneg; lia).
  split; [|split]; try (apply var_from_u; lra).
  apply cov_from_r; try lra.
  intros E. apply Hc. unfold ccov. fold re im. apply scov_zero_of_sd_zero; [lia|lia|exact E].
Qed.

(* ================= multi_estimate_real ================= *)
Lemma abs_le1 r : r * r <= 1 -> Rabs r <= 1.
Proof. intros H. unfold Rabs. destruct (Rcase_abs r); nra. Qed.

(* _clip_r leaves every |r| <= 1 alone *)
Lemma g_clip_r_R r : Rabs r <= 1 -> g_clip_r RNum r = Ok r.
Proof.
  intros H. unfold g_clip_r.
  rewrite (R_ltb_false (dyad RNum 1 0) (nabs RNum r)) by (cbn; lra). reflexivity.
Qed.

Section MultiSpec.
  Variable nn1 : R.                 (* N (N-1) as a real *)
  Hypothesis nn1_pos : 0 < nn1.

  Definition uS (d : list R) : R := sqrt (dot d d / nn1).
  Definition cvS (d e : list R) : R := dot d e / nn1.
  Fixpoint ucvS (dv : list (list R)) : list (R * list R) :=
    match dv with [] => [] | d :: rest => (uS d, map (cvS d) rest) :: ucvS rest end.
  Definition entryS (d e : list R) : option R :=
    if Req_EM_T (cvS d e) 0 then None else Some (cvS d e / (uS d * uS e)).
  Fixpoint rowsS (dv : list (list R)) : list (list (option R)) :=
    match dv with [] => [] | d :: rest => map (entryS d) rest :: rowsS rest end.

  Lemma uS_nonneg d : 0 <= uS d.
  Proof. apply sqrt_pos. Qed.
  Lemma uS_zero d e : uS d = 0 -> cvS d e = 0.
  Proof.
    unfold uS, cvS. intros E. apply sqrt_eq_0 in E; [|apply div_nonneg; [apply dot_self_nonneg|assumption]].
    apply div_eq_0 in E; [|lra]. rewrite (dot_self_zero _ _ E). unfold Rdiv. ring.
  Qed.
  Lemma uS_sq d : uS d * uS d = dot d d / nn1.
  Proof. unfold uS. apply sqrt_sqrt. apply div_nonneg; [apply dot_self_nonneg|assumption]. Qed.

  (* |r| <= 1 in exact arithmetic: set_correlation_real cannot raise *)
  Lemma r_le1 d e : length d = length e -> cvS d e <> 0 -> Rabs (cvS d e / (uS d * uS e)) <= 1.
  Proof.
    intros L Hc.
    assert (uS d <> 0) as Hd by (intros E; apply Hc, uS_zero; assumption).
    assert (uS e <> 0) as He.
    { intros E. apply Hc. unfold cvS. rewrite dot_comm. apply (uS_zero e d). assumption. }
    apply abs_le1.
    replace (cvS d e / (uS d * uS e) * (cvS d e / (uS d * uS e)))
      with ((cvS d e * cvS d e) / ((uS d * uS d) * (uS e * uS e))) by (field; auto).
    rewrite !uS_sq. unfold cvS.
    pose proof (cauchy_schwarz d e L) as CS.
    pose proof (dot_self_nonneg d) as Pd. pose proof (dot_self_nonneg e) as Pe.
    assert (dot d d <> 0) as Nd.
    { intros E. apply Hd. unfold uS. rewrite E. unfold Rdiv. rewrite Rmult_0_l. apply sqrt_0. }
    assert (dot e e <> 0) as Ne.
    { intros E. apply He. unfold uS. rewrite E. unfold Rdiv. rewrite Rmult_0_l. apply sqrt_0. }
    replace (dot d e / nn1 * (dot d e / nn1) / (dot d d / nn1 * (dot e e / nn1)))
      with ((dot d e * dot d e) / (dot d d * dot e e)) by (field; repeat split; lra).
    apply (Rmult_le_reg_r (dot d d * dot e e)); [nra|].
    replace (dot d e * dot d e / (dot d d * dot e e) * (dot d d * dot e e)) with (dot d e * dot d e)
      by (field; split; assumption).
    lra.
  Qed.

  Variable nn1z : Z.
  Hypothesis nn1z_R : IZR nn1z = nn1.

  Lemma g_mer_u_R d : g_mer_u RNum nn1z d = Ok (uS d).
  Proof.
    unfold g_mer_u.
    rewrite (mmap_pure _ (fun x => x * x)) by (intros; rewrite R_pow2; reflexivity).
    cbn [bind fsum RNum]. fold (Rsum (map (fun x => x * x) d)). rewrite Rsum_sq_dot.
    change (of_Z RNum nn1z) with (IZR nn1z). rewrite nn1z_R, R_div_ok by lra. cbn [bind].
    rewrite R_sqrt_ok by (apply div_nonneg; [apply dot_self_nonneg|assumption]). reflexivity.
  Qed.
  Lemma g_mer_cv_R d e : g_mer_cv RNum nn1z d e = Ok (cvS d e).
  Proof.
    unfold g_mer_cv.
    rewrite (mmap2_pure _ Rmult) by (intros; reflexivity).
    cbn [bind fsum RNum]. fold (Rsum (zipw Rmult d e)). rewrite Rsum_zipw_dot.
    change (of_Z RNum nn1z) with (IZR nn1z). rewrite nn1z_R, R_div_ok by lra. reflexivity.
  Qed.
  Lemma mer_ucv_R dv : mer_ucv RNum nn1z dv = Ok (ucvS dv).
  Proof.
    induction dv as [|d rest IH]; cbn [mer_ucv ucvS]; [reflexivity|].
    rewrite g_mer_u_R. cbn [bind].
    rewrite (mmap_pure _ (cvS d)) by (intros; apply g_mer_cv_R). cbn [bind].
    rewrite IH. reflexivity.
  Qed.
  Lemma map_fst_ucvS dv : map fst (ucvS dv) = map uS dv.
  Proof. induction dv; cbn; [reflexivity|]. rewrite IHdv. reflexivity. Qed.

  Lemma set_corr_R r : Rabs r <= 1 -> set_corr RNum false false r = Ok r.
  Proof.
    intros H. unfold set_corr. cbn [orb].
    assert (E : leb RNum (nabs RNum r) (one RNum) = true).
    { rewrite one_R. cbn. unfold Rleb. destruct (Rle_dec (Rabs r) 1); [reflexivity|contradiction]. }
    rewrite E. reflexivity.
  Qed.

  Lemma mer_corr_entry_R d e : length d = length e ->
    mer_corr_entry RNum false (uS d) (cvS d e) (uS e) = Ok (entryS d e).
  Proof.
    intros L. unfold mer_corr_entry, entryS, g_mer_guard, g_mer_r. rewrite dyad00.
    destruct (Req_EM_T (cvS d e) 0) as [E|E].
    - rewrite R_eqb_true by assumption. reflexivity.
    - rewrite R_eqb_false by assumption. cbn [negb].
      change (mul RNum) with Rmult.
      rewrite R_div_ok.
      + cbn [bind]. rewrite g_clip_r_R by (apply r_le1; assumption). cbn [bind].
        rewrite set_corr_R by (apply r_le1; assumption). reflexivity.
      + intros Z. apply Rmult_integral in Z. destruct Z as [Z|Z].
        * apply E, uS_zero; assumption.
        * apply E. unfold cvS. rewrite dot_comm. apply (uS_zero e d). assumption.
  Qed.

  Lemma mer_row_R n d rest : length d = n -> Forall (fun e => length e = n) rest ->
    mmap2 (mer_corr_entry RNum false (uS d)) (map (cvS d) rest) (map uS rest) = Ok (map (entryS d) rest).
  Proof.
    intros L F. induction F as [|e rest He F IH]; cbn [map mmap2]; [reflexivity|].
    rewrite mer_corr_entry_R by congruence. cbn [bind]. rewrite IH. reflexivity.
  Qed.

  Lemma mer_corr_R n dv : Forall (fun e => length e = n) dv ->
    mer_corr RNum false (ucvS dv) = Ok (rowsS dv).
  Proof.
    intros F. induction F as [|d rest Hd F IH]; cbn [mer_corr ucvS rowsS]; [reflexivity|].
    rewrite map_fst_ucvS, (mer_row_R n) by assumption. cbn [bind]. rewrite IH. reflexivity.
  Qed.
End MultiSpec.

Definition devS (s : list R) : list R := devs (meanR s) s.
Definition NN1 (n : Z) : R := IZR (n * (n - 1)).
Definition leafS (n : Z) (s : list R) : leaf R :=
  mkLeaf (meanR s) (uS (NN1 n) (devS s)) (IZR (n - 1)) false.

Lemma NN1_pos n : (2 <= n)%Z -> 0 < NN1 n.
Proof. intros H. unfold NN1. apply IZR_lt. nia. Qed.

Lemma mer_stat_R k n s : (1 <= n)%Z -> len s = n -> mer_stat RNum k n s = Ok (meanR s, devS s).
Proof.
  intros Hn L. unfold mer_stat. cbn [T RNum] in *. rewrite L, Z.eqb_refl. cbn [negb].
  unfold g_mer_mean. rewrite py_sum_R. change (of_Z RNum n) with (IZR n).
  rewrite R_div_ok by (intros E; apply eq_IZR_R0 in E; lia). cbn [bind].
  rewrite (mmap_pure _ (fun x => x - (Rsum s / IZR n))) by (intros; reflexivity). cbn [bind].
  unfold devS, devs, meanR, lenR. rewrite L. reflexivity.
Qed.

Lemma mer_leaves_R n D : (2 <= n)%Z ->
  mmap2 (fun s uc => elementary RNum (fst s) (fst uc) (n - 1) false)
        (map (fun s => (meanR s, devS s)) D) (ucvS (NN1 n) (map devS D))
  = Ok (map (leafS n) D).
Proof.
  intros Hn. induction D as [|s D IH]; cbn [map ucvS mmap2]; [reflexivity|].
  cbn [fst]. rewrite elementary_R by (try lia; apply uS_nonneg). cbn [bind].
  rewrite IH. reflexivity.
Qed.

Lemma len_length {A} (s : list A) n : len s = n -> length s = Z.to_nat n.
Proof. unfold len. intros <-. rewrite Nat2Z.id. reflexivity. Qed.

(* multi_estimate_real: the result in closed form, for every M >= 1 and N >= 2 *)
Theorem multi_estimate_real_R k D n :
  (2 <= n)%Z -> D <> [] -> Forall (fun s => len s = n) D ->
  multi_estimate_real RNum k D = Ok (map (leafS n) D, rowsS (NN1 n) (map devS D)).
Proof.
  intros Hn Hne F. unfold multi_estimate_real.
  destruct D as [|s0 D']; [congruence|]. cbn [first_len bind].
  assert (len s0 = n) as L0 by (inversion F; assumption). rewrite L0.
  rewrite (mmap_pure _ (fun s => (meanR s, devS s))).
  2:{ intros s Hs. apply mer_stat_R; [lia|]. rewrite Forall_forall in F. apply F. assumption. }
  cbn [bind]. unfold g_mer_nn1. cbn [bind].
  rewrite map_map. cbn [snd]. fold devS.
  rewrite (mer_ucv_R (NN1 n) (NN1_pos n Hn) (n * (n - 1)) eq_refl). cbn [bind].
  unfold g_mer_df. cbn [bind]. unfold g_mer_indep.
  rewrite mer_leaves_R by assumption. cbn [bind].
  rewrite (mer_corr_R (NN1 n) (NN1_pos n Hn) (Z.to_nat n)).
  - reflexivity.
  - rewrite Forall_map. rewrite Forall_forall in F |- *. intros s Hs.
    unfold devS, devs. rewrite map_length. apply len_length, F. assumption.
Qed.

(* malformed input *)
Theorem multi_estimate_real_empty k : multi_estimate_real RNum k [] = Err IndexError.
Proof. reflexivity. Qed.

(* ---- the statistics behind uS / cvS ---- *)
Lemma cvS_scov n s t : (2 <= n)%Z -> len s = n ->
  cvS (NN1 n) (devS s) (devS t) = scov s t / IZR n.
Proof.
  intros Hn L. unfold cvS, scov, devS, NN1, lenR. rewrite L, mult_IZR, IZR_pred.
  apply IZR_le in Hn. field. lra.
Qed.
Lemma uS_svar n s : (2 <= n)%Z -> len s = n -> uS (NN1 n) (devS s) = sqrt (svar s / IZR n).
Proof. intros Hn L. unfold uS. fold (cvS (NN1 n) (devS s) (devS s)). rewrite (cvS_scov n) by assumption. reflexivity. Qed.
Lemma sqrt_div_sqrt a n : 0 <= a -> 0 < n -> sqrt (a / n) = sqrt a / sqrt n.
Proof. intros. apply sqrt_div_alt. assumption. Qed.

(* ---- reading the triangular correlation matrix ---- *)
Definition tri_get {A} (rows : list (list A)) (i j : nat) : option A :=
  nth_error (nth i rows []) (j - i - 1).
(* get_correlation of components i and j *)
Definition corr_of (rows : list (list (option R))) (i j : nat) : R :=
  if Nat.eqb i j then 1 else
  match tri_get rows (Nat.min i j) (Nat.max i j) with Some (Some r) => r | _ => 0 end.
(* covariance of components i and j from what the estimator set: u_i u_j r_ij *)
Definition cov_of (res : list (leaf R) * list (list (option R))) (i j : nat) : R :=
  let d := mkLeaf 0 0 0 false in
  lu (nth i (fst res) d) * lu (nth j (fst res) d) * corr_of (snd res) i j.

Lemma rowsS_nth nn1 dv : forall i, (i < length dv)%nat ->
  nth i (rowsS nn1 dv) [] = map (entryS nn1 (nth i dv [])) (skipn (S i) dv).
Proof.
  induction dv as [|d rest IH]; intros i Hi; cbn in Hi; [lia|].
  destruct i as [|i]; [reflexivity|]. cbn [rowsS nth]. rewrite IH by lia. reflexivity.
Qed.
Lemma nth_error_skipn {A} (l : list A) k m d : (k + m < length l)%nat ->
  nth_error (skipn k l) m = Some (nth (k + m) l d).
Proof.
  revert l. induction k as [|k IH]; intros l H; cbn [skipn plus].
  - apply nth_error_nth'. assumption.
  - destruct l as [|a l]; cbn in H; [lia|]. cbn [nth]. apply IH. lia.
Qed.
Lemma tri_get_rowsS nn1 dv i j : (i < j < length dv)%nat ->
  tri_get (rowsS nn1 dv) i j = Some (entryS nn1 (nth i dv []) (nth j dv [])).
Proof.
  intros H. unfold tri_get. rewrite rowsS_nth by lia.
  rewrite nth_error_map, (nth_error_skipn _ _ _ []) by lia.
  replace (S i + (j - i - 1))%nat with j by lia. reflexivity.
Qed.

Lemma entry_cov nn1 d e : 0 < nn1 ->
  uS nn1 d * uS nn1 e * (match entryS nn1 d e with Some r => r | None => 0 end) = cvS nn1 d e.
Proof.
  intros Hp. unfold entryS. destruct (Req_EM_T (cvS nn1 d e) 0) as [E|E]; [rewrite E; ring|].
  assert (uS nn1 d <> 0) by (intros Z; apply E, uS_zero; assumption).
  assert (uS nn1 e <> 0).
  { intros Z. apply E. unfold cvS. rewrite dot_comm. apply (uS_zero nn1 Hp e d). assumption. }
  field. auto.
Qed.

(* C12_multi_cov: the covariance carried by the returned numbers is the sample covariance of
   the means, S_kl / (N (N-1)), zero-variance components and the cv != 0 guard included *)
Theorem multi_real_cov k D n i j :
  (2 <= n)%Z -> Forall (fun s => len s = n) D -> (i < length D)%nat -> (j < length D)%nat ->
  forall res, multi_estimate_real RNum k D = Ok res ->
  cov_of res i j = scov (nth i D []) (nth j D []) / IZR n.
Proof.
  intros Hn F Hi Hj res Hres. cbn [T RNum] in *.
  assert (D <> []) as Hne by (destruct D; cbn in Hi; [lia|congruence]).
  rewrite (multi_estimate_real_R k D n Hn Hne F) in Hres. injection Hres as <-.
  pose proof (NN1_pos n Hn) as Hp.
  assert (forall m, (m < length D)%nat -> len (nth m D []) = n) as Ln.
  { intros m Hm. rewrite Forall_forall in F. apply F, nth_In. assumption. }
  unfold cov_of. cbn [fst snd].
  set (dl := mkLeaf 0 0 0 false).
  assert (forall m, (m < length D)%nat -> lu (nth m (map (leafS n) D) dl) = uS (NN1 n) (devS (nth m D []))) as Lu.
  { intros m Hm. rewrite (nth_indep _ dl (leafS n [])) by (rewrite map_length; assumption).
    rewrite (map_nth (leafS n)). reflexivity. }
  rewrite !Lu by assumption.
  assert (forall a b, (a < b < length D)%nat ->
     uS (NN1 n) (devS (nth a D [])) * uS (NN1 n) (devS (nth b D [])) *
     match tri_get (rowsS (NN1 n) (map devS D)) a b with Some (Some r) => r | _ => 0 end
     = scov (nth a D []) (nth b D []) / IZR n) as Tri.
  { intros a b Hab. rewrite tri_get_rowsS by (rewrite map_length; assumption).
    rewrite !(map_nth devS D []) .
    change (devS []) with (@nil R).
    replace (nth a (map devS D) []) with (devS (nth a D [])) by (symmetry; apply (map_nth devS D [] a)).
    replace (nth b (map devS D) []) with (devS (nth b D [])) by (symmetry; apply (map_nth devS D [] b)).
    rewrite <- (cvS_scov n) by (try assumption; apply Ln; lia).
    rewrite <- (entry_cov (NN1 n) _ _ Hp).
    destruct (entryS (NN1 n) (devS (nth a D [])) (devS (nth b D []))); reflexivity. }
  unfold corr_of. destruct (Nat.eqb_spec i j) as [->|Hij].
  - rewrite Rmult_1_r, uS_sq by assumption.
    fold (cvS (NN1 n) (devS (nth j D [])) (devS (nth j D []))).
    apply cvS_scov; [assumption|apply Ln; assumption].
  - destruct (Nat.lt_ge_cases i j) as [Hlt|Hge].
    + rewrite Nat.min_l, Nat.max_r by lia. apply Tri. lia.
    + rewrite Nat.min_r, Nat.max_l by lia.
      rewrite (Rmult_comm (uS _ (devS (nth i D [])))). rewrite Tri by lia.
      unfold scov. rewrite dot_comm. f_equal. f_equal. unfold lenR. rewrite !Ln by assumption. reflexivity.
Qed.

(* ================= linear combinations of the sampled quantities ================= *)
(* comb a D n : the series  j |-> sum_k a_k D_k[j]  (all D_k of length n) *)
Fixpoint comb (a : list R) (D : list (list R)) (n : nat) : list R :=
  match a, D with
  | a0 :: a', d :: D' => zipw (fun u v => a0 * u + v) d (comb a' D' n)
  | _, _ => repeat 0 n
  end.
Definition wsum (a : list R) (D : list (list R)) (f : list R -> R) : R :=
  Rsum (zipw (fun ai d => ai * f d) a D).

Lemma wsum_cons a0 a d D f : wsum (a0 :: a) (d :: D) f = a0 * f d + wsum a D f.
Proof. reflexivity. Qed.
Lemma wsum_nil_l D f : wsum [] D f = 0. Proof. reflexivity. Qed.
Lemma wsum_nil_r a f : wsum a [] f = 0. Proof. destruct a; reflexivity. Qed.
Lemma wsum_ext a D f g : (forall d, In d D -> f d = g d) -> wsum a D f = wsum a D g.
Proof.
  revert a. induction D as [|d D IH]; intros a H; [rewrite !wsum_nil_r; reflexivity|].
  destruct a as [|a0 a]; [reflexivity|]. rewrite !wsum_cons, H by (left; reflexivity).
  rewrite IH by (intros; apply H; right; assumption). reflexivity.
Qed.
Lemma wsum_scale a D f c : wsum a D (fun d => f d * c) = wsum a D f * c.
Proof.
  revert a. induction D as [|d D IH]; intros a; [rewrite !wsum_nil_r; ring|].
  destruct a as [|a0 a]; [rewrite !wsum_nil_l; ring|]. rewrite !wsum_cons, IH. ring.
Qed.

Lemma comb_length a D n : Forall (fun d => length d = n) D -> length (comb a D n) = n.
Proof.
  intros F. revert a. induction F as [|d D Hd F IH]; intros a.
  - destruct a; cbn; apply repeat_length.
  - destruct a as [|a0 a]; cbn [comb]; [apply repeat_length|].
    rewrite zipw_length; [assumption|]. rewrite IH. assumption.
Qed.
Lemma Rsum_lin a0 d c : length d = length c ->
  Rsum (zipw (fun u v => a0 * u + v) d c) = a0 * Rsum d + Rsum c.
Proof.
  revert c. induction d as [|x d IH]; intros [|y c] H; cbn in *; try discriminate; [lra|].
  unfold Rsum in IH. rewrite IH by lia. lra.
Qed.
Lemma Rsum_repeat0 n : Rsum (repeat 0 n) = 0.
Proof. induction n; cbn; [reflexivity|]. unfold Rsum in IHn. rewrite IHn. lra. Qed.
Lemma Rsum_comb a D n : Forall (fun d => length d = n) D -> Rsum (comb a D n) = wsum a D Rsum.
Proof.
  intros F. revert a. induction F as [|d D Hd F IH]; intros a.
  - rewrite wsum_nil_r. destruct a; apply Rsum_repeat0.
  - destruct a as [|a0 a]; [apply Rsum_repeat0|]. cbn [comb].
    rewrite Rsum_lin by (rewrite comb_length; assumption). rewrite IH, wsum_cons. reflexivity.
Qed.
Lemma lenR_of_length {A} (l : list A) n : length l = n -> lenR l = INR n.
Proof. intros <-. unfold lenR, len. symmetry. apply INR_IZR_INZ. Qed.

Lemma mean_comb a D n : (0 < n)%nat -> Forall (fun d => length d = n) D ->
  meanR (comb a D n) = wsum a D meanR.
Proof.
  intros Hn F. unfold meanR at 1. rewrite Rsum_comb by assumption.
  rewrite (lenR_of_length _ n) by (apply comb_length; assumption).
  unfold Rdiv. rewrite <- wsum_scale. apply wsum_ext. intros d Hd.
  rewrite Forall_forall in F. unfold meanR, Rdiv. rewrite (lenR_of_length d n) by (apply F; assumption).
  reflexivity.
Qed.

Lemma dot_nil_r x : dot x [] = 0.
Proof. destruct x; reflexivity. Qed.
Lemma dot_devs_lin a0 m0 m1 d c Y : length d = length c ->
  dot (devs (a0 * m0 + m1) (zipw (fun u v => a0 * u + v) d c)) Y
  = a0 * dot (devs m0 d) Y + dot (devs m1 c) Y.
Proof.
  revert c Y. induction d as [|x d IH]; intros [|y c] Y H; cbn in H; try discriminate.
  - cbn. ring.
  - destruct Y as [|z Y]; [cbn; ring|].
    cbn [zipw devs map dot]. fold (devs (a0 * m0 + m1) (zipw (fun u v => a0 * u + v) d c)).
    fold (devs m0 d). fold (devs m1 c). rewrite IH by lia. ring.
Qed.
Lemma dot_devs_zero n Y : dot (devs 0 (repeat 0 n)) Y = 0.
Proof.
  revert Y. induction n as [|n IH]; intros Y; [reflexivity|].
  destruct Y as [|z Y]; [reflexivity|]. cbn [repeat devs map dot]. fold (devs 0 (repeat 0 n)).
  rewrite IH. ring.
Qed.
Lemma dot_comb_left a D n Y : (0 < n)%nat -> Forall (fun d => length d = n) D ->
  dot (devs (wsum a D meanR) (comb a D n)) Y = wsum a D (fun d => dot (devS d) Y).
Proof.
  intros Hn F. revert a. induction F as [|d D Hd F IH]; intros a.
  - rewrite !wsum_nil_r. destruct a; apply dot_devs_zero.
  - destruct a as [|a0 a]; [rewrite !wsum_nil_l; apply dot_devs_zero|].
    rewrite !wsum_cons. cbn [comb]. rewrite dot_devs_lin by (rewrite comb_length; assumption).
    rewrite IH. reflexivity.
Qed.

(* bilinearity of the sample covariance *)
Theorem scov_comb a b D n : (2 <= n)%nat -> Forall (fun d => length d = n) D ->
  scov (comb a D n) (comb b D n) = wsum a D (fun d => wsum b D (fun e => scov d e)).
Proof.
  intros Hn F. assert (0 < n)%nat as Hp by lia.
  unfold scov at 1. rewrite !mean_comb by assumption.
  rewrite dot_comb_left by assumption.
  rewrite (lenR_of_length _ n) by (apply comb_length; assumption).
  unfold Rdiv. rewrite <- wsum_scale. apply wsum_ext. intros d Hd.
  rewrite dot_comm, dot_comb_left by assumption.
  rewrite <- wsum_scale. apply wsum_ext. intros e He.
  rewrite Forall_forall in F. unfold scov, Rdiv, devS.
  rewrite (lenR_of_length d n) by (apply F; assumption). rewrite dot_comm. reflexivity.
Qed.

(* index form of the double sums *)
Lemma sum_seq_zipw (F : R -> list R -> R) D : forall a, length a = length D ->
  Rsum (map (fun i => F (nth i a 0) (nth i D [])) (seq 0 (length D))) = Rsum (zipw F a D).
Proof.
  induction D as [|d D IH]; intros [|a0 a] H; cbn in H; try discriminate; [reflexivity|].
  cbn [length seq map zipw]. rewrite <- seq_shift, map_map. cbn [nth].
  unfold Rsum in *. cbn [fold_right]. rewrite IH by lia. reflexivity.
Qed.

(* the LPU double sum  sum_i sum_j a_i b_j cov(i,j)  over M components *)
Definition lpu (M : nat) (cov : nat -> nat -> R) (a b : list R) : R :=
  Rsum (map (fun i => Rsum (map (fun j => nth i a 0 * nth j b 0 * cov i j) (seq 0 M))) (seq 0 M)).

Lemma Rsum_map_ext_in {A} (f g : A -> R) l : (forall x, In x l -> f x = g x) -> Rsum (map f l) = Rsum (map g l).
Proof. intros H. f_equal. apply map_ext_in. assumption. Qed.

Lemma lpu_scov D n c a b :
  (2 <= n)%nat -> Forall (fun d => length d = n) D -> length a = length D -> length b = length D ->
  lpu (length D) (fun i j => scov (nth i D []) (nth j D []) * c) a b
  = scov (comb a D n) (comb b D n) * c.
Proof.
  intros Hn F La Lb. unfold lpu.
  rewrite (Rsum_map_ext_in _ (fun i => (fun ai di => ai * (wsum b D (fun e => scov di e) * c)) (nth i a 0) (nth i D []))).
  - rewrite (sum_seq_zipw (fun ai di => ai * (wsum b D (fun e => scov di e) * c))) by assumption.
    rewrite (scov_comb a b D n) by assumption.
    rewrite <- wsum_scale. reflexivity.
  - intros i Hi. cbv beta.
    rewrite (Rsum_map_ext_in _ (fun j => (fun bj dj => nth i a 0 * (bj * scov (nth i D []) dj * c)) (nth j b 0) (nth j D [])))
      by (intros; ring).
    rewrite (sum_seq_zipw (fun bj dj => nth i a 0 * (bj * scov (nth i D []) dj * c))) by assumption.
    unfold wsum.
    assert (forall (bb : list R) DD, Rsum (zipw (fun bj dj => nth i a 0 * (bj * scov (nth i D []) dj * c)) bb DD)
            = nth i a 0 * (Rsum (zipw (fun bj dj => bj * scov (nth i D []) dj) bb DD) * c)) as Hs.
    { intros bb DD. revert bb. induction DD as [|dd DD IH]; intros [|b0 bb]; cbn; try ring.
      unfold Rsum in IH. rewrite IH. ring. }
    apply Hs.
Qed.

Lemma lpu_ext M c1 c2 a b : (forall i j, (i < M)%nat -> (j < M)%nat -> c1 i j = c2 i j) ->
  lpu M c1 a b = lpu M c2 a b.
Proof.
  intros H. unfold lpu. apply Rsum_map_ext_in. intros i Hi. apply in_seq in Hi.
  apply Rsum_map_ext_in. intros j Hj. apply in_seq in Hj. rewrite H by lia. reflexivity.
Qed.

Lemma value_comb a D n : (0 < n)%nat -> Forall (fun d => length d = n) D ->
  Rsum (zipw Rmult a (map meanR D)) = meanR (comb a D n).
Proof.
  intros Hn F. rewrite mean_comb by assumption. unfold wsum. f_equal.
  clear F. revert a. induction D as [|d D IH]; intros [|a0 a]; cbn; try reflexivity. rewrite IH. reflexivity.
Qed.

Lemma Forall_len_length (D : list (list R)) n :
  Forall (fun s => len s = n) D -> Forall (fun d => length d = Z.to_nat n) D.
Proof. intros F. eapply Forall_impl; [|exact F]. intros s. apply len_length. Qed.

(* ---- what a derived number y = sum_k a_k x_k inherits ----
   The uncertain-number kernel is represented by three functions of the estimator's output and
   the coefficient vectors; the two facts assumed about it are the ones C04 and C05 establish. *)
Definition mres : Type := (list (leaf R) * list (list (option R)))%type.

Section KernelFacts.
  Variable k_cov : mres -> list R -> list R -> R.   (* covariance of sum a_k x_k and sum b_k x_k *)
  Variable k_dof : mres -> list R -> R.             (* degrees of freedom of sum a_k x_k *)
  (* C04: law of propagation of uncertainty, the double sum over the elementary inputs *)
  Hypothesis k_lpu : forall m a b, k_cov m a b = lpu (length (fst m)) (cov_of m) a b.
  (* C05: Welch-Satterthwaite when every influence belongs to one ensemble of common dof nu *)
  Hypothesis k_ws_single : forall m a nu,
    Forall (fun lf => ldf lf = nu /\ lind lf = false) (fst m) -> k_cov m a a <> 0 -> k_dof m a = nu.

  Theorem multi_real_linear k D n a b res :
    (2 <= n)%Z -> Forall (fun s => len s = n) D -> D <> [] ->
    length a = length D -> length b = length D ->
    multi_estimate_real RNum k D = Ok res ->
    let N := Z.to_nat n in
    Rsum (zipw Rmult a (map lx (fst res))) = meanR (comb a D N)
    /\ k_cov res a b = scov (comb a D N) (comb b D N) / IZR n
    /\ (k_cov res a a <> 0 -> k_dof res a = IZR n - 1).
  Proof.
    intros Hn F Hne La Lb Hres N. cbn [T RNum] in *.
    pose proof (Forall_len_length D n F) as FL. fold N in FL.
    assert (2 <= N)%nat as HN by (unfold N; lia).
    split; [|split].
    - rewrite (multi_estimate_real_R k D n Hn Hne F) in Hres. injection Hres as <-. cbn [fst].
      rewrite map_map. cbn [lx leafS]. apply value_comb; [lia|assumption].
    - rewrite k_lpu.
      assert (length (fst res) = length D) as LM.
      { rewrite (multi_estimate_real_R k D n Hn Hne F) in Hres. injection Hres as <-. cbn [fst]. apply map_length. }
      rewrite LM.
      rewrite (lpu_ext _ _ (fun i j => scov (nth i D []) (nth j D []) * / IZR n)).
      + apply (lpu_scov D N); assumption.
      + intros i j Hi Hj. apply (multi_real_cov k D n i j); assumption.
    - intros Hv. rewrite <- IZR_pred. apply k_ws_single; [|assumption].
      rewrite (multi_estimate_real_R k D n Hn Hne F) in Hres. injection Hres as <-. cbn [fst].
      rewrite Forall_map. rewrite Forall_forall. intros s _. cbn. split; reflexivity.
  Qed.
End KernelFacts.

(* ================= estimate_digitized ================= *)
Lemma sqrt_inv a u : libm1 RNum F_sqrt a = Ok u -> u = sqrt a.
Proof. cbn. destruct (Rle_dec 0 a); intros H; [injection H as <-; reflexivity|discriminate]. Qed.
Lemma div_inv a b q : div RNum a b = Ok q -> q = a / b.
Proof. cbn. unfold R_div. destruct (Req_EM_T b 0); intros H; [discriminate|injection H as <-; reflexivity]. Qed.
Lemma eqb_inv a b : eqb RNum a b = true -> a = b.
Proof. cbn. unfold Reqb. destruct (Req_EM_T a b); [auto|discriminate]. Qed.

Lemma ltb_true_inv a b : ltb RNum a b = true -> a < b.
Proof. cbn. unfold Rltb. destruct (Rlt_dec a b); [auto|discriminate]. Qed.

Ltac dig_step H :=
  match type of H with
  | (if ?c then _ else _) = Ok _ => let E := fresh "C" in destruct c eqn:E
  | bind (div RNum ?a ?b) _ = Ok _ =>
      let E := fresh "D" in destruct (div RNum a b) eqn:E; cbn [bind] in H; [apply div_inv in E|discriminate H]
  | bind (libm1 RNum F_sqrt ?a) _ = Ok _ =>
      let E := fresh "S" in destruct (libm1 RNum F_sqrt a) eqn:E; cbn [bind] in H; [apply sqrt_inv in E|discriminate H]
  | bind (libm2 RNum F_pow _ _) _ = Ok _ => rewrite R_pow2 in H; cbn [bind] in H
  | bind (mfoldl _ _ _) _ = Ok _ => rewrite sumsq_fold in H; cbn [bind] in H
  | bind (Ok _) _ = Ok _ => cbn [bind] in H
  | Err _ = Ok _ => discriminate H
  end.

Lemma g_dig_body_inv n l xmax xmin mu delta tr mu' u :
  (2 <= n)%Z ->
  g_dig_body RNum n l xmax xmin mu delta tr = Ok (mu', u) ->
  mu' = (if tr then mu + delta / 2 else mu)
  /\ (xmax = xmin \/ sqrt (ssd mu l / (IZR n - 1) / IZR n) <= u).
Proof.
  intros Hn H. unfold g_dig_body in H. cbv zeta in H.
  assert (dyad RNum 2 0 = 2) as E2 by (cbn; lra).
  change (add RNum) with Rplus in H. change (of_Z RNum) with IZR in H.
  rewrite E2, dyad00, IZR_pred in H.
  repeat dig_step H;
    (injection H as <- <-; subst; split; [reflexivity|]);
    try (left; apply eqb_inv; assumption); right.
  all: fold (ssd mu l); replace (0 + ssd mu l) with (ssd mu l) by lra.
  all: try solve [apply Rle_refl].
  all: apply sqrt_le_1_alt; match goal with |- _ <= (if ?c then _ else _) => destruct c eqn:CC end.
  all: try solve [apply Rle_refl].
  all: apply Rlt_le, ltb_true_inv, CC.
Qed.

Lemma fold_max_ge l : forall m x, (x = m \/ In x l) ->
  x <= fold_left (fun m y => if ltb RNum m y then y else m) l m.
Proof.
  induction l as [|y l IH]; intros m x [->|Hx]; cbn [fold_left].
  - apply Rle_refl.
  - destruct Hx.
  - cbn. unfold Rltb. destruct (Rlt_dec m y).
    + eapply Rle_trans; [|apply IH; left; reflexivity]. lra.
    + apply IH. left. reflexivity.
  - destruct Hx as [->|Hx]; [|apply IH; right; assumption].
    cbn. unfold Rltb. destruct (Rlt_dec m x).
    + apply IH. left. reflexivity.
    + eapply Rle_trans; [|apply IH; left; reflexivity]. lra.
Qed.
Lemma fold_min_le l : forall m x, (x = m \/ In x l) ->
  fold_left (fun m y => if ltb RNum y m then y else m) l m <= x.
Proof.
  induction l as [|y l IH]; intros m x [->|Hx]; cbn [fold_left].
  - apply Rle_refl.
  - destruct Hx.
  - cbn. unfold Rltb. destruct (Rlt_dec y m).
    + eapply Rle_trans; [apply IH; left; reflexivity|]. lra.
    + apply IH. left. reflexivity.
  - destruct Hx as [->|Hx]; [|apply IH; right; assumption].
    cbn. unfold Rltb. destruct (Rlt_dec x m).
    + apply IH. left. reflexivity.
    + eapply Rle_trans; [apply IH; left; reflexivity|]. lra.
Qed.
Lemma max_min_const l : py_max RNum l = py_min RNum l -> forall x, In x l -> x = py_max RNum l.
Proof.
  destruct l as [|a l]; intros E x Hx; [destruct Hx|].
  assert (x <= py_max RNum (a :: l)) by (apply fold_max_ge; destruct Hx; auto).
  assert (py_min RNum (a :: l) <= x) by (apply fold_min_le; destruct Hx; auto).
  rewrite <- E in *. lra.
Qed.
Lemma const_ssd_zero c l : (forall x, In x l -> x = c) -> l <> [] -> ssd (meanR l) l = 0.
Proof.
  intros H Hne.
  assert (Rsum l = lenR l * c) as Hs.
  { clear Hne. induction l as [|a l IH]; [unfold lenR; cbn; ring|].
    rewrite lenR_cons. cbn [Rsum fold_right]. fold (Rsum l).
    rewrite IH by (intros; apply H; right; assumption). rewrite (H a) by (left; reflexivity). ring. }
  assert (meanR l = c) as Hm.
  { unfold meanR. rewrite Hs. field. pose proof (lenR_pos l Hne). lra. }
  rewrite Hm. unfold ssd. clear Hs Hm Hne.
  induction l as [|a l IH]; [reflexivity|].
  cbn [devs map dot]. fold (devs c l). rewrite IH by (intros; apply H; right; assumption).
  rewrite (H a) by (left; reflexivity). ring.
Qed.

(* estimate_digitized never reports less than the plain type-A uncertainty of the mean *)
Theorem estimate_digitized_R l delta tr lf : (2 <= length l)%nat ->
  estimate_digitized RNum l delta tr = Ok lf ->
  lx lf = (if tr then meanR l + delta / 2 else meanR l)
  /\ sqrt (svar l) / sqrt (lenR l) <= lu lf
  /\ ldf lf = lenR l - 1 /\ lind lf = true.
Proof.
  intros H2 H. pose proof (len_ge2 l H2) as Hz. pose proof (lenR_ge2 l H2) as Hr.
  unfold estimate_digitized in H.
  unfold g_dig_guard in H. destruct (Z.ltb_spec (len l) 2); [lia|]. cbn [bind] in H.
  rewrite mean_real_R in H by (apply ge2_nonnil; assumption). cbn [bind] in H.
  destruct (g_dig_body RNum (len l) l (py_max RNum l) (py_min RNum l) (meanR l) delta tr) as [[mu' u]|] eqn:B;
    cbn [bind] in H; [|discriminate].
  apply g_dig_body_inv in B; [|assumption]. destruct B as [-> B].
  unfold elementary in H. destruct (Z.ltb_spec (len l - 1) 1); [lia|].
  destruct (ltb RNum u (zero RNum)) eqn:Lu; [discriminate|]. injection H as <-. cbn [lx lu ldf lind].
  assert (0 <= u) as Hu.
  { rewrite zero_R in Lu. cbn in Lu. unfold Rltb in Lu. destruct (Rlt_dec u 0); [discriminate|lra]. }
  split; [reflexivity|]. split; [|split; [unfold lenR; apply IZR_pred|reflexivity]].
  rewrite <- sqrt_div_sqrt by (try lra; apply scov_self_nonneg; assumption).
  destruct B as [B|B].
  - rewrite svar_ssd, (const_ssd_zero (py_max RNum l) l (max_min_const l B) (ge2_nonnil l H2)).
    unfold Rdiv. rewrite !Rmult_0_l, sqrt_0. assumption.
  - exact B.
Qed.

(* ================= multi_estimate_complex ================= *)
(* its formulas are those of multi_estimate_real on the 2M real component series *)
Lemma g_mec_u_eq N nn1 d : g_mec_u N nn1 d = g_mer_u N nn1 d.
Proof. reflexivity. Qed.
Lemma g_mec_cv_eq N nn1 d e : g_mec_cv N nn1 d e = g_mer_cv N nn1 d e.
Proof. reflexivity. Qed.
Lemma g_mec_guard_eq N cv : g_mec_guard N cv = g_mer_guard N cv.
Proof. reflexivity. Qed.
Lemma g_mec_r_eq N cv a b : g_mec_r N cv a b = g_mer_r N cv a b.
Proof. reflexivity. Qed.
Lemma g_mec_nn1_eq N n : (n1 <- g_mec_n1 N n ;; g_mec_nn1 N n n1) = g_mer_nn1 N n.
Proof. reflexivity. Qed.
Lemma g_mec_n1_df N n : g_mec_n1 N n = g_mer_df N n.
Proof. reflexivity. Qed.
Lemma g_mec_consts : g_mec_r0 RNum = 0 /\ g_mec_indep RNum = false.
Proof. split; [apply dyad00|reflexivity]. Qed.
Lemma g_mec_mean_R n s : s <> [] -> len s = n -> g_mec_mean RNum n s = Ok (meanR s).
Proof.
  intros Hne L. unfold g_mec_mean. cbn [fsum RNum bind]. fold (Rsum s).
  change (of_Z RNum n) with (IZR n). rewrite <- L.
  rewrite R_div_ok by (apply lenR_neq0; assumption). reflexivity.
Qed.
(* deviations are taken with the opposite sign: mu - x *)
Definition ndevS (s : list R) : list R := map (fun x => meanR s - x) s.
Lemma g_mec_dev_R s : mmap (fun x => g_mec_dev RNum (meanR s) x) s = Ok (ndevS s).
Proof. apply mmap_pure. intros; reflexivity. Qed.
Lemma dot_ndevS s t : dot (ndevS s) (ndevS t) = dot (devS s) (devS t).
Proof.
  unfold ndevS, devS, devs. generalize (meanR s) (meanR t). intros ms mt.
  revert t. induction s as [|x s IH]; intros [|y t]; cbn; try reflexivity. rewrite IH. ring.
Qed.

Section MecEntry.
  Variable n : Z.
  Hypothesis Hn : (2 <= n)%Z.

  Lemma mec_dev_u_R s : mec_dev_u RNum (n * (n - 1)) (meanR s, s) = Ok (ndevS s, uS (NN1 n) (ndevS s)).
  Proof.
    unfold mec_dev_u. cbn [fst snd]. rewrite g_mec_dev_R. cbn [bind].
    rewrite g_mec_u_eq, (g_mer_u_R (NN1 n) (NN1_pos n Hn) (n * (n - 1)) eq_refl). reflexivity.
  Qed.

  (* one correlation entry of multi_estimate_complex *)
  Lemma mec_corr_entry_R di dj partner : length di = length dj ->
    mec_corr_entry RNum (n * (n - 1)) di (uS (NN1 n) di) partner (dj, uS (NN1 n) dj)
    = Ok (match entryS (NN1 n) di dj with
          | Some r => Some r
          | None => if partner then Some 0 else None
          end).
  Proof.
    intros L. pose proof (NN1_pos n Hn) as Hp. unfold mec_corr_entry. cbn [fst snd].
    rewrite g_mec_cv_eq, (g_mer_cv_R (NN1 n) Hp (n * (n - 1)) eq_refl). cbn [bind].
    rewrite g_mec_guard_eq, g_mec_r_eq.
    pose proof (mer_corr_entry_R (NN1 n) Hp di dj L) as E. unfold mer_corr_entry in E.
    destruct g_mec_consts as [-> ->].
    destruct (g_mer_guard RNum (cvS (NN1 n) di dj)) eqn:G.
    - destruct (g_mer_r RNum (cvS (NN1 n) di dj) (uS (NN1 n) di) (uS (NN1 n) dj)) as [r|]; cbn [bind] in *; [|discriminate].
      destruct (set_corr RNum false false r) as [r'|]; cbn [bind] in *; [|discriminate].
      injection E as <-. reflexivity.
    - injection E as <-. reflexivity.
  Qed.

  (* the covariance it stands for: u_i u_j r_ij = S_ij / (N (N-1)), guard and partner default included *)
  Lemma mec_entry_cov s t o :
    len s = n -> len t = n ->
    (o = entryS (NN1 n) (ndevS s) (ndevS t) \/ (entryS (NN1 n) (ndevS s) (ndevS t) = None /\ o = Some 0)) ->
    uS (NN1 n) (ndevS s) * uS (NN1 n) (ndevS t) * (match o with Some r => r | None => 0 end)
    = scov s t / IZR n
    /\ uS (NN1 n) (ndevS s) = sqrt (svar s / IZR n).
  Proof.
    intros Ls Lt Ho. pose proof (NN1_pos n Hn) as Hp.
    assert (cvS (NN1 n) (ndevS s) (ndevS t) = scov s t / IZR n) as Ec.
    { unfold cvS. rewrite dot_ndevS. fold (cvS (NN1 n) (devS s) (devS t)). apply cvS_scov; assumption. }
    split.
    - rewrite <- Ec. destruct Ho as [->|[En ->]].
      + apply entry_cov. assumption.
      + rewrite <- (entry_cov (NN1 n) _ _ Hp), En. reflexivity.
    - unfold uS. rewrite dot_ndevS. fold (uS (NN1 n) (devS s)). apply uS_svar; assumption.
  Qed.
End MecEntry.

(* ================= after the fixes ================= *)
(* complex estimate, whole domain: the returned components always carry the 2x2 covariance of the mean *)
Theorem estimate_cplx_full l : (2 <= length l)%nat ->
  let re := res_ l in let im := ims_ l in let n := lenR l in
  exists lre lim r,
    estimate_cplx RNum l = Ok (lre, lim, Some r)
    /\ lx lre = meanR re /\ lx lim = meanR im /\ ldf lre = n - 1 /\ ldf lim = n - 1
    /\ lu lre * lu lre = svar re / n /\ lu lim * lu lim = svar im / n
    /\ lu lre * lu lim * r = ccov l / n
    /\ lind lre = false /\ lind lim = false /\ (ccov l = 0 -> r = 0).
Proof.
  intros H re im n. pose proof (lenR_ge2 l H) as H3. fold n in H3.
  assert (length re = length l /\ length im = length l) as [Lr Li]
    by (unfold re, im, res_, ims_; rewrite !map_length; auto).
  assert (0 <= svar re) by (apply scov_self_nonneg; lia).
  assert (0 <= svar im) by (apply scov_self_nonneg; lia).
  eexists _, _, _. split; [apply estimate_cplx_R; assumption|]. cbn [lx lu ldf lind].
  repeat (split; [reflexivity|]).
  split; [apply var_from_u; lra|]. split; [apply var_from_u; lra|].
  unfold rS, is0. fold re im. destruct (Req_EM_T (ccov l) 0) as [Hc|Hc].
  - split; [rewrite Hc; unfold Rdiv; ring|]. repeat split; reflexivity.
  - split.
    + destruct (estimate_cplx_cov l H Hc) as (C1 & _ & _). exact C1.
    + repeat split; try reflexivity. intros; contradiction.
Qed.

(* ---- the float model (FNum, any oracle table): _clip_r and the ValueError of set_correlation_real ---- *)
From Coq Require Import PrimFloat.
From GTCV Require Import FNum.

(* the clipped value is r itself or exactly +-1 *)
Lemma clip_float_cases tbl (r : float) :
  exists c, g_clip_r (FNum tbl) r = Ok c /\ (c = r \/ c = 1%float \/ c = (-1)%float).
Proof.
  unfold g_clip_r.
  match goal with |- context [if ?b then _ else _] => destruct b end.
  - eexists. split; [reflexivity|].
    match goal with |- context [if ?b then _ else _] => destruct b end; [right; left|right; right]; reflexivity.
  - eexists. split; [reflexivity|]. left. reflexivity.
Qed.

(* after _clip_r, set_correlation_real can raise ValueError only for a value _clip_r left unchanged,
   i.e. one that is further from [-1,1] than the rounding band: |r| = 1 + ulp no longer raises *)
Theorem clip_float_no_rounding_error tbl (r : float) :
  exists c, g_clip_r (FNum tbl) r = Ok c /\
            (set_corr (FNum tbl) false false c = Err ValueError -> c = r).
Proof.
  destruct (clip_float_cases tbl r) as (c & E & [->|[->| ->]]); eexists; (split; [exact E|]).
  - reflexivity.
  - intros Hs. vm_compute in Hs. discriminate.
  - intros Hs. vm_compute in Hs. discriminate.
Qed.

"""fit_a.py -- correspondence for the type-A straight-line fits (coq/LineFitA.v).

An FSession runs fits, predictions and kernel observations on the real GTC (in /repo's
working tree) while recording each operation as a Gallina `fop float` term and what the
implementation produced as a Gallina `out float` term, plus every libm call GTC made.
Programs are evaluated by the FNum model inside coqc (FitCaseLib.report_fcases); the only
thing read back is, per program, -1 or the index of the first differing step."""
import math, os, re, collections, hashlib, shutil
from common import *
import kernel
from kernel import KSession, cvec, cdf, ckey

CLS = {'LineFitOLS': 'COLS', 'LineFitWLS': 'CWLS', 'LineFitRWLS': 'CRWLS', 'LineFitWTLS': 'CWTLS'}

def clab(z):
    return copt(z, cz)

def lab_code(s):
    """labels are coded as integers: 'a_<l>' -> 2l, 'b_<l>' -> 2l+1, 'L<l>' -> l; anything else -> -7"""
    if s is None: return None
    m = re.fullmatch(r'a_(\d+)', s)
    if m: return 2 * int(m.group(1))
    m = re.fullmatch(r'b_(\d+)', s)
    if m: return 2 * int(m.group(1)) + 1
    m = re.fullmatch(r'L(\d+)', s)
    if m: return int(m.group(1))
    return -7

def lab_out(s):
    c = lab_code(s)
    return 'OutUnit' if c is None else '(OutVal %s)' % cf(float(c))

def cflist(xs):
    return clist([cf(float(v)) for v in xs])

def cdof(d):
    if d is None: return 'DofNone'
    if isinstance(d, (int, float)) and not isinstance(d, bool): return '(DofNum %s)' % cf(float(d))
    return 'DofBad'

def out_keys(uids):
    return '(OutList %s)' % clist(['(OutObj %s [] [] [] (KElem %s))' % (cf(0.0), ckey(u)) for u in sorted(uids)])

def leaf_out(node):
    ens = getattr(node, 'ensemble', ())
    return '(OutList %s)' % clist(['(OutVal %s)' % cf(node.u), '(OutDof %s)' % cdf(float(node.df)), lab_out(node.label),
                                   '(OutVal %s)' % cf(1.0 if node.independent else 0.0), out_keys(ens)])


class FSession(KSession):
    """KSession + fits and predictions.  Kernel operations are wrapped as (FK op)."""
    def __init__(self, ctx_id=1):
        KSession.__init__(self, ctx_id)
        from GTC import type_a, type_b, context
        self.ta, self.tb, self.context = type_a, type_b, context
        self.fits = []           # python fit objects (or None)
        self.fit_slots = []      # (slot of a, slot of b)
        self.side = []           # python-side checks that failed (not expressible as model outputs)
        self.kinds = collections.Counter()

    def record(self, opterm, pyop, thunk, multi=False):
        r = KSession.record(self, opterm, pyop, thunk, multi)
        self.ops[-1] = '(FK %s)' % self.ops[-1]
        self.observe_ensembles(pure=pyop[0] in ('read', 'sens', 'ucomp', 'get_cov', 'get_corr'))
        return r

    def _emit(self, term, pyop, out, slots, observe=True):
        self.ops.append(term); self.pyops.append(pyop); self.outs.append(out)
        for o in slots:
            if o is not None: self.first.setdefault(id(o), len(self.slots))
            self.slots.append(o)
        self.stats[pyop[0]] = self.stats.get(pyop[0], 0) + 1
        if observe: self.observe_ensembles()

    def live_leaves(self):
        """every Leaf reachable from an object this session holds (the registry is weak: these are the live ones)"""
        seen = {}
        for o in self.slots:
            if isinstance(o, self.lib.UncertainReal):
                for v in (o._u_components, o._d_components):
                    for k in v._index:
                        if hasattr(k, 'independent'): seen.setdefault(k.uid, k)
                n = o._node
                if n is not None and hasattr(n, 'independent') and n.uid is not None: seen.setdefault(n.uid, n)
        return [seen[u] for u in sorted(seen)]

    def observe_ensembles(self, pure=False):
        """after every step: what `leaf.ensemble` holds NOW for every live Leaf created so far (an ensemble is one
        shared mutable set: a later append_real_ensemble must be seen through every member)"""
        lv = self.live_leaves()
        if not lv: return
        t = '(FEnsOf %s)' % clist([ckey(k.uid) for k in lv])
        out = '(OutList %s)' % clist([out_keys(getattr(k, 'ensemble', ())) for k in lv])
        if pure and getattr(self, '_last_ens', None) == (t, out):
            # a pure read, and the implementation shows exactly what was compared after the previous step:
            # nothing new to hand to the model (any change seen here IS emitted and compared)
            self.stats['ens-unchanged-after-read'] = self.stats.get('ens-unchanged-after-read', 0) + 1
            return
        self._last_ens = (t, out)
        self._emit(t, ('ens', [list(k.uid) for k in lv]), out, [], observe=False)

    # ---------------- fits
    def _fit_out(self, fit):
        a, b = fit.a_b
        return '(OutList %s)' % clist([self.dump(a), self.dump(b), leaf_out(a._node), leaf_out(b._node),
                                      '(OutVal %s)' % cf(fit.ssr), '(OutVal %s)' % cf(float(fit.N))])

    def _failed_pows(self, x, y, w):
        """the fit raised: if that was after the residuals were squared the model needs the same pow rows"""
        try:
            r = self.ta._line_fit_wls(tuple(float(v) for v in x), tuple(float(v) for v in y), list(w))
        except Exception:
            return
        self._residual_pows(None, x, y, w, r[0], r[1])

    def _failed_pows_ols(self, x, y):
        """line_fit raised: with unit weights _line_fit_wls performs the same float operations for a_, b_"""
        if len(x) != len(y): return
        try:
            r = self.ta._line_fit_wls(tuple(float(v) for v in x), tuple(float(v) for v in y), [1.0] * len(x))
        except Exception:
            return
        self._residual_pows(None, x, y, None, r[0], r[1])

    def _residual_pows(self, fit, x, y, w=None, a_=None, b_=None):
        """(y_i - a_ - b_*x_i)**2 is float ** int: the operator-level external is added by rule"""
        if fit is not None: a_, b_ = fit.a_b[0].x, fit.a_b[1].x
        n = min(len(x), len(y)) if w is None else min(len(x), len(y), len(w))
        for i in range(n):
            r = float(y[i]) - a_ - b_ * float(x[i])
            if w is not None:
                if w[i] == 0: continue
                r = r / w[i]
            self.extra.append(pow_entry(r, 2))

    def _do_fit(self, term, pyop, thunk, after=None, onfail=None):
        try:
            fit = thunk()
        except Exception as ex:
            self.last_exn = ex
            if onfail: onfail()
            self.fits.append(None); self.fit_slots.append(None)
            self._emit(term, pyop, '(OutExn %s)' % cexn(type(ex).__name__), [None, None])
            self.stats['exn'] = self.stats.get('exn', 0) + 1
            return None
        if after: after(fit)
        a, b = fit.a_b
        if type(fit).__name__ not in CLS or CLS[type(fit).__name__] != pyop[1]:
            self.side.append({'kind': 'returned-class', 'op': pyop, 'class': type(fit).__name__})
        if fit.a_b[0] is not fit.intercept or fit.a_b[1] is not fit.slope:
            self.side.append({'kind': 'accessors', 'op': pyop})
        self.fits.append(fit); self.fit_slots.append((len(self.slots), len(self.slots) + 1))
        self._emit(term, pyop, self._fit_out(fit), [a, b])
        return fit

    @staticmethod
    def _pylabel(label):
        return None if label is None else str(label)

    def fit_ols(self, x, y, label=None):
        t = '(FFitOLS %s %s %s)' % (cflist(x), cflist(y), clab(label))
        return self._do_fit(t, ('fit', 'COLS', list(x), list(y), None, None, label),
                            lambda: self.ta.line_fit(list(x), list(y), label=self._pylabel(label)),
                            lambda f: self._residual_pows(f, x, y), lambda: self._failed_pows_ols(x, y))

    def fit_wls(self, x, y, u, dof=None, label=None):
        t = '(FFitWLS %s %s %s %s %s)' % (cflist(x), cflist(y), cflist(u), cdof(dof), clab(label))
        return self._do_fit(t, ('fit', 'CWLS', list(x), list(y), list(u), dof, label),
                            lambda: self.ta.line_fit_wls(list(x), list(y), list(u), dof=dof, label=self._pylabel(label)),
                            lambda f: self._residual_pows(f, x, y, u), lambda: self._failed_pows(x, y, u))

    def fit_rwls(self, x, y, s, dof=None, label=None):
        t = '(FFitRWLS %s %s %s %s %s)' % (cflist(x), cflist(y), cflist(s), cdof(dof), clab(label))
        return self._do_fit(t, ('fit', 'CRWLS', list(x), list(y), list(s), dof, label),
                            lambda: self.ta.line_fit_rwls(list(x), list(y), list(s), dof=dof, label=self._pylabel(label)),
                            lambda f: self._residual_pows(f, x, y, s), lambda: self._failed_pows(x, y, s))

    def _typeb_reference(self, x, y, ux, uy, r_xy, a0_b0):
        """type_b.line_fit_wtls on the same data, in a context of its own: the external computation whose
        results (and uid consumption) the wrapper model takes as an oracle -- also when the wrapper itself
        fails afterwards (e.g. in a.set_correlation)"""
        saved = self.context._context
        try:
            c2 = new_context(self.ctx_id + 100000)
            ind = r_xy is None
            xu = [self.lib.UncertainReal._elementary(float(v), w, math.inf, None, ind) for v, w in zip(x, ux)]
            yu = [self.lib.UncertainReal._elementary(float(v), w, math.inf, None, ind) for v, w in zip(y, uy)]
            if not ind:
                for p, q, rr in zip(xu, yu, r_xy): p.set_correlation(rr, q)
            fb = self.tb.line_fit_wtls(xu, yu, a_b=a0_b0)
            ab, bb = fb.a_b
            return {'skip': c2._elementary_id_counter,
                    'vals': (ab.x, ab.u, bb.x, bb.u, ab.get_correlation(bb), fb.ssr, fb.N)}
        except Exception as ex:
            return {'exn': ex}
        finally:
            self.context._context = saved

    @staticmethod
    def _clip_ok(got, want):
        """the wrapper's r is the type-B r, or +-1 when the type-B r is in the rounding band outside [-1,1]"""
        if float(got).hex() == float(want).hex(): return True
        return 1.0 < abs(want) < 1.0 + 1e-10 and got == math.copysign(1.0, want)

    def fit_wtls(self, x, y, ux, uy, dof=None, label=None, r_xy=None, a0_b0=None):
        ctx = self.context._context
        ne0 = ctx._elementary_id_counter
        try:
            fit = self.ta.line_fit_wtls(list(x), list(y), list(ux), list(uy), a0_b0=a0_b0, r_xy=r_xy, dof=dof,
                                        label=self._pylabel(label))
            err = None
        except Exception as ex:
            fit, err = None, ex; self.last_exn = ex
        pyop = ('fit', 'CWTLS', list(x), list(y), (list(ux), list(uy), r_xy, a0_b0), dof, label)
        def mk(skip, v):
            return '(Some (mkWO %s %s %s %s %s %s %s %s))' % (cz(skip), cf(v[0]), cf(v[1]), cf(v[2]), cf(v[3]), cf(v[4]), cf(v[5]), cz(v[6]))
        def term(orc):
            return '(FFitWTLS %s %s %s %s %s %s %s)' % (cflist(x), cflist(y), cflist(ux), cflist(uy), cdof(dof), clab(label), orc)
        lens_ok = len(x) == len(y) == len(ux) == len(uy)
        if fit is None:
            import traceback
            frames = [f.filename for f in traceback.extract_tb(err.__traceback__)]
            orc = 'None'
            if any(f.endswith('type_b.py') for f in frames):
                # the external type-B fit itself failed (e.g. the bracket invariant of its minimiser)
                orc = '(Some (WOExn %s %s))' % (cz(ctx._elementary_id_counter - ne0), cexn(type(err).__name__))
                self.stats['wtls-external-' + type(err).__name__] = self.stats.get('wtls-external-' + type(err).__name__, 0) + 1
            elif lens_ok and ctx._elementary_id_counter > ne0:
                # the wrapper failed AFTER the type-B fit returned (declaration of a, b or a.set_correlation):
                # the model needs what type_b returned -- taken from the reference run
                ref = self._typeb_reference(x, y, ux, uy, r_xy, a0_b0)
                if 'vals' in ref:
                    orc = mk(ref['skip'], ref['vals'])
                    self.stats['wtls-failed-after-type_b-' + type(err).__name__] = self.stats.get('wtls-failed-after-type_b-' + type(err).__name__, 0) + 1
            self.fits.append(None); self.fit_slots.append(None)
            self._emit(term(orc), pyop, '(OutExn %s)' % cexn(type(err).__name__), [None, None])
            self.stats['exn'] = self.stats.get('exn', 0) + 1
            return None
        a, b = fit.a_b
        skip = a._node.uid[1] - 1 - ne0
        r = a.get_correlation(b)
        # the wrapper must agree with type_b.line_fit_wtls on the same data (reference run); the oracle handed to
        # the model is the TYPE-B result (its correlation is what the wrapper then clips / re-declares)
        ref = self._typeb_reference(x, y, ux, uy, r_xy, a0_b0)
        if 'vals' not in ref:
            self.side.append({'kind': 'wtls-wrapper-vs-type_b', 'op': pyop, 'type_b_raised': repr(ref['exn'])})
            vals = (a.x, a.u, b.x, b.u, r, fit.ssr, fit.N)
        else:
            vals = ref['vals']
            got = (a.x, a.u, b.x, b.u, fit.ssr, fit.N); want = vals[:4] + vals[5:]
            if [float(v).hex() for v in got] != [float(v).hex() for v in want] or not self._clip_ok(r, vals[4]) or ref['skip'] != skip:
                self.side.append({'kind': 'wtls-wrapper-vs-type_b', 'op': pyop, 'type_a': got + (r, skip), 'type_b': want + (vals[4], ref['skip'])})
            if float(r).hex() != float(vals[4]).hex():
                self.stats['wtls-r-clipped'] = self.stats.get('wtls-r-clipped', 0) + 1
        if skip != 2 * len(x) + 1:
            self.stats['wtls-skip-%d' % (skip - 2 * len(x))] = 1
        self.fits.append(fit); self.fit_slots.append((len(self.slots), len(self.slots) + 1))
        self._emit(term(mk(skip, vals)), pyop, self._fit_out(fit), [a, b])
        return fit

    # ---------------- predictions
    def _pylab(self, l):
        return None if l is None else 'L%d' % l

    def _new_leaf(self, obj, uid):
        """the Leaf of the extra input, found through the components of the returned object"""
        if obj is None: return None
        for k in obj._d_components._index:
            if k.uid == uid: return k
        for k in obj._u_components._index:
            if k.uid == uid: return k
        return None

    def _pred(self, term, pyop, fi, thunk, label):
        fit = self.fits[fi]
        ctx = self.context._context
        if fit is None:
            self._emit(term, pyop, '(OutExn AttributeError)', [None, None, None]); return None
        a = fit.a_b[0]
        ne0 = ctx._elementary_id_counter
        try:
            r = thunk(fit)
        except Exception as ex:
            self._emit(term, pyop, '(OutExn %s)' % cexn(type(ex).__name__), [None, None, None])
            self.stats['exn'] = self.stats.get('exn', 0) + 1
            self.stats['exn_' + type(ex).__name__] = self.stats.get('exn_' + type(ex).__name__, 0) + 1
            return None
        uid = (ctx._id, ne0 + 1)
        obs = []
        if r is a:
            self.stats['horizontal'] = self.stats.get('horizontal', 0) + 1
        else:
            lf = self._new_leaf(r, uid)
            obs.append(leaf_out(lf) if lf is not None else '(OutExn KeyError)')
        obs.append(leaf_out(a._node))
        if id(r) in self.first:
            obs.append('(OutSame %d)' % self.first[id(r)])
        else:
            obs.append(self.dump(r))
        self._emit(term, pyop, '(OutList %s)' % clist(obs), [None, None, r])
        return r

    def x_from_y(self, fi, ys, extra=None, x_label=None, y_label=None):
        t = '(FXfromY %d %s %s %s %s)' % (fi, cflist(ys), copt(extra, lambda v: cf(float(v))), clab(x_label), clab(y_label))
        def th(fit):
            args = [list(ys)] + ([extra] if extra is not None else [])
            return fit.x_from_y(*args, x_label=self._pylab(x_label), y_label=self._pylab(y_label))
        return self._pred(t, ('x_from_y', fi, list(ys), extra, x_label, y_label), fi, th, x_label)

    def y_from_x(self, fi, x, extra=None, s_label=None, y_label=None):
        xt = '(ARef %d)' % x[1] if x[0] == 'ref' else '(ANum %s)' % cf(float(x[1]))
        t = '(FYfromX %d %s %s %s %s)' % (fi, xt, copt(extra, lambda v: cf(float(v))), clab(s_label), clab(y_label))
        def th(fit):
            xv = self.slots[x[1]] if x[0] == 'ref' else x[1]
            args = [xv] + ([extra] if extra is not None else [])
            return fit.y_from_x(*args, s_label=self._pylab(s_label), y_label=self._pylab(y_label))
        return self._pred(t, ('y_from_x', fi, list(x), extra, s_label, y_label), fi, th, y_label)

    # labels of kernel declarations made through KSession use 'L<n>' too
    def case_term(self):
        tbl = oracle_table(self.rec.log, self.extra)
        return '(%s, %s, %s, %s)' % (cz(self.ctx_id), tbl, clist(self.ops), clist(self.outs))


HEADER = '''From Coq Require Import ZArith List PrimFloat String.
From GTCV Require Import Num FNum Vector Opres KTypes Kernel FitLib LineFitA FitCaseLib.
Import ListNotations.
Local Open Scope float_scope.
'''

def emit_cases(dirname, sessions, per_file=20, prefix='fcases'):
    files = []
    for fi in range(0, len(sessions), per_file):
        chunk = sessions[fi:fi + per_file]
        path = os.path.join(dirname, '%s_%d.v' % (prefix, fi // per_file))
        with open(path, 'w') as f:
            f.write(HEADER)
            for j, s in enumerate(chunk):
                f.write('Definition c%d : fcase := %s.\n' % (j, s.case_term()))
            f.write('Definition all_cases : list fcase := %s.\n' % clist(['c%d' % j for j in range(len(chunk))]))
            f.write('Eval vm_compute in (report_fcases all_cases).\n')
        files.append((path, list(range(fi, fi + len(chunk)))))
    return files

# ------------------------------------------------------------------ generator
def gen_x(rng, n, kind):
    if kind == 'grid':
        x0 = rng.choice([0.0, 1.0, -3.0, 10.0]); h = rng.choice([1.0, 0.5, 0.1, 2.5])
        return [x0 + h * i for i in range(n)]
    if n < 2:
        return [rng.uniform(-10, 10) for _ in range(n)]
    if kind == 'ints':
        return [float(v) for v in sorted(rng.sample(range(-20, 40), n))]
    if kind == 'cluster' and n >= 2:
        c = [rng.uniform(-5, 5) for _ in range(2)]
        xs = [rng.choice(c) + rng.uniform(-1e-3, 1e-3) for _ in range(n)]
        xs[0] = c[0]; xs[-1] = c[1] + 1.0
        return xs
    if kind == 'repeat':
        base = [rng.uniform(-5, 5) for _ in range(max(2, n // 2))]
        xs = [base[i % len(base)] for i in range(n)]
        return xs
    if kind == 'offset':
        return [1e4 + rng.uniform(0, 1) for _ in range(n)]
    if kind == 'centred':
        # x centred on zero EXACTLY: S_x == 0.0 (exact symmetric offsets, exactly representable)
        h = rng.choice([1.0, 0.5, 2.0, 0.25, 1e-8, 1e8])
        half = [h * (i + (0.5 if n % 2 == 0 else 1.0)) for i in range(n // 2)]
        return [-v for v in reversed(half)] + ([0.0] if n % 2 else []) + half
    if kind == 'symmetric':
        # symmetric about a centre c != 0 (S_x = N*c up to rounding), exact offsets
        c = rng.choice([3.0, -7.5, 100.0, 0.125]); h = rng.choice([1.0, 0.5, 2.0])
        half = [h * (i + (0.5 if n % 2 == 0 else 1.0)) for i in range(n // 2)]
        return [c - v for v in reversed(half)] + ([c] if n % 2 else []) + [c + v for v in half]
    if kind == 'scaled':
        # huge / small scales of x (well inside the float range)
        k = rng.choice([1e-8, 1e-5, 1e5, 1e8])
        return [k * v for v in sorted(rng.sample(range(-20, 40), n))]
    if kind == 'far':
        # x far from zero (shift 1e5 .. 1e9): r_ab -> -+1, the quotient can round to 1 + ulp (_clip_r)
        shift = rng.choice([1.0, -1.0]) * 10.0 ** rng.uniform(5, 9)
        return [shift + rng.uniform(0, 10) for _ in range(n)]
    return [rng.uniform(-10, 10) for _ in range(n)]

X_KINDS = ['grid', 'ints', 'cluster', 'repeat', 'offset', 'far', 'far', 'uniform', 'uniform', 'centred', 'centred', 'symmetric', 'scaled']
LEGIT_KINDS = ['centred', 'centred', 'symmetric', 'scaled', 'far', 'grid', 'ints']

def gen_data(rng, n, kinds=None):
    kind = rng.choice(kinds or X_KINDS)
    x = gen_x(rng, n, kind)
    if rng.random() < 0.3: rng.shuffle(x)
    a0 = rng.choice([0.0, 1.0, -2.5, rng.uniform(-5, 5)]); b0 = rng.choice([1.0, -0.5, 2.0, rng.uniform(-3, 3), 1e-3])
    shape = rng.random()
    if kinds is not None: shape *= 0.4               # the legitimate-degenerate slice: mostly exact shapes of y
    if shape < 0.06:
        y = [a0] * n                                  # horizontal line, exactly
    elif shape < 0.12:
        y = [a0 + b0 * v for v in x]                  # (nearly) perfect fit
    elif shape < 0.16:
        a1, b1 = rng.choice([1.0, -2.0, 0.5]), rng.choice([2.0, -0.5, 0.25])
        y = [a1 + b1 * v for v in x]                  # y exactly on a line with dyadic coefficients (ssr = 0 or rounding)
    elif shape < 0.20:
        k = rng.choice([1e-10, 1e10])
        y = [k * (a0 + b0 * v + rng.gauss(0, 0.1)) for v in x]     # huge / small scale of y
    else:
        s = rng.choice([0.01, 0.1, 1.0])
        y = [a0 + b0 * v + rng.gauss(0, s) for v in x]
    return kind, x, y

def gen_w(rng, n):
    c = rng.random()
    if c < 0.25:
        v = rng.choice([1.0, 0.5, 2.0, 0.1, rng.uniform(0.05, 3)])
        return 'equal', [v] * n
    if c < 0.45:
        return 'two', [rng.choice([0.2, 0.4]) for _ in range(n)]
    return 'free', [rng.uniform(0.05, 3.0) for _ in range(n)]

FIT_COMBOS = ([('COLS', None, lab, None, None) for lab in (False, True)] +
              [(c, d, lab, None, None) for c in ('CWLS', 'CRWLS') for d in (False, True) for lab in (False, True)] +
              [('CWTLS', d, lab, r, ab) for d in (False, True) for lab in (False, True) for r in (False, True) for ab in (False, True)])

def rnd_dof(rng):
    return rng.choice([1, 3, 4.5, 7, 30.0, 1e6, math.inf, 1.0])

def make_fit(s, rng, combo, n, malformed=None, kinds=None):
    cls, d, lab, r, ab = combo
    kind, x, y = gen_data(rng, n, kinds)
    wk, w = gen_w(rng, n)
    dof = rnd_dof(rng) if d else None
    label = rng.randint(0, 9) if lab else None
    s.kinds['x:' + kind] += 1
    if cls != 'COLS': s.kinds['w:' + wk] += 1
    if malformed == 'len':
        y = y[:-1] if rng.random() < 0.5 else y + [0.0]
        if cls != 'COLS' and rng.random() < 0.5: y = (y + [0.0, 0.0])[:n]; w = w[:-1]
    elif malformed == 'zero_w' and cls != 'COLS':
        w = list(w); w[rng.randrange(n)] = 0.0
    elif malformed == 'same_x':
        x = [x[0]] * n
    elif malformed == 'dof':
        # (for WTLS a df in (0,1) is refused only after the external type-B fit has run: not generated)
        dof = rng.choice([0, -1.0, 0.5, math.nan, 'seven', 0.999] if cls != 'CWTLS' else [0, -1.0, math.nan, 'seven'])
    elif malformed == 'neg_w' and cls != 'COLS':
        w = list(w); w[rng.randrange(n)] *= -1.0
    if malformed: s.kinds['malformed:' + malformed] += 1
    if cls == 'COLS': return s.fit_ols(x, y, label)
    if cls == 'CWLS': return s.fit_wls(x, y, w, dof, label)
    if cls == 'CRWLS': return s.fit_rwls(x, y, w, dof, label)
    ux = [rng.uniform(0.01, 0.3) for _ in range(n)]
    rxy = [rng.uniform(-0.6, 0.6) for _ in range(n)] if r else None
    a0b0 = None
    if ab:
        a0b0 = (y[0], (y[-1] - y[0]) / (x[-1] - x[0]) if x[-1] != x[0] else 1.0)
    return s.fit_wtls(x, y, ux, w, dof, label, rxy, a0b0)

def observe_fit(s, rng, fi):
    sa, sb = s.fit_slots[fi]
    s.read('x', sa); s.read('u', sa); s.read('df', sa); s.read('u', sb); s.read('df', sb)
    s.get_corr(sa, sb); s.get_cov(sa, sb)
    if rng.random() < 0.3: s.get_cov(sb, sa); s.get_corr(sb, sb)

def observe_result(s, rng, fi, r):
    if r is None: return
    i = len(s.slots) - 1
    sa, sb = s.fit_slots[fi]
    s.read('x', i); s.read('u', i); s.read('df', i)
    s.ucomp(i, sa); s.ucomp(i, sb)
    if rng.random() < 0.5: s.sens(i, sb)
    if rng.random() < 0.5: s.get_cov(i, sa)

def _reads_since(s, r):
    """distance from the last slot back to the slot holding object r"""
    for back in range(len(s.slots)):
        if s.slots[len(s.slots) - 1 - back] is r: return back
    raise KeyError('result not in a slot')

def predictions(s, rng, fi, combo_index, malformed=False, npred=None):
    fit = s.fits[fi]
    cls = CLS.get(type(fit).__name__) if fit is not None else None
    if cls is None or cls == 'CWTLS': return
    a, b = fit.a_b
    sa, sb = s.fit_slots[fi]
    npred = rng.randint(2, 4) if npred is None else npred
    done = []                    # slots of the results returned so far by this fit object
    for j in range(npred):
        c = (combo_index + j) % 8
        lab1 = rng.randint(10, 49) if c & 1 else None
        lab2 = rng.randint(50, 99) if c & 2 else None
        extra = None
        if cls in ('CWLS', 'CRWLS'):
            extra = rng.choice([1.0, 0.5, 2.0, rng.uniform(0.05, 3)])
            if malformed and rng.random() < 0.3: extra = -extra
        if rng.random() < 0.5:
            p = rng.choice([1, 1, 2, 3, 5])
            if malformed and rng.random() < 0.2: p = 0
            x0 = rng.uniform(-5, 5)
            ys = [a.x + b.x * x0 + rng.gauss(0, 0.1) for _ in range(p)]
            r = s.x_from_y(fi, ys, extra, x_label=lab1, y_label=lab2)
            s.kinds['x_from_y:%s:x_label=%d:y_label=%d' % (cls, lab1 is not None, lab2 is not None)] += 1
        else:
            if c & 4:
                # an uncertain stimulus: a fresh input, or one of the fit's own parameters
                if rng.random() < 0.7:
                    s.ureal(rng.uniform(-5, 5), rng.uniform(0.01, 0.5), rng.choice([math.inf, 5.0]), label=None,
                            indep=rng.random() < 0.7)
                    xa = ('ref', len(s.slots) - 1)
                else:
                    xa = ('ref', rng.choice([sa, sb]))
            else:
                xa = ('num', rng.choice([0.0, 1.0, -1.0, rng.uniform(-10, 10), 5]))
            r = s.y_from_x(fi, xa, extra, s_label=lab1, y_label=lab2)
            s.kinds['y_from_x:%s:x=%s:s_label=%d:y_label=%d' % (cls, xa[0], lab1 is not None, lab2 is not None)] += 1
        observe_result(s, rng, fi, r)
        # every earlier prediction from this fit object is re-read after the later one (same dof, same u)
        for i in done:
            s.read('df', i); s.read('u', i)
        if r is not None:
            s.read('df', sa); s.read('u', sa); s.read('df', sb); s.read('u', sb); s.get_corr(sa, sb)
        if r is not None and r is not a:
            done.append(len(s.slots) - 1 - _reads_since(s, r))
        if r is not None and rng.random() < 0.3:
            observe_fit(s, rng, fi)      # the fit's own numbers are unchanged by a prediction
    if len(done) >= 2:
        i, j = rng.sample(done, 2)
        for f in (['sub', 'add'] if rng.random() < 0.5 else ['sub']):
            d = s.bin(f, ('ref', i), ('ref', j))
            if d is not None:
                k = len(s.slots) - 1
                s.read('x', k); s.read('df', k); s.read('u', k)
        s.kinds['combined-predictions'] += 1
    if done: s.kinds['predictions-per-fit=%d' % len(done)] += 1

MALFORMED = ['len', 'zero_w', 'same_x', 'dof', 'neg_w', 'small_n', 'pred']

PRED_COMBOS = [c for c in FIT_COMBOS if c[0] != 'CWTLS']

def gen_program(rng, ctx_id, index, focus=None):
    """focus=None: the full mix.  focus='history': only classes with prediction methods, 3-5 predictions per fit object,
    no malformed programs (history independence of what existing numbers report).  focus='legit': statistically
    degenerate but legitimate data (exact symmetries, S_x == 0, exact lines, constant y, equal weights, scales, N = 2
    where the class allows it), no malformed programs."""
    s = FSession(ctx_id)
    combos = PRED_COMBOS if focus == 'history' else FIT_COMBOS
    combo = combos[index % len(combos)]
    n = 3 + (index // len(combos) + index) % 10          # 3..12, every N with every combination over time
    malformed = MALFORMED[(index // 7) % len(MALFORMED)] if index % 7 == 6 and focus is None else None
    if malformed == 'small_n': n = rng.choice([0, 1, 2, 2])
    if focus == 'legit' and index % 2: n = 3 + (index // 2) % 4          # small N: 3..6 more often
    if malformed is None and combo[0] == 'CRWLS' and combo[1] and rng.random() < (0.3 if focus == 'legit' else 0.1):
        n = 2                                                # two observations: legitimate for RWLS with a given dof
    if rng.random() < 0.3:
        # some history before the fit: uid counters and registries are not at their initial values
        for _ in range(rng.randint(1, 3)):
            s.ureal(rng.uniform(-2, 2), rng.uniform(0.1, 1), rng.choice([math.inf, 4.0]), label=None, indep=rng.random() < 0.5)
    if combo[0] == 'CWTLS' and malformed not in (None, 'dof', 'len', 'pred'):
        malformed = 'dof'        # failures inside type_b.line_fit_wtls are outside this property's model
        n = max(n, 3)
    f = make_fit(s, rng, combo, n, malformed if malformed not in ('pred', 'small_n') else None,
                 kinds=LEGIT_KINDS if focus == 'legit' else None)
    s.kinds['fit:%s:dof=%s:label=%s' % (combo[0], combo[1], combo[2])] += 1
    s.kinds['N=%d' % n] += 1
    if focus: s.kinds['focus:' + focus] += 1
    if f is None and focus == 'legit':
        # the data of this slice are legitimate by construction (finite, distinct x, positive weights, N >= 3 or N = 2
        # for RWLS with a given dof): a fit function that raises fails the property whatever the model says
        # (for WTLS only the rejection of the correlation counts: the type-B minimiser is external)
        ex = getattr(s, 'last_exn', None)
        if combo[0] != 'CWTLS' or (isinstance(ex, ValueError) and 'correlation coefficient' in str(ex)):
            s.side.append({'kind': 'fit-raised-on-legitimate-data', 'program': s.pyops[-2:][:1] if s.pyops[-1][0] == 'ens' else s.pyops[-1:],
                           'exception': '%s: %s' % (type(ex).__name__, str(ex)[:120])})
    if f is not None:
        observe_fit(s, rng, 0)
        predictions(s, rng, 0, index // len(combos), malformed == 'pred', npred=rng.randint(3, 5) if focus == 'history' else None)
        if rng.random() < 0.25 and combo[0] != 'CWTLS':
            # a second fit in the same session (RWLS with equal factors next to OLS on the same data, or any)
            op = s.pyops[[i for i, p in enumerate(s.pyops) if p[0] == 'fit'][0]]
            x, y = op[2], op[3]
            if len(x) == len(y) and rng.random() < 0.6:
                c = rng.choice([1.0, 0.5, 3.0])
                s.fit_rwls(x, y, [c] * len(x), None, None) if combo[0] == 'COLS' else s.fit_ols(x, y, None)
            else:
                make_fit(s, rng, FIT_COMBOS[rng.randrange(10)], rng.randint(3, 12))
            if s.fits[-1] is not None:
                observe_fit(s, rng, len(s.fits) - 1)
                predictions(s, rng, len(s.fits) - 1, rng.randrange(8))
    s.heap_ok = s.check_heap()
    s.close()
    return s

# data sets (from the C11-6 replay) for which -S_x/(N*S_tt*siga*sigb) evaluates to -(1 + ulp)
CLIP_CASES = [
    ('COLS', [100000007.51257838, 100000009.18512882, 100000009.46636488],
             [2.0594292183694094, 1.3646728771488998, 1.8420474224729038], None),
    ('CWLS', [99999998.12263757, 100000000.90648653, 99999997.23853232, 99999998.68926688],
             [-1.0766564507498613, -0.9834720806860178, 1.6209939783878164, -0.4165849718725969], [0.5] * 4),
    ('CRWLS', [100000005.06878997, 100000007.15429312, 100000005.1488739],
              [-2.5457356721573525, 2.2295855410972107, 1.2692051925560257], [0.5] * 3),
]

# the WTLS wrapper: the correlation of the type-B (a, b) is 1 + ulp (found by the thorough C05 run, far layout)
WTLS_CLIP_CASE = {
    'x': [-388112657.6284376, -388112658.51749456, -388112659.3259595, -388112660.57414216, -388112655.55354434,
          -388112657.2571792, -388112659.38319755, -388112654.1852127, -388112655.63990843, -388112660.6483814,
          -388112663.2023041],
    'y': [4.636992695419677] * 11,
    'ux': [0.16187488648140838, 0.23526258165881692, 0.21746102966759298, 0.22012068002998336, 0.28670691624169486,
           0.10659477304190741, 0.11030772511007027, 0.22221222925893386, 0.11273858948944164, 0.09908210910749085,
           0.03310152042474226],
    'uy': [0.9098282155932774, 0.30291928976702354, 1.1128215520296805, 2.9730475376306145, 1.702368994889182,
           2.7936645952088317, 1.116969883719609, 0.30154971857231655, 1.1671148170572234, 1.6279631215101364,
           2.080020259565961],
    'r_xy': [0.5907661772444751, -0.5284336014336658, -0.36608411649207284, -0.1734405239643329, -0.47213664302393665,
             -0.01935874947813132, -0.4004665660058042, 0.1608612449395449, 0.30936798647018426, -0.3493088249147579,
             0.17579048317008783],
    'a0_b0': [4.636992695419677, -0.0],
}

def gen_wtls_clip_program(rng, ctx_id):
    s = FSession(ctx_id)
    c = WTLS_CLIP_CASE
    f = s.fit_wtls(c['x'], c['y'], c['ux'], c['uy'], None, None, c['r_xy'], c['a0_b0'])
    s.kinds['clip-band:CWTLS'] += 1
    s.kinds['fit:CWTLS:clip'] += 1
    if f is not None:
        observe_fit(s, rng, 0)
    s.heap_ok = s.check_heap()
    s.close()
    return s

def gen_clip_program(rng, ctx_id, k):
    """a fit whose correlation quotient is in the rounding band just outside [-1,1], then reads and predictions"""
    s = FSession(ctx_id)
    cls, x, y, w = CLIP_CASES[k % len(CLIP_CASES)]
    f = s.fit_ols(x, y, None) if cls == 'COLS' else s.fit_wls(x, y, w, 5, None) if cls == 'CWLS' else s.fit_rwls(x, y, w, None, None)
    s.kinds['clip-band:' + cls] += 1
    s.kinds['fit:%s:clip' % cls] += 1
    if f is not None:
        observe_fit(s, rng, 0)
        predictions(s, rng, 0, k)
    s.heap_ok = s.check_heap()
    s.close()
    return s

def run_corr(rng, nprog, name='C13', per_file=None, focus=None):
    sessions = [gen_program(rng, 1 + i, i, focus if focus in ('history', 'legit') else
                            (None, 'legit', None, 'history', None)[i % 5] if focus == 'mix' else None) for i in range(nprog)]
    sessions += [gen_clip_program(rng, 1 + nprog + k, k) for k in range(len(CLIP_CASES))]
    sessions.append(gen_wtls_clip_program(rng, 1 + nprog + len(CLIP_CASES)))
    d = scratch('corr_' + name)
    per_file = per_file or max(4, (nprog + NCPU - 1) // NCPU)
    files = emit_cases(d, sessions, per_file=per_file)
    res = run_coqc_many([f for f, _ in files])
    mism = []
    for f, idx in files:
        rc, out = res[f]
        rep = kernel.parse_report(out)
        if rep is None or len(rep) != len(idx):
            mism.append({'kind': 'coqc-failed', 'file': f, 'rc': rc, 'output': out[-1500:]})
            continue
        for i, r in zip(idx, rep):
            if r != -1:
                s = sessions[i]
                mism.append({'kind': 'model-vs-implementation', 'program': s.pyops[:r + 1], 'step': r, 'ctx': s.ctx_id,
                             'index': i, 'implementation_output': s.outs[r][:800] if r < len(s.outs) else None})
    for i, s in enumerate(sessions):
        if not s.heap_ok:
            mism.append({'kind': 'vector-heap-corrupted', 'program': s.pyops, 'ctx': s.ctx_id})
        for x in s.side:
            mism.append(dict(x, ctx=s.ctx_id, index=i))
    stats = collections.Counter(); kinds = collections.Counter()
    for s in sessions:
        stats.update(s.stats); kinds.update(s.kinds)
    distinct = len(set(hashlib.sha1(repr(s.pyops).encode()).hexdigest() for s in sessions
                       if any(p[0] == 'fit' for p in s.pyops)))
    if not mism:
        shutil.rmtree(d, ignore_errors=True)
    dist = dict(stats); dist.update(kinds)
    return {'programs': len(sessions), 'steps': sum(len(s.ops) for s in sessions), 'mismatches': mism,
            'distinct': distinct, 'distribution': dist,
            'rule': '(+4 fixed programs on data whose correlation rounds to +-(1+ulp): the _clip_r branch of the three fits and of the WTLS wrapper) one program = optional earlier declarations, a fit (x layouts incl. far from zero, shift 1e5..1e9, exactly centred on zero (S_x == 0), symmetric, scaled 1e-8..1e8; y incl. constant, exactly on a line, scaled 1e-10/1e10; N = 2 for RWLS with a given dof; two programs in five are focused: legit = degenerate-but-legitimate data only, history = 3-5 predictions per fit object; after every prediction df,u of a and b and their correlation are read again; the 26 combinations of class x dof x label '
                    '[x r_xy x a0_b0 for WTLS] are cycled, N cycles through 3..12), reads of a and b (x, u, df, correlation, '
                    'covariance), 2-4 predictions cycling the 8 combinations of the optional labels and a plain / uncertain '
                    'stimulus, reads of each result (x, u, df, components w.r.t. a and b); after each later prediction the df and u of '
                    'every earlier prediction of the same fit object are read again, and the df/u of a difference (and sum) of two '
                    'predictions; after EVERY step the ensemble content of every live Leaf created so far is observed (handed to the model unless the step was a pure read and the observation is identical to the one just compared); sometimes a second fit on the same '
                    'data; every 7th program is malformed (lengths, zero/negative weight, equal x, bad dof, N < 3, bad '
                    'prediction arguments); every step output (dumps of a, b, the Leaf of every new input incl. its ensemble, '
                    'ssr, N, results or exception class) compared bit for bit with the FNum model; non-trivial = contains a '
                    'fit; distinct by hash of the operation list',
            'samples': [{'program': s.pyops[:6]} for s in sessions[:2]]}


def fit_correspondence(rng, tier, n=None, focus=None):
    """the fit / ensemble programs as a standard correspondence suite (used by the C13 check in full and, as slices,
    by C05, C10 and C11).  focus: None = the C13 mix (two programs in five are 'legit' / 'history'); 'history' = several predictions from one fit object with every earlier prediction and a, b re-read after
    each later one (C10); 'legit' = statistically degenerate but legitimate data for every fit class (C11)."""
    if n is None:
        n = 208 if tier == 'quick' else 5200
    return run_corr(rng, n, name='fit_%s_%d' % (focus or 'all', os.getpid()), focus=focus or 'mix')

# ------------------------------------------------------------------ oracle slice (search only): legitimate data
def legit_case(rng):
    """statistically degenerate but legitimate data for one of the fit functions: exact symmetries (x centred on zero
    exactly, S_x == 0), symmetric x, scales, far from zero, constant y, y exactly on a line, equal weights, N = 2 for RWLS
    with a given dof.  Everything finite, distinct x, positive weights."""
    cls = rng.choice(['OLS', 'WLS', 'RWLS'])
    n = rng.choice([3, 3, 4, 5, 6, 7, 9])
    dof = None
    if cls == 'RWLS' and rng.random() < 0.25:
        n = 2; dof = rng.choice([1, 3.0])
    elif cls != 'OLS' and rng.random() < 0.3:
        dof = rng.choice([1, 4.5, 30])
    kind, x, y = gen_data(rng, n, LEGIT_KINDS)
    w = None
    if cls != 'OLS':
        w = [rng.choice([1.0, 0.5, 2.0])] * n if rng.random() < 0.6 else [round(rng.uniform(0.2, 2.0), 2) for _ in range(n)]
    return {'cls': cls, 'x': x, 'y': y, 'w': w, 'dof': dof, 'legit': kind}

def check_legit_fit(c):
    """None, or the case with a description of the failure: a fit that raises (or yields a non-number) on legitimate data"""
    from GTC import type_a as ta
    new_context(81)
    x, y, w, dof, cls = c['x'], c['y'], c.get('w'), c.get('dof'), c['cls']
    if len(set(x)) < len(x) or len(x) < (2 if (cls == 'RWLS' and dof is not None) else 3): return None
    if w is not None and min(w) <= 0: return None
    try:
        if cls == 'OLS': fit = ta.line_fit(x, y)
        elif cls == 'WLS': fit = ta.line_fit_wls(x, y, w, dof=dof)
        else: fit = ta.line_fit_rwls(x, y, w, dof=dof)
    except Exception as e:
        return dict(c, failure='fit raised %s(%s) on legitimate data' % (type(e).__name__, str(e)[:80]))
    a, b = fit.a_b
    vals = [a.x, a.u, b.x, b.u, a.get_correlation(b), fit.ssr]
    if any(math.isnan(v) or math.isinf(v) for v in vals) or not (a.u >= 0 and b.u >= 0 and abs(vals[4]) <= 1.0 and fit.ssr >= 0) \
            or fit.N != len(x):
        return dict(c, failure='fit on legitimate data yields a number out of range', detail=vals + [fit.N])
    return None

def legit_fit_oracle(rng, n):
    """search n legitimate data sets; {'tried': k, 'failing': None | case}"""
    for k in range(n):
        c = legit_case(rng)
        try:
            r = check_legit_fit(c)
        except Exception as ex:
            r = dict(c, failure='oracle could not run the case: %r' % (ex,))
        if r is not None:
            return {'tried': k + 1, 'failing': r}
    return {'tried': n, 'failing': None}

# ------------------------------------------------------------------ oracle slice (search only): history independence
def history_case(rng):
    cls = rng.choice(['OLS', 'WLS', 'RWLS'])
    n = rng.randint(4, 10)
    x = sorted(round(rng.uniform(-10, 10), 3) for _ in range(n))
    if len(set(x)) < n: x = [float(i) for i in range(n)]
    a0, b0 = round(rng.uniform(-5, 5), 2), round(rng.choice([1, -1]) * rng.uniform(0.2, 3), 2)
    y = [round(a0 + b0 * v + rng.gauss(0, 0.3), 4) for v in x]
    w = None if cls == 'OLS' else [round(rng.uniform(0.2, 2.0), 2) for _ in range(n)]
    dof = 6 if cls == 'WLS' else None
    extra = None if cls == 'OLS' else round(rng.uniform(0.3, 2.0), 2)
    preds = []
    for _ in range(rng.randint(2, 4)):
        if rng.random() < 0.5: preds.append(('y_from_x', round(rng.uniform(-10, 10), 2)))
        else: preds.append(('x_from_y', [round(a0 + b0 * rng.uniform(-3, 3) + rng.gauss(0, 0.3), 3) for _ in range(rng.randint(1, 3))]))
    return {'cls': cls, 'x': x, 'y': y, 'w': w, 'dof': dof, 'extra': extra, 'preds': preds, 'kind': 'fit-history'}

def check_history(c):
    """what a, b and every earlier prediction report (x, u, df, correlation of a and b) must not change when a later
    prediction is made from the same fit object.  None, or the case with what changed."""
    from GTC import type_a as ta
    new_context(82)
    cls, extra = c['cls'], c.get('extra')
    if cls == 'OLS': fit = ta.line_fit(c['x'], c['y'])
    elif cls == 'WLS': fit = ta.line_fit_wls(c['x'], c['y'], c['w'], dof=c.get('dof'))
    else: fit = ta.line_fit_rwls(c['x'], c['y'], c['w'], dof=c.get('dof'))
    a, b = fit.a_b
    def obs(o): return (float(o.x).hex(), float(o.u).hex(), float(o.df).hex())
    held = [('a', a), ('b', b)]
    seen = {'a': obs(a), 'b': obs(b)}; r0 = float(a.get_correlation(b)).hex()
    for i, (kind, arg) in enumerate(c['preds']):
        args = [arg] + ([extra] if extra is not None else [])
        r = getattr(fit, kind)(*args)
        for name, o in held:
            now = obs(o)
            if now != seen[name]:
                return dict(c, failure='%s reports something else after prediction %d (%s)' % (name, i, kind),
                            detail={'before (x,u,df)': [float.fromhex(v) for v in seen[name]], 'after': [float.fromhex(v) for v in now]})
        if float(a.get_correlation(b)).hex() != r0:
            return dict(c, failure='correlation of a and b changed after prediction %d (%s)' % (i, kind))
        name = 'prediction %d (%s)' % (i, kind)
        held.append((name, r)); seen[name] = obs(r)
    return None

def history_oracle(rng, n):
    for k in range(n):
        c = history_case(rng)
        try:
            r = check_history(c)
        except Exception as ex:
            r = dict(c, failure='oracle could not run the case: %r' % (ex,))
        if r is not None:
            return {'tried': k + 1, 'failing': r}
    return {'tried': n, 'failing': None}

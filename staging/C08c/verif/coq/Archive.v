(* Archive.v -- executable model of GTC/archive.py (_freeze, _thaw, _builder and the vector
   index conversions), the node registries of GTC/context.py (new_leaf / new_node:
   reuse-or-raise), and the JSON / XML codecs of GTC/json_format.py and GTC/xml_format.py, as
   functions between a Gallina frozen-archive record and abstract document trees.
   Pickle is the identity on the frozen record (pickle itself is trusted).
   Definitions only; theorems are in ArchiveFacts.v.

   Representation choices (each is visible in the correspondence run):
   * uids: a Leaf uid (ctx, n) and a Node uid (ctx, n, 0) are both a [key] (ctx, n); the two
     registries are separate tables.  In documents a uid is the string repr(tuple), modelled as
     [SUid [ctx; n]] / [SUid [ctx; n; 0]]  (repr / ast.literal_eval of int tuples are trusted).
   * floats are carried through documents as themselves ([JNum v], [TNum v]): float repr / str
     round-trips exactly in CPython (trusted); what is modelled is WHERE the code converts:
     an infinite dof <-> JSON null / XML "INF".
   * dict = association list in insertion order ([assoc_set] is exactly dict assignment);
     set / frozenset of uids = sorted duplicate-free list (the harness sorts).
   * the optional Leaf attributes complex / correlation / ensemble are [option]s because the
     code tests hasattr; [complex] carries its Python class (tuple or list) because the dof
     code compares it with a tuple and (a, b) == [a, b] is False in Python.  Every reader now
     builds a tuple (json_format.jason_to_leaf built a list until fix C07-json-complex-list);
     [CList] is kept so that the harness can still represent, and the comparison detect, a
     list coming back from the implementation.
   * Node.complex (set on the two Node objects of an intermediate uncertain complex and read
     only by reporting.budget(intermediate=True)) is not modelled. *)
From Coq Require Import ZArith List Bool String.
From GTCV Require Import Num Vector Opres KTypes Kernel.
Import ListNotations.
Local Open Scope string_scope.
Local Open Scope list_scope.

Definition label := option string.

Definition label_eqb (a b : label) : bool :=
  match a, b with
  | None, None => true
  | Some x, Some y => String.eqb x y
  | _, _ => false
  end.

(* string-keyed dict lookup *)
Fixpoint sassoc {A} (l : list (string * A)) (k : string) : option A :=
  match l with
  | [] => None
  | (k', a) :: l' => if String.eqb k k' then Some a else sassoc l' k
  end.

Fixpoint mapM {A B} (f : A -> res B) (l : list A) : res (list B) :=
  match l with
  | [] => Ok []
  | a :: l' => b <- f a ;; bs <- mapM f l' ;; Ok (b :: bs)
  end.

Inductive crepr := CTuple | CList.

Definition JSON_SCHEMA : string := "https://measurement.govt.nz/gtc/json_1.5.0".

(* strings inside documents: plain text, or the repr of a tuple of ints (a uid) *)
Inductive jstr := SText (s : string) | SUid (u : list Z).

Section Archive.
  Variable N : Num.
  Notation V := (T N).
  Notation ureal := (ureal V).
  Notation vec := (list (key * V)).

  (* ---------- nodes.py: Leaf and Node objects (live, or frozen as archive.LeafNode) ---------- *)
  Record aleaf := mkAL {
    al_label : label; al_u : V; al_df : V; al_indep : bool;
    al_cplx : option (crepr * key * key);
    al_corr : option (list (key * V));
    al_ens : option (list key) }.

  Record anode := mkAN { an_label : label; an_u : V; an_df : V }.

  (* context.py: the two uid-keyed registries of a session *)
  Record actx := mkCx { cx_leaves : list (key * aleaf); cx_nodes : list (key * anode) }.
  Definition empty_ctx : actx := mkCx [] [].

  (* ---------- the archive before freezing: what add() stored ---------- *)
  Record cobj := mkCO { co_re : ureal; co_im : ureal; co_label : label }.
  Record archive := mkAr { a_treal : list (string * ureal); a_tcplx : list (string * cobj) }.

  (* _setitem for an UncertainComplex: _untagged_real[tag_re] = z.real; [tag_im] = z.imag *)
  Definition untagged (A : archive) : list (string * ureal) :=
    flat_map (fun tz => [(append (fst tz) "_re", co_re (snd tz));
                         (append (fst tz) "_im", co_im (snd tz))]) (a_tcplx A).

  (* _iter_unreals *)
  Definition unreals (A : archive) : list ureal := map snd (a_treal A) ++ map snd (untagged A).

  (* ---------- the frozen archive: the five collections ---------- *)
  Inductive freal :=
  | FElem (x : V) (uid : key)
  | FInterm (value : V) (u d i : vec) (lbl : label) (uid : key).

  Record fcomplex := mkFC { fc_re : string; fc_im : string; fc_label : label }.

  Record frozen := mkFz {
    f_leaves : list (key * aleaf);
    f_interm : list (key * anode);
    f_treal : list (string * freal);
    f_tcplx : list (string * fcomplex);
    f_ureal : list (string * freal) }.

  (* ================= _freeze ================= *)
  Definition obj_keys (o : ureal) : list key := map fst (uc o) ++ map fst (dc o).

  (* self._leaf_nodes = { n_i.uid : LeafNode(n_i) for un in unreals for n_i in u-keys ++ d-keys }
     (LeafNode copies the attributes: the live tuple / dict items / set content) *)
  Fixpoint collect_leaves (cx : actx) (ks : list key) (acc : list (key * aleaf))
    : res (list (key * aleaf)) :=
    match ks with
    | [] => Ok acc
    | k :: ks' =>
        match assoc (cx_leaves cx) k with
        | Some l => collect_leaves cx ks' (assoc_set acc k l)
        | None => Err KeyError        (* cannot happen: vector indices ARE the node objects *)
        end
    end.

  (* { v._node : v._node.uid for v in unreals if not v.is_elementary }, then
     _intermediate_uids = { uid : (label, u, df) } *)
  Fixpoint collect_interm (cx : actx) (os : list ureal) (acc : list (key * anode))
    : res (list (key * anode)) :=
    match os with
    | [] => Ok acc
    | o :: os' =>
        match unode o with
        | LeafRef _ => collect_interm cx os' acc
        | NodeRef k =>
            match assoc (cx_nodes cx) k with
            | Some n => collect_interm cx os' (assoc_set acc k n)
            | None => Err KeyError
            end
        | _ => Err RuntimeError       (* not elementary, not declared intermediate: add() refuses *)
        end
    end.

  (* _ivector_index_to_uid: only components w.r.t. archived intermediates are kept *)
  Definition restrict_ic (ikeys : list key) (i : vec) : vec :=
    filter (fun kv => kmem (fst kv) ikeys) i.

  Definition freeze_real (cx : actx) (ikeys : list key) (o : ureal) : res freal :=
    match unode o with
    | LeafRef k => Ok (FElem (ux o) k)
    | NodeRef k =>
        match assoc (cx_nodes cx) k with
        | Some n => Ok (FInterm (ux o) (uc o) (dc o) (restrict_ic ikeys (ic o)) (an_label n) k)
        | None => Err KeyError
        end
    | _ => Err RuntimeError
    end.

  Definition freeze_tagged (cx : actx) (ikeys : list key) (l : list (string * ureal))
    : res (list (string * freal)) :=
    mapM (fun to => fr <- freeze_real cx ikeys (snd to) ;; Ok (fst to, fr)) l.

  Definition freeze_cplx (tz : string * cobj) : string * fcomplex :=
    (fst tz, mkFC (append (fst tz) "_re") (append (fst tz) "_im") (co_label (snd tz))).

  (* an uncertain complex is stored either as two elementary or as two intermediate reals *)
  Definition cplx_ok (z : cobj) : bool :=
    match unode (co_re z), unode (co_im z) with
    | LeafRef _, LeafRef _ => true
    | NodeRef _, NodeRef _ => true
    | _, _ => false
    end.

  Definition freeze (cx : actx) (A : archive) : res frozen :=
    match a_treal A, a_tcplx A with
    | [], [] => Err RuntimeError                    (* "The archive is empty!" *)
    | _, _ =>
        if forallb (fun tz => cplx_ok (snd tz)) (a_tcplx A) then
          leaves <- collect_leaves cx (flat_map obj_keys (unreals A)) [] ;;
          interm <- collect_interm cx (unreals A) [] ;;
          let ikeys := map fst interm in
          treal <- freeze_tagged cx ikeys (a_treal A) ;;
          ureal' <- freeze_tagged cx ikeys (untagged A) ;;
          Ok (mkFz leaves interm treal (map freeze_cplx (a_tcplx A)) ureal')
        else Err RuntimeError                       (* mixed components: outside the property *)
    end.

  (* ================= context.new_leaf / new_node ================= *)
  Definition a_one : V := of_Z N 1.

  Definition new_leaf (cx : actx) (k : key) (lb : label) (u df : V) (indep : bool)
    : res (actx * aleaf) :=
    match assoc (cx_leaves cx) k with
    | Some l =>
        if label_eqb lb (al_label l) && eqb N u (al_u l) && eqb N df (al_df l)
           && Bool.eqb indep (al_indep l)
        then Ok (cx, l)
        else Err RuntimeError                       (* "the Leaf node uid(..) is in use already" *)
    | None =>
        let l := mkAL lb u df indep None
                      (if indep then None else Some [(k, a_one)])
                      (if indep then None else Some []) in
        Ok (mkCx (cx_leaves cx ++ [(k, l)]) (cx_nodes cx), l)
    end.

  Definition new_node (cx : actx) (k : key) (lb : label) (u df : V) : res actx :=
    match assoc (cx_nodes cx) k with
    | Some n =>
        (* df == n.df or (df != df and n.df != n.df): the dof of a zero-uncertainty intermediate is NaN *)
        if label_eqb lb (an_label n) && eqb N u (an_u n)
           && (eqb N df (an_df n) || (negb (eqb N df df) && negb (eqb N (an_df n) (an_df n))))
        then Ok cx
        else Err RuntimeError
    | None => Ok (mkCx (cx_leaves cx) (cx_nodes cx ++ [(k, mkAN lb u df)]))
    end.

  Definition or_else {A} (a b : option A) : option A := match a with Some _ => a | None => b end.

  (* l.correlation.setdefault(uid_j, r_j) for every archived entry: the entries the node has win,
     archived entries it lacks are appended *)
  Fixpoint corr_merge (c arch : list (key * V)) : list (key * V) :=
    match arch with
    | [] => c
    | (k, v) :: t => corr_merge (match assoc c k with Some _ => c | None => c ++ [(k, v)] end) t
    end.

  (* one iteration of the first loop of _thaw: reuse-or-create the Leaf, then ASSIGN the optional
     attributes the frozen leaf has onto it -- except that the correlations and the ensemble of a node that was
     live already (its uid was registered before the call) are kept and the archived ones MERGED
     into them (fix: a load no longer erases correlations declared after the dump) *)
  (* l.ensemble.update(archived) on a node that was live already: sorted duplicate-free union *)
  Definition kltb (a b : key) : bool := (fst a <? fst b)%Z || ((fst a =? fst b)%Z && (snd a <? snd b)%Z).
  Fixpoint ens_insert (k : key) (l : list key) : list key :=
    match l with
    | [] => [k]
    | h :: t => if keqb k h then l else if kltb k h then k :: l else h :: ens_insert k t
    end.
  Definition ens_union (c e : list key) : list key := fold_left (fun acc k => ens_insert k acc) e c.

  Definition thaw_leaf (cx : actx) (kf : key * aleaf) : res actx :=
    let '(k, fl) := kf in
    let live := match assoc (cx_leaves cx) k with Some _ => true | None => false end in
    '(cx1, l) <- new_leaf cx k (al_label fl) (al_u fl) (al_df fl) (al_indep fl) ;;
    let l' := mkAL (al_label l) (al_u l) (al_df l) (al_indep l)
                   (or_else (al_cplx fl) (al_cplx l))
                   (match live, al_corr fl, al_corr l with
                    | true, Some c', Some c => Some (corr_merge c c')
                    | _, _, _ => or_else (al_corr fl) (al_corr l)
                    end)
                   (* a live node keeps its ensemble, extended by the archived members (fix: the set the
                      members share is updated in place, not replaced); a created node gets the record *)
                   (match live, al_ens fl, al_ens l with
                    | true, Some e', Some e => Some (ens_union e e')
                    | _, _, _ => or_else (al_ens fl) (al_ens l)
                    end) in
    Ok (mkCx (assoc_set (cx_leaves cx1) k l') (cx_nodes cx1)).

  Fixpoint thaw_leaves (cx : actx) (l : list (key * aleaf)) : res actx :=
    match l with
    | [] => Ok cx
    | kf :: l' => cx1 <- thaw_leaf cx kf ;; thaw_leaves cx1 l'
    end.

  Fixpoint thaw_nodes (cx : actx) (l : list (key * anode)) : res actx :=
    match l with
    | [] => Ok cx
    | (k, n) :: l' => cx1 <- new_node cx k (an_label n) (an_u n) (an_df n) ;; thaw_nodes cx1 l'
    end.

  (* _vector_index_to_node: every uid must be a registered leaf *)
  Fixpoint check_leaf_keys (cx : actx) (v : vec) : res unit :=
    match v with
    | [] => Ok tt
    | (k, _) :: v' =>
        match assoc (cx_leaves cx) k with
        | Some _ => check_leaf_keys cx v'
        | None => Err KeyError
        end
    end.

  (* _ivector_index_to_node: every uid must be in the local _nodes dict of this archive *)
  Fixpoint check_node_keys (ikeys : list key) (v : vec) : res unit :=
    match v with
    | [] => Ok tt
    | (k, _) :: v' => if kmem k ikeys then check_node_keys ikeys v' else Err KeyError
    end.

  (* _builder (with UncertainReal._archived_elementary) *)
  Definition build (cx : actx) (ikeys : list key) (fr : freal) : res ureal :=
    match fr with
    | FElem x k =>
        match assoc (cx_leaves cx) k with
        | None => Err KeyError
        | Some l => Ok (if al_indep l then mkU x [(k, al_u l)] [] [] (LeafRef k)
                        else mkU x [] [(k, al_u l)] [] (LeafRef k))
        end
    | FInterm x u d i _ k =>
        if kmem k ikeys then
          _ <- check_leaf_keys cx u ;; _ <- check_leaf_keys cx d ;; _ <- check_node_keys ikeys i ;;
          Ok (mkU x u d i (NodeRef k))
        else Err KeyError
    end.

  Definition build_tagged (cx : actx) (ikeys : list key) (l : list (string * freal))
    : res (list (string * ureal)) :=
    mapM (fun tf => o <- build cx ikeys (snd tf) ;; Ok (fst tf, o)) l.

  Definition is_elem (o : ureal) : bool := match unode o with LeafRef _ => true | _ => false end.

  Definition set_cplx (cx : actx) (k : key) (c : crepr * key * key) : actx :=
    match assoc (cx_leaves cx) k with
    | Some l => mkCx (assoc_set (cx_leaves cx) k
                        (mkAL (al_label l) (al_u l) (al_df l) (al_indep l) (Some c) (al_corr l) (al_ens l)))
                     (cx_nodes cx)
    | None => cx
    end.

  (* the Complex branch of the last loop of _thaw *)
  Definition thaw_cplx (f : frozen) (ikeys : list key) (cx : actx) (tc : string * fcomplex)
    : res (actx * (string * cobj)) :=
    let '(t, fc) := tc in
    match sassoc (f_ureal f) (fc_re fc) with
    | None => Err KeyError
    | Some fre =>
        re <- build cx ikeys fre ;;
        match sassoc (f_ureal f) (fc_im fc) with
        | None => Err KeyError
        | Some fim =>
            im <- build cx ikeys fim ;;
            if Bool.eqb (is_elem re) (is_elem im) then
              let cx' := match unode re, unode im with
                         | LeafRef kr, LeafRef ki =>
                             set_cplx (set_cplx cx kr (CTuple, kr, ki)) ki (CTuple, kr, ki)
                         | _, _ => cx            (* Node.complex: not modelled *)
                         end in
              Ok (cx', (t, mkCO re im (fc_label fc)))
            else Err AssertionError
        end
    end.

  Fixpoint thaw_cplxs (f : frozen) (ikeys : list key) (cx : actx) (l : list (string * fcomplex))
    : res (actx * list (string * cobj)) :=
    match l with
    | [] => Ok (cx, [])
    | tc :: l' =>
        '(cx1, z) <- thaw_cplx f ikeys cx tc ;;
        '(cx2, zs) <- thaw_cplxs f ikeys cx1 l' ;;
        Ok (cx2, z :: zs)
    end.

  (* _thaw: returns the context afterwards and the restored archive *)
  Definition thaw (cx : actx) (f : frozen) : res (actx * archive) :=
    cx1 <- thaw_leaves cx (f_leaves f) ;;
    cx2 <- thaw_nodes cx1 (f_interm f) ;;
    let ikeys := map fst (f_interm f) in
    reals <- build_tagged cx2 ikeys (f_treal f) ;;
    '(cx3, zs) <- thaw_cplxs f ikeys cx2 (f_tcplx f) ;;
    Ok (cx3, mkAr reals zs).

  (* ================= JSON ================= *)
  Inductive json :=
  | JNull | JBool (b : bool) | JNum (v : V) | JStr (s : jstr)
  | JArr (l : list json) | JObj (m : list (jstr * json)).

  Definition T_ (s : string) : jstr := SText s.
  Definition juid_leaf (k : key) : jstr := SUid [fst k; snd k].
  Definition juid_node (k : key) : jstr := SUid [fst k; snd k; 0%Z].
  Definition jtext (s : string) : json := JStr (SText s).
  Definition jlabel (l : label) : json := match l with None => JNull | Some s => jtext s end.
  (* to_dof_json *)
  Definition jdof (d : V) : json := if is_inf N d then JNull else JNum d.

  Definition vector_to_json (uidf : key -> jstr) (v : vec) : json :=
    JObj [(T_ "CLASS", jtext "Vector");
          (T_ "index", JArr (map (fun kv => JStr (uidf (fst kv))) v));
          (T_ "value", JArr (map (fun kv => JNum (snd kv)) v))].

  Definition leaf_to_json (k : key) (l : aleaf) : json :=
    JObj ([(T_ "CLASS", jtext "LeafNode");
           (T_ "uid", JStr (juid_leaf k));
           (T_ "label", jlabel (al_label l));
           (T_ "u", JNum (al_u l));
           (T_ "df", jdof (al_df l));
           (T_ "independent", JBool (al_indep l))]
          ++ match al_cplx l with
             | Some (_, a, b) => [(T_ "complex", JArr [JStr (juid_leaf a); JStr (juid_leaf b)])]
             | None => []
             end
          ++ match al_corr l with
             | Some c => [(T_ "correlation", JObj (map (fun kr => (juid_leaf (fst kr), JNum (snd kr))) c))]
             | None => []
             end
          ++ match al_ens l with
             | Some e => [(T_ "ensemble", JArr (map (fun k' => JStr (juid_leaf k')) e))]
             | None => []
             end).

  Definition freal_to_json (fr : freal) : json :=
    match fr with
    | FElem x k => JObj [(T_ "CLASS", jtext "ElementaryReal"); (T_ "x", JNum x); (T_ "uid", JStr (juid_leaf k))]
    | FInterm x u d i lb k =>
        JObj [(T_ "CLASS", jtext "IntermediateReal"); (T_ "value", JNum x); (T_ "label", jlabel lb);
              (T_ "uid", JStr (juid_node k));
              (T_ "u_components", vector_to_json juid_leaf u);
              (T_ "d_components", vector_to_json juid_leaf d);
              (T_ "i_components", vector_to_json juid_node i)]
    end.

  Definition fcomplex_to_json (c : fcomplex) : json :=
    JObj [(T_ "CLASS", jtext "Complex"); (T_ "n_re", jtext (fc_re c)); (T_ "n_im", jtext (fc_im c));
          (T_ "label", jlabel (fc_label c))].

  Definition json_encode (f : frozen) : json :=
    JObj [(T_ "CLASS", jtext "Archive");
          (T_ "version", jtext JSON_SCHEMA);
          (T_ "leaf_nodes", JObj (map (fun kl => (juid_leaf (fst kl), leaf_to_json (fst kl) (snd kl))) (f_leaves f)));
          (T_ "tagged_real", JObj (map (fun tf => (T_ (fst tf), freal_to_json (snd tf))) (f_treal f)));
          (T_ "tagged_complex", JObj (map (fun tc => (T_ (fst tc), fcomplex_to_json (snd tc))) (f_tcplx f)));
          (T_ "untagged_real", JObj (map (fun tf => (T_ (fst tf), freal_to_json (snd tf))) (f_ureal f)));
          (T_ "intermediate_uids",
             JObj (map (fun kn => (juid_node (fst kn),
                                   JArr [jlabel (an_label (snd kn)); JNum (an_u (snd kn)); jdof (an_df (snd kn))]))
                       (f_interm f)))].

  (* ---- decoding: json_to_archive / jason_to_leaf (object_hook dispatch on "CLASS") ---- *)
  Fixpoint jget (m : list (jstr * json)) (k : string) : option json :=
    match m with
    | [] => None
    | (SText k', v) :: m' => if String.eqb k k' then Some v else jget m' k
    | _ :: m' => jget m' k
    end.

  Definition jfield (m : list (jstr * json)) (k : string) : res json :=
    match jget m k with Some v => Ok v | None => Err KeyError end.

  Definition is_class (m : list (jstr * json)) (c : string) : bool :=
    match jget m "CLASS" with
    | Some (JStr (SText c')) => String.eqb c c'
    | _ => false
    end.

  (* from_uid_string = ast.literal_eval *)
  Definition uid_leaf_of (s : jstr) : res key :=
    match s with SUid [c; n] => Ok (c, n) | _ => Err ValueError end.
  Definition uid_node_of (s : jstr) : res key :=
    match s with SUid [c; n; 0%Z] => Ok (c, n) | _ => Err ValueError end.
  Definition d_uid_leaf (j : json) : res key :=
    match j with JStr s => uid_leaf_of s | _ => Err ValueError end.
  Definition d_uid_node (j : json) : res key :=
    match j with JStr s => uid_node_of s | _ => Err ValueError end.
  Definition d_num (j : json) : res V := match j with JNum v => Ok v | _ => Err TypeError end.
  Definition d_bool (j : json) : res bool := match j with JBool b => Ok b | _ => Err TypeError end.
  Definition d_label (j : json) : res label :=
    match j with JNull => Ok None | JStr (SText s) => Ok (Some s) | _ => Err TypeError end.
  Definition d_text (j : json) : res string :=
    match j with JStr (SText s) => Ok s | _ => Err TypeError end.
  (* from_dof_json *)
  Definition d_dof (j : json) : res V :=
    match j with JNull => Ok (c_inf N) | JNum v => Ok v | _ => Err TypeError end.

  Fixpoint zip_vec (ks : list key) (vs : list V) : res vec :=
    match ks, vs with
    | [], [] => Ok []
    | k :: ks', v :: vs' => r <- zip_vec ks' vs' ;; Ok ((k, v) :: r)
    | _, _ => Err IndexError
    end.

  Definition d_vector (uidd : json -> res key) (j : json) : res vec :=
    match j with
    | JObj m =>
        if is_class m "Vector" then
          ji <- jfield m "index" ;; jv <- jfield m "value" ;;
          match ji, jv with
          | JArr li, JArr lv => ks <- mapM uidd li ;; vs <- mapM d_num lv ;; zip_vec ks vs
          | _, _ => Err TypeError
          end
        else Err AttributeError          (* a plain dict where a Vector is needed *)
    | _ => Err AttributeError
    end.

  Definition kinsert_all (l : list key) : list key := fold_right kinsert [] l.

  (* jason_to_leaf + LeafNode(...) *)
  Definition d_leaf (j : json) : res (key * aleaf) :=
    match j with
    | JObj m =>
        if is_class m "LeafNode" then
          k <- (x <- jfield m "uid" ;; d_uid_leaf x) ;;
          lb <- (x <- jfield m "label" ;; d_label x) ;;
          u <- (x <- jfield m "u" ;; d_num x) ;;
          df <- (x <- jfield m "df" ;; d_dof x) ;;
          ind <- (x <- jfield m "independent" ;; d_bool x) ;;
          cplx <- (match jget m "complex" with
                   | None => Ok None
                   | Some (JArr (a :: b :: _)) => ka <- d_uid_leaf a ;; kb <- d_uid_leaf b ;; Ok (Some (CTuple, ka, kb))
                   | Some _ => Err IndexError
                   end) ;;
          corr <- (match jget m "correlation" with
                   | None => Ok None
                   | Some (JObj c) => r <- mapM (fun kr => k' <- uid_leaf_of (fst kr) ;; v <- d_num (snd kr) ;; Ok (k', v)) c ;; Ok (Some r)
                   | Some _ => Err AttributeError
                   end) ;;
          ens <- (match jget m "ensemble" with
                  | None => Ok None
                  | Some (JArr e) => r <- mapM d_uid_leaf e ;; Ok (Some (kinsert_all r))
                  | Some _ => Err TypeError
                  end) ;;
          Ok (k, mkAL lb u df ind cplx corr ens)
        else Err AttributeError
    | _ => Err AttributeError
    end.

  Definition d_freal (j : json) : res freal :=
    match j with
    | JObj m =>
        if is_class m "ElementaryReal" then
          x <- (x <- jfield m "x" ;; d_num x) ;;
          k <- (x <- jfield m "uid" ;; d_uid_leaf x) ;;
          Ok (FElem x k)
        else if is_class m "IntermediateReal" then
          x <- (x <- jfield m "value" ;; d_num x) ;;
          u <- (x <- jfield m "u_components" ;; d_vector d_uid_leaf x) ;;
          d <- (x <- jfield m "d_components" ;; d_vector d_uid_leaf x) ;;
          i <- (x <- jfield m "i_components" ;; d_vector d_uid_node x) ;;
          lb <- (x <- jfield m "label" ;; d_label x) ;;
          k <- (x <- jfield m "uid" ;; d_uid_node x) ;;
          Ok (FInterm x u d i lb k)
        else Err AttributeError
    | _ => Err AttributeError
    end.

  Definition d_fcomplex (j : json) : res fcomplex :=
    match j with
    | JObj m =>
        if is_class m "Complex" then
          a <- (x <- jfield m "n_re" ;; d_text x) ;;
          b <- (x <- jfield m "n_im" ;; d_text x) ;;
          lb <- (x <- jfield m "label" ;; d_label x) ;;
          Ok (mkFC a b lb)
        else Err AttributeError
    | _ => Err AttributeError
    end.

  Definition d_tagged {A} (d : json -> res A) (j : json) : res (list (string * A)) :=
    match j with
    | JObj m => mapM (fun tv => match fst tv with
                                | SText t => a <- d (snd tv) ;; Ok (t, a)
                                | _ => Err TypeError
                                end) m
    | _ => Err AttributeError
    end.

  Definition d_interm (kv : jstr * json) : res (key * anode) :=
    k <- uid_node_of (fst kv) ;;
    match snd kv with
    | JArr (a :: b :: c :: _) => lb <- d_label a ;; u <- d_num b ;; df <- d_dof c ;; Ok (k, mkAN lb u df)
    | _ => Err IndexError
    end.

  (* loads_json: the version sniff, then json_to_archive; the leaf table is keyed by the
     uid string of the dict key (the LeafNode's own uid is decoded too) *)
  Definition json_decode (j : json) : res frozen :=
    match j with
    | JObj m =>
        match jget m "version" with
        | Some (JStr (SText v)) =>
            if String.eqb v JSON_SCHEMA then
              if is_class m "Archive" then
                jl <- jfield m "leaf_nodes" ;;
                leaves <- (match jl with
                           | JObj ml => mapM (fun kv => k <- uid_leaf_of (fst kv) ;; kl <- d_leaf (snd kv) ;; Ok (k, snd kl)) ml
                           | _ => Err AttributeError
                           end) ;;
                ji <- jfield m "intermediate_uids" ;;
                interm <- (match ji with JObj mi => mapM d_interm mi | _ => Err AttributeError end) ;;
                treal <- (x <- jfield m "tagged_real" ;; d_tagged d_freal x) ;;
                tcplx <- (x <- jfield m "tagged_complex" ;; d_tagged d_fcomplex x) ;;
                ureal' <- (x <- jfield m "untagged_real" ;; d_tagged d_freal x) ;;
                Ok (mkFz leaves interm treal tcplx ureal')
              else Err AttributeError
            else Err NotImplementedError     (* legacy (pre-1.5) document: decoder not modelled *)
        | _ => Err NotImplementedError
        end
    | _ => Err AttributeError
    end.

  (* ================= XML ================= *)
  Inductive xtext := TNone | TStr (s : string) | TNum (v : V) | TINF | TBool (b : bool).
  Inductive xattr := AStr (s : string) | AUid (u : list Z).
  Inductive xml := XEl (tag : string) (attrs : list (string * xattr)) (text : xtext) (children : list xml).

  Definition xuid_leaf (k : key) : xattr := AUid [fst k; snd k].
  Definition xuid_node (k : key) : xattr := AUid [fst k; snd k; 0%Z].
  Definition xlabel (l : label) : xtext := match l with None => TNone | Some s => TStr s end.
  Definition xdof (d : V) : xtext := if is_inf N d then TINF else TNum d.
  Definition xleafel (tag : string) (t : xtext) : xml := XEl tag [] t [].

  Definition x_components (name : string) (uidf : key -> xattr) (v : vec) : xml :=
    XEl name [] TNone (map (fun kv => XEl "component" [("uid", uidf (fst kv))] (TNum (snd kv)) []) v).

  Definition x_real (tag : string) (fr : freal) : xml :=
    match fr with
    | FElem x k => XEl "elementaryReal" [("tag", AStr tag); ("uid", xuid_leaf k)] TNone [xleafel "value" (TNum x)]
    | FInterm x u d i lb k =>
        XEl "intermediateReal" [("tag", AStr tag); ("uid", xuid_node k)] TNone
            [xleafel "value" (TNum x); xleafel "label" (xlabel lb);
             x_components "uComponents" xuid_leaf u;
             x_components "dComponents" xuid_leaf d;
             x_components "iComponents" xuid_node i]
    end.

  Definition x_leaf (k : key) (l : aleaf) : xml :=
    XEl "leafNode" [("uid", xuid_leaf k)] TNone
        ([xleafel "u" (TNum (al_u l)); xleafel "df" (xdof (al_df l)); xleafel "label" (xlabel (al_label l));
          xleafel "independent" (TBool (al_indep l))]
         ++ match al_cplx l with
            | Some (_, a, b) => [XEl "complex" [] TNone [XEl "real" [("uid", xuid_leaf a)] TNone [];
                                                          XEl "imag" [("uid", xuid_leaf b)] TNone []]]
            | None => []
            end
         ++ match al_corr l with
            | Some c => [XEl "correlations" [] TNone
                             (map (fun kr => XEl "correlation" [("uid", xuid_leaf (fst kr))] (TNum (snd kr)) []) c)]
            | None => []
            end
         ++ match al_ens l with
            | Some e => [XEl "ensemble" [] TNone (map (fun k' => XEl "node" [("uid", xuid_leaf k')] TNone []) e)]
            | None => []
            end).

  (* archive_to_xml: the Element tree the code builds *)
  Definition archive_to_xml (f : frozen) : xml :=
    XEl "gtcArchive" [("version", AStr "1.5.0")] TNone
        [XEl "leafNodes" [] TNone (map (fun kl => x_leaf (fst kl) (snd kl)) (f_leaves f));
         XEl "taggedReals" [] TNone (map (fun tf => x_real (fst tf) (snd tf)) (f_treal f));
         XEl "untaggedReals" [] TNone (map (fun tf => x_real (fst tf) (snd tf)) (f_ureal f));
         XEl "taggedComplexes" [] TNone
             (map (fun tc => XEl "complex" [("tag", AStr (fst tc))] TNone [xleafel "label" (xlabel (fc_label (snd tc)))])
                  (f_tcplx f));
         XEl "intermediates" [] TNone
             (map (fun kn => XEl "intermediate" [("uid", xuid_node (fst kn))] TNone
                                 [xleafel "label" (xlabel (an_label (snd kn))); xleafel "u" (TNum (an_u (snd kn)));
                                  xleafel "df" (xdof (an_df (snd kn)))])
                  (f_interm f))].

  (* what serialising and parsing the tree does to it: an element whose text is the empty
     string is written <label /> and read back with text None *)
  Definition ser_text (t : xtext) : xtext :=
    match t with TStr s => if String.eqb s "" then TNone else t | _ => t end.
  Fixpoint ser_parse (x : xml) : xml :=
    match x with XEl tag attrs t ch => XEl tag attrs (ser_text t) (map ser_parse ch) end.

  (* the XML document, as the reader sees it *)
  Definition xml_encode (f : frozen) : xml := ser_parse (archive_to_xml f).

  (* ---- decoding: xml_to_archive / _v150_to_archive ---- *)
  Definition xtag (x : xml) : string := match x with XEl t _ _ _ => t end.
  Definition xattrs (x : xml) := match x with XEl _ a _ _ => a end.
  Definition xtxt (x : xml) : xtext := match x with XEl _ _ t _ => t end.
  Definition xkids (x : xml) : list xml := match x with XEl _ _ _ c => c end.

  Fixpoint xfind (l : list xml) (name : string) : option xml :=
    match l with
    | [] => None
    | x :: l' => if String.eqb (xtag x) name then Some x else xfind l' name
    end.

  Definition xfield (x : xml) (name : string) : res xml :=
    match xfind (xkids x) name with Some e => Ok e | None => Err AttributeError end.   (* None.text *)

  Definition x_float (t : xtext) : res V :=
    match t with TNum v => Ok v | TINF => Ok (c_inf N) | TNone => Err TypeError | _ => Err ValueError end.
  Definition x_label (t : xtext) : res label :=
    match t with TNone => Ok None | TStr s => Ok (Some s) | _ => Err OtherExn end.
  Definition x_bool (t : xtext) : res bool :=
    match t with TBool b => Ok b | _ => Ok false end.                    (* text == 'true' *)

  Definition x_uid_leaf (x : xml) : res key :=
    match sassoc (xattrs x) "uid" with
    | Some (AUid [c; n]) => Ok (c, n)
    | _ => Err ValueError
    end.
  Definition x_uid_node (x : xml) : res key :=
    match sassoc (xattrs x) "uid" with
    | Some (AUid [c; n; 0%Z]) => Ok (c, n)
    | _ => Err ValueError
    end.
  Definition x_tag (x : xml) : res string :=
    match sassoc (xattrs x) "tag" with
    | Some (AStr s) => Ok s
    | _ => Err OtherExn
    end.

  Definition xd_components (x : xml) (name : string) (uidd : xml -> res key) : res vec :=
    e <- xfield x name ;;
    mapM (fun c => k <- uidd c ;; v <- x_float (xtxt c) ;; Ok (k, v)) (xkids e).

  Definition xd_leaf (x : xml) : res (key * aleaf) :=
    k <- x_uid_leaf x ;;
    lb <- (e <- xfield x "label" ;; x_label (xtxt e)) ;;
    u <- (e <- xfield x "u" ;; x_float (xtxt e)) ;;
    df <- (e <- xfield x "df" ;; x_float (xtxt e)) ;;
    ind <- (e <- xfield x "independent" ;; x_bool (xtxt e)) ;;
    cplx <- (match xfind (xkids x) "complex" with
             | None => Ok None
             | Some c => a <- (e <- xfield c "real" ;; x_uid_leaf e) ;;
                         b <- (e <- xfield c "imag" ;; x_uid_leaf e) ;; Ok (Some (CTuple, a, b))
             end) ;;
    corr <- (match xfind (xkids x) "correlations" with
             | None => Ok None
             | Some c => r <- mapM (fun e => k' <- x_uid_leaf e ;; v <- x_float (xtxt e) ;; Ok (k', v)) (xkids c) ;;
                         Ok (Some r)
             end) ;;
    ens <- (match xfind (xkids x) "ensemble" with
            | None => Ok None
            | Some c => r <- mapM x_uid_leaf (xkids c) ;; Ok (Some (kinsert_all r))
            end) ;;
    Ok (k, mkAL lb u df ind cplx corr ens).

  Definition xd_real (x : xml) : res (string * freal) :=
    if String.eqb (xtag x) "elementaryReal" then
      v <- (e <- xfield x "value" ;; x_float (xtxt e)) ;;
      k <- x_uid_leaf x ;; t <- x_tag x ;;
      Ok (t, FElem v k)
    else if String.eqb (xtag x) "intermediateReal" then
      v <- (e <- xfield x "value" ;; x_float (xtxt e)) ;;
      u <- xd_components x "uComponents" x_uid_leaf ;;
      d <- xd_components x "dComponents" x_uid_leaf ;;
      i <- xd_components x "iComponents" x_uid_node ;;
      lb <- (e <- xfield x "label" ;; x_label (xtxt e)) ;;
      k <- x_uid_node x ;; t <- x_tag x ;;
      Ok (t, FInterm v u d i lb k)
    else Err AssertionError.

  Definition xd_complex (x : xml) : res (string * fcomplex) :=
    t <- x_tag x ;;
    lb <- (e <- xfield x "label" ;; x_label (xtxt e)) ;;
    Ok (t, mkFC (append t "_re") (append t "_im") lb).

  Definition xd_interm (x : xml) : res (key * anode) :=
    lb <- (e <- xfield x "label" ;; x_label (xtxt e)) ;;
    u <- (e <- xfield x "u" ;; x_float (xtxt e)) ;;
    df <- (e <- xfield x "df" ;; x_float (xtxt e)) ;;
    k <- x_uid_node x ;;
    Ok (k, mkAN lb u df).

  Definition xml_decode (x : xml) : res frozen :=
    if String.eqb (xtag x) "gtcArchive" then
      match sassoc (xattrs x) "version" with
      | Some (AStr v) =>
          if String.eqb v "1.5.0" then
            leaves <- (e <- xfield x "leafNodes" ;; mapM xd_leaf (xkids e)) ;;
            treal <- (e <- xfield x "taggedReals" ;; mapM xd_real (xkids e)) ;;
            tcplx <- (e <- xfield x "taggedComplexes" ;; mapM xd_complex (xkids e)) ;;
            ureal' <- (e <- xfield x "untaggedReals" ;; mapM xd_real (xkids e)) ;;
            interm <- (e <- xfield x "intermediates" ;; mapM xd_interm (xkids e)) ;;
            Ok (mkFz leaves interm treal tcplx ureal')
          else Err ValueError
      | _ => Err ValueError
      end
    else Err ValueError.

  (* ================= the three storage paths ================= *)
  Inductive codec := Pickle | Json | Xml.

  Definition transport (c : codec) (f : frozen) : res frozen :=
    match c with
    | Pickle => Ok f
    | Json => json_decode (json_encode f)
    | Xml => xml_decode (xml_encode f)
    end.

  (* dump with codec c in context cx, load in context cx' *)
  Definition store_restore (c : codec) (cx : actx) (A : archive) (cx' : actx) : res (actx * archive) :=
    f <- freeze cx A ;; f' <- transport c f ;; thaw cx' f'.

End Archive.

Arguments mkAL {N}. Arguments al_label {N}. Arguments al_u {N}. Arguments al_df {N}. Arguments al_indep {N}.
Arguments al_cplx {N}. Arguments al_corr {N}. Arguments al_ens {N}.
Arguments mkAN {N}. Arguments an_label {N}. Arguments an_u {N}. Arguments an_df {N}.
Arguments mkCx {N}. Arguments cx_leaves {N}. Arguments cx_nodes {N}.
Arguments mkCO {N}. Arguments co_re {N}. Arguments co_im {N}. Arguments co_label {N}.
Arguments mkAr {N}. Arguments a_treal {N}. Arguments a_tcplx {N}.
Arguments FElem {N}. Arguments FInterm {N}.
Arguments mkFz {N}. Arguments f_leaves {N}. Arguments f_interm {N}. Arguments f_treal {N}.
Arguments f_tcplx {N}. Arguments f_ureal {N}.
Arguments JNull {N}. Arguments JBool {N}. Arguments JNum {N}. Arguments JStr {N}. Arguments JArr {N}. Arguments JObj {N}.
Arguments TNone {N}. Arguments TStr {N}. Arguments TNum {N}. Arguments TINF {N}. Arguments TBool {N}.
Arguments XEl {N}.

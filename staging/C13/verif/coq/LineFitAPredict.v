(* LineFitAPredict.v -- C13, predictions: a number whose dependent components all belong to ONE
   ensemble of finite dof d has dof d (the Welch-Satterthwaite loop of lib.py forms a single
   term), and y_from_x of every fit class returns a + b*x + noise whose components are u(a),
   x*u(b), u(noise) and whose dof is the fit's: the noise input is appended to the ensemble of
   (a, b) by append_real_ensemble.  Uses the C05 description of the loop (WSGroups.v). *)
From Coq Require Import ZArith List Bool Reals Lia Lra Psatz.
From GTCV Require Import Num RNum Vector VectorFacts Opres KTypes Kernel LPU WS WSGroups FitLib LineFitA LineFitAFacts.
From GTCV.gen Require Import Gen_lib_real Gen_type_a_fit.
Import ListNotations.
Local Open Scope R_scope.

Notation ureal := (KTypes.ureal R).
Notation state := (KTypes.state R).
Notation rvecs := (list (key * R)).
Notation dfv := (KTypes.dfval R).
Notation cmapR := (list (list key * (R * dfv))).

(* ================= one ensemble, one term ================= *)
Section OneEnsemble.
  Variable s : state.
  Variable E : list key.
  Variable d : R.
  Hypothesis HE : E <> [].
  Hypothesis Hd : d <> 0.

  (* every component of the dependent vector belongs to a real (not complex) member of E *)
  Definition in_ens (dv : rvecs) : Prop :=
    forall k u, In (k, u) dv ->
      exists l, leaf_of RNum s k = Ok l /\ l_cplx l = None /\ ens_of RNum s l = E /\ l_df l = DFin d /\
                kmem k E = true.

  Lemma in_ens_tail p dv : in_ens (p :: dv) -> in_ens dv.
  Proof. intros H k u Hin. apply (H k u). right. exact Hin. Qed.

  Lemma in_ens_ens k u dv : in_ens dv -> In (k, u) dv -> leaf_ens s k = E /\ leaf_df s k = DFin d.
  Proof.
    intros H Hin. destruct (H k u Hin) as (l & Hl & _ & He & Hdf & _).
    unfold leaf_ens, leaf_df. rewrite Hl. auto.
  Qed.

  Lemma ws_ok_one dv : in_ens dv -> ws_ok s dv.
  Proof.
    induction dv as [|[k u] rest IH]; intros H; [exact Logic.I|].
    destruct (H k u (or_introl eq_refl)) as (l & Hl & Hc & He & _ & _).
    split; [exists l; auto|]. split; [|apply IH; eapply in_ens_tail; eauto].
    intros kj uj r Hin _. destruct (H kj uj (or_intror Hin)) as (lj & Hlj & _ & _ & _ & Hm).
    split; [exists lj; exact Hlj|]. right. unfold leaf_ens. rewrite Hl, He. exact Hm.
  Qed.

  Lemma dfs_ok_one dv : in_ens dv -> dfs_ok s dv.
  Proof.
    intros H k Hin. apply in_map_iff in Hin. destruct Hin as [[k' u] [Hk Hin]]. simpl in Hk. subst k'.
    destruct (in_ens_ens _ _ _ H Hin) as [_ ->]. exact Hd.
  Qed.

  Definition tot (l : list inc) : R := fold_right Rplus 0 (map snd l).

  Lemma fold_add_one (l : list inc) : forall V,
    (forall x, In x l -> fst x = (E, DFin d)) ->
    exists x, fold_left add_inc l [(E, (V, DFin d))] = [(E, (x, DFin d))] /\ x = V + tot l.
  Proof.
    induction l as [|[[E' d'] v] l IH]; intros V H.
    - exists V. split; [reflexivity|unfold tot; simpl; lra].
    - assert (HE' : (E', d') = (E, DFin d)) by (apply (H (E', d', v)); left; reflexivity).
      injection HE' as -> ->. cbn [fold_left add_inc cmap_mem cmap_add]. rewrite klist_eqb_refl. cbn [orb].
      destruct (IH (add RNum V v)) as (x & Hx & Ex); [intros y Hy; apply H; right; exact Hy|].
      exists x. split; [exact Hx|]. rewrite Ex. unfold tot. simpl. lra.
  Qed.

  Lemma inner_incs_one k u rest :
    in_ens ((k, u) :: rest) ->
    (forall x, In x (inner_incs s k u rest) -> fst x = (E, DFin d)) /\
    tot (inner_incs s k u rest) = fold_right Rplus 0 (map (covar s k u) rest).
  Proof.
    intros H. destruct (in_ens_ens _ _ _ H (or_introl eq_refl)) as [Hens Hdf].
    assert (Hb : forall kj, both_inf s k kj = false).
    { intros kj. unfold both_inf. rewrite Hdf. reflexivity. }
    clear H. unfold inner_incs, covar, tot. induction rest as [|[kj uj] rest IH]; [split; [intros ? []|reflexivity]|].
    destruct IH as [IH1 IH2]. cbn [flat_map map fold_right fst snd].
    destruct (leaf_corr s k kj) as [r|].
    - rewrite Hb. cbn [app]. split.
      + intros x [<-|Hx]; [cbn [fst]; rewrite Hens, Hdf; reflexivity|apply IH1; exact Hx].
      + cbn [map fold_right snd]. rewrite IH2. reflexivity.
    - cbn [app]. split; [exact IH1|]. rewrite IH2. lra.
  Qed.

  Lemma groups_run_one dv : forall V, dv <> [] -> in_ens dv ->
    exists x, groups_run s dv ([], [(E, (V, DFin d))]) = ([], [(E, (x, DFin d))]) /\ x = V + vtot s dv.
  Proof.
    induction dv as [|[k u] rest IH]; intros V Hne H; [congruence|].
    destruct (in_ens_ens _ _ _ H (or_introl eq_refl)) as [Hens Hdf].
    destruct (inner_incs_one _ _ _ H) as [Hk Ht].
    cbn [groups_run fst snd]. rewrite Hens, Hdf.
    destruct rest as [|p rest].
    - cbn [cmap_mem]. rewrite klist_eqb_refl. cbn [orb add_inc cmap_mem cmap_add]. rewrite klist_eqb_refl. cbn [orb].
      eexists. split; [reflexivity|]. simpl. unfold vi. lra.
    - destruct E as [|e0 E0] eqn:EE; [congruence|]. rewrite <- EE in *.
      destruct (fold_add_one ((E, DFin d, vi u) :: inner_incs s k u (p :: rest)) V) as (x1 & Hx1 & Ex1).
      { intros x [<-|Hx]; [reflexivity|apply Hk; exact Hx]. }
      rewrite Hx1.
      destruct (IH x1) as (x & Hx & Ex); [discriminate|eapply in_ens_tail; eauto|].
      exists x. split; [exact Hx|]. rewrite Ex, Ex1. unfold tot in *. cbn [map fold_right snd] in *.
      cbn [vtot]. rewrite Ht. destruct p as [k0 u0]. cbn [map fold_right]. lra.
  Qed.

  (* the state of (cpts_lst, cpts_map) after the whole loop: one entry, holding the total variance *)
  Lemma groups_run_start dv : dv <> [] -> in_ens dv ->
    exists x, x = vtot s dv /\
      (groups_run s dv ([], []) = ([(x, DFin d)], []) \/ groups_run s dv ([], []) = ([], [(E, (x, DFin d))])).
  Proof.
    destruct dv as [|[k u] rest]; intros Hne H; [congruence|].
    destruct (in_ens_ens _ _ _ H (or_introl eq_refl)) as [Hens Hdf].
    destruct (inner_incs_one _ _ _ H) as [Hk Ht].
    cbn [groups_run fst snd]. rewrite Hens, Hdf.
    destruct rest as [|p rest].
    - cbn [cmap_mem]. eexists. split; [|left; reflexivity]. cbn [vtot map fold_right]. lra.
    - destruct E as [|e0 E0] eqn:EE; [congruence|]. rewrite <- EE in *.
      cbn [fold_left add_inc cmap_mem app].
      destruct (fold_add_one (inner_incs s k u (p :: rest)) (0 + vi u) Hk) as (x1 & Hx1 & Ex1).
      rewrite Hx1.
      destruct (groups_run_one (p :: rest) x1) as (x & Hx & Ex); [discriminate|eapply in_ens_tail; eauto|].
      exists x. split; [|right; exact Hx]. rewrite Ex, Ex1. cbn [vtot]. rewrite Ht. destruct p as [k0 u0]. cbn [map fold_right]. lra.
  Qed.

  Theorem one_ensemble_dof (o : ureal) c :
    unode o = NoNode -> uc o = [] -> dc o <> [] -> in_ens (dc o) -> vtot s (dc o) <> 0 ->
    exists var, welch_satterthwaite RNum s o c = Ok (var, DFin d, c) /\ var = vtot s (dc o).
  Proof.
    destruct o as [ox ou od oi on]. cbn [unode uc dc]. intros Hn Hu Hdc Hin Hv. subst on ou.
    assert (Hcst : is_constant RNum (mkU ox [] od oi NoNode) = false)
      by (unfold is_constant; cbn [uc dc]; destruct od; congruence).
    assert (Hfin : exists k, (In k (map fst (@nil (key * R))) \/ In k (map fst od)) /\ leaf_df s k <> DInf).
    { destruct od as [|[k u] rest]; [congruence|]. exists k. split; [right; left; reflexivity|].
      destruct (in_ens_ens k u _ Hin (or_introl eq_refl)) as [_ ->]. discriminate. }
    pose proof (ws_real_result s (mkU ox [] od oi NoNode) c eq_refl Hcst) as W. cbn [uc dc] in W.
    specialize (W (fun k (H : In k []) => match H with end) (fun k (H : In k []) => match H with end)
                  (ws_ok_one _ Hin) (dfs_ok_one _ Hin) Hfin).
    cbv zeta in W. cbn [map rev vsum] in W.
    destruct (groups_run_start _ Hdc Hin) as (x & Ex & [Hg|Hg]); rewrite Hg in W; cbn [fst snd map] in W;
      unfold sum_terms in W; cbn [fold_right fst snd ws_term] in W; rewrite Ex in W.
    - exists (0 + vtot s od). split; [|lra]. rewrite W.
      destruct (Req_EM_T (0 + vtot s od) 0); [lra|].
      set (v := vtot s od) in *.
      assert (Hden : v / (0 + v) * (v / (0 + v)) / d + 0 + 0 = 1 / d) by (field; split; lra).
      rewrite Hden. destruct (Req_EM_T (1 / d) 0) as [E0|E0].
      + exfalso. apply (Rmult_eq_compat_r d) in E0. field_simplify in E0; lra.
      + replace (1 / (1 / d)) with d by (field; exact Hd). reflexivity.
    - exists (0 + vtot s od). split; [|lra]. rewrite W.
      destruct (Req_EM_T (0 + vtot s od) 0); [lra|].
      set (v := vtot s od) in *.
      assert (Hden : 0 + (v / (0 + v) * (v / (0 + v)) / d + 0) = 1 / d) by (field; split; lra).
      rewrite Hden. destruct (Req_EM_T (1 / d) 0) as [E0|E0].
      + exfalso. apply (Rmult_eq_compat_r d) in E0. field_simplify in E0; lra.
      + replace (1 / (1 / d)) with d by (field; exact Hd). reflexivity.
  Qed.
End OneEnsemble.

(* ================= the returned expression a + b*x + noise ================= *)
Definition dep_input (x : R) (k : key) (u : R) : ureal := mkU x [] [(k, u)] [] (LeafRef k).

Lemma get_real_direct (s : KTypes.state (T RNum)) i (o : KTypes.ureal (T RNum)) (c : option (T RNum)) :
  nth_error (s_slots s) i = Some (SReal o c) -> get_real RNum s i = Ok (i, o, c).
Proof.
  intros H.
  assert (R0 : resolve RNum s i = i).
  { unfold resolve. destruct (s_slots s) as [|x sl] eqn:L; [destruct i; discriminate|].
    change (length (x :: sl)) with (S (length sl)). cbn [resolve_aux]. rewrite H. reflexivity. }
  unfold get_real. rewrite R0, H. reflexivity.
Qed.

Lemma sorted_one k (u : R) : @sorted RNum [(k, u)].
Proof. simpl. split; [intros ? []|exact Logic.I]. Qed.

Section YExpr.
  Variable s : state.
  Variables ia ib inz : nat.
  Variables xa ua xb ub xn un : R.
  Variables ka kb kn : key.
  Variables ca cb cn : option R.
  Hypothesis Ha : get_real RNum s ia = Ok (ia, dep_input xa ka ua, ca).
  Hypothesis Hb : get_real RNum s ib = Ok (ib, dep_input xb kb ub, cb).
  Hypothesis Hn : get_real RNum s inz = Ok (inz, dep_input xn kn un, cn).

  (* the dependent components of b*v: b's own vector when v = 1 (the operand itself is returned) *)
  Definition bv_vec (v : R) : rvecs := if Req_EM_T v 1 then [(kb, ub)] else scale (N:=RNum) [(kb, ub)] v.

  Lemma y_expr_eval v :
    exists y, eval_un RNum s (y_expr RNum ia ib (ENum RNum v) inz) = Ok (OpdU y) /\
      ux y = xa + xb * v + xn /\ uc y = [] /\ unode y = NoNode /\
      dc y = merge (N:=RNum) (merge (N:=RNum) [(ka, ua)] (bv_vec v)) [(kn, un)].
  Proof.
    unfold y_expr. cbn [eval_un]. cbn [T RNum] in *. rewrite Ha, Hb, Hn. cbn [bind].
    cbn [apply_bin g_bin_un g_bin_uu]. unfold g_mul_num, g_add_un. cbn [eqb RNum]. unfold Reqb, bv_vec.
    assert (D1 : dyad RNum 1%Z 0%Z = 1) by (simpl; lra). cbn [T RNum] in *. rewrite D1.
    destruct (Req_EM_T v 1) as [E1|E1].
    - subst v. cbn [bind realize of_opval pick dep_input ux uc dc ic unode new_un].
      eexists. split; [reflexivity|]. cbn [ux uc dc unode new_un dep_input].
      split; [cbn [add mul RNum]; lra|]. repeat split; reflexivity.
    - cbn [bind realize of_opval pick dep_input ux uc dc ic unode new_un].
      eexists. split; [reflexivity|]. cbn [ux uc dc unode new_un dep_input].
      split; [cbn [add mul RNum]; lra|]. repeat split; reflexivity.
  Qed.

  (* keys and components of that vector *)
  Lemma bv_keys v k : In k (keys (N:=RNum) (bv_vec v)) -> k = kb.
  Proof. unfold bv_vec. destruct (Req_EM_T v 1); simpl; intros [H|[]]; auto. Qed.

  Lemma bv_sorted v : @sorted RNum (bv_vec v).
  Proof. unfold bv_vec. destruct (Req_EM_T v 1); [apply sorted_one|apply sorted_scale, sorted_one]. Qed.

  Lemma bv_get0 v k : get0 (N:=RNum) (bv_vec v) k = if keqb k kb then v * ub else 0.
  Proof.
    unfold bv_vec. destruct (Req_EM_T v 1) as [->|_]; unfold get0; simpl; destruct (keqb k kb); simpl; lra.
  Qed.

  Definition y_vec (v : R) : rvecs := merge (N:=RNum) (merge (N:=RNum) [(ka, ua)] (bv_vec v)) [(kn, un)].

  Lemma y_vec_keys v k : In k (keys (N:=RNum) (y_vec v)) -> k = ka \/ k = kb \/ k = kn.
  Proof.
    unfold y_vec, merge. intros H. apply keys_mloop in H. destruct H as [H|H].
    - apply keys_mloop in H. destruct H as [[H|[]]|H]; [left; auto|right; left; eapply bv_keys; eauto].
    - destruct H as [H|[]]. right; right; auto.
  Qed.

  Lemma y_vec_ne v : y_vec v <> [].
  Proof.
    intros H. assert (Hin : In ka (keys (N:=RNum) (y_vec v))).
    { unfold y_vec, merge. apply keys_mloop. left. apply keys_mloop. left. left. reflexivity. }
    rewrite H in Hin. destruct Hin.
  Qed.

  (* the components of uncertainty: u(a), v*u(b), u(noise) (distinct keys) *)
  Lemma y_vec_get0 v k :
    get0 (N:=RNum) (y_vec v) k =
    (if keqb k ka then ua else 0) + (if keqb k kb then v * ub else 0) + (if keqb k kn then un else 0).
  Proof.
    unfold y_vec. rewrite !get0_merge; try apply sorted_one; try apply bv_sorted;
      try (apply sorted_merge; [apply sorted_one|apply bv_sorted]).
    rewrite bv_get0. unfold get0. simpl. destruct (keqb k ka), (keqb k kn); simpl; lra.
  Qed.
End YExpr.

(* ================= the state after the extra input has joined the ensemble ================= *)
Lemma assoc_app {A} (l l' : list (key * A)) k :
  Kernel.assoc (l ++ l') k = match Kernel.assoc l k with Some a => Some a | None => Kernel.assoc l' k end.
Proof. induction l as [|[k0 a0] l IH]; simpl; auto. destruct (keqb k k0); auto. Qed.

Lemma nth_set_nth_same {A} (l : list A) : forall i a dflt, (i < length l)%nat -> nth i (set_nth l i a) dflt = a.
Proof. induction l as [|x l IH]; intros [|i] a dflt H; simpl in *; try lia; auto. apply IH. lia. Qed.

Lemma kmem_kinsert k k' l : kmem k (kinsert k' l) = keqb k k' || kmem k l.
Proof.
  induction l as [|k0 l IH]; simpl; auto.
  destruct (kcmp k' k0) eqn:C; simpl.
  - apply kcmp_eq in C. subst k0. destruct (keqb k k'); reflexivity.
  - reflexivity.
  - rewrite IH. destruct (keqb k k0), (keqb k k'); reflexivity.
Qed.

Lemma kinsert_ne k l : kinsert k l <> [].
Proof. destruct l as [|k0 l]; simpl; [discriminate|]. destruct (kcmp k k0); discriminate. Qed.

Section Predict.
  Variable s : KTypes.state (T RNum).
  Variable f : fit (T RNum).
  Variables xa ua xb ub d : R.
  Variables ka kb : key.
  Variables ca cb : option (T RNum).
  Variables la lb : leaf (T RNum).
  Variable E0 : list key.
  Let kn : key := (s_ctx s, (s_ne s + 1)%Z).

  (* what a fit function leaves behind (LineFitA.declare_fit): a and b are dependent elementary
     inputs of the same finite dof, members of one ensemble; the next uid is unused *)
  Hypothesis Hsa : nth_error (s_slots s) (ft_a f) = Some (SReal (dep_input xa ka ua) ca).
  Hypothesis Hsb : nth_error (s_slots s) (ft_b f) = Some (SReal (dep_input xb kb ub) cb).
  Hypothesis Hla : Kernel.assoc (s_leaves s) ka = Some la.
  Hypothesis Hlb : Kernel.assoc (s_leaves s) kb = Some lb.
  Hypothesis Hia : l_indep la = false /\ l_df la = DFin d /\ l_cplx la = None.
  Hypothesis Hib : l_indep lb = false /\ l_df lb = DFin d /\ l_cplx lb = None.
  Hypothesis Hens : l_ens lb = l_ens la.
  Hypothesis Heid : (l_ens la < length (s_ens s))%nat.
  Hypothesis HE0 : nth (l_ens la) (s_ens s) [] = E0.
  Hypothesis Hma : kmem ka E0 = true.
  Hypothesis Hmb : kmem kb E0 = true.
  Hypothesis Hfresh : Kernel.assoc (s_leaves s) kn = None.
  Hypothesis Hd1 : 1 <= d.

  Let E : list key := kinsert kn E0.

  Lemma ka_ne_kn : keqb ka kn = false.
  Proof. destruct (keqb ka kn) eqn:C; auto. apply keqb_eq in C. rewrite C in Hla. congruence. Qed.
  Lemma kb_ne_kn : keqb kb kn = false.
  Proof. destruct (keqb kb kn) eqn:C; auto. apply keqb_eq in C. rewrite C in Hlb. congruence. Qed.

  (* the state declare_extra produces *)
  Definition new_leaf (ps : predspec (T RNum)) (label : option Z) : leaf (T RNum) :=
    mkLeaf (ps_u ps) (DFin d) false [(kn, one RNum)] (l_ens la) None label.
  Definition post_state (ps : predspec (T RNum)) (label : option Z) : KTypes.state (T RNum) :=
    mkS (s_ctx s) (s_ne s + 1)%Z (s_ni s)
        (assoc_set (s_leaves s ++ [(kn, mkLeaf (ps_u ps) (DFin d) false [(kn, one RNum)] (length (s_ens s)) None label)])
                   kn (new_leaf ps label))
        (s_nodes s) (set_nth (s_ens s ++ [[]]) (l_ens la) E) (s_slots s).

  Lemma prefix_ok (spec : dfval (T RNum) -> res (predspec (T RNum))) ps label :
    spec (DFin d) = Ok ps -> ps_indep ps = Some false -> 0 <= ps_u ps ->
    pred_prefix RNum s f spec label =
    Ok (post_state ps label, dep_input xa ka ua, dep_input xb kb ub, dep_input (ps_x ps) kn (ps_u ps)).
  Proof.
    intros Hspec Hind Hu. destruct Hia as (Ia & Da & Ca).
    unfold pred_prefix. rewrite (get_real_direct _ _ _ _ Hsa), (get_real_direct _ _ _ _ Hsb). cbn [bind].
    unfold node_df. cbn [unode dep_input]. unfold leaf_of. rewrite Hla. cbn [bind]. rewrite Da, Hspec. cbn [bind].
    unfold declare_extra. rewrite Hind. unfold elementary.
    cbn [ltb RNum one zero of_Z]. unfold Rltb.
    destruct (Rlt_dec d (IZR 1)) as [C|_]; [lra|]. destruct (Rlt_dec (ps_u ps) (IZR 0)) as [C|_]; [lra|].
    cbn [bind]. fold kn.
    unfold append_ens. cbn [unode dep_input]. unfold leaf_of. cbn [s_leaves].
    rewrite !assoc_app, Hla, Hfresh. cbn [Kernel.assoc]. rewrite keqb_refl. cbn [bind l_indep].
    rewrite Ia. cbn [s_ctx s_ne s_ni s_leaves s_nodes s_ens s_slots].
    unfold set_leaf_ens. cbn [s_leaves]. rewrite assoc_app, Hfresh. cbn [Kernel.assoc]. rewrite keqb_refl.
    unfold set_leaves. cbn [s_ctx s_ne s_ni s_leaves s_nodes s_ens s_slots l_u l_df l_indep l_corr l_cplx l_label].
    unfold post_state, new_leaf, E. rewrite app_nth1 by exact Heid. rewrite HE0. reflexivity.
  Qed.

  (* its leaves and ensembles *)
  Section Post.
    Variable ps : predspec (T RNum).
    Variable label : option Z.
    Let s1 := post_state ps label.

    Lemma post_ens_of l : l_ens l = l_ens la -> ens_of RNum s1 l = E.
    Proof.
      intros H. unfold ens_of, s1, post_state. cbn [s_ens]. rewrite H.
      apply nth_set_nth_same. rewrite app_length. lia.
    Qed.
    Lemma post_leaf_a : leaf_of RNum s1 ka = Ok la.
    Proof.
      unfold leaf_of, s1, post_state. cbn [s_leaves].
      rewrite assoc_set_other by exact ka_ne_kn. rewrite assoc_app, Hla. reflexivity.
    Qed.
    Lemma post_leaf_b : leaf_of RNum s1 kb = Ok lb.
    Proof.
      unfold leaf_of, s1, post_state. cbn [s_leaves].
      rewrite assoc_set_other by exact kb_ne_kn. rewrite assoc_app, Hlb. reflexivity.
    Qed.
    Lemma post_leaf_n : leaf_of RNum s1 kn = Ok (new_leaf ps label).
    Proof. unfold leaf_of, s1, post_state. cbn [s_leaves]. rewrite assoc_set_same. reflexivity. Qed.

    Lemma post_in_ens (s2 : KTypes.state (T RNum)) (dv : rvecs) :
      s_leaves s2 = s_leaves s1 -> s_ens s2 = s_ens s1 ->
      (forall k, In k (keys (N:=RNum) dv) -> k = ka \/ k = kb \/ k = kn) ->
      in_ens s2 E d dv.
    Proof.
      intros HL HEn Hk k u Hin.
      assert (Hlf : forall k0, leaf_of RNum s2 k0 = leaf_of RNum s1 k0) by (intros; unfold leaf_of; rewrite HL; reflexivity).
      assert (Hen : forall l, ens_of RNum s2 l = ens_of RNum s1 l) by (intros; unfold ens_of; rewrite HEn; reflexivity).
      assert (Hkk : In k (keys (N:=RNum) dv)) by (unfold keys; apply in_map_iff; exists (k, u); auto).
      destruct Hia as (_ & Da & Ca). destruct Hib as (_ & Db & Cb).
      destruct (Hk k Hkk) as [-> | [-> | ->]].
      - exists la. rewrite Hlf, Hen, post_leaf_a.
        split; [reflexivity|]. split; [exact Ca|]. split; [exact (post_ens_of la eq_refl)|]. split; [exact Da|].
        unfold E. rewrite kmem_kinsert, Hma. apply orb_true_r.
      - exists lb. rewrite Hlf, Hen, post_leaf_b.
        split; [reflexivity|]. split; [exact Cb|]. split; [exact (post_ens_of lb Hens)|]. split; [exact Db|].
        unfold E. rewrite kmem_kinsert, Hmb. apply orb_true_r.
      - exists (new_leaf ps label). rewrite Hlf, Hen, post_leaf_n.
        split; [reflexivity|]. split; [reflexivity|]. split; [exact (post_ens_of _ eq_refl)|]. split; [reflexivity|].
        unfold E. rewrite kmem_kinsert, keqb_refl. reflexivity.
    Qed.
  End Post.
  (* ---------- y_from_x with a plain number x = v, any class (spec = that class's noise input) ---------- *)
  Theorem y_from_x_plain (spec : dfval (T RNum) -> res (predspec (T RNum))) ps v :
    spec (DFin d) = Ok ps -> ps_indep ps = Some false -> 0 <= ps_u ps ->
    let s1 := post_state ps None in
    let nz := dep_input (ps_x ps) kn (ps_u ps) in
    let s2 := push RNum s1 (SReal nz None) in
    exists y,
      pred_prefix RNum s f spec None = Ok (s1, dep_input xa ka ua, dep_input xb kb ub, nz) /\
      eval_un RNum s2 (y_expr RNum (ft_a f) (ft_b f) (ENum RNum v) (length (s_slots s1))) = Ok (OpdU y) /\
      ux y = xa + xb * v + ps_x ps /\ uc y = [] /\ unode y = NoNode /\
      (forall k, get0 (N:=RNum) (dc y) k =
                 (if keqb k ka then ua else 0) + (if keqb k kb then v * ub else 0) + (if keqb k kn then ps_u ps else 0)) /\
      (vtot s2 (dc y) <> 0 ->
       exists var, welch_satterthwaite RNum s2 y None = Ok (var, DFin d, None) /\ var = vtot s2 (dc y)).
  Proof.
    intros Hspec Hind Hu s1 nz s2.
    assert (Hlen : length (s_slots s1) = length (s_slots s)) by reflexivity.
    assert (Hsl : s_slots s2 = s_slots s ++ [SReal nz None]) by reflexivity.
    assert (Ga : get_real RNum s2 (ft_a f) = Ok (ft_a f, dep_input xa ka ua, ca)).
    { apply get_real_direct. rewrite Hsl, nth_error_app1; [exact Hsa|]. apply nth_error_Some. rewrite Hsa. discriminate. }
    assert (Gb : get_real RNum s2 (ft_b f) = Ok (ft_b f, dep_input xb kb ub, cb)).
    { apply get_real_direct. rewrite Hsl, nth_error_app1; [exact Hsb|]. apply nth_error_Some. rewrite Hsb. discriminate. }
    assert (Gn : get_real RNum s2 (length (s_slots s1)) = Ok (length (s_slots s1), nz, None)).
    { apply get_real_direct. rewrite Hsl, Hlen, nth_error_app2, Nat.sub_diag by lia. reflexivity. }
    destruct (y_expr_eval s2 _ _ _ _ _ _ _ _ _ _ _ _ _ _ _ Ga Gb Gn v) as (y & Hy & Hx & Huc & Hnode & Hdc).
    assert (Hdc' : @dc (T RNum) y = y_vec ua ub (ps_u ps) ka kb kn v) by exact Hdc.
    exists y. split; [apply prefix_ok; assumption|]. split; [exact Hy|]. split; [exact Hx|].
    split; [exact Huc|]. split; [exact Hnode|]. split.
    - intros k. transitivity (get0 (N:=RNum) (y_vec ua ub (ps_u ps) ka kb kn v) k); [f_equal; exact Hdc|apply y_vec_get0].
    - intros Hv.
      assert (Hd0 : d <> 0) by lra.
      apply (one_ensemble_dof s2 (kinsert kn E0) d (kinsert_ne _ _) Hd0 y None Hnode Huc).
      + intros Hnil. apply (y_vec_ne ua ub (ps_u ps) ka kb kn v).
        transitivity (@dc (T RNum) y); [symmetry; exact Hdc|exact Hnil].
      + apply (post_in_ens ps None s2); [reflexivity|reflexivity|]. intros k Hk.
        apply (y_vec_keys ua ub (ps_u ps) ka kb kn v).
        exact (eq_ind _ (fun vv => In k (keys (N:=RNum) vv)) Hk _ Hdc).
      + exact Hv.
  Qed.
End Predict.

(* what the model's y_from_x step outputs, given its two stages *)
Lemma do_y_from_x_output (st : fstate (T RNum)) (f : fit (T RNum)) v extra s1 a b nz y :
  pred_prefix RNum (fk st) f (fun dd => pred_spec_y RNum (ft_cls f) (ft_ssr f) dd extra) None = Ok (s1, a, b, nz) ->
  eval_un RNum (push RNum s1 (SReal nz None))
          (y_expr RNum (ft_a f) (ft_b f) (ENum RNum v) (length (s_slots s1))) = Ok (OpdU y) ->
  let s3 := push RNum (push RNum s1 (SReal nz None)) (SReal y None) in
  snd (do_y_from_x RNum st f (ANum v) extra None None) =
  OutList [leaf_out RNum s3 nz; leaf_out RNum s3 a; dump RNum y].
Proof.
  intros H1 H2 s3. unfold do_y_from_x. cbv zeta. rewrite H1. rewrite H2. unfold finish_pred. reflexivity.
Qed.

(* the noise input of each class (repaired code): value 0, dependent, u >= 0 with the class's scale *)
Definition noise_u (cls : fitcls) (ssr d : R) (extra : option R) : R :=
  match cls, extra with
  | COLS, None => sqrt (ssr / d)
  | CWLS, Some sy => sy
  | CRWLS, Some sy => sy * sqrt (ssr / d)
  | _, _ => 0
  end.

Lemma class_noise cls ssr d extra ps :
  pred_spec_y RNum cls ssr (DFin d) extra = Ok ps ->
  (forall sy, extra = Some sy -> 0 <= sy) ->
  ps_x ps = 0 /\ ps_indep ps = Some false /\ ps_u ps = noise_u cls ssr d extra /\ 0 <= ps_u ps.
Proof.
  intros H Hsy. unfold pred_spec_y in H. destruct cls, extra as [sy|]; try discriminate; cbn [noise_u].
  - apply ols_y_from_x_input in H. destruct H as (Hx & Hu & _ & Hi). rewrite Hu. repeat split; auto. apply sqrt_pos.
  - apply wls_y_from_x_input in H. destruct H as (Hx & Hu & Hi). rewrite Hu. repeat split; auto.
  - apply rwls_y_from_x_input in H. destruct H as (Hx & Hu & _ & Hi). rewrite Hu. repeat split; auto.
    apply Rmult_le_pos; [auto|apply sqrt_pos].
Qed.

(* ---------- y_from_x(x = v) of LineFitOLS, LineFitWLS and LineFitRWLS ---------- *)
Theorem y_from_x_all_classes
  (s : KTypes.state (T RNum)) (f : fit (T RNum)) (xa ua xb ub d : R) (ka kb : key)
  (ca cb : option (T RNum)) (la lb : leaf (T RNum)) (E0 : list key) extra ps v fits :
  let kn := (s_ctx s, (s_ne s + 1)%Z) in
  nth_error (s_slots s) (ft_a f) = Some (SReal (dep_input xa ka ua) ca) ->
  nth_error (s_slots s) (ft_b f) = Some (SReal (dep_input xb kb ub) cb) ->
  Kernel.assoc (s_leaves s) ka = Some la -> Kernel.assoc (s_leaves s) kb = Some lb ->
  l_indep la = false /\ l_df la = DFin d /\ l_cplx la = None ->
  l_indep lb = false /\ l_df lb = DFin d /\ l_cplx lb = None ->
  l_ens lb = l_ens la -> (l_ens la < length (s_ens s))%nat -> nth (l_ens la) (s_ens s) [] = E0 ->
  kmem ka E0 = true -> kmem kb E0 = true -> Kernel.assoc (s_leaves s) kn = None -> 1 <= d ->
  pred_spec_y RNum (ft_cls f) (ft_ssr f) (DFin d) extra = Ok ps ->
  (forall sy, extra = Some sy -> 0 <= sy) ->
  let un := noise_u (ft_cls f) (ft_ssr f) d extra in
  exists s1 nz y,
    let s2 := push RNum s1 (SReal nz None) in
    let s3 := push RNum s2 (SReal y None) in
    nz = dep_input 0 kn un /\
    snd (do_y_from_x RNum (mkF s fits) f (ANum v) extra None None) =
      OutList [leaf_out RNum s3 nz; leaf_out RNum s3 (dep_input xa ka ua); dump RNum y] /\
    ux y = xa + xb * v + 0 /\ uc y = [] /\ unode y = NoNode /\
    (forall k, get0 (N:=RNum) (dc y) k =
               (if keqb k ka then ua else 0) + (if keqb k kb then v * ub else 0) + (if keqb k kn then un else 0)) /\
    (exists ln, leaf_of RNum s2 kn = Ok ln /\ l_u ln = un /\ l_df ln = DFin d /\ l_indep ln = false /\
                ens_of RNum s2 ln = kinsert kn E0 /\ ens_of RNum s2 la = kinsert kn E0 /\ ens_of RNum s2 lb = kinsert kn E0) /\
    (vtot s2 (dc y) <> 0 ->
     exists var, welch_satterthwaite RNum s2 y None = Ok (var, DFin d, None) /\ var = vtot s2 (dc y)).
Proof.
  intros kn Hsa Hsb Hla Hlb Hia Hib Hens Heid HE0 Hma Hmb Hfresh Hd1 Hspec Hsy un.
  destruct (class_noise _ _ _ _ _ Hspec Hsy) as (Px & Pi & Pu & P0).
  destruct (y_from_x_plain s f xa ua xb ub d ka kb ca cb la lb E0 Hsa Hsb Hla Hlb Hia Hib Hens Heid HE0 Hma Hmb Hfresh Hd1
              (fun dd => pred_spec_y RNum (ft_cls f) (ft_ssr f) dd extra) ps v Hspec Pi P0)
    as (y & Hpre & Hev & Hx & Huc & Hnode & Hget & Hdof).
  cbv zeta in Hpre, Hev, Hdof. rewrite Px in Hx.
  assert (Hget' : forall k, get0 (N:=RNum) (dc y) k =
               (if keqb k ka then ua else 0) + (if keqb k kb then v * ub else 0) + (if keqb k kn then un else 0)).
  { intros k. rewrite Hget. unfold un. rewrite Pu. reflexivity. }
  clear Hget. rename Hget' into Hget.
  eexists. exists (dep_input (ps_x ps) kn (ps_u ps)). exists y. cbv zeta.
  split; [rewrite Px, Pu; reflexivity|]. split; [exact (do_y_from_x_output (mkF s fits) f v extra _ _ _ _ y Hpre Hev)|].
  split; [exact Hx|]. split; [exact Huc|]. split; [exact Hnode|]. split; [exact Hget|]. split; [|exact Hdof].
  exists (new_leaf s d la ps None).
  split; [exact (post_leaf_n s d la E0 ps None)|]. split; [exact Pu|]. split; [reflexivity|]. split; [reflexivity|].
  split; [exact (post_ens_of s d la lb E0 Hens Heid ps None _ eq_refl)|].
  split; [exact (post_ens_of s d la lb E0 Hens Heid ps None la eq_refl)|exact (post_ens_of s d la lb E0 Hens Heid ps None lb Hens)].
Qed.

(* TypeBWtls.v -- line_fit_wtls: the GENERATED formula of dChiSq_dalpha is the derivative of the
   GENERATED formula of ChiSq (Krystek & Anton's profile chi-squared), for every number of points.
   Part 1: the statement over the reals (envelope argument: p_hat(alpha) minimises chi-squared over
   p, so the terms with d p_hat/d alpha cancel).  Part 2: a semantics of trees in which x**2 is
   x*x (also for a negative base, where ChainRule.sem's Rpower is not the Python value) and the
   symbolic execution of gen/Gen_type_b.v: _arrays, ChiSq.arrays/__call__,
   dChiSq_dalpha.arrays/__call__ denote exactly the functions of part 1. *)
From Coq Require Import ZArith List Bool Reals Lra Lia.
From Coquelicot Require Import Coquelicot.
From GTCV Require Import Num RNum Vector VectorFacts Opres KTypes Kernel DerivTable ChainRule TBLib TypeB TypeBFacts.
From GTCV.gen Require Import Gen_type_b.
Import ListNotations.
Local Open Scope R_scope.

(* ================= Part 1: the envelope theorem over the reals ================= *)
Definition pt5 := (R * R * R * R * R)%type.       (* x, y, u2x, u2y, cov *)
Definition q1 (d : pt5) : R := fst (fst (fst (fst d))).
Definition q2 (d : pt5) : R := snd (fst (fst (fst d))).
Definition q3 (d : pt5) : R := snd (fst (fst d)).
Definition q4 (d : pt5) : R := snd (fst d).
Definition q5 (d : pt5) : R := snd d.

Lemma rsum_scal {A} (c : R) (f : A -> R) (l : list A) : rsum (map (fun d => c * f d) l) = c * rsum (map f l).
Proof. induction l; simpl; [ring|]. rewrite IHl. ring. Qed.

Lemma rsum_plus {A} (f g : A -> R) (l : list A) :
  rsum (map (fun d => f d + g d) l) = rsum (map f l) + rsum (map g l).
Proof. induction l; simpl; [ring|]. rewrite IHl. ring. Qed.

Lemma rsum_ext {A} (f g : A -> R) (l : list A) : (forall d, In d l -> f d = g d) -> rsum (map f l) = rsum (map g l).
Proof. induction l; simpl; intros H; [reflexivity|]. rewrite H by auto. rewrite IHl by auto. reflexivity. Qed.

Lemma is_derive_rsum {A} (f : A -> R -> R) (f' : A -> R) (l : list A) (a : R) :
  (forall d, In d l -> is_derive (f d) a (f' d)) ->
  is_derive (fun t => rsum (map (fun d => f d t) l)) a (rsum (map f' l)).
Proof.
  induction l as [|d l IH]; intros H; simpl.
  - apply (is_derive_const 0 a).
  - apply (is_derive_plus (f d) (fun t => rsum (map (fun d0 => f d0 t) l)) a (f' d) (rsum (map f' l))).
    + apply H; left; reflexivity.
    + apply IH. intros d0 Hd. apply H; right; exact Hd.
Qed.

Section Envelope.
  Variable D : list pt5.
  Notation n := (INR (length D)).

  Definition gS (d : pt5) (a : R) : R := (q3 d + q4 d) / 2 - (q3 d - q4 d) * cos (2 * a) / 2 - q5 d * sin (2 * a).
  Definition gaS (d : pt5) (a : R) : R := sin (2 * a) * (q3 d - q4 d) - 2 * q5 d * cos (2 * a).
  Definition zS (d : pt5) (a : R) : R := q2 d * cos a - q1 d * sin a.
  Definition vaS (d : pt5) (a : R) : R := - q2 d * sin a - q1 d * cos a.
  Definition S0 (a : R) : R := rsum (map (fun d => 1 / gS d a) D).
  Definition u2S (a : R) : R := 1 / (S0 a / n).
  Definition wS (d : pt5) (a : R) : R := u2S a / gS d a.
  Definition xbarS (a : R) : R := rsum (map (fun d => wS d a * q1 d) D) / n.
  Definition ybarS (a : R) : R := rsum (map (fun d => wS d a * q2 d) D) / n.
  Definition pS (a : R) : R := ybarS a * cos a - xbarS a * sin a.
  Definition vS (d : pt5) (a : R) : R := zS d a - pS a.
  Definition chiS (a : R) : R := rsum (map (fun d => vS d a * vS d a / gS d a) D).
  Definition FS (a : R) : R :=
    rsum (map (fun d => (2 * vS d a * gS d a * vaS d a - vS d a * vS d a * gaS d a) / (gS d a * gS d a)) D).

  Definition S1 (a : R) : R := rsum (map (fun d => zS d a / gS d a) D).

  Lemma gS_derive d a : is_derive (gS d) a (gaS d a).
  Proof. unfold gS, gaS. auto_derive; [exact I|]. field. Qed.

  Lemma zS_derive d a : is_derive (zS d) a (vaS d a).
  Proof. unfold zS, vaS. auto_derive; [exact I|]. ring. Qed.

  (* p_hat is the weighted mean of the z_k with weights 1/g_k *)
  Lemma pS_eq a : n <> 0 -> pS a = S1 a / S0 a.
  Proof.
    intros Hn. unfold pS, ybarS, xbarS, wS, S1.
    rewrite (rsum_ext (fun d => u2S a / gS d a * q2 d) (fun d => u2S a * (q2 d / gS d a)))
      by (intros; unfold Rdiv; ring).
    rewrite (rsum_ext (fun d => u2S a / gS d a * q1 d) (fun d => u2S a * (q1 d / gS d a)))
      by (intros; unfold Rdiv; ring).
    rewrite !rsum_scal.
    rewrite (rsum_ext (fun d => zS d a / gS d a) (fun d => cos a * (q2 d / gS d a) + - sin a * (q1 d / gS d a)))
      by (intros; unfold zS, Rdiv; ring).
    rewrite rsum_plus, !rsum_scal.
    set (Sy := rsum (map (fun d => q2 d / gS d a) D)). set (Sx := rsum (map (fun d => q1 d / gS d a) D)).
    unfold u2S. unfold Rdiv. rewrite Rmult_1_l, Rinv_mult, Rinv_inv.
    generalize (/ S0 a). intros iS.
    replace (iS * n * Sy * / n) with (iS * Sy * (n * / n)) by ring.
    replace (iS * n * Sx * / n) with (iS * Sx * (n * / n)) by ring.
    rewrite Rinv_r by exact Hn. ring.
  Qed.

  (* the first-order condition in p: sum v_k / g_k = 0 *)
  Lemma sum_v_over_g a : n <> 0 -> S0 a <> 0 -> rsum (map (fun d => vS d a / gS d a) D) = 0.
  Proof.
    intros Hn H0.
    rewrite (rsum_ext (fun d => vS d a / gS d a) (fun d => zS d a / gS d a + - pS a * (1 / gS d a)))
      by (intros; unfold vS, Rdiv; ring).
    rewrite rsum_plus, rsum_scal. fold (S1 a) (S0 a). rewrite pS_eq by exact Hn. field. exact H0.
  Qed.

  Lemma term_derive (zf pf gf : R -> R) a z' p' g' :
    is_derive zf a z' -> is_derive pf a p' -> is_derive gf a g' -> gf a <> 0 ->
    is_derive (fun t => (zf t - pf t) * (zf t - pf t) / gf t) a
      ((2 * (zf a - pf a) * gf a * z' - (zf a - pf a) * (zf a - pf a) * g') / (gf a * gf a)
       - 2 * p' * ((zf a - pf a) / gf a)).
  Proof.
    intros Hz Hp Hg Hne.
    assert (H1 : is_derive (fun t => zf t - pf t) a (z' - p')) by (apply (is_derive_minus zf pf); assumption).
    assert (H2 : is_derive (fun t => (zf t - pf t) * (zf t - pf t)) a
                   ((z' - p') * (zf a - pf a) + (zf a - pf a) * (z' - p'))).
    { apply (is_derive_mult (fun t => zf t - pf t) (fun t => zf t - pf t) a (z' - p') (z' - p') H1 H1). exact Rmult_comm. }
    eapply is_derive_eq; [apply (is_derive_div _ gf a _ g' H2 Hg Hne)|]. field. exact Hne.
  Qed.

  Theorem dchisq_is_derivative_of_chisq a :
    n <> 0 -> S0 a <> 0 -> (forall d, In d D -> gS d a <> 0) ->
    is_derive chiS a (FS a).
  Proof.
    intros Hn H0 Hg.
    (* p_hat is differentiable *)
    assert (exists P', is_derive pS a P') as [P' HP].
    { assert (H1 : is_derive S1 a (rsum (map (fun d => (vaS d a * gS d a - zS d a * gaS d a) / gS d a ^ 2) D))).
      { apply (is_derive_rsum (fun d t => zS d t / gS d t)). intros d Hd.
        apply (is_derive_div (zS d) (gS d)); [apply zS_derive|apply gS_derive|apply Hg; exact Hd]. }
      assert (H2 : is_derive S0 a (rsum (map (fun d => (0 * gS d a - 1 * gaS d a) / gS d a ^ 2) D))).
      { apply (is_derive_rsum (fun d t => 1 / gS d t)). intros d Hd.
        apply (is_derive_div (fun _ => 1) (gS d)); [apply (is_derive_const 1 a)|apply gS_derive|apply Hg; exact Hd]. }
      eexists. apply (is_derive_ext (fun t => S1 t / S0 t)); [intros t; symmetry; apply pS_eq; exact Hn|].
      apply (is_derive_div S1 S0 a _ _ H1 H2 H0). }
    unfold chiS.
    eapply is_derive_eq.
    - apply (is_derive_rsum (fun d t => vS d t * vS d t / gS d t)
               (fun d => (2 * (zS d a - pS a) * gS d a * vaS d a - (zS d a - pS a) * (zS d a - pS a) * gaS d a) / (gS d a * gS d a)
                         - 2 * P' * ((zS d a - pS a) / gS d a))).
      intros d Hd. unfold vS.
      apply (term_derive (zS d) pS (gS d) a (vaS d a) P' (gaS d a)); [apply zS_derive|exact HP|apply gS_derive|apply Hg; exact Hd].
    - unfold FS. symmetry.
      erewrite rsum_ext.
      2:{ intros d Hd. instantiate (1 := fun d => (2 * vS d a * gS d a * vaS d a - vS d a * vS d a * gaS d a) / (gS d a * gS d a)
                                    + - (2 * P') * (vS d a / gS d a)). cbv beta. unfold vS, Rdiv. ring. }
      rewrite rsum_plus, rsum_scal, sum_v_over_g by assumption. ring.
  Qed.
End Envelope.

(* chi-squared has period pi in alpha: the interval [alpha0 - pi/2, alpha0 + pi/2] handed to the
   minimiser has equal values at its two ends, so it brackets a minimum only if chi-squared at
   alpha0 is below that common value (fixed finding C14-wtls-bracket-end) *)
Section Periodic.
  Variable D : list pt5.

  Lemma gS_period d a : gS d (a + PI) = gS d a.
  Proof.
    unfold gS. replace (2 * (a + PI)) with (2 * a + 2 * INR 1 * PI) by (simpl; ring).
    rewrite cos_period, sin_period. reflexivity.
  Qed.

  Lemma zS_period d a : zS d (a + PI) = - zS d a.
  Proof. unfold zS. rewrite neg_cos, neg_sin. ring. Qed.

  Lemma S0_period a : S0 D (a + PI) = S0 D a.
  Proof. unfold S0. apply rsum_ext. intros d _. rewrite gS_period. reflexivity. Qed.

  Lemma pS_period a : pS D (a + PI) = - pS D a.
  Proof.
    unfold pS, ybarS, xbarS, wS, u2S. rewrite S0_period, neg_cos, neg_sin.
    rewrite (rsum_ext (fun d => 1 / (S0 D a / INR (length D)) / gS d (a + PI) * q2 d)
                      (fun d => 1 / (S0 D a / INR (length D)) / gS d a * q2 d)) by (intros; rewrite gS_period; reflexivity).
    rewrite (rsum_ext (fun d => 1 / (S0 D a / INR (length D)) / gS d (a + PI) * q1 d)
                      (fun d => 1 / (S0 D a / INR (length D)) / gS d a * q1 d)) by (intros; rewrite gS_period; reflexivity).
    ring.
  Qed.

  Theorem chiS_period a : chiS D (a + PI) = chiS D a.
  Proof.
    unfold chiS. apply rsum_ext. intros d _. unfold vS. rewrite zS_period, pS_period, gS_period.
    unfold Rdiv. ring.
  Qed.
End Periodic.

(* ================= Part 2: the generated trees denote the functions of part 1 ================= *)
(* value of l ** r as Python computes it when r is the constant 2: l*l for EVERY l *)
Definition binop2 (f : binop) (l r : R) : R :=
  match f with
  | B_pow => if Req_EM_T r 2 then l * l else Rpower l r
  | _ => binop_R f l r
  end.

Lemma binop2_sq l : binop2 B_pow l (IZR 2) = l * l.
Proof. simpl. destruct (Req_EM_T (IZR 2) 2) as [_|ne]; [reflexivity|exfalso; apply ne; reflexivity]. Qed.

Section Den2.
  Variable Fi : nat -> env -> R.

  Fixpoint sem2 (t : expr) (e : env) : R :=
    match t with
    | EVar i => Fi i e
    | ENum v => v
    | EUn f t1 => unop_R f (sem2 t1 e)
    | EBin f a b => binop2 f (sem2 a e) (sem2 b e)
    end.

  Definition den2 (m : mval) (e : env) : R := match m with MN v => v | ME t => sem2 t e end.
  Definition dlist2 (l : list mval) (e : env) : list R := map (fun m => den2 m e) l.

  (* on trees without ** the two semantics coincide *)
  Lemma sem2_plain t e : plain_tree t -> sem2 t e = sem Fi t e.
  Proof.
    induction t as [i|v|f t1 IH|f a IHa b IHb]; simpl; auto.
    - intros [_ H]. rewrite IH by exact H. reflexivity.
    - intros [[Hp Ha] [H1 H2]]. rewrite IHa, IHb by assumption. destruct f; simpl; auto; congruence.
  Qed.

  Lemma den2_toE m e : sem2 (toE RNum m) e = den2 m e.
  Proof. destruct m; reflexivity. Qed.

  (* every binary operation except a ** whose exponent is not the constant 2 *)
  Definition ok2 (f : binop) (b : mval) : Prop :=
    match f with B_pow => b = @MN RNum (IZR 2) | _ => True end.

  Lemma mbin_den2 f a b c : mbin RNum f a b = Ok c -> ok2 f b ->
    forall e, den2 c e = binop2 f (den2 a e) (den2 b e).
  Proof.
    intros H Hok e. destruct a as [l|ta], b as [r|tb]; simpl in H.
    - destruct f; simpl in H.
      + injection H as <-. reflexivity.
      + injection H as <-. reflexivity.
      + injection H as <-. reflexivity.
      + unfold R_div in H. destruct (Req_EM_T r 0); [discriminate|]. injection H as <-. reflexivity.
      + simpl in Hok. injection Hok as ->. rewrite pow_R_2 in H. cbn [bind] in H. injection H as <-.
        simpl. destruct (Req_EM_T (IZR 2) 2) as [_|ne]; [reflexivity|exfalso; apply ne; reflexivity].
      + injection H as <-. reflexivity.
    - injection H as <-. reflexivity.
    - injection H as <-. reflexivity.
    - injection H as <-. reflexivity.
  Qed.

  Lemma mun_den2 f a c : mun RNum f a = Ok c -> forall e, den2 c e = unop_R f (den2 a e).
  Proof. destruct a; simpl; [discriminate|]. intros [= <-] en. reflexivity. Qed.

  Lemma mneg_den2 a c : mneg RNum a = Ok c -> forall e, den2 c e = - den2 a e.
  Proof. destruct a; simpl; intros [= <-] en; reflexivity. Qed.

  (* ----- sum, map ----- *)
  Definition sden2 (a : sacc RNum) (e : env) : R :=
    match a with SInt => 0 | SFloat f c => f + c | SGen m => den2 m e end.

  Lemma sum_step_den2 a v a' : sum_step RNum a v = Ok a' -> forall e, sden2 a' e = sden2 a e + den2 v e.
  Proof.
    destruct a as [|f c|m]; destruct v as [x|t]; simpl; intros H en.
    - injection H as <-. simpl. rr. simpl. lra.
    - injection H as <-. simpl. rr. reflexivity.
    - injection H as <-. simpl. rr. destruct (Rleb (Rabs x) (Rabs f)); lra.
    - injection H as <-. simpl. rewrite fin_sum_R. reflexivity.
    - destruct m; simpl in H; injection H as <-; reflexivity.
    - destruct m; simpl in H; injection H as <-; reflexivity.
  Qed.

  Lemma sum_fin_den2 a e : den2 (sum_fin RNum a) e = sden2 a e.
  Proof. destruct a; simpl; try reflexivity. apply fin_sum_R. Qed.

  Lemma msum_fold2 {A} (f : A -> res mval) (G : A -> env -> R) (l : list A) :
    (forall el v, In el l -> f el = Ok v -> forall e, den2 v e = G el e) ->
    forall a0 a,
    fold_left (fun acc el => a <- acc ;; v <- f el ;; sum_step RNum a v) l (Ok a0) = Ok a ->
    forall e, sden2 a e = sden2 a0 e + rsum (map (fun el => G el e) l).
  Proof.
    induction l as [|el l IH]; intros Hf a0 a H; simpl in H.
    - injection H as <-. intros e; simpl; ring.
    - destruct (f el) as [v|x] eqn:Ev; cbn [bind] in H;
        [|rewrite fold_err in H; [discriminate|reflexivity]].
      destruct (sum_step RNum a0 v) as [a1|x] eqn:Es;
        [|rewrite fold_err in H; [discriminate|reflexivity]].
      pose proof (Hf el v (or_introl eq_refl) Ev) as Dv.
      pose proof (sum_step_den2 _ _ _ Es) as D1.
      pose proof (IH (fun el' v' Hin => Hf el' v' (or_intror Hin)) a1 a H) as D2.
      intros e. rewrite D2, D1, Dv. simpl. ring.
  Qed.

  Lemma msum_with_den2 {A} (f : A -> res mval) (G : A -> env -> R) (l : list A) c :
    msum_with RNum f l = Ok c ->
    (forall el v, In el l -> f el = Ok v -> forall e, den2 v e = G el e) ->
    forall e, den2 c e = rsum (map (fun el => G el e) l).
  Proof.
    intros H Hf. unfold msum_with in H.
    destruct (fold_left _ l (Ok (SInt RNum))) as [a|] eqn:E; [|discriminate].
    cbn [bind] in H. injection H as <-.
    pose proof (msum_fold2 f G l Hf _ _ E) as D. intros e. rewrite sum_fin_den2, D. simpl. ring.
  Qed.

  Lemma mmap_with_den2 {A} (f : A -> res mval) (G : A -> env -> R) (l : list A) vs :
    mmap_with f l = Ok vs ->
    (forall el v, In el l -> f el = Ok v -> forall e, den2 v e = G el e) ->
    length vs = length l /\ forall e, dlist2 vs e = map (fun el => G el e) l.
  Proof.
    revert vs. induction l as [|el l IH]; intros vs H Hf; simpl in H.
    - injection H as <-. auto.
    - destruct (f el) as [v|] eqn:Ev; [|discriminate]. cbn [bind] in H.
      destruct (mmap_with f l) as [vs'|] eqn:Em; [|discriminate]. cbn [bind] in H. injection H as <-.
      pose proof (Hf el v (or_introl eq_refl) Ev) as Dv.
      destruct (IH vs' eq_refl (fun el' v' Hin => Hf el' v' (or_intror Hin))) as [L D].
      split; [simpl; congruence|]. intros e. unfold dlist2 in *. simpl. rewrite Dv, D. reflexivity.
  Qed.
End Den2.

Lemma map_combine_den2 {A B C} (f : A -> B) (h : B -> B -> C) (a b : list A) :
  map (fun el => h (f (fst el)) (f (snd el))) (combine a b) =
  map (fun p => h (fst p) (snd p)) (combine (map f a) (map f b)).
Proof. apply map_combine_den. Qed.

Lemma map_zip4_den {A B C} (f : A -> B) (h : B -> B -> B -> B -> C) (a b c d : list A) :
  map (fun el => h (f (fst el)) (f (fst (snd el))) (f (fst (snd (snd el)))) (f (snd (snd (snd el))))) (zip4 a b c d) =
  map (fun p => h (fst p) (fst (snd p)) (fst (snd (snd p))) (snd (snd (snd p))))
      (zip4 (map f a) (map f b) (map f c) (map f d)).
Proof. unfold zip4. revert b c d; induction a; destruct b, c, d; simpl; auto. rewrite IHa. reflexivity. Qed.

(* rewrite the denotation of every intermediate of a straight-line block *)
Ltac den2_steps Fi :=
  repeat match goal with
         | H : mbin RNum _ _ _ = Ok ?c |- context [TypeBWtls.den2 Fi ?c _] =>
             rewrite (mbin_den2 Fi _ _ _ _ H ltac:(first [exact I | reflexivity]))
         | H : mneg RNum _ = Ok ?c |- context [TypeBWtls.den2 Fi ?c _] => rewrite (mneg_den2 Fi _ _ H)
         | H : mun RNum _ _ = Ok ?c |- context [TypeBWtls.den2 Fi ?c _] => rewrite (mun_den2 Fi _ _ _ H)
         end.

Section Exec.
  Variable Fi : nat -> env -> R.
  Variable ev : expr -> res R.
  Variable e0 : env.
  (* the evaluator used for comparisons returns the value at the data point e0 *)
  Hypothesis ev_ok : forall t v, ev t = Ok v -> v = sem2 Fi t e0.
  Notation den2 := (den2 Fi).
  Notation dlist2 := (dlist2 Fi).

  Lemma mcmp_ne0 g c :
    mcmp RNum ev (fun l r : T RNum => negb (eqb RNum l r)) g (MN (of_Z RNum 0)) = Ok c ->
    c = negb (Reqb (den2 g e0) 0).
  Proof.
    unfold mcmp. destruct g as [v|t]; simpl.
    - intros [= <-]. reflexivity.
    - destruct (ev t) as [v|] eqn:E; [|discriminate]. cbn [bind]. intros [= <-].
      rewrite (ev_ok _ _ E). reflexivity.
  Qed.

  (* fix_div_by_zero(num, g) = num / g when g (at the data point) is not 0 *)
  Lemma fix_div_den2 (num g : mval) v :
    (c <- mcmp RNum ev (fun l r : T RNum => negb (eqb RNum l r)) g (MN (of_Z RNum 0)) ;;
     t <- (if c then (t <- mbin RNum B_div num g ;; Ok t) else Ok (MN (dyad RNum 9007199254740991 971))) ;; Ok t) = Ok v ->
    den2 g e0 <> 0 -> forall e, den2 v e = den2 num e / den2 g e.
  Proof.
    intros H Hg. binv H. cbn [bind] in H. injection H as <-.
    destruct a.
    - binv E0. cbn [bind] in E0. injection E0 as <-. intros e.
      rewrite (mbin_den2 Fi _ _ _ _ E1 I). reflexivity.
    - exfalso. apply mcmp_ne0 in E. unfold Reqb in E. destruct (Req_EM_T (den2 g e0) 0); [contradiction|discriminate].
  Qed.

  Definition one_ : R := dyad RNum 1 0.
  Lemma one_1 : one_ = 1. Proof. unfold one_; simpl. lra. Qed.
  Lemma two_2 : dyad RNum 2 0 = 2. Proof. simpl. lra. Qed.

  Definition Gk (c2 s2 : mval) (el : mval * (mval * mval)) (e : env) : R :=
    (den2 (fst el) e + den2 (fst (snd el)) e) / 2
    - (den2 (fst el) e - den2 (fst (snd el)) e) * den2 c2 e / 2
    - den2 (snd (snd el)) e * den2 s2 e.

  Lemma arrays_den2 vo co sa ca s2 c2 x y u2x u2y cov vk u2x' u2y' gk u2 xbar ybar phat :
    g_arrays RNum ev vo co sa ca s2 c2 x y u2x u2y cov = Ok (vk, u2x', u2y', gk, u2, xbar, ybar, phat) ->
    (forall el, In el (zip3 u2x u2y cov) -> Gk c2 s2 el e0 <> 0) ->
    u2x' = u2x /\ u2y' = u2y /\
    length gk = length (zip3 u2x u2y cov) /\
    (forall e, dlist2 gk e = map (fun el => Gk c2 s2 el e) (zip3 u2x u2y cov)) /\
    (forall e, den2 u2 e = 1 / (rsum (map (fun g => 1 / g) (dlist2 gk e)) / INR (length gk))) /\
    (forall e, den2 xbar e = rsum (map (fun p => den2 u2 e / fst p * snd p) (combine (dlist2 gk e) (dlist2 x e))) / INR (length gk)) /\
    (forall e, den2 ybar e = rsum (map (fun p => den2 u2 e / fst p * snd p) (combine (dlist2 gk e) (dlist2 y e))) / INR (length gk)) /\
    (forall e, den2 phat e = den2 ybar e * den2 ca e - den2 xbar e * den2 sa e) /\
    (forall e, dlist2 vk e = map (fun p => snd p * den2 ca e - fst p * den2 sa e - den2 phat e) (combine (dlist2 x e) (dlist2 y e))).
  Proof.
    intros H Hg. unfold g_arrays in H. binv H. cbn [bind] in H. injection H as <- <- <- <- <- <- <- <-.
    (* g_k *)
    assert (R3 := mmap_with_den2 Fi _ (Gk c2 s2) _ _ E3). destruct R3 as [L3 D3].
    { intros [ux [uy cv]] v Hin Hv. binv Hv. cbn [bind] in Hv. injection Hv as <-. intros e.
      den2_steps Fi.
      unfold Gk. simpl. rr. simpl. lra. }
    assert (G0 : forall g, In g a3 -> den2 g e0 <> 0).
    { intros g Hin. assert (Hi : In (den2 g e0) (dlist2 a3 e0)) by (apply (in_map (fun m => den2 m e0) a3 g); exact Hin).
      rewrite D3 in Hi. apply in_map_iff in Hi. destruct Hi as [el [<- Hel]]. apply Hg; exact Hel. }
    (* sum 1/g_k, u2 *)
    assert (D4 := msum_with_den2 Fi _ (fun g e => 1 / den2 g e) _ _ E4).
    assert (D4' : forall e, den2 a4 e = rsum (map (fun g => 1 / den2 g e) a3)).
    { apply D4. intros g v Hin Hv e. rewrite (fix_div_den2 _ _ _ Hv (G0 g Hin) e). simpl. rr. simpl. f_equal. lra. }
    clear D4.
    pose proof (mbin_den2 Fi _ _ _ _ E5 I) as D5. pose proof (mbin_den2 Fi _ _ _ _ E6 I) as D6.
    (* w_k *)
    assert (R7 := mmap_with_den2 Fi _ (fun g e => den2 a6 e / den2 g e) _ _ E7). destruct R7 as [L7 D7].
    { intros g v Hin Hv e. apply (fix_div_den2 _ _ _ Hv (G0 g Hin) e). }
    (* x_bar, y_bar *)
    assert (D8 := msum_with_den2 Fi _ (fun el e => den2 (fst el) e * den2 (snd el) e) _ _ E8).
    assert (D8' : forall e, den2 a8 e = rsum (map (fun el => den2 (fst el) e * den2 (snd el) e) (combine a7 x))).
    { apply D8. intros [w xi] v Hin Hv. binv Hv. cbn [bind] in Hv. injection Hv as <-. intros e.
      den2_steps Fi. reflexivity. }
    clear D8.
    assert (D10 := msum_with_den2 Fi _ (fun el e => den2 (fst el) e * den2 (snd el) e) _ _ E10).
    assert (D10' : forall e, den2 a10 e = rsum (map (fun el => den2 (fst el) e * den2 (snd el) e) (combine a7 y))).
    { apply D10. intros [w yi] v Hin Hv. binv Hv. cbn [bind] in Hv. injection Hv as <-. intros e.
      den2_steps Fi. reflexivity. }
    clear D10.
    pose proof (mbin_den2 Fi _ _ _ _ E9 I) as D9. pose proof (mbin_den2 Fi _ _ _ _ E11 I) as D11.
    pose proof (mbin_den2 Fi _ _ _ _ E12 I) as D12. pose proof (mbin_den2 Fi _ _ _ _ E13 I) as D13.
    pose proof (mbin_den2 Fi _ _ _ _ E14 I) as D14.
    (* v_k *)
    assert (R15 := mmap_with_den2 Fi _ (fun el e => den2 (snd el) e * den2 ca e - den2 (fst el) e * den2 sa e - den2 a14 e) _ _ E15).
    destruct R15 as [L15 D15].
    { intros [xi yi] v Hin Hv. binv Hv. cbn [bind] in Hv. injection Hv as <-. intros e.
      den2_steps Fi. reflexivity. }
    assert (DL : forall {A} (l : list A), den2 (mlen RNum l) = fun _ => INR (length l)).
    { intros A l. unfold mlen. simpl. rr. rewrite <- INR_IZR_INZ. reflexivity. }
    split; [reflexivity|]. split; [reflexivity|]. split; [exact L3|]. split; [exact D3|].
    assert (U2 : forall e, den2 a6 e = 1 / (rsum (map (fun g => 1 / g) (dlist2 a3 e)) / INR (length a3))).
    { intros e. rewrite D6, D5, D4'. cbn [binop2 binop_R]. rewrite DL. simpl den2. rr. unfold TypeBWtls.dlist2. rewrite map_map.
      simpl powerRZ. rewrite Rmult_1_r. reflexivity. }
    split; [exact U2|].
    assert (WL : forall e, dlist2 a7 e = map (fun g => den2 a6 e / g) (dlist2 a3 e)).
    { intros e. rewrite D7. unfold TypeBWtls.dlist2. rewrite map_map. reflexivity. }
    split.
    { intros e. rewrite D9, D8'. cbn [binop2 binop_R]. rewrite DL. f_equal.
      rewrite (map_combine_den2 (fun m => den2 m e) Rmult a7 x). fold (dlist2 a7 e) (dlist2 x e).
      rewrite WL. rewrite (map_combine_l (fun g => den2 a6 e / g) Rmult (dlist2 a3 e) (dlist2 x e)). reflexivity. }
    split.
    { intros e. rewrite D11, D10'. cbn [binop2 binop_R]. rewrite DL. f_equal.
      rewrite (map_combine_den2 (fun m => den2 m e) Rmult a7 y). fold (dlist2 a7 e) (dlist2 y e).
      rewrite WL. rewrite (map_combine_l (fun g => den2 a6 e / g) Rmult (dlist2 a3 e) (dlist2 y e)). reflexivity. }
    split.
    { intros e. rewrite D14, D13, D12. reflexivity. }
    intros e. rewrite D15.
    rewrite (map_combine_den2 (fun m => den2 m e) (fun xi yi => yi * den2 ca e - xi * den2 sa e - den2 a14 e) x y).
    reflexivity.
  Qed.
End Exec.

(* ---------- the data as one list of points ---------- *)
Definition mkD5 (X Y A B C : list R) : list pt5 := combine (combine (combine (combine X Y) A) B) C.

Lemma mkD5_proj (X Y A B C : list R) :
  length X = length Y -> length X = length A -> length X = length B -> length X = length C ->
  map q1 (mkD5 X Y A B C) = X /\ map q2 (mkD5 X Y A B C) = Y /\ map q3 (mkD5 X Y A B C) = A /\
  map q4 (mkD5 X Y A B C) = B /\ map q5 (mkD5 X Y A B C) = C.
Proof.
  unfold mkD5. revert Y A B C. induction X as [|x X IH]; destruct Y, A, B, C; simpl; intros La Lb Lc Ld; try discriminate; auto.
  destruct (IH Y A B C) as [P1 [P2 [P3 [P4 P5]]]]; try congruence.
  unfold q1, q2, q3, q4, q5 in *. simpl. rewrite P1, P2, P3, P4, P5. auto.
Qed.

Lemma zip4_proj {A} (f g h k : A -> R) (F : R -> R -> R -> R -> R) (D : list A) :
  map (fun p => F (fst p) (fst (snd p)) (fst (snd (snd p))) (snd (snd (snd p))))
      (zip4 (map f D) (map g D) (map h D) (map k D)) =
  map (fun d => F (f d) (g d) (h d) (k d)) D.
Proof. unfold zip4. induction D; simpl; congruence. Qed.

Section Spec.
  Variable Fi : nat -> env -> R.
  Notation den2 := (den2 Fi).
  Notation dlist2 := (TypeBWtls.dlist2 Fi).

  (* what `_arrays` returns, at an environment e where alpha has the value t and the data are D *)
  Lemma arrays_spec (sa ca s2 c2 : mval) (x y u2x u2y cov vk gk : list mval) (u2 xbar ybar phat : mval)
        (e : env) (t : R) (D : list pt5) :
    dlist2 gk e = map (fun el => Gk Fi c2 s2 el e) (zip3 u2x u2y cov) ->
    den2 u2 e = 1 / (rsum (map (fun g => 1 / g) (dlist2 gk e)) / INR (length gk)) ->
    den2 xbar e = rsum (map (fun p => den2 u2 e / fst p * snd p) (combine (dlist2 gk e) (dlist2 x e))) / INR (length gk) ->
    den2 ybar e = rsum (map (fun p => den2 u2 e / fst p * snd p) (combine (dlist2 gk e) (dlist2 y e))) / INR (length gk) ->
    den2 phat e = den2 ybar e * den2 ca e - den2 xbar e * den2 sa e ->
    dlist2 vk e = map (fun p => snd p * den2 ca e - fst p * den2 sa e - den2 phat e) (combine (dlist2 x e) (dlist2 y e)) ->
    den2 sa e = sin t -> den2 ca e = cos t -> den2 s2 e = sin (2 * t) -> den2 c2 e = cos (2 * t) ->
    dlist2 x e = map q1 D -> dlist2 y e = map q2 D -> dlist2 u2x e = map q3 D -> dlist2 u2y e = map q4 D ->
    dlist2 cov e = map q5 D ->
    dlist2 gk e = map (fun d => gS d t) D /\ den2 u2 e = u2S D t /\ den2 xbar e = xbarS D t /\
    den2 ybar e = ybarS D t /\ den2 phat e = pS D t /\ dlist2 vk e = map (fun d => vS D d t) D.
  Proof.
    intros Hgk Hu2 Hxb Hyb Hph Hvk Hsa Hca Hs2 Hc2 HX HY HA HB HC.
    assert (G : dlist2 gk e = map (fun d => gS d t) D).
    { rewrite Hgk. unfold Gk.
      rewrite (map_zip3_den (fun m => den2 m e)
                 (fun a b c => (a + b) / 2 - (a - b) * den2 c2 e / 2 - c * den2 s2 e) u2x u2y cov).
      fold (dlist2 u2x e) (dlist2 u2y e) (dlist2 cov e). rewrite HA, HB, HC.
      rewrite (zip3_proj q3 q4 q5 (fun a b c => (a + b) / 2 - (a - b) * den2 c2 e / 2 - c * den2 s2 e) D).
      apply map_ext. intros d. unfold gS. rewrite Hc2, Hs2. reflexivity. }
    assert (LG : length gk = length D).
    { apply (f_equal (@length R)) in G. unfold TypeBWtls.dlist2 in G. rewrite !map_length in G. exact G. }
    assert (U : den2 u2 e = u2S D t).
    { rewrite Hu2, G, map_map, LG. reflexivity. }
    assert (XB : den2 xbar e = xbarS D t).
    { rewrite Hxb, G, HX, LG, U. rewrite (combine_proj (fun d => gS d t) q1 (fun g xx => u2S D t / g * xx) D). reflexivity. }
    assert (YB : den2 ybar e = ybarS D t).
    { rewrite Hyb, G, HY, LG, U. rewrite (combine_proj (fun d => gS d t) q2 (fun g yy => u2S D t / g * yy) D). reflexivity. }
    assert (PH : den2 phat e = pS D t).
    { rewrite Hph, XB, YB, Hca, Hsa. reflexivity. }
    split; [exact G|]. split; [exact U|]. split; [exact XB|]. split; [exact YB|]. split; [exact PH|].
    rewrite Hvk, HX, HY, Hca, Hsa, PH.
    rewrite (combine_proj q1 q2 (fun xx yy => yy * cos t - xx * sin t - pS D t) D). reflexivity.
  Qed.
End Spec.

(* ================= the theorem about the generated code ================= *)
Section Main.
  Variable Fi : nat -> env -> R.
  Variable ev : expr -> res R.
  Variable e0 : env.
  Hypothesis ev_ok : forall t v, ev t = Ok v -> v = sem2 Fi t e0.
  Variable k : key.                       (* the input that alpha stands for *)
  Variable alpha : mval.
  Hypothesis Halpha : forall t, den2 Fi alpha (upd e0 k t) = t.
  Notation den2 := (den2 Fi).
  Notation dlist2 := (TypeBWtls.dlist2 Fi).

  (* data: do not depend on alpha *)
  Definition cst (l : list mval) : Prop := forall m, In m l -> forall t, den2 m (upd e0 k t) = den2 m e0.

  Lemma dlist2_cst l t : cst l -> dlist2 l (upd e0 k t) = dlist2 l e0.
  Proof. intros H. unfold TypeBWtls.dlist2. apply map_ext_in. intros m Hm. apply H; exact Hm. Qed.

  Lemma e0_upd : upd e0 k (e0 k) = e0. Proof. apply upd_same. Qed.

  Lemma trig sa a1 s2 ca c2 :
    mun RNum U_sin alpha = Ok sa -> mbin RNum B_mul (MN (dyad RNum 2 0)) alpha = Ok a1 ->
    mun RNum U_sin a1 = Ok s2 -> mun RNum U_cos alpha = Ok ca -> mun RNum U_cos a1 = Ok c2 ->
    forall t, den2 sa (upd e0 k t) = sin t /\ den2 ca (upd e0 k t) = cos t /\
              den2 s2 (upd e0 k t) = sin (2 * t) /\ den2 c2 (upd e0 k t) = cos (2 * t).
  Proof.
    intros H1 H2 H3 H4 H5 t.
    pose proof (mbin_den2 Fi _ _ _ _ H2 I (upd e0 k t)) as D2. cbn [binop2 binop_R] in D2.
    rewrite Halpha in D2. simpl TypeBWtls.den2 in D2. rr.
    assert (D2' : den2 a1 (upd e0 k t) = 2 * t) by (rewrite D2; simpl; lra).
    rewrite (mun_den2 Fi _ _ _ H1), (mun_den2 Fi _ _ _ H3), (mun_den2 Fi _ _ _ H4), (mun_den2 Fi _ _ _ H5).
    rewrite Halpha, D2'. simpl. auto.
  Qed.

  Section WithData.
    Variables x y xu yu u2x u2y cov : list mval.
    Hypothesis Cx : cst x. Hypothesis Cy : cst y. Hypothesis Cxu : cst xu. Hypothesis Cyu : cst yu.
    Hypothesis Ca : cst u2x. Hypothesis Cb : cst u2y. Hypothesis Cc : cst cov.
    (* ChiSq holds the values of the data that dChiSq_dalpha holds as uncertain numbers *)
    Hypothesis Vx : dlist2 xu e0 = dlist2 x e0.
    Hypothesis Vy : dlist2 yu e0 = dlist2 y e0.
    Hypothesis L1 : length x = length y. Hypothesis L2 : length x = length u2x.
    Hypothesis L3 : length x = length u2y. Hypothesis L4 : length x = length cov.

    Definition Dat : list pt5 := mkD5 (dlist2 x e0) (dlist2 y e0) (dlist2 u2x e0) (dlist2 u2y e0) (dlist2 cov e0).
    Hypothesis Hg : forall d, In d Dat -> gS d (e0 k) <> 0.

    Lemma Dat_proj : map q1 Dat = dlist2 x e0 /\ map q2 Dat = dlist2 y e0 /\ map q3 Dat = dlist2 u2x e0 /\
                     map q4 Dat = dlist2 u2y e0 /\ map q5 Dat = dlist2 cov e0.
    Proof. apply mkD5_proj; unfold TypeBWtls.dlist2; rewrite !map_length; assumption. Qed.

    (* the non-degeneracy hypothesis of arrays_den2, from Hg *)
    Lemma Gk_ne0 sa a1 s2 ca c2 :
      mun RNum U_sin alpha = Ok sa -> mbin RNum B_mul (MN (dyad RNum 2 0)) alpha = Ok a1 ->
      mun RNum U_sin a1 = Ok s2 -> mun RNum U_cos alpha = Ok ca -> mun RNum U_cos a1 = Ok c2 ->
      forall el, In el (zip3 u2x u2y cov) -> Gk Fi c2 s2 el e0 <> 0.
    Proof.
      intros H1 H2 H3 H4 H5 el Hel.
      destruct (trig _ _ _ _ _ H1 H2 H3 H4 H5 (e0 k)) as [_ [_ [S2 C2]]]. rewrite e0_upd in S2, C2.
      destruct Dat_proj as [_ [_ [PA [PB PC]]]].
      assert (Hin : In (Gk Fi c2 s2 el e0) (map (fun d => gS d (e0 k)) Dat)).
      { replace (map (fun d => gS d (e0 k)) Dat) with (map (fun el => Gk Fi c2 s2 el e0) (zip3 u2x u2y cov)).
        - apply (in_map (fun el => Gk Fi c2 s2 el e0)); exact Hel.
        - unfold Gk.
          rewrite (map_zip3_den (fun m => den2 m e0)
                     (fun a b c => (a + b) / 2 - (a - b) * den2 c2 e0 / 2 - c * den2 s2 e0) u2x u2y cov).
          fold (dlist2 u2x e0) (dlist2 u2y e0) (dlist2 cov e0). rewrite <- PA, <- PB, <- PC.
          rewrite (zip3_proj q3 q4 q5 (fun a b c => (a + b) / 2 - (a - b) * den2 c2 e0 / 2 - c * den2 s2 e0) Dat).
          apply map_ext. intros d. unfold gS. rewrite C2, S2. reflexivity. }
      apply in_map_iff in Hin. destruct Hin as [d [<- Hd]]. apply Hg; exact Hd.
    Qed.

    (* ChiSq.__call__(alpha) denotes the profile chi-squared *)
    Theorem ChiSq_call_spec vo co chi :
      g_ChiSq_call RNum ev vo co xu yu x y u2x u2y cov alpha = Ok chi ->
      forall t, den2 chi (upd e0 k t) = chiS Dat t.
    Proof.
      intros H. unfold g_ChiSq_call, g_ChiSq_arrays in H. binv H. destruct a as [vk gk]. cbn [bind] in H. binv H.
      cbn [bind] in H. injection H as <-. binv E.
      destruct a5 as [[[[[[[vk' ux'] uy'] gk'] u2'] xb'] yb'] ph']. cbn [bind] in E. injection E as -> ->.
      destruct (arrays_den2 Fi ev e0 ev_ok _ _ _ _ _ _ _ _ _ _ _ _ _ _ _ _ _ _ _ E6 (Gk_ne0 _ _ _ _ _ E1 E2 E3 E4 E5))
        as [_ [_ [_ [A1 [A2 [A3 [A4 [A5 A6]]]]]]]].
      intros t. destruct (trig _ _ _ _ _ E1 E2 E3 E4 E5 t) as [T1 [T2 [T3 T4]]].
      destruct Dat_proj as [PX [PY [PA [PB PC]]]].
      destruct (arrays_spec Fi _ _ _ _ x y u2x u2y cov vk gk _ _ _ _ (upd e0 k t) t Dat
                  (A1 _) (A2 _) (A3 _) (A4 _) (A5 _) (A6 _) T1 T2 T3 T4) as [G [_ [_ [_ [_ V]]]]];
        try (rewrite dlist2_cst by assumption; symmetry; assumption).
      assert (D0 := msum_with_den2 Fi _ (fun el e => den2 (fst el) e * den2 (fst el) e / den2 (snd el) e) _ _ E0).
      rewrite D0.
      - rewrite (map_combine_den2 (fun m => den2 m (upd e0 k t)) (fun v g => v * v / g) vk gk).
        fold (dlist2 vk (upd e0 k t)) (dlist2 gk (upd e0 k t)). rewrite V, G.
        rewrite (combine_proj (fun d => vS Dat d t) (fun d => gS d t) (fun v g => v * v / g) Dat). reflexivity.
      - intros [v g] r Hin Hr. binv Hr. cbn [bind] in Hr. injection Hr as <-. intros e.
        den2_steps Fi. cbn [TypeBWtls.den2 fst snd].
        change (of_Z RNum 2) with (IZR 2). rewrite binop2_sq. reflexivity.
    Qed.

    (* dChiSq_dalpha.__call__(alpha) denotes eqn (56) *)
    Theorem dChiSq_call_spec vo co F :
      g_dChiSq_dalpha_call RNum ev vo co xu yu u2x u2y cov alpha = Ok F ->
      forall t, den2 F (upd e0 k t) = FS Dat t.
    Proof.
      intros H. unfold g_dChiSq_dalpha_call, g_dChiSq_dalpha_arrays in H. binv H.
      destruct a as [[[vk vka] gk] gka]. cbn [bind] in H. binv H. cbn [bind] in H. injection H as <-.
      binv E. destruct a5 as [[[[[[[vk' ux'] uy'] gk'] u2'] xb'] yb'] ph']. cbn [bind] in E. binv E.
      cbn [bind] in E. injection E as -> -> -> ->.
      destruct (arrays_den2 Fi ev e0 ev_ok _ _ _ _ _ _ _ _ _ _ _ _ _ _ _ _ _ _ _ E6 (Gk_ne0 _ _ _ _ _ E1 E2 E3 E4 E5))
        as [-> [-> [_ [A1 [A2 [A3 [A4 [A5 A6]]]]]]]].
      (* v_ka, g_ka *)
      assert (R7 := mmap_with_den2 Fi _ (fun el e => - den2 (snd el) e * den2 a0 e - den2 (fst el) e * den2 a3 e) _ _ E7).
      destruct R7 as [_ D7].
      { intros [xi yi] v Hin Hv. binv Hv. cbn [bind] in Hv. injection Hv as <-. intros e.
        den2_steps Fi. reflexivity. }
      assert (R8 := mmap_with_den2 Fi _ (fun el e => den2 a2 e * (den2 (fst el) e - den2 (fst (snd el)) e)
                                                     - 2 * den2 (snd (snd el)) e * den2 a4 e) _ _ E8).
      destruct R8 as [_ D8].
      { intros [ux [uy cv]] v Hin Hv. binv Hv. cbn [bind] in Hv. injection Hv as <-. intros e.
        den2_steps Fi. simpl. rr. simpl. lra. }
      intros t. destruct (trig _ _ _ _ _ E1 E2 E3 E4 E5 t) as [T1 [T2 [T3 T4]]].
      destruct Dat_proj as [PX [PY [PA [PB PC]]]].
      assert (HXu : dlist2 xu (upd e0 k t) = map q1 Dat) by (rewrite dlist2_cst by assumption; rewrite Vx; symmetry; assumption).
      assert (HYu : dlist2 yu (upd e0 k t) = map q2 Dat) by (rewrite dlist2_cst by assumption; rewrite Vy; symmetry; assumption).
      assert (HA : dlist2 u2x (upd e0 k t) = map q3 Dat) by (rewrite dlist2_cst by assumption; symmetry; assumption).
      assert (HB : dlist2 u2y (upd e0 k t) = map q4 Dat) by (rewrite dlist2_cst by assumption; symmetry; assumption).
      assert (HC : dlist2 cov (upd e0 k t) = map q5 Dat) by (rewrite dlist2_cst by assumption; symmetry; assumption).
      destruct (arrays_spec Fi _ _ _ _ xu yu u2x u2y cov vk gk _ _ _ _ (upd e0 k t) t Dat
                  (A1 _) (A2 _) (A3 _) (A4 _) (A5 _) (A6 _) T1 T2 T3 T4 HXu HYu HA HB HC) as [G [_ [_ [_ [_ V]]]]].
      assert (VA : dlist2 vka (upd e0 k t) = map (fun d => vaS d t) Dat).
      { rewrite D7.
        rewrite (map_combine_den2 (fun m => den2 m (upd e0 k t))
                   (fun xi yi => - yi * den2 a0 (upd e0 k t) - xi * den2 a3 (upd e0 k t)) xu yu).
        fold (dlist2 xu (upd e0 k t)) (dlist2 yu (upd e0 k t)). rewrite HXu, HYu, T1, T2.
        rewrite (combine_proj q1 q2 (fun xi yi => - yi * sin t - xi * cos t) Dat). reflexivity. }
      assert (GA : dlist2 gka (upd e0 k t) = map (fun d => gaS d t) Dat).
      { rewrite D8.
        rewrite (map_zip3_den (fun m => den2 m (upd e0 k t))
                   (fun a b c => den2 a2 (upd e0 k t) * (a - b) - 2 * c * den2 a4 (upd e0 k t)) u2x u2y cov).
        fold (dlist2 u2x (upd e0 k t)) (dlist2 u2y (upd e0 k t)) (dlist2 cov (upd e0 k t)). rewrite HA, HB, HC, T3, T4.
        rewrite (zip3_proj q3 q4 q5 (fun a b c => sin (2 * t) * (a - b) - 2 * c * cos (2 * t)) Dat). reflexivity. }
      assert (D0 := msum_with_den2 Fi _
         (fun el e => (2 * den2 (fst el) e * den2 (fst (snd (snd el))) e * den2 (fst (snd el)) e
                       - den2 (fst el) e * den2 (fst el) e * den2 (snd (snd (snd el))) e)
                      / (den2 (fst (snd (snd el))) e * den2 (fst (snd (snd el))) e)) _ _ E0).
      rewrite D0.
      - rewrite (map_zip4_den (fun m => den2 m (upd e0 k t))
                   (fun v va g ga => (2 * v * g * va - v * v * ga) / (g * g)) vk vka gk gka).
        fold (dlist2 vk (upd e0 k t)) (dlist2 vka (upd e0 k t)) (dlist2 gk (upd e0 k t)) (dlist2 gka (upd e0 k t)).
        rewrite V, VA, G, GA.
        rewrite (zip4_proj (fun d => vS Dat d t) (fun d => vaS d t) (fun d => gS d t) (fun d => gaS d t)
                   (fun v va g ga => (2 * v * g * va - v * v * ga) / (g * g)) Dat). reflexivity.
      - intros [v [va [g ga]]] r Hin Hr. binv Hr. cbn [bind] in Hr. injection Hr as <-. intros e.
        den2_steps Fi.
        cbn [TypeBWtls.den2 fst snd]. change (of_Z RNum 2) with (IZR 2). rewrite !binop2_sq.
        cbn [binop2 binop_R]. rr. simpl dyad. replace (2 * powerRZ 2 0) with 2 by (simpl; lra). reflexivity.
    Qed.

    (* THE theorem: the derivative of what ChiSq.__call__ computes, w.r.t. alpha, is what
       dChiSq_dalpha.__call__ computes *)
    Theorem dChiSq_dalpha_is_derivative_of_ChiSq vo co vo' co' chi F :
      g_ChiSq_call RNum ev vo co xu yu x y u2x u2y cov alpha = Ok chi ->
      g_dChiSq_dalpha_call RNum ev vo' co' xu yu u2x u2y cov alpha = Ok F ->
      Dat <> [] -> S0 Dat (e0 k) <> 0 ->
      is_derive (fun t => den2 chi (upd e0 k t)) (e0 k) (den2 F e0).
    Proof.
      intros Hc HF Hne HS.
      pose proof (ChiSq_call_spec _ _ _ Hc) as C. pose proof (dChiSq_call_spec _ _ _ HF (e0 k)) as Fv.
      rewrite e0_upd in Fv. rewrite Fv.
      apply (is_derive_ext (chiS Dat)); [intros t; symmetry; apply C|].
      apply dchisq_is_derivative_of_chisq; [|exact HS|exact Hg].
      destruct Dat; [contradiction|]. simpl length. rewrite S_INR. pose proof (pos_INR (length l)). lra.
    Qed.
  End WithData.
End Main.

(* ---------- a concrete instance (non-vacuity of the hypotheses of the theorem) ---------- *)
Definition kx : key := (1%Z, 1%Z).
Definition exFi (i : nat) (e : env) : R := e kx.
Definition ex_e0 : env := fun _ => 0.
Definition ex_ev (t : expr) : res R := Ok (sem2 exFi t ex_e0).
Definition ex_alpha : mval := ME (EVar RNum 0).
Definition one1 : list mval := [@ME RNum (ENum RNum 1)].
Definition two1 : list mval := [@ME RNum (ENum RNum 2)].
Definition zero1 : list mval := [@ME RNum (ENum RNum 0)].

Ltac dec_ne :=
  repeat match goal with |- context [Reqb ?X ?Y] =>
    let H := fresh in
    assert (H : Reqb X Y = false) by
      (unfold Reqb; destruct (Req_EM_T X Y) as [E|]; [exfalso; revert E; unfold ex_e0; simpl; lra|reflexivity]);
    rewrite !H; clear H end.

Lemma ex_calls :
  (exists chi, g_ChiSq_call RNum ex_ev (fun _ => Ok 0) (fun _ _ => Ok 0) one1 two1 one1 two1 one1 one1 zero1 ex_alpha = Ok chi) /\
  (exists F, g_dChiSq_dalpha_call RNum ex_ev (fun _ => Ok 0) (fun _ _ => Ok 0) one1 two1 one1 one1 zero1 ex_alpha = Ok F).
Proof.
  split.
  - unfold g_ChiSq_call, g_ChiSq_arrays, g_arrays, ex_alpha, one1, two1, zero1.
    do 4 (unfold msum_with, mcmp, mvalue, ex_ev, mlen; cbn; dec_ne).
    eexists. reflexivity.
  - unfold g_dChiSq_dalpha_call, g_dChiSq_dalpha_arrays, g_arrays, ex_alpha, one1, two1, zero1.
    do 4 (unfold msum_with, mcmp, mvalue, ex_ev, mlen; cbn; dec_ne).
    eexists. reflexivity.
Qed.

Lemma ex_hyps :
  (forall t v, ex_ev t = Ok v -> v = sem2 exFi t ex_e0) /\
  (forall t, den2 exFi ex_alpha (upd ex_e0 kx t) = t) /\
  cst exFi ex_e0 kx one1 /\ cst exFi ex_e0 kx two1 /\ cst exFi ex_e0 kx zero1 /\
  Dat exFi ex_e0 one1 two1 one1 one1 zero1 = [(1, 2, 1, 1, 0)] /\
  (forall d, In d (Dat exFi ex_e0 one1 two1 one1 one1 zero1) -> gS d (ex_e0 kx) <> 0) /\
  S0 (Dat exFi ex_e0 one1 two1 one1 one1 zero1) (ex_e0 kx) <> 0.
Proof.
  split; [intros t v [= <-]; reflexivity|].
  split; [intros t; simpl; unfold exFi; apply upd_eq|].
  split; [intros m [<-|[]] t; reflexivity|]. split; [intros m [<-|[]] t; reflexivity|].
  split; [intros m [<-|[]] t; reflexivity|].
  split; [reflexivity|].
  split.
  - intros d [<-|[]]. unfold gS, q3, q4, q5, ex_e0. simpl. rewrite Rmult_0_r, cos_0, sin_0. lra.
  - unfold S0, Dat, mkD5, gS, q3, q4, q5, ex_e0. simpl. rewrite Rmult_0_r, cos_0, sin_0. lra.
Qed.

(* ---------- the constructors with explicit weights: u2 = u**2, cov = u_x*u_y*r, the same for both objects ---------- *)
Section Init.
  Variable Fi : nat -> env -> R.
  Notation den2 := (den2 Fi).
  Notation dlist2 := (TypeBWtls.dlist2 Fi).

  Lemma sq_list ux A :
    mmap_with (fun u => t <- mbin RNum B_pow u (@MN RNum (of_Z RNum 2)) ;; Ok t) ux = Ok A ->
    forall e, dlist2 A e = map (fun u => u * u) (dlist2 ux e).
  Proof.
    intros H e. destruct (mmap_with_den2 Fi _ (fun u e => den2 u e * den2 u e) _ _ H) as [_ D].
    - intros u v Hin Hv. binv Hv. cbn [bind] in Hv. injection Hv as <-. intros en. den2_steps Fi.
      cbn [TypeBWtls.den2]. change (of_Z RNum 2) with (IZR 2). apply binop2_sq.
    - rewrite D. unfold TypeBWtls.dlist2. rewrite map_map. reflexivity.
  Qed.

  Lemma cov_list ux uy r C :
    mmap_with (fun '(a, (b, c)) => t1 <- mbin RNum B_mul a b ;; t2 <- mbin RNum B_mul t1 c ;; Ok t2) (zip3 ux uy r) = Ok C ->
    forall e, dlist2 C e = map (fun p => fst p * fst (snd p) * snd (snd p)) (zip3 (dlist2 ux e) (dlist2 uy e) (dlist2 r e)).
  Proof.
    intros H e. destruct (mmap_with_den2 Fi _ (fun el e => den2 (fst el) e * den2 (fst (snd el)) e * den2 (snd (snd el)) e) _ _ H) as [_ D].
    - intros [a [b c]] v Hin Hv. binv Hv. cbn [bind] in Hv. injection Hv as <-. intros en. den2_steps Fi. reflexivity.
    - rewrite D. apply (map_zip3_den (fun m => den2 m e) (fun a b c => a * b * c)).
  Qed.

  Theorem inits_explicit ev vo co x y ux uy r cxu cyu cx cy cA cB cC dx dy dA dB dC :
    g_ChiSq_init RNum ev vo co x y (Some ux) uy r = Ok (cxu, cyu, cx, cy, cA, cB, cC) ->
    g_dChiSq_dalpha_init RNum ev vo co x y (Some ux) uy r = Ok (dx, dy, dA, dB, dC) ->
    cxu = x /\ cyu = y /\ dx = x /\ dy = y /\ dA = cA /\ dB = cB /\ dC = cC /\
    (forall e, dlist2 cA e = map (fun u => u * u) (dlist2 ux e)) /\
    (forall e, dlist2 cB e = map (fun u => u * u) (dlist2 uy e)) /\
    (forall e, dlist2 cC e = map (fun p => fst p * fst (snd p) * snd (snd p)) (zip3 (dlist2 ux e) (dlist2 uy e) (dlist2 r e))).
  Proof.
    intros Hc Hd. unfold g_ChiSq_init in Hc. unfold g_dChiSq_dalpha_init in Hd.
    binv Hc. destruct a1 as [[A B] C]. cbn [bind] in Hc. injection Hc as <- <- <- <- <- <- <-.
    binv Hd. destruct a1 as [[A' B'] C']. cbn [bind] in Hd. injection Hd as <- <- <- <- <-.
    binv E1. cbn [bind] in E1. injection E1 as <- <- <-.
    binv E2. cbn [bind] in E2. injection E2 as <- <- <-.

    repeat split; auto; first [apply sq_list; assumption | apply cov_list; assumption].
  Qed.
End Init.

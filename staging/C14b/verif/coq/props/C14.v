(* props/C14.v -- Property C14: type-B line fits propagate data uncertainty through the fit.
   Statements only, closed by lemmas of TypeBFacts.v (and C02 / C04 facts); everything is about
   the GENERATED fit code (gen/Gen_type_b.v, regenerated from GTC/type_b.py and type_a.py on
   every run) evaluated over the reals. *)
From Coq Require Import ZArith List Bool Reals Lra.
From Coquelicot Require Import Coquelicot.
From GTCV Require Import Num RNum Vector VectorFacts Opres KTypes Kernel DerivTable ChainRule LPU Transparency TBLib TypeB TypeBFacts TypeBWtls.
From GTCV.gen Require Import Gen_type_b.
Import ListNotations.
Local Open Scope R_scope.

(* (1) type_b.line_fit, for EVERY number of points and every mix of plain / uncertain data:
   the uncertain numbers a and b it returns are built by +,-,*,/ only (so the chain rule of C02
   applies at every data point) and, as functions of ALL the data, their values are the
   closed-form ordinary least-squares estimators wherever N*Sxx - Sx^2 <> 0 *)
Theorem C14_line_fit_is_least_squares :
  forall (Fi : nat -> env -> R) ev vo co (xm ym : list (TBLib.mval RNum)) a b ssr n,
    g_line_fit RNum ev vo co xm ym = Ok (a, b, ssr, n) ->
    List.Forall wf xm -> List.Forall wf ym ->
    length xm = length ym /\ wf a /\ wf b /\ is_ME RNum a = true /\
    forall e, ols_det (dlist Fi xm e) <> 0 ->
      den Fi a e = ols_a (dlist Fi xm e) (dlist Fi ym e) /\
      den Fi b e = ols_b (dlist Fi xm e) (dlist Fi ym e).
Proof. exact line_fit_closed_form. Qed.
Print Assumptions C14_line_fit_is_least_squares.

(* (2) the closed forms are the unique solution of the normal equations of the least-squares
   problem  sum (y_i - a - b x_i) = 0,  sum x_i (y_i - a - b x_i) = 0 *)
Theorem C14_ols_solves_normal_equations :
  forall (X Y : list R), length X = length Y -> ols_det X <> 0 ->
    rsum (map (fun p => snd p - ols_a X Y - ols_b X Y * fst p) (combine X Y)) = 0 /\
    rsum (map (fun p => fst p * (snd p - ols_a X Y - ols_b X Y * fst p)) (combine X Y)) = 0.
Proof. exact ols_normal_equations. Qed.
Print Assumptions C14_ols_solves_normal_equations.

Theorem C14_normal_equations_unique :
  forall (X Y : list R) a b a' b', length X = length Y -> ols_det X <> 0 ->
    rsum (map (fun p => snd p - a - b * fst p) (combine X Y)) = 0 ->
    rsum (map (fun p => fst p * (snd p - a - b * fst p)) (combine X Y)) = 0 ->
    rsum (map (fun p => snd p - a' - b' * fst p) (combine X Y)) = 0 ->
    rsum (map (fun p => fst p * (snd p - a' - b' * fst p)) (combine X Y)) = 0 ->
    a = a' /\ b = b'.
Proof. exact normal_equations_unique. Qed.
Print Assumptions C14_normal_equations_unique.

(* (3) hence, in a session state s whose slots denote the functions Fi of the elementary inputs
   (C02), for the objects oa, ob that line_fit returns and every elementary input k (a datum
   y_i or x_i itself, or anything the data depend on -- a shared systematic error, a common
   factor): the values are the least-squares estimates and reporting.sensitivity /
   u_component are the partial derivative of the ESTIMATOR (as a function of all data) w.r.t.
   that input, resp. u(k) times it *)
Theorem C14_line_fit_propagates :
  forall (U : key -> R) (I : key -> bool) (e0 : env) (s : KTypes.state R) (Fi : nat -> env -> R),
    attrs_ok U I s ->
    (forall i j o c, get_real RNum s i = Ok (j, o, c) -> Den U I e0 o (Fi i)) ->
    forall x y a b ssr n oa ob k lf xk,
    g_line_fit RNum (ev_in RNum s) (varof_in RNum s) (covof_in RNum s)
               (map (arg_mval RNum) x) (map (arg_mval RNum) y) = Ok (a, b, ssr, n) ->
    eval_obj RNum s a = Ok oa -> eval_obj RNum s b = Ok ob ->
    Kernel.assoc (s_leaves s) k = Some lf -> unode xk = LeafRef k -> 0 < U k ->
    locally (e0 k) (fun t => ols_det (dargs Fi x (upd e0 k t)) <> 0) ->
    ols_det (dargs Fi x e0) <> 0 ->
    length x = length y /\
    ux oa = ols_a (dargs Fi x e0) (dargs Fi y e0) /\ ux ob = ols_b (dargs Fi x e0) (dargs Fi y e0) /\
    exists Da Db,
      is_derive (fun t => ols_a (dargs Fi x (upd e0 k t)) (dargs Fi y (upd e0 k t))) (e0 k) Da /\
      is_derive (fun t => ols_b (dargs Fi x (upd e0 k t)) (dargs Fi y (upd e0 k t))) (e0 k) Db /\
      sensitivity RNum s oa xk = Ok Da /\ u_component RNum s oa xk = Ok (U k * Da) /\
      sensitivity RNum s ob xk = Ok Db /\ u_component RNum s ob xk = Ok (U k * Db).
Proof. exact line_fit_propagates. Qed.
Print Assumptions C14_line_fit_propagates.

(* (3w) type_b.line_fit_wls, for every N: the weights are plain numbers v_i (the variances y_i.v
   read from the session, or u_y_i**2) and u_i with u_i^2 = v_i; a and b are +,-,*,/ trees whose
   value functions are the closed-form WEIGHTED least-squares estimators (weights 1/v_i), which
   solve the weighted normal equations; hence sensitivity / u_component are the partial
   derivatives of the weighted estimator w.r.t. every input *)
Theorem C14_line_fit_wls_is_weighted_least_squares :
  forall (Fi : nat -> env -> R) ev vo co (xm ym : list (TBLib.mval RNum)) uy a b ssr n,
    g_line_fit_wls RNum ev vo co xm ym uy = Ok (a, b, ssr, n) ->
    List.Forall wf xm -> List.Forall wf ym ->
    (forall l0, uy = Some l0 -> List.Forall (fun u => is_ME RNum u = false) l0 /\ length l0 = length xm) ->
    exists V U : list R,
      length xm = length ym /\ length V = length xm /\ length U = length xm /\
      Forall2 (fun v u => u * u = v) V U /\
      (uy = None -> Forall2 (fun y v => vo y = Ok v) ym V) /\
      (forall l0, uy = Some l0 -> l0 = map (@MN RNum) U) /\
      wf a /\ wf b /\ is_ME RNum a = true /\
      forall e, let D := mkD (dlist Fi xm e) (dlist Fi ym e) V U in
        good D -> Sw D <> 0 -> wls_det D <> 0 -> den Fi a e = wls_a D /\ den Fi b e = wls_b D.
Proof. exact line_fit_wls_closed_form. Qed.
Print Assumptions C14_line_fit_wls_is_weighted_least_squares.

Theorem C14_wls_solves_normal_equations :
  forall D : list pt, Sw D <> 0 -> wls_det D <> 0 ->
    rsum (map (fun d => (py d - wls_a D - wls_b D * px d) / pv d) D) = 0 /\
    rsum (map (fun d => px d * (py d - wls_a D - wls_b D * px d) / pv d) D) = 0.
Proof. exact wls_normal_equations. Qed.
Print Assumptions C14_wls_solves_normal_equations.

Theorem C14_line_fit_wls_propagates :
  forall (U_ : key -> R) (I : key -> bool) (e0 : env) (s : KTypes.state R) (Fi : nat -> env -> R),
    attrs_ok U_ I s ->
    (forall i j o c, get_real RNum s i = Ok (j, o, c) -> Den U_ I e0 o (Fi i)) ->
    forall x y (u_y : option (list R)) a b ssr n oa ob k lf xk,
    g_line_fit_wls RNum (ev_in RNum s) (varof_in RNum s) (covof_in RNum s)
               (map (arg_mval RNum) x) (map (arg_mval RNum) y) (option_map (nums RNum) u_y) = Ok (a, b, ssr, n) ->
    (forall l, u_y = Some l -> length l = length x) ->
    eval_obj RNum s a = Ok oa -> eval_obj RNum s b = Ok ob ->
    Kernel.assoc (s_leaves s) k = Some lf -> unode xk = LeafRef k -> 0 < U_ k ->
    exists V Uu : list R,
      length V = length x /\ length Uu = length x /\ Forall2 (fun v u => u * u = v) V Uu /\
      (u_y = None -> Forall2 (fun yi v => varof_in RNum s yi = Ok v) (map (arg_mval RNum) y) V) /\
      (forall l, u_y = Some l -> l = Uu) /\
      let D := fun e => mkD (dargs Fi x e) (dargs Fi y e) V Uu in
      (locally (e0 k) (fun t => good (D (upd e0 k t)) /\ Sw (D (upd e0 k t)) <> 0 /\ wls_det (D (upd e0 k t)) <> 0) ->
       good (D e0) -> Sw (D e0) <> 0 -> wls_det (D e0) <> 0 ->
       ux oa = wls_a (D e0) /\ ux ob = wls_b (D e0) /\
       exists Da Db,
         is_derive (fun t => wls_a (D (upd e0 k t))) (e0 k) Da /\
         is_derive (fun t => wls_b (D (upd e0 k t))) (e0 k) Db /\
         sensitivity RNum s oa xk = Ok Da /\ u_component RNum s oa xk = Ok (U_ k * Da) /\
         sensitivity RNum s ob xk = Ok Db /\ u_component RNum s ob xk = Ok (U_ k * Db)).
Proof. exact line_fit_wls_propagates. Qed.
Print Assumptions C14_line_fit_wls_propagates.

(* (4) variance and covariance of the results are the LPU double sums over their components
   (C04), i.e. the data's uncertainties and correlations propagated through the estimator *)
Theorem C14_covariance_is_propagated :
  forall (s : KTypes.state R) (a b : KTypes.ureal R),
    unode a = NoNode -> leaves_exist s (dc a) ->
    get_covariance_real RNum s a b =
    Ok (vsum (fun k u => u * vget RNum (uc b) k) (uc a) + dsum s (dc a) (dc b)).
Proof.
  intros s a b Hn Hl. unfold get_covariance_real. cbn [T RNum]. rewrite Hn. apply std_covariance_spec. exact Hl.
Qed.
Print Assumptions C14_covariance_is_propagated.

(* (5) prediction: y_from_x builds a + b*x, x_from_y builds (mean(yseq) - a)/b (or returns a
   itself when |b| < 1e-15), both +,-,*,/ trees over a, b and the new data: C02 / C04 apply *)
Theorem C14_y_from_x :
  forall (Fi : nat -> env -> R) ev vo co a b x m,
    g_y_from_x RNum ev vo co a b x = Ok m ->
    (wf a -> wf b -> wf x -> wf m) /\ forall e, den Fi m e = den Fi a e + den Fi b e * den Fi x e.
Proof. exact y_from_x_tree. Qed.
Print Assumptions C14_y_from_x.

Theorem C14_x_from_y :
  forall (Fi : nat -> env -> R) ev vo co a b yseq m,
    g_x_from_y RNum ev vo co a b yseq = Ok m ->
    wf a -> wf b -> (forall y, In y yseq -> wf y) ->
    wf m /\
    ((exists vb, mvalue RNum ev b = Ok vb /\ Rabs vb < IZR 2535301200456459 * powerRZ 2 (-101) (* the double 1E-15 *) /\ m = a) \/
     forall e, den Fi m e = (rsum (dlist Fi yseq e) / INR (length yseq) - den Fi a e) / den Fi b e).
Proof. exact x_from_y_tree. Qed.
Print Assumptions C14_x_from_y.

(* (6) type_a.merge(a, b): value function of a plus the variation of b about its value: at the
   data point the value is a's, every derivative is the sum of the two analyses' derivatives *)
Theorem C14_merge :
  forall (Fi : nat -> env -> R) ev vo co a b tol m,
    g_merge RNum ev vo co a b (MN tol) = Ok m ->
    exists vb, mvalue RNum ev b = Ok vb /\ (wf a -> wf b -> wf m) /\
               forall e, den Fi m e = den Fi a e + (den Fi b e - vb).
Proof. exact merge_tree. Qed.
Print Assumptions C14_merge.

(* (7) "labels only label": the label step of the prediction methods is result(x, label=...), and
   `result` is bound in type_b.py (the translator reports it; fixed finding C14-label: on the
   unrepaired tree the name was unbound, every labelled call raised NameError, and this theorem
   does not compile).  The labelled prediction is the unlabelled object declared intermediate:
   same value, same components of uncertainty; one intermediate component is added. *)
Theorem C14_label_only_labels :
  forall (s : KTypes.state R) (t : Kernel.expr RNum) (o : KTypes.ureal R) (l : Z) s' x' u' d' i' k',
    not_var t -> eval_obj RNum s (ME t) = Ok o -> unode o = NoNode ->
    finish_pred RNum s (Ok (ME t)) (Some l) = (s', OutObj x' u' d' i' k') ->
    x' = ux o /\ u' = uc o /\ d' = dc o /\
    exists k (un : R), k' = KInterm k /\ i' = @Vector.merge RNum (ic o) [(k, un)].
Proof. exact label_only_labels. Qed.
Print Assumptions C14_label_only_labels.

Theorem C14_result_is_bound : g_tb_result_bound = true.
Proof. reflexivity. Qed.

(* (8) WTLS: dChiSq_dalpha is the derivative of ChiSq -- for the GENERATED code, every number of
   points, correlated pairs included (fixed finding C14-wtls-cov: on the unrepaired tree `_arrays`
   counted the x-y covariance twice in g_k, this statement was false and its proof does not compile).
   Trees are read with x**2 = x*x (sem2; Python's value also for a negative base).  alpha is the
   tree variable (input k); x y are the data values ChiSq holds, xu yu the uncertain data
   dChiSq_dalpha holds, u2x u2y cov the weights; none depends on alpha; ev is the evaluator used by
   `x != 0` in fix_div_by_zero (it returns values at the data point e0); no g_k vanishes there. *)
Theorem C14_wtls_dChiSq_dalpha_is_derivative_of_ChiSq :
  forall (Fi : nat -> env -> R) (ev : Kernel.expr RNum -> res R) (e0 : env),
    (forall t v, ev t = Ok v -> v = sem2 Fi t e0) ->
    forall (k : key) (alpha : TBLib.mval RNum),
    (forall t, den2 Fi alpha (upd e0 k t) = t) ->
    forall x y xu yu u2x u2y cov : list (TBLib.mval RNum),
    cst Fi e0 k x -> cst Fi e0 k y -> cst Fi e0 k xu -> cst Fi e0 k yu ->
    cst Fi e0 k u2x -> cst Fi e0 k u2y -> cst Fi e0 k cov ->
    dlist2 Fi xu e0 = dlist2 Fi x e0 -> dlist2 Fi yu e0 = dlist2 Fi y e0 ->
    length x = length y -> length x = length u2x -> length x = length u2y -> length x = length cov ->
    (forall d, In d (Dat Fi e0 x y u2x u2y cov) -> gS d (e0 k) <> 0) ->
    forall vo co vo' co' chi F,
    g_ChiSq_call RNum ev vo co xu yu x y u2x u2y cov alpha = Ok chi ->
    g_dChiSq_dalpha_call RNum ev vo' co' xu yu u2x u2y cov alpha = Ok F ->
    Dat Fi e0 x y u2x u2y cov <> [] -> S0 (Dat Fi e0 x y u2x u2y cov) (e0 k) <> 0 ->
    is_derive (fun t => den2 Fi chi (upd e0 k t)) (e0 k) (den2 Fi F e0).
Proof.
  intros Fi ev e0 Hev k alpha Ha x y xu yu u2x u2y cov Cx Cy Cxu Cyu Ca Cb Cc Vx Vy L1 L2 L3 L4 Hg vo co vo' co' chi F.
  exact (dChiSq_dalpha_is_derivative_of_ChiSq Fi ev e0 Hev k alpha Ha x y xu yu u2x u2y cov
           Cx Cy Cxu Cyu Ca Cb Cc Vx Vy L1 L2 L3 L4 Hg vo co vo' co' chi F).
Qed.
Print Assumptions C14_wtls_dChiSq_dalpha_is_derivative_of_ChiSq.

(* what the two generated calls denote: the profile chi-squared of Krystek & Anton and eqn (56) *)
Theorem C14_wtls_ChiSq_denotes :
  forall (Fi : nat -> env -> R) (ev : Kernel.expr RNum -> res R) (e0 : env),
    (forall t v, ev t = Ok v -> v = sem2 Fi t e0) ->
    forall (k : key) (alpha : TBLib.mval RNum),
    (forall t, den2 Fi alpha (upd e0 k t) = t) ->
    forall x y xu yu u2x u2y cov : list (TBLib.mval RNum),
    cst Fi e0 k x -> cst Fi e0 k y -> cst Fi e0 k u2x -> cst Fi e0 k u2y -> cst Fi e0 k cov ->
    length x = length y -> length x = length u2x -> length x = length u2y -> length x = length cov ->
    (forall d, In d (Dat Fi e0 x y u2x u2y cov) -> gS d (e0 k) <> 0) ->
    forall vo co chi,
    g_ChiSq_call RNum ev vo co xu yu x y u2x u2y cov alpha = Ok chi ->
    forall t, den2 Fi chi (upd e0 k t) = chiS (Dat Fi e0 x y u2x u2y cov) t.
Proof.
  intros Fi ev e0 Hev k alpha Ha x y xu yu u2x u2y cov Cx Cy Ca Cb Cc L1 L2 L3 L4 Hg vo co chi.
  exact (ChiSq_call_spec Fi ev e0 Hev k alpha Ha x y xu yu u2x u2y cov Cx Cy Ca Cb Cc L1 L2 L3 L4 Hg vo co chi).
Qed.
Print Assumptions C14_wtls_ChiSq_denotes.

(* the two constructors with explicit weights build the same lists: u2 = u**2 (= u*u) and
   cov_k = u_x_k * u_y_k * r_k *)
Theorem C14_wtls_constructors_explicit :
  forall (Fi : nat -> env -> R) ev vo co x y ux uy r cxu cyu cx cy cA cB cC dx dy dA dB dC,
    g_ChiSq_init RNum ev vo co x y (Some ux) uy r = Ok (cxu, cyu, cx, cy, cA, cB, cC) ->
    g_dChiSq_dalpha_init RNum ev vo co x y (Some ux) uy r = Ok (dx, dy, dA, dB, dC) ->
    cxu = x /\ cyu = y /\ dx = x /\ dy = y /\ dA = cA /\ dB = cB /\ dC = cC /\
    (forall e, dlist2 Fi cA e = map (fun u => u * u) (dlist2 Fi ux e)) /\
    (forall e, dlist2 Fi cB e = map (fun u => u * u) (dlist2 Fi uy e)) /\
    (forall e, dlist2 Fi cC e = map (fun p => fst p * fst (snd p) * snd (snd p))
                                    (zip3 (dlist2 Fi ux e) (dlist2 Fi uy e) (dlist2 Fi r e))).
Proof. exact inits_explicit. Qed.
Print Assumptions C14_wtls_constructors_explicit.

(* the profile chi-squared has period pi: the two ends alpha0 -+ pi/2 of the search interval have
   the same value, so the interval brackets a minimum only if chi-squared(alpha0) lies below it --
   line_fit_wtls now checks this and re-centres the interval (fixed finding C14-wtls-bracket-end;
   the minimiser itself remains an oracle of the model) *)
Theorem C14_wtls_chisq_period : forall (D : list pt5) (a : R), chiS D (a + PI) = chiS D a.
Proof. exact chiS_period. Qed.
Print Assumptions C14_wtls_chisq_period.

(* the statement over the reals (envelope argument), and the residual variance *)
Theorem C14_wtls_envelope :
  forall (D : list pt5) (a : R),
    INR (length D) <> 0 -> S0 D a <> 0 -> (forall d, In d D -> gS d a <> 0) ->
    is_derive (chiS D) a (FS D a).
Proof. exact dchisq_is_derivative_of_chisq. Qed.
Print Assumptions C14_wtls_envelope.

Theorem C14_wtls_gk :
  forall u2x u2y cov a,
    gk_src u2x u2y cov a = gk_true u2x u2y cov a /\
    is_derive (gk_src u2x u2y cov) a (gka_src u2x u2y cov a).
Proof. intros; split; [apply gk_src_is_variance|apply gk_src_derive]. Qed.
Print Assumptions C14_wtls_gk.

(* non-vacuity of (8): one point (x, y, u2x, u2y, cov) = (1, 2, 1, 1, 0), alpha = 0 *)
Example C14_wtls_nonvacuous :
  (exists chi, g_ChiSq_call RNum ex_ev (fun _ => Ok 0) (fun _ _ => Ok 0) one1 two1 one1 two1 one1 one1 zero1 ex_alpha = Ok chi) /\
  (exists F, g_dChiSq_dalpha_call RNum ex_ev (fun _ => Ok 0) (fun _ _ => Ok 0) one1 two1 one1 one1 zero1 ex_alpha = Ok F) /\
  (forall t v, ex_ev t = Ok v -> v = sem2 exFi t ex_e0) /\
  (forall t, den2 exFi ex_alpha (upd ex_e0 kx t) = t) /\
  cst exFi ex_e0 kx one1 /\ cst exFi ex_e0 kx two1 /\ cst exFi ex_e0 kx zero1 /\
  Dat exFi ex_e0 one1 two1 one1 one1 zero1 = [(1, 2, 1, 1, 0)] /\
  (forall d, In d (Dat exFi ex_e0 one1 two1 one1 one1 zero1) -> gS d (ex_e0 kx) <> 0) /\
  S0 (Dat exFi ex_e0 one1 two1 one1 one1 zero1) (ex_e0 kx) <> 0.
Proof. destruct ex_calls as [A B]. split; [exact A|split; [exact B|exact ex_hyps]]. Qed.

(* non-vacuity: three points with uncertain x and y (slots 0..2 and 3..5): the generated
   line_fit succeeds, and at a data point with x = (0, 1, 2) the determinant is 6 *)
Example C14_nonvacuous :
  let xm := [ME (EVar RNum 0); ME (EVar RNum 1); ME (EVar RNum 2)] in
  let ym := [ME (EVar RNum 3); ME (EVar RNum 4); ME (EVar RNum 5)] in
  let Fi := fun (i : nat) (_ : env) => INR i in
  (exists a b ssr n, g_line_fit RNum (fun _ => Ok 0) (fun _ => Ok 0) (fun _ _ => Ok 0) xm ym = Ok (a, b, ssr, n)) /\
  List.Forall wf xm /\ List.Forall wf ym /\
  ols_det (dlist Fi xm (fun _ => 0)) = 6.
Proof.
  intros xm ym Fi. split; [|split; [|split]].
  - unfold g_line_fit, xm, ym. unfold mcmp, mlen, mvalue. cbn [bind length]. rr. unfold Reqb.
    destruct (Req_EM_T (IZR (Z.of_nat 3)) (IZR (Z.of_nat 3))) as [_|ne]; [|exfalso; apply ne; reflexivity].
    cbn -[pow_R]. unfold fsum_with. cbn -[pow_R]. rewrite !pow_R_2. cbn. do 4 eexists. reflexivity.
  - repeat constructor.
  - repeat constructor.
  - unfold ols_det, Sq, rsum, dlist, xm, Fi. simpl. lra.
Qed.

"""arch.py -- C07 support: random GTC models, archive histories, extraction of the private
collections of Archive objects / registries / documents as Gallina literals for coq/ArchiveCase.v,
and the original-vs-restored differential (the property oracle)."""
import ast, io, json, math, copy, random, warnings
import xml.etree.ElementTree as ET
from common import *

warnings.simplefilter('ignore')

# ------------------------------------------------------------------ Gallina literals
def cstr(s):
    assert all(32 <= ord(c) < 127 for c in s), s
    return '"%s"%%string' % s.replace('"', '""')

def clabel(l):
    return 'None' if l is None else '(Some %s)' % cstr(l)

def ckey(uid):
    """a Leaf uid (c, n) or a Node uid (c, n, 0) as a model key"""
    if len(uid) == 3:
        assert uid[2] == 0
    return '(%s, %s)' % (cz(uid[0]), cz(uid[1]))

def cvec_uid(v):
    """a Vector indexed by uid tuples"""
    return clist(['(%s, %s)' % (ckey(k), cf(x)) for k, x in zip(v._index, v._value)])

def cvec_node(v):
    """a Vector indexed by node objects"""
    return clist(['(%s, %s)' % (ckey(k.uid), cf(x)) for k, x in zip(v._index, v._value)])

def cleaf(l):
    """a live Leaf or a frozen LeafNode"""
    if hasattr(l, 'complex'):
        c = l.complex
        cp = '(Some (%s, %s, %s))' % ('CTuple' if isinstance(c, tuple) else 'CList', ckey(c[0]), ckey(c[1]))
    else:
        cp = 'None'
    if hasattr(l, 'correlation'):
        items = list(l.correlation.items()) if isinstance(l.correlation, dict) else list(l.correlation)
        co = '(Some %s)' % clist(['(%s, %s)' % (ckey(k), cf(r)) for k, r in items])
    else:
        co = 'None'
    if hasattr(l, 'ensemble'):
        en = '(Some %s)' % clist([ckey(k) for k in sorted(l.ensemble)])
    else:
        en = 'None'
    return '(@mkAL NF %s %s %s %s %s %s %s)' % (clabel(l.label), cf(l.u), cf(l.df), cbool(l.independent), cp, co, en)

def cnode(label, u, df):
    return '(@mkAN NF %s %s %s)' % (clabel(label), cf(u), cf(df))

def cctx(leaves, nodes):
    """leaves: {uid: Leaf}, nodes: {uid: Node}"""
    return '(@mkCx NF %s %s)' % (
        clist(['(%s, %s)' % (ckey(k), cleaf(l)) for k, l in sorted(leaves.items())]),
        clist(['(%s, %s)' % (ckey(k), cnode(n.label, n.u, n.df)) for k, n in sorted(nodes.items())]))

def live_ctx():
    from GTC import context
    c = context._context
    return dict(c._registered_leaf_nodes.items()), dict(c._registered_intermediate_nodes.items())

def cureal(o):
    from GTC import nodes
    n = o._node
    if n is None: ref = 'NoNode'
    elif isinstance(n, nodes.Leaf): ref = 'ConstLeaf None' if n.uid is None else 'LeafRef %s' % ckey(n.uid)
    else: ref = 'NodeRef %s' % ckey(n.uid)
    return '(@mkU float %s %s %s %s (%s))' % (cf(o._x), cvec_node(o._u_components), cvec_node(o._d_components),
                                             cvec_node(o._i_components), ref)

def carchive(treal, tcplx):
    """treal: {tag: UncertainReal}; tcplx: {tag: UncertainComplex}"""
    return '(@mkAr NF %s %s)' % (
        clist(['(%s, %s)' % (cstr(t), cureal(o)) for t, o in treal.items()]),
        clist(['(%s, @mkCO NF %s %s %s)' % (cstr(t), cureal(z.real), cureal(z.imag), clabel(z.label)) for t, z in tcplx.items()]))

def cfreal(o):
    from GTC import archive
    if isinstance(o, archive.ElementaryReal):
        return '(@FElem NF %s %s)' % (cf(o.x), ckey(o.uid))
    return '(@FInterm NF %s %s %s %s %s %s)' % (cf(o.value), cvec_uid(o.u_components), cvec_uid(o.d_components),
                                               cvec_uid(o.i_components), clabel(o.label), ckey(o.uid))

def cfrozen(ar):
    """the five collections of a frozen (or decoded, not yet thawed) Archive"""
    return '(@mkFz NF %s %s %s %s %s)' % (
        clist(['(%s, %s)' % (ckey(k), cleaf(l)) for k, l in ar._leaf_nodes.items()]),
        clist(['(%s, %s)' % (ckey(k), cnode(*v)) for k, v in ar._intermediate_uids.items()]),
        clist(['(%s, %s)' % (cstr(t), cfreal(o)) for t, o in ar._tagged_real.items()]),
        clist(['(%s, mkFC %s %s %s)' % (cstr(t), cstr(c.n_re), cstr(c.n_im), clabel(c.label)) for t, c in ar._tagged_complex.items()]),
        clist(['(%s, %s)' % (cstr(t), cfreal(o)) for t, o in ar._untagged_real.items()]))

def cres(thunk, ok):
    """run thunk; 'Ok <literal>' or 'Err <exn>'"""
    try:
        v = thunk()
    except Exception as ex:
        return '(Err %s)' % cexn(type(ex).__name__), ex
    return '(Ok %s)' % ok(v), v

# ---- JSON documents (position based: where the reader applies from_uid_string)
def juid(s):
    try:
        t = ast.literal_eval(s)
        assert isinstance(t, tuple) and all(isinstance(i, int) for i in t)
        return 'SUid %s' % clist([cz(i) for i in t])
    except Exception:
        return 'SText %s' % cstr(s)

def jgen(x):
    if x is None: return 'JNull'
    if isinstance(x, bool): return '(JBool %s)' % cbool(x)
    if isinstance(x, (int, float)): return '(@JNum NF %s)' % cf(x)
    if isinstance(x, str): return '(JStr (SText %s))' % cstr(x)
    if isinstance(x, list): return '(@JArr NF %s)' % clist([jgen(v) for v in x])
    if isinstance(x, dict): return '(@JObj NF %s)' % clist(['(SText %s, %s)' % (cstr(k), jgen(v)) for k, v in x.items()])
    raise TypeError(x)

def jobj(items):
    return '(@JObj NF %s)' % clist(['(%s, %s)' % kv for kv in items])

def juidval(x):
    return '(JStr (%s))' % juid(x) if isinstance(x, str) else jgen(x)

def jvector(x):
    if not isinstance(x, dict): return jgen(x)
    return jobj([('SText %s' % cstr(k), ('(@JArr NF %s)' % clist([juidval(i) for i in v])) if k == 'index' and isinstance(v, list) else jgen(v))
                 for k, v in x.items()])

def jleaf(x, sort_ens):
    if not isinstance(x, dict): return jgen(x)
    out = []
    for k, v in x.items():
        if k == 'uid': r = juidval(v)
        elif k == 'complex' and isinstance(v, list): r = '(@JArr NF %s)' % clist([juidval(i) for i in v])
        elif k == 'correlation' and isinstance(v, dict): r = jobj([(juid(a), jgen(b)) for a, b in v.items()])
        elif k == 'ensemble' and isinstance(v, list):
            vs = sorted(v, key=lambda s: ast.literal_eval(s)) if sort_ens else v
            r = '(@JArr NF %s)' % clist([juidval(i) for i in vs])
        else: r = jgen(v)
        out.append(('SText %s' % cstr(k), r))
    return jobj(out)

def jreal(x):
    if not isinstance(x, dict): return jgen(x)
    out = []
    for k, v in x.items():
        if k == 'uid': r = juidval(v)
        elif k.endswith('_components'): r = jvector(v)
        else: r = jgen(v)
        out.append(('SText %s' % cstr(k), r))
    return jobj(out)

def jdoc(d, sort_ens=True):
    """a parsed JSON archive document (plain dicts) as a Gallina json tree"""
    out = []
    for k, v in d.items():
        if k == 'leaf_nodes' and isinstance(v, dict): r = jobj([(juid(a), jleaf(b, sort_ens)) for a, b in v.items()])
        elif k in ('tagged_real', 'untagged_real') and isinstance(v, dict): r = jobj([('SText %s' % cstr(a), jreal(b)) for a, b in v.items()])
        elif k == 'intermediate_uids' and isinstance(v, dict): r = jobj([(juid(a), jgen(b)) for a, b in v.items()])
        else: r = jgen(v)
        out.append(('SText %s' % cstr(k), r))
    return jobj(out)

# ---- XML documents
NUMTAGS = {'u', 'value', 'component', 'correlation'}
def xdoc(e):
    tag = e.tag.split('}')[-1]
    attrs = []
    for k, v in e.attrib.items():
        if k == 'uid':
            t = ast.literal_eval(v)
            attrs.append('(%s, AUid %s)' % (cstr(k), clist([cz(i) for i in t])))
        else:
            attrs.append('(%s, AStr %s)' % (cstr(k), cstr(v)))
    t = e.text
    if tag in NUMTAGS and t is not None: tx = '(@TNum NF %s)' % cf(float(t))
    elif tag == 'df' and t is not None: tx = '(@TINF NF)' if t == 'INF' else '(@TNum NF %s)' % cf(float(t))
    elif tag == 'independent' and t in ('true', 'false'): tx = '(@TBool NF %s)' % cbool(t == 'true')
    elif tag == 'label' and t is not None: tx = '(@TStr NF %s)' % cstr(t)
    elif t is None or (len(e) and not t.strip()): tx = '(@TNone NF)'
    else: tx = '(@TStr NF %s)' % cstr(t)
    kids = list(e)
    if tag == 'ensemble':      # a set: canonical order
        kids = sorted(kids, key=lambda c: ast.literal_eval(c.get('uid')))
    return '(@XEl NF %s %s %s %s)' % (cstr(tag), clist(attrs), tx, clist([xdoc(c) for c in kids]))

# ------------------------------------------------------------------ random models
LABELS = [None, None, 'a', 'b c', 'x_re', '', 'k"q', 'L1', '<&>']

def gen_model(rng, ctx, small=False):
    """build a random model in a fresh Context(id=ctx); returns (pool, info): pool maps a name to an
    archivable uncertain number (elementary or declared intermediate, real or complex)"""
    from GTC import core, type_a
    new_context(ctx)
    pool = {}; info = {'kinds': []}
    reals = []; cplx = []
    def lab():
        return rng.choice(LABELS)
    def val():
        return rng.choice([1.5, -0.75, 2.0, 0.1, 3.25, 10.0, -2.5, 0.5]) * rng.choice([1, 1, 1, 1e-3, 1e3])
    def unc():
        return rng.choice([0.1, 0.25, 1.0, 0.05, 2.0, 1e-3])
    def dof():
        return rng.choice([math.inf, math.inf, 3, 4.5, 10, 1e6])
    n_decl = rng.randint(1, 3) if small else rng.randint(2, 6)
    for i in range(n_decl):
        kind = rng.choice(['ind', 'ind', 'dep', 'ens', 'cind', 'ccor', 'cens', 'ind_df'])
        info['kinds'].append(kind)
        if kind in ('ind', 'ind_df'):
            x = core.ureal(val(), unc(), dof() if kind == 'ind_df' else math.inf, label=lab()); reals.append(x); pool['e%d' % i] = x
        elif kind == 'dep':
            a = core.ureal(val(), unc(), label=lab(), independent=False)
            b = core.ureal(val(), unc(), label=lab(), independent=False)
            core.set_correlation(rng.choice([0.5, -0.3, 0.9, 0.0]), a, b)
            if reals and rng.random() < 0.5:
                prev = [r for r in reals if not r._node.independent and math.isinf(r.df)]
                if prev: core.set_correlation(rng.choice([0.2, -0.6]), a, rng.choice(prev))
            reals += [a, b]; pool['d%da' % i] = a; pool['d%db' % i] = b
        elif kind == 'ens':
            k = rng.randint(2, 3)
            xs = core.multiple_ureal([val() for _ in range(k)], [unc() for _ in range(k)], rng.choice([3, 7.5, 12]),
                                     label_seq=[rng.choice(['m', 'n', None, '']) if False else ('s%d_%d' % (i, j)) for j in range(k)] if rng.random() < 0.5 else None)
            for a in range(k):
                for b in range(a + 1, k):
                    if rng.random() < 0.7: core.set_correlation(rng.choice([0.4, -0.2, 0.8]), xs[a], xs[b])
            for j, x in enumerate(xs): pool['m%d_%d' % (i, j)] = x
            reals += list(xs)
        elif kind == 'cind':
            z = core.ucomplex(complex(val(), val()), rng.choice([unc(), (unc(), unc())]), dof(), label=lab()); cplx.append(z); pool['z%d' % i] = z
        elif kind == 'ccor':
            u1, u2 = unc(), unc(); r = rng.choice([0.5, -0.4, 0.2])
            z = core.ucomplex(complex(val(), val()), (u1 ** 2, r * u1 * u2, r * u1 * u2, u2 ** 2), dof(), label=lab()); cplx.append(z); pool['z%d' % i] = z
        else:
            k = 2
            zs = core.multiple_ucomplex([complex(val(), val()) for _ in range(k)], [(unc(), unc()) for _ in range(k)], rng.choice([4, 9]),
                                        label_seq=['w%d_%d' % (i, j) for j in range(k)] if rng.random() < 0.5 else None)
            if rng.random() < 0.7: core.set_correlation(0.3, zs[0].real, zs[1].imag)
            for j, z in enumerate(zs): pool['w%d_%d' % (i, j)] = z
            cplx += list(zs)
    # intermediates
    from GTC import lib
    n_int = rng.randint(0, 2) if small else rng.randint(1, 5)
    allr = lambda: reals + [p for z in cplx for p in (z.real, z.imag)]
    for j in range(n_int):
        if cplx and rng.random() < 0.35:
            a = rng.choice(cplx); b = rng.choice(cplx + allr())
            e = rng.choice([lambda: a * b, lambda: a + b * 0.5, lambda: a * a - b, lambda: a / (b + 7.0)])()
            if isinstance(e, lib.UncertainComplex) and not e.is_elementary:
                m = core.result(e, label=lab())
                if m.is_intermediate:
                    cplx.append(m); pool['q%d' % j] = m; info['kinds'].append('cint')
            continue
        src = allr()
        if not src: continue
        a = rng.choice(src); b = rng.choice(src); c = rng.choice(src)
        e = rng.choice([lambda: a * b + c, lambda: a - b * 2.0, lambda: a * 3.0 + 1.0, lambda: (a + b) * c, lambda: a * a + b])()
        if isinstance(e, lib.UncertainReal) and not e.is_elementary and not e.is_intermediate and (len(e._u_components) + len(e._d_components)):
            m = core.result(e, label=lab())
            reals.append(m); pool['r%d' % j] = m; info['kinds'].append('rint')
    return pool, info

def choose_tags(rng, pool):
    names = list(pool)
    rng.shuffle(names)
    k = rng.randint(1, min(6, len(names)))
    chosen = names[:k]
    TAGS = ['t%d', 'tag %d', 'x%d_re', 'K%d', 'y%d']
    return {(rng.choice(TAGS) % i): n for i, n in enumerate(chosen)}

# ------------------------------------------------------------------ a writer session that writes several archives
def state_change(rng, pool, tags, log):
    """one change of the writing session's state BETWEEN two writes: a correlation declared or re-declared (between
    infinite-dof dependent inputs, inside an ensemble, between the parts of a complex), an ensemble extended (what the
    type-A predictions do), a label given by result(), a new declared result (possibly tagged for the later archive)"""
    from GTC import core, lib
    allp = [p for o in pool.values() for p in parts(o)]
    elem = [p for p in allp if p.is_elementary]
    kind = rng.choice(['corr', 'corr', 'corr_ens', 'ens_ext', 'relabel', 'newres', 'newres'])
    try:
        if kind == 'corr':
            dep = [p for p in elem if not p._node.independent and math.isinf(p._node.df)]
            if len(dep) < 2: return
            a, b = rng.sample(dep, 2)
            r = rng.choice([0.5, -0.3, 0.25, -0.7, 0.1])
            core.set_correlation(r, a, b); log.append(['corr', repr(a.uid), repr(b.uid), r])
        elif kind == 'corr_ens':
            byuid = {p.uid: p for p in elem}
            ens = [p for p in elem if not p._node.independent and len(p._node.ensemble) > 1]
            if not ens: return
            a = rng.choice(ens)
            others = [byuid[u] for u in a._node.ensemble if u != a.uid and u in byuid]
            if not others: return
            b = rng.choice(others); r = rng.choice([0.6, -0.25, 0.35])
            core.set_correlation(r, a, b); log.append(['corr_ens', repr(a.uid), repr(b.uid), r])
        elif kind == 'ens_ext':
            ens = [p for p in elem if not p._node.independent and len(p._node.ensemble) > 1 and not hasattr(p._node, 'complex')]
            if not ens: return
            a = rng.choice(ens)
            x = core.ureal(rng.choice([0.75, -1.5, 4.0]), rng.choice([0.2, 0.05]), a._node.df, label=rng.choice([None, 'pred']), independent=False)
            lib.append_real_ensemble(a, x)
            if rng.random() < 0.7: core.set_correlation(rng.choice([0.45, -0.2]), a, x)
            name = 'x%d' % len(pool); pool[name] = x
            tags['e%d' % len(tags)] = name
            log.append(['ens_ext', repr(a.uid), repr(x.uid)])
        elif kind == 'relabel':
            un = [p for p in elem if p._node.label is None and not hasattr(p._node, 'complex')]
            if not un: return
            a = rng.choice(un); core.result(a, label='rl'); log.append(['relabel', repr(a.uid), repr(a._node.label)])
        else:
            if not allp: return
            a = rng.choice(allp); b = rng.choice(allp); c = rng.choice(allp)
            e = rng.choice([lambda: a * b + c, lambda: a - 2.0 * b, lambda: (a + c) * 1.5 + b])()
            if isinstance(e, lib.UncertainReal) and not e.is_elementary and not e.is_intermediate and (len(e._u_components) + len(e._d_components)):
                m = core.result(e, label=rng.choice(LABELS))
                name = 'n%d' % len(pool); pool[name] = m
                if rng.random() < 0.6: tags['n%d' % len(tags)] = name
                log.append(['newres', name])
    except Exception as ex:
        log.append([kind, 'EXC:' + type(ex).__name__])

def prior_writes(rng, pool, tags, observe_seed=None):
    """earlier archives of the same / overlapping numbers, written (and frozen) BEFORE the archive under test, with state
    changes after each write.  Returns (log, priors); priors = [(fmt, via, document, tags, observations at ITS write time, flags)].
    May add numbers to pool and tags (new results / ensemble members destined for the later archive)."""
    log = []; priors = []
    for w in range(rng.randint(1, 2)):
        names = list(pool); rng.shuffle(names)
        sub = {'p%d_%d' % (w, i): n for i, n in enumerate(names[:rng.randint(1, min(4, len(names)))])}
        if rng.random() < 0.8:
            sub['p%d_o' % w] = rng.choice(list(tags.values()))          # overlap with the later archive
        fmt = rng.choice(FORMATS); via = rng.choice(['string', 'file'])
        doc = dump_with(fmt, make_archive(sub, pool), via)
        snap = observe({t: pool[n] for t, n in sub.items()}, observe_seed) if observe_seed is not None else None
        priors.append((fmt, via, doc, dict(sub), snap, archive_flags(sub, pool)))
        log.append(['write', fmt, sorted(sub.values())])
        for _ in range(rng.randint(1, 3)):
            state_change(rng, pool, tags, log)
    return log, priors

# ------------------------------------------------------------------ storage functions
FORMATS = ['pickle', 'json', 'xml']

# how an archive travels: 'string' (dumps/loads), 'file' (an in-memory file object), or a REAL file used the way the
# documentation shows -- opened in the documented mode ('wb'/'rb' pickle, 'w'/'r' JSON, binary or a file NAME for XML,
# text mode with encoding='unicode' for XML), the archive at a non-zero offset behind a preamble the application wrote,
# and, for pickle ("Several archives can be saved in the same file by repeated use of this function"), one of several
# archives dumped one after another into the same binary file and loaded back one after another.  JSON and XML files hold
# one document ("Only one archive can be saved in a file"), behind a preamble at most.
VIAS = {'pickle': ['string', 'file', 'disk', 'disk_multi', 'disk_multi', 'disk_offset'],
        'json': ['string', 'file', 'disk', 'disk_offset'],
        'xml': ['string', 'file', 'disk', 'disk_offset', 'disk_name', 'disk_text'],
        'legacy': ['string', 'file', 'disk']}

def choose_via(rng, fmt):
    return rng.choice(VIAS[fmt])

class OtherArchiveLost(Exception):
    """another archive of the same file could not be read back (or is not what was written)"""

_TMP = []
def _tmpfile(suffix):
    import tempfile, atexit
    if not _TMP:
        os.makedirs(BUILD, exist_ok=True)
        _TMP.append(tempfile.mkdtemp(prefix='c07_files_', dir=BUILD)); _TMP.append(0)
        atexit.register(lambda: shutil.rmtree(_TMP[0], ignore_errors=True))
    _TMP[1] += 1
    return os.path.join(_TMP[0], 'f%d%s' % (_TMP[1], suffix))

PREAMBLE = 'GTC archives of run 17\n'

def _values(ar_tags, pool):
    return {t: hx(pool[n].x) for t, n in ar_tags.items()}

def dump_with(fmt, ar, via, multi=None):
    """returns the document (str / bytes) or, for the 'disk*' forms, a handle {path, ...} with the document under 'content'.
    multi = (rng, pool): where the other archives of a several-archives file come from"""
    from GTC import persistence as pr
    if via.startswith('disk') and via not in VIAS.get(fmt, []): via = 'disk'
    if not via.startswith('disk'):
        if fmt == 'pickle':
            if via == 'string': return pr.dumps(ar)
            f = io.BytesIO(); pr.dump(f, ar); return f.getvalue()
        if fmt == 'json':
            if via == 'string': return pr.dumps_json(ar)
            f = io.StringIO(); pr.dump_json(f, ar); return f.getvalue()
        if fmt == 'xml':
            if via == 'string': return pr.dumps_xml(ar)
            f = io.BytesIO(); pr.dump_xml(f, ar); return f.getvalue()
        if fmt == 'legacy':
            from GTC import json_format_old
            ar._freeze()
            return json.dumps(ar, cls=json_format_old.JSONArchiveEncoder)
        raise ValueError(fmt)
    h = {'via': via, 'fmt': fmt, 'offset': 0, 'before': [], 'after': []}
    if fmt == 'pickle':
        h['path'] = path = _tmpfile('.gar')
        others_b, others_a = [], []
        if via == 'disk_multi':
            rng, pool = multi
            def other():
                names = list(pool); rng.shuffle(names)
                sub = {'o%d' % i: n for i, n in enumerate(names[:rng.randint(1, min(3, len(names)))])}
                return make_archive(sub, pool), _values(sub, pool)
            nb = rng.randint(0, 2); na = rng.randint(0 if nb else 1, 2)
            others_b = [other() for _ in range(nb)]; others_a = [other() for _ in range(na)]
        with open(path, 'wb') as f:
            if via == 'disk_offset':
                f.write(PREAMBLE.encode()); h['offset'] = f.tell()
            for a, v in others_b: pr.dump(f, a); h['before'].append(v)
            start = f.tell()
            pr.dump(f, ar)
            end = f.tell()
            for a, v in others_a: pr.dump(f, a); h['after'].append(v)
        with open(path, 'rb') as f:
            f.seek(start); h['content'] = f.read(end - start)
        return h
    if fmt in ('json', 'legacy'):
        h['path'] = path = _tmpfile('.json')
        with open(path, 'w') as f:
            if via == 'disk_offset':
                f.write(PREAMBLE); h['offset'] = len(PREAMBLE)
            if fmt == 'json': pr.dump_json(f, ar)
            else: f.write(dump_with('legacy', ar, 'string'))
        with open(path) as f:
            f.read(h['offset']); h['content'] = f.read()
        return h
    if fmt == 'xml':
        h['path'] = path = _tmpfile('.xml')
        if via == 'disk_name':
            pr.dump_xml(path, ar)
        elif via == 'disk_text':
            with open(path, 'w') as f: pr.dump_xml(f, ar, encoding='unicode')
        else:
            with open(path, 'wb') as f:
                if via == 'disk_offset':
                    f.write(PREAMBLE.encode()); h['offset'] = f.tell()
                pr.dump_xml(f, ar)
        with open(path, 'rb') as f:
            f.seek(h['offset']); h['content'] = f.read()
        return h
    raise ValueError(fmt)

def doc_content(doc):
    return doc['content'] if isinstance(doc, dict) else doc

def _load_other(f, expect, k):
    """read one of the other archives of a several-archives file in a throw-away Context"""
    from GTC import persistence as pr, context
    saved = context._context
    try:
        new_context(880000 + k)
        try:
            a = pr.load(f)
            got = {t: hx(a[t].x) for t in expect}
        except Exception as ex:
            raise OtherArchiveLost('%s: %r' % (type(ex).__name__, ex))
        if got != expect: raise OtherArchiveLost('another archive of the file came back different')
    finally:
        context._context = saved

def load_with(fmt, doc, via):
    from GTC import persistence as pr
    if not isinstance(doc, dict):
        if via.startswith('disk'): via = 'file'
        if fmt == 'pickle':
            return pr.loads(doc) if via == 'string' else pr.load(io.BytesIO(doc))
        if fmt in ('json', 'legacy'):
            return pr.loads_json(doc) if via == 'string' else pr.load_json(io.StringIO(doc))
        if fmt == 'xml':
            return pr.loads_xml(doc) if via == 'string' else pr.load_xml(io.BytesIO(doc))
        raise ValueError(fmt)
    h = doc; via = h['via']
    if fmt == 'pickle':
        with open(h['path'], 'rb') as f:
            if h['offset']: f.seek(h['offset'])
            for k, v in enumerate(h['before']): _load_other(f, v, k)
            ar = pr.load(f)
            for k, v in enumerate(h['after']): _load_other(f, v, 10 + k)
            if f.read(1) != b'': raise OtherArchiveLost('data left in the file')
        return ar
    if fmt in ('json', 'legacy'):
        with open(h['path'], 'r') as f:
            if h['offset']: f.readline()
            return pr.load_json(f)
    if fmt == 'xml':
        if via == 'disk_name': return pr.load_xml(h['path'])
        with open(h['path'], 'r' if via == 'disk_text' else 'rb') as f:
            if h['offset']: f.seek(h['offset'])
            return pr.load_xml(f)
    raise ValueError(fmt)

def make_archive(tags, pool, legacy=False):
    from GTC import persistence as pr, archive_old
    ar = archive_old.Archive() if legacy else pr.Archive()
    for t, n in tags.items():
        ar[t] = pool[n]
    return ar

def decode_only(fmt, doc):
    """the Archive the reader builds, before _thaw"""
    from GTC import json_format, xml_format, archive
    if fmt == 'json':
        a = json.loads(doc, object_hook=json_format.json_to_archive)
        if not isinstance(a, archive.Archive):
            raise AttributeError('_thaw')      # what loads_json's ar._thaw() raises on a plain dict
        return a
    saved = archive.Archive._thaw
    archive.Archive._thaw = lambda self: None
    try:
        return xml_format.xml_to_archive(ET.XML(doc))
    finally:
        archive.Archive._thaw = saved

# ------------------------------------------------------------------ observations (the property's observables)
def hx(x):
    if isinstance(x, complex): return (hx(x.real), hx(x.imag))
    if isinstance(x, (int, float)):
        x = float(x)
        return 'nan' if math.isnan(x) else x.hex()
    if isinstance(x, (tuple, list)) or (hasattr(x, '_fields')): return tuple(hx(v) for v in x)
    return repr(x)

def guarded(f):
    try:
        return f()
    except Exception as ex:
        return 'EXC:' + type(ex).__name__

def parts(o):
    from GTC import lib
    return [o.real, o.imag] if isinstance(o, lib.UncertainComplex) else [o]

def observe(objs, cont_seed):
    """objs: {tag: UN}.  All observables the property names, of the numbers themselves and of a
    pseudo-random continued calculation (same seed => same calculation on originals and restored)."""
    from GTC import core, reporting, lib
    out = {}
    tags = list(objs)
    flat = []
    for t in tags:
        o = objs[t]
        out['attr:' + t] = (hx(o.x), guarded(lambda: hx(o.u)), guarded(lambda: hx(o.df)), repr(o.label), repr(o.uid),
                            o.is_elementary, o.is_intermediate)
        for i, p in enumerate(parts(o)):
            flat.append(('%s[%d]' % (t, i), p))
            out['part:%s[%d]' % (t, i)] = (hx(p.x), guarded(lambda: hx(p.u)), guarded(lambda: hx(p.df)), repr(p.label), repr(p.uid))
    for a, pa in flat:
        for b, pb in flat:
            out['cov:%s,%s' % (a, b)] = guarded(lambda: hx(core.get_covariance(pa, pb)))
            out['ucomp:%s,%s' % (a, b)] = guarded(lambda: hx(reporting.u_component(pa, pb)))
    for t in tags:
        o = objs[t]
        out['budget:' + t] = guarded(lambda: [(repr(r.label), hx(r.u), repr(r.uid)) for r in reporting.budget(o, trim=0)])
    # continued calculation
    rng = random.Random(cont_seed)
    vals = [objs[t] for t in tags]
    res = []
    for j in range(rng.randint(2, 5)):
        a = rng.choice(vals + res); b = rng.choice(vals + res)
        k = rng.choice([0.5, 2.0, -1.25, 3.0])
        op = rng.randrange(6)
        def calc():
            if op == 0: return a * k + b
            if op == 1: return a * b
            if op == 2: return a - b * k
            if op == 3: return (a + k) * (b - k)
            if op == 4: return core.magnitude(a) + core.magnitude(b) if (abs(core.value(a)) > 0 and abs(core.value(b)) > 0) else a + b
            return a * k
        try:
            y = calc()
        except Exception as ex:
            out['cont%d' % j] = 'EXC:' + type(ex).__name__; continue
        if not isinstance(y, (lib.UncertainReal, lib.UncertainComplex)):
            out['cont%d' % j] = hx(y); continue
        res.append(y)
        out['cont%d' % j] = (hx(y.x), guarded(lambda: hx(y.u)), guarded(lambda: hx(y.df)))
        out['cont%d:budget' % j] = guarded(lambda: [(repr(r.label), hx(r.u), repr(r.uid)) for r in reporting.budget(y, trim=0)])
        for a2, pa in flat[:6]:
            for i, p in enumerate(parts(y)):
                out['cont%d[%d]:cov:%s' % (j, i, a2)] = guarded(lambda: hx(core.get_covariance(p, pa)))
                out['cont%d[%d]:ucomp:%s' % (j, i, a2)] = guarded(lambda: hx(reporting.u_component(p, pa)))
    for i in range(len(res)):
        for k2 in range(i, len(res)):
            for pi in parts(res[i])[:1]:
                for pk in parts(res[k2])[:1]:
                    out['contcov:%d,%d' % (i, k2)] = guarded(lambda: hx(core.get_covariance(pi, pk)))
    # declare intermediate results ON TOP of the (restored) numbers, then go on: the uid of a node declared now
    # belongs to the current context and may sort before or after the uids of the restored intermediates
    declared = []; newuid = {}
    def norm_uid(s):
        for k, v in newuid.items(): s = s.replace(k, v)
        return s
    archived = set(repr(p.uid) for _, p in flat if p.is_intermediate)
    def rows(y, **kw):
        # rows with equal u come out in uid order, and the uid of a node declared now is session dependent: canonical
        # order (by u, then uid).  Components w.r.t. intermediates that were not archived are dropped by design
        # ("with respect to every restored intermediate"): keep rows of archived and of newly declared intermediates
        rs = [(repr(r.label), hx(r.u), norm_uid(repr(r.uid)), repr(r.uid)) for r in reporting.budget(y, trim=0, **kw)]
        if kw.get('intermediate'):
            rs = [r for r in rs if r[3] in archived or r[2] != r[3]]
        return sorted((r[:3] for r in rs), key=lambda r: (r[1], r[2].replace('[', '(').replace(']', ')'), r[0]))
    for j, y in enumerate(res[:4]):
        try:
            m = core.result(y, label='m%d' % j)
        except Exception as ex:
            out['decl%d' % j] = 'EXC:' + type(ex).__name__; continue
        for i, p in enumerate(parts(m)):
            if p.is_intermediate and repr(p.uid) not in newuid: newuid[repr(p.uid)] = '<new%d.%d>' % (j, i)
        declared.append(m)
        out['decl%d' % j] = (hx(m.x), guarded(lambda: hx(m.u)), guarded(lambda: hx(m.df)), repr(m.label), m.is_intermediate)
        other = rng.choice(vals + declared)
        k = rng.choice([2.0, -0.5, 1.5])
        try:
            w = m * k + other
            if rng.random() < 0.5: w = core.result(w * m, label='w%d' % j)
            for i, p in enumerate(parts(w)):
                if p.is_intermediate and repr(p.uid) not in newuid: newuid[repr(p.uid)] = '<neww%d.%d>' % (j, i)
        except Exception as ex:
            out['after%d' % j] = 'EXC:' + type(ex).__name__; continue
        out['after%d' % j] = (hx(w.x), guarded(lambda: hx(w.u)), guarded(lambda: hx(w.df)))
        out['after%d:budget' % j] = guarded(lambda: rows(w))
        if isinstance(w, lib.UncertainReal):
            # (the intermediate budget of a complex result pairs components positionally: C17's subject)
            out['after%d:ibudget' % j] = guarded(lambda: rows(w, intermediate=True))
        wrt = [('m%d[%d]' % (j2, i2), p2) for j2, m2 in enumerate(declared) for i2, p2 in enumerate(parts(m2))] + \
              [(a2, pa) for a2, pa in flat if pa.is_intermediate or pa.is_elementary][:8]
        for i, p in enumerate(parts(w)):
            for a2, pa in wrt:
                out['after%d[%d]:sens:%s' % (j, i, a2)] = guarded(lambda: hx(reporting.sensitivity(p, pa)))
                out['after%d[%d]:ucomp:%s' % (j, i, a2)] = guarded(lambda: hx(reporting.u_component(p, pa)))
    return out

def archive_flags(tags, pool):
    """features of an archive the known findings are matched on"""
    from GTC import lib
    stored = []; tagged_elem_cplx_uids = set(); labels = []
    for t, n in tags.items():
        o = pool[n]
        labels.append(o.label)
        for p in parts(o):
            stored.append(p)
            labels.append(p.label)
        if isinstance(o, lib.UncertainComplex) and o.real.is_elementary and o.imag.is_elementary:
            tagged_elem_cplx_uids.update([o.real.uid, o.imag.uid])
    leaves = {}
    for p in stored:
        for n_i in list(p._u_components._index) + list(p._d_components._index):
            leaves[n_i.uid] = n_i
    untagged_cplx = [uid for uid, l in leaves.items() if hasattr(l, 'complex') and uid not in tagged_elem_cplx_uids]
    for l in leaves.values(): labels.append(l.label)
    return {'untagged_complex_leaf': bool(untagged_cplx), 'empty_label': any(l == '' for l in labels)}

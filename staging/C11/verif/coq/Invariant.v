(* Invariant.v -- a well-formedness invariant of the session state machine, proved for the
   initial state and preserved by EVERY operation (hence true of every reachable state, after
   every history), for every number instance:
   * every uncertain number's three component vectors are strictly uid-ordered, the keys of
     its independent / dependent vectors are registered leaves declared independent /
     dependent, the keys of its intermediate vector are registered nodes;
   * correlation tables exist exactly on dependent leaves, carry 1 on the diagonal and are
     stored symmetrically on both partners.
   These are the hypotheses under which LPU.v states the law of propagation. *)
From Coq Require Import ZArith List Bool Lia.
From GTCV Require Import Num Vector VectorFacts Opres KTypes Kernel.
From GTCV.gen Require Import Gen_lib_real.
Import ListNotations.

Section Invariant.
  Variable N : Num.
  Notation V := (T N).
  Notation ureal := (KTypes.ureal V).
  Notation state := (KTypes.state V).
  Notation leaf := (KTypes.leaf V).
  Notation vec := (list (key * V)).

  Definition lookup {A} := @Kernel.assoc A.

  Definition obj_wf (s : state) (o : ureal) : Prop :=
    sorted (N:=N) (uc o) /\ sorted (N:=N) (dc o) /\ sorted (N:=N) (ic o) /\
    (forall k, In k (keys (N:=N) (uc o)) -> exists l, lookup (s_leaves s) k = Some l /\ l_indep l = true) /\
    (forall k, In k (keys (N:=N) (dc o)) -> exists l, lookup (s_leaves s) k = Some l /\ l_indep l = false) /\
    (forall k, In k (keys (N:=N) (ic o)) -> exists n, lookup (s_nodes s) k = Some n).

  Definition leaves_wf (s : state) : Prop :=
    (0 <= s_ne s /\ 0 <= s_ni s)%Z /\
    (forall k l, lookup (s_leaves s) k = Some l -> (fst k = s_ctx s /\ 1 <= snd k <= s_ne s)%Z) /\
    (forall k n, lookup (s_nodes s) k = Some n -> (fst k = s_ctx s /\ 1 <= snd k <= s_ni s)%Z) /\
    (forall k l, lookup (s_leaves s) k = Some l -> l_indep l = false ->
                 exists r, lookup (l_corr l) k = Some r /\ eqb N r (one N) = true) /\
    (forall k l, lookup (s_leaves s) k = Some l -> l_indep l = true -> l_corr l = []) /\
    (forall k l k' r, lookup (s_leaves s) k = Some l -> lookup (l_corr l) k' = Some r ->
                      exists l', lookup (s_leaves s) k' = Some l' /\ lookup (l_corr l') k = Some r).

  Definition Inv (s : state) : Prop :=
    leaves_wf s /\
    forall i o c, nth_error (s_slots s) i = Some (SReal o c) -> obj_wf s o.

  (* ---------- association lists ---------- *)
  Lemma lookup_app_some {A} (l l' : list (key * A)) k a :
    lookup l k = Some a -> lookup (l ++ l') k = Some a.
  Proof.
    unfold lookup. induction l as [|[k0 a0] l IH]; simpl; [discriminate|].
    destruct (keqb k k0); auto.
  Qed.

  Lemma lookup_app_none {A} (l : list (key * A)) k k0 a0 :
    lookup l k = None -> lookup (l ++ [(k0, a0)]) k = if keqb k k0 then Some a0 else None.
  Proof.
    unfold lookup. induction l as [|[k1 a1] l IH]; simpl; auto.
    destruct (keqb k k1); [discriminate|auto].
  Qed.

  Lemma lookup_set_same {A} (l : list (key * A)) k a : lookup (assoc_set l k a) k = Some a.
  Proof.
    unfold lookup. induction l as [|[k' a'] l IH]; simpl.
    - rewrite keqb_refl; reflexivity.
    - destruct (keqb k k') eqn:E; simpl; [rewrite keqb_refl; reflexivity | rewrite E; exact IH].
  Qed.

  Lemma lookup_set_other {A} (l : list (key * A)) k k' a :
    keqb k' k = false -> lookup (assoc_set l k a) k' = lookup l k'.
  Proof.
    unfold lookup. intros Hn. induction l as [|[k0 a0] l IH]; simpl.
    - rewrite Hn; reflexivity.
    - destruct (keqb k k0) eqn:E; simpl.
      + apply keqb_eq in E; subst k0. rewrite Hn. reflexivity.
      + destruct (keqb k' k0); auto.
  Qed.

  Lemma keqb_sym' a b : keqb a b = keqb b a.
  Proof.
    destruct (keqb a b) eqn:E1, (keqb b a) eqn:E2; auto.
    - apply keqb_eq in E1; subst. rewrite keqb_refl in E2; discriminate.
    - apply keqb_eq in E2; subst. rewrite keqb_refl in E1; discriminate.
  Qed.

  (* ---------- objects built by the operators ---------- *)
  Definition vec_ok (P : key -> Prop) (v : vec) : Prop :=
    sorted (N:=N) v /\ forall k, In k (keys (N:=N) v) -> P k.

  Lemma vec_ok_scale P (v : vec) w : vec_ok P v -> vec_ok P (scale (N:=N) v w).
  Proof.
    intros [S K]. split; [apply sorted_vmap; auto|].
    intros k. unfold scale. rewrite keys_vmap. auto.
  Qed.

  Lemma vec_ok_mloop P f1 f2 f12 (v1 v2 : vec) :
    vec_ok P v1 -> vec_ok P v2 -> vec_ok P (mloop (N:=N) f1 f2 f12 v1 v2).
  Proof.
    intros [S1 K1] [S2 K2]. split; [apply sorted_mloop; auto|].
    intros k Hin. apply keys_mloop in Hin. destruct Hin; auto.
  Qed.

  Lemma vec_ok_nil P : vec_ok P [].
  Proof. split; simpl; auto. intros k []. Qed.

  Definition Pu (s : state) k := exists l, lookup (s_leaves s) k = Some l /\ l_indep l = true.
  Definition Pd (s : state) k := exists l, lookup (s_leaves s) k = Some l /\ l_indep l = false.
  Definition Pi (s : state) k := exists n, lookup (s_nodes s) k = Some n.

  Lemma obj_wf_iff s o :
    obj_wf s o <-> vec_ok (Pu s) (uc o) /\ vec_ok (Pd s) (dc o) /\ vec_ok (Pi s) (ic o).
  Proof. unfold obj_wf, vec_ok, Pu, Pd, Pi. tauto. Qed.

  Lemma obj_wf_new s y u d i :
    vec_ok (Pu s) u -> vec_ok (Pd s) d -> vec_ok (Pi s) i -> obj_wf s (new_un N y u d i).
  Proof. intros; apply obj_wf_iff; simpl; auto. Qed.

  Lemma realize_wf s r a b o :
    obj_wf s a -> obj_wf s b -> realize N r a b = Ok (VObj o) -> obj_wf s o.
  Proof.
    intros Ha Hb. apply obj_wf_iff in Ha. apply obj_wf_iff in Hb.
    destruct Ha as [Au [Ad Ai]], Hb as [Bu [Bd Bi]].
    destruct r as [w|y|y|w y wt|y w1 w2|y|w y|w| | ]; simpl; try discriminate;
      intros H; injection H as <-.
    - apply obj_wf_iff; simpl. repeat split; try apply vec_ok_nil.
    - destruct w; apply obj_wf_new; apply vec_ok_scale; auto.
    - apply obj_wf_new; apply vec_ok_mloop; auto.
    - apply obj_wf_new; apply vec_ok_mloop; auto.
    - destruct w; apply obj_wf_new; auto.
    - destruct w; unfold neg_of; apply obj_wf_new; apply vec_ok_scale; auto.
    - apply obj_wf_new; apply vec_ok_mloop; auto.
  Qed.

  (* obj_wf only depends on which leaves / nodes exist and on their independent flag *)
  Definition extends (s s' : state) : Prop :=
    (forall k l, lookup (s_leaves s) k = Some l ->
                 exists l', lookup (s_leaves s') k = Some l' /\ l_indep l' = l_indep l) /\
    (forall k n, lookup (s_nodes s) k = Some n -> exists n', lookup (s_nodes s') k = Some n').

  Lemma extends_refl s : extends s s.
  Proof. split; intros; eauto. Qed.

  Lemma extends_trans s1 s2 s3 : extends s1 s2 -> extends s2 s3 -> extends s1 s3.
  Proof.
    intros [A1 A2] [B1 B2]. split.
    - intros k l H. destruct (A1 _ _ H) as [l' [H' E']]. destruct (B1 _ _ H') as [l'' [H'' E'']].
      exists l''; split; auto. congruence.
    - intros k n H. destruct (A2 _ _ H) as [n' H']. eauto.
  Qed.

  Lemma obj_wf_extends s s' o : extends s s' -> obj_wf s o -> obj_wf s' o.
  Proof.
    intros [E1 E2] [S1 [S2 [S3 [K1 [K2 K3]]]]]. repeat split; auto.
    - intros k Hk. destruct (K1 k Hk) as [l [Hl Hi]]. destruct (E1 _ _ Hl) as [l' [Hl' Hi']].
      exists l'; split; auto. congruence.
    - intros k Hk. destruct (K2 k Hk) as [l [Hl Hi]]. destruct (E1 _ _ Hl) as [l' [Hl' Hi']].
      exists l'; split; auto. congruence.
    - intros k Hk. destruct (K3 k Hk) as [n Hn]. eauto.
  Qed.

  Definition slots_wf (s : state) : Prop :=
    forall i o c, nth_error (s_slots s) i = Some (SReal o c) -> obj_wf s o.

  Lemma slots_wf_push s sl :
    slots_wf s -> (forall o c, sl = SReal o c -> obj_wf s o) -> slots_wf (push N s sl).
  Proof.
    intros H Hs i o c. unfold push; cbn [s_slots]. intros Hn.
    assert (E : forall ss, obj_wf (mkS (s_ctx s) (s_ne s) (s_ni s) (s_leaves s) (s_nodes s) (s_ens s) ss) o <-> obj_wf s o)
      by (intros; unfold obj_wf; cbn [s_leaves s_nodes]; tauto).
    apply E.
    destruct (Nat.lt_ge_cases i (length (s_slots s))) as [Hlt|Hge].
    - rewrite nth_error_app1 in Hn by exact Hlt. eapply H; eauto.
    - rewrite nth_error_app2 in Hn by exact Hge.
      destruct (i - length (s_slots s)) as [|j]; simpl in Hn; [|destruct j; discriminate].
      injection Hn as Hn. eapply Hs; eauto.
  Qed.

  (* ---------- states that differ only in slots / caches ---------- *)
  Definition same_tables (s s' : state) : Prop :=
    s_ctx s' = s_ctx s /\ s_ne s' = s_ne s /\ s_ni s' = s_ni s /\
    s_leaves s' = s_leaves s /\ s_nodes s' = s_nodes s.

  Lemma leaves_wf_same s s' : same_tables s s' -> leaves_wf s -> leaves_wf s'.
  Proof. intros [E1 [E2 [E3 [E4 E5]]]]. unfold leaves_wf. rewrite E1, E2, E3, E4, E5. auto. Qed.

  Lemma obj_wf_same s s' o : same_tables s s' -> obj_wf s o -> obj_wf s' o.
  Proof. intros [E1 [E2 [E3 [E4 E5]]]]. unfold obj_wf. rewrite E4, E5. auto. Qed.

  Lemma Inv_push s sl : Inv s -> (forall o c, sl = SReal o c -> obj_wf s o) -> Inv (push N s sl).
  Proof.
    intros [L S] H. split.
    - eapply leaves_wf_same; [|exact L]. repeat split.
    - apply slots_wf_push; auto.
  Qed.

  Lemma Inv_fail s e : Inv s -> Inv (fst (fail N s e)).
  Proof. intros H. apply Inv_push; auto. intros o c E; discriminate. Qed.

  Lemma nth_set_nth' {A} (l : list A) : forall i j a,
    nth_error (set_nth l j a) i =
    if Nat.eqb i j then (match nth_error l i with Some _ => Some a | None => None end) else nth_error l i.
  Proof.
    induction l as [|x l IH]; intros i j a.
    - simpl. destruct (Nat.eqb i j); destruct i; reflexivity.
    - destruct j as [|j], i as [|i]; simpl; auto.
  Qed.

  Lemma Inv_set_cache s j o c c0 :
    nth_error (s_slots s) j = Some (SReal o c0) -> Inv s -> Inv (set_cache N s j o c).
  Proof.
    intros Hj [L S]. split.
    - eapply leaves_wf_same; [|exact L]. repeat split.
    - intros i o' c' Hn. unfold set_cache in Hn; cbn [s_slots] in Hn. rewrite nth_set_nth' in Hn.
      eapply obj_wf_same; [repeat split|].
      destruct (Nat.eqb i j) eqn:E.
      + apply Nat.eqb_eq in E; subst i. rewrite Hj in Hn. injection Hn as <- _. eapply S; eauto.
      + eapply S; eauto.
  Qed.

  Lemma get_real_slot' s i j o c :
    get_real N s i = Ok (j, o, c) -> nth_error (s_slots s) j = Some (SReal o c).
  Proof.
    unfold get_real. destruct (nth_error (s_slots s) (resolve N s i)) as [[o' c'| | | |]|] eqn:E;
      try discriminate. intros H; injection H as <- <- <-. exact E.
  Qed.

  Lemma Inv_get_real s i j o c : Inv s -> get_real N s i = Ok (j, o, c) -> obj_wf s o.
  Proof. intros [_ S] H. eapply S. eapply get_real_slot'; eauto. Qed.

  Lemma Inv_finish s v ia ib :
    Inv s -> (forall o, v = Ok (VObj o) -> obj_wf s o) -> Inv (fst (finish_opval N s v ia ib)).
  Proof.
    intros H Hv. unfold finish_opval. destruct v as [[o|[]|x|]|e]; cbn [fst]; apply Inv_push; auto;
      intros o' c' E; try discriminate. injection E as <- _. apply Hv; reflexivity.
  Qed.

  Lemma Inv_repr_effect s i : Inv s -> Inv (fst (repr_effect N s i)).
  Proof.
    intros H. unfold repr_effect. destruct (get_real N s i) as [[[j o] c]|e] eqn:Eg; [|exact H].
    pose proof (get_real_slot' _ _ _ _ _ Eg) as Hslot.
    destruct (prop_u N s o c) as [[u c1]|e]; [|exact H].
    assert (K1 : Inv (set_cache N s j o c1)) by (eapply Inv_set_cache; eauto).
    destruct (prop_df N (set_cache N s j o c1) o c1) as [[d c2]|e]; cbn [fst]; [|exact K1].
    eapply Inv_set_cache; [|exact K1].
    unfold set_cache; cbn [s_slots]. rewrite nth_set_nth', Nat.eqb_refl, Hslot. reflexivity.
  Qed.

  (* ---------- declarations ---------- *)
  Lemma fresh_leaf s : leaves_wf s -> lookup (s_leaves s) (s_ctx s, (s_ne s + 1)%Z) = None.
  Proof.
    intros [_ [R _]]. destruct (lookup (s_leaves s) (s_ctx s, (s_ne s + 1)%Z)) as [l|] eqn:E; auto.
    destruct (R _ _ E) as [_ H]. simpl in H. lia.
  Qed.

  Lemma fresh_node s : leaves_wf s -> lookup (s_nodes s) (s_ctx s, (s_ni s + 1)%Z) = None.
  Proof.
    intros [_ [_ [R _]]]. destruct (lookup (s_nodes s) (s_ctx s, (s_ni s + 1)%Z)) as [l|] eqn:E; auto.
    destruct (R _ _ E) as [_ H]. simpl in H. lia.
  Qed.

  Hypothesis eqb_one : eqb N (one N) (one N) = true.

  Lemma elementary_inv s x u df lb ind s' o :
    Inv s -> elementary N s x u df lb ind = Ok (s', o) ->
    Inv s' /\ obj_wf s' o /\ s_slots s' = s_slots s.
  Proof.
    intros [L S] H. unfold elementary in H.
    assert (Hgo : forall (Hb : True),
      let n := (s_ne s + 1)%Z in let k := (s_ctx s, n) in
      let lf := mkLeaf u df ind (if ind then [] else [(k, one N)]) (length (s_ens s)) None lb in
      let s1 := mkS (s_ctx s) n (s_ni s) (s_leaves s ++ [(k, lf)]) (s_nodes s) (s_ens s ++ [[]]) (s_slots s) in
      let o1 := if ind then mkU x [(k, u)] [] [] (LeafRef k) else mkU x [] [(k, u)] [] (LeafRef k) in
      Inv s1 /\ obj_wf s1 o1 /\ s_slots s1 = s_slots s).
    { intros _ n k lf s1 o1.
      pose proof (fresh_leaf s L) as Hfresh. fold n k in Hfresh.
      assert (Hlk : lookup (s_leaves s1) k = Some lf).
      { unfold s1; cbn [s_leaves]. rewrite lookup_app_none by exact Hfresh. rewrite keqb_refl. reflexivity. }
      assert (Hold : forall k0 l0, lookup (s_leaves s) k0 = Some l0 -> lookup (s_leaves s1) k0 = Some l0).
      { intros. unfold s1; cbn [s_leaves]. apply lookup_app_some; auto. }
      assert (Hinv : forall k0 l0, lookup (s_leaves s1) k0 = Some l0 ->
                                   (lookup (s_leaves s) k0 = Some l0) \/ (k0 = k /\ l0 = lf)).
      { intros k0 l0 H0. unfold s1 in H0; cbn [s_leaves] in H0.
        destruct (lookup (s_leaves s) k0) as [l1|] eqn:E0.
        - rewrite (lookup_app_some _ _ _ _ E0) in H0. left; congruence.
        - rewrite lookup_app_none in H0 by exact E0. destruct (keqb k0 k) eqn:Ek; [|discriminate].
          apply keqb_eq in Ek. right; split; congruence. }
      assert (Ext : extends s s1).
      { split; [intros k0 l0 H0; exists l0; split; auto | intros k0 n0 H0; exists n0; exact H0]. }
      destruct L as [[C0 C1] [R1 [R2 [D1 [D2 Sy]]]]].
      split; [split|split].
      - (* leaves_wf *)
        split; [|split; [|split; [|split; [|split]]]].
        + cbn [s_ne s_ni s1]. unfold n. lia.
        + intros k0 l0 H0. cbn [s_ctx s_ne s1].
          destruct (Hinv _ _ H0) as [Ho|[-> ->]].
          * destruct (R1 _ _ Ho) as [Hc [Hl Hu]]. repeat split; auto. unfold n; lia.
          * simpl. unfold n. repeat split; lia.
        + intros k0 n0 H0. cbn [s_ctx s_ni s1]. apply (R2 _ _ H0).
        + intros k0 l0 H0 Hi. destruct (Hinv _ _ H0) as [Ho|[-> ->]]; [apply (D1 _ _ Ho Hi)|].
          cbn [l_indep lf] in Hi. subst ind. cbn [l_corr lf]. exists (one N). split; [|exact eqb_one].
          unfold lookup; simpl. rewrite keqb_refl. reflexivity.
        + intros k0 l0 H0 Hi. destruct (Hinv _ _ H0) as [Ho|[-> ->]]; [apply (D2 _ _ Ho Hi)|].
          cbn [l_indep lf] in Hi. subst ind. reflexivity.
        + intros k0 l0 k' r H0 Hr. destruct (Hinv _ _ H0) as [Ho|[-> ->]].
          * destruct (Sy _ _ _ _ Ho Hr) as [l' [Hl' Hr']]. exists l'; split; auto.
          * cbn [l_corr lf] in Hr. destruct ind; [discriminate|].
            unfold lookup in Hr; simpl in Hr. destruct (keqb k' k) eqn:Ek; [|discriminate].
            apply keqb_eq in Ek; subst k'. exists lf; split; auto.
            cbn [l_corr lf]. unfold lookup; simpl. rewrite keqb_refl. exact Hr.
      - (* old slots *)
        intros i o0 c0 Hn. eapply obj_wf_extends; [exact Ext|]. eapply S; eauto.
      - (* the new object *)
        unfold o1. destruct ind; apply obj_wf_iff; cbn [uc dc ic]; unfold vec_ok, Pu, Pd, Pi; simpl;
          repeat split; auto; try contradiction;
          try (intros kk [<-|[]]; exists lf; split; auto).
      - reflexivity. }
    destruct df as [| |d]; try discriminate.
    - destruct (ltb N u (zero N)); [discriminate|]. injection H as <- <-. apply (Hgo I).
    - destruct (ltb N d (one N)); [discriminate|].
      destruct (ltb N u (zero N)); [discriminate|]. injection H as <- <-. apply (Hgo I).
  Qed.

  Lemma const_wf s x lb : obj_wf s (mk_constant N x lb).
  Proof. apply obj_wf_iff; simpl; repeat split; apply vec_ok_nil. Qed.

  Lemma ureal_decl_inv s x u df lb ind s' o :
    Inv s -> ureal_decl N s x u df lb ind = Ok (s', o) ->
    Inv s' /\ obj_wf s' o /\ s_slots s' = s_slots s.
  Proof.
    intros HI H. unfold ureal_decl in H.
    destruct (is_nan N x || is_inf N x); [discriminate|].
    destruct (ltb N u (zero N) || is_inf N u || is_nan N u); [discriminate|].
    destruct (match df with DFin d => ltb N d (one N) || is_nan N d | DNaN => true | DInf => false end); [discriminate|].
    destruct (eqb N u (zero N)).
    - injection H as <- <-. split; [exact HI|split; [apply const_wf|reflexivity]].
    - eapply elementary_inv; eauto.
  Qed.

  (* ---------- leaf updates that keep keys and the independent flag ---------- *)
  Lemma Inv_update_leaf s k l l' :
    Inv s -> lookup (s_leaves s) k = Some l -> l_indep l' = l_indep l -> l_corr l' = l_corr l ->
    Inv (set_leaves N s (assoc_set (s_leaves s) k l')).
  Proof.
    intros [[C0 [R1 [R2 [D1 [D2 Sy]]]]] S] Hl Hi Hc.
    assert (Hlk : forall k0 l0, lookup (assoc_set (s_leaves s) k l') k0 = Some l0 ->
                  (k0 = k /\ l0 = l') \/ (k0 <> k /\ lookup (s_leaves s) k0 = Some l0)).
    { intros k0 l0 H0. destruct (keqb k0 k) eqn:E.
      - apply keqb_eq in E; subst k0. rewrite lookup_set_same in H0. left; split; congruence.
      - rewrite lookup_set_other in H0 by exact E. right; split; auto.
        intros ->; rewrite keqb_refl in E; discriminate. }
    assert (Hfw : forall k0 l0, lookup (s_leaves s) k0 = Some l0 ->
                  exists l1, lookup (assoc_set (s_leaves s) k l') k0 = Some l1 /\ l_indep l1 = l_indep l0 /\ l_corr l1 = l_corr l0).
    { intros k0 l0 H0. destruct (keqb k0 k) eqn:E.
      - apply keqb_eq in E; subst k0. rewrite lookup_set_same. exists l'. repeat split; congruence.
      - rewrite lookup_set_other by exact E. exists l0; auto. }
    split.
    - unfold leaves_wf, set_leaves; cbn [s_ctx s_ne s_ni s_leaves s_nodes].
      split; [exact C0|]. split; [|split; [exact R2|split; [|split]]].
      + intros k0 l0 H0. destruct (Hlk _ _ H0) as [[-> ->]|[_ Ho]]; [apply (R1 _ _ Hl)|apply (R1 _ _ Ho)].
      + intros k0 l0 H0 Hi0. destruct (Hlk _ _ H0) as [[-> ->]|[_ Ho]].
        * rewrite Hc. apply (D1 _ _ Hl). congruence.
        * apply (D1 _ _ Ho Hi0).
      + intros k0 l0 H0 Hi0. destruct (Hlk _ _ H0) as [[-> ->]|[_ Ho]].
        * rewrite Hc. apply (D2 _ _ Hl). congruence.
        * apply (D2 _ _ Ho Hi0).
      + intros k0 l0 k' r H0 Hr.
        assert (Ho : exists lo, lookup (s_leaves s) k0 = Some lo /\ l_corr lo = l_corr l0).
        { destruct (Hlk _ _ H0) as [[-> ->]|[_ Ho]]; [exists l; auto | exists l0; auto]. }
        destruct Ho as [lo [Hlo Hco]]. rewrite <- Hco in Hr.
        destruct (Sy _ _ _ _ Hlo Hr) as [lp [Hlp Hrp]].
        destruct (Hfw _ _ Hlp) as [l1 [H1 [_ Hc1]]]. exists l1; split; auto. rewrite Hc1; exact Hrp.
    - intros i o c Hn. cbn [s_slots set_leaves] in Hn.
      eapply obj_wf_extends; [|eapply S; eauto].
      split; [|intros k0 n0 H0; exists n0; exact H0].
      intros k0 l0 H0. destruct (Hfw _ _ H0) as [l1 [H1 [Hi1 _]]]. exists l1; split; auto.
  Qed.

  (* ---------- set_correlation ---------- *)
  Lemma set_correlation_real_inv s r a b s' :
    Inv s -> set_correlation_real N s r a b = Ok s' -> Inv s'.
  Proof.
    intros HI H. unfold set_correlation_real in H.
    destruct (unode a) as [| |k1|]; try discriminate. destruct (unode b) as [| |k2|]; try discriminate.
    unfold leaf_of in H.
    destruct (assoc (s_leaves s) k1) as [l1|] eqn:E1; [|discriminate].
    destruct (assoc (s_leaves s) k2) as [l2|] eqn:E2; [|discriminate]. cbn [bind] in H.
    destruct (negb (l_indep l1) && negb (l_indep l2)) eqn:Edep; [|discriminate].
    apply andb_prop in Edep. destruct Edep as [Dp1 Dp2].
    apply negb_true_iff in Dp1. apply negb_true_iff in Dp2.
    destruct (keqb k1 k2 && negb (eqb N r (one N))) eqn:Esame; [discriminate|].
    destruct (negb (leb N (nabs N r) (one N))); [discriminate|].
    set (l1' := mkLeaf (l_u l1) (l_df l1) (l_indep l1) (assoc_set (l_corr l1) k2 r) (l_ens l1) (l_cplx l1) (l_label l1)) in *.
    set (ls1 := assoc_set (s_leaves s) k1 l1') in *.
    destruct (assoc ls1 k2) as [l2b|] eqn:E2b; [|discriminate]. cbn [bind] in H.
    injection H as <-.
    set (l2' := mkLeaf (l_u l2b) (l_df l2b) (l_indep l2b) (assoc_set (l_corr l2b) k1 r) (l_ens l2b) (l_cplx l2b) (l_label l2b)).
    destruct HI as [[C0 [R1 [R2 [D1 [D2 Sy]]]]] S].
    (* what the final table holds *)
    assert (F1 : forall k0, keqb k0 k1 = false -> keqb k0 k2 = false ->
                 lookup (assoc_set ls1 k2 l2') k0 = lookup (s_leaves s) k0).
    { intros k0 N1 N2. rewrite lookup_set_other by exact N2. unfold ls1. rewrite lookup_set_other by exact N1. reflexivity. }
    assert (Hl2b : (keqb k1 k2 = true -> l2b = l1') /\ (keqb k1 k2 = false -> l2b = l2)).
    { split; intros Ek.
      - apply keqb_eq in Ek; subst k2. unfold ls1 in E2b. change (lookup (assoc_set (s_leaves s) k1 l1') k1 = Some l2b) in E2b.
        rewrite lookup_set_same in E2b. congruence.
      - unfold ls1 in E2b. change (lookup (assoc_set (s_leaves s) k1 l1') k2 = Some l2b) in E2b.
        rewrite lookup_set_other in E2b by (rewrite keqb_sym'; exact Ek). change (lookup (s_leaves s) k2 = Some l2) in E2. congruence. }
    (* final leaf of each key, its flag and table *)
    assert (Fin : forall k0 lf0, lookup (assoc_set ls1 k2 l2') k0 = Some lf0 ->
              exists lo, lookup (s_leaves s) k0 = Some lo /\ l_indep lf0 = l_indep lo /\
                forall k' r', lookup (l_corr lf0) k' = Some r' ->
                  (lookup (l_corr lo) k' = Some r') \/ (r' = r /\ ((k0 = k1 /\ k' = k2) \/ (k0 = k2 /\ k' = k1)))).
    { intros k0 lf0 H0. destruct (keqb k0 k2) eqn:Ek2.
      - apply keqb_eq in Ek2; subst k0. rewrite lookup_set_same in H0. injection H0 as <-.
        destruct (keqb k1 k2) eqn:Ek.
        + destruct Hl2b as [Hb _]. specialize (Hb eq_refl). apply keqb_eq in Ek; subst k2.
          exists l1. split; [exact E1|]. subst l2b. split; [reflexivity|].
          intros k' r' Hr. cbn [l2' l_corr l1'] in Hr.
          destruct (keqb k' k1) eqn:Ek'.
          * apply keqb_eq in Ek'; subst k'. rewrite lookup_set_same in Hr. right; split; [congruence|auto].
          * rewrite !lookup_set_other in Hr by exact Ek'. left; exact Hr.
        + destruct Hl2b as [_ Hb]. specialize (Hb eq_refl). subst l2b.
          exists l2. split; [exact E2|]. split; [reflexivity|].
          intros k' r' Hr. cbn [l2' l_corr] in Hr.
          destruct (keqb k' k1) eqn:Ek'.
          * apply keqb_eq in Ek'; subst k'. rewrite lookup_set_same in Hr. right; split; [congruence|auto].
          * rewrite lookup_set_other in Hr by exact Ek'. left; exact Hr.
      - rewrite lookup_set_other in H0 by exact Ek2. unfold ls1 in H0.
        destruct (keqb k0 k1) eqn:Ek1.
        + apply keqb_eq in Ek1; subst k0. rewrite lookup_set_same in H0. injection H0 as <-.
          exists l1. split; [exact E1|]. split; [reflexivity|].
          intros k' r' Hr. cbn [l1' l_corr] in Hr.
          destruct (keqb k' k2) eqn:Ek'.
          * apply keqb_eq in Ek'; subst k'. rewrite lookup_set_same in Hr. right; split; [congruence|auto].
          * rewrite lookup_set_other in Hr by exact Ek'. left; exact Hr.
        + rewrite lookup_set_other in H0 by exact Ek1. exists lf0. split; [exact H0|]. split; [reflexivity|].
          intros; left; auto. }
    (* every old entry survives, and the two new entries are there *)
    assert (Fw : forall k0 lo, lookup (s_leaves s) k0 = Some lo ->
              exists lf0, lookup (assoc_set ls1 k2 l2') k0 = Some lf0 /\ l_indep lf0 = l_indep lo /\
                (forall k' r', lookup (l_corr lo) k' = Some r' ->
                   (k0 = k1 /\ k' = k2) \/ (k0 = k2 /\ k' = k1) \/ lookup (l_corr lf0) k' = Some r') /\
                ((k0 = k1 -> lookup (l_corr lf0) k2 = Some r) /\ (k0 = k2 -> lookup (l_corr lf0) k1 = Some r))).
    { intros k0 lo H0. destruct (keqb k0 k2) eqn:Ek2.
      - apply keqb_eq in Ek2; subst k0. rewrite lookup_set_same. exists l2'.
        destruct (keqb k1 k2) eqn:Ek.
        + destruct Hl2b as [Hb _]. specialize (Hb eq_refl). apply keqb_eq in Ek; subst k2 l2b.
          assert (lo = l1) by (change (lookup (s_leaves s) k1 = Some l1) in E1; congruence). subst lo.
          split; [reflexivity|]. split; [reflexivity|]. split.
          * intros k' r' Hr. destruct (keqb k' k1) eqn:Ek'.
            -- apply keqb_eq in Ek'; subst k'. left; auto.
            -- right; right. cbn [l2' l_corr l1']. rewrite !lookup_set_other by exact Ek'. exact Hr.
          * split; intros _; cbn [l2' l_corr]; apply lookup_set_same.
        + destruct Hl2b as [_ Hb]. specialize (Hb eq_refl). subst l2b.
          assert (lo = l2) by (change (lookup (s_leaves s) k2 = Some l2) in E2; congruence). subst lo.
          split; [reflexivity|]. split; [reflexivity|]. split.
          * intros k' r' Hr. destruct (keqb k' k1) eqn:Ek'.
            -- apply keqb_eq in Ek'; subst k'. right; left; auto.
            -- right; right. cbn [l2' l_corr]. rewrite lookup_set_other by exact Ek'. exact Hr.
          * split; [intros ->; rewrite keqb_refl in Ek; discriminate | intros _; cbn [l2' l_corr]; apply lookup_set_same].
      - rewrite lookup_set_other by exact Ek2. unfold ls1. destruct (keqb k0 k1) eqn:Ek1.
        + apply keqb_eq in Ek1; subst k0. rewrite lookup_set_same. exists l1'.
          assert (lo = l1) by (change (lookup (s_leaves s) k1 = Some l1) in E1; congruence). subst lo.
          split; [reflexivity|]. split; [reflexivity|]. split.
          * intros k' r' Hr. destruct (keqb k' k2) eqn:Ek'.
            -- apply keqb_eq in Ek'; subst k'. left; auto.
            -- right; right. cbn [l1' l_corr]. rewrite lookup_set_other by exact Ek'. exact Hr.
          * split; [intros _; cbn [l1' l_corr]; apply lookup_set_same | intros ->; rewrite keqb_refl in Ek2; discriminate].
        + rewrite lookup_set_other by exact Ek1. exists lo. split; [exact H0|]. split; [reflexivity|]. split.
          * intros; right; right; auto.
          * split; intros ->; [rewrite keqb_refl in Ek1 | rewrite keqb_refl in Ek2]; discriminate. }
    split.
    - unfold leaves_wf, set_leaves; cbn [s_ctx s_ne s_ni s_leaves s_nodes].
      split; [exact C0|]. split; [|split; [exact R2|split; [|split]]].
      + intros k0 lf0 H0. destruct (Fin _ _ H0) as [lo [Hlo _]]. apply (R1 _ _ Hlo).
      + (* diagonal *)
        intros k0 lf0 H0 Hi0. destruct (Fin _ _ H0) as [lo [Hlo [Hio _]]].
        destruct (D1 _ _ Hlo ltac:(congruence)) as [rd [Hrd Hone]].
        destruct (Fw _ _ Hlo) as [lf1 [H1 [_ [Hold Hnew]]]]. assert (lf1 = lf0) by congruence. subst lf1.
        destruct (Hold _ _ Hrd) as [[-> ->]|[[-> ->]|Hk]].
        * (* k1 = k2 on the diagonal: r must be 1 *)
          exists r. split; [apply (proj1 Hnew); reflexivity|].
          rewrite keqb_refl in Esame. cbn [andb] in Esame. apply negb_false_iff in Esame. exact Esame.
        * exists r. split; [apply (proj2 Hnew); reflexivity|].
          rewrite keqb_refl in Esame. cbn [andb] in Esame. apply negb_false_iff in Esame. exact Esame.
        * exists rd; auto.
      + (* independent leaves keep an empty table: the two updated leaves are dependent *)
        intros k0 lf0 H0 Hi0. destruct (Fin _ _ H0) as [lo [Hlo [Hio Hc]]].
        assert (Hlo_i : l_indep lo = true) by congruence.
        pose proof (D2 _ _ Hlo Hlo_i) as Hnil.
        destruct (l_corr lf0) as [|[k' r'] t] eqn:Ec; auto. exfalso.
        assert (Hr : lookup ((k', r') :: t) k' = Some r') by (unfold lookup; simpl; rewrite keqb_refl; reflexivity).
        destruct (Hc _ _ Hr) as [Ho|[_ [[-> _]|[-> _]]]].
        * rewrite Hnil in Ho. discriminate.
        * change (lookup (s_leaves s) k1 = Some l1) in E1. congruence.
        * change (lookup (s_leaves s) k2 = Some l2) in E2. congruence.
      + (* symmetry *)
        intros k0 lf0 k' r' H0 Hr. destruct (Fin _ _ H0) as [lo [Hlo [_ Hc]]].
        destruct (Hc _ _ Hr) as [Ho|[-> [[-> ->]|[-> ->]]]].
        * destruct (Sy _ _ _ _ Hlo Ho) as [lp [Hlp Hrp]].
          destruct (Fw _ _ Hlp) as [lf1 [H1 [_ [Hold Hnew]]]].
          destruct (Hold _ _ Hrp) as [[-> ->]|[[-> ->]|Hk]].
          -- (* the partner entry was overwritten by the new value: then so was ours *)
             destruct (Fw _ _ Hlo) as [lf2 [H2 [_ [_ Hnew2]]]]. assert (lf2 = lf0) by congruence. subst lf2.
             pose proof (proj2 Hnew2 eq_refl) as Hn. rewrite Hn in Hr. injection Hr as <-.
             exists lf1; split; auto. apply (proj1 Hnew); reflexivity.
          -- destruct (Fw _ _ Hlo) as [lf2 [H2 [_ [_ Hnew2]]]]. assert (lf2 = lf0) by congruence. subst lf2.
             pose proof (proj1 Hnew2 eq_refl) as Hn. rewrite Hn in Hr. injection Hr as <-.
             exists lf1; split; auto. apply (proj2 Hnew); reflexivity.
          -- exists lf1; split; auto.
        * change (lookup (s_leaves s) k2 = Some l2) in E2.
          destruct (Fw _ _ E2) as [lf1 [H1 [_ [_ Hnew]]]]. exists lf1; split; auto. apply (proj2 Hnew); reflexivity.
        * change (lookup (s_leaves s) k1 = Some l1) in E1.
          destruct (Fw _ _ E1) as [lf1 [H1 [_ [_ Hnew]]]]. exists lf1; split; auto. apply (proj1 Hnew); reflexivity.
    - intros i o c Hn. cbn [s_slots set_leaves] in Hn.
      eapply obj_wf_extends; [|eapply S; eauto].
      split; [|intros k0 n0 H0; exists n0; exact H0].
      intros k0 lo H0. destruct (Fw _ _ H0) as [lf1 [H1 [Hi1 _]]]. exists lf1; split; auto.
  Qed.

  Lemma set_correlation_inv s r a b s' : Inv s -> set_correlation N s r a b = Ok s' -> Inv s'.
  Proof.
    intros HI. unfold set_correlation. destruct (eqb N r (zero N)); [intros H; injection H as <-; exact HI|].
    destruct (unode a) as [|la|ka|ka] eqn:Ua; try discriminate;
      destruct (unode b) as [|lb|kb|kb] eqn:Ub; try discriminate;
      (destruct (node_df N s a) as [d1|]; [|discriminate]); cbn [bind];
      (destruct (if df_is_inf N d1 then (d2 <- node_df N s b;; Ok (df_is_inf N d2)) else Ok false) as [bi|]; [|discriminate]);
      cbn [bind]; (destruct bi; [apply set_correlation_real_inv; exact HI|]); try discriminate;
      (destruct (leaf_of N s ka) as [l1|]; [|discriminate]); cbn [bind];
      (destruct (l_indep l1); [discriminate|]); try discriminate;
      (destruct (kmem kb (ens_of N s l1)); [apply set_correlation_real_inv; exact HI|discriminate]).
  Qed.

  (* ---------- ensembles ---------- *)
  Lemma set_leaf_ens_inv s k e : Inv s -> Inv (set_leaf_ens N s k e).
  Proof.
    intros HI. unfold set_leaf_ens. destruct (assoc (s_leaves s) k) as [l|] eqn:E; [|exact HI].
    apply (Inv_update_leaf s k l); auto.
  Qed.

  Lemma Inv_same_all s s' :
    same_tables s s' -> s_slots s' = s_slots s -> Inv s -> Inv s'.
  Proof.
    intros T E [L S]. split; [eapply leaves_wf_same; eauto|].
    intros i o c Hn. rewrite E in Hn. eapply obj_wf_same; eauto.
  Qed.

  Lemma real_ensemble_inv s os : Inv s -> Inv (real_ensemble N s os).
  Proof.
    intros HI. unfold real_ensemble.
    set (ks := fold_left _ os []). set (s1 := mkS _ _ _ _ _ _ _).
    assert (H1 : Inv s1) by (eapply Inv_same_all; [| |exact HI]; [repeat split|reflexivity]).
    revert H1. generalize s1. clear s1.
    induction ks as [|k ks IH]; intros s1 H1; simpl; auto.
    apply IH. apply set_leaf_ens_inv. exact H1.
  Qed.

  Lemma multiple_decl_inv xs : forall s us df acc s' os,
    Inv s -> (forall o, In o acc -> obj_wf s o) ->
    multiple_decl N s xs us df acc = Ok (s', os) ->
    Inv s' /\ (forall o, In o os -> obj_wf s' o) /\ s_slots s' = s_slots s.
  Proof.
    induction xs as [|x xs IH]; intros s us df acc s' os HI Hacc; destruct us as [|u us]; simpl; try discriminate.
    - intros H; injection H as <- <-. split; [exact HI|split; [|reflexivity]].
      intros o Ho. apply Hacc. apply in_rev. exact Ho.
    - destruct (ureal_decl N s x u df None false) as [[s1 o1]|] eqn:E; [|discriminate]. cbn [bind].
      destruct (ureal_decl_inv _ _ _ _ _ _ _ _ HI E) as [HI1 [Ho1 Hs1]].
      intros H.
      assert (Hacc1 : forall o, In o (o1 :: acc) -> obj_wf s1 o).
      { intros o [<-|Ho]; auto.
        (* objects well formed in s stay so in s1: s1 extends s *)
        eapply obj_wf_extends; [|apply Hacc; exact Ho].
        unfold ureal_decl in E.
        destruct (is_nan N x || is_inf N x); [discriminate|].
        destruct (ltb N u (zero N) || is_inf N u || is_nan N u); [discriminate|].
        destruct (match df with DFin d => ltb N d (one N) || is_nan N d | DNaN => true | DInf => false end); [discriminate|].
        destruct (eqb N u (zero N)); [injection E as <- _; apply extends_refl|].
        unfold elementary in E.
        assert (G : forall sx, sx = mkS (s_ctx s) (s_ne s + 1)%Z (s_ni s)
                     (s_leaves s ++ [((s_ctx s, (s_ne s + 1)%Z),
                        mkLeaf u df false (if false then [] else [((s_ctx s, (s_ne s + 1)%Z), one N)]) (length (s_ens s)) None None)])
                     (s_nodes s) (s_ens s ++ [[]]) (s_slots s) -> extends s sx).
        { intros sx ->. split; cbn [s_leaves s_nodes].
          - intros k0 l0 H0. exists l0; split; auto. apply lookup_app_some; exact H0.
          - intros k0 n0 H0. exists n0; exact H0. }
        destruct df as [| |d]; try discriminate.
        * destruct (ltb N u (zero N)); [discriminate|]. injection E as <- _. apply G; reflexivity.
        * destruct (ltb N d (one N)); [discriminate|]. destruct (ltb N u (zero N)); [discriminate|].
          injection E as <- _. apply G; reflexivity. }
      destruct (IH s1 us df (o1 :: acc) s' os HI1 Hacc1 H) as [A [B C]].
      split; [exact A|split; [exact B|congruence]].
  Qed.

  Lemma fold_push_inv os : forall s,
    Inv s -> (forall o, In o os -> obj_wf s o) ->
    Inv (fold_left (fun st ob => push N st (SReal ob None)) os s).
  Proof.
    induction os as [|o os IH]; intros s HI Hos; simpl; [exact HI|].
    apply IH.
    - apply Inv_push; auto. intros o' c' E; injection E as <- _. apply Hos; left; reflexivity.
    - intros o' Ho'. eapply obj_wf_same; [|apply Hos; right; exact Ho']. repeat split.
  Qed.

  Lemma decl_prefix_inv xs : forall s us df,
    Inv s ->
    Inv ((fix go (st : state) (xs us : list V) : state :=
            match xs, us with
            | x :: xs', u :: us' =>
                match ureal_decl N st x u df None false with
                | Ok (st', _) => go st' xs' us'
                | Err _ => st
                end
            | _, _ => st
            end) s xs us).
  Proof.
    induction xs as [|x xs IH]; intros s us df HI; destruct us as [|u us]; simpl; auto.
    destruct (ureal_decl N s x u df None false) as [[s1 o1]|] eqn:E; auto.
    apply IH. eapply ureal_decl_inv; eauto.
  Qed.

  Lemma real_ensemble_extends s os : extends s (real_ensemble N s os).
  Proof.
    unfold real_ensemble.
    set (ks := fold_left _ os []). set (s1 := mkS _ _ _ _ _ _ _).
    assert (H1 : extends s s1) by (split; intros; eauto).
    revert H1. generalize s1. clear s1.
    induction ks as [|k ks IH]; intros s1 H1; simpl; auto.
    apply IH. eapply extends_trans; [exact H1|].
    unfold set_leaf_ens. destruct (assoc (s_leaves s1) k) as [l|] eqn:E; [|apply extends_refl].
    split; [|intros k0 n0 H0; exists n0; exact H0].
    intros k0 l0 H0. cbn [set_leaves s_leaves]. destruct (keqb k0 k) eqn:Ek.
    - apply keqb_eq in Ek; subst k0. rewrite lookup_set_same. eexists; split; [reflexivity|].
      change (lookup (s_leaves s1) k = Some l) in E. cbn [l_indep]. congruence.
    - rewrite lookup_set_other by exact Ek. exists l0; auto.
  Qed.

  (* ---------- the theorem: every operation preserves the invariant ---------- *)
  Theorem step_preserves_Inv s o : Inv s -> Inv (fst (step N s o)).
  Proof.
    intros HI. destruct o; cbn [step].
    - (* OpUreal *)
      destruct (ureal_decl N s x u df label indep) as [[s' obj]|e] eqn:E; cbn [fst]; [|apply Inv_fail; exact HI].
      destruct (ureal_decl_inv _ _ _ _ _ _ _ _ HI E) as [HI' [Ho _]].
      apply Inv_push; auto. intros o' c' E'; injection E' as <- _. exact Ho.
    - (* OpConstant *)
      cbn [fst]. apply Inv_push; auto. intros o' c' E'; injection E' as <- _. apply const_wf.
    - (* OpMultiple *)
      destruct (negb (Nat.eqb (length xs) (length us))); [apply Inv_fail; exact HI|].
      destruct (multiple_decl N s xs us df []) as [[s' objs]|e] eqn:E; cbn [fst].
      + destruct (multiple_decl_inv xs s us df [] s' objs HI ltac:(intros o []) E) as [HI' [Hos _]].
        apply fold_push_inv; [apply real_ensemble_inv; exact HI'|].
        intros o Ho. eapply obj_wf_extends; [apply real_ensemble_extends|]. apply Hos; exact Ho.
      + apply Inv_push; [apply decl_prefix_inv; exact HI|]. intros o' c' E'; discriminate.
    - (* OpUn *)
      destruct (get_real N s a) as [[[ja oa] c]|e] eqn:Eg; [|apply Inv_fail; exact HI].
      apply Inv_finish; auto. intros o Ho. unfold apply_un in Ho.
      destruct (g_unop N f (ux oa)) as [r|]; [|discriminate]. cbn [bind] in Ho.
      pose proof (Inv_get_real _ _ _ _ _ HI Eg) as Wa. eapply realize_wf; eauto.
    - (* OpBin *)
      destruct a as [a|va], b as [b|vb].
      + destruct (get_real N s a) as [[[ja oa] c]|e] eqn:Ea, (get_real N s b) as [[[jb ob] c']|e'] eqn:Eb;
          try (apply Inv_fail; exact HI).
        apply Inv_finish; auto. intros o Ho. cbn [apply_bin] in Ho.
        destruct (g_bin_uu N f (ux oa) (ux ob)) as [r|]; [|discriminate]. cbn [bind] in Ho.
        exact (realize_wf s r oa ob o (Inv_get_real _ _ _ _ _ HI Ea) (Inv_get_real _ _ _ _ _ HI Eb) Ho).
      + destruct (get_real N s a) as [[[ja oa] c]|e] eqn:Ea; [|apply Inv_fail; exact HI].
        apply Inv_finish; auto. intros o Ho. cbn [apply_bin] in Ho.
        destruct (g_bin_un N f (ux oa) vb) as [r|]; [|discriminate]. cbn [bind] in Ho.
        exact (realize_wf s r oa oa o (Inv_get_real _ _ _ _ _ HI Ea) (Inv_get_real _ _ _ _ _ HI Ea) Ho).
      + destruct (get_real N s b) as [[[jb ob] c]|e] eqn:Eb; [|apply Inv_fail; exact HI].
        apply Inv_finish; auto. intros o Ho. cbn [apply_bin] in Ho.
        destruct (g_bin_nu N f va (ux ob)) as [r|]; [|discriminate]. cbn [bind] in Ho.
        exact (realize_wf s r ob ob o (Inv_get_real _ _ _ _ _ HI Eb) (Inv_get_real _ _ _ _ _ HI Eb) Ho).
      + apply Inv_fail; exact HI.
    - (* OpResult *)
      destruct (get_real N s a) as [[[ja oa] c]|e] eqn:Eg; [|apply Inv_fail; exact HI].
      pose proof (get_real_slot' _ _ _ _ _ Eg) as Hslot.
      pose proof (Inv_get_real _ _ _ _ _ HI Eg) as Wa.
      assert (Hdecl : forall (Hn : True),
        Inv (fst (let n := (s_ni s + 1)%Z in
                  let k := (s_ctx s, n) in
                  let s1 := mkS (s_ctx s) (s_ne s) n (s_leaves s) (s_nodes s) (s_ens s) (s_slots s) in
                  match prop_u N s1 oa c with
                  | Err e => fail N s1 e
                  | Ok (u, c1) =>
                      let s2 := set_cache N s1 ja oa c1 in
                      match prop_df N s2 oa c1 with
                      | Err e => fail N s2 e
                      | Ok (d, c2) =>
                          let s3 := set_cache N s2 ja oa c2 in
                          let s4 := mkS (s_ctx s3) (s_ne s3) (s_ni s3) (s_leaves s3)
                                        (s_nodes s3 ++ [(k, mkNode u d label)]) (s_ens s3) (s_slots s3) in
                          let obj := mkU (ux oa) (uc oa) (dc oa) (merge (ic oa) [(k, u)]) (NodeRef k) in
                          (push N s4 (SReal obj None), dump N obj)
                      end
                  end))).
      { intros _. cbv zeta.
        set (n := (s_ni s + 1)%Z). set (k := (s_ctx s, n)).
        set (s1 := mkS (s_ctx s) (s_ne s) n (s_leaves s) (s_nodes s) (s_ens s) (s_slots s)).
        pose proof (fresh_node s (proj1 HI)) as Hfresh. fold n k in Hfresh.
        (* s1: counter advanced; the bound on node keys is weakened *)
        assert (HI1 : Inv s1).
        { destruct HI as [[C0 [R1 [R2 [D1 [D2 Sy]]]]] S]. split.
          - unfold leaves_wf, s1; cbn [s_ctx s_ne s_ni s_leaves s_nodes].
            split; [unfold n; lia|]. split; [exact R1|]. split; [|split; [exact D1|split; [exact D2|exact Sy]]].
            intros k0 n0 H0. destruct (R2 _ _ H0) as [A [B C]]. repeat split; auto. unfold n; lia.
          - intros i o0 c0 Hn. eapply obj_wf_extends; [|eapply S; exact Hn]. split; intros; eauto. }
        destruct (prop_u N s1 oa c) as [[u c1]|e]; [|apply Inv_fail; exact HI1].
        assert (HI2 : Inv (set_cache N s1 ja oa c1)) by (eapply Inv_set_cache; [exact Hslot|exact HI1]).
        destruct (prop_df N (set_cache N s1 ja oa c1) oa c1) as [[d c2]|e]; [|apply Inv_fail; exact HI2].
        set (s2 := set_cache N s1 ja oa c1) in *.
        assert (Hs2 : nth_error (s_slots s2) ja = Some (SReal oa c1)).
        { unfold s2, set_cache; cbn [s_slots]. rewrite nth_set_nth', Nat.eqb_refl.
          change (s_slots s1) with (s_slots s). rewrite Hslot. reflexivity. }
        assert (HI3 : Inv (set_cache N s2 ja oa c2)) by (eapply Inv_set_cache; [exact Hs2|exact HI2]).
        set (s3 := set_cache N s2 ja oa c2) in *.
        set (s4 := mkS (s_ctx s3) (s_ne s3) (s_ni s3) (s_leaves s3) (s_nodes s3 ++ [(k, mkNode u d label)]) (s_ens s3) (s_slots s3)).
        assert (Hn3 : s_nodes s3 = s_nodes s) by reflexivity.
        assert (Ext : extends s3 s4).
        { split; [intros k0 l0 H0; exists l0; auto|]. intros k0 n0 H0. exists n0. unfold s4; cbn [s_nodes]. apply lookup_app_some; exact H0. }
        assert (HI4 : Inv s4).
        { destruct HI3 as [[C0 [R1 [R2 [D1 [D2 Sy]]]]] S]. split.
          - unfold leaves_wf, s4; cbn [s_ctx s_ne s_ni s_leaves s_nodes].
            split; [exact C0|]. split; [exact R1|]. split; [|split; [exact D1|split; [exact D2|exact Sy]]].
            intros k0 n0 H0. destruct (lookup (s_nodes s3) k0) as [n1|] eqn:E0.
            + rewrite (lookup_app_some _ _ _ _ E0) in H0. apply (R2 _ _ E0).
            + rewrite lookup_app_none in H0 by exact E0. destruct (keqb k0 k) eqn:Ek; [|discriminate].
              apply keqb_eq in Ek; subst k0. cbn [fst snd k]. change (s_ctx s3) with (s_ctx s). change (s_ni s3) with n.
              pose proof (proj2 (proj1 (proj1 HI))) as Hni0.
              repeat split; unfold n; lia.
          - intros i o0 c0 Hn. eapply obj_wf_extends; [exact Ext|]. eapply S. exact Hn. }
        cbn [fst]. apply Inv_push; [exact HI4|].
        intros o' c' E'; injection E' as <- _.
        apply obj_wf_iff in Wa. destruct Wa as [Wu [Wd Wi]].
        assert (ExtS : extends s s4).
        { split; [intros k0 l0 H0; exists l0; auto|]. intros k0 n0 H0. exists n0. unfold s4; cbn [s_nodes]. rewrite Hn3. apply lookup_app_some; exact H0. }
        apply obj_wf_iff; cbn [uc dc ic]. split; [|split].
        + exact Wu.
        + exact Wd.
        + apply vec_ok_mloop.
          * destruct Wi as [Si Ki]. split; auto. intros k0 Hk0. destruct (Ki k0 Hk0) as [n0 Hn0].
            exists n0. unfold s4; cbn [s_nodes]. rewrite Hn3. apply lookup_app_some; exact Hn0.
          * split; [simpl; split; auto; intros ? []|]. intros k0 [<-|[]].
            exists (mkNode u d label). unfold s4; cbn [s_nodes]. rewrite Hn3.
            rewrite lookup_app_none by exact Hfresh. rewrite keqb_refl. reflexivity. }
      destruct (unode oa) eqn:En.
      + apply (Hdecl I).
      + apply (Hdecl I).
      + (* elementary: label side effect *)
        cbn [fst]. apply Inv_push.
        * destruct label as [lb|]; [|exact HI].
          destruct (assoc (s_leaves s) k) as [l|] eqn:El; [|exact HI].
          destruct (l_label l); [exact HI|].
          apply (Inv_update_leaf s k l); auto.
        * intros o' c' E'; discriminate.
      + apply Inv_push; auto. intros o' c' E'; discriminate.
    - (* OpSetCorr *)
      destruct (get_real N s a) as [[[ja oa] c]|e], (get_real N s b) as [[[jb ob] c']|e'];
        try (apply Inv_fail; exact HI).
      destruct (set_correlation N s r oa ob) as [s'|e] eqn:E; cbn [fst].
      + apply Inv_push; [eapply set_correlation_inv; eauto|]. intros o' c'' E'; discriminate.
      + destruct e; try (apply Inv_fail; exact HI).
        pose proof (Inv_repr_effect s a HI) as K1.
        destruct (repr_effect N s a) as [s1 [e1|]] eqn:E1; cbn [fst] in K1.
        * apply Inv_fail; exact K1.
        * pose proof (Inv_repr_effect s1 b K1) as K2.
          destruct (repr_effect N s1 b) as [s2 [e2|]] eqn:E2; cbn [fst] in K2; apply Inv_fail; exact K2.
    - (* OpRead *)
      destruct at_.
      + destruct (get_real N s a) as [[[ja oa] c]|e]; [|apply Inv_fail; exact HI].
        apply Inv_push; auto. intros o' c' E'; discriminate.
      + destruct (get_real N s a) as [[[ja oa] c]|e] eqn:Eg; [|apply Inv_fail; exact HI].
        destruct (prop_u N s oa c) as [[u c1]|e]; [|apply Inv_fail; exact HI]. cbn [fst].
        apply Inv_push; [eapply Inv_set_cache; [eapply get_real_slot'; eauto|exact HI]|]. intros o' c' E'; discriminate.
      + destruct (get_real N s a) as [[[ja oa] c]|e] eqn:Eg; [|apply Inv_fail; exact HI].
        destruct (prop_v N s oa c) as [[u c1]|e]; [|apply Inv_fail; exact HI]. cbn [fst].
        apply Inv_push; [eapply Inv_set_cache; [eapply get_real_slot'; eauto|exact HI]|]. intros o' c' E'; discriminate.
      + destruct (get_real N s a) as [[[ja oa] c]|e] eqn:Eg; [|apply Inv_fail; exact HI].
        destruct (prop_df N s oa c) as [[u c1]|e]; [|apply Inv_fail; exact HI]. cbn [fst].
        apply Inv_push; [eapply Inv_set_cache; [eapply get_real_slot'; eauto|exact HI]|]. intros o' c' E'; discriminate.
    - (* OpSens *)
      destruct (get_real N s y) as [[[jy oy] c]|e], (get_real N s x) as [[[jx ox] c']|e']; try (apply Inv_fail; exact HI).
      destruct (sensitivity N s oy ox) as [v|e]; [apply Inv_push; auto; intros o' c'' E'; discriminate|].
      destruct e; try (apply Inv_fail; exact HI).
      pose proof (Inv_repr_effect s x HI) as K1.
      destruct (repr_effect N s x) as [s1 [e1|]]; cbn [fst] in K1; apply Inv_fail; exact K1.
    - destruct (get_real N s y) as [[[jy oy] c]|e], (get_real N s x) as [[[jx ox] c']|e']; try (apply Inv_fail; exact HI).
      destruct (u_component N s oy ox); [apply Inv_push; auto; intros o' c'' E'; discriminate|apply Inv_fail; exact HI].
    - destruct (get_real N s a) as [[[ja oa] c]|e], (get_real N s b) as [[[jb ob] c']|e']; try (apply Inv_fail; exact HI).
      destruct (get_covariance_real N s oa ob); [apply Inv_push; auto; intros o' c'' E'; discriminate|apply Inv_fail; exact HI].
    - destruct (get_real N s a) as [[[ja oa] c]|e], (get_real N s b) as [[[jb ob] c']|e']; try (apply Inv_fail; exact HI).
      destruct (get_correlation_real N s oa ob); [apply Inv_push; auto; intros o' c'' E'; discriminate|apply Inv_fail; exact HI].
  Qed.

  Lemma Inv_init ctx : Inv (init N ctx).
  Proof.
    split.
    - unfold leaves_wf, init; cbn. repeat split; try lia; intros; discriminate.
    - intros i o c H. unfold init in H; cbn in H. destruct i; discriminate.
  Qed.

  (* every reachable state *)
  Theorem run_preserves_Inv p : forall s, Inv s -> Inv (fst (run N s p)).
  Proof.
    induction p as [|o p IH]; intros s HI; cbn [run]; [exact HI|].
    destruct (step N s o) as [s1 r] eqn:E1. destruct (run N s1 p) as [s2 rs] eqn:E2. cbn [fst].
    pose proof (step_preserves_Inv s o HI) as H1. rewrite E1 in H1.
    pose proof (IH s1 H1) as H2. rewrite E2 in H2. exact H2.
  Qed.

  Theorem reachable_Inv ctx p : Inv (fst (run N (init N ctx) p)).
  Proof. apply run_preserves_Inv. apply Inv_init. Qed.
End Invariant.

(* Kernel.v -- executable model of the uncertain-real kernel of GTC:
   lib.py (UncertainReal: constructors, operators via the GENERATED formulas of
   gen/Gen_lib_real.v, reads u/v/df, sensitivity, u_component, correlation, variance,
   covariance, Welch-Satterthwaite, _intermediate), context.py (uid counters, registries),
   core.py (ureal, constant, multiple_ureal, result, set_correlation, get_correlation,
   get_covariance) as a state machine  step : state -> op -> state * out.
   Definitions only (so the model still runs when a proof breaks). *)
From Coq Require Import ZArith List Bool.
From GTCV Require Import Num Vector Opres KTypes.
From GTCV.gen Require Import Gen_lib_real.
Import ListNotations.

Section Kernel.
  Variable N : Num.
  Notation V := (T N).
  Notation vec := (vec N).
  Notation dfval := (dfval V). Notation ureal := (ureal V). Notation leaf := (leaf V).
  Notation inode := (inode V). Notation slot := (slot V). Notation state := (state V).
  Notation out := (out V). Notation opval := (opval V). Notation arg := (arg V). Notation op := (op V).

  Definition init (ctx : Z) : state := mkS ctx 0 0 [] [] [] [].

  (* ---------- small utilities ---------- *)
  Fixpoint assoc {A} (l : list (key * A)) (k : key) : option A :=
    match l with
    | [] => None
    | (k', a) :: l' => if keqb k k' then Some a else assoc l' k
    end.

  Fixpoint assoc_set {A} (l : list (key * A)) (k : key) (a : A) : list (key * A) :=
    match l with
    | [] => [(k, a)]
    | (k', a') :: l' => if keqb k k' then (k, a) :: l' else (k', a') :: assoc_set l' k a
    end.

  Fixpoint set_nth {A} (l : list A) (i : nat) (a : A) : list A :=
    match l, i with
    | [], _ => []
    | _ :: l', O => a :: l'
    | x :: l', S i' => x :: set_nth l' i' a
    end.

  Fixpoint kmem (k : key) (l : list key) : bool :=
    match l with [] => false | k' :: l' => keqb k k' || kmem k l' end.

  Fixpoint kinsert (k : key) (l : list key) : list key :=
    match l with
    | [] => [k]
    | k' :: l' => match kcmp k k' with
                  | Lt => k :: l
                  | Eq => l
                  | Gt => k' :: kinsert k l'
                  end
    end.

  Fixpoint klist_eqb (a b : list key) : bool :=
    match a, b with
    | [], [] => true
    | x :: a', y :: b' => keqb x y && klist_eqb a' b'
    | _, _ => false
    end.

  Definition zero : V := of_Z N 0.
  Definition one : V := of_Z N 1.
  Definition two : V := of_Z N 2.

  (* resolve aliases: the Python object denoted by slot i (fuel = number of slots) *)
  Fixpoint resolve_aux (fuel : nat) (sl : list slot) (i : nat) : nat :=
    match fuel with
    | O => i
    | S f => match nth_error sl i with
             | Some (SAlias j) => resolve_aux f sl j
             | _ => i
             end
    end.
  Definition resolve (s : state) (i : nat) : nat := resolve_aux (length (s_slots s)) (s_slots s) i.

  Definition get_real (s : state) (i : nat) : res (nat * ureal * option V) :=
    let j := resolve s i in
    match nth_error (s_slots s) j with
    | Some (SReal o c) => Ok (j, o, c)
    | _ => Err TypeError
    end.

  Definition leaf_of (s : state) (k : key) : res leaf :=
    match assoc (s_leaves s) k with Some l => Ok l | None => Err KeyError end.
  Definition node_of (s : state) (k : key) : res inode :=
    match assoc (s_nodes s) k with Some n => Ok n | None => Err KeyError end.

  Definition is_elementary (o : ureal) : bool :=
    match unode o with LeafRef _ => true | _ => false end.
  Definition is_intermediate (o : ureal) : bool :=
    match unode o with NodeRef _ => true | _ => false end.
  (* lib._is_uncertain_real_constant: no independent and no dependent components *)
  Definition is_constant (o : ureal) : bool :=
    match uc o, dc o with [], [] => true | _, _ => false end.

  Definition nkind_of (o : ureal) : nkind :=
    match unode o with
    | NoNode => KPlain | ConstLeaf _ => KConst | LeafRef k => KElem k | NodeRef k => KInterm k
    end.
  Definition dump (o : ureal) : out := OutObj (ux o) (uc o) (dc o) (ic o) (nkind_of o).

  Definition push (s : state) (sl : slot) : state :=
    mkS (s_ctx s) (s_ne s) (s_ni s) (s_leaves s) (s_nodes s) (s_ens s) (s_slots s ++ [sl]).
  Definition set_cache (s : state) (j : nat) (o : ureal) (c : option V) : state :=
    mkS (s_ctx s) (s_ne s) (s_ni s) (s_leaves s) (s_nodes s) (s_ens s)
        (set_nth (s_slots s) j (SReal o c)).
  Definition set_leaves (s : state) (ls : list (key * leaf)) : state :=
    mkS (s_ctx s) (s_ne s) (s_ni s) ls (s_nodes s) (s_ens s) (s_slots s).

  (* ---------- lib.py: variance, covariance ---------- *)
  Definition corr_get (l : leaf) (k : key) : V :=
    match assoc (l_corr l) k with Some r => r | None => zero end.

  (* std_variance_real *)
  Fixpoint var_dep (s : state) (d : vec) (var : V) : res V :=
    match d with
    | [] => Ok var
    | (k_i, u_i) :: rest =>
        l_i <- leaf_of s k_i ;;
        let var1 := add N var (mul N u_i u_i) in
        f <- fsum N (map (fun kv => mul N (mul N (mul N two u_i) (corr_get l_i (fst kv))) (snd kv)) rest) ;;
        var_dep s rest (add N var1 f)
    end.

  Definition std_variance_real (s : state) (o : ureal) : res V :=
    v0 <- (match uc o with
           | [] => Ok zero
           | _ => f <- fsum N (map (fun kv => mul N (snd kv) (snd kv)) (uc o)) ;; Ok (add N zero f)
           end) ;;
    var_dep s (dc o) v0.

  (* Vector.get(node, 0.0) *)
  Definition vget (v : vec) (k : key) : V :=
    match get v k with Some x => x | None => zero end.

  (* std_covariance_real *)
  Fixpoint cov_dep (s : state) (d1 d2 : vec) (cv : V) : res V :=
    match d1 with
    | [] => Ok cv
    | (k1, u1) :: rest =>
        l1 <- leaf_of s k1 ;;
        f <- fsum N (map (fun kv => mul N (mul N u1 (corr_get l1 (fst kv))) (snd kv)) d2) ;;
        cov_dep s rest d2 (add N cv f)
    end.

  Definition std_covariance_real (s : state) (o1 o2 : ureal) : res V :=
    f <- fsum N (map (fun kv => mul N (snd kv) (vget (uc o2) (fst kv))) (uc o1)) ;;
    cov_dep s (dc o1) (dc o2) (add N zero f).

  (* the u and v properties; return the value and the new cache *)
  Definition node_u (s : state) (o : ureal) : res (option V) :=
    match unode o with
    | LeafRef k => l <- leaf_of s k ;; Ok (Some (l_u l))
    | NodeRef k => n <- node_of s k ;; Ok (Some (n_u n))
    | ConstLeaf _ => Ok None      (* Leaf(uid=None): is_elementary is False *)
    | NoNode => Ok None
    end.

  Definition prop_u (s : state) (o : ureal) (c : option V) : res (V * option V) :=
    nu <- node_u s o ;;
    match nu with
    | Some u => Ok (u, c)
    | None =>
        match c with
        | Some u => Ok (u, c)
        | None => v <- std_variance_real s o ;; u <- libm1 N F_sqrt v ;; Ok (u, Some u)
        end
    end.

  Definition prop_v (s : state) (o : ureal) (c : option V) : res (V * option V) :=
    nu <- node_u s o ;;
    match nu with
    | Some u => Ok (mul N u u, c)
    | None =>
        match c with
        | Some u => Ok (mul N u u, c)
        | None => v <- std_variance_real s o ;; u <- libm1 N F_sqrt v ;; Ok (v, Some u)
        end
    end.

  (* ---------- welch_satterthwaite ---------- *)
  Definition df_is_inf (d : dfval) : bool := match d with DInf => true | _ => false end.

  Definition ens_of (s : state) (l : leaf) : list key := nth (l_ens l) (s_ens s) [].

  (* cpts_map : insertion-ordered association list  ensemble content -> (sum, df) *)
  Definition cmap := list (list key * (V * dfval)).
  Fixpoint cmap_mem (m : cmap) (e : list key) : bool :=
    match m with [] => false | (e', _) :: m' => klist_eqb e e' || cmap_mem m' e end.
  Fixpoint cmap_add (m : cmap) (e : list key) (x : V) : cmap :=
    match m with
    | [] => []
    | (e', (v, d)) :: m' => if klist_eqb e e' then (e', (add N v x, d)) :: m'
                            else (e', (v, d)) :: cmap_add m' e x
    end.

  (* cpts_lst / dof_lst are kept reversed: the head is the *last* element *)
  Definition clist := list (V * dfval).
  Definition clist_add_last (c : clist) (x : V) : res clist :=
    match c with
    | [] => Err IndexError
    | (v, d) :: c' => Ok ((add N v x, d) :: c')
    end.

  Definition pair_eqb (a : key * key) (b : option (key * key)) : bool :=
    match b with
    | Some (b1, b2) => keqb (fst a) b1 && keqb (snd a) b2
    | None => false
    end.

  Record wsacc := mkW { w_var : V; w_lst : clist; w_map : cmap; w_fin : bool }.

  (* inner loop over j > i *)
  Fixpoint ws_inner (s : state) (k_i : key) (l_i : leaf) (u_i : V) (ens_i : list key)
           (rest : vec) (a : wsacc) : res wsacc :=
    match rest with
    | [] => Ok a
    | (k_j, u_j) :: rest' =>
        match assoc (l_corr l_i) k_j with
        | None => ws_inner s k_i l_i u_i ens_i rest' a
        | Some r =>
            l_j <- leaf_of s k_j ;;
            let covar := mul N (mul N (mul N two u_i) r) u_j in
            let var' := add N (w_var a) covar in
            if df_is_inf (l_df l_i) && df_is_inf (l_df l_j) then
              ws_inner s k_i l_i u_i ens_i rest' (mkW var' (w_lst a) (w_map a) (w_fin a))
            else if kmem k_j ens_i then
              (if cmap_mem (w_map a) ens_i then
                 ws_inner s k_i l_i u_i ens_i rest'
                          (mkW var' (w_lst a) (cmap_add (w_map a) ens_i covar) (w_fin a))
               else Err KeyError)
            else if pair_eqb (k_i, k_j) (l_cplx l_i) then
              lst' <- clist_add_last (w_lst a) covar ;;
              ws_inner s k_i l_i u_i ens_i rest' (mkW var' lst' (w_map a) (w_fin a))
            else Err AssertionError
        end
    end.

  (* one element of the dependent vector; [last] = it is d_keys[-1] *)
  Definition ws_elem (s : state) (k_i : key) (u_i : V) (rest : vec) (a : wsacc) : res wsacc :=
    l_i <- leaf_of s k_i ;;
    let v_i := mul N u_i u_i in
    let var1 := add N (w_var a) v_i in
    let df_i := l_df l_i in
    let ens_i := ens_of s l_i in
    match rest with
    | [] =>
        (* the epilogue for the last element *)
        if cmap_mem (w_map a) ens_i then
          Ok (mkW var1 (w_lst a) (cmap_add (w_map a) ens_i v_i) (w_fin a))
        else if w_fin a then
          lst' <- clist_add_last (w_lst a) v_i ;; Ok (mkW var1 lst' (w_map a) (w_fin a))
        else Ok (mkW var1 ((v_i, df_i) :: w_lst a) (w_map a) (w_fin a))
    | (k_next, _) :: _ =>
        let map1 := match ens_i with
                    | [] => w_map a
                    | _ => if cmap_mem (w_map a) ens_i then w_map a
                           else w_map a ++ [(ens_i, (zero, df_i))]
                    end in
        '(lst2, map2) <- (if cmap_mem map1 ens_i then Ok (w_lst a, cmap_add map1 ens_i v_i)
                          else if w_fin a then lst' <- clist_add_last (w_lst a) v_i ;; Ok (lst', map1)
                          else Ok ((v_i, df_i) :: w_lst a, map1)) ;;
        let fin' := pair_eqb (k_i, k_next) (l_cplx l_i) in
        ws_inner s k_i l_i u_i ens_i rest (mkW var1 lst2 map2 fin')
    end.

  Fixpoint ws_dep (s : state) (d : vec) (a : wsacc) : res wsacc :=
    match d with
    | [] => Ok a
    | (k_i, u_i) :: rest => a' <- ws_elem s k_i u_i rest a ;; ws_dep s rest a'
    end.

  Fixpoint ws_den (var : V) (l : clist) (den : V) : res V :=
    match l with
    | [] => Ok den
    | (v_i, d_i) :: l' =>
        match d_i with
        | DFin nu => u2 <- div N v_i var ;; q <- div N (mul N u2 u2) nu ;; ws_den var l' (add N den q)
        | _ => ws_den var l' den
        end
    end.

  Fixpoint all_inf (s : state) (v : vec) : res bool :=
    match v with
    | [] => Ok true
    | (k, _) :: v' => l <- leaf_of s k ;; b <- all_inf s v' ;; Ok (df_is_inf (l_df l) && b)
    end.

  Fixpoint ws_indep (s : state) (v : vec) (var : V) (lst : clist) : res (V * clist) :=
    match v with
    | [] => Ok (var, lst)
    | (k, u_i) :: v' =>
        l <- leaf_of s k ;;
        let v_i := mul N u_i u_i in
        ws_indep s v' (add N var v_i) ((v_i, l_df l) :: lst)
    end.

  (* returns (cv, df, cache') *)
  Definition welch_satterthwaite (s : state) (o : ureal) (c : option V)
    : res (V * dfval * option V) :=
    match unode o with
    | LeafRef k => l <- leaf_of s k ;; Ok (mul N (l_u l) (l_u l), l_df l, c)
    | _ =>
      if is_constant o then Ok (zero, DInf, c) else
        iu <- all_inf s (uc o) ;; id <- all_inf s (dc o) ;;
        if iu && id then
          '(v, c') <- prop_v s o c ;; Ok (v, DInf, c')
        else
          '(var0, lst0) <- ws_indep s (uc o) zero [] ;;
          a <- ws_dep s (dc o) (mkW var0 lst0 [] false) ;;
          let lst := rev (map snd (w_map a)) ++ w_lst a in   (* still reversed *)
          let var := w_var a in
          if eqb N var zero then Ok (var, DNaN, c)
          else
            den <- ws_den var (rev lst) zero ;;
            match div N one den with
            | Ok d => Ok (var, (if is_nan N d then DNaN else if is_inf N d then DInf else DFin d), c)
            | Err ZeroDivisionError => Ok (var, DInf, c)
            | Err e => Err e
            end
    end.

  (* the df property *)
  Definition prop_df (s : state) (o : ureal) (c : option V) : res (dfval * option V) :=
    match unode o with
    | LeafRef k => l <- leaf_of s k ;; Ok (l_df l, c)
    | NodeRef k => n <- node_of s k ;; Ok (n_df n, c)
    | _ =>
        '(cv, d, c1) <- welch_satterthwaite s o c ;;
        match c1 with
        | Some _ => Ok (d, c1)
        | None => u <- libm1 N F_sqrt cv ;; Ok (d, Some u)
        end
    end.

  (* ---------- sensitivity, u_component (UncertainReal arguments) ---------- *)
  Definition u_component (s : state) (y x : ureal) : res V :=
    match unode x with
    | LeafRef k => l <- leaf_of s k ;;
                   Ok (if l_indep l then vget (uc y) k else vget (dc y) k)
    | NodeRef k => Ok (vget (ic y) k)
    | _ => if is_constant x then Ok zero else Err RuntimeError
    end.

  Definition sensitivity (s : state) (y x : ureal) : res V :=
    match unode x with
    | LeafRef k => l <- leaf_of s k ;;
                   if ltb N zero (l_u l) then
                     div N (if l_indep l then vget (uc y) k else vget (dc y) k) (l_u l)
                   else Ok zero
    | NodeRef k => n <- node_of s k ;;
                   if ltb N zero (n_u n) then div N (vget (ic y) k) (n_u n) else Ok zero
    | _ => if is_constant x then Ok zero else Err RuntimeError
    end.

  (* ---------- correlation and covariance between two uncertain reals ---------- *)
  Definition get_correlation_real (s : state) (o1 o2 : ureal) : res V :=
    match unode o1, unode o2 with
    | LeafRef k1, LeafRef k2 =>
        if keqb k1 k2 then Ok one
        else l1 <- leaf_of s k1 ;;
             if l_indep l1 then Ok zero else Ok (corr_get l1 k2)
    | _, _ =>
        v1 <- std_variance_real s o1 ;; v2 <- std_variance_real s o2 ;;
        num <- std_covariance_real s o1 o2 ;;
        den <- libm1 N F_sqrt (mul N v1 v2) ;;
        if negb (eqb N num zero) then div N num den else Ok zero
    end.

  Definition get_covariance_real (s : state) (o1 o2 : ureal) : res V :=
    match unode o1, unode o2 with
    | LeafRef k1, LeafRef k2 =>
        l1 <- leaf_of s k1 ;;
        if keqb k1 k2 then libm2 N F_pow (l_u l1) two
        else if l_indep l1 then Ok zero
        else l2 <- leaf_of s k2 ;; Ok (mul N (mul N (l_u l1) (corr_get l1 k2)) (l_u l2))
    | _, _ => std_covariance_real s o1 o2
    end.

  (* core.set_correlation(r, a, b) for two uncertain reals -> UncertainReal.set_correlation
     -> set_correlation_real *)
  Definition node_df (s : state) (o : ureal) : res dfval :=
    match unode o with
    | NoNode => Err AttributeError                 (* None.df *)
    | ConstLeaf _ => Ok DInf
    | LeafRef k => l <- leaf_of s k ;; Ok (l_df l)
    | NodeRef k => n <- node_of s k ;; Ok (n_df n)
    end.

  Definition set_correlation_real (s : state) (r : V) (o1 o2 : ureal) : res state :=
    match unode o1, unode o2 with
    | LeafRef k1, LeafRef k2 =>
        l1 <- leaf_of s k1 ;; l2 <- leaf_of s k2 ;;
        if negb (l_indep l1) && negb (l_indep l2) then
          if keqb k1 k2 && negb (eqb N r one) then Err ValueError
          else if negb (leb N (nabs N r) one) then Err ValueError       (* if not abs(r) <= 1.0: also rejects NaN *)
          else
            let l1' := mkLeaf (l_u l1) (l_df l1) (l_indep l1) (assoc_set (l_corr l1) k2 r)
                              (l_ens l1) (l_cplx l1) (l_label l1) in
            let ls1 := assoc_set (s_leaves s) k1 l1' in
            l2b <- (match assoc ls1 k2 with Some l => Ok l | None => Err KeyError end) ;;
            let l2' := mkLeaf (l_u l2b) (l_df l2b) (l_indep l2b) (assoc_set (l_corr l2b) k1 r)
                              (l_ens l2b) (l_cplx l2b) (l_label l2b) in
            Ok (set_leaves s (assoc_set ls1 k2 l2'))
        else Err RuntimeError
    | _, _ => Err TypeError
    end.

  Definition set_correlation (s : state) (r : V) (o1 o2 : ureal) : res state :=
    if eqb N r zero then Ok s
    else
      (* if self._node is None or x._node is None: raise TypeError("... {!r} and {!r}".format(self,x)) *)
      match unode o1, unode o2 with
      | NoNode, _ | _, NoNode => Err TypeError
      | _, _ =>
      d1 <- node_df s o1 ;;
      both_inf <- (if df_is_inf d1 then d2 <- node_df s o2 ;; Ok (df_is_inf d2) else Ok false) ;;
      if both_inf then set_correlation_real s r o1 o2
      else
        match unode o1 with
        | LeafRef k1 =>
            l1 <- leaf_of s k1 ;;
            if l_indep l1 then Err RuntimeError            (* no 'ensemble' attribute *)
            else match unode o2 with
                 | NoNode => Err AttributeError
                 | LeafRef k2 => if kmem k2 (ens_of s l1) then set_correlation_real s r o1 o2
                                 else Err RuntimeError
                 | _ => Err RuntimeError
                 end
        | _ => Err RuntimeError
        end
      end.

  (* ---------- constructors ---------- *)
  Definition mk_constant (x : V) (label : option Z) : ureal := mkU x [] [] [] (ConstLeaf label).

  (* UncertainReal._elementary; returns the new state and object *)
  Definition elementary (s : state) (x u : V) (df : dfval) (label : option Z) (indep : bool)
    : res (state * ureal) :=
    match df with
    | DNaN => Err ValueError
    | _ =>
      if (match df with DFin d => ltb N d one | _ => false end) then Err ValueError
      else if ltb N u zero then Err ValueError
      else
        let n := (s_ne s + 1)%Z in
        let k := (s_ctx s, n) in
        let eid := length (s_ens s) in
        let lf := mkLeaf u df indep (if indep then [] else [(k, one)]) eid None label in
        let s' := mkS (s_ctx s) n (s_ni s) (s_leaves s ++ [(k, lf)]) (s_nodes s)
                      (s_ens s ++ [[]]) (s_slots s) in
        Ok (s', if indep then mkU x [(k, u)] [] [] (LeafRef k) else mkU x [] [(k, u)] [] (LeafRef k))
    end.

  (* core.ureal *)
  Definition ureal_decl (s : state) (x u : V) (df : dfval) (label : option Z) (indep : bool)
    : res (state * ureal) :=
    if is_nan N x || is_inf N x then Err ValueError
    else if ltb N u zero || is_inf N u || is_nan N u then Err ValueError
    else if (match df with DFin d => ltb N d one || is_nan N d | DNaN => true | DInf => false end)
         then Err ValueError
    else if eqb N u zero then Ok (s, mk_constant x label)
    else elementary s x u df label indep.

  (* ---------- applying a generated operator body ---------- *)
  Definition pick (w : which) (a b : ureal) : ureal := match w with L => a | Rt => b end.

  Definition new_un (y : V) (u d i : vec) : ureal := mkU y u d i NoNode.

  Definition neg_of (o : ureal) : ureal :=
    new_un (neg N (ux o)) (scale (uc o) (neg N one)) (scale (dc o) (neg N one)) (scale (ic o) (neg N one)).

  Definition realize (r : opres V) (a b : ureal) : res opval :=
    match r with
    | OSame w => Ok (VSame w)
    | OPlain v => Ok (VPlain v)
    | OConst v => Ok (VObj (mk_constant v None))
    | OScale w y wt => let o := pick w a b in
                       Ok (VObj (new_un y (scale (uc o) wt) (scale (dc o) wt) (scale (ic o) wt)))
    | OMergeW y w1 w2 => Ok (VObj (new_un y (merge_w (uc a) w1 (uc b) w2)
                                          (merge_w (dc a) w1 (dc b) w2)
                                          (merge_w (ic a) w1 (ic b) w2)))
    | OMerge y => Ok (VObj (new_un y (merge (uc a) (uc b)) (merge (dc a) (dc b)) (merge (ic a) (ic b))))
    | OCopy w y => let o := pick w a b in Ok (VObj (new_un y (uc o) (dc o) (ic o)))
    | ONegOf w => Ok (VObj (neg_of (pick w a b)))
    | OSelfMul =>
        match g_mul_un N (ux a) (ux a) with
        | Ok (OMergeW y w1 w2) => Ok (VObj (new_un y (merge_w (uc a) w1 (uc a) w2)
                                                   (merge_w (dc a) w1 (dc a) w2)
                                                   (merge_w (ic a) w1 (ic a) w2)))
        | Ok _ => Err OtherExn
        | Err e => Err e
        end
    | OToComplex => Ok VComplex
    end.

  Definition g_unop (f : unop) : V -> res (opres V) :=
    match f with
    | U_exp => g_exp N | U_log => g_log N | U_log10 => g_log10 N | U_sqrt => g_sqrt N
    | U_sin => g_sin N | U_cos => g_cos N | U_tan => g_tan N | U_asin => g_asin N
    | U_acos => g_acos N | U_atan => g_atan N | U_sinh => g_sinh N | U_cosh => g_cosh N
    | U_tanh => g_tanh N | U_asinh => g_asinh N | U_acosh => g_acosh N | U_atanh => g_atanh N
    | U_magnitude => g_magnitude N | U_mag_squared => g_mag_squared N | U_phase => g_phase N
    | U_neg => g_neg N | U_pos => g_pos N
    end.

  (* operand kinds of a binary operation: the dispatch of __add__/__radd__ etc. *)
  Definition g_bin_uu (f : binop) : V -> V -> res (opres V) :=
    match f with
    | B_add => g_add_un N | B_sub => g_sub_un N | B_mul => g_mul_un N | B_div => g_div_un N
    | B_pow => g_pow_un N | B_atan2 => g_atan2_re_re N
    end.
  Definition g_bin_un (f : binop) : V -> V -> res (opres V) :=   (* uncertain (op) number *)
    match f with
    | B_add => g_add_num N | B_sub => g_sub_num N | B_mul => g_mul_num N | B_div => g_div_num N
    | B_pow => g_pow_num N | B_atan2 => g_atan2_re_x N
    end.
  Definition g_bin_nu (f : binop) : V -> V -> res (opres V) :=   (* number (op) uncertain *)
    match f with
    | B_add => g_radd_num N | B_sub => g_rsub_num N | B_mul => g_rmul_num N | B_div => g_rdiv_num N
    | B_pow => g_rpow_num N | B_atan2 => g_atan2_x_re N
    end.

  (* ---------- the operations of a program ---------- *)
  (* ---------- one operator / function application (shared by [step] and [eval_un]) ---------- *)
  Inductive operand := OpdU (o : ureal) | OpdN (v : V).

  Definition apply_un (f : unop) (oa : ureal) : res opval :=
    r <- g_unop f (ux oa) ;; realize r oa oa.

  Definition apply_bin (f : binop) (a b : operand) : res opval :=
    match a, b with
    | OpdU oa, OpdU ob => r <- g_bin_uu f (ux oa) (ux ob) ;; realize r oa ob
    | OpdU oa, OpdN v => r <- g_bin_un f (ux oa) v ;; realize r oa oa
    | OpdN v, OpdU ob => r <- g_bin_nu f v (ux ob) ;; realize r ob ob
    | OpdN _, OpdN _ => Err TypeError
    end.

  (* which object an operation result denotes, given the operand objects *)
  Definition of_opval (v : opval) (l r : ureal) : res operand :=
    match v with
    | VObj o => Ok (OpdU o)
    | VSame L => Ok (OpdU l)
    | VSame Rt => Ok (OpdU r)
    | VPlain x => Ok (OpdN x)
    | VComplex => Err ComplexResult
    end.

  (* expression trees over objects already present in a state (inputs, earlier results) and
     plain numbers; evaluated with exactly the code [step] uses *)
  Inductive expr :=
  | EVar (i : nat)
  | ENum (v : V)
  | EUn (f : unop) (e : expr)
  | EBin (f : binop) (e1 e2 : expr).

  Fixpoint eval_un (s : state) (e : expr) : res operand :=
    match e with
    | EVar i => '(_, o, _) <- get_real s i ;; Ok (OpdU o)
    | ENum v => Ok (OpdN v)
    | EUn f e1 =>
        a <- eval_un s e1 ;;
        match a with
        | OpdU oa => v <- apply_un f oa ;; of_opval v oa oa
        | OpdN _ => Err TypeError
        end
    | EBin f e1 e2 =>
        a <- eval_un s e1 ;; b <- eval_un s e2 ;;
        v <- apply_bin f a b ;;
        match a, b with
        | OpdU oa, OpdU ob => of_opval v oa ob
        | OpdU oa, OpdN _ => of_opval v oa oa
        | OpdN _, OpdU ob => of_opval v ob ob
        | OpdN _, OpdN _ => Err TypeError
        end
    end.

  Definition fail (s : state) (e : exn) : state * out := (push s SErr, OutExn e).

  Definition finish_opval (s : state) (v : res opval) (ia ib : nat) : state * out :=
    match v with
    | Err e => fail s e
    | Ok (VObj o) => (push s (SReal o None), dump o)
    | Ok (VSame L) => (push s (SAlias ia), OutSame ia)
    | Ok (VSame Rt) => (push s (SAlias ib), OutSame ib)
    | Ok (VPlain v) => (push s (SNum v), OutVal v)
    | Ok VComplex => fail s ComplexResult
    end.

  (* multiple_ureal: declare each, then real_ensemble over the non-constant ones *)
  Fixpoint multiple_decl (s : state) (xs us : list V) (df : dfval) (acc : list ureal)
    : res (state * list ureal) :=
    match xs, us with
    | [], [] => Ok (s, rev acc)
    | x :: xs', u :: us' =>
        '(s', o) <- ureal_decl s x u df None false ;;
        multiple_decl s' xs' us' df (o :: acc)
    | _, _ => Err RuntimeError
    end.

  Definition set_leaf_ens (s : state) (k : key) (eid : nat) : state :=
    match assoc (s_leaves s) k with
    | Some l => set_leaves s (assoc_set (s_leaves s) k
                   (mkLeaf (l_u l) (l_df l) (l_indep l) (l_corr l) eid (l_cplx l) (l_label l)))
    | None => s
    end.

  Definition real_ensemble (s : state) (os : list ureal) : state :=
    let ks := fold_left (fun acc o => match unode o with LeafRef k => kinsert k acc | _ => acc end) os [] in
    let eid := length (s_ens s) in
    let s1 := mkS (s_ctx s) (s_ne s) (s_ni s) (s_leaves s) (s_nodes s) (s_ens s ++ [ks]) (s_slots s) in
    fold_left (fun st k => set_leaf_ens st k eid) ks s1.

  (* repr(x) of an uncertain real evaluates x.u and then x.df, filling the cache; several error
     messages of lib.py format their operands with {!r}, so a failing call can have this effect *)
  Definition repr_effect (s : state) (i : nat) : state * option exn :=
    match get_real s i with
    | Err e => (s, Some e)
    | Ok (j, o, c) =>
        match prop_u s o c with
        | Err e => (s, Some e)
        | Ok (_, c1) =>
            let s1 := set_cache s j o c1 in
            match prop_df s1 o c1 with
            | Err e => (s1, Some e)
            | Ok (_, c2) => (set_cache s1 j o c2, None)
            end
        end
    end.

  Definition step (s : state) (o : op) : state * out :=
    match o with
    | OpUreal x u df label indep =>
        match ureal_decl s x u df label indep with
        | Ok (s', obj) => (push s' (SReal obj None), dump obj)
        | Err e => fail s e
        end
    | OpConstant x label =>
        let obj := mk_constant x label in (push s (SReal obj None), dump obj)
    | OpMultiple xs us df =>
        if negb (Nat.eqb (length xs) (length us)) then fail s RuntimeError
        else
          match multiple_decl s xs us df [] with
          | Ok (s', objs) =>
              let s2 := real_ensemble s' (filter (fun o => negb (is_constant o)) objs) in
              (fold_left (fun st ob => push st (SReal ob None)) objs s2, OutList (map dump objs))
          | Err e =>
              (* the uid counter has advanced for the declarations that succeeded *)
              let s' := (fix go (st : state) (xs us : list V) : state :=
                           match xs, us with
                           | x :: xs', u :: us' =>
                               match ureal_decl st x u df None false with
                               | Ok (st', _) => go st' xs' us'
                               | Err _ => st
                               end
                           | _, _ => st
                           end) s xs us in
              fail s' e
          end
    | OpUn f a =>
        match get_real s a with
        | Err e => fail s e
        | Ok (ja, oa, _) =>
            finish_opval s (apply_un f oa) ja ja
        end
    | OpBin f (ARef a) (ARef b) =>
        match get_real s a, get_real s b with
        | Ok (ja, oa, _), Ok (jb, ob, _) =>
            finish_opval s (apply_bin f (OpdU oa) (OpdU ob)) ja jb
        | Err e, _ => fail s e
        | _, Err e => fail s e
        end
    | OpBin f (ARef a) (ANum v) =>
        match get_real s a with
        | Ok (ja, oa, _) => finish_opval s (apply_bin f (OpdU oa) (OpdN v)) ja ja
        | Err e => fail s e
        end
    | OpBin f (ANum v) (ARef b) =>
        match get_real s b with
        | Ok (jb, ob, _) => finish_opval s (apply_bin f (OpdN v) (OpdU ob)) jb jb
        | Err e => fail s e
        end
    | OpBin _ (ANum _) (ANum _) => fail s TypeError
    | OpResult a label =>
        match get_real s a with
        | Err e => fail s e
        | Ok (ja, oa, c) =>
            match unode oa with
            | LeafRef k =>
                (* label side effect on an unlabelled elementary leaf *)
                let s' := match label, assoc (s_leaves s) k with
                          | Some lb, Some l =>
                              match l_label l with
                              | None => set_leaves s (assoc_set (s_leaves s) k
                                          (mkLeaf (l_u l) (l_df l) (l_indep l) (l_corr l) (l_ens l)
                                                  (l_cplx l) (Some lb)))
                              | Some _ => s
                              end
                          | _, _ => s
                          end in
                (push s' (SAlias ja), OutSame ja)
            | NodeRef _ => (push s (SAlias ja), OutSame ja)
            | _ =>
                (* new_node(next_intermediate_id(), label, self.u, self.df) *)
                let n := (s_ni s + 1)%Z in
                let k := (s_ctx s, n) in
                let s1 := mkS (s_ctx s) (s_ne s) n (s_leaves s) (s_nodes s) (s_ens s) (s_slots s) in
                match prop_u s1 oa c with
                | Err e => fail s1 e
                | Ok (u, c1) =>
                    let s2 := set_cache s1 ja oa c1 in
                    match prop_df s2 oa c1 with
                    | Err e => fail s2 e
                    | Ok (d, c2) =>
                        let s3 := set_cache s2 ja oa c2 in
                        let s4 := mkS (s_ctx s3) (s_ne s3) (s_ni s3) (s_leaves s3)
                                      (s_nodes s3 ++ [(k, mkNode u d label)]) (s_ens s3) (s_slots s3) in
                        let obj := mkU (ux oa) (uc oa) (dc oa) (merge (ic oa) [(k, u)]) (NodeRef k) in
                        (push s4 (SReal obj None), dump obj)
                    end
                end
            end
        end
    | OpSetCorr r a b =>
        match get_real s a, get_real s b with
        | Ok (_, oa, _), Ok (_, ob, _) =>
            match set_correlation s r oa ob with
            | Ok s' => (push s' SErr, OutUnit)
            | Err TypeError =>
                (* set_correlation_real: "... got: {!r} and {!r}".format(x1,x2) *)
                match repr_effect s a with
                | (s1, Some e) => fail s1 e
                | (s1, None) =>
                    match repr_effect s1 b with
                    | (s2, Some e) => fail s2 e
                    | (s2, None) => fail s2 TypeError
                    end
                end
            | Err e => fail s e
            end
        | Err e, _ => fail s e
        | _, Err e => fail s e
        end
    | OpRead R_x a =>
        match get_real s a with
        | Ok (_, oa, _) => (push s (SNum (ux oa)), OutVal (ux oa))
        | Err e => fail s e
        end
    | OpRead R_u a =>
        match get_real s a with
        | Ok (ja, oa, c) =>
            match prop_u s oa c with
            | Ok (u, c') => (push (set_cache s ja oa c') (SNum u), OutVal u)
            | Err e => fail s e
            end
        | Err e => fail s e
        end
    | OpRead R_v a =>
        match get_real s a with
        | Ok (ja, oa, c) =>
            match prop_v s oa c with
            | Ok (v, c') => (push (set_cache s ja oa c') (SNum v), OutVal v)
            | Err e => fail s e
            end
        | Err e => fail s e
        end
    | OpRead R_df a =>
        match get_real s a with
        | Ok (ja, oa, c) =>
            match prop_df s oa c with
            | Ok (d, c') => (push (set_cache s ja oa c') (SDof d), OutDof d)
            | Err e => fail s e
            end
        | Err e => fail s e
        end
    | OpSens y x =>
        match get_real s y, get_real s x with
        | Ok (_, oy, _), Ok (_, ox, _) =>
            match sensitivity s oy ox with
            | Ok v => (push s (SNum v), OutVal v)
            | Err RuntimeError =>
                (* "{!r} is not an elementary or intermediate uncertain number".format(x) *)
                match repr_effect s x with
                | (s1, None) => fail s1 RuntimeError
                | (s1, Some e) => fail s1 e
                end
            | Err e => fail s e end
        | Err e, _ => fail s e | _, Err e => fail s e
        end
    | OpUComp y x =>
        match get_real s y, get_real s x with
        | Ok (_, oy, _), Ok (_, ox, _) =>
            match u_component s oy ox with
            | Ok v => (push s (SNum v), OutVal v) | Err e => fail s e end
        | Err e, _ => fail s e | _, Err e => fail s e
        end
    | OpGetCov a b =>
        match get_real s a, get_real s b with
        | Ok (_, oa, _), Ok (_, ob, _) =>
            match get_covariance_real s oa ob with
            | Ok v => (push s (SNum v), OutVal v) | Err e => fail s e end
        | Err e, _ => fail s e | _, Err e => fail s e
        end
    | OpGetCorr a b =>
        match get_real s a, get_real s b with
        | Ok (_, oa, _), Ok (_, ob, _) =>
            match get_correlation_real s oa ob with
            | Ok v => (push s (SNum v), OutVal v) | Err e => fail s e end
        | Err e, _ => fail s e | _, Err e => fail s e
        end
    end.

  Fixpoint run (s : state) (p : list op) : state * list out :=
    match p with
    | [] => (s, [])
    | o :: p' => let '(s', r) := step s o in
                 let '(s'', rs) := run s' p' in (s'', r :: rs)
    end.

  (* ---------- comparing observed outputs ---------- *)
  Definition dfval_eqb (a b : dfval) : bool :=
    match a, b with
    | DInf, DInf => true | DNaN, DNaN => true
    | DFin x, DFin y => same N x y
    | _, _ => false
    end.

  Fixpoint vec_eqb (a b : vec) : bool :=
    match a, b with
    | [], [] => true
    | (k, x) :: a', (k', y) :: b' => keqb k k' && same N x y && vec_eqb a' b'
    | _, _ => false
    end.

  Definition nkind_eqb (a b : nkind) : bool :=
    match a, b with
    | KPlain, KPlain => true | KConst, KConst => true
    | KElem k, KElem k' => keqb k k' | KInterm k, KInterm k' => keqb k k'
    | _, _ => false
    end.

  Fixpoint out_eqb (a b : out) : bool :=
    match a, b with
    | OutExn e, OutExn e' => exn_eqb e e'
    | OutVal x, OutVal y => same N x y
    | OutDof x, OutDof y => dfval_eqb x y
    | OutObj x u d i k, OutObj x' u' d' i' k' =>
        same N x x' && vec_eqb u u' && vec_eqb d d' && vec_eqb i i' && nkind_eqb k k'
    | OutSame i, OutSame j => Nat.eqb i j
    | OutList l, OutList l' =>
        (fix go (l l' : list out) : bool :=
           match l, l' with
           | [], [] => true
           | x :: t, y :: t' => out_eqb x y && go t t'
           | _, _ => false
           end) l l'
    | OutUnit, OutUnit => true
    | _, _ => false
    end.

  (* index of the first step whose output differs, if any *)
  Fixpoint first_mismatch (i : nat) (got expected : list out) : option nat :=
    match got, expected with
    | [], [] => None
    | g :: gs, e :: es => if out_eqb g e then first_mismatch (S i) gs es else Some i
    | _, _ => Some i
    end.
End Kernel.

Arguments OpdU {N} o.
Arguments OpdN {N} v.

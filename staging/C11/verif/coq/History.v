(* History.v -- C10: what the session state machine may change.  For every operation
   (succeeding or raising) every existing uncertain number keeps its value, its three
   component vectors and its node: only the lazily filled cache of the uncertainty can change;
   reads are idempotent; and the one way history does leak -- the cache is not invalidated by
   a later set_correlation -- is exhibited as a refutation of the full statement. *)
From Coq Require Import ZArith List Bool.
From GTCV Require Import Num Vector Opres KTypes Kernel.
Import ListNotations.

Section History.
  Variable N : Num.
  Notation V := (T N).
  Notation ureal := (KTypes.ureal V).
  Notation state := (KTypes.state V).
  Notation slot := (KTypes.slot V).

  (* slot i of s' holds the same object as slot i of s (cache aside) *)
  Definition slot_kept (a b : slot) : Prop :=
    match a, b with
    | SReal o _, SReal o' _ => o = o'
    | _, _ => a = b
    end.

  Definition objs_kept (s s' : state) : Prop :=
    forall i a, nth_error (s_slots s) i = Some a ->
                exists b, nth_error (s_slots s') i = Some b /\ slot_kept a b.

  Lemma slot_kept_refl a : slot_kept a a.
  Proof. destruct a; simpl; auto. Qed.

  Lemma objs_kept_refl s : objs_kept s s.
  Proof. intros i a H. exists a; split; auto. apply slot_kept_refl. Qed.

  Lemma objs_kept_trans s1 s2 s3 : objs_kept s1 s2 -> objs_kept s2 s3 -> objs_kept s1 s3.
  Proof.
    intros H12 H23 i a Ha. destruct (H12 i a Ha) as [b [Hb Kab]].
    destruct (H23 i b Hb) as [c [Hc Kbc]]. exists c; split; auto.
    destruct a, b, c; simpl in *; try congruence; try discriminate.
  Qed.

  Lemma nth_error_app_l {A} (l l' : list A) i a : nth_error l i = Some a -> nth_error (l ++ l') i = Some a.
  Proof. intros H. rewrite nth_error_app1; auto. apply nth_error_Some. congruence. Qed.

  Lemma kept_push s sl : objs_kept s (push N s sl).
  Proof. intros i a H. exists a; split; [apply nth_error_app_l; exact H | apply slot_kept_refl]. Qed.

  Lemma nth_set_nth {A} (l : list A) : forall i j a,
    nth_error (set_nth l j a) i =
    if Nat.eqb i j then (match nth_error l i with Some _ => Some a | None => None end) else nth_error l i.
  Proof.
    induction l as [|x l IH]; intros i j a.
    - simpl. destruct (Nat.eqb i j); destruct i; reflexivity.
    - destruct j as [|j], i as [|i]; simpl; auto.
  Qed.

  Lemma kept_set_cache s j o c c0 :
    nth_error (s_slots s) j = Some (SReal o c0) -> objs_kept s (set_cache N s j o c).
  Proof.
    intros Hj i a H. unfold set_cache; cbn [s_slots]. rewrite nth_set_nth.
    destruct (Nat.eqb i j) eqn:E.
    - apply Nat.eqb_eq in E; subst i. rewrite H. eexists; split; eauto.
      rewrite Hj in H. injection H as <-. reflexivity.
    - exists a; split; auto. apply slot_kept_refl.
  Qed.

  Lemma kept_same_slots s s' : s_slots s' = s_slots s -> objs_kept s s'.
  Proof. intros E i a H. exists a; rewrite E; split; auto. apply slot_kept_refl. Qed.

  Lemma get_real_slot s i j o c :
    get_real N s i = Ok (j, o, c) -> nth_error (s_slots s) j = Some (SReal o c).
  Proof.
    unfold get_real. destruct (nth_error (s_slots s) (resolve N s i)) as [[o' c'| | | |]|] eqn:E;
      try discriminate. intros H; injection H as <- <- <-. exact E.
  Qed.

  Lemma kept_fail s e : objs_kept s (fst (fail N s e)).
  Proof. apply kept_push. Qed.

  Lemma kept_finish s v ia ib : objs_kept s (fst (finish_opval N s v ia ib)).
  Proof.
    unfold finish_opval. destruct v as [[o|[]|x|]|e]; cbn [fst]; try apply kept_push.
  Qed.

  Lemma set_leaves_slots s ls : s_slots (set_leaves N s ls) = s_slots s.
  Proof. reflexivity. Qed.

  Lemma set_correlation_real_slots s r a b s' :
    set_correlation_real N s r a b = Ok s' -> s_slots s' = s_slots s.
  Proof.
    unfold set_correlation_real. destruct (unode a), (unode b); try discriminate.
    destruct (leaf_of N s k) as [l1|]; [|discriminate].
    destruct (leaf_of N s k0) as [l2|]; [|discriminate]. cbn [bind].
    destruct (negb (l_indep l1) && negb (l_indep l2)); [|discriminate].
    destruct (keqb k k0 && negb (eqb N r (one N))); [discriminate|].
    destruct (negb (leb N (nabs N r) (one N))); [discriminate|].
    match goal with |- context [match ?X with Some _ => _ | None => _ end] => destruct X end; [|discriminate].
    cbn [bind]. intros H; injection H as <-. reflexivity.
  Qed.

  Lemma set_correlation_slots s r a b s' :
    set_correlation N s r a b = Ok s' -> s_slots s' = s_slots s.
  Proof.
    unfold set_correlation. destruct (eqb N r (zero N)); [intros H; injection H as <-; reflexivity|].
    destruct (unode a) as [|la|ka|ka] eqn:Ua; try discriminate;
      destruct (unode b) as [|lb|kb|kb] eqn:Ub; try discriminate;
      (destruct (node_df N s a) as [d1|]; [|discriminate]); cbn [bind];
      (destruct (if df_is_inf N d1 then (d2 <- node_df N s b;; Ok (df_is_inf N d2)) else Ok false) as [bi|]; [|discriminate]);
      cbn [bind]; (destruct bi; [apply set_correlation_real_slots|]); try discriminate;
      (destruct (leaf_of N s ka) as [l1|]; [|discriminate]); cbn [bind];
      (destruct (l_indep l1); [discriminate|]); try discriminate;
      (destruct (kmem kb (ens_of N s l1)); [apply set_correlation_real_slots|discriminate]).
  Qed.

  (* declarations only append slots *)
  Lemma elementary_slots s x u df lb ind s' o :
    elementary N s x u df lb ind = Ok (s', o) -> s_slots s' = s_slots s.
  Proof.
    unfold elementary. destruct df; try discriminate.
    - destruct (ltb N u (zero N)); [discriminate|]. intros H; injection H as <- _. reflexivity.
    - destruct (ltb N v (one N)); [discriminate|].
      destruct (ltb N u (zero N)); [discriminate|]. intros H; injection H as <- _. reflexivity.
  Qed.

  Lemma ureal_decl_slots s x u df lb ind s' o :
    ureal_decl N s x u df lb ind = Ok (s', o) -> s_slots s' = s_slots s.
  Proof.
    unfold ureal_decl.
    destruct (is_nan N x || is_inf N x); [discriminate|].
    destruct (ltb N u (zero N) || is_inf N u || is_nan N u); [discriminate|].
    destruct (match df with DFin d => ltb N d (one N) || is_nan N d | DNaN => true | DInf => false end); [discriminate|].
    destruct (eqb N u (zero N)); [intros H; injection H as <- _; reflexivity|].
    apply elementary_slots.
  Qed.

  Lemma multiple_decl_slots xs : forall s us df acc s' os,
    multiple_decl N s xs us df acc = Ok (s', os) -> s_slots s' = s_slots s.
  Proof.
    induction xs as [|x xs IH]; intros s us df acc s' os; destruct us as [|u us]; simpl; try discriminate.
    - intros H; injection H as <- _; reflexivity.
    - destruct (ureal_decl N s x u df None false) as [[s1 o1]|] eqn:E; [|discriminate]. cbn [bind].
      intros H. rewrite (IH _ _ _ _ _ _ H). eapply ureal_decl_slots; eauto.
  Qed.

  Lemma set_leaf_ens_slots s k e : s_slots (set_leaf_ens N s k e) = s_slots s.
  Proof. unfold set_leaf_ens. destruct (assoc (s_leaves s) k); reflexivity. Qed.

  Lemma real_ensemble_slots s os : s_slots (real_ensemble N s os) = s_slots s.
  Proof.
    unfold real_ensemble.
    set (ks := fold_left _ os []). set (s1 := mkS _ _ _ _ _ _ _).
    assert (H : s_slots s1 = s_slots s) by reflexivity. revert H. generalize s1. clear s1.
    induction ks as [|k ks IH]; intros s1 H; simpl; auto.
    apply IH. rewrite set_leaf_ens_slots. exact H.
  Qed.

  Lemma fold_push_kept os : forall s, objs_kept s (fold_left (fun st ob => push N st (SReal ob None)) os s).
  Proof.
    induction os as [|o os IH]; intros s; simpl; [apply objs_kept_refl|].
    eapply objs_kept_trans; [apply kept_push | apply IH].
  Qed.

  Lemma decl_prefix_slots xs : forall s us df,
    s_slots ((fix go (st : state) (xs us : list V) : state :=
                match xs, us with
                | x :: xs', u :: us' =>
                    match ureal_decl N st x u df None false with
                    | Ok (st', _) => go st' xs' us'
                    | Err _ => st
                    end
                | _, _ => st
                end) s xs us) = s_slots s.
  Proof.
    induction xs as [|x xs IH]; intros s us df; destruct us as [|u us]; simpl; auto.
    destruct (ureal_decl N s x u df None false) as [[s1 o1]|] eqn:E; auto.
    rewrite IH. eapply ureal_decl_slots; eauto.
  Qed.

  Lemma kept_repr_effect s i : objs_kept s (fst (repr_effect N s i)).
  Proof.
    unfold repr_effect. destruct (get_real N s i) as [[[j o] c]|e] eqn:Eg; [|apply objs_kept_refl].
    pose proof (get_real_slot _ _ _ _ _ Eg) as Hslot.
    destruct (prop_u N s o c) as [[u c1]|e]; [|apply objs_kept_refl].
    assert (K1 : objs_kept s (set_cache N s j o c1)) by (eapply kept_set_cache; exact Hslot).
    destruct (prop_df N (set_cache N s j o c1) o c1) as [[d c2]|e]; cbn [fst]; [|exact K1].
    eapply objs_kept_trans; [exact K1|].
    eapply kept_set_cache. unfold set_cache; cbn [s_slots]. rewrite nth_set_nth, Nat.eqb_refl, Hslot. reflexivity.
  Qed.

  (* ---------- the theorem: no operation modifies an existing uncertain number ---------- *)
  Theorem step_keeps_objects s o : objs_kept s (fst (step N s o)).
  Proof.
    destruct o; cbn [step].
    - (* OpUreal *)
      destruct (ureal_decl N s x u df label indep) as [[s' obj]|e] eqn:E; cbn [fst].
      + eapply objs_kept_trans; [apply kept_same_slots; eapply ureal_decl_slots; eauto | apply kept_push].
      + apply kept_push.
    - apply kept_push.
    - (* OpMultiple *)
      destruct (negb (Nat.eqb (length xs) (length us))); [apply kept_push|].
      destruct (multiple_decl N s xs us df []) as [[s' objs]|e] eqn:E; cbn [fst].
      + eapply objs_kept_trans; [|apply fold_push_kept].
        apply kept_same_slots. rewrite real_ensemble_slots. eapply multiple_decl_slots; eauto.
      + eapply objs_kept_trans; [apply kept_same_slots; apply decl_prefix_slots | apply kept_push].
    - (* OpUn *)
      destruct (get_real N s a) as [[[ja oa] c]|e]; [apply kept_finish | apply kept_push].
    - (* OpBin *)
      destruct a as [a|va], b as [b|vb].
      + destruct (get_real N s a) as [[[ja oa] c]|e], (get_real N s b) as [[[jb ob] c']|e'];
          try apply kept_push. apply kept_finish.
      + destruct (get_real N s a) as [[[ja oa] c]|e]; [apply kept_finish | apply kept_push].
      + destruct (get_real N s b) as [[[jb ob] c]|e]; [apply kept_finish | apply kept_push].
      + apply kept_push.
    - (* OpResult *)
      destruct (get_real N s a) as [[[ja oa] c]|e] eqn:Eg; [|apply kept_push].
      pose proof (get_real_slot _ _ _ _ _ Eg) as Hslot.
      destruct (unode oa) eqn:En.
      + (* NoNode: declare *)
        set (s1 := mkS (s_ctx s) (s_ne s) (s_ni s + 1)%Z (s_leaves s) (s_nodes s) (s_ens s) (s_slots s)).
        assert (K1 : objs_kept s s1) by (apply kept_same_slots; reflexivity).
        destruct (prop_u N s1 oa c) as [[u c1]|e]; [|eapply objs_kept_trans; [exact K1 | apply kept_push]].
        assert (K2 : objs_kept s1 (set_cache N s1 ja oa c1)) by (eapply kept_set_cache; exact Hslot).
        destruct (prop_df N (set_cache N s1 ja oa c1) oa c1) as [[d c2]|e].
        * cbn [fst].
          eapply objs_kept_trans; [exact K1|]. eapply objs_kept_trans; [exact K2|].
          set (s2 := set_cache N s1 ja oa c1).
          assert (Hs2 : nth_error (s_slots s2) ja = Some (SReal oa c1)).
          { unfold s2, set_cache; cbn [s_slots]. rewrite nth_set_nth, Nat.eqb_refl.
            change (s_slots s1) with (s_slots s). rewrite Hslot. reflexivity. }
          eapply objs_kept_trans; [eapply kept_set_cache; exact Hs2|].
          eapply objs_kept_trans; [|apply kept_push]. apply kept_same_slots. reflexivity.
        * eapply objs_kept_trans; [exact K1|]. eapply objs_kept_trans; [exact K2 | apply kept_push].
      + (* ConstLeaf: declare as well *)
        set (s1 := mkS (s_ctx s) (s_ne s) (s_ni s + 1)%Z (s_leaves s) (s_nodes s) (s_ens s) (s_slots s)).
        assert (K1 : objs_kept s s1) by (apply kept_same_slots; reflexivity).
        destruct (prop_u N s1 oa c) as [[u c1]|e]; [|eapply objs_kept_trans; [exact K1 | apply kept_push]].
        assert (K2 : objs_kept s1 (set_cache N s1 ja oa c1)) by (eapply kept_set_cache; exact Hslot).
        destruct (prop_df N (set_cache N s1 ja oa c1) oa c1) as [[d c2]|e].
        * cbn [fst].
          eapply objs_kept_trans; [exact K1|]. eapply objs_kept_trans; [exact K2|].
          set (s2 := set_cache N s1 ja oa c1).
          assert (Hs2 : nth_error (s_slots s2) ja = Some (SReal oa c1)).
          { unfold s2, set_cache; cbn [s_slots]. rewrite nth_set_nth, Nat.eqb_refl.
            change (s_slots s1) with (s_slots s). rewrite Hslot. reflexivity. }
          eapply objs_kept_trans; [eapply kept_set_cache; exact Hs2|].
          eapply objs_kept_trans; [|apply kept_push]. apply kept_same_slots. reflexivity.
        * eapply objs_kept_trans; [exact K1|]. eapply objs_kept_trans; [exact K2 | apply kept_push].
      + (* elementary: label side effect only *)
        cbn [fst]. eapply objs_kept_trans; [|apply kept_push]. apply kept_same_slots.
        destruct label as [lb|]; [|reflexivity].
        destruct (assoc (s_leaves s) k) as [l|]; [|reflexivity]. destruct (l_label l); reflexivity.
      + apply kept_push.
    - (* OpSetCorr *)
      destruct (get_real N s a) as [[[ja oa] c]|e], (get_real N s b) as [[[jb ob] c']|e'];
        try apply kept_push.
      destruct (set_correlation N s r oa ob) as [s'|e] eqn:E; cbn [fst].
      + eapply objs_kept_trans; [apply kept_same_slots; eapply set_correlation_slots; eauto | apply kept_push].
      + destruct e; try apply kept_push.
        pose proof (kept_repr_effect s a) as K1.
        destruct (repr_effect N s a) as [s1 [e1|]] eqn:E1; cbn [fst] in K1.
        * eapply objs_kept_trans; [exact K1 | apply kept_push].
        * pose proof (kept_repr_effect s1 b) as K2.
          destruct (repr_effect N s1 b) as [s2 [e2|]] eqn:E2; cbn [fst] in K2;
            (eapply objs_kept_trans; [exact K1 | eapply objs_kept_trans; [exact K2 | apply kept_push]]).
    - (* OpRead *)
      destruct at_.
      + destruct (get_real N s a) as [[[ja oa] c]|e]; apply kept_push.
      + destruct (get_real N s a) as [[[ja oa] c]|e] eqn:Eg; [|apply kept_push].
        destruct (prop_u N s oa c) as [[u c1]|e]; [|apply kept_push]. cbn [fst].
        eapply objs_kept_trans; [eapply kept_set_cache; eapply get_real_slot; eauto | apply kept_push].
      + destruct (get_real N s a) as [[[ja oa] c]|e] eqn:Eg; [|apply kept_push].
        destruct (prop_v N s oa c) as [[u c1]|e]; [|apply kept_push]. cbn [fst].
        eapply objs_kept_trans; [eapply kept_set_cache; eapply get_real_slot; eauto | apply kept_push].
      + destruct (get_real N s a) as [[[ja oa] c]|e] eqn:Eg; [|apply kept_push].
        destruct (prop_df N s oa c) as [[u c1]|e]; [|apply kept_push]. cbn [fst].
        eapply objs_kept_trans; [eapply kept_set_cache; eapply get_real_slot; eauto | apply kept_push].
    - destruct (get_real N s y) as [[[jy oy] c]|e], (get_real N s x) as [[[jx ox] c']|e']; try apply kept_push.
      destruct (sensitivity N s oy ox) as [v|e]; [apply kept_push|].
      destruct e; try apply kept_push.
      pose proof (kept_repr_effect s x) as K1.
      destruct (repr_effect N s x) as [s1 [e1|]]; cbn [fst] in K1;
        (eapply objs_kept_trans; [exact K1 | apply kept_push]).
    - destruct (get_real N s y) as [[[jy oy] c]|e], (get_real N s x) as [[[jx ox] c']|e']; try apply kept_push.
      destruct (u_component N s oy ox); apply kept_push.
    - destruct (get_real N s a) as [[[ja oa] c]|e], (get_real N s b) as [[[jb ob] c']|e']; try apply kept_push.
      destruct (get_covariance_real N s oa ob); apply kept_push.
    - destruct (get_real N s a) as [[[ja oa] c]|e], (get_real N s b) as [[[jb ob] c']|e']; try apply kept_push.
      destruct (get_correlation_real N s oa ob); apply kept_push.
  Qed.

  (* every history: by induction over the operation list *)
  Theorem run_keeps_objects p : forall s, objs_kept s (fst (run N s p)).
  Proof.
    induction p as [|o p IH]; intros s; cbn [run].
    - apply objs_kept_refl.
    - destruct (step N s o) as [s1 r] eqn:E1. destruct (run N s1 p) as [s2 rs] eqn:E2. cbn [fst].
      eapply objs_kept_trans.
      + pose proof (step_keeps_objects s o) as H. rewrite E1 in H. exact H.
      + pose proof (IH s1) as H. rewrite E2 in H. exact H.
  Qed.

  (* reading twice gives the same answer *)
  Theorem read_u_idempotent s o c u c' :
    prop_u N s o c = Ok (u, c') -> prop_u N s o c' = Ok (u, c').
  Proof.
    unfold prop_u. destruct (node_u N s o) as [[nu|]|e]; cbn [bind]; try discriminate.
    - intros H; injection H as <- <-. reflexivity.
    - destruct c as [cu|].
      + intros H; injection H as <- <-. reflexivity.
      + destruct (std_variance_real N s o) as [v|]; [|discriminate]. cbn [bind].
        destruct (libm1 N F_sqrt v) as [r|]; [|discriminate]. cbn [bind].
        intros H; injection H as <- <-. reflexivity.
  Qed.

  (* a filled cache answers without looking at the state: this is how history leaks *)
  Lemma cached_u_ignores_state s s' o u :
    unode o = NoNode -> prop_u N s o (Some u) = Ok (u, Some u) /\ prop_u N s' o (Some u) = Ok (u, Some u).
  Proof. intros H. unfold prop_u, node_u. rewrite H. split; reflexivity. Qed.
End History.

(* DeclWitness.v -- concrete inputs evaluated in the binary64 instance of the model (the one the
   correspondence run compares bit for bit with the implementation).  (1)-(3) are the inputs on
   which property C11 FAILED before lib.set_correlation_real / UncertainComplex.set_correlation /
   UncertainReal.set_correlation were repaired (findings C11-1..3, now `fixed`: each is replayed
   on the implementation on every run and a reproduction is a VIOLATION); here they are kept as
   regression examples of the repaired behaviour.  (4)-(5): what remains true of _elementary.
   Then boundary values that are accepted. *)
From Coq Require Import ZArith List Bool PrimFloat.
From GTCV Require Import Num FNum Vector Opres KTypes Kernel DeclTypes Decl.
From GTCV.gen Require Import Gen_core_checks.
Import ListNotations.
Local Open Scope float_scope.

Definition F0 : Num := FNum [].
Definition frun (p : list (dop float)) := drun F0 (dinit F0 1) p.
Definition key11 : key := (1%Z, 1%Z).
Definition key12 : key := (1%Z, 2%Z).
Definition key13 : key := (1%Z, 3%Z).

Definition corr_of (d : dstate float) (k k' : key) : option float :=
  match Kernel.assoc (s_leaves (d_k d)) k with
  | Some l => Kernel.assoc (l_corr l) k'
  | None => None
  end.

(* (1) set_correlation(nan, x1, x2) is rejected with ValueError and nothing is stored *)
Definition nan_prog : list (dop float) :=
  [DUreal 1 1 infinity false; DUreal 2 1 infinity false; DSetCorr (RScalar nan) (ASlot 0) (ASlot 1)].

Theorem nan_correlation_rejected :
  nth_error (snd (frun nan_prog)) 2 = Some (DOExn ValueError) /\
  corr_of (fst (frun nan_prog)) key11 key12 = None.
Proof. split; vm_compute; reflexivity. Qed.

(* (2) a rejected complex/complex set_correlation has assigned nothing: (0.5, 2.0, ...) fails on its
   second coefficient, (1, 0.5, 0.5, 0.25) between a number and itself on its fourth *)
Definition two_cplx : list (dop float) :=
  [DUcomplex 1 1 (USeq [1; 1]) infinity false; DUcomplex 1 1 (USeq [1; 1]) infinity false].
Definition partial_prog : list (dop float) :=
  two_cplx ++ [DSetCorr (RSeq [0x1p-1; 2; 0x1p-3; 0x1p-3]) (ASlot 0) (ASlot 1)].
Definition partial_self_prog : list (dop float) :=
  two_cplx ++ [DSetCorr (RSeq [1; 0x1p-1; 0x1p-1; 0x1p-2]) (ASlot 0) (ASlot 0)].

Theorem rejected_complex_set_correlation_has_no_effect :
  nth_error (snd (frun partial_prog)) 2 = Some (DOExn ValueError) /\
  corr_of (fst (frun partial_prog)) key11 key13 = None /\
  nth_error (snd (frun partial_self_prog)) 2 = Some (DOExn ValueError) /\
  corr_of (fst (frun partial_self_prog)) key11 key12 = None /\
  d_k (fst (frun partial_self_prog)) = d_k (fst (frun two_cplx)).
Proof. repeat split; vm_compute; reflexivity. Qed.

(* (3) finite-dof complex numbers declared independent=True: RuntimeError (was AttributeError);
   a non-elementary operand: TypeError (was AttributeError) *)
Definition attr_prog : list (dop float) :=
  [DUcomplex 1 1 (USeq [1; 1]) 3 true; DUcomplex 1 1 (USeq [1; 1]) 3 true;
   DSetCorr (RSeq [0x1p-1; 0x1p-2; 0x1p-3; 0x1p-3]) (ASlot 0) (ASlot 1)].
Definition plain_prog : list (dop float) :=
  [DUreal 1 1 infinity false; DPlain; DPlainC;
   DSetCorr (RScalar 0x1p-1) (ASlot 0) (ASlot 1); DSetCorr (RScalar 0x1p-1) (ASlot 1) (ASlot 0);
   DSetCorr (RSeq [0x1p-1; 0x1p-2; 0x1p-3; 0x1p-3]) (ASlot 2) (ASlot 2)].

Theorem rejection_classes_repaired :
  nth_error (snd (frun attr_prog)) 2 = Some (DOExn RuntimeError) /\
  nth_error (snd (frun plain_prog)) 3 = Some (DOExn TypeError) /\
  nth_error (snd (frun plain_prog)) 4 = Some (DOExn TypeError) /\
  nth_error (snd (frun plain_prog)) 5 = Some (DOExn TypeError).
Proof. repeat split; vm_compute; reflexivity. Qed.

(* (4) UncertainReal._elementary (called directly by the estimators) does not re-check NaN:
   a NaN uncertainty and a NaN dof pass its guards *)
Theorem elementary_accepts_nan :
  g_elementary_guard F0 nan 2 = Ok tt /\ g_elementary_guard F0 1 nan = Ok tt.
Proof. split; vm_compute; reflexivity. Qed.

(* (5) UncertainComplex._elementary with a correlation (even 0.0) and independent=True fails with
   AttributeError: callers must pass r = None for an independent pair (core.ucomplex does; so does
   type_a.estimate since the C12 repair) *)
Theorem complex_elementary_r0_independent_fails :
  snd (ucomplex_elementary F0 1 2 1 1 (Some 0) 3 true (init F0 1)) = Err AttributeError.
Proof. vm_compute; reflexivity. Qed.

(* ---------- boundary values that ARE accepted (binary64) ---------- *)
Example accept_u_zero_df_one : g_ureal F0 0x1p0 0 1 = Ok (RD_constant 0x1p0).
Proof. vm_compute; reflexivity. Qed.
Example accept_u_denormal_df_inf : g_ureal F0 (-0) 0x0.0000000000001p-1022 infinity
                                   = Ok (RD_elementary (-0) 0x0.0000000000001p-1022 infinity).
Proof. vm_compute; reflexivity. Qed.
Example reject_df_just_below_one : g_ureal F0 1 1 0x1.fffffffffffffp-1 = Err ValueError.
Proof. vm_compute; reflexivity. Qed.
Example accept_one_zero_component :
  g_ucomplex_seq2 F0 1 2 0 1 1 true = Ok (CD_elementary 1 2 0 1 None 1 true).
Proof. vm_compute; reflexivity. Qed.
Example accept_r_plus_minus_one :
  g_set_correlation_real F0 1 true true false false false = Ok tt /\
  g_set_correlation_real F0 (-1) true true false false false = Ok tt /\
  g_set_correlation_real F0 0x1.0000000000001p0 true true false false false = Err ValueError.
Proof. repeat split; vm_compute; reflexivity. Qed.
(* covariance matrix with r = -1 exactly: accepted, and the number is made dependent *)
Example accept_covariance_r_minus_one :
  g_ucomplex_seq4 (FNum [(F_sqrt, [4], Ok 2); (F_sqrt, [1], Ok 1)]) 1 2 4 (-2) (-2) 1 infinity true
  = Ok (CD_elementary 1 2 2 1 (Some (-1)) infinity false).
Proof. vm_compute; reflexivity. Qed.

(* props/C11.v -- Property C11: declarations are validated: invalid ones rejected, every valid
   one accepted.  Only statements, closed by lemmas proved in DeclFacts.v / DeclInv.v /
   DeclWitness.v, plus the axioms each depends on.

   The decision procedures g_ureal, g_ucomplex_*, g_elementary_guard, g_set_correlation_real are
   REGENERATED from GTC/core.py and GTC/lib.py on every run (gen/Gen_core_checks.v).  Theorems
   quantify over the extended reals  ext = R + {+inf, -inf, NaN}  (ENum: IEEE comparison
   semantics -- every comparison with NaN is false -- and exact arithmetic on finite numbers);
   witnesses of the refuted statements are evaluated in the binary64 instance. *)
From Coq Require Import ZArith List Bool Reals Lra PrimFloat.
From GTCV Require Import Num RNum FNum Vector Opres KTypes Kernel DeclTypes Decl ENum DeclFacts DeclInv DeclWitness DeclKernel.
From GTCV.gen Require Import Gen_core_checks.
Import ListNotations.
Local Open Scope R_scope.

(* ===== (1) ureal: accepted <-> value finite, 0 <= u finite, df >= 1 or +inf ===== *)
Theorem C11_ureal_decision :
  forall x u df : ext, (exists d, g_ureal ENum x u df = Ok d) <-> ureal_limits x u df.
Proof. exact ureal_accept_iff. Qed.

Theorem C11_ureal_rejects_with_ValueError :
  forall (x u df : ext) e, g_ureal ENum x u df = Err e -> e = ValueError.
Proof. exact ureal_reject_exn. Qed.

(* u = 0 gives a constant, anything else is passed on unchanged *)
Theorem C11_ureal_result :
  forall (x u df : ext) d, g_ureal ENum x u df = Ok d ->
    (u = Fin 0 /\ d = RD_constant x) \/ (d = RD_elementary x u df /\ exists r, u = Fin r /\ 0 < r).
Proof. exact ureal_ok_shape. Qed.

(* at the level of the session: the same decision whatever the state, and a rejected call
   changes nothing, not even the uid counter *)
Theorem C11_ureal_accepts_iff_in_limits :
  forall (x u df : ext) indep (s : KTypes.state ext),
    (exists o, snd (ureal_g ENum x u df indep s) = Ok o) <-> ureal_limits x u df.
Proof. exact ureal_g_accept_iff. Qed.

Theorem C11_rejected_ureal_no_effect :
  forall (x u df : ext) indep (s : KTypes.state ext) e,
    snd (ureal_g ENum x u df indep s) = Err e -> fst (ureal_g ENum x u df indep s) = s /\ e = ValueError.
Proof. exact ureal_g_rejected_no_effect. Qed.

(* ===== (2) ucomplex: scalar u, 2-sequence, covariance matrix, any other length ===== *)
Theorem C11_ucomplex_decision :
  forall (zre zim : ext) (u : uarg ext) (df : ext) indep,
    (exists d, g_ucomplex ENum zre zim u df indep = Ok d) <-> ucomplex_limits zre zim u df.
Proof. intros. rewrite g_ucomplex_is. apply ucomplex_accept_iff. Qed.

Theorem C11_ucomplex_reject_classes :
  forall (zre zim : ext) (u : uarg ext) (df : ext) indep e,
    g_ucomplex ENum zre zim u df indep = Err e -> e = ValueError \/ e = TypeError \/ e = ZeroDivisionError.
Proof. intros zre zim u df indep e. rewrite g_ucomplex_is. apply ucomplex_reject_exn. Qed.

(* what is handed to the constructor: 0 <= u_r, u_i finite; a correlation only together with
   independent=False, and |r| <= 1 + 1e-10 *)
Theorem C11_ucomplex_result_good :
  forall (zre zim : ext) (u : uarg ext) (df : ext) indep d,
    g_ucomplex ENum zre zim u df indep = Ok d -> cplx_good d df.
Proof. intros zre zim u df indep d. rewrite g_ucomplex_is. apply ucomplex_good. Qed.

(* ===== (3) multiple_ureal, all lengths ===== *)
Theorem C11_multiple_ureal_decision :
  forall (xs us : list ext) (df : ext) (s : KTypes.state ext),
    (exists os, snd (multiple_ureal_g ENum xs us df s) = Ok os) <->
    length xs = length us /\ Forall (fun xu => ureal_limits (fst xu) (snd xu) df) (combine xs us).
Proof. exact multiple_ureal_accept_iff. Qed.

Theorem C11_rejected_multiple_ureal_only_appends :
  forall (xs us : list ext) (df : ext) (s : KTypes.state ext) e,
    snd (multiple_ureal_g ENum xs us df s) = Err e ->
    extends s (fst (multiple_ureal_g ENum xs us df s)).
Proof. exact multiple_ureal_rejected_extends. Qed.

Theorem C11_extends_keeps_every_leaf :
  forall (s s' : KTypes.state ext) k l,
    extends s s' -> Kernel.assoc (s_leaves s) k = Some l -> Kernel.assoc (s_leaves s') k = Some l.
Proof. exact extends_old_leaves. Qed.

(* ===== (4) set_correlation ===== *)
(* the coefficient test of lib.set_correlation_real: accepted <-> both elementary, both declared
   independent=False, r a number in [-1,1] (only 1 between a number and itself).  NaN is rejected
   (`not abs(r) <= 1.0`; finding C11-1, fixed: this replaces C11_set_correlation_nan_refuted) *)
Theorem C11_set_correlation_real_decision :
  forall (r : ext) e1 e2 i1 i2 same,
    g_set_correlation_real ENum r e1 e2 i1 i2 same = Ok tt <-> sc_flags_ok e1 e2 i1 i2 /\ r_limits r same.
Proof. exact set_correlation_real_accept_iff. Qed.

Theorem C11_set_correlation_rejects_nan_and_infinities :
  forall (r : ext) same, (forall q, r <> Fin q) ->
    g_set_correlation_real ENum r true true false false same = Err ValueError.
Proof. exact set_correlation_real_rejects_non_numbers. Qed.

(* core.set_correlation(r, x1, x2) for two elementary uncertain reals of ANY session state:
   accepted <-> r = 0 (no-op), or both declared independent=False and (both infinite dof, or
   declared together) and the coefficient is in [-1,1] (only 1 for a number with itself) *)
Theorem C11_set_correlation_pair_decision :
  forall (s : KTypes.state ext) (o1 o2 : KTypes.ureal ext) k1 k2 l1 l2,
    unode o1 = LeafRef k1 -> unode o2 = LeafRef k2 ->
    Kernel.assoc (s_leaves s) k1 = Some l1 -> Kernel.assoc (s_leaves s) k2 = Some l2 ->
    forall sl a b (r : ext),
      slot_of ENum sl a = Some (DSReal o1) -> slot_of ENum sl b = Some (DSReal o2) ->
      (snd (core_set_correlation ENum sl (RScalar r) a b s) = Ok tt <->
         r = Fin 0 \/ (legal_pair s l1 l2 k2 /\ r_limits r (keqb k1 k2))).
Proof. exact set_correlation_real_pair_accept_iff. Qed.

Theorem C11_rejected_set_correlation_pair_no_effect :
  forall (s : KTypes.state ext) (o1 o2 : KTypes.ureal ext) k1 k2 l1 l2,
    unode o1 = LeafRef k1 -> unode o2 = LeafRef k2 ->
    Kernel.assoc (s_leaves s) k1 = Some l1 -> Kernel.assoc (s_leaves s) k2 = Some l2 ->
    forall sl a b (r : ext) e,
      slot_of ENum sl a = Some (DSReal o1) -> slot_of ENum sl b = Some (DSReal o2) ->
      snd (core_set_correlation ENum sl (RScalar r) a b s) = Err e ->
      fst (core_set_correlation ENum sl (RScalar r) a b s) = s /\ (e = ValueError \/ e = RuntimeError).
Proof. exact set_correlation_real_pair_rejected_no_effect. Qed.

(* EVERY form of core.set_correlation (real/real, one complex, complex/complex; scalar or sequence
   coefficient; elementary, constant, intermediate, None or plain-number operands), ANY session
   state: a rejected call has changed nothing at all, and the exception is never AttributeError.
   (Findings C11-2 -- partial effects of the complex/complex form -- and C11-3 -- AttributeError --
   fixed: this replaces C11_no_partial_effects_complex_refuted and
   C11_reject_class_AttributeError_refuted.) *)
Theorem C11_rejected_set_correlation_no_effect :
  forall sl (r : rarg ext) a b (s : KTypes.state ext) e,
    snd (core_set_correlation ENum sl r a b s) = Err e ->
    fst (core_set_correlation ENum sl r a b s) = s /\ e <> AttributeError.
Proof. exact set_correlation_rejected_no_effect. Qed.

(* the former witnesses, in binary64, as regression examples of the repaired behaviour *)
Theorem C11_former_witnesses_repaired :
  (nth_error (snd (frun nan_prog)) 2 = Some (DOExn ValueError) /\
   corr_of (fst (frun nan_prog)) key11 key12 = None) /\
  (nth_error (snd (frun partial_prog)) 2 = Some (DOExn ValueError) /\
   corr_of (fst (frun partial_prog)) key11 key13 = None /\
   nth_error (snd (frun partial_self_prog)) 2 = Some (DOExn ValueError) /\
   corr_of (fst (frun partial_self_prog)) key11 key12 = None /\
   d_k (fst (frun partial_self_prog)) = d_k (fst (frun two_cplx))) /\
  (nth_error (snd (frun attr_prog)) 2 = Some (DOExn RuntimeError) /\
   nth_error (snd (frun plain_prog)) 3 = Some (DOExn TypeError) /\
   nth_error (snd (frun plain_prog)) 4 = Some (DOExn TypeError) /\
   nth_error (snd (frun plain_prog)) 5 = Some (DOExn TypeError)).
Proof.
  exact (conj nan_correlation_rejected (conj rejected_complex_set_correlation_has_no_effect rejection_classes_repaired)).
Qed.

(* ===== (5) no bad number, for every program of declaration operations ===== *)
(* every Leaf that any sequence of ureal / ucomplex / multiple_ureal / multiple_ucomplex /
   set_correlation calls (accepted or rejected, in any order, with any arguments -- NaN
   coefficients included) ever creates has 0 <= u finite, df >= 1 or inf, and only correlation
   coefficients that are numbers with |r| <= 1 + 1e-10.  (Before the repair of C11-1 this held
   only under the proviso "no NaN coefficient is passed to set_correlation".) *)
Theorem C11_no_bad_number :
  forall ctx (p : list (dop ext)) k l,
    Kernel.assoc (s_leaves (d_k (fst (drun ENum (dinit ENum ctx) p)))) k = Some l -> good_leaf l.
Proof. exact no_bad_number. Qed.

(* the re-checks of UncertainReal._elementary never fire behind core.ureal / core.ucomplex ... *)
Theorem C11_elementary_rechecks_pass_after_core :
  forall u df : ext, lim_u u -> lim_df df -> g_elementary_guard ENum u df = Ok tt.
Proof. exact elementary_guard_after_core. Qed.

(* ... but on their own (the estimators call _elementary directly) they let NaN through *)
Theorem C11_elementary_guard_nan_refuted :
  g_elementary_guard F0 nan 2%float = Ok tt /\ g_elementary_guard F0 1%float nan = Ok tt.
Proof. exact elementary_accepts_nan. Qed.

(* UncertainComplex._elementary needs r = None for an independent pair (type_a.estimate passed 0.0
   when the sample correlation was exactly zero: finding C11-4 / C12, repaired in the caller) *)
Theorem C11_complex_elementary_r_requires_dependent :
  snd (ucomplex_elementary F0 1%float 2%float 1%float 1%float (Some 0%float) 3%float true (init F0 1)) = Err AttributeError.
Proof. exact complex_elementary_r0_independent_fails. Qed.

(* ===== (6) the hand-written declaration functions of Kernel.v agree with the generated ones ===== *)
Theorem C11_kernel_ureal_is_generated :
  forall (x u df : ext) indep (s : KTypes.state ext),
    Kernel.ureal_decl ENum s x u (df_of ENum df) None indep =
    match ureal_g ENum x u df indep s with (s', Ok o) => Ok (s', o) | (_, Err e) => Err e end.
Proof. exact kernel_ureal_decl_is_generated. Qed.

Theorem C11_kernel_set_correlation_real_is_generated :
  forall (r : ext) (o1 o2 : KTypes.ureal ext) (s : KTypes.state ext),
    Kernel.set_correlation_real ENum s r o1 o2 =
    match set_correlation_real_g ENum r o1 o2 s with (s', Ok _) => Ok s' | (_, Err e) => Err e end.
Proof. exact kernel_set_correlation_real_is_generated. Qed.

(* ===== non-vacuity: the accept side is inhabited at every boundary the property names ===== *)
Example C11_boundaries_in_limits :
  ureal_limits (Fin 1) (Fin 0) (Fin 1) /\ ureal_limits (Fin (-2)) (Fin 3) PInf /\
  ucomplex_limits (Fin 1) (Fin 2) (USeq [Fin 0; Fin 1]) (Fin 1) /\
  ucomplex_limits (Fin 1) (Fin 2) (USeq [Fin 1; Fin (-1); Fin (-1); Fin 1]) PInf /\
  r_limits (Fin 1) true /\ r_limits (Fin (-1)) false.
Proof.
  unfold ureal_limits, ucomplex_limits, uarg_limits, is_fin, lim_u, lim_df, r_limits.
  split; [|split; [|split; [|split; [|split]]]].
  - repeat split; eauto; try (eexists; split; [reflexivity|lra]); right; eexists; split; [reflexivity|lra].
  - repeat split; eauto; eexists; split; [reflexivity|lra].
  - repeat split; eauto; try (eexists; split; [reflexivity|lra]); right; eexists; split; [reflexivity|lra].
  - split; [eauto|split; [eauto|split; [auto|]]].
    exists 1, (-1), 1. repeat split; try lra. right. rewrite sqrt_1.
    pose proof tol_gt_1. repeat split; try lra. unfold Rabs. destruct (Rcase_abs (-1)); lra.
  - exists 1. repeat split; auto; lra.
  - exists (-1). repeat split; try lra; try discriminate.
Qed.

(* a session state meeting the hypotheses of C11_set_correlation_pair_decision with a legal pair *)
Definition ex_k1 : key := (1%Z, 1%Z).
Definition ex_k2 : key := (1%Z, 2%Z).
Definition ex_l1 : KTypes.leaf ext := mkLeaf (Fin 1) DInf false [(ex_k1, Fin 1)] 0%nat None None.
Definition ex_l2 : KTypes.leaf ext := mkLeaf (Fin 2) DInf false [(ex_k2, Fin 1)] 1%nat None None.
Definition ex_s : KTypes.state ext := mkS 1%Z 2%Z 0%Z [(ex_k1, ex_l1); (ex_k2, ex_l2)] [] [[]; []] [].
Definition ex_o1 : KTypes.ureal ext := mkU (Fin 5) [] [(ex_k1, Fin 1)] [] (LeafRef ex_k1).
Definition ex_o2 : KTypes.ureal ext := mkU (Fin 6) [] [(ex_k2, Fin 2)] [] (LeafRef ex_k2).

Example C11_pair_nonvacuous :
  Kernel.assoc (s_leaves ex_s) ex_k1 = Some ex_l1 /\ Kernel.assoc (s_leaves ex_s) ex_k2 = Some ex_l2 /\
  slot_of ENum [DSReal ex_o1; DSReal ex_o2] (ASlot 0) = Some (DSReal ex_o1) /\
  slot_of ENum [DSReal ex_o1; DSReal ex_o2] (ASlot 1) = Some (DSReal ex_o2) /\
  legal_pair ex_s ex_l1 ex_l2 ex_k2 /\ r_limits (Fin (-1)) (keqb ex_k1 ex_k2).
Proof.
  repeat split; try reflexivity.
  - left; split; reflexivity.
  - exists (-1). repeat split; try lra. vm_compute. discriminate.
Qed.

(* binary64: boundary values accepted / first value outside rejected *)
Example C11_binary64_boundaries :
  g_ureal F0 1%float 0%float 1%float = Ok (RD_constant 1%float) /\
  g_ureal F0 1%float 1%float 0x1.fffffffffffffp-1%float = Err ValueError /\
  g_set_correlation_real F0 1%float true true false false false = Ok tt /\
  g_set_correlation_real F0 0x1.0000000000001p0%float true true false false false = Err ValueError.
Proof. repeat split; vm_compute; reflexivity. Qed.

(* ===== axioms =====
   One Print Assumptions over the tuple of ALL theorems and examples of this file (the axioms of
   each of them are a subset of what is printed; printing them one by one costs ~1 s each because
   of the size of the Reals closure, 20 s per run).  Expected: the classical real-number axioms
   of the Coq standard library and the primitive float/int63 operations, nothing of ours. *)
Definition C11_all_theorems :=
  (C11_kernel_ureal_is_generated,
   C11_kernel_set_correlation_real_is_generated,
   C11_ureal_decision,
   C11_ureal_rejects_with_ValueError,
   C11_ureal_result,
   C11_ureal_accepts_iff_in_limits,
   C11_rejected_ureal_no_effect,
   C11_ucomplex_decision,
   C11_ucomplex_reject_classes,
   C11_ucomplex_result_good,
   C11_multiple_ureal_decision,
   C11_rejected_multiple_ureal_only_appends,
   C11_extends_keeps_every_leaf,
   C11_set_correlation_real_decision,
   C11_set_correlation_rejects_nan_and_infinities,
   C11_set_correlation_pair_decision,
   C11_rejected_set_correlation_pair_no_effect,
   C11_rejected_set_correlation_no_effect,
   C11_former_witnesses_repaired,
   C11_no_bad_number,
   C11_elementary_rechecks_pass_after_core,
   C11_elementary_guard_nan_refuted,
   C11_complex_elementary_r_requires_dependent,
   C11_boundaries_in_limits,
   C11_pair_nonvacuous,
   C11_binary64_boundaries).
Print Assumptions C11_all_theorems.

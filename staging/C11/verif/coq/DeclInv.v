(* DeclInv.v -- theorems about the declaration layer (property C11), part 2: the STATE MACHINE of
   Decl.v run over the extended reals (ENum).
     * no_bad_number: every Leaf ever created by a program of declaration operations has
       0 <= u (not NaN, finite), df >= 1 or inf, and every stored correlation coefficient is a
       number with |r| <= 1 + 1e-10 -- or NaN (faithful: set_correlation accepts NaN); without NaN
       coefficients in the program the NaN alternative disappears;
     * a rejected ureal / ucomplex / real set_correlation leaves the state IDENTICAL; a rejected
       multiple_ureal / multiple_ucomplex only appends unreachable leaves (uid counter);
     * the state-level decision table of set_correlation between two elementary uncertain reals. *)
From Coq Require Import ZArith List Bool Reals Lra Lia.
From GTCV Require Import Num RNum Vector VectorFacts Opres KTypes Kernel DeclTypes Decl ENum DeclFacts.
From GTCV.gen Require Import Gen_core_checks.
Import ListNotations.
Local Open Scope R_scope.

Notation state := (KTypes.state ext).
Notation leaf := (KTypes.leaf ext).
Notation ureal := (KTypes.ureal ext).
Notation M := (Decl.M ENum).

(* ---------- association lists ---------- *)
Lemma assoc_app {A} (l l' : list (key * A)) k :
  Kernel.assoc (l ++ l') k = match Kernel.assoc l k with Some a => Some a | None => Kernel.assoc l' k end.
Proof. induction l as [|[k' a] l IH]; simpl; auto. destruct (keqb k k'); auto. Qed.

Lemma assoc_assoc_set {A} (l : list (key * A)) k a k' :
  Kernel.assoc (assoc_set l k a) k' = if keqb k' k then Some a else Kernel.assoc l k'.
Proof.
  induction l as [|[k0 a0] l IH]; simpl.
  - destruct (keqb k' k); auto.
  - destruct (keqb k k0) eqn:E.
    + apply keqb_eq in E; subst k0. simpl. destruct (keqb k' k); auto.
    + simpl. destruct (keqb k' k0) eqn:E0.
      * destruct (keqb k' k) eqn:E1; auto.
        apply keqb_eq in E0; apply keqb_eq in E1; subst. rewrite keqb_refl in E; discriminate.
      * apply IH.
Qed.

Lemma Forall_assoc_set {A} (P : key * A -> Prop) (l : list (key * A)) k a :
  Forall P l -> P (k, a) -> Forall P (assoc_set l k a).
Proof.
  induction l as [|[k0 a0] l IH]; simpl; intros Hl Hp.
  - constructor; auto.
  - inversion Hl; subst. destruct (keqb k k0); constructor; auto.
Qed.

(* ---------- the monad ---------- *)
Definition preserves (I : state -> Prop) {A} (m : M A) : Prop := forall s, I s -> I (fst (m s)).

Lemma pres_ret I {A} (a : A) : preserves I (mret ENum a).
Proof. intros s H; exact H. Qed.
Lemma pres_fail I {A} e : preserves I (@mfail ENum A e).
Proof. intros s H; exact H. Qed.
Lemma pres_lift I {A} (r : res A) : preserves I (mlift ENum r).
Proof. intros s H; exact H. Qed.
Lemma pres_get I : preserves I (mget ENum).
Proof. intros s H; exact H. Qed.

Lemma pres_bind I {A B} (m : M A) (f : A -> M B) :
  preserves I m -> (forall a, preserves I (f a)) -> preserves I (mbind ENum m f).
Proof.
  intros Hm Hf s Hs. unfold mbind. specialize (Hm s Hs).
  destruct (m s) as [s' [a|e]]; simpl in *; auto. apply Hf; auto.
Qed.

Lemma pres_bind_lift I {A B} (r : res A) (f : A -> M B) :
  (forall a, r = Ok a -> preserves I (f a)) -> preserves I (mbind ENum (mlift ENum r) f).
Proof.
  intros Hf s Hs. unfold mbind, mlift. destruct r as [a|e]; simpl; auto. apply Hf; auto.
Qed.

Lemma pres_mmap I {A B} (f : A -> M B) (l : list A) :
  (forall a, In a l -> preserves I (f a)) -> preserves I (mmap ENum f l).
Proof.
  induction l as [|a l IH]; intros H; simpl.
  - apply pres_ret.
  - apply pres_bind; [apply H; left; auto|]. intros b.
    apply pres_bind; [apply IH; intros; apply H; right; auto|]. intros bs. apply pres_ret.
Qed.

(* ---------- good leaves ---------- *)
Definition corr_ok (r : ext) : Prop := exists q, r = Fin q /\ Rabs q <= tol.
Definition good_df (d : dfval ext) : Prop := d = DInf \/ exists r, d = DFin (Fin r) /\ 1 <= r.
Definition good_leaf (l : leaf) : Prop :=
  lim_u (l_u l) /\ good_df (l_df l) /\ Forall (fun kr => corr_ok (snd kr)) (l_corr l).
Definition Inv (s : state) : Prop :=
  forall k l, Kernel.assoc (s_leaves s) k = Some l -> good_leaf l.

Lemma corr_ok_one : corr_ok (Fin 1).
Proof. exists 1. split; auto. rewrite Rabs_R1. pose proof tol_gt_1; lra. Qed.

Lemma good_df_of df : lim_df df -> good_df (df_of ENum df).
Proof.
  intros [->|[r [-> Hr]]]; unfold df_of, good_df; cbn.
  - left. unfold Rltb. destruct (Rlt_dec 0 0); try lra. cbn. auto.
  - right; eauto.
Qed.

(* ---------- primitive state changes ---------- *)
Lemma pres_new_elementary x u df indep :
  lim_u u -> lim_df df -> preserves Inv (new_elementary ENum x u df indep).
Proof.
  intros Hu Hdf s Hs k l. unfold new_elementary; simpl; change (T ENum) with ext in *. rewrite assoc_app.
  destruct (Kernel.assoc (s_leaves s) k) eqn:E.
  - intros H; injection H as <-. eapply Hs; eauto.
  - simpl. destruct (keqb k (s_ctx s, (s_ne s + 1)%Z)); [|discriminate].
    intros H; injection H as <-. repeat split; simpl; auto using good_df_of.
    destruct indep; constructor; auto. apply corr_ok_one.
Qed.

Lemma pres_upd_leaf k f :
  (forall l, good_leaf l -> good_leaf (f l)) -> preserves Inv (upd_leaf ENum k f).
Proof.
  intros Hf s Hs. unfold upd_leaf; cbn beta; change (T ENum) with ext in *. destruct (Kernel.assoc (s_leaves s) k) eqn:E; simpl; auto.
  intros k' l'. unfold set_leaves; simpl. rewrite assoc_assoc_set.
  destruct (keqb k' k).
  - intros H; injection H as <-. apply Hf. eapply Hs; eauto.
  - apply Hs.
Qed.

Lemma pres_assign_corr k k' r :
  corr_ok r -> preserves Inv (assign_corr ENum k k' r).
Proof.
  intros Hr s Hs. unfold assign_corr; cbn beta; change (T ENum) with ext in *. destruct (Kernel.assoc (s_leaves s) k) eqn:E; simpl; auto.
  destruct (l_indep l); simpl; auto.
  intros k0 l0. unfold set_leaves; simpl. rewrite assoc_assoc_set.
  destruct (keqb k0 k).
  - intros H; injection H as <-. destruct (Hs _ _ E) as (A & B & C).
    repeat split; simpl; auto. apply Forall_assoc_set; auto.
  - apply Hs.
Qed.

Lemma good_set_cplx c l : good_leaf l -> good_leaf (set_cplx ENum c l).
Proof. intros (A & B & C); repeat split; auto. Qed.

Lemma inv_set_leaf_ens s k eid : Inv s -> Inv (set_leaf_ens ENum s k eid).
Proof.
  intros Hs. unfold set_leaf_ens; change (T ENum) with ext in *. destruct (Kernel.assoc (s_leaves s) k) eqn:E; auto.
  intros k' l'. unfold set_leaves; simpl. rewrite assoc_assoc_set.
  destruct (keqb k' k).
  - intros H; injection H as <-. destruct (Hs _ _ E) as (A & B & C). repeat split; auto.
  - apply Hs.
Qed.

Lemma pres_ensemble_of_keys ks : preserves Inv (ensemble_of_keys ENum ks).
Proof.
  intros s Hs. unfold ensemble_of_keys; simpl.
  set (s1 := mkS _ _ _ _ _ _ _).
  assert (H1 : Inv s1) by exact Hs.
  clearbody s1. revert s1 H1. induction ks as [|k ks IH]; simpl; intros s1 H1; auto.
  apply IH. apply inv_set_leaf_ens; auto.
Qed.

(* ---------- the declaring functions preserve the invariant ---------- *)
Lemma pres_elementary_g x u df indep :
  lim_u u -> lim_df df -> preserves Inv (elementary_g ENum x u df indep).
Proof.
  intros Hu Hd. unfold elementary_g. apply pres_bind_lift. intros _ _. apply pres_new_elementary; auto.
Qed.

Lemma pres_ureal_g x u df indep : preserves Inv (ureal_g ENum x u df indep).
Proof.
  unfold ureal_g. apply pres_bind_lift. intros d Hd.
  assert (L : ureal_limits x u df) by (apply ureal_accept_iff; eauto).
  destruct (ureal_ok_shape _ _ _ _ Hd) as [[_ ->]|[-> _]].
  - apply pres_ret.
  - destruct L as (_ & Hu & Hdf). apply pres_elementary_g; auto.
Qed.

Lemma pres_ucomplex_elementary zre zim u_r u_i r df indep :
  lim_u u_r -> lim_u u_i -> lim_df df -> (forall rv, r = Some rv -> corr_ok rv) ->
  preserves Inv (ucomplex_elementary ENum zre zim u_r u_i r df indep).
Proof.
  intros H1 H2 H3 H4. unfold ucomplex_elementary.
  apply pres_bind; [apply pres_elementary_g; auto|]. intros re.
  apply pres_bind; [apply pres_elementary_g; auto|]. intros im.
  destruct (leaf_key ENum re), (leaf_key ENum im); try apply pres_fail.
  apply pres_bind; [apply pres_upd_leaf; apply good_set_cplx|]. intros _.
  apply pres_bind; [apply pres_upd_leaf; apply good_set_cplx|]. intros _.
  destruct r as [rv|]; [|apply pres_ret].
  apply pres_bind; [apply pres_assign_corr; auto|]. intros _.
  apply pres_bind; [apply pres_assign_corr; auto|]. intros _. apply pres_ret.
Qed.

Lemma g_ucomplex_is zre zim u df indep : g_ucomplex ENum zre zim u df indep = g_ucomplex_e zre zim u df indep.
Proof. reflexivity. Qed.

Lemma lim_df_of_ucomplex zre zim u df indep d : g_ucomplex_e zre zim u df indep = Ok d -> lim_df df.
Proof. intros H. assert (L : ucomplex_limits zre zim u df) by (apply (ucomplex_accept_iff zre zim u df indep); eauto). apply L. Qed.

Lemma pres_ucomplex_g zre zim u df indep : preserves Inv (ucomplex_g ENum zre zim u df indep).
Proof.
  unfold ucomplex_g. rewrite g_ucomplex_is. apply pres_bind_lift. intros d Hd.
  pose proof (ucomplex_good _ _ _ _ _ _ Hd) as G. pose proof (lim_df_of_ucomplex _ _ _ _ _ _ Hd) as Ldf.
  destruct d as [a b|a b ur ui r df' ind']; [apply pres_ret|].
  destruct G as (Hur & Hui & -> & Hr).
  apply pres_ucomplex_elementary; auto.
  intros rv ->. destruct Hr as (_ & q & -> & Hq). exists q; auto.
Qed.

Lemma pres_multiple_ureal_g xs us df : preserves Inv (multiple_ureal_g ENum xs us df).
Proof.
  unfold multiple_ureal_g. destruct (negb _); [apply pres_fail|].
  apply pres_bind; [apply pres_mmap; intros; apply pres_ureal_g|]. intros objs.
  apply pres_bind; [apply pres_ensemble_of_keys|]. intros _. apply pres_ret.
Qed.

Lemma pres_multiple_ucomplex_g zs us df : preserves Inv (multiple_ucomplex_g ENum zs us df).
Proof.
  unfold multiple_ucomplex_g. destruct (negb _); [apply pres_fail|].
  apply pres_bind; [apply pres_mmap; intros; apply pres_ucomplex_g|]. intros objs.
  apply pres_bind; [apply pres_ensemble_of_keys|]. intros _. apply pres_ret.
Qed.

(* ---------- set_correlation ---------- *)
(* ---------- set_correlation ---------- *)
Lemma corr_ok_of_accept r e1 e2 i1 i2 same :
  g_set_correlation_real ENum r e1 e2 i1 i2 same = Ok tt -> corr_ok r.
Proof.
  intros H. apply set_correlation_real_accept_iff in H. destruct H as [_ (q & -> & Hq & _)].
  exists q. split; auto. pose proof tol_gt_1. unfold Rabs; destruct (Rcase_abs q); lra.
Qed.

Lemma pres_check I r o1 o2 : preserves I (check_correlation_real ENum r o1 o2).
Proof.
  unfold check_correlation_real.
  apply pres_bind; [apply pres_get|]. intros s0.
  apply pres_bind_lift. intros [[[i1 i2] same] ks] _.
  apply pres_bind_lift. intros [] _. apply pres_ret.
Qed.

Lemma pres_scr_g r o1 o2 : preserves Inv (set_correlation_real_g ENum r o1 o2).
Proof.
  unfold set_correlation_real_g, check_correlation_real.
  intros s Hs. unfold mbind, mget, mlift, mret. cbn [fst snd].
  change (T ENum) with ext in *.
  destruct (scr_flags ENum s o1 o2) as [[[[i1 i2] same] ks]|e]; cbn [fst snd]; auto.
  destruct (g_set_correlation_real ENum r (is_elem ENum o1) (is_elem ENum o2) i1 i2 same) as [[]|e] eqn:Hacc; cbn [fst snd]; auto.
  pose proof (corr_ok_of_accept _ _ _ _ _ _ Hacc) as Hr.
  destruct ks as [[k1 k2]|]; [|exact Hs].
  pose proof (pres_assign_corr k1 k2 r Hr s Hs) as P1.
  destruct (assign_corr ENum k1 k2 r s) as [s1 [[]|e]]; cbn [fst snd] in *; auto.
  apply (pres_assign_corr k2 k1 r Hr s1 P1).
Qed.

Lemma pres_scr_seq I o1 o2 : preserves I (set_correlation_real_seq ENum o1 o2).
Proof.
  unfold set_correlation_real_seq.
  apply pres_bind; [apply pres_get|]. intros s0.
  apply pres_bind_lift. intros [[[i1 i2] same] ks] _.
  destruct (_ && _); [|apply pres_fail]. destruct (_ && _); [|apply pres_fail].
  destruct same; apply pres_fail.
Qed.

Lemma pres_scr_any r o1 o2 : preserves Inv (scr_any ENum r o1 o2).
Proof. destruct r as [v|l]; simpl; [apply pres_scr_g|apply pres_scr_seq]. Qed.

Lemma pres_node_df_m I o : preserves I (node_df_m ENum o).
Proof. unfold node_df_m. apply pres_bind; [apply pres_get|]. intros s0. apply pres_lift. Qed.

Lemma pres_ureal_set_correlation r self x : preserves Inv (ureal_set_correlation ENum r self x).
Proof.
  unfold ureal_set_correlation. destruct (r_is_zero ENum r); [apply pres_ret|].
  destruct x as [[o2|re im|]|]; try apply pres_fail.
  destruct (no_node ENum self || no_node ENum o2); [apply pres_fail|].
  apply pres_bind; [apply pres_node_df_m|]. intros d1.
  apply pres_bind.
  { destruct (df_is_inf ENum d1); [|apply pres_ret].
    apply pres_bind; [apply pres_node_df_m|]. intros d2. apply pres_ret. }
  intros both. destruct both; [apply pres_scr_any|].
  apply pres_bind; [apply pres_get|]. intros s0.
  destruct (ensemble_keys ENum s0 self); [|apply pres_fail].
  apply pres_bind_lift. intros u _. destruct (in_ens u l); [apply pres_scr_any|apply pres_fail].
Qed.

Lemma pres_four_checks I r0 r1 r2 r3 re im re2 im2 : preserves I (four_checks ENum r0 r1 r2 r3 re im re2 im2).
Proof.
  unfold four_checks. cbv zeta.
  repeat (apply pres_bind; [apply pres_check|]; intros _). apply pres_ret.
Qed.

Lemma pres_four_calls r0 r1 r2 r3 re im re2 im2 : preserves Inv (four_calls ENum r0 r1 r2 r3 re im re2 im2).
Proof.
  unfold four_calls.
  repeat (apply pres_bind; [apply pres_scr_g|]; intros _). apply pres_scr_g.
Qed.

Lemma pres_ucomplex_set_correlation r re im arg x : preserves Inv (ucomplex_set_correlation ENum r re im arg x).
Proof.
  unfold ucomplex_set_correlation.
  destruct arg as [i| |]; try apply pres_fail; [|apply pres_scr_any].
  destruct x as [[o2|re2 im2|]|]; try apply pres_fail.
  destruct r as [v|l]; try apply pres_fail.
  destruct l as [|r0 [|r1 [|r2 [|r3 [|r4 l]]]]]; try apply pres_fail.
  destruct (all_zero ENum _); [apply pres_ret|].
  apply pres_bind; [apply pres_four_checks|]. intros _.
  apply pres_bind; [apply pres_node_df_m|]. intros d1.
  apply pres_bind.
  { destruct (df_is_inf ENum d1); [|apply pres_ret].
    apply pres_bind; [apply pres_node_df_m|]. intros d2. apply pres_ret. }
  intros both. destruct both; [apply pres_four_calls|].
  apply pres_bind_lift. intros u _.
  apply pres_bind; [apply pres_get|]. intros s0.
  destruct (ensemble_keys ENum s0 re); [|apply pres_fail].
  destruct (in_ens u l); [apply pres_four_calls|apply pres_fail].
Qed.

Lemma pres_core_set_correlation sl r a b : preserves Inv (core_set_correlation ENum sl r a b).
Proof.
  unfold core_set_correlation. destruct (r_is_zero ENum r); [apply pres_ret|].
  destruct (slot_of ENum sl a) as [[o1|re im|]|]; try apply pres_fail.
  - apply pres_ureal_set_correlation.
  - apply pres_ucomplex_set_correlation.
Qed.

(* ---------- programs ---------- *)
Lemma inv_dstep d o : Inv (d_k d) -> Inv (d_k (fst (dstep ENum d o))).
Proof.
  intros Hd. destruct d as [s sl]; simpl in Hd. destruct o; simpl.
  - pose proof (pres_ureal_g x u df indep s Hd) as P.
    destruct (ureal_g ENum x u df indep s) as [s' [obj|e]]; exact P.
  - pose proof (pres_ucomplex_g zre zim u df indep s Hd) as P.
    destruct (ucomplex_g ENum zre zim u df indep s) as [s' [obj|e]]; exact P.
  - pose proof (pres_multiple_ureal_g xs us df s Hd) as P.
    destruct (multiple_ureal_g ENum xs us df s) as [s' [obj|e]]; exact P.
  - pose proof (pres_multiple_ucomplex_g zs us df s Hd) as P.
    destruct (multiple_ucomplex_g ENum zs us df s) as [s' [obj|e]]; exact P.
  - exact Hd.
  - exact Hd.
  - pose proof (pres_core_set_correlation sl r a b s Hd) as P.
    destruct (core_set_correlation ENum sl r a b s) as [s' [obj|e]]; exact P.
  - exact Hd.
Qed.

Lemma inv_init ctx : Inv (d_k (dinit ENum ctx)).
Proof. intros k l H; discriminate. Qed.

Lemma inv_drun p : forall d, Inv (d_k d) -> Inv (d_k (fst (drun ENum d p))).
Proof.
  induction p as [|o p IH]; intros d Hd; simpl; auto.
  destruct (dstep ENum d o) as [d' r] eqn:E.
  assert (Hd' : Inv (d_k d')).
  { replace d' with (fst (dstep ENum d o)) by (rewrite E; reflexivity). apply inv_dstep; auto. }
  specialize (IH d'). destruct (drun ENum d' p) as [d'' rs] eqn:E2. simpl.
  change d'' with (fst (d'', rs)). apply IH; auto.
Qed.

(* every leaf that ANY program of declaration operations ever creates is a good number:
   0 <= u finite, df >= 1 or inf, every stored correlation coefficient a number with
   |r| <= 1 + 1e-10.  (Before the repair of lib.set_correlation_real this needed the proviso
   "no NaN coefficient is passed to set_correlation".) *)
Theorem no_bad_number ctx p k l :
  Kernel.assoc (s_leaves (d_k (fst (drun ENum (dinit ENum ctx) p)))) k = Some l -> good_leaf l.
Proof. apply (inv_drun p (dinit ENum ctx)). apply inv_init. Qed.

(* ================= rejected declarations have no effect ================= *)
Lemma new_elementary_ok x u df indep s : exists o, snd (new_elementary ENum x u df indep s) = Ok o.
Proof. unfold new_elementary; simpl. eauto. Qed.

(* core.ureal: accepted <-> inside the limits (whatever the session state), and a rejected call
   leaves the state -- uid counter included -- exactly as it was *)
Theorem ureal_g_accept_iff x u df indep s :
  (exists o, snd (ureal_g ENum x u df indep s) = Ok o) <-> ureal_limits x u df.
Proof.
  rewrite <- ureal_accept_iff. unfold ureal_g, mbind, mlift.
  destruct (g_ureal ENum x u df) as [d|e] eqn:G; simpl.
  - split; [eauto|intros _].
    assert (L : ureal_limits x u df) by (apply ureal_accept_iff; eauto).
    destruct (ureal_ok_shape _ _ _ _ G) as [[_ ->]|[-> _]]; [simpl; eauto|].
    destruct L as (_ & Hu & Hdf). unfold elementary_g, mbind, mlift.
    rewrite (elementary_guard_after_core _ _ Hu Hdf). apply new_elementary_ok.
  - split; intros [o H]; discriminate.
Qed.

Theorem ureal_g_rejected_no_effect x u df indep s e :
  snd (ureal_g ENum x u df indep s) = Err e -> fst (ureal_g ENum x u df indep s) = s /\ e = ValueError.
Proof.
  intros H.
  destruct (g_ureal ENum x u df) as [d|e'] eqn:G.
  - exfalso. assert (L : ureal_limits x u df) by (apply ureal_accept_iff; eauto).
    apply (ureal_g_accept_iff x u df indep s) in L. destruct L as [o Ho]. congruence.
  - unfold ureal_g, mbind, mlift in *. rewrite G in *. simpl in *. injection H as <-.
    split; [reflexivity|]. eapply ureal_reject_exn; eauto.
Qed.

(* state s' extends s: leaves and ensembles are only appended, nothing that existed is touched *)
Definition extends (s s' : state) : Prop :=
  exists la le, s_leaves s' = s_leaves s ++ la /\ s_ens s' = s_ens s ++ le /\
                s_nodes s' = s_nodes s /\ s_ctx s' = s_ctx s /\ s_slots s' = s_slots s.

Lemma extends_refl s : extends s s.
Proof. exists [], []. rewrite !app_nil_r. auto. Qed.
Lemma extends_trans s1 s2 s3 : extends s1 s2 -> extends s2 s3 -> extends s1 s3.
Proof.
  intros (la & le & A & B & C & D & E) (la' & le' & A' & B' & C' & D' & E').
  exists (la ++ la'), (le ++ le'). rewrite A', B', A, B, !app_assoc. repeat split; congruence.
Qed.

Lemma extends_old_leaves s s' k l :
  extends s s' -> Kernel.assoc (s_leaves s) k = Some l -> Kernel.assoc (s_leaves s') k = Some l.
Proof. intros (la & le & A & _) H. rewrite A, assoc_app, H. reflexivity. Qed.

Lemma extends_old_ens s s' i :
  extends s s' -> (i < length (s_ens s))%nat -> nth i (s_ens s') [] = nth i (s_ens s) [].
Proof. intros (la & le & _ & B & _) H. rewrite B, app_nth1; auto. Qed.

Definition ext_m {A} (m : M A) : Prop := forall s, extends s (fst (m s)).

Lemma ext_bind {A B} (m : M A) (f : A -> M B) : ext_m m -> (forall a, ext_m (f a)) -> ext_m (mbind ENum m f).
Proof.
  intros Hm Hf s. unfold mbind. specialize (Hm s).
  destruct (m s) as [s' [a|e]]; simpl in *; auto. eapply extends_trans; [exact Hm|apply Hf].
Qed.
Lemma ext_ret {A} (a : A) : ext_m (mret ENum a).
Proof. intros s; apply extends_refl. Qed.
Lemma ext_lift {A} (r : res A) : ext_m (mlift ENum r).
Proof. intros s; apply extends_refl. Qed.
Lemma ext_mmap {A B} (f : A -> M B) (l : list A) : (forall a, ext_m (f a)) -> ext_m (mmap ENum f l).
Proof.
  intros Hf. induction l as [|a l IH]; simpl; [apply ext_ret|].
  apply ext_bind; [apply Hf|]. intros b. apply ext_bind; [apply IH|]. intros bs. apply ext_ret.
Qed.

Lemma ureal_g_extends x u df indep : ext_m (ureal_g ENum x u df indep).
Proof.
  unfold ureal_g. apply ext_bind; [apply ext_lift|]. intros [x'|x' u' df']; [apply ext_ret|].
  unfold elementary_g. apply ext_bind; [apply ext_lift|]. intros _ s.
  eexists [_], [_]. simpl. repeat split; reflexivity.
Qed.

Lemma mbind_run {A B} (m : M A) (f : A -> M B) s :
  mbind ENum m f s = match m s with (s', Ok a) => f a s' | (s', Err e) => (s', Err e) end.
Proof. reflexivity. Qed.

(* core.multiple_ureal: a rejected call (unequal lengths, or any element outside the limits) may
   have consumed uids -- leaves were appended that no returned object refers to -- but every leaf
   and every ensemble that existed is unchanged *)
Theorem multiple_ureal_rejected_extends xs us df s e :
  snd (multiple_ureal_g ENum xs us df s) = Err e -> extends s (fst (multiple_ureal_g ENum xs us df s)).
Proof.
  unfold multiple_ureal_g. destruct (negb _); simpl; [intros _; apply extends_refl|].
  rewrite mbind_run.
  pose proof (ext_mmap (fun xu => ureal_g ENum (fst xu) (snd xu) df false) (combine xs us)
                       (fun a => ureal_g_extends _ _ _ _) s) as E1.
  change (T ENum) with ext in *.
  destruct (mmap ENum _ (combine xs us) s) as [s1 [objs|e1]]; simpl in *; auto.
  intros H; discriminate.
Qed.


Lemma mmap_ureal_accept_iff df l : forall s,
  (exists os, snd (mmap ENum (fun xu => ureal_g ENum (fst xu) (snd xu) df false) l s) = Ok os) <->
  Forall (fun xu => ureal_limits (fst xu) (snd xu) df) l.
Proof.
  induction l as [|a l IH]; intros s; simpl.
  - split; [constructor|intros _; unfold mret; simpl; eauto].
  - rewrite mbind_run.
    pose proof (ureal_g_accept_iff (fst a) (snd a) df false s) as A.
    change (T ENum) with ext in *.
    destruct (ureal_g ENum (fst a) (snd a) df false s) as [s1 [o|e]]; simpl in *.
    + rewrite mbind_run. specialize (IH s1). change (T ENum) with ext in *.
      destruct (mmap ENum _ l s1) as [s2 [os|e]]; simpl in *.
      * split; [intros _|unfold mret; simpl; eauto].
        constructor; [apply A; eauto|apply IH; eauto].
      * split; [intros [os H]; discriminate|intros H; inversion H as [|? ? H2 H3]; subst].
        apply IH in H3. destruct H3; discriminate.
    + split; [intros [os H]; discriminate|intros H; inversion H as [|? ? H2 H3]; subst].
      apply A in H2. destruct H2; discriminate.
Qed.


(* core.multiple_ureal is accepted exactly when the sequences have equal length and every element
   is inside the limits of ureal (for empty sequences the dof is not looked at) *)
Theorem multiple_ureal_accept_iff xs us df s :
  (exists os, snd (multiple_ureal_g ENum xs us df s) = Ok os) <->
  length xs = length us /\ Forall (fun xu => ureal_limits (fst xu) (snd xu) df) (combine xs us).
Proof.
  unfold multiple_ureal_g. destruct (Nat.eqb (length xs) (length us)) eqn:E; simpl.
  - apply Nat.eqb_eq in E. rewrite <- (mmap_ureal_accept_iff df (combine xs us) s).
    rewrite mbind_run. change (T ENum) with ext in *.
    destruct (mmap ENum _ (combine xs us) s) as [s1 [objs|e1]]; simpl.
    + split; eauto.
    + split; [intros [os H]; discriminate|intros [_ [os H]]; discriminate].
  - apply Nat.eqb_neq in E. split; [intros [os H]; discriminate|intros [H _]; contradiction].
Qed.


(* ================= set_correlation between two elementary uncertain reals ================= *)
(* the pair may be correlated: both declared independent=False, and either both with infinite
   dof or declared together (second in the ensemble of the first) *)
Definition legal_pair (s : state) (l1 l2 : leaf) (k2 : key) : Prop :=
  l_indep l1 = false /\ l_indep l2 = false /\
  ((l_df l1 = DInf /\ l_df l2 = DInf) \/ In k2 (ens_of ENum s l1)).

Lemma kmem_In k l : kmem k l = true <-> In k l.
Proof.
  induction l as [|k' l IH]; simpl; [split; [discriminate|tauto]|].
  rewrite orb_true_iff, IH, keqb_eq. split; intros [H|H]; auto.
Qed.

Lemma assign_corr_ok k k' r s l :
  Kernel.assoc (s_leaves s) k = Some l -> l_indep l = false ->
  assign_corr ENum k k' r s = (set_leaves ENum s (assoc_set (s_leaves s) k (set_corr ENum k' r l)), Ok tt).
Proof. intros H Hi. unfold assign_corr. change (T ENum) with ext in *. rewrite H, Hi. reflexivity. Qed.

Section RealPair.
  Variables (s : state) (o1 o2 : ureal) (k1 k2 : key) (l1 l2 : leaf).
  Hypothesis (N1 : unode o1 = LeafRef k1) (N2 : unode o2 = LeafRef k2).
  Hypothesis (L1 : Kernel.assoc (s_leaves s) k1 = Some l1) (L2 : Kernel.assoc (s_leaves s) k2 = Some l2).

  Lemma scr_g_real_pair r :
    (snd (set_correlation_real_g ENum r o1 o2 s) = Ok tt <->
       l_indep l1 = false /\ l_indep l2 = false /\ r_limits r (keqb k1 k2)) /\
    (forall e, snd (set_correlation_real_g ENum r o1 o2 s) = Err e ->
       fst (set_correlation_real_g ENum r o1 o2 s) = s /\ (e = ValueError \/ e = RuntimeError)).
  Proof.
    unfold set_correlation_real_g, check_correlation_real, mbind, mget, mlift, mret, scr_flags, is_elem, leaf_of.
    change (T ENum) with ext in *. rewrite N1, N2, L1, L2. cbn [bind fst snd].
    pose proof (set_correlation_real_accept_iff r true true (l_indep l1) (l_indep l2) (keqb k1 k2)) as A.
    pose proof (set_correlation_real_reject_exn r true true (l_indep l1) (l_indep l2) (keqb k1 k2)) as B.
    destruct (g_set_correlation_real ENum r true true (l_indep l1) (l_indep l2) (keqb k1 k2)) as [[]|e0]; cbn [fst snd].
    - destruct (proj1 A eq_refl) as [(_ & _ & I1 & I2) Hr].
      rewrite (assign_corr_ok k1 k2 r s l1 L1 I1). cbn [fst snd].
      assert (L2' : exists l2', Kernel.assoc (s_leaves (set_leaves ENum s (assoc_set (s_leaves s) k1 (set_corr ENum k2 r l1)))) k2 = Some l2'
                                /\ l_indep l2' = false).
      { unfold set_leaves; simpl. rewrite assoc_assoc_set. destruct (keqb k2 k1) eqn:E.
        - eexists; split; [reflexivity|]. exact I1.
        - exists l2; auto. }
      destruct L2' as (l2' & L2' & I2').
      pose proof (assign_corr_ok k2 k1 r _ l2' L2' I2') as X2. change (T ENum) with ext in *. rewrite X2. cbn [fst snd].
      split; [split; [intros _; auto|reflexivity]|intros e H; discriminate].
    - split.
      + split; [intros H; discriminate|]. intros (I1 & I2 & Hr).
        exfalso. assert (Y : @Err unit e0 = Ok tt) by (apply A; unfold sc_flags_ok; auto). discriminate.
      + intros e H. injection H as <-. split; [reflexivity|].
        destruct (B e0 eq_refl) as [[_ [H|H]]|[[-> _]|[-> _]]]; try discriminate; auto.
  Qed.

  Lemma node_df_m_1 : node_df_m ENum o1 s = (s, Ok (l_df l1)).
  Proof. unfold node_df_m, mbind, mget, mlift, node_df, leaf_of. change (T ENum) with ext in *. rewrite N1, L1. reflexivity. Qed.
  Lemma node_df_m_2 : node_df_m ENum o2 s = (s, Ok (l_df l2)).
  Proof. unfold node_df_m, mbind, mget, mlift, node_df, leaf_of. change (T ENum) with ext in *. rewrite N2, L2. reflexivity. Qed.

  Lemma df_is_inf_iff (d : dfval ext) : df_is_inf ENum d = true <-> d = DInf.
  Proof. destruct d; simpl; split; intros H; try discriminate; auto. Qed.

  (* UncertainReal.set_correlation(self=x1, r, x2) for a non-zero numeric r *)
  Lemma ureal_set_correlation_pair r :
    r_is_zero ENum (RScalar r) = false ->
    (snd (ureal_set_correlation ENum (RScalar r) o1 (Some (DSReal o2)) s) = Ok tt <->
       legal_pair s l1 l2 k2 /\ r_limits r (keqb k1 k2)) /\
    (forall e, snd (ureal_set_correlation ENum (RScalar r) o1 (Some (DSReal o2)) s) = Err e ->
       fst (ureal_set_correlation ENum (RScalar r) o1 (Some (DSReal o2)) s) = s /\ (e = ValueError \/ e = RuntimeError)).
  Proof.
    intros Hz. unfold ureal_set_correlation. rewrite Hz.
    unfold no_node. change (T ENum) with ext in *. rewrite N1, N2. cbn [orb].
    rewrite mbind_run, node_df_m_1. rewrite mbind_run.
    assert (Both : (if df_is_inf ENum (l_df l1)
                    then mbind ENum (node_df_m ENum o2) (fun d2 => mret ENum (df_is_inf ENum d2))
                    else mret ENum false) s
                   = (s, Ok (df_is_inf ENum (l_df l1) && df_is_inf ENum (l_df l2)))).
    { destruct (df_is_inf ENum (l_df l1)); [|reflexivity]. rewrite mbind_run, node_df_m_2. reflexivity. }
    change (T ENum) with ext in *. rewrite Both. clear Both.
    unfold legal_pair.
    destruct (df_is_inf ENum (l_df l1) && df_is_inf ENum (l_df l2)) eqn:BI.
    - apply andb_true_iff in BI. destruct BI as [B1 B2]. apply df_is_inf_iff in B1, B2.
      unfold scr_any. destruct (scr_g_real_pair r) as [P Q]. split; [|exact Q].
      rewrite P. split; [intros (A & B & C); repeat split; auto|intros ((A & B & _) & C); auto].
    - assert (NB : ~ (l_df l1 = DInf /\ l_df l2 = DInf)).
      { intros [B1 B2]. apply df_is_inf_iff in B1, B2. rewrite B1, B2 in BI. discriminate. }
      rewrite mbind_run. unfold mget. unfold ensemble_keys. change (T ENum) with ext in *. rewrite N1, L1.
      destruct (l_indep l1) eqn:I1.
      { unfold mfail; cbn [fst snd]. split.
        - split; [intros H; discriminate|intros ((H & _) & _); discriminate].
        - intros e H. injection H as <-. auto. }
      rewrite mbind_run. unfold mlift, node_uid. change (T ENum) with ext in *. rewrite N2. cbn [in_ens].
      destruct (kmem k2 (ens_of ENum s l1)) eqn:KM.
      + apply kmem_In in KM. unfold scr_any. destruct (scr_g_real_pair r) as [P Q]. split; [|exact Q].
        rewrite P. split; [intros (A & B & C); repeat split; auto|intros ((A & B & _) & C); auto].
      + unfold mfail; cbn [fst snd]. split.
        * split; [intros H; discriminate|intros ((_ & _ & [H|H]) & _); [contradiction|]].
          apply kmem_In in H. congruence.
        * intros e H. injection H as <-. auto.
  Qed.

  (* core.set_correlation(r, x1, x2) with a numeric r: accepted <-> r = 0 (no-op), or both declared
     independent=False and (both infinite dof, or declared together) and r in [-1,1] (only 1 between a
     number and itself) *)
  Theorem set_correlation_real_pair_accept_iff sl a b r :
    slot_of ENum sl a = Some (DSReal o1) -> slot_of ENum sl b = Some (DSReal o2) ->
    (snd (core_set_correlation ENum sl (RScalar r) a b s) = Ok tt <->
       r = Fin 0 \/ (legal_pair s l1 l2 k2 /\ r_limits r (keqb k1 k2))).
  Proof.
    intros Sa Sb. unfold core_set_correlation. rewrite Sa, Sb.
    destruct (r_is_zero ENum (RScalar r)) eqn:Z.
    - cbn [mret snd]. split; [intros _; left|reflexivity].
      unfold r_is_zero in Z. destruct r as [q| | |]; cbn in Z; try discriminate.
      apply Reqb_true in Z. subst; reflexivity.
    - rewrite (proj1 (ureal_set_correlation_pair r Z)).
      split; [auto|intros [->|H]; [|exact H]].
      unfold r_is_zero in Z. cbn in Z. unfold Reqb in Z. destruct (Req_EM_T 0 0); [discriminate|contradiction].
  Qed.

  Theorem set_correlation_real_pair_rejected_no_effect sl a b r e :
    slot_of ENum sl a = Some (DSReal o1) -> slot_of ENum sl b = Some (DSReal o2) ->
    snd (core_set_correlation ENum sl (RScalar r) a b s) = Err e ->
    fst (core_set_correlation ENum sl (RScalar r) a b s) = s /\ (e = ValueError \/ e = RuntimeError).
  Proof.
    intros Sa Sb. unfold core_set_correlation. rewrite Sa, Sb.
    destruct (r_is_zero ENum (RScalar r)) eqn:Z.
    - cbn [mret snd]. intros H; discriminate.
    - apply (proj2 (ureal_set_correlation_pair r Z)).
  Qed.
End RealPair.

(* ================= every rejected set_correlation leaves the state identical ================= *)
(* (real/real, complex alone, complex/complex, any operands, any coefficient form).  Before the
   repair of UncertainComplex.set_correlation the complex/complex form could fail after some of
   its four coefficients had been assigned, and rejections could come as AttributeError. *)
Definition flags_eq (s s' : state) : Prop :=
  forall k, option_map (@l_indep ext) (Kernel.assoc (s_leaves s) k) = option_map (@l_indep ext) (Kernel.assoc (s_leaves s') k).

Lemma flags_eq_refl s : flags_eq s s.
Proof. intros k; reflexivity. Qed.
Lemma flags_eq_trans s1 s2 s3 : flags_eq s1 s2 -> flags_eq s2 s3 -> flags_eq s1 s3.
Proof. intros A B k. rewrite A. apply B. Qed.

Lemma assign_corr_flags k k' r s l :
  Kernel.assoc (s_leaves s) k = Some l -> l_indep l = false ->
  flags_eq s (fst (assign_corr ENum k k' r s)).
Proof.
  intros H Hi. rewrite (assign_corr_ok k k' r s l H Hi). cbn [fst]. intros k0.
  unfold set_leaves; cbn [s_leaves]. rewrite assoc_assoc_set.
  destruct (keqb k0 k) eqn:E; [|reflexivity].
  apply keqb_eq in E; subst k0. rewrite H. cbn. rewrite Hi. reflexivity.
Qed.

Lemma check_pure r o1 o2 s : fst (check_correlation_real ENum r o1 o2 s) = s.
Proof.
  unfold check_correlation_real, mbind, mget, mlift, mret. cbn [fst snd].
  destruct (scr_flags ENum s o1 o2) as [[[[i1 i2] same] ks]|e]; cbn [fst snd]; auto.
  destruct (g_set_correlation_real ENum r _ _ i1 i2 same) as [[]|e]; reflexivity.
Qed.

Lemma check_ok_inv r o1 o2 s ks :
  snd (check_correlation_real ENum r o1 o2 s) = Ok ks ->
  exists k1 k2 l1 l2, ks = Some (k1, k2) /\ unode o1 = LeafRef k1 /\ unode o2 = LeafRef k2 /\
    Kernel.assoc (s_leaves s) k1 = Some l1 /\ Kernel.assoc (s_leaves s) k2 = Some l2 /\
    l_indep l1 = false /\ l_indep l2 = false /\
    g_set_correlation_real ENum r true true false false (keqb k1 k2) = Ok tt.
Proof.
  unfold check_correlation_real, mbind, mget, mlift, mret, scr_flags, is_elem, leaf_of. cbn [fst snd].
  change (T ENum) with ext in *.
  destruct (unode o1) as [|lb1|k1|k1] eqn:N1, (unode o2) as [|lb2|k2|k2] eqn:N2; cbn [bind fst snd];
    try (unfold g_set_correlation_real; cbn [andb]; intros H; discriminate).
  destruct (Kernel.assoc (s_leaves s) k1) as [l1|] eqn:L1; [|intros H; discriminate].
  destruct (Kernel.assoc (s_leaves s) k2) as [l2|] eqn:L2; [|intros H; discriminate].
  cbn [bind fst snd].
  destruct (g_set_correlation_real ENum r true true (l_indep l1) (l_indep l2) (keqb k1 k2)) as [[]|e] eqn:G;
    [|intros H; discriminate].
  cbn [fst snd]. intros H; injection H as <-.
  destruct (proj1 (set_correlation_real_accept_iff _ _ _ _ _ _) G) as [(_ & _ & I1 & I2) _].
  rewrite I1, I2 in G. exists k1, k2, l1, l2. repeat split; auto.
Qed.

Lemma check_err_exn r o1 o2 s e :
  snd (check_correlation_real ENum r o1 o2 s) = Err e -> e <> AttributeError.
Proof.
  unfold check_correlation_real, mbind, mget, mlift, mret, scr_flags, leaf_of. cbn [fst snd].
  change (T ENum) with ext in *.
  assert (G : forall a b c d f e0, g_set_correlation_real ENum r a b c d f = Err e0 -> e0 <> AttributeError).
  { intros a b c d f e0 H. destruct (set_correlation_real_reject_exn _ _ _ _ _ _ _ H) as [[-> _]|[[-> _]|[-> _]]]; discriminate. }
  destruct (unode o1) as [|lb1|k1|k1], (unode o2) as [|lb2|k2|k2]; cbn [bind fst snd];
    try (destruct (g_set_correlation_real ENum r _ _ true true false) as [[]|e0] eqn:H0; cbn [fst snd];
         intros H; try discriminate; injection H as <-; eapply G; eauto).
  destruct (Kernel.assoc (s_leaves s) k1) as [l1|]; [|cbn; intros H; injection H as <-; discriminate].
  destruct (Kernel.assoc (s_leaves s) k2) as [l2|]; [|cbn; intros H; injection H as <-; discriminate].
  cbn [bind fst snd].
  destruct (g_set_correlation_real ENum r _ _ (l_indep l1) (l_indep l2) (keqb k1 k2)) as [[]|e0] eqn:H0; cbn [fst snd];
    intros H; try discriminate; injection H as <-; eapply G; eauto.
Qed.

Lemma check_flags_eq r o1 o2 s s' ks :
  flags_eq s s' -> snd (check_correlation_real ENum r o1 o2 s) = Ok ks ->
  snd (check_correlation_real ENum r o1 o2 s') = Ok ks.
Proof.
  intros F H. destruct (check_ok_inv _ _ _ _ _ H) as (k1 & k2 & l1 & l2 & -> & N1 & N2 & L1 & L2 & I1 & I2 & G).
  change (T ENum) with ext in *.
  pose proof (F k1) as F1. pose proof (F k2) as F2. rewrite L1 in F1. rewrite L2 in F2. cbn in F1, F2.
  destruct (Kernel.assoc (s_leaves s') k1) as [l1'|] eqn:L1'; [|discriminate].
  destruct (Kernel.assoc (s_leaves s') k2) as [l2'|] eqn:L2'; [|discriminate].
  cbn in F1, F2. injection F1 as F1. injection F2 as F2.
  unfold check_correlation_real, mbind, mget, mlift, mret, scr_flags, is_elem, leaf_of. cbn [fst snd].
  change (T ENum) with ext in *. rewrite N1, N2, L1', L2'. cbn [bind fst snd].
  rewrite <- F1, <- F2, I1, I2, G. reflexivity.
Qed.

(* once the checks have passed, the assigning call cannot fail, and it only touches correlations *)
Lemma scr_g_ok_of_check r o1 o2 s ks :
  snd (check_correlation_real ENum r o1 o2 s) = Ok ks ->
  snd (set_correlation_real_g ENum r o1 o2 s) = Ok tt /\ flags_eq s (fst (set_correlation_real_g ENum r o1 o2 s)).
Proof.
  intros H. destruct (check_ok_inv _ _ _ _ _ H) as (k1 & k2 & l1 & l2 & -> & N1 & N2 & L1 & L2 & I1 & I2 & G).
  change (T ENum) with ext in *.
  unfold set_correlation_real_g. rewrite mbind_run.
  pose proof (check_pure r o1 o2 s) as P.
  destruct (check_correlation_real ENum r o1 o2 s) as [s0 r0]. cbn [fst snd] in *. subst s0 r0.
  rewrite mbind_run.
  pose proof (assign_corr_flags k1 k2 r s l1 L1 I1) as F1.
  rewrite (assign_corr_ok k1 k2 r s l1 L1 I1) in *. cbn [fst snd] in *.
  assert (L2' : exists l2', Kernel.assoc (s_leaves (set_leaves ENum s (assoc_set (s_leaves s) k1 (set_corr ENum k2 r l1)))) k2 = Some l2'
                            /\ l_indep l2' = false).
  { unfold set_leaves; simpl. rewrite assoc_assoc_set. destruct (keqb k2 k1) eqn:E.
    - eexists; split; [reflexivity|]. exact I1.
    - exists l2; auto. }
  destruct L2' as (l2' & L2' & I2').
  pose proof (assign_corr_flags k2 k1 r _ l2' L2' I2') as F3.
  pose proof (assign_corr_ok k2 k1 r _ l2' L2' I2') as X2. change (T ENum) with ext in *. rewrite X2 in *. cbn [fst snd] in *.
  split; [reflexivity|]. eapply flags_eq_trans; eauto.
Qed.

Lemma scr_g_err r o1 o2 s e :
  snd (set_correlation_real_g ENum r o1 o2 s) = Err e ->
  fst (set_correlation_real_g ENum r o1 o2 s) = s /\ e <> AttributeError.
Proof.
  intros H.
  destruct (snd (check_correlation_real ENum r o1 o2 s)) as [ks|e0] eqn:C.
  - destruct (scr_g_ok_of_check _ _ _ _ _ C) as [A _]. congruence.
  - pose proof (check_pure r o1 o2 s) as P. pose proof (check_err_exn _ _ _ _ _ C) as X.
    unfold set_correlation_real_g in *. rewrite mbind_run in *.
    destruct (check_correlation_real ENum r o1 o2 s) as [s0 r0]. cbn [fst snd] in *. subst s0 r0.
    cbn [fst snd] in *. injection H as <-. auto.
Qed.

Lemma scr_flags_err s o1 o2 e : scr_flags ENum s o1 o2 = Err e -> e = KeyError.
Proof.
  unfold scr_flags, leaf_of. change (T ENum) with ext in *.
  destruct (unode o1) as [|lb1|k1|k1], (unode o2) as [|lb2|k2|k2]; try discriminate.
  destruct (Kernel.assoc (s_leaves s) k1); [|cbn; intros H; injection H as <-; reflexivity].
  destruct (Kernel.assoc (s_leaves s) k2); [|cbn; intros H; injection H as <-; reflexivity].
  discriminate.
Qed.

Lemma scr_seq_err o1 o2 s e :
  snd (set_correlation_real_seq ENum o1 o2 s) = Err e ->
  fst (set_correlation_real_seq ENum o1 o2 s) = s /\ e <> AttributeError.
Proof.
  unfold set_correlation_real_seq, mbind, mget, mlift, mfail. cbn [fst snd].
  destruct (scr_flags ENum s o1 o2) as [[[[i1 i2] same] ks]|e0] eqn:SF; cbn [fst snd].
  - destruct (is_elem ENum o1 && is_elem ENum o2), (negb i1 && negb i2), same;
      cbn; intros H; injection H as <-; split; try reflexivity; discriminate.
  - intros H; injection H as <-. split; [reflexivity|]. rewrite (scr_flags_err _ _ _ _ SF). discriminate.
Qed.

Lemma scr_any_err r o1 o2 s e :
  snd (scr_any ENum r o1 o2 s) = Err e -> fst (scr_any ENum r o1 o2 s) = s /\ e <> AttributeError.
Proof. destruct r; simpl; [apply scr_g_err|apply scr_seq_err]. Qed.

Lemma four_checks_run r0 r1 r2 r3 re im re2 im2 s :
  fst (four_checks ENum r0 r1 r2 r3 re im re2 im2 s) = s /\
  (forall e, snd (four_checks ENum r0 r1 r2 r3 re im re2 im2 s) = Err e -> e <> AttributeError) /\
  (snd (four_checks ENum r0 r1 r2 r3 re im re2 im2 s) = Ok tt ->
     exists a b c d, snd (check_correlation_real ENum r0 re re2 s) = Ok a /\ snd (check_correlation_real ENum r1 re im2 s) = Ok b /\
                     snd (check_correlation_real ENum r2 im re2 s) = Ok c /\ snd (check_correlation_real ENum r3 im im2 s) = Ok d).
Proof.
  unfold four_checks. cbv zeta.
  rewrite mbind_run. pose proof (check_pure r0 re re2 s) as P0. pose proof (check_err_exn r0 re re2 s) as X0.
  destruct (check_correlation_real ENum r0 re re2 s) as [s0 [a|e0]]; cbn [fst snd] in *; subst s0;
    [|split; [reflexivity|split; [intros e H; injection H as <-; apply X0; reflexivity|intros H; discriminate]]].
  rewrite mbind_run. pose proof (check_pure r1 re im2 s) as P1. pose proof (check_err_exn r1 re im2 s) as X1.
  destruct (check_correlation_real ENum r1 re im2 s) as [s0 [b|e0]]; cbn [fst snd] in *; subst s0;
    [|split; [reflexivity|split; [intros e H; injection H as <-; apply X1; reflexivity|intros H; discriminate]]].
  rewrite mbind_run. pose proof (check_pure r2 im re2 s) as P2. pose proof (check_err_exn r2 im re2 s) as X2.
  destruct (check_correlation_real ENum r2 im re2 s) as [s0 [c|e0]]; cbn [fst snd] in *; subst s0;
    [|split; [reflexivity|split; [intros e H; injection H as <-; apply X2; reflexivity|intros H; discriminate]]].
  rewrite mbind_run. pose proof (check_pure r3 im im2 s) as P3. pose proof (check_err_exn r3 im im2 s) as X3.
  destruct (check_correlation_real ENum r3 im im2 s) as [s0 [d|e0]]; cbn [fst snd] in *; subst s0;
    [|split; [reflexivity|split; [intros e H; injection H as <-; apply X3; reflexivity|intros H; discriminate]]].
  cbn. split; [reflexivity|split; [intros e H; discriminate|intros _; eauto 10]].
Qed.

Lemma four_calls_ok r0 r1 r2 r3 re im re2 im2 s a b c d :
  snd (check_correlation_real ENum r0 re re2 s) = Ok a -> snd (check_correlation_real ENum r1 re im2 s) = Ok b ->
  snd (check_correlation_real ENum r2 im re2 s) = Ok c -> snd (check_correlation_real ENum r3 im im2 s) = Ok d ->
  snd (four_calls ENum r0 r1 r2 r3 re im re2 im2 s) = Ok tt.
Proof.
  intros C0 C1 C2 C3. unfold four_calls.
  rewrite mbind_run. destruct (scr_g_ok_of_check _ _ _ _ _ C0) as [A0 F0].
  destruct (set_correlation_real_g ENum r0 re re2 s) as [s1 q0]; cbn [fst snd] in *; subst q0.
  pose proof (check_flags_eq _ _ _ _ _ _ F0 C1) as C1'.
  rewrite mbind_run. destruct (scr_g_ok_of_check _ _ _ _ _ C1') as [A1 F1].
  destruct (set_correlation_real_g ENum r1 re im2 s1) as [s2 q1]; cbn [fst snd] in *; subst q1.
  pose proof (check_flags_eq _ _ _ _ _ _ (flags_eq_trans _ _ _ F0 F1) C2) as C2'.
  rewrite mbind_run. destruct (scr_g_ok_of_check _ _ _ _ _ C2') as [A2 F2].
  destruct (set_correlation_real_g ENum r2 im re2 s2) as [s3 q2]; cbn [fst snd] in *; subst q2.
  pose proof (check_flags_eq _ _ _ _ _ _ (flags_eq_trans _ _ _ (flags_eq_trans _ _ _ F0 F1) F2) C3) as C3'.
  destruct (scr_g_ok_of_check _ _ _ _ _ C3') as [A3 _]. exact A3.
Qed.

Lemma node_df_m_eq o s : node_df_m ENum o s = (s, node_df ENum s o).
Proof. unfold node_df_m, mbind, mget, mlift. cbn. destruct (node_df ENum s o); reflexivity. Qed.

(* after the four checks every operand is an elementary dependent leaf: no AttributeError is left *)
Lemma check_ok_leaf r o1 o2 s ks :
  snd (check_correlation_real ENum r o1 o2 s) = Ok ks ->
  (exists d, node_df ENum s o1 = Ok d) /\ (exists d, node_df ENum s o2 = Ok d) /\
  (exists e, ensemble_keys ENum s o1 = Some e) /\ (exists k, node_uid ENum o2 = Ok k).
Proof.
  intros H. destruct (check_ok_inv _ _ _ _ _ H) as (k1 & k2 & l1 & l2 & -> & N1 & N2 & L1 & L2 & I1 & I2 & G).
  change (T ENum) with ext in *.
  unfold node_df, ensemble_keys, node_uid, leaf_of. change (T ENum) with ext in *.
  rewrite N1, N2, L1, L2, I1. cbn. eauto 10.
Qed.

Theorem ucomplex_set_correlation_rejected_no_effect r re im arg x s e :
  snd (ucomplex_set_correlation ENum r re im arg x s) = Err e ->
  fst (ucomplex_set_correlation ENum r re im arg x s) = s /\ e <> AttributeError.
Proof.
  unfold ucomplex_set_correlation.
  destruct arg as [i| |]; try (cbn; intros H; injection H as <-; split; [reflexivity|discriminate]);
    [|apply scr_any_err].
  destruct x as [[o2|re2 im2|]|]; try (cbn; intros H; injection H as <-; split; [reflexivity|discriminate]).
  destruct r as [v|l]; try (cbn; intros H; injection H as <-; split; [reflexivity|discriminate]).
  destruct l as [|r0 [|r1 [|r2 [|r3 [|r4 l]]]]]; try (cbn; intros H; injection H as <-; split; [reflexivity|discriminate]).
  destruct (all_zero ENum _); [cbn; intros H; discriminate|].
  rewrite mbind_run.
  destruct (four_checks_run r0 r1 r2 r3 re im re2 im2 s) as (P & X & K).
  destruct (four_checks ENum r0 r1 r2 r3 re im re2 im2 s) as [s0 [[]|e0]]; cbn [fst snd] in *; subst s0;
    [|intros H; injection H as <-; split; [reflexivity|apply X; reflexivity]].
  destruct (K eq_refl) as (a & b & c & d & C0 & C1 & C2 & C3).
  pose proof (four_calls_ok _ _ _ _ _ _ _ _ _ _ _ _ _ C0 C1 C2 C3) as OK4.
  destruct (check_ok_leaf _ _ _ _ _ C0) as ((d1 & D1) & _ & (en & EN) & (u & U)).
  destruct (check_ok_leaf _ _ _ _ _ C3) as (_ & (d2 & D2) & _ & _).
  rewrite mbind_run, node_df_m_eq, D1.
  rewrite mbind_run.
  assert (Both : exists bb, (if df_is_inf ENum d1
                    then mbind ENum (node_df_m ENum im2) (fun d2 => mret ENum (df_is_inf ENum d2))
                    else mret ENum false) s = (s, Ok bb)).
  { destruct (df_is_inf ENum d1); [|eexists; reflexivity].
    rewrite mbind_run, node_df_m_eq, D2. eexists; reflexivity. }
  destruct Both as (bb & Both). change (T ENum) with ext in *. rewrite Both.
  destruct bb; [intros H; congruence|].
  rewrite mbind_run. unfold mlift. rewrite U. rewrite mbind_run. unfold mget. rewrite EN.
  destruct (in_ens u en); [intros H; congruence|].
  cbn. intros H; injection H as <-. split; [reflexivity|discriminate].
Qed.

Theorem ureal_set_correlation_rejected_no_effect r self x s e :
  snd (ureal_set_correlation ENum r self x s) = Err e ->
  fst (ureal_set_correlation ENum r self x s) = s /\ e <> AttributeError.
Proof.
  unfold ureal_set_correlation. destruct (r_is_zero ENum r); [cbn; intros H; discriminate|].
  destruct x as [[o2|re im|]|]; try (cbn; intros H; injection H as <-; split; [reflexivity|discriminate]).
  destruct (no_node ENum self) eqn:NS; [cbn; intros H; injection H as <-; split; [reflexivity|discriminate]|].
  destruct (no_node ENum o2) eqn:NO; [cbn; intros H; injection H as <-; split; [reflexivity|discriminate]|].
  cbn [orb].
  assert (DF : forall o, no_node ENum o = false -> forall e0, node_df ENum s o = Err e0 -> e0 <> AttributeError).
  { intros o Ho e0. unfold node_df, no_node, leaf_of, node_of in *. change (T ENum) with ext in *.
    destruct (unode o); try discriminate; cbn.
    - destruct (Kernel.assoc (s_leaves s) k); cbn; intros H; try discriminate; injection H as <-; discriminate.
    - destruct (Kernel.assoc (s_nodes s) k); cbn; intros H; try discriminate; injection H as <-; discriminate. }
  rewrite mbind_run, node_df_m_eq.
  destruct (node_df ENum s self) as [d1|e1] eqn:D1;
    [|intros H; injection H as <-; split; [reflexivity|exact (DF self NS e1 D1)]].
  rewrite mbind_run.
  assert (Both : (exists bb, (if df_is_inf ENum d1
                    then mbind ENum (node_df_m ENum o2) (fun d2 => mret ENum (df_is_inf ENum d2))
                    else mret ENum false) s = (s, Ok bb)) \/
                 (exists e1, e1 <> AttributeError /\ (if df_is_inf ENum d1
                    then mbind ENum (node_df_m ENum o2) (fun d2 => mret ENum (df_is_inf ENum d2))
                    else mret ENum false) s = (s, Err e1))).
  { destruct (df_is_inf ENum d1); [|left; eexists; reflexivity].
    rewrite mbind_run, node_df_m_eq.
    destruct (node_df ENum s o2) as [d2|e2] eqn:D2; [left; eexists; reflexivity|right; eexists; split; [|reflexivity]].
    exact (DF o2 NO e2 D2). }
  change (T ENum) with ext in *.
  destruct Both as [(bb & Both)|(e1 & Ne1 & Both)]; rewrite Both;
    [|intros H; injection H as <-; split; [reflexivity|exact Ne1]].
  destruct bb; [apply scr_any_err|].
  rewrite mbind_run. unfold mget.
  destruct (ensemble_keys ENum s self) as [en|]; [|cbn; intros H; injection H as <-; split; [reflexivity|discriminate]].
  rewrite mbind_run. unfold mlift.
  assert (U : exists u, node_uid ENum o2 = Ok u).
  { unfold node_uid, no_node in *. change (T ENum) with ext in *. destruct (unode o2); try discriminate; eauto. }
  destruct U as (u & U). rewrite U.
  destruct (in_ens u en); [apply scr_any_err|cbn; intros H; injection H as <-; split; [reflexivity|discriminate]].
Qed.

(* core.set_correlation(r, arg1, arg2), every form: a rejected call has changed NOTHING, and the
   exception is never AttributeError *)
Theorem set_correlation_rejected_no_effect sl r a b s e :
  snd (core_set_correlation ENum sl r a b s) = Err e ->
  fst (core_set_correlation ENum sl r a b s) = s /\ e <> AttributeError.
Proof.
  unfold core_set_correlation. destruct (r_is_zero ENum r); [cbn; intros H; discriminate|].
  destruct (slot_of ENum sl a) as [[o1|re im|]|]; try (cbn; intros H; injection H as <-; split; [reflexivity|discriminate]).
  - apply ureal_set_correlation_rejected_no_effect.
  - apply ucomplex_set_correlation_rejected_no_effect.
Qed.

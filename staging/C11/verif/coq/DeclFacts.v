(* DeclFacts.v -- theorems about the argument validation of the declaring functions (property
   C11), part 1: the DECISION PROCEDURES regenerated from GTC/core.py and GTC/lib.py
   (gen/Gen_core_checks.v), instantiated at the extended reals ENum (R + {+inf,-inf,NaN}, IEEE
   comparison semantics, exact finite arithmetic):

     accepted  <->  the arguments are inside the limits the property states,
     rejected  ->   the exception is ValueError / TypeError / ZeroDivisionError,
     accepted  ->   what is handed to the constructors is a good number.

   Every proof is an exhaustive case analysis on the class of each argument (finite / +inf /
   -inf / NaN) with lra inside the finite classes. *)
From Coq Require Import ZArith List Bool Reals Lra.
From GTCV Require Import Num RNum ENum DeclTypes.
From GTCV.gen Require Import Gen_core_checks.
Import ListNotations.
Local Open Scope R_scope.

(* ---------- the limits, as the property text states them ---------- *)
Definition is_fin (x : ext) : Prop := exists r, x = Fin r.                 (* neither NaN nor infinite *)
Definition lim_u (u : ext) : Prop := exists r, u = Fin r /\ 0 <= r.        (* not negative, NaN or infinite *)
Definition lim_df (d : ext) : Prop := d = PInf \/ exists r, d = Fin r /\ 1 <= r.   (* not below 1, not NaN; inf allowed *)
Definition ureal_limits (x u df : ext) : Prop := is_fin x /\ lim_u u /\ lim_df df.

(* the tolerance core.ucomplex allows on |r| computed from a covariance matrix: 1 + 1E-10 *)
Definition tol : R := 1 + IZR 7737125245533627 * powerRZ 2 (-86).
(* a symmetric covariance c between variances a and b: zero, or both variances positive and
   |c| <= (1 + 1e-10) sqrt(a) sqrt(b)   (i.e. |r| <= 1 up to the tolerance) *)
Definition cov_limits (a c b : R) : Prop :=
  c = 0 \/ (0 < a /\ 0 < b /\ Rabs c <= tol * (sqrt a * sqrt b)).

Definition uarg_limits (u : uarg ext) : Prop :=
  match u with
  | UScalar v => lim_u v
  | USeq [u0; u1] => lim_u u0 /\ lim_u u1
  | USeq [u0; u1; u2; u3] =>
      exists a c b, u0 = Fin a /\ u1 = Fin c /\ u2 = Fin c /\ u3 = Fin b /\ 0 <= a /\ 0 <= b /\ cov_limits a c b
  | USeq _ => False
  end.
Definition ucomplex_limits (zre zim : ext) (u : uarg ext) (df : ext) : Prop :=
  is_fin zre /\ is_fin zim /\ lim_df df /\ uarg_limits u.

(* what core.ucomplex hands to UncertainComplex._elementary is sound *)
Definition cplx_good (d : cplx_decl ext) (df : ext) : Prop :=
  match d with
  | CD_constant _ _ => True
  | CD_elementary _ _ ur ui r df' ind' =>
      lim_u ur /\ lim_u ui /\ df' = df /\
      match r with
      | None => True
      | Some rv => ind' = false /\ exists q, rv = Fin q /\ Rabs q <= tol
      end
  end.

(* ---------- tactics ---------- *)
Ltac rdec :=
  repeat match goal with
  | |- context [Rlt_dec ?a ?b] => destruct (Rlt_dec a b)
  | |- context [Rle_dec ?a ?b] => destruct (Rle_dec a b)
  | |- context [Req_EM_T ?a ?b] => destruct (Req_EM_T a b)
  | H : context [Rlt_dec ?a ?b] |- _ => destruct (Rlt_dec a b)
  | H : context [Rle_dec ?a ?b] |- _ => destruct (Rle_dec a b)
  | H : context [Req_EM_T ?a ?b] |- _ => destruct (Req_EM_T a b)
  end.
Ltac eunf := cbn -[IZR powerRZ Rlt_dec Rle_dec Req_EM_T] in *; unfold Rltb, Rleb, Reqb, inf_times in *;
             cbn -[IZR powerRZ Rlt_dec Rle_dec Req_EM_T] in *.
Ltac crunch := eunf; repeat (progress (rdec; eunf)).

Lemma tol_gt_1 : 1 < tol.
Proof.
  unfold tol. assert (0 < powerRZ 2 (-86)) by (apply powerRZ_lt; lra).
  assert (0 < IZR 7737125245533627) by (apply IZR_lt; reflexivity).
  pose proof (Rmult_lt_0_compat _ _ H0 H). lra.
Qed.

Lemma abs_div_le c d t : 0 < d -> (Rabs (c / d) <= t <-> Rabs c <= t * d).
Proof.
  intros Hd. unfold Rdiv. rewrite Rabs_mult, (Rabs_right (/ d)).
  2:{ apply Rle_ge, Rlt_le, Rinv_0_lt_compat, Hd. }
  split; intros H.
  - apply (Rmult_le_compat_r d) in H; [|lra]. rewrite Rmult_assoc, Rinv_l in H; lra.
  - apply (Rmult_le_reg_r d); [lra|]. rewrite Rmult_assoc, Rinv_l; lra.
Qed.

Lemma sqrt_prod_pos a b : 0 <= a -> 0 <= b -> sqrt a * sqrt b <> 0 -> 0 < a /\ 0 < b /\ 0 < sqrt a * sqrt b.
Proof.
  intros Ha Hb Hn.
  assert (a <> 0) by (intros ->; rewrite sqrt_0 in Hn; lra).
  assert (b <> 0) by (intros ->; rewrite sqrt_0 in Hn; lra).
  assert (0 < a) by lra. assert (0 < b) by lra.
  repeat split; auto. apply Rmult_lt_0_compat; apply sqrt_lt_R0; auto.
Qed.

(* ================= core.ureal ================= *)
Theorem ureal_accept_iff x u df :
  (exists d, g_ureal ENum x u df = Ok d) <-> ureal_limits x u df.
Proof.
  unfold ureal_limits, is_fin, lim_u, lim_df, g_ureal.
  destruct x as [x| | |], u as [u| | |], df as [d| | |]; crunch;
    (split; [intros [dd H]; try discriminate;
              repeat split; eauto; try (eexists; split; [reflexivity|lra]); try (right; eexists; split; [reflexivity|lra]); auto
            | intros [[a Ha] [[b [Hb Hb']] Hc]]; try discriminate;
              try (injection Hb as <-); try lra;
              try (destruct Hc as [Hc|[c [Hc Hc']]]; try discriminate; try (injection Hc as <-); try lra);
              eauto ]).
Qed.

Theorem ureal_reject_exn x u df e : g_ureal ENum x u df = Err e -> e = ValueError.
Proof.
  unfold g_ureal. destruct x as [x| | |], u as [u| | |], df as [d| | |]; crunch; intros H; congruence.
Qed.

(* u = 0 gives a constant; otherwise x, u, df are passed on unchanged *)
Theorem ureal_ok_shape x u df d :
  g_ureal ENum x u df = Ok d ->
  (u = Fin 0 /\ d = RD_constant x) \/ (d = RD_elementary x u df /\ exists r, u = Fin r /\ 0 < r).
Proof.
  unfold g_ureal. destruct x as [x| | |], u as [u| | |], df as [dd| | |]; crunch; intros H; try discriminate;
    injection H as <-; try (left; split; [f_equal; lra|reflexivity]);
    right; (split; [reflexivity|eexists; split; [reflexivity|lra]]).
Qed.

(* ================= lib.UncertainReal._elementary : the re-checks ================= *)
Theorem elementary_guard_after_core u df : lim_u u -> lim_df df -> g_elementary_guard ENum u df = Ok tt.
Proof.
  intros [r [-> Hr]] [->|[d [-> Hd]]]; unfold g_elementary_guard; crunch; try reflexivity; lra.
Qed.

Theorem elementary_guard_iff u df :
  g_elementary_guard ENum u df = Ok tt <->
  (u = ENaN \/ u = PInf \/ exists r, u = Fin r /\ 0 <= r) /\ (df = ENaN \/ df = PInf \/ exists r, df = Fin r /\ 1 <= r).
Proof.
  unfold g_elementary_guard. destruct u as [u| | |], df as [d| | |]; crunch;
    (split; [intros H; try discriminate; split; auto; try (right; right; eexists; split; [reflexivity|lra]); auto
            | intros [[H|[H|[ru [H H']]]] [G|[G|[qd [G G']]]]]; try discriminate; try reflexivity;
              try (injection H as <-); try (injection G as <-); lra]).
Qed.

(* ================= core.ucomplex ================= *)
Theorem scalar_accept_iff zre zim u df ind :
  (exists d, g_ucomplex_scalar ENum zre zim u df ind = Ok d) <-> is_fin zre /\ is_fin zim /\ lim_df df /\ lim_u u.
Proof.
  unfold g_ucomplex_scalar, is_fin, lim_df, lim_u.
  destruct zre as [x| | |], zim as [y| | |]; eunf;
    try (split; [intros [d H]; discriminate | intros [[? H1] [[? H2] _]]; discriminate]).
  destruct df as [df| | |]; crunch;
    try (split; [intros [d H]; discriminate
                | intros [_ [_ [[H|[? [H H']]] _]]]; try discriminate; injection H as <-; lra]).
  all: destruct u as [u| | |]; crunch;
    (split; [intros [dd H]; try discriminate;
             (split; [eauto|split; [eauto|split; [first [left; reflexivity | right; eexists; split; [reflexivity|lra]]|]]]);
             (eexists; split; [reflexivity|lra])
            | intros (_ & _ & _ & b & Hb & Hb'); try discriminate; try (injection Hb as <-); try lra; eauto]).
Qed.

Theorem seq2_accept_iff zre zim u0 u1 df ind :
  (exists d, g_ucomplex_seq2 ENum zre zim u0 u1 df ind = Ok d) <->
  is_fin zre /\ is_fin zim /\ lim_df df /\ lim_u u0 /\ lim_u u1.
Proof.
  unfold g_ucomplex_seq2, is_fin, lim_df, lim_u.
  destruct zre as [x| | |], zim as [y| | |]; eunf;
    try (split; [intros [d H]; discriminate | intros [[? H1] [[? H2] _]]; discriminate]).
  destruct df as [df| | |]; crunch;
    try (split; [intros [d H]; discriminate
                | intros [_ [_ [[H|[? [H H']]] _]]]; try discriminate; injection H as <-; lra]).
  all: destruct u0 as [a| | |], u1 as [b| | |]; crunch;
    (split; [intros [dd H]; try discriminate;
             (split; [eauto|split; [eauto|split; [first [left; reflexivity | right; eexists; split; [reflexivity|lra]]|]]]);
             split; eexists; split; try reflexivity; lra
            | intros (_ & _ & _ & (a' & Ha & Ha') & (b' & Hb & Hb')); try discriminate;
              try (injection Ha as <-); try (injection Hb as <-); try lra; eauto]).
Qed.

Ltac seq4_close a b c :=
  fold tol in *;
  pose proof (sqrt_pos a) as Sa; pose proof (sqrt_pos b) as Sb;
  split;
    [ intros [d H]; try discriminate;
      (split; [eauto|split; [eauto|split; [first [left; reflexivity | right; eexists; split; [reflexivity|lra]]|]]]);
      exists a, c, b; repeat split; auto; try lra; unfold cov_limits;
      first [ left; lra
            | destruct (sqrt_prod_pos a b) as (Pa & Pb & Pd); [lra|lra|assumption|];
              right; repeat split; auto; apply abs_div_le; [assumption|lra] ]
    | intros (_ & _ & Hdf & a0 & c0 & b0 & E0 & E1 & _ & E3 & Ha & Hb & Hc);
      injection E0 as <-; injection E1 as <-; injection E3 as <-;
      first [ solve [eauto]
            | exfalso; destruct Hdf as [Hdf|(? & Hdf & ?)]; [discriminate|injection Hdf as <-; lra]
            | exfalso; lra
            | exfalso; destruct Hc as [Hc|(Pa & Pb & Hc)]; [lra|];
              assert (Q: 0 < sqrt a * sqrt b) by (apply Rmult_lt_0_compat; apply sqrt_lt_R0; assumption);
              pose proof (proj2 (abs_div_le c _ tol Q) Hc); lra ] ].

Theorem seq4_accept_iff zre zim u0 u1 u2 u3 df ind :
  (exists d, g_ucomplex_seq4 ENum zre zim u0 u1 u2 u3 df ind = Ok d) <->
  is_fin zre /\ is_fin zim /\ lim_df df /\
  exists a c b, u0 = Fin a /\ u1 = Fin c /\ u2 = Fin c /\ u3 = Fin b /\ 0 <= a /\ 0 <= b /\ cov_limits a c b.
Proof.
  unfold g_ucomplex_seq4, is_fin, lim_df.
  destruct zre as [x| | |], zim as [y| | |]; eunf;
    try (split; [intros [d H]; discriminate | intros [[? H1] [[? H2] _]]; discriminate]).
  destruct df as [df| | |]; crunch;
    try (split; [intros [d H]; discriminate
                | intros [_ [_ [[H|[? [H H']]] _]]]; try discriminate; injection H as <-; lra]).
  all: destruct u1 as [c| | |], u2 as [c'| | |]; crunch;
    try (split; [intros [d H]; discriminate
                | intros [_ [_ [_ [a0 [c0 [b0 [_ [H1 [H2 _]]]]]]]]]; try discriminate;
                  injection H1 as <-; injection H2 as <-; congruence]).
  all: subst c'.
  all: destruct u0 as [a| | |], u3 as [b| | |]; crunch;
    try (split; [intros [d H]; discriminate
                | intros [_ [_ [_ [a0 [c0 [b0 [H0 [_ [_ [H3 [Ha [Hb _]]]]]]]]]]]]; try discriminate;
                  try (injection H0 as <-); try (injection H3 as <-); lra]);
    match goal with
    | |- _ <-> _ /\ _ /\ _ /\ (exists a0 c0 b0, Fin ?a = Fin a0 /\ Fin ?c = Fin c0 /\ _ /\ Fin ?b = Fin b0 /\ _) => seq4_close a b c
    end.
Qed.

Theorem seqn_rejects zre zim df ind d : g_ucomplex_seqn ENum zre zim df ind = Ok d -> False.
Proof.
  unfold g_ucomplex_seqn. destruct zre as [x| | |], zim as [y| | |], df as [dd| | |]; crunch; discriminate.
Qed.

(* the dispatch on the shape of u, exactly as Decl.g_ucomplex does it *)
Definition g_ucomplex_e (zre zim : ext) (u : uarg ext) (df : ext) (indep : bool) : res (cplx_decl ext) :=
  match u with
  | UScalar v => g_ucomplex_scalar ENum zre zim v df indep
  | USeq [u0; u1] => g_ucomplex_seq2 ENum zre zim u0 u1 df indep
  | USeq [u0; u1; u2; u3] => g_ucomplex_seq4 ENum zre zim u0 u1 u2 u3 df indep
  | USeq _ => g_ucomplex_seqn ENum zre zim df indep
  end.

Theorem ucomplex_accept_iff zre zim u df ind :
  (exists d, g_ucomplex_e zre zim u df ind = Ok d) <-> ucomplex_limits zre zim u df.
Proof.
  unfold ucomplex_limits, g_ucomplex_e, uarg_limits.
  destruct u as [v|l]; [apply scalar_accept_iff|].
  destruct l as [|u0 [|u1 [|u2 [|u3 [|u4 l]]]]];
    try (split; [intros [d H]; exfalso; exact (seqn_rejects _ _ _ _ _ H) | intros (_ & _ & _ & []) ]).
  - apply seq2_accept_iff.
  - apply seq4_accept_iff.
Qed.

Theorem ucomplex_reject_exn zre zim u df ind e :
  g_ucomplex_e zre zim u df ind = Err e -> e = ValueError \/ e = TypeError \/ e = ZeroDivisionError.
Proof.
  unfold g_ucomplex_e.
  destruct u as [v|l].
  { unfold g_ucomplex_scalar. destruct zre as [x| | |], zim as [y| | |]; eunf; try (intros H; injection H as <-; auto).
    destruct df as [dd| | |]; crunch; try (intros H; injection H as <-; auto; fail);
      destruct v as [v| | |]; crunch; intros H; try discriminate; injection H as <-; auto. }
  destruct l as [|u0 [|u1 [|u2 [|u3 [|u4 l]]]]].
  1,2,4,6: unfold g_ucomplex_seqn; destruct zre as [x| | |], zim as [y| | |], df as [dd| | |]; crunch;
           intros H; injection H as <-; auto.
  { unfold g_ucomplex_seq2. destruct zre as [x| | |], zim as [y| | |]; eunf; try (intros H; injection H as <-; auto).
    destruct df as [dd| | |]; crunch; try (intros H; injection H as <-; auto; fail);
      destruct u0 as [a| | |], u1 as [b| | |]; crunch; intros H; try discriminate; injection H as <-; auto. }
  { unfold g_ucomplex_seq4. destruct zre as [x| | |], zim as [y| | |]; eunf; try (intros H; injection H as <-; auto).
    destruct df as [dd| | |]; crunch; try (intros H; injection H as <-; auto; fail).
    all: destruct u1 as [c| | |], u2 as [c'| | |]; crunch; try (intros H; injection H as <-; auto; fail).
    all: destruct u0 as [a| | |], u3 as [b| | |]; crunch; intros H; try discriminate; injection H as <-; auto. }
Qed.

Theorem ucomplex_good zre zim u df ind d :
  g_ucomplex_e zre zim u df ind = Ok d -> cplx_good d df.
Proof.
  unfold g_ucomplex_e.
  destruct u as [v|l].
  { unfold g_ucomplex_scalar. destruct zre as [x| | |], zim as [y| | |]; eunf; try discriminate.
    destruct df as [dd| | |]; crunch; try discriminate;
      destruct v as [v| | |]; crunch; intros H; try discriminate; injection H as <-; cbn; auto;
      (split; [|split]; [eexists; split; [reflexivity|lra] | eexists; split; [reflexivity|lra] | auto]). }
  destruct l as [|u0 [|u1 [|u2 [|u3 [|u4 l]]]]]; try (intros H; exfalso; exact (seqn_rejects _ _ _ _ _ H)).
  { unfold g_ucomplex_seq2. destruct zre as [x| | |], zim as [y| | |]; eunf; try discriminate.
    destruct df as [dd| | |]; crunch; try discriminate;
      destruct u0 as [a| | |], u1 as [b| | |]; crunch; intros H; try discriminate; injection H as <-; cbn; auto;
      (split; [|split]; [eexists; split; [reflexivity|lra] | eexists; split; [reflexivity|lra] | auto]). }
  { unfold g_ucomplex_seq4. destruct zre as [x| | |], zim as [y| | |]; eunf; try discriminate.
    destruct df as [dd| | |]; crunch; try discriminate.
    all: destruct u1 as [c| | |], u2 as [c'| | |]; crunch; try discriminate.
    all: destruct u0 as [a| | |], u3 as [b| | |]; crunch; intros H; try discriminate; injection H as <-; cbn; auto.
    all: fold tol in *.
    all: repeat split; auto;
      try (eexists; split; [reflexivity|apply sqrt_pos]);
      try (eexists; split; [reflexivity|lra]). }
Qed.

(* ================= lib.set_correlation_real ================= *)
(* a correlation coefficient inside the limits: a number in [-1,1]; between a number and itself only 1 *)
Definition r_limits (r : ext) (same_leaf : bool) : Prop :=
  exists q, r = Fin q /\ -1 <= q <= 1 /\ (same_leaf = true -> q = 1).

Definition sc_flags_ok (elem1 elem2 indep1 indep2 : bool) : Prop :=
  elem1 = true /\ elem2 = true /\ indep1 = false /\ indep2 = false.

(* accepted <-> both elementary, both declared independent=False, and the coefficient inside the
   limits.  (Before the repair of lib.set_correlation_real -- `abs(r) > 1.0` -- NaN was accepted
   too; `not abs(r) <= 1.0` rejects it.) *)
Theorem set_correlation_real_accept_iff r e1 e2 i1 i2 same :
  g_set_correlation_real ENum r e1 e2 i1 i2 same = Ok tt <->
  sc_flags_ok e1 e2 i1 i2 /\ r_limits r same.
Proof.
  unfold g_set_correlation_real, sc_flags_ok, r_limits.
  destruct e1, e2, i1, i2; cbn [andb negb];
    try (split; [intros H; discriminate | intros [(A & B & C & D) _]; discriminate]).
  destruct same, r as [q| | |]; crunch; change (powerRZ 2 0) with 1 in *;
    (split; [ intros H; try discriminate; (split; [auto|]);
              (exists q; split; [reflexivity|split; [unfold Rabs in *; destruct (Rcase_abs q); lra|intros; first [lra|discriminate]]])
            | intros [_ (q' & E & Hq & Hs)]; try discriminate; try reflexivity;
              try (injection E as <-); exfalso;
              first [ specialize (Hs eq_refl); lra
                    | unfold Rabs in *; destruct (Rcase_abs q); lra ] ]).
Qed.

(* NaN, +inf, -inf are rejected with ValueError between any two dependent elementary numbers *)
Theorem set_correlation_real_rejects_non_numbers r same :
  (forall q, r <> Fin q) -> g_set_correlation_real ENum r true true false false same = Err ValueError.
Proof.
  intros H. unfold g_set_correlation_real. destruct same, r as [q| | |]; crunch; try reflexivity;
    exfalso; eapply H; reflexivity.
Qed.

Theorem set_correlation_real_reject_exn r e1 e2 i1 i2 same e :
  g_set_correlation_real ENum r e1 e2 i1 i2 same = Err e ->
  (e = TypeError /\ (e1 = false \/ e2 = false)) \/
  (e = RuntimeError /\ e1 = true /\ e2 = true /\ (i1 = true \/ i2 = true)) \/
  (e = ValueError /\ sc_flags_ok e1 e2 i1 i2).
Proof.
  unfold g_set_correlation_real, sc_flags_ok.
  destruct e1, e2, i1, i2; cbn [andb negb]; try (intros H; injection H as <-; auto 10).
  destruct same, r as [q| | |]; crunch; intros H; try discriminate; injection H as <-; auto 10.
Qed.

(* DeclKernel.v -- the hand-written declaration functions of Kernel.v (core.ureal ->
   Kernel.ureal_decl / Kernel.elementary, lib.set_correlation_real -> Kernel.set_correlation_real;
   they are what the C01 / C02 / C04 ... models run) take EXACTLY the decisions of the definitions
   regenerated from the source (gen/Gen_core_checks.v) and produce the same state and object.
   Over the extended reals (ENum). *)
From Coq Require Import ZArith List Bool Reals Lra.
From GTCV Require Import Num RNum Vector VectorFacts Opres KTypes Kernel DeclTypes Decl ENum DeclFacts DeclInv.
From GTCV.gen Require Import Gen_core_checks.
Import ListNotations.
Local Open Scope R_scope.

(* Kernel.v's hand-written core.ureal (used by the C01/C02/C04 models) takes exactly the decisions of
   the generated one, and builds the same state and object *)
Theorem kernel_ureal_decl_is_generated x u df indep (s : KTypes.state ext) :
  Kernel.ureal_decl ENum s x u (df_of ENum df) None indep =
  match ureal_g ENum x u df indep s with
  | (s', Ok o) => Ok (s', o)
  | (_, Err e) => Err e
  end.
Proof.
  unfold Kernel.ureal_decl, ureal_g, mbind, mlift, g_ureal, elementary_g, g_elementary_guard, Kernel.elementary,
         new_elementary, df_of, mret, Decl.zero, Kernel.zero, Kernel.one.
  destruct x as [x| | |], u as [u| | |], df as [d| | |]; crunch; try reflexivity; try lra.
Qed.

Theorem kernel_set_correlation_real_is_generated r (o1 o2 : KTypes.ureal ext) (s : KTypes.state ext) :
  Kernel.set_correlation_real ENum s r o1 o2 =
  match set_correlation_real_g ENum r o1 o2 s with
  | (s', Ok _) => Ok s'
  | (_, Err e) => Err e
  end.
Proof.
  unfold Kernel.set_correlation_real, set_correlation_real_g, check_correlation_real, mbind, mget, mlift, mret, scr_flags, is_elem, leaf_of.
  change (T ENum) with ext in *.
  destruct (unode o1) as [|lb1|k1|k1], (unode o2) as [|lb2|k2|k2]; try reflexivity.
  destruct (Kernel.assoc (s_leaves s) k1) as [l1|] eqn:L1; [|reflexivity].
  destruct (Kernel.assoc (s_leaves s) k2) as [l2|] eqn:L2; [|reflexivity].
  cbn [bind fst snd].
  unfold g_set_correlation_real. cbn [andb].
  destruct (l_indep l1) eqn:I1, (l_indep l2) eqn:I2; cbn [negb andb]; try reflexivity.
  assert (Hone : eqb ENum r (Kernel.one ENum) = eqb ENum r (dyad ENum 1 0)).
  { destruct r; cbn; auto. unfold Reqb. change (powerRZ 2 0) with 1.
    destruct (Req_EM_T r 1), (Req_EM_T r (1 * 1)); auto; lra. }
  assert (Hlt : negb (leb ENum (nabs ENum r) (Kernel.one ENum)) = negb (leb ENum (nabs ENum r) (dyad ENum 1 0))).
  { destruct r; cbn; auto. unfold Rleb. change (powerRZ 2 0) with 1.
    destruct (Rle_dec (Rabs r) 1), (Rle_dec (Rabs r) (1 * 1)); auto; lra. }
  rewrite Hone, Hlt.
  destruct (keqb k1 k2 && negb (eqb ENum r (dyad ENum 1 0))); [reflexivity|].
  destruct (negb (leb ENum (nabs ENum r) (dyad ENum 1 0))); [reflexivity|].
  cbn [fst snd].
  rewrite (assign_corr_ok k1 k2 r s l1 L1 I1). cbn [fst snd].
  unfold assign_corr, set_leaves, set_corr. cbn [s_leaves]. change (T ENum) with ext in *.
  rewrite ?I1. rewrite !assoc_assoc_set.
  destruct (keqb k2 k1) eqn:E; cbn [bind l_indep l_u l_df l_corr l_ens l_cplx l_label]; rewrite ?L2; cbn [bind]; rewrite ?I2, ?I1; reflexivity.
Qed.

(* Decl.v -- executable model of the DECLARATION layer of GTC (property C11):
   core.ureal, core.ucomplex (scalar / 2-sequence / 4-sequence u), core.multiple_ureal,
   core.multiple_ucomplex, core.set_correlation with UncertainReal.set_correlation,
   UncertainComplex.set_correlation, lib.set_correlation_real, UncertainReal._elementary,
   UncertainComplex._elementary, lib.real_ensemble / complex_ensemble, over the session state
   of Kernel.v (uid counter, leaf registry with u/df/independent/correlation/ensemble/complex).

   Every accept/reject DECISION is taken by the generated definitions of gen/Gen_core_checks.v
   (regenerated from GTC/core.py and GTC/lib.py on every run); what is hand-written here is the
   plumbing: which leaf attributes feed those decisions, the order of side effects, and the object
   dispatch of the set_correlation methods (tied to the code by the correspondence run).
   All functions live in a state-and-error monad  M A = state -> state * res A  so that whatever a
   failing call did before it raised (uid counter, earlier assignments) stays visible.
   Definitions only. *)
From Coq Require Import ZArith List Bool.
From GTCV Require Import Num Vector Opres KTypes Kernel DeclTypes.
From GTCV.gen Require Import Gen_core_checks.
Import ListNotations.

Section Decl.
  Variable N : Num.
  Notation V := (T N).
  Notation vec := (Vector.vec N).
  Notation dfval := (KTypes.dfval V). Notation ureal := (KTypes.ureal V). Notation leaf := (KTypes.leaf V).
  Notation state := (KTypes.state V).
  Notation dslot := (DeclTypes.dslot V). Notation dop := (DeclTypes.dop V). Notation dout := (DeclTypes.dout V).
  Notation leafdump := (DeclTypes.leafdump V). Notation dstate := (DeclTypes.dstate V).

  (* ---------- the monad ---------- *)
  Definition M (A : Type) := state -> state * res A.
  Definition mret {A} (a : A) : M A := fun s => (s, Ok a).
  Definition mfail {A} (e : exn) : M A := fun s => (s, Err e).
  Definition mlift {A} (r : res A) : M A := fun s => (s, r).
  Definition mbind {A B} (m : M A) (f : A -> M B) : M B :=
    fun s => match m s with
             | (s', Ok a) => f a s'
             | (s', Err e) => (s', Err e)
             end.
  Definition mget : M state := fun s => (s, Ok s).
  Definition mput (s' : state) : M unit := fun _ => (s', Ok tt).
  Notation "x <~ m ;; k" := (mbind m (fun x => k)) (at level 61, m at next level, right associativity).
  Notation "' p <~ m ;; k" := (mbind m (fun p => k)) (at level 61, p pattern, m at next level, right associativity).

  Fixpoint mmap {A B} (f : A -> M B) (l : list A) : M (list B) :=
    match l with
    | [] => mret []
    | a :: l' => b <~ f a ;; bs <~ mmap f l' ;; mret (b :: bs)
    end.

  Definition zero : V := of_Z N 0.

  (* a raw df argument as the leaf stores it (float(df)): +inf | nan | any other float *)
  Definition df_of (d : V) : dfval :=
    if is_nan N d then DNaN else if is_inf N d && ltb N zero d then DInf else DFin d.

  (* ---------- lib.UncertainReal._elementary ---------- *)
  Definition new_elementary (x u df : V) (indep : bool) : M ureal :=
    fun s =>
      let n := (s_ne s + 1)%Z in
      let k := (s_ctx s, n) in
      let eid := length (s_ens s) in
      let lf := mkLeaf u (df_of df) indep (if indep then [] else [(k, of_Z N 1)]) eid None None in
      let s' := mkS (s_ctx s) n (s_ni s) (s_leaves s ++ [(k, lf)]) (s_nodes s)
                    (s_ens s ++ [[]]) (s_slots s) in
      (s', Ok (if indep then mkU x [(k, u)] [] [] (LeafRef k) else mkU x [] [(k, u)] [] (LeafRef k))).

  Definition elementary_g (x u df : V) (indep : bool) : M ureal :=
    _ <~ mlift (g_elementary_guard N u df) ;; new_elementary x u df indep.

  (* ---------- core.ureal ---------- *)
  Definition ureal_g (x u df : V) (indep : bool) : M ureal :=
    d <~ mlift (g_ureal N x u df) ;;
    match d with
    | RD_constant x' => mret (mk_constant N x' None)
    | RD_elementary x' u' df' => elementary_g x' u' df' indep
    end.

  (* ---------- lib.UncertainComplex._elementary / _constant ---------- *)
  Definition leaf_key (o : ureal) : option key := match unode o with LeafRef k => Some k | _ => None end.

  Definition upd_leaf (k : key) (f : leaf -> leaf) : M unit :=
    fun s => match Kernel.assoc (s_leaves s) k with
             | Some l => (set_leaves N s (assoc_set (s_leaves s) k (f l)), Ok tt)
             | None => (s, Err KeyError)
             end.

  Definition set_cplx (c : key * key) (l : leaf) : leaf :=
    mkLeaf (l_u l) (l_df l) (l_indep l) (l_corr l) (l_ens l) (Some c) (l_label l).
  Definition set_corr (k : key) (r : V) (l : leaf) : leaf :=
    mkLeaf (l_u l) (l_df l) (l_indep l) (assoc_set (l_corr l) k r) (l_ens l) (l_cplx l) (l_label l).

  (* <leaf>.correlation[k'] = r : AttributeError on a leaf declared independent=True (no such slot) *)
  Definition assign_corr (k k' : key) (r : V) : M unit :=
    fun s => match Kernel.assoc (s_leaves s) k with
             | Some l => if l_indep l then (s, Err AttributeError)
                         else (set_leaves N s (assoc_set (s_leaves s) k (set_corr k' r l)), Ok tt)
             | None => (s, Err KeyError)
             end.

  Definition ucomplex_elementary (zre zim u_r u_i : V) (r : option V) (df : V) (indep : bool)
    : M (ureal * ureal) :=
    re <~ elementary_g zre u_r df indep ;;
    im <~ elementary_g zim u_i df indep ;;
    match leaf_key re, leaf_key im with
    | Some k1, Some k2 =>
        _ <~ upd_leaf k1 (set_cplx (k1, k2)) ;;
        _ <~ upd_leaf k2 (set_cplx (k1, k2)) ;;
        match r with
        | None => mret (re, im)
        | Some rv => _ <~ assign_corr k1 k2 rv ;; _ <~ assign_corr k2 k1 rv ;; mret (re, im)
        end
    | _, _ => mfail OtherExn
    end.

  (* ---------- core.ucomplex ---------- *)
  Definition g_ucomplex (zre zim : V) (u : uarg V) (df : V) (indep : bool) : res (cplx_decl V) :=
    match u with
    | UScalar v => g_ucomplex_scalar N zre zim v df indep
    | USeq [u0; u1] => g_ucomplex_seq2 N zre zim u0 u1 df indep
    | USeq [u0; u1; u2; u3] => g_ucomplex_seq4 N zre zim u0 u1 u2 u3 df indep
    | USeq _ => g_ucomplex_seqn N zre zim df indep
    end.

  Definition ucomplex_g (zre zim : V) (u : uarg V) (df : V) (indep : bool) : M (ureal * ureal) :=
    d <~ mlift (g_ucomplex zre zim u df indep) ;;
    match d with
    | CD_constant a b => mret (mk_constant N a None, mk_constant N b None)
    | CD_elementary a b u_r u_i r df' ind => ucomplex_elementary a b u_r u_i r df' ind
    end.

  (* ---------- core.multiple_ureal ---------- *)
  Definition ensemble_of_keys (ks : list key) : M unit :=
    fun s =>
      let eid := length (s_ens s) in
      let s1 := mkS (s_ctx s) (s_ne s) (s_ni s) (s_leaves s) (s_nodes s) (s_ens s ++ [ks]) (s_slots s) in
      (fold_left (fun st k => set_leaf_ens N st k eid) ks s1, Ok tt).

  Definition keys_of (os : list ureal) : list key :=
    fold_left (fun acc o => match unode o with LeafRef k => kinsert k acc | _ => acc end) os [].

  Definition multiple_ureal_g (xs us : list V) (df : V) : M (list ureal) :=
    if negb (Nat.eqb (length xs) (length us)) then mfail RuntimeError
    else
      objs <~ mmap (fun xu => ureal_g (fst xu) (snd xu) df false) (combine xs us) ;;
      _ <~ ensemble_of_keys (keys_of (filter (fun o => negb (is_constant N o)) objs)) ;;
      mret objs.

  (* ---------- core.multiple_ucomplex ---------- *)
  Definition cplx_const (p : ureal * ureal) : bool := is_constant N (fst p) && is_constant N (snd p).

  Definition multiple_ucomplex_g (zs : list (V * V)) (us : list (uarg V)) (df : V) : M (list (ureal * ureal)) :=
    if negb (Nat.eqb (length zs) (length us)) then mfail RuntimeError
    else
      objs <~ mmap (fun zu => ucomplex_g (fst (fst zu)) (snd (fst zu)) (snd zu) df false) (combine zs us) ;;
      let members := filter (fun p => negb (cplx_const p)) objs in
      _ <~ ensemble_of_keys (keys_of (flat_map (fun p => [fst p; snd p]) members)) ;;
      mret objs.

  (* ---------- lib.set_correlation_real ---------- *)
  Definition is_elem (o : ureal) : bool := match unode o with LeafRef _ => true | _ => false end.

  (* the attributes the generated decision needs; short-circuit: the leaves are only looked at
     when both operands are elementary *)
  Definition scr_flags (s : state) (o1 o2 : ureal) : res (bool * bool * bool * option (key * key)) :=
    match unode o1, unode o2 with
    | LeafRef k1, LeafRef k2 =>
        l1 <- leaf_of N s k1 ;; l2 <- leaf_of N s k2 ;;
        Ok (l_indep l1, l_indep l2, keqb k1 k2, Some (k1, k2))
    | _, _ => Ok (true, true, false, None)
    end.

  (* set_correlation_real(x1,x2,r,assign=False): every check, nothing assigned *)
  Definition check_correlation_real (r : V) (o1 o2 : ureal) : M (option (key * key)) :=
    s <~ mget ;;
    '(i1, i2, same, ks) <~ mlift (scr_flags s o1 o2) ;;
    _ <~ mlift (g_set_correlation_real N r (is_elem o1) (is_elem o2) i1 i2 same) ;;
    mret ks.

  (* set_correlation_real(x1,x2,r): the same checks, then both dictionary entries *)
  Definition set_correlation_real_g (r : V) (o1 o2 : ureal) : M unit :=
    ks <~ check_correlation_real r o1 o2 ;;
    match ks with
    | Some (k1, k2) => _ <~ assign_corr k1 k2 r ;; assign_corr k2 k1 r
    | None => mfail OtherExn
    end.

  (* the same function reached with a SEQUENCE as r (core.set_correlation((..), x1, x2)):
     `r != 1.0` is True for a tuple, `abs(r)` raises TypeError *)
  Definition set_correlation_real_seq (o1 o2 : ureal) : M unit :=
    s <~ mget ;;
    '(i1, i2, same, ks) <~ mlift (scr_flags s o1 o2) ;;
    if is_elem o1 && is_elem o2 then
      if negb i1 && negb i2 then (if same then mfail ValueError else mfail TypeError)
      else mfail RuntimeError
    else mfail TypeError.

  Definition scr_any (r : rarg V) (o1 o2 : ureal) : M unit :=
    match r with
    | RScalar v => set_correlation_real_g v o1 o2
    | RSeq _ => set_correlation_real_seq o1 o2
    end.

  (* ---------- the set_correlation methods and core.set_correlation ---------- *)
  Definition r_is_zero (r : rarg V) : bool :=
    match r with RScalar v => eqb N v zero | RSeq _ => false end.

  Definition node_df_m (o : ureal) : M dfval := s <~ mget ;; mlift (node_df N s o).

  (* hasattr(self._node,'ensemble'): a Leaf created with independent=False *)
  Definition ensemble_keys (s : state) (o : ureal) : option (list key) :=
    match unode o with
    | LeafRef k => match Kernel.assoc (s_leaves s) k with
                   | Some l => if l_indep l then None else Some (ens_of N s l)
                   | None => None
                   end
    | _ => None
    end.

  (* x._node.uid *)
  Definition node_uid (o : ureal) : res (option key) :=
    match unode o with
    | NoNode => Err AttributeError
    | ConstLeaf _ => Ok None
    | LeafRef k => Ok (Some k)
    | NodeRef k => Ok (Some k)
    end.

  Definition in_ens (u : option key) (e : list key) : bool :=
    match u with Some k => kmem k e | None => false end.

  Definition no_node (o : ureal) : bool := match unode o with NoNode => true | _ => false end.

  (* UncertainReal.set_correlation(self, r, x) *)
  Definition ureal_set_correlation (r : rarg V) (self : ureal) (x : option dslot) : M unit :=
    if r_is_zero r then mret tt
    else match x with
         | Some (DSReal o2) =>
             (* if self._node is None or x._node is None: raise TypeError *)
             if no_node self || no_node o2 then mfail TypeError else
             d1 <~ node_df_m self ;;
             both <~ (if df_is_inf N d1 then d2 <~ node_df_m o2 ;; mret (df_is_inf N d2) else mret false) ;;
             if both then scr_any r self o2
             else
               s <~ mget ;;
               match ensemble_keys s self with
               | Some e => u <~ mlift (node_uid o2) ;;
                           if in_ens u e then scr_any r self o2 else mfail RuntimeError
               | None => mfail RuntimeError
               end
         | _ => mfail TypeError
         end.

  Definition all_zero (l : list V) : bool := forallb (fun v => eqb N v zero) l.

  (* the four set_correlation_real(..., assign=False) that come first (generated shape check:
     g_complex_checks_first) ... *)
  Definition four_checks (r0 r1 r2 r3 : V) (re im re2 im2 : ureal) : M unit :=
    let _ := g_complex_checks_first in
    _ <~ check_correlation_real r0 re re2 ;;
    _ <~ check_correlation_real r1 re im2 ;;
    _ <~ check_correlation_real r2 im re2 ;;
    _ <~ check_correlation_real r3 im im2 ;;
    mret tt.

  (* ... and the four assigning calls *)
  Definition four_calls (r0 r1 r2 r3 : V) (re im re2 im2 : ureal) : M unit :=
    _ <~ set_correlation_real_g r0 re re2 ;;
    _ <~ set_correlation_real_g r1 re im2 ;;
    _ <~ set_correlation_real_g r2 im re2 ;;
    set_correlation_real_g r3 im im2.

  (* UncertainComplex.set_correlation(self, r, arg) *)
  Definition ucomplex_set_correlation (r : rarg V) (re im : ureal) (arg : darg) (x : option dslot) : M unit :=
    match arg, x with
    | ANone, _ => scr_any r re im
    | ASlot _, Some (DSReal _) => mfail TypeError
    | ASlot _, Some (DSCplx re2 im2) =>
        match r with
        | RSeq [r0; r1; r2; r3] =>
            if all_zero [r0; r1; r2; r3] then mret tt
            else
              _ <~ four_checks r0 r1 r2 r3 re im re2 im2 ;;
              d1 <~ node_df_m re ;;
              both <~ (if df_is_inf N d1 then d2 <~ node_df_m im2 ;; mret (df_is_inf N d2) else mret false) ;;
              if both then four_calls r0 r1 r2 r3 re im re2 im2
              else
                u <~ mlift (node_uid re2) ;;
                s <~ mget ;;
                match ensemble_keys s re with
                | Some e => if in_ens u e then four_calls r0 r1 r2 r3 re im re2 im2 else mfail RuntimeError
                | None => mfail AttributeError          (* n_re1.ensemble : no such attribute *)
                end
        | _ => mfail TypeError
        end
    | _, _ => mfail TypeError
    end.

  Definition slot_of (sl : list dslot) (a : darg) : option dslot :=
    match a with ASlot i => nth_error sl i | _ => None end.

  (* core.set_correlation(r, arg1, arg2) *)
  Definition core_set_correlation (sl : list dslot) (r : rarg V) (a b : darg) : M unit :=
    if r_is_zero r then mret tt
    else match slot_of sl a with
         | Some (DSReal o1) => ureal_set_correlation r o1 (slot_of sl b)
         | Some (DSCplx re im) => ucomplex_set_correlation r re im b (slot_of sl b)
         | _ => mfail TypeError
         end.

  (* ---------- observations ---------- *)
  Fixpoint cinsert (kv : key * V) (l : list (key * V)) : list (key * V) :=
    match l with
    | [] => [kv]
    | kv' :: l' => match kcmp (fst kv) (fst kv') with
                   | Gt => kv' :: cinsert kv l'
                   | _ => kv :: l
                   end
    end.
  Definition csort (l : list (key * V)) : list (key * V) := fold_right cinsert [] l.

  Definition dump_leaf (s : state) (k : key) : option leafdump :=
    match Kernel.assoc (s_leaves s) k with
    | Some l => Some (mkLD k (l_u l) (l_df l) (l_indep l) (csort (l_corr l))
                           (if l_indep l then None else Some (ens_of N s l)) (l_cplx l))
    | None => None
    end.

  Definition dump_real (s : state) (o : ureal) : dout :=
    DOReal (ux o) (nkind_of N o) (uc o) (dc o)
           (match unode o with LeafRef k => dump_leaf s k | _ => None end).
  Definition dump_cplx (s : state) (p : ureal * ureal) : dout :=
    DOCplx (dump_real s (fst p)) (dump_real s (snd p)).

  Definition slot_keys (sl : dslot) : list key :=
    match sl with
    | DSReal o => match leaf_key o with Some k => [k] | None => [] end
    | DSCplx re im => (match leaf_key re with Some k => [k] | None => [] end) ++
                      (match leaf_key im with Some k => [k] | None => [] end)
    | DSNone => []
    end.

  Definition snapshot (s : state) (sl : list dslot) : list leafdump :=
    flat_map (fun k => match dump_leaf s k with Some d => [d] | None => [] end) (flat_map slot_keys sl).

  (* ---------- programs ---------- *)
  Definition dinit (ctx : Z) : dstate := mkD (init N ctx) [].

  Definition plain : ureal := mkU zero [] [] [] NoNode.

  Definition dstep (d : dstate) (o : dop) : dstate * dout :=
    let s := d_k d in let sl := d_slots d in
    match o with
    | DUreal x u df indep =>
        match ureal_g x u df indep s with
        | (s', Ok obj) => (mkD s' (sl ++ [DSReal obj]), dump_real s' obj)
        | (s', Err e) => (mkD s' (sl ++ [DSNone]), DOExn e)
        end
    | DUcomplex zre zim u df indep =>
        match ucomplex_g zre zim u df indep s with
        | (s', Ok p) => (mkD s' (sl ++ [DSCplx (fst p) (snd p)]), dump_cplx s' p)
        | (s', Err e) => (mkD s' (sl ++ [DSNone]), DOExn e)
        end
    | DMultReal xs us df =>
        match multiple_ureal_g xs us df s with
        | (s', Ok objs) => (mkD s' (sl ++ map DSReal objs), DOList (map (dump_real s') objs))
        | (s', Err e) => (mkD s' (sl ++ [DSNone]), DOExn e)
        end
    | DMultCplx zs us df =>
        match multiple_ucomplex_g zs us df s with
        | (s', Ok objs) => (mkD s' (sl ++ map (fun p => DSCplx (fst p) (snd p)) objs), DOList (map (dump_cplx s') objs))
        | (s', Err e) => (mkD s' (sl ++ [DSNone]), DOExn e)
        end
    | DPlain => (mkD s (sl ++ [DSReal plain]), DOUnit)
    | DPlainC => (mkD s (sl ++ [DSCplx plain plain]), DOUnit)
    | DSetCorr r a b =>
        match core_set_correlation sl r a b s with
        | (s', Ok _) => (mkD s' (sl ++ [DSNone]), DOUnit)
        | (s', Err e) => (mkD s' (sl ++ [DSNone]), DOExn e)
        end
    | DSnapshot => (mkD s (sl ++ [DSNone]), DOSnap (snapshot s sl))
    end.

  Fixpoint drun (d : dstate) (p : list dop) : dstate * list dout :=
    match p with
    | [] => (d, [])
    | o :: p' => let '(d', r) := dstep d o in
                 let '(d'', rs) := drun d' p' in (d'', r :: rs)
    end.

  (* ---------- comparing observations ---------- *)
  Fixpoint klist_eqb (a b : list key) : bool :=
    match a, b with
    | [], [] => true
    | x :: a', y :: b' => keqb x y && klist_eqb a' b'
    | _, _ => false
    end.

  Definition opt_eqb {A} (f : A -> A -> bool) (a b : option A) : bool :=
    match a, b with
    | None, None => true
    | Some x, Some y => f x y
    | _, _ => false
    end.

  Definition ld_eqb (a b : leafdump) : bool :=
    keqb (ld_k a) (ld_k b) && same N (ld_u a) (ld_u b) && dfval_eqb N (ld_df a) (ld_df b)
    && Bool.eqb (ld_indep a) (ld_indep b) && vec_eqb N (ld_corr a) (ld_corr b)
    && opt_eqb klist_eqb (ld_ens a) (ld_ens b)
    && opt_eqb (fun p q => keqb (fst p) (fst q) && keqb (snd p) (snd q)) (ld_cplx a) (ld_cplx b).

  Fixpoint list_eqb {A} (f : A -> A -> bool) (a b : list A) : bool :=
    match a, b with
    | [], [] => true
    | x :: a', y :: b' => f x y && list_eqb f a' b'
    | _, _ => false
    end.

  Fixpoint dout_eqb (a b : dout) : bool :=
    match a, b with
    | DOExn e, DOExn e' => exn_eqb e e'
    | DOUnit, DOUnit => true
    | DOReal x k u d lf, DOReal x' k' u' d' lf' =>
        same N x x' && nkind_eqb k k' && vec_eqb N u u' && vec_eqb N d d' && opt_eqb ld_eqb lf lf'
    | DOCplx r i, DOCplx r' i' => dout_eqb r r' && dout_eqb i i'
    | DOList l, DOList l' =>
        (fix go (l l' : list dout) : bool :=
           match l, l' with
           | [], [] => true
           | x :: t, y :: t' => dout_eqb x y && go t t'
           | _, _ => false
           end) l l'
    | DOSnap l, DOSnap l' => list_eqb ld_eqb l l'
    | _, _ => false
    end.

  Fixpoint dfirst_mismatch (i : nat) (got expected : list dout) : option nat :=
    match got, expected with
    | [], [] => None
    | g :: gs, e :: es => if dout_eqb g e then dfirst_mismatch (S i) gs es else Some i
    | _, _ => Some i
    end.
End Decl.


(* LPU.v -- C04: the variance and covariance loops of lib.py (std_variance_real,
   std_covariance_real, as modelled in Kernel.v) compute the law-of-propagation double sums,
   for vectors of any length and any interleaving of influence sets. *)
From Coq Require Import ZArith List Bool Reals Lia Lra Psatz.
From GTCV Require Import Num RNum Vector VectorFacts Opres KTypes Kernel.
Import ListNotations.
Local Open Scope R_scope.

Notation ureal := (KTypes.ureal R).
Notation state := (KTypes.state R).
Notation rvecs := (list (key * R)).

Ltac rring := first [ring | (cbn [T RNum] in *; ring)].
Ltac rlra := first [lra | (cbn [T RNum] in *; lra)].

(* the correlation coefficient the state records between leaves k and k' *)
Definition Rs (s : state) (k k' : key) : R :=
  match leaf_of RNum s k with
  | Ok l => corr_get RNum l k'
  | Err _ => 0
  end.

Definition leaves_exist (s : state) (d : rvecs) : Prop :=
  forall k, In k (map fst d) -> exists l, leaf_of RNum s k = Ok l.

(* sums over vectors *)
Fixpoint vsum (f : key -> R -> R) (d : rvecs) : R :=
  match d with [] => 0 | (k, u) :: d' => f k u + vsum f d' end.

Lemma fold_map_vsum (f : key -> R -> R) (d : rvecs) :
  fold_right Rplus 0 (map (fun kv => f (fst kv) (snd kv)) d) = vsum f d.
Proof. induction d as [|[k u] d IH]; simpl; auto. rewrite IH; reflexivity. Qed.

Lemma vsum_ext f g (d : rvecs) : (forall k u, In (k, u) d -> f k u = g k u) -> vsum f d = vsum g d.
Proof.
  induction d as [|[k u] d IH]; simpl; auto. intros H. rewrite (H k u) by auto. rewrite IH; auto.
Qed.

Lemma vsum_plus f g (d : rvecs) : vsum (fun k u => f k u + g k u) d = vsum f d + vsum g d.
Proof. induction d as [|[k u] d IH]; simpl; [ring|]. rewrite IH; rring. Qed.

Lemma vsum_scal c f (d : rvecs) : vsum (fun k u => c * f k u) d = c * vsum f d.
Proof. induction d as [|[k u] d IH]; simpl; [ring|]. rewrite IH; rring. Qed.

Lemma vsum_swap (f : key -> R -> key -> R -> R) (d1 d2 : rvecs) :
  vsum (fun k u => vsum (fun k' u' => f k u k' u') d2) d1 =
  vsum (fun k' u' => vsum (fun k u => f k u k' u') d1) d2.
Proof.
  induction d1 as [|[k u] d1 IH]; simpl.
  - induction d2 as [|[k' u'] d2 IH2]; simpl; auto. rewrite <- IH2; rring.
  - rewrite IH. rewrite <- vsum_plus. reflexivity.
Qed.

(* the LPU double sum over the dependent components *)
Definition dsum (s : state) (d1 d2 : rvecs) : R :=
  vsum (fun k u => vsum (fun k' u' => u * Rs s k k' * u') d2) d1.

Lemma Rs_leaf s k l k' : leaf_of RNum s k = Ok l -> Rs s k k' = corr_get RNum l k'.
Proof. intros H. unfold Rs. rewrite H. reflexivity. Qed.

(* ---------- covariance ---------- *)
Lemma cov_dep_spec s (d1 d2 : rvecs) cv :
  leaves_exist s d1 ->
  cov_dep RNum s d1 d2 cv = Ok (cv + dsum s d1 d2).
Proof.
  revert cv; induction d1 as [|[k1 u1] d1 IH]; intros cv Hex; cbn [cov_dep].
  - unfold dsum; simpl. f_equal; rring.
  - destruct (Hex k1 (or_introl eq_refl)) as [l Hl].
    rewrite Hl. cbn [bind fsum RNum].
    rewrite IH by (intros k Hk; apply Hex; right; exact Hk).
    f_equal. unfold dsum; cbn [vsum mul add RNum].
    rewrite (fold_map_vsum (fun k' u' => u1 * corr_get RNum l k' * u')).
    rewrite (vsum_ext (fun k' u' => u1 * Rs s k1 k' * u') (fun k' u' => u1 * corr_get RNum l k' * u'))
      by (intros; rewrite (Rs_leaf s k1 l) by exact Hl; reflexivity).
    rring.
Qed.

Theorem std_covariance_spec s (o1 o2 : ureal) :
  leaves_exist s (dc o1) ->
  std_covariance_real RNum s o1 o2 =
  Ok (vsum (fun k u => u * vget RNum (uc o2) k) (uc o1) + dsum s (dc o1) (dc o2)).
Proof.
  intros Hex. unfold std_covariance_real. cbn [fsum RNum bind].
  rewrite cov_dep_spec by exact Hex. f_equal.
  cbn [add mul zero of_Z RNum]. unfold zero; cbn [of_Z RNum].
  rewrite (fold_map_vsum (fun k u => u * vget RNum (uc o2) k)). rring.
Qed.

(* ---------- variance ---------- *)
(* symmetric correlation table with unit diagonal, on the keys of d *)
Definition corr_sym_on (s : state) (d : rvecs) : Prop :=
  (forall k k', In k (map fst d) -> In k' (map fst d) -> Rs s k k' = Rs s k' k) /\
  (forall k, In k (map fst d) -> Rs s k k = 1).

Lemma var_dep_spec s (d : rvecs) var :
  leaves_exist s d -> corr_sym_on s d ->
  var_dep RNum s d var = Ok (var + dsum s d d).
Proof.
  revert var; induction d as [|[k u] d IH]; intros var Hex [Hsym Hdiag]; cbn [var_dep].
  - unfold dsum; simpl. f_equal; rring.
  - destruct (Hex k (or_introl eq_refl)) as [l Hl].
    rewrite Hl. cbn [bind fsum RNum].
    rewrite IH.
    + f_equal. unfold dsum. cbn [vsum].
      cbn [mul add RNum two of_Z]. unfold two; cbn [of_Z RNum].
      rewrite (fold_map_vsum (fun k' u' => 2 * u * corr_get RNum l k' * u')).
      assert (Hkk : Rs s k k = 1) by (apply Hdiag; left; reflexivity).
      assert (E1 : vsum (fun k' u' => 2 * u * corr_get RNum l k' * u') d
                   = 2 * vsum (fun k' u' => u * Rs s k k' * u') d).
      { rewrite <- vsum_scal. apply vsum_ext. intros k' u' _. rewrite (Rs_leaf s k l) by exact Hl. rring. }
      assert (E2 : vsum (fun k0 u0 => u0 * Rs s k0 k * u + vsum (fun k' u' => u0 * Rs s k0 k' * u') d) d
                   = vsum (fun k' u' => u * Rs s k k' * u') d + vsum (fun k0 u0 => vsum (fun k' u' => u0 * Rs s k0 k' * u') d) d).
      { rewrite vsum_plus. f_equal. apply vsum_ext. intros k0 u0 Hin.
        rewrite (Hsym k0 k); [rring | right; apply in_map_iff; exists (k0, u0); auto | left; reflexivity]. }
      rewrite E1, E2, Hkk. rring.
    + intros k0 Hk0; apply Hex; right; exact Hk0.
    + split; [intros k0 k1 H0 H1; apply Hsym; right; assumption | intros k0 H0; apply Hdiag; right; assumption].
Qed.

Theorem std_variance_spec s (o : ureal) :
  leaves_exist s (dc o) -> corr_sym_on s (dc o) ->
  std_variance_real RNum s o = Ok (vsum (fun _ u => u * u) (uc o) + dsum s (dc o) (dc o)).
Proof.
  intros Hex Hsym. unfold std_variance_real. cbn [T RNum].
  destruct (uc o) as [|p t] eqn:Eu.
  - cbn [bind]. rewrite var_dep_spec by assumption. try reflexivity; f_equal; unfold zero; cbn [of_Z RNum vsum]; rring.
  - cbn [fsum RNum bind]. rewrite var_dep_spec by assumption. f_equal.
    cbn [add mul RNum]. unfold zero; cbn [of_Z RNum].
    rewrite (fold_map_vsum (fun _ u => u * u)). rring.
Qed.

(* ---------- symmetry and cov(y,y) = variance(y) ---------- *)
Lemma dsum_sym s (d1 d2 : rvecs) :
  (forall k k', In k (map fst d1) -> In k' (map fst d2) -> Rs s k k' = Rs s k' k) ->
  dsum s d1 d2 = dsum s d2 d1.
Proof.
  intros Hs. unfold dsum. rewrite vsum_swap. apply vsum_ext. intros k' u' Hin'.
  apply vsum_ext. intros k u Hin. rewrite (Hs k k').
  - ring.
  - apply in_map_iff; exists (k, u); auto.
  - apply in_map_iff; exists (k', u'); auto.
Qed.

Lemma vget_as_sum (v : rvecs) k : sorted (N:=RNum) v ->
  vget RNum v k = vsum (fun k' u' => if keqb k k' then u' else 0) v.
Proof.
  induction v as [|[k0 u0] v IH]; intros S.
  - reflexivity.
  - unfold vget in *. cbn [get vsum]. destruct (keqb k k0) eqn:E.
    + apply keqb_eq in E; subst k0.
      assert (Hn : get (N:=RNum) v k = None).
      { apply get_below. intros k' Hk'. exact (sorted_head_lt _ _ _ _ _ S Hk'). }
      rewrite Hn in IH. specialize (IH (sorted_tail _ _ _ _ S)).
      unfold zero in IH; cbn [of_Z RNum] in IH. rewrite <- IH. rring.
    + rewrite IH by exact (sorted_tail _ _ _ _ S). rring.
Qed.

Lemma keqb_sym a b : keqb a b = keqb b a.
Proof.
  destruct (keqb a b) eqn:E1, (keqb b a) eqn:E2; auto.
  - apply keqb_eq in E1; subst. rewrite keqb_refl in E2; discriminate.
  - apply keqb_eq in E2; subst. rewrite keqb_refl in E1; discriminate.
Qed.

Lemma indep_sum_sym (v1 v2 : rvecs) :
  sorted (N:=RNum) v1 -> sorted (N:=RNum) v2 ->
  vsum (fun k u => u * vget RNum v2 k) v1 = vsum (fun k u => u * vget RNum v1 k) v2.
Proof.
  intros S1 S2.
  rewrite (vsum_ext _ (fun k u => vsum (fun k' u' => if keqb k k' then u * u' else 0) v2)).
  2:{ intros k u _. rewrite vget_as_sum by exact S2. rewrite <- vsum_scal. apply vsum_ext.
      intros k' u' _. destruct (keqb k k'); rring. }
  rewrite (vsum_ext (fun k u => u * vget RNum v1 k) (fun k' u' => vsum (fun k u => if keqb k k' then u * u' else 0) v1)).
  2:{ intros k' u' _. rewrite vget_as_sum by exact S1. rewrite <- vsum_scal. apply vsum_ext.
      intros k u _. rewrite (keqb_sym k' k). destruct (keqb k k'); rring. }
  apply (vsum_swap (fun k u k' u' => if keqb k k' then u * u' else 0)).
Qed.

Theorem covariance_symmetric s (a b : ureal) :
  leaves_exist s (dc a) -> leaves_exist s (dc b) ->
  sorted (N:=RNum) (uc a) -> sorted (N:=RNum) (uc b) ->
  (forall k k', In k (map fst (dc a)) -> In k' (map fst (dc b)) -> Rs s k k' = Rs s k' k) ->
  std_covariance_real RNum s a b = std_covariance_real RNum s b a.
Proof.
  intros Ha Hb Sa Sb Hs. rewrite !std_covariance_spec by assumption. f_equal.
  rewrite (dsum_sym s (dc a) (dc b)) by exact Hs.
  rewrite (indep_sum_sym (uc a) (uc b)) by assumption. reflexivity.
Qed.

Lemma indep_self (v : rvecs) : sorted (N:=RNum) v ->
  vsum (fun k u => u * vget RNum v k) v = vsum (fun _ u => u * u) v.
Proof.
  induction v as [|[k u] v IH]; intros S; simpl; auto.
  unfold vget at 1. simpl get. rewrite keqb_refl.
  assert (E : vsum (fun k0 u0 => u0 * vget RNum ((k, u) :: v) k0) v = vsum (fun k0 u0 => u0 * vget RNum v k0) v).
  { apply vsum_ext. intros k0 u0 Hin. unfold vget. simpl get.
    assert (Hlt : kcmp k k0 = Lt).
    { apply (sorted_head_lt RNum k u v k0 S). apply in_map_iff; exists (k0, u0); auto. }
    destruct (keqb_neq _ _ Hlt) as [E1 _]. rewrite E1. reflexivity. }
  rewrite E, IH by exact (sorted_tail RNum _ _ _ S). reflexivity.
Qed.

Theorem covariance_self_is_variance s (y : ureal) :
  leaves_exist s (dc y) -> corr_sym_on s (dc y) -> sorted (N:=RNum) (uc y) ->
  std_covariance_real RNum s y y = std_variance_real RNum s y.
Proof.
  intros Hex Hsym Su. rewrite std_covariance_spec, std_variance_spec by assumption.
  f_equal. rewrite indep_self by exact Su. reflexivity.
Qed.

(* ---------- get_correlation returns what set_correlation declared ---------- *)
Lemma assoc_set_same {A} (l : list (key * A)) k a : Kernel.assoc (Kernel.assoc_set l k a) k = Some a.
Proof.
  induction l as [|[k' a'] l IH]; simpl.
  - rewrite keqb_refl; reflexivity.
  - destruct (keqb k k') eqn:E; simpl; [rewrite keqb_refl; reflexivity | rewrite E; exact IH].
Qed.

Lemma assoc_set_other {A} (l : list (key * A)) k k' a :
  keqb k' k = false -> Kernel.assoc (Kernel.assoc_set l k a) k' = Kernel.assoc l k'.
Proof.
  intros Hn. induction l as [|[k0 a0] l IH]; simpl.
  - rewrite Hn; reflexivity.
  - destruct (keqb k k0) eqn:E; simpl.
    + apply keqb_eq in E; subst k0. rewrite Hn. reflexivity.
    + destruct (keqb k' k0); auto.
Qed.

Theorem set_then_get s r (o1 o2 : ureal) k1 k2 s' :
  unode o1 = LeafRef k1 -> unode o2 = LeafRef k2 -> keqb k1 k2 = false ->
  set_correlation_real RNum s r o1 o2 = Ok s' ->
  get_correlation_real RNum s' o1 o2 = Ok r /\ get_correlation_real RNum s' o2 o1 = Ok r.
Proof.
  intros H1 H2 Hne Hset. unfold set_correlation_real in Hset. cbn [T RNum] in *. rewrite H1, H2 in Hset.
  assert (Hne' : keqb k2 k1 = false) by (rewrite keqb_sym; exact Hne).
  unfold leaf_of in Hset. cbn [T RNum] in *.
  destruct (Kernel.assoc (s_leaves s) k1) as [l1|] eqn:E1; [|discriminate].
  destruct (Kernel.assoc (s_leaves s) k2) as [l2|] eqn:E2; [|discriminate].
  cbn [bind] in Hset.
  destruct (negb (l_indep l1) && negb (l_indep l2)) eqn:Edep; [|discriminate].
  rewrite Hne in Hset. cbn [andb] in Hset.
  destruct (negb (leb RNum (nabs RNum r) (one RNum))); [discriminate|].
  rewrite assoc_set_other in Hset by exact Hne'. rewrite E2 in Hset. cbn [bind] in Hset.
  injection Hset as <-.
  apply andb_prop in Edep. destruct Edep as [D1 D2].
  apply negb_true_iff in D1. apply negb_true_iff in D2.
  unfold get_correlation_real. cbn [T RNum] in *. rewrite H1, H2, Hne, Hne'.
  unfold leaf_of, set_leaves. cbn [s_leaves T RNum].
  split.
  - rewrite assoc_set_other by exact Hne. rewrite assoc_set_same. cbn [bind l_indep].
    rewrite D1. unfold corr_get. cbn [l_corr]. rewrite assoc_set_same. reflexivity.
  - rewrite assoc_set_same. cbn [bind l_indep].
    rewrite D2. unfold corr_get. cbn [l_corr]. rewrite assoc_set_same. reflexivity.
Qed.

(* faithful to the code: r == 0.0 returns before anything is stored ... *)
Lemma set_zero_is_noop s (a b : ureal) : set_correlation RNum s 0 a b = Ok s.
Proof.
  unfold set_correlation. cbn [eqb RNum zero of_Z]. unfold zero, Reqb; cbn [of_Z RNum].
  destruct (Req_EM_T 0 (IZR 0)) as [_|n]; [reflexivity|exfalso; apply n; reflexivity].
Qed.

(* ... so "get_correlation returns exactly what set_correlation declared" is FALSE of the
   faithful model: declare 1/2, then declare 0; the state still answers 1/2. *)
Definition kz1 : key := (1%Z, 1%Z).
Definition kz2 : key := (1%Z, 2%Z).
Definition zstate : state :=
  mkS 1%Z 2%Z 0%Z
      [(kz1, mkLeaf 1 DInf false [(kz1, 1); (kz2, / 2)] 0%nat None None);
       (kz2, mkLeaf 1 DInf false [(kz2, 1); (kz1, / 2)] 1%nat None None)]
      [] [[]; []]
      [SReal (mkU 2 [] [(kz1, 1)] [] (LeafRef kz1)) None;
       SReal (mkU 5 [] [(kz2, 1)] [] (LeafRef kz2)) None].
Definition zx1 : ureal := mkU 2 [] [(kz1, 1)] [] (LeafRef kz1).
Definition zx2 : ureal := mkU 5 [] [(kz2, 1)] [] (LeafRef kz2).

Theorem set_get_zero_refuted :
  exists s a b s',
    get_correlation_real RNum s a b = Ok (/ 2) /\
    set_correlation RNum s 0 a b = Ok s' /\
    get_correlation_real RNum s' a b = Ok (/ 2) /\ / 2 <> 0.
Proof.
  exists zstate, zx1, zx2, zstate. repeat split.
  - apply set_zero_is_noop.
  - lra.
Qed.

#!/usr/bin/env python3
"""tr_core_checks.py -- fail-closed Python-ast -> Gallina translator for the ARGUMENT VALIDATION
of the declaring functions of MSLNZ/GTC (property C11).   Usage: tr_core_checks.py <repo> <outdir>

Emits <outdir>/Gen_core_checks.v with Num-parametric, res-monadic definitions that are the same
decision procedures -- same tests, same order, same exception classes -- as the source:

  g_ureal              core.ureal                       -> res (real_decl V)
  g_ucomplex_scalar    core.ucomplex, u a number        -> res (cplx_decl V)
  g_ucomplex_seq2      core.ucomplex, u a 2-sequence
  g_ucomplex_seq4      core.ucomplex, u a 4-sequence (variance-covariance matrix)
  g_ucomplex_seqn      core.ucomplex, u a sequence of any other length
  g_elementary_guard   lib.UncertainReal._elementary    (the re-checks in front of the uid allocation)
  g_set_correlation_real   lib.set_correlation_real     -> res unit   (Ok tt = accepted; with assign=True both dict entries
                           are assigned, with assign=False nothing is: both take the same decisions, checked here)
  g_complex_checks_first   UncertainComplex.set_correlation: the four assign=False checks precede every assigning call

core.ucomplex is *partially evaluated* on the shape of `u` (is_sequence(u), len(u), u[i] and the
4-tuple unpacking are resolved at translation time); everything else -- every comparison, every
isnan/isinf, sqrt, the division, the 1 + 1E-10 tolerance, the order of the tests and the exception
class of every raise -- is copied from the AST.  Anything outside the recognised subset makes that
one definition ABSENT (a comment says why), so the model that uses it stops compiling: the
translator never guesses.  Comparisons keep IEEE semantics (Num.ltb/leb/eqb are false on NaN)."""
import ast, sys, os, math

sys.path.insert(0, os.path.dirname(os.path.abspath(__file__)))
from translate import Untranslatable, dyadic, zlit

EXN_OK = {'ValueError', 'TypeError', 'RuntimeError', 'ZeroDivisionError', 'OverflowError', 'AssertionError',
          'AttributeError', 'KeyError', 'IndexError', 'NotImplementedError'}

class Static(object):
    """a translation-time value (shape of a sequence argument, an int, a bool)"""
    def __init__(self, kind, val):
        self.kind, self.val = kind, val      # kind: 'seq' (list of (type,term)), 'int', 'bool', 'scalarflag'

class C(object):
    """compiler for one function body.  env: python name / dotted key -> (type, gallina term) with type in
    F (float), OF (option float), B (bool), or a Static."""
    def __init__(self, env, returns, fall=None, effects=None):
        self.env = dict(env)
        self.returns = returns          # callable(ast.Call or None, compiler) -> gallina term for `return <call>`
        self.fall = fall                # term returned when control falls off the end (None = not allowed)
        self.effects = effects          # callable(stmt, compiler) -> True if stmt is an expected effect statement
        self.n = 0
        self.seen_effects = []

    def fresh(self, base):
        self.n += 1
        return '%s_%d' % (base, self.n)

    # ------------------------------------------------------------------ helpers
    def key(self, e):
        if isinstance(e, ast.Name):
            return e.id
        if isinstance(e, ast.Attribute):
            k = self.key(e.value)
            return None if k is None else '%s.%s' % (k, e.attr)
        return None

    def static(self, e):
        """translation-time value of e, or None"""
        if isinstance(e, ast.Constant) and isinstance(e.value, bool):
            return None
        if isinstance(e, ast.Constant) and isinstance(e.value, int):
            return Static('int', e.value)
        if isinstance(e, ast.Name) and isinstance(self.env.get(e.id), Static):
            return self.env[e.id]
        if isinstance(e, ast.Call) and isinstance(e.func, ast.Name) and len(e.args) == 1 and not e.keywords:
            a = e.args[0]
            if e.func.id == 'is_sequence' and isinstance(a, ast.Name) and a.id in self.env:
                v = self.env[a.id]
                return Static('bool', isinstance(v, Static) and v.kind == 'seq')
            if e.func.id == 'len':
                v = self.static(a)
                if v is not None and v.kind == 'seq':
                    return Static('int', len(v.val))
        if isinstance(e, ast.Compare) and len(e.ops) == 1:
            l, r = self.static(e.left), self.static(e.comparators[0])
            if l is not None and r is not None and l.kind == 'int' and r.kind == 'int':
                op = e.ops[0]
                if isinstance(op, ast.Eq): return Static('bool', l.val == r.val)
                if isinstance(op, ast.NotEq): return Static('bool', l.val != r.val)
        return None

    def close(self, prelude, final):
        s = final
        for b in reversed(prelude):
            s = '(%s ;;\n      %s)' % (b, s)
        return s

    # ------------------------------------------------------------------ expressions -> (prelude, type, term)
    def expr(self, e):
        if isinstance(e, ast.Constant):
            if e.value is None:
                return [], 'OF', 'None'
            if isinstance(e.value, bool):
                return [], 'B', 'true' if e.value else 'false'
            kind, v = dyadic(e.value)
            if kind == 'Z':
                return [], 'F', '(of_Z N %s)' % zlit(v)
            return [], 'F', '(dyad N %s %s)' % (zlit(v[0]), zlit(v[1]))
        k = self.key(e)
        if k is not None and k in self.env:
            v = self.env[k]
            if isinstance(v, Static):
                raise Untranslatable('static value %s used as a number' % k)
            return [], v[0], v[1]
        if isinstance(e, ast.Name):
            if e.id == 'inf':
                return [], 'F', '(c_inf N)'
            raise Untranslatable('unbound name %s' % e.id)
        if isinstance(e, ast.Subscript):
            s = self.static(e.value)
            i = e.slice
            if s is not None and s.kind == 'seq' and isinstance(i, ast.Constant) and isinstance(i.value, int) \
                    and 0 <= i.value < len(s.val):
                return [], s.val[i.value][0], s.val[i.value][1]
            raise Untranslatable('subscript')
        if isinstance(e, ast.UnaryOp) and isinstance(e.op, ast.USub):
            p, t, x = self.expr(e.operand)
            if t != 'F': raise Untranslatable('negation of a non-number')
            return p, 'F', '(neg N %s)' % x
        if isinstance(e, ast.BinOp):
            pl, tl, xl = self.expr(e.left); pr, tr, xr = self.expr(e.right)
            if tl != 'F' or tr != 'F': raise Untranslatable('arithmetic on a non-number')
            p = pl + pr
            if isinstance(e.op, ast.Add):  return p, 'F', '(add N %s %s)' % (xl, xr)
            if isinstance(e.op, ast.Sub):  return p, 'F', '(sub N %s %s)' % (xl, xr)
            if isinstance(e.op, ast.Mult): return p, 'F', '(mul N %s %s)' % (xl, xr)
            if isinstance(e.op, ast.Div):
                v = self.fresh('q')
                return p + ['%s <- div N %s %s' % (v, xl, xr)], 'F', v
            raise Untranslatable('binary operator %s' % type(e.op).__name__)
        if isinstance(e, ast.Call) and not e.keywords:
            f = e.func
            if isinstance(f, ast.Name) and f.id == 'float' and len(e.args) == 1:
                p, t, x = self.expr(e.args[0])
                if t != 'F': raise Untranslatable('float() of a non-number')
                return p, t, x
            if isinstance(f, ast.Name) and f.id == 'abs' and len(e.args) == 1:
                p, t, x = self.expr(e.args[0])
                if t != 'F': raise Untranslatable('abs() of a non-number')
                return p, 'F', '(nabs N %s)' % x
            if isinstance(f, ast.Attribute) and isinstance(f.value, ast.Name) and f.value.id == 'math' \
                    and f.attr == 'sqrt' and len(e.args) == 1:
                p, t, x = self.expr(e.args[0])
                if t != 'F': raise Untranslatable('sqrt of a non-number')
                v = self.fresh('s')
                return p + ['%s <- libm1 N F_sqrt %s' % (v, x)], 'F', v
            raise Untranslatable('call %s' % ast.dump(f))
        if isinstance(e, ast.IfExp):
            c = self.test(e.test)
            pa, ta, xa = self.expr(e.body); pb, tb, xb = self.expr(e.orelse)
            if ta == tb == 'F':
                ty = 'F'
            elif {ta, tb} <= {'F', 'OF'}:
                ty = 'OF'
                if ta == 'F': xa = '(Some %s)' % xa
                if tb == 'F': xb = '(Some %s)' % xb
            else:
                raise Untranslatable('conditional expression of mixed type')
            v = self.fresh('c')
            return ['%s <- (if %s then %s else %s)' % (v, c, self.close(pa, 'Ok %s' % xa), self.close(pb, 'Ok %s' % xb))], ty, v
        raise Untranslatable('expression %s' % type(e).__name__)

    def num(self, e):
        p, t, x = self.expr(e)
        if p: raise Untranslatable('effectful operand inside a test')
        if t != 'F': raise Untranslatable('test on a non-number')
        return x

    # ------------------------------------------------------------------ tests -> pure bool term
    def test(self, t):
        s = self.static(t)
        if s is not None and s.kind == 'bool':
            return 'true' if s.val else 'false'
        if isinstance(t, ast.BoolOp):
            vals = list(t.values)
            first = vals[0]
            # `r is not None and <test using r>` : the payload is visible to the right of the `and`
            if isinstance(t.op, ast.And) and self.is_not_none(first) is not None and len(vals) >= 2:
                name = self.is_not_none(first)
                ty, term = self.env[name]
                v = self.fresh(name + '_v')
                saved = dict(self.env)
                self.env[name] = ('F', v)
                rest = self.test(ast.BoolOp(op=ast.And(), values=vals[1:])) if len(vals) > 2 else self.test(vals[1])
                self.env = saved
                return '(match %s with Some %s => %s | None => false end)' % (term, v, rest)
            parts = [self.test(v) for v in vals]
            op = ' && ' if isinstance(t.op, ast.And) else ' || '
            return '(' + op.join(parts) + ')'
        if isinstance(t, ast.UnaryOp) and isinstance(t.op, ast.Not):
            return '(negb %s)' % self.test(t.operand)
        name = self.is_not_none(t)
        if name is not None:
            return '(match %s with Some _ => true | None => false end)' % self.env[name][1]
        if isinstance(t, ast.Compare):
            if len(t.ops) == 1 and isinstance(t.ops[0], ast.Is):
                k = '%s is %s' % (self.key(t.left), self.key(t.comparators[0]))
                if k in self.env and self.env[k][0] == 'B':
                    return self.env[k][1]
                raise Untranslatable('identity test %s' % k)
            terms = [self.num(t.left)] + [self.num(c) for c in t.comparators]
            parts = []
            for op, a, b in zip(t.ops, terms, terms[1:]):
                if isinstance(op, ast.Eq):      parts.append('(eqb N %s %s)' % (a, b))
                elif isinstance(op, ast.NotEq): parts.append('(negb (eqb N %s %s))' % (a, b))
                elif isinstance(op, ast.Lt):    parts.append('(ltb N %s %s)' % (a, b))
                elif isinstance(op, ast.Gt):    parts.append('(ltb N %s %s)' % (b, a))
                elif isinstance(op, ast.LtE):   parts.append('(leb N %s %s)' % (a, b))
                elif isinstance(op, ast.GtE):   parts.append('(leb N %s %s)' % (b, a))
                else: raise Untranslatable('comparison operator %s' % type(op).__name__)
            return parts[0] if len(parts) == 1 else '(' + ' && '.join(parts) + ')'
        if isinstance(t, ast.Call) and not t.keywords and len(t.args) == 1 and isinstance(t.func, ast.Attribute) \
                and isinstance(t.func.value, ast.Name) and t.func.attr in ('isnan', 'isinf'):
            fn = 'is_nan' if t.func.attr == 'isnan' else 'is_inf'
            if t.func.value.id == 'math':
                return '(%s N %s)' % (fn, self.num(t.args[0]))
            if t.func.value.id == 'cmath':
                k = self.key(t.args[0])
                if k is not None and (k + '.real') in self.env and (k + '.imag') in self.env:
                    return '(%s N %s || %s N %s)' % (fn, self.env[k + '.real'][1], fn, self.env[k + '.imag'][1])
            raise Untranslatable('isnan/isinf form')
        k = self.key(t)
        if k is not None and k in self.env and not isinstance(self.env[k], Static) and self.env[k][0] == 'B':
            return self.env[k][1]
        raise Untranslatable('test %s' % ast.dump(t)[:120])

    def is_not_none(self, t):
        if isinstance(t, ast.Compare) and len(t.ops) == 1 and isinstance(t.ops[0], ast.IsNot) \
                and isinstance(t.comparators[0], ast.Constant) and t.comparators[0].value is None \
                and isinstance(t.left, ast.Name) and t.left.id in self.env \
                and not isinstance(self.env[t.left.id], Static) and self.env[t.left.id][0] == 'OF':
            return t.left.id
        return None

    # ------------------------------------------------------------------ statements (continuation duplicated at joins)
    def terminates(self, stmts):
        for s in stmts:
            if isinstance(s, (ast.Return, ast.Raise)):
                return True
            if isinstance(s, ast.If) and self.terminates(s.body) and self.terminates(s.orelse):
                return True
        return False

    def block(self, stmts, cont):
        """stmts followed by the statement list cont -> gallina term : res _"""
        if not stmts:
            if cont:
                return self.block(cont[0], cont[1:] if len(cont) > 1 else [])
            if self.fall is None:
                raise Untranslatable('control falls off the end')
            return 'Ok %s' % self.fall
        s, rest = stmts[0], stmts[1:]
        if isinstance(s, ast.Expr) and isinstance(s.value, ast.Constant) and isinstance(s.value.value, str):
            return self.block(rest, cont)                              # docstring
        if isinstance(s, ast.Raise):
            exc = s.exc
            name = exc.func.id if isinstance(exc, ast.Call) and isinstance(exc.func, ast.Name) else \
                   exc.id if isinstance(exc, ast.Name) else None
            if name not in EXN_OK:
                raise Untranslatable('raise of %r' % name)
            return 'Err %s' % name
        if isinstance(s, ast.Return):
            return self.returns(s.value, self)
        if isinstance(s, ast.If):
            st = self.static(s.test)
            if st is not None and st.kind == 'bool':
                return self.block((s.body if st.val else s.orelse) + rest, cont)
            c = self.test(s.test)
            saved = dict(self.env)
            a = self.block(s.body, [rest] + cont if rest or cont else [])
            self.env = dict(saved)
            b = self.block(s.orelse, [rest] + cont if rest or cont else [])
            self.env = saved
            return '(if %s\n     then %s\n     else %s)' % (c, a, b)
        if isinstance(s, ast.Assign):
            # tuple unpacking of a sequence of statically known shape
            if len(s.targets) == 1 and isinstance(s.targets[0], ast.Tuple):
                sv = self.static(s.value)
                names = s.targets[0].elts
                if sv is None or sv.kind != 'seq' or len(sv.val) != len(names) or not all(isinstance(n, ast.Name) for n in names):
                    raise Untranslatable('tuple assignment')
                saved = dict(self.env)
                for n, v in zip(names, sv.val):
                    self.env[n.id] = v
                body = self.block(rest, cont)
                self.env = saved
                return body
            for tgt in s.targets:
                if not isinstance(tgt, ast.Name):
                    if self.effects is not None and self.effects(s, self):
                        self.seen_effects.append(ast.dump(s))
                        return self.block(rest, cont)
                    raise Untranslatable('assignment target %s' % ast.dump(tgt)[:80])
            sv = self.static(s.value)
            saved = dict(self.env)
            if sv is not None:
                for tgt in s.targets:
                    self.env[tgt.id] = sv
                body = self.block(rest, cont)
                self.env = saved
                return body
            # aliases of object attributes (ln1 = x1._node): remembered as dotted-key prefixes
            k = self.key(s.value)
            if k is not None and len(s.targets) == 1 and any(key.startswith(k + '.') for key in self.env if isinstance(key, str)):
                t0 = s.targets[0].id
                for key in list(self.env):
                    if isinstance(key, str) and key.startswith(k + '.'):
                        self.env[t0 + key[len(k):]] = self.env[key]
                self.env['alias:' + t0] = ('A', k)
                body = self.block(rest, cont)
                self.env = saved
                return body
            p, ty, x = self.expr(s.value)
            v = self.fresh(s.targets[0].id)
            for tgt in s.targets:
                self.env[tgt.id] = (ty, v)
            body = self.block(rest, cont)
            self.env = saved
            return self.close(p, '(let %s := %s in\n      %s)' % (v, x, body))
        raise Untranslatable('statement %s' % type(s).__name__)

    def function(self, fn):
        body = list(fn.body)
        return self.block(body, [])


# ---------------------------------------------------------------------- the worklist
def find_def(tree, name, cls=None):
    scope = tree.body
    if cls is not None:
        scope = None
        for n in tree.body:
            if isinstance(n, ast.ClassDef) and n.name == cls:
                scope = n.body
        if scope is None:
            raise Untranslatable('class %s not found' % cls)
    for n in scope:
        if isinstance(n, ast.FunctionDef) and n.name == name:
            return n
    raise Untranslatable('function %s not found' % name)

def argnames(fn):
    return [a.arg for a in fn.args.args]

def call_name(c):
    if isinstance(c, ast.Call):
        f = c.func
        if isinstance(f, ast.Attribute) and isinstance(f.value, ast.Name):
            return '%s.%s' % (f.value.id, f.attr)
        if isinstance(f, ast.Name):
            return f.id
    return None

def passthrough(arg, name, comp):
    """the argument is the unmodified parameter `name`"""
    return isinstance(arg, ast.Name) and arg.id == name and name not in comp.env

def ret_ureal(call, comp):
    n = call_name(call)
    if n == 'UncertainReal._constant' and len(call.args) == 2 and not call.keywords and passthrough(call.args[1], 'label', comp):
        p, t, x = comp.expr(call.args[0])
        if t != 'F': raise Untranslatable('constant value')
        return comp.close(p, 'Ok (RD_constant %s)' % x)
    if n == 'UncertainReal._elementary' and len(call.args) == 5 and not call.keywords \
            and passthrough(call.args[3], 'label', comp) and passthrough(call.args[4], 'independent', comp):
        pre = []; xs = []
        for a in call.args[:3]:
            p, t, x = comp.expr(a)
            if t != 'F': raise Untranslatable('elementary argument')
            pre += p; xs.append(x)
        return comp.close(pre, 'Ok (RD_elementary %s %s %s)' % tuple(xs))
    raise Untranslatable('return form %s' % n)

def ret_ucomplex(call, comp):
    n = call_name(call)
    def zpair(a):
        if isinstance(a, ast.Call) and isinstance(a.func, ast.Name) and a.func.id == 'complex' and len(a.args) == 1 \
                and isinstance(a.args[0], ast.Name) and a.args[0].id == 'z':
            return comp.env['z.real'][1], comp.env['z.imag'][1]
        raise Untranslatable('complex value argument')
    if n == 'UncertainComplex._constant' and len(call.args) == 2 and not call.keywords and passthrough(call.args[1], 'label', comp):
        zr, zi = zpair(call.args[0])
        return 'Ok (CD_constant %s %s)' % (zr, zi)
    if n == 'UncertainComplex._elementary' and len(call.args) == 7 and not call.keywords and passthrough(call.args[5], 'label', comp):
        zr, zi = zpair(call.args[0])
        pre = []; xs = []
        for a, want in zip(call.args[1:5], ['F', 'F', 'OF', 'F']):
            p, t, x = comp.expr(a)
            if want == 'OF' and t == 'F': x = '(Some %s)' % x; t = 'OF'
            if t != want: raise Untranslatable('elementary argument type')
            pre += p; xs.append(x)
        ind = call.args[6]
        if not (isinstance(ind, ast.Name) and ind.id == 'independent'):
            raise Untranslatable('independent argument')
        it = comp.env['independent'][1]
        return comp.close(pre, 'Ok (CD_elementary %s %s %s %s %s %s %s)' % (zr, zi, xs[0], xs[1], xs[2], xs[3], it))
    raise Untranslatable('return form %s' % n)

def gen_ureal(core):
    fn = find_def(core, 'ureal')
    if argnames(fn) != ['x', 'u', 'df', 'label', 'independent']:
        raise Untranslatable('signature of ureal')
    comp = C({'x': ('F', 'x'), 'u': ('F', 'u'), 'df': ('F', 'df')}, ret_ureal)
    body = comp.function(fn)
    return 'Definition g_ureal (x u df : V) : res (real_decl V) :=\n    %s.' % body

def gen_ucomplex(core, shape):
    fn = find_def(core, 'ucomplex')
    if argnames(fn) != ['z', 'u', 'df', 'label', 'independent']:
        raise Untranslatable('signature of ucomplex')
    env = {'z.real': ('F', 'zre'), 'z.imag': ('F', 'zim'), 'df': ('F', 'df'), 'independent': ('B', 'independent')}
    if shape == 'scalar':
        env['u'] = ('F', 'u'); params = '(zre zim u df : V)'
    elif shape == 'seqn':
        # a sequence whose length is neither 2 nor 4: the elements are never looked at
        env['u'] = Static('seq', [('F', 'u_bad')] * 3); params = '(zre zim df : V)'
    else:
        k = int(shape[3:])
        names = ['u%d' % i for i in range(k)]
        env['u'] = Static('seq', [('F', n) for n in names]); params = '(zre zim %s df : V)' % ' '.join(names)
    comp = C(env, ret_ucomplex)
    body = comp.function(fn)
    if shape == 'seqn' and 'u_bad' in body:
        raise Untranslatable('elements of an odd-length sequence are used')
    return 'Definition g_ucomplex_%s %s (independent : bool) : res (cplx_decl V) :=\n    %s.' % (shape, params, body)

def gen_seqn_independent_of_length(core):
    """g_ucomplex_seqn is emitted for a 3-sequence; the same text must come out for lengths 0, 1, 3, 5, 7"""
    texts = set()
    for k in (0, 1, 3, 5, 7):
        fn = find_def(core, 'ucomplex')
        env = {'z.real': ('F', 'zre'), 'z.imag': ('F', 'zim'), 'df': ('F', 'df'), 'independent': ('B', 'independent'),
               'u': Static('seq', [('F', 'u_bad')] * k)}
        texts.add(C(env, ret_ucomplex).function(fn))
    if len(texts) != 1:
        raise Untranslatable('sequences of length 0,1,3,5,7 are not treated alike')

def gen_elementary_guard(lib):
    fn = find_def(lib, '_elementary', 'UncertainReal')
    if argnames(fn) != ['cls', 'x', 'u', 'df', 'label', 'independent']:
        raise Untranslatable('signature of _elementary')
    # the guard prefix: leading `if <test>: raise ...` statements (docstring skipped)
    body = [s for s in fn.body if not (isinstance(s, ast.Expr) and isinstance(s.value, ast.Constant))]
    guards = []
    for s in body:
        if isinstance(s, ast.If) and not s.orelse and len(s.body) == 1 and isinstance(s.body[0], ast.Raise):
            guards.append(s)
        else:
            break
    tail = body[len(guards):]
    # what follows must allocate the uid and create the leaf with the unmodified u and df
    ok = (len(tail) >= 2 and isinstance(tail[0], ast.Assign) and '_next_elementary_id' in ast.dump(tail[0].value)
          and isinstance(tail[1], ast.Assign) and isinstance(tail[1].value, ast.Call) and 'new_leaf' in ast.dump(tail[1].value.func)
          and [getattr(a, 'id', None) for a in tail[1].value.args] == ['uid', 'label', 'u', 'df'])
    if not ok:
        raise Untranslatable('_elementary: uid allocation / new_leaf(uid,label,u,df,...) not where expected')
    for s in tail:
        for n in ast.walk(s):
            if isinstance(n, ast.Raise):
                raise Untranslatable('_elementary: a raise after the uid allocation')
    comp = C({'u': ('F', 'u'), 'df': ('F', 'df')}, lambda v, c: (_ for _ in ()).throw(Untranslatable('return in guard')), fall='tt')
    return 'Definition g_elementary_guard (u df : V) : res unit :=\n    %s.' % comp.block(guards, [])

def gen_set_correlation_real(lib):
    fn = find_def(lib, 'set_correlation_real')
    if argnames(fn) != ['x1', 'x2', 'r', 'assign']:
        raise Untranslatable('signature of set_correlation_real (expected x1,x2,r,assign=True)')
    d = fn.args.defaults
    if not (len(d) == 1 and isinstance(d[0], ast.Constant) and d[0].value is True):
        raise Untranslatable('default of `assign` is not True')
    class C2(C):
        def test(self, t):
            # `ln1 is ln2` through the aliases
            if isinstance(t, ast.Compare) and len(t.ops) == 1 and isinstance(t.ops[0], ast.Is):
                def full(e):
                    k = self.key(e)
                    a = self.env.get('alias:' + k) if k else None
                    return a[1] if a else k
                k = '%s is %s' % (full(t.left), full(t.comparators[0]))
                if k in self.env: return self.env[k][1]
                raise Untranslatable('identity test %s' % k)
            return C.test(self, t)
    def once(assign):
        env = {'x1.is_elementary': ('B', 'elem1'), 'x2.is_elementary': ('B', 'elem2'),
               'x1._node.independent': ('B', 'indep1'), 'x2._node.independent': ('B', 'indep2'),
               'x1._node is x2._node': ('B', 'same_leaf'), 'r': ('F', 'r'),
               'x1._node.uid': ('K', 'k1'), 'x2._node.uid': ('K', 'k2'),
               'x1._node.correlation': ('D', 'c1'), 'x2._node.correlation': ('D', 'c2'),
               'assign': Static('bool', assign)}
        got = set()
        def eff(s, comp):
            # <leaf>.correlation[<other>.uid] = r
            t = s.targets[0]
            if len(s.targets) == 1 and isinstance(t, ast.Subscript) and isinstance(s.value, ast.Name) and s.value.id == 'r' \
                    and comp.env.get('r') == ('F', 'r'):
                dd = comp.env.get(comp.key(t.value)); k = comp.env.get(comp.key(t.slice))
                if dd and k and dd[0] == 'D' and k[0] == 'K':
                    got.add((dd[1], k[1])); return True
            return False
        comp = C2(env, lambda v, c: (_ for _ in ()).throw(Untranslatable('return in set_correlation_real')), fall='tt', effects=eff)
        return comp.function(fn), got
    body, got = once(True)
    body0, got0 = once(False)
    if got != {('c1', 'k2'), ('c2', 'k1')}:
        raise Untranslatable('set_correlation_real: the assignments are not correlation[other.uid] = r in both directions')
    if got0:
        raise Untranslatable('set_correlation_real(assign=False) assigns')
    if body != body0:
        raise Untranslatable('set_correlation_real: assign=False does not take the same decisions as assign=True')
    # the effects must sit on exactly one path: the term has exactly one `Ok tt`
    if body.count('Ok tt') != 1:
        raise Untranslatable('set_correlation_real: more than one accepting path')
    return ('Definition g_set_correlation_real (r : V) (elem1 elem2 indep1 indep2 same_leaf : bool) : res unit :=\n    %s.' % body)

def ordered_calls(stmts, name, out):
    """calls of `name` in source (execution) order, with the nesting depth of the statement holding them"""
    def walk(ss, depth):
        for st in ss:
            if isinstance(st, ast.If):
                walk(st.body, depth + 1); walk(st.orelse, depth + 1)
            else:
                for n in ast.walk(st):
                    if isinstance(n, ast.Call) and isinstance(n.func, ast.Name) and n.func.id == name:
                        out.append((depth, n))
    walk(stmts, 0)

def gen_complex_checks_first(lib):
    """UncertainComplex.set_correlation(self, r, arg), complex `arg`: the four set_correlation_real(..., assign=False)
    calls on (real,real,r[0]) (real,imag,r[1]) (imag,real,r[2]) (imag,imag,r[3]) come first, in one block, and every
    assigning call comes after them (so a rejected call has assigned nothing)"""
    fn = find_def(lib, 'set_correlation', 'UncertainComplex')
    if argnames(fn) != ['self', 'r', 'arg']:
        raise Untranslatable('signature of UncertainComplex.set_correlation')
    # the branch `elif isinstance(arg,UncertainComplex):`
    branch = None
    st = [s for s in fn.body if isinstance(s, ast.If)]
    node = st[0] if st else None
    while node is not None:
        t = node.test
        if isinstance(t, ast.Call) and isinstance(t.func, ast.Name) and t.func.id == 'isinstance' and len(t.args) == 2 \
                and isinstance(t.args[1], ast.Name) and t.args[1].id == 'UncertainComplex':
            branch = node.body; break
        node = node.orelse[0] if len(node.orelse) == 1 and isinstance(node.orelse[0], ast.If) else None
    if branch is None:
        raise Untranslatable('branch isinstance(arg,UncertainComplex) not found')
    calls = []
    ordered_calls(branch, 'set_correlation_real', calls)
    def shape(c):
        a = [ast.unparse(x) for x in c.args]
        kw = {k.arg: ast.unparse(k.value) for k in c.keywords}
        return a, kw
    want = [['self.real', 'arg.real', 'r[0]'], ['self.real', 'arg.imag', 'r[1]'],
            ['self.imag', 'arg.real', 'r[2]'], ['self.imag', 'arg.imag', 'r[3]']]
    if len(calls) < 8:
        raise Untranslatable('expected four checking and at least four assigning calls of set_correlation_real')
    d0 = calls[0][0]
    for (depth, c), w in zip(calls[:4], want):
        a, kw = shape(c)
        if a != w or kw != {'assign': 'False'} or depth != d0:
            raise Untranslatable('the first four calls are not the checks of the four pairs with assign=False')
    rest = [shape(c) for _, c in calls[4:]]
    if any(kw for _, kw in rest) or len(rest) % 4 != 0 or any([a for a, _ in rest[i:i + 4]] != want for i in range(0, len(rest), 4)):
        raise Untranslatable('the assigning calls are not the four pairs in order')
    return ('(* UncertainComplex.set_correlation: all four pairs are checked (assign=False) before any is assigned *)\n'
            '  Definition g_complex_checks_first : unit := tt.')

HEADER = '''(* GENERATED by tools/tr_core_checks.py from GTC/core.py and GTC/lib.py -- do not edit.
   The argument validation of the declaring functions, test by test, in source order, with the
   exception class each raises; core.ucomplex partially evaluated on the shape of `u`. *)
From Coq Require Import ZArith List Bool.
From GTCV Require Import Num DeclTypes.
Import ListNotations.

Section GenCoreChecks.
  Variable N : Num.
  Notation V := (T N).
'''

def main(repo, outdir):
    core = ast.parse(open(os.path.join(repo, 'GTC', 'core.py')).read())
    lib = ast.parse(open(os.path.join(repo, 'GTC', 'lib.py')).read())
    out = [HEADER]
    failed = []
    def emit(name, thunk):
        try:
            out.append('  ' + thunk() + '\n')
        except Untranslatable as ex:
            failed.append((name, str(ex)))
            out.append('  (* %s : NOT TRANSLATED -- %s *)\n' % (name, str(ex).replace('*)', '* )')))
        except Exception as ex:                                   # fail closed on anything unexpected
            failed.append((name, repr(ex)))
            out.append('  (* %s : NOT TRANSLATED -- internal: %s *)\n' % (name, repr(ex).replace('*)', '* )')))
    emit('g_ureal', lambda: gen_ureal(core))
    for shape in ('scalar', 'seq2', 'seq4'):
        emit('g_ucomplex_' + shape, lambda shape=shape: gen_ucomplex(core, shape))
    def seqn():
        gen_seqn_independent_of_length(core)
        return gen_ucomplex(core, 'seqn')
    emit('g_ucomplex_seqn', seqn)
    emit('g_elementary_guard', lambda: gen_elementary_guard(lib))
    emit('g_set_correlation_real', lambda: gen_set_correlation_real(lib))
    emit('g_complex_checks_first', lambda: gen_complex_checks_first(lib))
    out.append('End GenCoreChecks.\n')
    os.makedirs(outdir, exist_ok=True)
    with open(os.path.join(outdir, 'Gen_core_checks.v'), 'w') as f:
        f.write('\n'.join(out))
    for name, why in failed:
        print('tr_core_checks: %s NOT translated: %s' % (name, why))
    print('tr_core_checks: %d definitions, %d failed' % (8 - len(failed), len(failed)))
    return 1 if failed else 0

if __name__ == '__main__':
    sys.exit(main(sys.argv[1], sys.argv[2]))

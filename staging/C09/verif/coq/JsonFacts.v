(* JsonFacts.v -- the document written for a well-formed frozen archive whose tags are
   identifier-like validates against the shipped JSON schema (the term regenerated from
   GTC/schema/gtc_v_1_5_0.json), whatever the sizes of the five collections, of the
   component vectors, of the correlation lists and ensembles, and for every number carrier. *)
From Coq Require Import List Bool Ascii String ZArith NArith DecimalString Decimal Lia.
From GTCV Require Import Num Regex Json JsonArchive.
From GTCV.gen Require Import Gen_schema_json.
Import ListNotations.
Local Open Scope string_scope.
Local Open Scope list_scope.

(* ---------- decimal text ---------- *)
Definition cs_digit : cset := [(48%N, 57%N)].
Definition cs_space : cset := [(9%N, 13%N); (28%N, 32%N)].
Definition cs_uid : cset := [(32%N, 32%N); (40%N, 41%N); (44%N, 44%N); (48%N, 57%N)].

Lemma nilempty_digits : forall d c,
  In c (list_ascii_of_string (NilEmpty.string_of_uint d)) -> cmem cs_digit c = true.
Proof.
  induction d; simpl; intros c H; try contradiction;
    (destruct H as [<-|H]; [reflexivity | apply IHd; assumption]).
Qed.

Lemma dec_digits : forall n c, In c (list_ascii_of_string (dec n)) -> cmem cs_digit c = true.
Proof.
  intros n c. unfold dec. destruct (N.to_uint n) eqn:E;
    try (apply nilempty_digits).
  simpl. intros [<-|[]]. reflexivity.
Qed.

Lemma dec_nonempty : forall n, list_ascii_of_string (dec n) <> [].
Proof.
  intro n. unfold dec. destruct (N.to_uint n); simpl; discriminate.
Qed.

Lemma digit_is_uidchar : forall c, cmem cs_digit c = true -> cmem cs_uid c = true.
Proof.
  intros c. unfold cmem, cs_digit, cs_uid. simpl. intro H.
  rewrite orb_false_r in H. rewrite H. rewrite !orb_true_r. reflexivity.
Qed.

(* ---------- the regular expressions of the schema, in the shape the translator emits ---------- *)
Definition lit1 (n : BinNums.N) : re := Chr [(n, n)].
Definition plus (p : cset) : re := Seq (Chr p) (Star (Chr p)).
Definition re_euid : re :=
  Seq (lit1 40) (Seq (plus cs_digit) (Seq (lit1 44) (Seq (Star (Chr cs_space)) (Seq (plus cs_digit) (lit1 41))))).
Definition re_iuid0 : re :=
  Seq (lit1 40) (Seq (plus cs_digit) (Seq (lit1 44) (Seq (Star (Chr cs_space))
    (Seq (plus cs_digit) (Seq (lit1 44) (Seq (Star (Chr cs_space)) (Seq (lit1 48) (lit1 41)))))))).
Definition re_iuid : re :=
  Seq (lit1 40) (Seq (plus cs_digit) (Seq (lit1 44) (Seq (Star (Chr cs_space))
    (Seq (plus cs_digit) (Seq (lit1 44) (Seq (Star (Chr cs_space)) (Seq (plus cs_digit) (lit1 41)))))))).
Definition cs_id0 : cset := [(97%N, 122%N); (65%N, 90%N); (95%N, 95%N)].
Definition cs_id : cset := [(97%N, 122%N); (65%N, 90%N); (48%N, 57%N); (95%N, 95%N)].
Definition re_ident : re := Seq (Chr cs_id0) (Star (Chr cs_id)).

Lemma M_chr1 : forall n c, N_of_ascii c = n -> M (lit1 n) [c].
Proof.
  intros n c <-. constructor. unfold cmem. simpl. rewrite N.leb_refl. reflexivity.
Qed.

Lemma M_digits : forall n, M (plus cs_digit) (list_ascii_of_string (dec n)).
Proof. intro n. apply M_plus_all; [apply dec_nonempty | apply dec_digits]. Qed.

Lemma M_space1 : M (Star (Chr cs_space)) [" "%char].
Proof. apply M_star_all. intros c [<-|[]]. reflexivity. Qed.

Lemma two_app : forall (a b : ascii) (l : list ascii), ([a; b] ++ l = [a] ++ ([b] ++ l))%list.
Proof. reflexivity. Qed.
Lemma three_app : forall (a b c : ascii) (l : list ascii), ([a; b; c] ++ l = [a] ++ ([b] ++ ([c] ++ l)))%list.
Proof. reflexivity. Qed.

Ltac m_lit := constructor; [apply M_chr1; reflexivity|].
Ltac m_dig := constructor; [apply M_digits|].
Ltac m_sp := constructor; [apply M_space1|].

Lemma M_euid : forall u, M re_euid (list_ascii_of_string (repr_e u)).
Proof.
  intros [a b]. unfold repr_e, re_euid. cbn [fst snd].
  rewrite !list_ascii_app. cbn [list_ascii_of_string]. rewrite two_app.
  m_lit. m_dig. m_lit. m_sp. m_dig. apply M_chr1; reflexivity.
Qed.

Lemma M_iuid0 : forall u, M re_iuid0 (list_ascii_of_string (repr_i u)).
Proof.
  intros [a b]. unfold repr_i, re_iuid0. cbn [fst snd].
  rewrite !list_ascii_app. cbn [list_ascii_of_string]. rewrite two_app.
  change [","%char; " "%char; "0"%char; ")"%char] with (([","%char] ++ [" "%char] ++ ["0"%char] ++ [")"%char])%list).
  m_lit. m_dig. m_lit. m_sp. m_dig. m_lit. m_sp. m_lit. apply M_chr1; reflexivity.
Qed.

Lemma M_iuid : forall u, M re_iuid (list_ascii_of_string (repr_i u)).
Proof.
  intros [a b]. unfold repr_i, re_iuid. cbn [fst snd].
  rewrite !list_ascii_app. cbn [list_ascii_of_string]. rewrite two_app.
  change [","%char; " "%char; "0"%char; ")"%char] with (([","%char] ++ [" "%char] ++ ["0"%char] ++ [")"%char])%list).
  m_lit. m_dig. m_lit. m_sp. m_dig. m_lit. m_sp.
  constructor; [|apply M_chr1; reflexivity].
  apply (M_plus_all cs_digit ["0"%char]); [discriminate|]. intros c [<-|[]]. reflexivity.
Qed.

Lemma M_ident : forall s, is_ident s = true -> M re_ident (list_ascii_of_string s).
Proof.
  intros [|c r] H; [discriminate|]. simpl in H. apply andb_true_iff in H as [H0 H1].
  simpl. change (c :: list_ascii_of_string r) with ([c] ++ list_ascii_of_string r).
  constructor; [constructor; exact H0|].
  apply M_star_all. intros x Hx. rewrite forallb_forall in H1. apply H1; assumption.
Qed.

Lemma is_ident_app : forall t sfx, is_ident t = true ->
  forallb ident_char (list_ascii_of_string sfx) = true -> is_ident (t ++ sfx)%string = true.
Proof.
  intros [|c r] sfx H Hs; [discriminate|]. simpl in *.
  apply andb_true_iff in H as [H0 H1]. rewrite H0. simpl.
  rewrite list_ascii_app, forallb_app, H1, Hs. reflexivity.
Qed.

(* every character of a printed uid is one of "(), 0-9" *)
Lemma uid_chars_e : forall u c, In c (list_ascii_of_string (repr_e u)) -> cmem cs_uid c = true.
Proof.
  intros [a b] c. unfold repr_e. cbn [fst snd]. rewrite !list_ascii_app. cbn [list_ascii_of_string].
  rewrite !in_app_iff. simpl.
  intros [[<-|[]]|[H|[[<-|[<-|[]]]|[H|[<-|[]]]]]]; try reflexivity;
    apply dec_digits, digit_is_uidchar in H; assumption.
Qed.

Lemma uid_chars_i : forall u c, In c (list_ascii_of_string (repr_i u)) -> cmem cs_uid c = true.
Proof.
  intros [a b] c. unfold repr_i. cbn [fst snd]. rewrite !list_ascii_app. cbn [list_ascii_of_string].
  rewrite !in_app_iff. simpl.
  intros [[<-|[]]|[H|[[<-|[<-|[]]]|[H|[<-|[<-|[<-|[<-|[]]]]]]]]]; try reflexivity;
    apply dec_digits, digit_is_uidchar in H; assumption.
Qed.

(* an un-anchored pattern whose body must start with a character outside [cs] cannot be found
   in a string made of characters of [cs] *)
Lemma search_absent : forall (n : BinNums.N) (rest : re) (cs : cset) (s : string),
  (forall c, In c (list_ascii_of_string s) -> cmem cs c = true) ->
  (forall c, cmem cs c = true -> N_of_ascii c <> n) ->
  pmatch (mkPat false false (Seq (lit1 n) rest)) s = false.
Proof.
  intros n rest cs s Hall Hout. unfold pmatch.
  destruct (rmatch _ _) eqn:E; [|reflexivity]. exfalso.
  apply rmatch_iff in E. unfold pat_re in E. cbn [p_left p_right p_body] in E.
  inversion E as [| |? ? pre t1 _ H1 Heq| | | |]; subst.
  inversion H1 as [| |? ? mid post H2 _ Heq2| | | |]; subst.
  inversion H2 as [| |? ? m1 m2 H3 _ Heq3| | | |]; subst.
  inversion H3 as [|? c Hc| | | | |]; subst.
  assert (Hin : In c (list_ascii_of_string s)).
  { match goal with Hs : _ = list_ascii_of_string s |- _ => rewrite <- Hs end.
    rewrite !in_app_iff. right. left. left. left. reflexivity. }
  apply Hall in Hin. apply (Hout c Hin).
  unfold cmem in Hc. simpl in Hc. rewrite orb_false_r in Hc.
  apply andb_true_iff in Hc as [Ha Hb]. apply N.leb_le in Ha, Hb. lia.
Qed.

Lemma uidchar_not_a : forall c, cmem cs_uid c = true -> N_of_ascii c <> 97%N.
Proof.
  intros c H E. unfold cmem in H. rewrite E in H. vm_compute in H. discriminate.
Qed.

Section Facts.
Variable NM : Num.
Notation json := (json NM).
Notation vf := (vfuel NM gtc_defs).
Notation rf := (ref_fuel NM gtc_defs).

Ltac vcbn1 :=
  cbn [forallb existsb vkw vmember has_type lit_eq opt_check is_some assoc fst snd
       String.eqb Ascii.eqb Bool.eqb andb orb negb Nat.leb List.length map Datatypes.app
       jlabel jdf jvec p_left p_right p_body].
Ltac vcbn := vcbn1; repeat (progress (unfold vmember at 1; vcbn1)).
Ltac vhead := unfold ref_fuel at 1; cbn [assoc gtc_defs String.eqb Ascii.eqb Bool.eqb].
Ltac vstep := repeat (rewrite vfuel_S; vcbn).
Ltac vgo := vhead; vstep.

Lemma v_euid : forall f u, rf (S f) "eUIDString" (JStr (repr_e u)) = true.
Proof.
  intros. vgo. rewrite andb_true_r. apply pmatch_anchored. exact (M_euid u).
Qed.

Lemma v_iuid : forall f u, rf (S f) "iUIDString" (JStr (repr_i u)) = true.
Proof.
  intros. vgo. rewrite andb_true_r. apply pmatch_anchored. exact (M_iuid0 u).
Qed.

Lemma v_label : forall f l, rf (S f) "string_or_null" (jlabel NM l) = true.
Proof. intros f [s|]; vgo; reflexivity. Qed.

Lemma v_df : forall f d, df_ok NM d -> rf (S f) "df" (jdf NM d) = true.
Proof.
  intros f [x|] H; vgo; [|reflexivity]. simpl in H. rewrite H. reflexivity.
Qed.

Lemma forallb_map_true : forall A B (g : A -> B) (p : B -> bool) (l : list A),
  (forall a, In a l -> p (g a) = true) -> forallb p (map g l) = true.
Proof.
  intros. apply forallb_forall. intros b Hb. apply in_map_iff in Hb as [a [<- Ha]]. auto.
Qed.

Lemma vitems_nil_map : forall A (g : A -> json) (s : schema) (rec : schema -> json -> bool) (l : list A),
  (forall a, In a l -> rec s (g a) = true) -> vitems NM rec (Some s) [] (map g l) = true.
Proof.
  intros A g s rec [|a l] H; [reflexivity|]. cbn [map vitems opt_check].
  apply (forallb_map_true _ _ g _ (a :: l)). exact H.
Qed.

Lemma v_euidarray : forall f (l : list uid),
  rf (S (S f)) "eUIDArray" (JArr (map (fun u => JStr (repr_e u)) l)) = true.
Proof.
  intros. vgo. rewrite !andb_true_r.
  apply vitems_nil_map. intros u _. vstep. rewrite andb_true_r. exact (v_euid f u).
Qed.

Lemma v_evector : forall f (v : vec NM), rf (S (S (S f))) "eVector" (jvec NM repr_e v) = true.
Proof.
  intros. vgo. rewrite !andb_true_r. apply andb_true_iff; split.
  - rewrite <- (map_map fst (fun u => JStr (repr_e u))). apply v_euidarray.
  - apply vitems_nil_map. intros a _. vstep. reflexivity.
Qed.

Lemma v_iuidarray : forall f (l : list uid),
  rf (S (S f)) "iUIDArray" (JArr (map (fun u => JStr (repr_i u)) l)) = true.
Proof.
  intros. vgo. rewrite !andb_true_r.
  apply vitems_nil_map. intros u _. vstep. rewrite andb_true_r. exact (v_iuid f u).
Qed.

Lemma v_ivector : forall f (v : vec NM), rf (S (S (S f))) "iVector" (jvec NM repr_i v) = true.
Proof.
  intros. vgo. rewrite !andb_true_r. apply andb_true_iff; split.
  - rewrite <- (map_map fst (fun u => JStr (repr_i u))). apply v_iuidarray.
  - apply vitems_nil_map. intros a _. vstep. reflexivity.
Qed.

Lemma v_correlation : forall f (c : list (uid * T NM)), c <> [] ->
  rf (S (S f)) "correlation" (JObj (map (fun p => (repr_e (fst p), JNum (snd p))) c)) = true.
Proof.
  intros f c Hc. vgo. rewrite !andb_true_r. apply andb_true_iff; split.
  - apply forallb_map_true. intros p _. cbn [fst]. vstep. rewrite andb_true_r. apply v_euid.
  - rewrite map_length. destruct c; [congruence | reflexivity].
Qed.

Ltac vsplit := repeat (match goal with |- andb _ _ = true => apply andb_true_iff; split end); try reflexivity.

Ltac vref := match goal with
  | |- ref_fuel _ _ _ "eUIDString" _ = true => apply v_euid
  | |- ref_fuel _ _ _ "iUIDString" _ = true => apply v_iuid
  | |- ref_fuel _ _ _ "string_or_null" _ = true => apply v_label
  | |- ref_fuel _ _ _ "df" _ = true => apply v_df; assumption
  | |- ref_fuel _ _ _ "eUIDArray" _ = true => apply v_euidarray
  | |- ref_fuel _ _ _ "eVector" _ = true => apply v_evector
  | |- ref_fuel _ _ _ "iVector" _ = true => apply v_ivector
  | |- ref_fuel _ _ _ "correlation" _ = true => apply v_correlation; assumption
  end.

Lemma v_leaf : forall f (l : leaf NM), wf_leaf NM l -> rf (S (S (S f))) "leaf_node" (jleaf NM l) = true.
Proof.
  intros f l (Hu & Hdf & Hc). unfold jleaf. unfold nonneg in Hu.
  destruct (l_complex NM l) as [[ca cb]|]; destruct (l_corr NM l) as [c|]; destruct (l_ens NM l) as [e|];
    cbn [Datatypes.app]; vgo; rewrite ?andb_true_r; rewrite ?Hu; vsplit; try vref.
  all: cbn [vitems opt_check forallb]; vstep; rewrite ?andb_true_r; vsplit; vref.
Qed.

Lemma v_elementary : forall f x u, rf (S (S f)) "elementaryReal" (jtreal NM (TElem x u)) = true.
Proof.
  intros. cbn [jtreal]. vgo. rewrite ?andb_true_r. vsplit. vref.
Qed.

Lemma v_intermediate : forall f x lab u uc dc ic,
  rf (S (S (S (S f)))) "IntermediateReal" (jtreal NM (TInterm x lab u uc dc ic)) = true.
Proof.
  intros. cbn [jtreal]. vgo. rewrite ?andb_true_r. vsplit; vref.
Qed.

Lemma pm_ident : forall k, is_ident k = true -> pmatch (mkPat true true re_ident) k = true.
Proof. intros k H. apply pmatch_anchored. apply M_ident. assumption. Qed.

Lemma pm_euid : forall u, pmatch (mkPat true true re_euid) (repr_e u) = true.
Proof. intro u. apply pmatch_anchored. apply M_euid. Qed.

Lemma pm_iuid : forall u, pmatch (mkPat true true re_iuid) (repr_i u) = true.
Proof. intro u. apply pmatch_anchored. apply M_iuid. Qed.

Ltac rw_pm k P H := match goal with |- context [pmatch ?p k] =>
  change (pmatch p k) with (pmatch P k); rewrite H end.

Lemma v_tagged_real : forall f (m : list (string * treal NM)),
  Forall (fun p => is_ident (fst p) = true) m ->
  rf (S (S (S (S (S f))))) "tagged" (JObj (map (fun p => (fst p, jtreal NM (snd p))) m)) = true.
Proof.
  intros f m Hid. vgo. rewrite ?andb_true_r.
  apply forallb_map_true. intros [k t] Hin. rewrite Forall_forall in Hid. specialize (Hid _ Hin).
  cbn [fst snd] in *. vcbn. rw_pm k (mkPat true true re_ident) (pm_ident k Hid). cbn [orb andb]. rewrite ?andb_true_r.
  destruct t as [x u|x lab u uc dc ic]; cbn [jtreal]; vstep; rewrite ?andb_true_r.
  - apply v_elementary.
  - apply v_intermediate.
Qed.

Lemma v_tagged_complex : forall f (m : list (string * tcomplex)),
  Forall (fun p => is_ident (fst p) = true) m ->
  rf (S (S (S (S (S f))))) "tagged" (JObj (map (fun p => (fst p, jtcomplex NM (snd p))) m)) = true.
Proof.
  intros f m Hid. vgo. rewrite ?andb_true_r.
  apply forallb_map_true. intros [k t] Hin. rewrite Forall_forall in Hid. specialize (Hid _ Hin).
  cbn [fst snd] in *. vcbn. rw_pm k (mkPat true true re_ident) (pm_ident k Hid). cbn [orb andb]. rewrite ?andb_true_r.
  unfold jtcomplex. vstep. reflexivity.
Qed.

Lemma pm_noprops_e : forall rest u,
  pmatch (mkPat false false (Seq (Chr [(97%N, 97%N)]) rest)) (repr_e u) = false.
Proof.
  intros. apply (search_absent 97 rest cs_uid); [apply uid_chars_e | apply uidchar_not_a].
Qed.

Lemma pm_noprops_i : forall rest u,
  pmatch (mkPat false false (Seq (Chr [(97%N, 97%N)]) rest)) (repr_i u) = false.
Proof.
  intros. apply (search_absent 97 rest cs_uid); [apply uid_chars_i | apply uidchar_not_a].
Qed.

Lemma component_ident : forall (names : list string) k,
  Forall (fun t => is_ident t = true) names -> component_name names k -> is_ident k = true.
Proof.
  intros names k Hn (t & Hin & [-> | ->]); rewrite Forall_forall in Hn;
    apply is_ident_app; auto.
Qed.

Ltac rw_noprops k lem := match goal with
  |- context [pmatch (mkPat false false (Seq (Chr [(97%N, 97%N)]) ?rest)) k] => rewrite (lem rest) end.

Theorem json_valid : forall (a : farchive NM),
  wf NM a -> ident_tags NM a ->
  validates NM gtc_defs gtc_schema (json_encode NM json_schema_id a) = true.
Proof.
  intros a (Hl & Hi & Hu) (Htr & Htc).
  unfold validates, gtc_schema, json_encode. vstep. rewrite ?andb_true_r. vsplit.
  - apply forallb_map_true. intros l Hin. rewrite Forall_forall in Hl. specialize (Hl _ Hin).
    cbn [fst snd].
    rw_pm (repr_e (l_uid NM l)) (mkPat true true re_euid) (pm_euid (l_uid NM l)).
    rw_noprops (repr_e (l_uid NM l)) pm_noprops_e.
    cbn [orb andb]. rewrite ?andb_true_r. vstep. rewrite ?andb_true_r. apply v_leaf. exact Hl.
  - apply v_tagged_real. exact Htr.
  - apply v_tagged_complex. exact Htc.
  - apply v_tagged_real. rewrite Forall_forall in *. intros p Hp.
    apply (component_ident (map fst (a_tcomplex NM a))); [|apply Hu; exact Hp].
    apply Forall_forall. intros t Ht. apply in_map_iff in Ht as [q [<- Hq]]. apply Htc; exact Hq.
  - apply forallb_map_true. intros [u i] Hin. rewrite Forall_forall in Hi. specialize (Hi _ Hin).
    cbn [fst snd] in *.
    rw_pm (repr_i u) (mkPat true true re_iuid) (pm_iuid u).
    rw_noprops (repr_i u) pm_noprops_i.
    cbn [orb andb]. rewrite ?andb_true_r. unfold jinterm. vstep. cbn [vitems]. vstep.
    rewrite ?andb_true_r. vsplit; vref.
Qed.

End Facts.

(* ---------- the version sniff of persistence.loads_json on the printed text ---------- *)
Definition contains (mid s : list ascii) : Prop := exists pre post, s = pre ++ mid ++ post.

Lemma contains_refl : forall m, contains m m.
Proof. intro m. exists [], []. rewrite app_nil_r. reflexivity. Qed.
Lemma contains_l : forall m a b, contains m a -> contains m (a ++ b).
Proof. intros m a b (p & q & ->). exists p, (q ++ b). rewrite <- !app_assoc. reflexivity. Qed.
Lemma contains_r : forall m a b, contains m b -> contains m (a ++ b).
Proof. intros m a b (p & q & ->). exists (a ++ p), q. rewrite <- !app_assoc. reflexivity. Qed.
Lemma contains_cons : forall m c b, contains m b -> contains m (c :: b).
Proof. intros m c b H. apply (contains_r m [c] b H). Qed.

Lemma search_contains : forall body mid s,
  M body mid -> contains mid (list_ascii_of_string s) -> pmatch (mkPat false false body) s = true.
Proof.
  intros body mid s Hm (pre & post & E). unfold pmatch. rewrite E. apply pmatch_search. exact Hm.
Qed.

Lemma contains_here : forall (m x : list ascii), contains m (m ++ x).
Proof. intros m x. exists [], x. reflexivity. Qed.

Ltac find_mid := idtac; match goal with
  | |- contains ?m ?m => apply contains_refl
  | |- contains _ (?a ++ ?b) => first [apply contains_l; find_mid | apply contains_r; find_mid]
  | |- contains ?m (?c :: ?r) =>
      first [ exact (contains_here m (skipn (List.length m) (c :: r))) | apply contains_cons; find_mid ]
  end.

Lemma join_contains : forall (sep : string) (l : list string) (x : string),
  In x l -> contains (list_ascii_of_string x) (list_ascii_of_string (join sep l)).
Proof.
  induction l as [|y l IH]; intros x Hin; [destruct Hin|].
  destruct l as [|z l'].
  - destruct Hin as [<-|[]]. apply contains_refl.
  - change (join sep (y :: z :: l')) with (y ++ sep ++ join sep (z :: l'))%string.
    rewrite !list_ascii_app. destruct Hin as [<-|Hin].
    + apply contains_l, contains_refl.
    + apply contains_r, contains_r, IH, Hin.
Qed.

(* key separators that give JSON text: white space, a colon, white space (json.dumps accepts any
   string; anything else does not print a JSON document at all) *)
Definition all_space (w : string) : Prop :=
  forall c, In c (list_ascii_of_string w) -> cmem cs_space c = true.
Definition key_sep_ok (ks : string) : Prop :=
  exists w1 w2, ks = (w1 ++ ":" ++ w2)%string /\ all_space w1 /\ all_space w2.

Ltac m_step := match goal with
  | |- M (Seq (Star (Chr _)) _) (_ ++ _) => constructor; [apply M_star_all; assumption|]
  | |- M (Seq (Chr _) _) (?c :: ?r) => change (c :: r) with ([c] ++ r); constructor; [constructor; reflexivity|]
  | |- M (Chr _) [_] => constructor; reflexivity
  end.

Section Sniff.
Variable NM : Num.
Variable pnum : T NM -> string.
Variable pstr : bool -> string -> string.

(* the member the sniff looks for, as json.dumps prints it with key separator [ks] *)
Definition version_member (ks : string) : string :=
  ("""version""" ++ ks ++ """" ++ json_schema_id ++ """")%string.

(* the regular expression regenerated from persistence.loads_json matches that member for every
   JSON key separator *)
Lemma sniff_body_matches : forall ks, key_sep_ok ks ->
  M (p_body sniff_pat) (list_ascii_of_string (version_member ks)).
Proof.
  intros ks (w1 & w2 & -> & H1 & H2). unfold all_space in *.
  unfold version_member. rewrite !list_ascii_app.
  cbn [list_ascii_of_string json_schema_id]. rewrite <- !app_assoc.
  cbn [Datatypes.app sniff_pat p_body].
  repeat m_step.
Qed.

Definition quotes_plainly (ea : bool) (s : string) : Prop := pstr ea s = ("""" ++ s ++ """")%string.

Lemma jsort_obj : forall m, jsort NM (JObj m) =
  JObj (fold_right (fun kv acc => insert_member NM (fst kv, jsort NM (snd kv)) acc) [] m).
Proof. reflexivity. Qed.

(* the order json.dumps(sort_keys=True) gives the seven members of the archive object *)
Lemma sort_root : forall (f : json NM -> json NM) v1 v2 v3 v4 v5 v6 v7,
  fold_right (fun kv acc => insert_member NM (fst kv, f (snd kv)) acc) []
    [("CLASS", v1); ("version", v2); ("leaf_nodes", v3); ("tagged_real", v4);
     ("tagged_complex", v5); ("untagged_real", v6); ("intermediate_uids", v7)] =
    [("CLASS", f v1); ("intermediate_uids", f v7); ("leaf_nodes", f v3); ("tagged_complex", f v5);
     ("tagged_real", f v4); ("untagged_real", f v6); ("version", f v2)].
Proof. reflexivity. Qed.

(* printing an object with at least one member: the text of every member occurs in it *)
Lemma pj_obj_contains : forall o level (kv0 : string * json NM) (m : list (string * json NM)) (kv : string * json NM),
  In kv (kv0 :: m) ->
  contains (list_ascii_of_string (pstr (o_ensure_ascii o) (fst kv) ++ o_key_sep o ++ pj NM pnum pstr o (S level) (snd kv))%string)
           (list_ascii_of_string (pj NM pnum pstr o level (JObj (kv0 :: m)))).
Proof.
  intros o level kv0 m kv Hin. cbn [pj].
  match goal with |- contains _ (list_ascii_of_string (?a ++ ?b ++ ?j ++ ?c)%string) =>
    rewrite (list_ascii_app a), (list_ascii_app b), (list_ascii_app j) end.
  apply contains_r, contains_r, contains_l.
  apply (join_contains _ _ _ (in_map (fun kv => (pstr (o_ensure_ascii o) (fst kv) ++ o_key_sep o
           ++ pj NM pnum pstr o (S level) (snd kv))%string) _ _ Hin)).
Qed.

Theorem sniff_all_options : forall (o : jopts) (a : farchive NM),
  key_sep_ok (o_key_sep o) ->
  quotes_plainly (o_ensure_ascii o) "version" -> quotes_plainly (o_ensure_ascii o) json_schema_id ->
  pmatch sniff_pat (print_json NM pnum pstr o (json_encode NM json_schema_id a)) = true.
Proof.
  intros o a Hk Hv Hu.
  change sniff_pat with (mkPat false false (p_body sniff_pat)).
  apply (search_contains _ _ _ (sniff_body_matches _ Hk)).
  assert (E : version_member (o_key_sep o) =
              (pstr (o_ensure_ascii o) (fst ("version", @JStr NM json_schema_id)) ++ o_key_sep o
               ++ pj NM pnum pstr o 1 (snd ("version", @JStr NM json_schema_id)))%string).
  { cbn [fst snd pj]. rewrite Hv, Hu. unfold version_member.
    reflexivity. }
  rewrite E. unfold print_json, json_encode.
  destruct (o_sort_keys o).
  - rewrite jsort_obj, sort_root. apply pj_obj_contains.
    cbn [jsort]. simpl. tauto.
  - apply pj_obj_contains. simpl. tauto.
Qed.
End Sniff.

(* C09Case.v -- helpers for the correspondence cases of property C09 (evaluated at binary64).
   Every check returns (-1) on agreement between model and implementation and a positive
   code otherwise; the harness only ever reads these integers. *)
From Coq Require Import List Bool Ascii String ZArith NArith Floats.
From GTCV Require Import Num FNum Regex Json JsonArchive.
From GTCV.gen Require Import Gen_schema_json.
Import ListNotations.
Local Open Scope string_scope.

Definition F : Num := FNum [].

(* a string given by its bytes (used for text outside printable ASCII) *)
Definition bs (l : list BinNums.N) : string := string_of_list_ascii (map ascii_of_N l).

(* oracles of the printer: repr of numbers, escaped text of strings (finite tables) *)
Fixpoint pnum_tbl (tbl : list (T F * string)) (x : T F) : string :=
  match tbl with
  | [] => "<missing number>"
  | (y, s) :: r => if same F x y then s else pnum_tbl r x
  end.

Fixpoint pstr_tbl (tbl : list (bool * string * string)) (ea : bool) (x : string) : string :=
  match tbl with
  | [] => "<missing string>"
  | (b, y, s) :: r => if (Bool.eqb b ea && String.eqb x y)%bool then s else pstr_tbl r ea x
  end.

Definition agree (a b : bool) (code : Z) : Z := if Bool.eqb a b then (-1)%Z else code.

(* model encoder = the document the implementation wrote (same members, same order) *)
Definition case_encode (a : farchive F) (doc : json F) : Z :=
  agree (json_eqb F (json_encode F json_schema_id a) doc) true 1%Z.

(* sort_keys: the document written with sort_keys=True is the sorted model document *)
Definition case_sorted (a : farchive F) (doc : json F) : Z :=
  agree (json_eqb F (jsort F (json_encode F json_schema_id a)) doc) true 2%Z.

(* model validator verdict = jsonschema verdict *)
Definition case_valid (doc : json F) (expected : bool) : Z :=
  agree (validates F gtc_defs gtc_schema doc) expected 3%Z.

(* model printer text = text written by json.dumps with these options *)
Definition case_print (o : jopts) (nt : list (T F * string)) (st : list (bool * string * string))
           (doc : json F) (text : string) : Z :=
  agree (String.eqb (print_json F (pnum_tbl nt) (pstr_tbl st) o doc) text) true 4%Z.

(* model sniff on the printed text = the decoder loads_json chose *)
Definition case_sniff (text : string) (current_format : bool) : Z :=
  agree (pmatch sniff_pat text) current_format 5%Z.

(* regular expression engine against Python's re on the schema's own patterns *)
Definition case_pmatch (p : pat) (s : string) (expected : bool) : Z :=
  agree (pmatch p s) expected 6%Z.

(* ---------- the witness of C09_sniff_refuted: Archive().add(x=ureal(1.5, 0.25, 4)) in
   Context(id=7), written with separators=(',', ':') ---------- *)
Local Open Scope float_scope.
Definition wit_archive : farchive F :=
  mkArchive F
    [mkLeaf F (7%N, 1%N) None 0.25 (Some 4) true None None None]
    [("x", TElem (1.5 : T F) (7%N, 1%N))] [] [] [].
Definition wit_pnum : T F -> string := pnum_tbl [(0.25, "0.25"); (4, "4.0"); (1.5, "1.5")].
Definition plain_pstr (ea : bool) (s : string) : string := (String """" s ++ """")%string.
Definition compact_opts : jopts := resolve_opts None (Some (",", ":")) false true.
Definition wit_text : string := print_json F wit_pnum plain_pstr compact_opts (json_encode F json_schema_id wit_archive).

Definition case_witness (doc : json F) (text : string) : Z :=
  if negb (json_eqb F (json_encode F json_schema_id wit_archive) doc) then 7%Z
  else if negb (String.eqb wit_text text) then 8%Z else (-1)%Z.

(* ---------- the namespace-prefix test of xml_format.archive_to_xml, over code points ---------- *)
Local Close Scope float_scope.
Definition cp_in (rs : list (BinNums.N * BinNums.N)) (c : BinNums.N) : bool :=
  existsb (fun r => (N.leb (fst r) c && N.leb c (snd r))%bool) rs.

(* [start][char]*\Z *)
Definition prefix_ok (start chars : list (BinNums.N * BinNums.N)) (p : list BinNums.N) : bool :=
  match p with
  | [] => false
  | c :: r => (cp_in start c && forallb (cp_in chars) r)%bool
  end.

(* NameStartChar and NameChar of XML 1.0 (5th edition), production [4] and [4a], without ':' --
   i.e. the NCName of Namespaces in XML 1.0; written from the W3C text, in its order *)
Definition xml10_ncname_start : list (BinNums.N * BinNums.N) :=
  [(65, 90); (95, 95); (97, 122); (192, 214); (216, 246); (248, 767); (880, 893); (895, 8191);
   (8204, 8205); (8304, 8591); (11264, 12271); (12289, 55295); (63744, 64975); (65008, 65533);
   (65536, 983039)]%N.
Definition xml10_ncname_char : list (BinNums.N * BinNums.N) :=
  List.app xml10_ncname_start [(45, 45); (46, 46); (48, 57); (183, 183); (768, 879); (8255, 8256)]%N.

(* model verdict on a prefix = whether archive_to_xml accepted it *)
Definition case_prefix (p : list BinNums.N) (accepted : bool) : Z :=
  agree (prefix_ok xml_prefix_start xml_prefix_char p) accepted 9%Z.

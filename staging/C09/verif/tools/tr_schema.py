#!/venv/bin/python
"""tr_schema.py <repo> <outdir> -- regenerate coq/gen/Gen_schema_json.v from /repo.

What is translated (fail-closed: anything outside the recognised subset makes the affected
definition ABSENT from the output, so the proofs that need it stop compiling):
  * GTC/schema/gtc_v_1_5_0.json  ->  gtc_defs : list (string * schema), gtc_schema : schema
    (the JSON-Schema subset of coq/Json.v; regular expressions are parsed into the [re] terms
    of coq/Regex.v);
  * GTC/json_format.py JSON_SCHEMA  ->  json_schema_id : string  (value of "version");
  * GTC/persistence.py loads_json: the regular expression of the version sniff
    (pattern = r'"version": "{}"'.format(re.sub(r'\\.', r'\\.', JSON_SCHEMA)); re.search(pattern, s))
    -> sniff_pat : pat;
  * GTC/xml_format.py _NCNAME (the namespace-prefix test of archive_to_xml, [start][char]*\\Z over code points)
    -> xml_prefix_start, xml_prefix_char : list (N * N).
Annotations without validation force are dropped ($schema, $id, description, errorMessage) and
so is "dependencies", which is not a keyword of draft 2020-12 (the dialect the schema declares
and the test-suite validates with): jsonschema's Draft202012Validator ignores it too."""
import sys, os, json, ast, re

class Untranslatable(Exception):
    pass

# ------------------------------------------------------------------ Coq literals
def cstr(s):
    if not isinstance(s, str):
        raise Untranslatable('not a string: %r' % (s,))
    for ch in s:
        if not (32 <= ord(ch) < 127):
            raise Untranslatable('non printable-ASCII text in schema: %r' % s)
    return '"' + s.replace('"', '""') + '"'

def clist(xs):
    return '[' + '; '.join(xs) + ']'

# ------------------------------------------------------------------ regular expressions
DIGIT = [(48, 57)]
SPACE = [(9, 13), (28, 32)]
WORD = [(48, 57), (65, 90), (95, 95), (97, 122)]
SPECIAL = set('.^$*+?{}[]()|\\')

def cset(ranges):
    return clist('(%d%%N, %d%%N)' % (lo, hi) for lo, hi in ranges)

def parse_class(p, i):
    """p[i] is the char after '['; returns (ranges, index after ']')"""
    if i < len(p) and p[i] == '^':
        raise Untranslatable('negated character class')
    ranges = []
    first = True
    while True:
        if i >= len(p):
            raise Untranslatable('unterminated character class')
        ch = p[i]
        if ch == ']' and not first:
            return ranges, i + 1
        first = False
        if ch == '\\':
            e = p[i + 1]
            if e == 'd': ranges += DIGIT; i += 2; continue
            if e == 's': ranges += SPACE; i += 2; continue
            if e == 'w': ranges += WORD; i += 2; continue
            if e in SPECIAL or e in '-': lo = ord(e); i += 2
            else: raise Untranslatable('escape \\%s in class' % e)
        else:
            lo = ord(ch); i += 1
        if lo > 126: raise Untranslatable('non-ASCII in class')
        if i + 1 < len(p) and p[i] == '-' and p[i + 1] != ']':
            hi = ord(p[i + 1]); i += 2
            if hi > 126 or hi < lo: raise Untranslatable('bad range')
            ranges.append((lo, hi))
        else:
            ranges.append((lo, lo))

PATTERNS = {}

def parse_regex(p):
    t = parse_regex0(p)
    PATTERNS[p] = t
    return t

def parse_regex0(p):
    """-> Gallina term of type pat.  Supported: literals, escaped specials, \\d \\s \\w, [...] classes,
    postfix * + ?, one leading ^ and one trailing $ (no groups, alternation or counted repeats)."""
    left = p.startswith('^')
    if left: p = p[1:]
    right = p.endswith('$') and not p.endswith('\\$')
    if right: p = p[:-1]
    items = []
    i = 0
    while i < len(p):
        ch = p[i]
        if ch == '\\':
            if i + 1 >= len(p): raise Untranslatable('trailing backslash')
            e = p[i + 1]
            if e == 'd': atom = 'Chr ' + cset(DIGIT)
            elif e == 's': atom = 'Chr ' + cset(SPACE)
            elif e == 'w': atom = 'Chr ' + cset(WORD)
            elif e in SPECIAL or e in '"\'/-,:; ': atom = 'Chr ' + cset([(ord(e), ord(e))])
            else: raise Untranslatable('escape \\%s' % e)
            i += 2
        elif ch == '[':
            ranges, i = parse_class(p, i + 1)
            atom = 'Chr ' + cset(ranges)
        elif ch == '.':
            # Python's . excludes the newline
            atom = 'Chr ' + cset([(0, 9), (11, 255)]); i += 1
        elif ch in SPECIAL:
            raise Untranslatable('unsupported regex syntax %r in %r' % (ch, p))
        else:
            if not (32 <= ord(ch) < 127): raise Untranslatable('non-ASCII literal')
            atom = 'Chr ' + cset([(ord(ch), ord(ch))]); i += 1
        if i < len(p) and p[i] in '*+?':
            q = p[i]; i += 1
            if i < len(p) and p[i] in '*+?{': raise Untranslatable('stacked / lazy quantifier')
            if q == '*': atom = 'Star (%s)' % atom
            elif q == '+': atom = 'Seq (%s) (Star (%s))' % (atom, atom)
            else: atom = 'Alt Eps (%s)' % atom
        elif i < len(p) and p[i] == '{':
            raise Untranslatable('counted repeat')
        items.append(atom)
    if not items:
        body = 'Eps'
    else:
        body = '(%s)' % items[-1]
        for a in reversed(items[:-1]):
            body = '(Seq (%s) %s)' % (a, body)
    return '(mkPat %s %s %s)' % ('true' if left else 'false', 'true' if right else 'false', body)

# ------------------------------------------------------------------ JSON schema
TYPES = {'null': 'TyNull', 'boolean': 'TyBoolean', 'number': 'TyNumber', 'string': 'TyString',
         'array': 'TyArray', 'object': 'TyObject'}
ANNOTATIONS = {'$schema', '$id', 'description', 'title', 'errorMessage', '$comment',
               'dependencies'}   # "dependencies": not a 2020-12 keyword -> no validation force

def lit(v):
    if v is None: return 'LNull'
    if v is True: return '(LBool true)'
    if v is False: return '(LBool false)'
    if isinstance(v, str): return '(LStr %s)' % cstr(v)
    raise Untranslatable('literal %r in enum/const' % (v,))

def nat(v, what):
    if isinstance(v, bool) or not isinstance(v, int) or v < 0:
        raise Untranslatable('%s: %r' % (what, v))
    return '%d%%nat' % v

def schema(s, top=False):
    if s is True: return '(SBool true)'
    if s is False: return '(SBool false)'
    if not isinstance(s, dict):
        raise Untranslatable('schema is %r' % type(s).__name__)
    kws = []
    seen = set()
    for key, v in s.items():
        seen.add(key)
        if key in ANNOTATIONS: continue
        if key == '$defs':
            if not top: raise Untranslatable('nested $defs')
            continue
        if key == 'type':
            if v not in TYPES: raise Untranslatable('type %r' % (v,))
            kws.append('KType %s' % TYPES[v])
        elif key == 'enum':
            kws.append('KEnum %s' % clist(lit(x) for x in v))
        elif key == 'const':
            kws.append('KConst %s' % lit(v))
        elif key == 'pattern':
            kws.append('KPattern %s' % parse_regex(v))
        elif key == 'minimum':
            if isinstance(v, bool) or not isinstance(v, int): raise Untranslatable('minimum %r' % (v,))
            kws.append('KMinimum (%d)%%Z' % v)
        elif key == 'minItems': kws.append('KMinItems %s' % nat(v, key))
        elif key == 'maxItems': kws.append('KMaxItems %s' % nat(v, key))
        elif key == 'minProperties': kws.append('KMinProperties %s' % nat(v, key))
        elif key == 'required':
            kws.append('KRequired %s' % clist(cstr(x) for x in v))
        elif key in ('properties', 'patternProperties', 'additionalProperties'):
            if 'KProps' in seen: continue
            seen.add('KProps')
            props = s.get('properties', {}); pp = s.get('patternProperties', {})
            if not isinstance(props, dict) or not isinstance(pp, dict): raise Untranslatable('properties')
            ap = 'None' if 'additionalProperties' not in s else '(Some %s)' % schema(s['additionalProperties'])
            kws.append('KProps %s %s %s' % (
                clist('(%s, %s)' % (cstr(k), schema(x)) for k, x in props.items()),
                clist('(%s, %s)' % (parse_regex(k), schema(x)) for k, x in pp.items()), ap))
        elif key == 'propertyNames':
            kws.append('KPropertyNames %s' % schema(v))
        elif key in ('items', 'prefixItems'):
            if 'KItems' in seen: continue
            seen.add('KItems')
            pre = s.get('prefixItems', [])
            if not isinstance(pre, list): raise Untranslatable('prefixItems')
            it = 'None' if 'items' not in s else '(Some %s)' % schema(s['items'])
            kws.append('KItems %s %s' % (clist(schema(x) for x in pre), it))
        elif key == 'anyOf':
            kws.append('KAnyOf %s' % clist(schema(x) for x in v))
        elif key == '$ref':
            m = re.fullmatch(r'#/\$defs/(\w+)', v)
            if not m: raise Untranslatable('$ref %r' % (v,))
            kws.append('KRef %s' % cstr(m.group(1)))
        elif key in ('if', 'then', 'else'):
            if 'KIf' in seen: continue
            seen.add('KIf')
            if 'if' not in s: continue          # then/else without if: ignored by the specification
            t = 'None' if 'then' not in s else '(Some %s)' % schema(s['then'])
            e = 'None' if 'else' not in s else '(Some %s)' % schema(s['else'])
            kws.append('KIf %s %s %s' % (schema(s['if']), t, e))
        else:
            raise Untranslatable('unsupported schema keyword %r' % key)
    return '(SAll %s)' % clist(kws)

def gen_schema(repo):
    PATTERNS.clear()
    path = os.path.join(repo, 'GTC', 'schema', 'gtc_v_1_5_0.json')
    s = json.load(open(path))
    out = []
    defs = s.get('$defs', {})
    rows = []
    for name, d in defs.items():
        rows.append('(%s,\n   %s)' % (cstr(name), schema(d)))
    out.append('Definition gtc_defs : list (string * schema) :=\n  [' + ';\n  '.join(rows) + '].\n')
    out.append('Definition gtc_schema : schema :=\n  %s.\n' % schema(s, top=True))
    out.append('(* every regular expression of the schema, keyed by its source text (for the correspondence run) *)\n'
               'Definition schema_pats : list (string * pat) :=\n  [' +
               ';\n   '.join('(%s, %s)' % (cstr(k), v) for k, v in PATTERNS.items()) + '].\n')
    return out, {'defs': len(defs), 'draft': s.get('$schema')}

# ------------------------------------------------------------------ the version sniff
def gen_sniff(repo):
    jf = ast.parse(open(os.path.join(repo, 'GTC', 'json_format.py')).read())
    ident = None
    for node in jf.body:
        if isinstance(node, ast.Assign) and len(node.targets) == 1 and isinstance(node.targets[0], ast.Name) \
           and node.targets[0].id == 'JSON_SCHEMA' and isinstance(node.value, ast.Constant) and isinstance(node.value.value, str):
            ident = node.value.value
    if ident is None:
        raise Untranslatable('json_format.JSON_SCHEMA is not a string constant')
    out = ['Definition json_schema_id : string := %s.\n' % cstr(ident)]
    ps = ast.parse(open(os.path.join(repo, 'GTC', 'persistence.py')).read())
    fn = [n for n in ps.body if isinstance(n, ast.FunctionDef) and n.name == 'loads_json']
    if len(fn) != 1: raise Untranslatable('persistence.loads_json not found')
    fn = fn[0]
    pattern = None; tested = False
    for node in ast.walk(fn):
        if isinstance(node, ast.Assign) and len(node.targets) == 1 and isinstance(node.targets[0], ast.Name) \
           and node.targets[0].id == 'pattern':
            pattern = eval_pattern(node.value, ident)
        if isinstance(node, ast.If):
            t = node.test
            if isinstance(t, ast.Call) and ast.unparse(t.func) == 're.search' and len(t.args) == 2 and not t.keywords \
               and ast.unparse(t.args[0]) == 'pattern' and ast.unparse(t.args[1]) == 's':
                # the current-format decoder must be the 'then' branch
                if 'json_to_archive' in ast.unparse(node.body[0]) and 'json_format_old' not in ast.unparse(node.body[0]):
                    tested = True
    if pattern is None or not tested:
        raise Untranslatable('loads_json: the dispatch "if re.search(pattern, s)" was not recognised')
    out.append('Definition sniff_pat : pat :=\n  %s.\n' % parse_regex(pattern))
    return out, {'sniff_regex': pattern}

def eval_pattern(e, ident):
    """the value of the expression assigned to `pattern`, for the recognised shapes:
    <str>.format(<expr>), re.sub(<str>, <str>, JSON_SCHEMA), re.escape(JSON_SCHEMA), JSON_SCHEMA, <str>"""
    if isinstance(e, ast.Constant) and isinstance(e.value, str):
        return e.value
    if isinstance(e, ast.Name) and e.id == 'JSON_SCHEMA':
        return ident
    if isinstance(e, ast.Call) and isinstance(e.func, ast.Attribute) and e.func.attr == 'format' \
       and isinstance(e.func.value, ast.Constant) and isinstance(e.func.value.value, str) and not e.keywords:
        return e.func.value.value.format(*[eval_pattern(a, ident) for a in e.args])
    if isinstance(e, ast.Call) and ast.unparse(e.func) == 're.sub' and len(e.args) == 3 and not e.keywords:
        a, b, c = [eval_pattern(x, ident) for x in e.args]
        return re.sub(a, b, c)
    if isinstance(e, ast.Call) and ast.unparse(e.func) == 're.escape' and len(e.args) == 1 and not e.keywords:
        return re.escape(eval_pattern(e.args[0], ident))
    raise Untranslatable('pattern expression %s' % ast.unparse(e))

# ------------------------------------------------------------------ the XML namespace-prefix test
def const_eval(e, env):
    """strings built at module level from literals, names, +, % and tuples"""
    if isinstance(e, ast.Constant) and isinstance(e.value, str): return e.value
    if isinstance(e, ast.Name) and e.id in env: return env[e.id]
    if isinstance(e, ast.Tuple): return tuple(const_eval(x, env) for x in e.elts)
    if isinstance(e, ast.BinOp) and isinstance(e.op, ast.Add): return const_eval(e.left, env) + const_eval(e.right, env)
    if isinstance(e, ast.BinOp) and isinstance(e.op, ast.Mod): return const_eval(e.left, env) % const_eval(e.right, env)
    raise Untranslatable('constant expression %s' % ast.unparse(e))

def cp_class(body):
    """the ranges of a character class body over code points (escapes: \\- \\. \\\\ only)"""
    cps = []; i = 0
    while i < len(body):
        ch = body[i]
        if ch == '\\':
            if i + 1 >= len(body) or body[i + 1] not in '-.\\]': raise Untranslatable('escape in prefix class')
            cps.append((ord(body[i + 1]), True)); i += 2
        elif ch in '[]^': raise Untranslatable('unsupported class syntax')
        else:
            cps.append((ord(ch), ch != '-')); i += 1
    ranges = []; i = 0
    while i < len(cps):
        c, lit = cps[i]
        if not lit: raise Untranslatable('dangling - in class')
        if i + 2 < len(cps) and cps[i + 1] == (ord('-'), False):
            hi = cps[i + 2][0]
            if hi < c: raise Untranslatable('bad range')
            ranges.append((c, hi)); i += 3
        else:
            ranges.append((c, c)); i += 1
    return ranges

def gen_prefix(repo):
    tree = ast.parse(open(os.path.join(repo, 'GTC', 'xml_format.py')).read())
    env = {}; pattern = None
    for node in tree.body:
        if isinstance(node, ast.Assign) and len(node.targets) == 1 and isinstance(node.targets[0], ast.Name):
            v = node.value
            if isinstance(v, ast.Call) and ast.unparse(v.func) == 're.compile' and len(v.args) == 1 and not v.keywords:
                if node.targets[0].id == '_NCNAME': pattern = const_eval(v.args[0], env)
            else:
                try: env[node.targets[0].id] = const_eval(v, env)
                except Untranslatable: pass
    if pattern is None: raise Untranslatable('xml_format._NCNAME = re.compile(...) not found')
    fn = [n for n in tree.body if isinstance(n, ast.FunctionDef) and n.name == 'archive_to_xml']
    guarded = False
    for node in ast.walk(fn[0]) if fn else []:
        if isinstance(node, ast.If) and ast.unparse(node.test) == 'not _NCNAME.match(prefix)' \
           and isinstance(node.body[0], ast.Raise) and 'ValueError' in ast.unparse(node.body[0]):
            guarded = True
    if not guarded: raise Untranslatable('archive_to_xml: "if not _NCNAME.match(prefix): raise ValueError" not recognised')
    m = re.fullmatch(r'\[((?:[^\]\\]|\\.)+)\]\[((?:[^\]\\]|\\.)+)\]\*\\Z', pattern, re.S)
    if not m: raise Untranslatable('prefix pattern is not [start][char]*\\Z')
    rl = lambda rs: clist('(%d%%N, %d%%N)' % r for r in rs)
    return ['(* code-point ranges of the namespace-prefix test of xml_format.archive_to_xml: [start][char]*\\Z *)\n'
            'Definition xml_prefix_start : list (N * N) :=\n  %s.\nDefinition xml_prefix_char : list (N * N) :=\n  %s.\n'
            % (rl(cp_class(m.group(1))), rl(cp_class(m.group(2))))], {'prefix_ranges': [len(cp_class(m.group(1))), len(cp_class(m.group(2)))]}

HEADER = '''(* GENERATED by tools/tr_schema.py from GTC/schema/gtc_v_1_5_0.json, GTC/json_format.py and
   GTC/persistence.py -- do not edit; regenerated on every check run. *)
From Coq Require Import List String ZArith NArith.
From GTCV Require Import Regex Json.
Import ListNotations.
Local Open Scope string_scope.

'''

def main(repo, outdir):
    parts = []; status = {}
    for name, f in (('schema', gen_schema), ('sniff', gen_sniff), ('prefix', gen_prefix)):
        try:
            out, info = f(repo)
            parts += out; status[name] = info
        except Exception as ex:          # fail closed: definitions absent
            status[name] = 'UNTRANSLATABLE: %s: %s' % (type(ex).__name__, ex)
            parts.append('(* %s: %s *)\n' % (name, str(status[name]).replace('*)', '* )')))
    os.makedirs(outdir, exist_ok=True)
    with open(os.path.join(outdir, 'Gen_schema_json.v'), 'w') as f:
        f.write(HEADER + '\n'.join(parts))
    bad = [k for k, v in status.items() if isinstance(v, str)]
    print('tr_schema: Gen_schema_json.v: %s' % json.dumps(status, sort_keys=True))
    return 1 if bad else 0

if __name__ == '__main__':
    sys.exit(main(sys.argv[1], sys.argv[2]))

"""c09gen.py -- generation of archives, option grids, corrupted documents and the Gallina
renderings used by the C09 correspondence (helper module of p_C09.py)."""
import io, json, math, re, copy, itertools, warnings
from common import *

SCHEMA_JSON = os.path.join(REPO, 'GTC', 'schema', 'gtc_v_1_5_0.json')
SCHEMA_XSD = os.path.join(REPO, 'GTC', 'schema', 'gtc_v_1_5_0.xsd')

# ------------------------------------------------------------------ Gallina renderings
def cstring(s):
    b = s.encode('utf-8', 'surrogatepass') if isinstance(s, str) else bytes(s)
    if all(32 <= c < 127 for c in b):
        return '"' + b.decode('ascii').replace('"', '""') + '"'
    return '(bs [%s]%%N)' % '; '.join(str(c) for c in b)

def cnum(v):
    return cf(float(v))

def cjson(o):
    if o is None: return 'JNull'
    if o is True: return '(JBool true)'
    if o is False: return '(JBool false)'
    if isinstance(o, (int, float)): return '(JNum (%s : T F))' % cnum(o)
    if isinstance(o, str): return '(JStr %s)' % cstring(o)
    if isinstance(o, (list, tuple)): return '(JArr %s)' % clist([cjson(x) for x in o])
    if isinstance(o, dict):
        return '(JObj %s)' % clist(['(%s, %s)' % (cstring(k), cjson(v)) for k, v in o.items()])
    raise TypeError('cjson: %r' % (o,))

def cuid2(u):
    if not (isinstance(u, tuple) and len(u) == 2 and all(isinstance(i, int) and i >= 0 for i in u)):
        raise ValueError('not an elementary uid: %r' % (u,))
    return '(%d%%N, %d%%N)' % u

def cuid3(u):
    if not (isinstance(u, tuple) and len(u) == 3 and u[2] == 0 and all(isinstance(i, int) and i >= 0 for i in u)):
        raise ValueError('not an intermediate uid: %r' % (u,))
    return '(%d%%N, %d%%N)' % u[:2]

def cdf(df):
    df = float(df)
    return 'None' if math.isinf(df) else '(Some (%s : T F))' % cnum(df)

def clabel(l):
    return 'None' if l is None else '(Some %s)' % cstring(l)

def cvec(v, uid):
    return clist(['(%s, (%s : T F))' % (uid(k), cnum(x)) for k, x in zip(v.keys(), v.values())])

def ctreal(o):
    from GTC.archive import ElementaryReal, IntermediateReal
    if isinstance(o, ElementaryReal):
        return '(TElem (%s : T F) %s)' % (cnum(o.x), cuid2(tuple(o.uid)))
    if isinstance(o, IntermediateReal):
        return '(TInterm (%s : T F) %s %s %s %s %s)' % (
            cnum(o.value), clabel(o.label), cuid3(tuple(o.uid)),
            cvec(o.u_components, cuid2), cvec(o.d_components, cuid2), cvec(o.i_components, cuid3))
    raise TypeError('tagged real %r' % (o,))

def abstract_archive(ar):
    """the frozen Archive's private tables as a Gallina term of type farchive F (iteration order kept)"""
    leaves = []
    for uid, ln in ar._leaf_nodes.items():
        if tuple(uid) != tuple(ln.uid): raise ValueError('leaf key differs from its uid')
        cx = 'None'
        if hasattr(ln, 'complex'):
            cx = '(Some (%s, %s))' % (cuid2(tuple(ln.complex[0])), cuid2(tuple(ln.complex[1])))
        co = 'None'
        if hasattr(ln, 'correlation'):
            co = '(Some %s)' % clist(['(%s, (%s : T F))' % (cuid2(tuple(k)), cnum(r)) for k, r in ln.correlation])
        en = 'None'
        if hasattr(ln, 'ensemble'):
            en = '(Some %s)' % clist([cuid2(tuple(k)) for k in ln.ensemble])
        leaves.append('(mkLeaf F %s %s (%s) %s %s %s %s %s)' % (
            cuid2(tuple(uid)), clabel(ln.label), cnum(ln.u), cdf(ln.df), cbool(bool(ln.independent)), cx, co, en))
    treal = ['(%s, %s)' % (cstring(k), ctreal(v)) for k, v in ar._tagged_real.items()]
    tcomplex = ['(%s, mkTC %s %s %s)' % (cstring(k), cstring(v.n_re), cstring(v.n_im), clabel(v.label))
                for k, v in ar._tagged_complex.items()]
    ureal = ['(%s, %s)' % (cstring(k), ctreal(v)) for k, v in ar._untagged_real.items()]
    interm = ['(%s, mkInterm F %s (%s) %s)' % (cuid3(tuple(k)), clabel(v[0]), cnum(v[1]), cdf(v[2]))
              for k, v in ar._intermediate_uids.items()]
    return '(mkArchive F %s %s %s %s %s)' % (clist(leaves), clist(treal), clist(tcomplex), clist(ureal), clist(interm))

# ------------------------------------------------------------------ archives
LABELS = [None, None, 'x', 'mass', 'V_out', 'a b', '', 'R"1"', 'back\\slash', 'tab\there', 'line\nbreak',
          'café', '中文', '\U0001F600', 'del\x7f', 'ctl\x01', '<&>', "it's", '"version": "x"', ' ']
XML_SAFE_LABELS = [l for l in LABELS if l is None or (l != '' and not any(ord(c) < 32 and c not in '\t\n' for c in l))]
XML_INTL_LABELS = [None, 'caf\u00e9 \u00b5m', '\u4e2d\u6587', '\u03a9_ref', '\u00f1', '\U0001F600', 'x', 'a b', '\u00e5\u00df\u20ac', '<\u00e9&>']
TAGCHARS = 'abcdefghijklmnopqrstuvwxyzABCXYZ_0123456789'

# identifier-like tags that are also words of the storage formats (JSON member / class names, XML element and
# attribute names, literals, component suffixes): the property covers them like any other identifier
KNOWN_HITS = {}
RESERVED_TAGS = ['CLASS', 'Archive', 'Vector', 'LeafNode', 'ElementaryReal', 'IntermediateReal', 'Complex', 'uid', 'version',
                 'leaf_nodes', 'tagged_real', 'tagged_complex', 'untagged_real', 'intermediate_uids', 'x', 'u', 'df', 'label',
                 'independent', 'complex', 'correlation', 'ensemble', 'value', 'index', 'u_components', 'd_components',
                 'i_components', 'n_re', 'n_im', 'gtcArchive', 'leafNodes', 'leafNode', 'taggedReals', 'untaggedReals',
                 'taggedComplexes', 'intermediates', 'intermediate', 'elementaryReal', 'intermediateReal', 'component',
                 'uComponents', 'dComponents', 'iComponents', 'real', 'imag', 'node', 'tag', 'xmlns', 'xml', 'a_re', 'a_im',
                 'x_re', 'x_im', '_re', '_im', 'z_re_im', 'None', 'null', 'true', 'false', 'nan', 'inf', 'INF', 'NaN',
                 'Infinity', 'items', 'keys', 'self', 'additionalProperties', 'properties', 'type']

def tag_free(t, used):
    """no clash with a tag in use, nor with the names t_re / t_im under which complex components are filed"""
    if t in used or t + '_re' in used or t + '_im' in used: return False
    return not any(t in (u + '_re', u + '_im') for u in used)

def rand_tag(rng, used):
    while True:
        if rng.random() < 0.3:
            t = rng.choice(RESERVED_TAGS)
        else:
            t = rng.choice('abcxyzRVm_QZ') + ''.join(rng.choice(TAGCHARS) for _ in range(rng.choice([0, 0, 1, 2, 5, 12])))
        if tag_free(t, used):
            used.add(t); return t

def rand_val(rng):
    return rng.choice([round(rng.uniform(-10, 10), rng.choice([0, 1, 3])), rng.uniform(-1e3, 1e3), rng.uniform(-1, 1) * 10.0 ** rng.randint(-12, 12),
                       0.0, 1.0, -0.0, 1e-300, 123456789.125])

def rand_u(rng):
    return rng.choice([abs(rand_val(rng)) + 0.01, 0.5, 1.0, 1e-9, 2.5e6, 1])

def rand_df(rng):
    return rng.choice([math.inf, math.inf, 1, 1.0, 2.5, 7, 30, 1e6, 3.000000001, 250000.0, 100000.5])

def reserved_archive(kind, ctx_id, words=None):
    """every reserved word as a tag at once: kind 'real' (elementary reals), 'complex' (elementary complexes, so the
    names w_re / w_im are filed too) or 'interm' (real intermediate results).  -> (archive, tags, {tag: object})"""
    from GTC import core, archive as garchive
    new_context(ctx_id)
    used = set(); items = {}
    base = core.ureal(2.0, 0.5, 7, label='base')
    for i, w in enumerate(words or RESERVED_TAGS):
        if not tag_free(w, used): continue
        used.add(w)
        if kind == 'real':
            items[w] = core.ureal(1.0 + i, 0.25, 5 + i, label=w)
        elif kind == 'complex':
            items[w] = core.ucomplex(complex(i, -i), (0.5, 0.25), 4 + i, label=w)
        else:
            items[w] = core.result(base * (i + 1.5) + 1, label=w)
    ar = garchive.Archive()
    for k, v in items.items():
        try:
            ar.add(**{k: v})
        except TypeError as ex:
            # known finding C09-8, for the tag 'self' and no other: fall back to item assignment
            if k == 'self' and "multiple values for argument 'self'" in str(ex):
                KNOWN_HITS['add-self'] = KNOWN_HITS.get('add-self', 0) + 1
                ar[k] = v
            else:
                raise
    return ar, list(items), items

def num_as(rng, v, integral=False):
    """the number v as the caller might hand it over: Python float, int, numpy scalar, Fraction (same value; GTC's
    declaration functions coerce them, np.float32 included)"""
    import numpy as np
    from fractions import Fraction
    kind = rng.choice(['float', 'float', 'np.float64', 'np.float64', 'int', 'np.int64', 'Fraction'])
    if kind == 'float' or math.isinf(v) or math.isnan(v): return v if kind != 'np.float64' else np.float64(v)
    if kind == 'np.float64': return np.float64(v)
    if kind in ('int', 'np.int64'):
        if float(v) != int(v): return np.float64(v) if kind == 'np.int64' else v
        return int(v) if kind == 'int' else np.int64(int(v))
    return Fraction(v) if abs(v) < 1e6 else v

def rand_const(rng):
    """a plain-number operand of an arithmetic operation: the derivative it contributes is stored as it comes out of the
    operation (a numpy scalar stays a numpy scalar in the component vectors)"""
    import numpy as np
    from fractions import Fraction
    return rng.choice([2.5, 3, -2, True, np.float64(0.75), np.float64(-3.5), np.array([2.0, 0.125])[1], np.int64(3),
                       np.array([7, 2])[0], Fraction(1, 4), Fraction(7, 2), 1e-3, np.float64(1e6), 2.5, 3, np.float64(0.75),
                       # known finding C09-9: non-float64 numpy floating constants leave float32 numbers in the stored vectors
                       np.float32(2.0), np.float32(0.1), np.array([0.3], dtype=np.float32)[0]])

def numeric_archive(ctx_id):
    """numbers handed to GTC in every accepted guise: declarations with int / numpy scalar / Fraction arguments, results
    computed with int, bool, Fraction and numpy scalar constants (numpy scalars survive in the stored component vectors).
    np.float32 CONSTANTS are in numeric32_archive (known finding C09-9).  -> (archive, tags, {tag: object})"""
    import numpy as np
    from fractions import Fraction
    from GTC import core, archive as garchive
    new_context(ctx_id)
    gains = np.array([2.0, 0.125]); counts = np.array([7, 2])
    items = {}
    items['d_int'] = core.ureal(2, 1, 4)
    items['d_np'] = core.ureal(np.float64(1.5), np.float64(0.25), np.float64(6.5), independent=False)
    items['d_npint'] = core.ureal(np.int64(3), np.int64(2), np.int64(9))
    items['d_frac'] = core.ureal(Fraction(3, 2), Fraction(1, 4), 5)
    items['d_f32'] = core.ureal(np.float32(1.5), np.float32(0.25), np.float32(4))
    items['z_np'] = core.ucomplex(np.complex128(1 + 2j), (np.float64(1), np.float64(2)), np.int64(5))
    m = core.multiple_ureal(np.array([1.0, 2.0]), np.array([0.1, 0.2]), np.int64(5))
    core.set_correlation(np.float64(0.5), m[0], m[1])
    items['m0'], items['m1'] = m
    x = items['d_np']; v = items['d_int']
    items['r_npmul'] = core.result(v * gains[0])
    items['r_npdiv'] = core.result(v / gains[1] + x)
    items['r_nprmul'] = core.result(gains[1] * x - v)
    items['r_npint'] = core.result(x * counts[0])
    items['r_nppow'] = core.result(v ** np.float64(2.0))
    items['r_int'] = core.result(3 * x + 1)
    items['r_bool'] = core.result(x * True)
    items['r_frac'] = core.result(x * Fraction(1, 4))
    items['r_chain'] = core.result(items['r_npmul'] * gains[1] + items['r_npint'] / np.int64(2))
    items['rz_np'] = core.result(items['z_np'] * gains[0] + x)
    ar = garchive.Archive()
    ar.add(**items)
    return ar, list(items), items

def zero_archive(ctx_id):
    """numbers with ZERO uncertainty in some stored field (not constants, which are known finding C09-2): elementary complex
    numbers with one zero component (either one, 2- and 4-element uncertainty, with and without dof), real and complex
    intermediate results with u = 0.  Inputs have infinite dof so that no dof is nan (that case is known finding C09-5)."""
    from GTC import core, archive as garchive
    new_context(ctx_id)
    x = core.ureal(1.5, 0.25, label='x'); y0 = core.ureal(0.0, 0.5); y1 = core.ureal(0.0, 0.125, independent=False)
    items = {'x': x, 'y0': y0}
    items['z_re0'] = core.ucomplex(1 + 2j, (0, 0.5), label='z_re0')
    items['z_im0'] = core.ucomplex(-3 + 0.5j, (0.25, 0.0), 7)
    items['z_cov'] = core.ucomplex(2j, (0.25, 0, 0, 0))
    items['z_cov2'] = core.ucomplex(1.0, (0.0, 0.0, 0.0, 4.0), 3.5)
    items['r_diff'] = core.result(x - x, label='x-x')
    items['r_times0'] = core.result(x * 0)
    items['r_at0'] = core.result(y0 * y1)
    items['r_sum'] = core.result(items['r_diff'] + x)            # an influence with zero uncertainty
    items['w_diff'] = core.result(items['z_re0'] - items['z_re0'])
    items['w_mixed'] = core.result(items['z_im0'] * x)
    items['w_im0'] = core.result(items['z_cov'] + 1)
    ar = garchive.Archive()
    ar.add(**items)
    return ar, list(items), items

def numeric32_archive(ctx_id):
    """results computed with numpy.float32 constants (known finding C09-9): an exact factor and inexact ones"""
    import numpy as np
    from GTC import core, archive as garchive
    new_context(ctx_id)
    x = core.ureal(1.5, 0.25, 4, label='x'); v = core.ureal(2.0, 0.5, 6, independent=False)
    g32 = np.array([2.0, 0.1, 0.3], dtype=np.float32)
    items = {'x': x, 'v': v,
             'y_exact': core.result(x * g32[0]),              # factor 2.0: every number is exact, only the type differs
             'y_inexact': core.result(x * np.float32(0.1)),   # float32(0.1) != 0.1
             'y_two': core.result(v * g32[2] + x / g32[1]),
             'y_f64': core.result(x * np.float64(0.1) + v)}    # float64 constant: not in the class
    ar = garchive.Archive()
    ar.add(**items)
    return ar, list(items), items

def build_archive(rng, ctx_id, labels=LABELS, first=None):
    """a random session in Context(id=ctx_id) and an Archive holding a random selection of its objects.
    Returns (archive, description, {tag: object})."""
    from GTC import core, archive as garchive
    new_context(ctx_id)
    lab = lambda: rng.choice(labels)
    reals = []; cplx = []; desc = {'ctx': ctx_id, 'ops': []}
    for _ in range(rng.randint(1, 4)):
        df = rand_df(rng); ind = rng.random() < 0.6
        reals.append(core.ureal(num_as(rng, rand_val(rng)), num_as(rng, rand_u(rng)), num_as(rng, df), label=lab(), independent=ind))
    if rng.random() < 0.5:
        n = rng.randint(2, 3)
        import numpy as np
        seq = (lambda l: np.array(l)) if rng.random() < 0.4 else (lambda l: l)
        ens = core.multiple_ureal(seq([rand_val(rng) for _ in range(n)]), seq([rand_u(rng) for _ in range(n)]), num_as(rng, rng.choice([3, 5.5, 11])),
                                  label_seq=[lab() if rng.random() < 0.5 else 'e%d' % i for i in range(n)])
        for i in range(n):
            for j in range(i):
                if rng.random() < 0.7:
                    core.set_correlation(round(rng.uniform(-0.9, 0.9), 2), ens[i], ens[j])
        reals += list(ens); desc['ops'].append('ensemble%d' % n)
    dep = [x for x in reals if not x._node.independent and math.isinf(x.df)]
    for i in range(len(dep)):
        for j in range(i):
            if rng.random() < 0.6:
                core.set_correlation(round(rng.uniform(-0.9, 0.9), 2), dep[i], dep[j]); desc['ops'].append('corr')
    for _ in range(rng.choice([0, 1, 1, 2])):
        kind = rng.choice(['indep', 'corr', 'df'])
        z = complex(rand_val(rng), rand_val(rng))
        zero_one = lambda pair: pair if rng.random() < 0.7 else ((0, pair[1]) if rng.random() < 0.5 else (pair[0], 0.0))
        if kind == 'indep':
            c = core.ucomplex(z, zero_one((rand_u(rng), rand_u(rng))), label=lab())
        elif kind == 'corr':
            u1, u2 = rand_u(rng), rand_u(rng); r = round(rng.uniform(-0.9, 0.9), 2)
            c = core.ucomplex(z, (u1 * u1, r * u1 * u2, r * u1 * u2, u2 * u2), label=lab())
        else:
            import numpy as np
            c = core.ucomplex(np.complex128(z) if rng.random() < 0.5 else z, zero_one((num_as(rng, rand_u(rng)), num_as(rng, rand_u(rng)))),
                              num_as(rng, rng.choice([2, 9.5])), label=lab())
        cplx.append(c); desc['ops'].append('ucomplex-' + kind)
    inter = []
    pool = list(reals)
    for _ in range(rng.choice([0, 1, 2, 3])):
        a, b = rng.choice(pool), rng.choice(pool)
        op = rng.choice(['add', 'mul', 'sub', 'lin', 'cmul', 'cdiv', 'rcmul', 'clin', 'cmul', 'zero', 'times0'])
        k = rand_const(rng)
        y = {'add': lambda: a + b, 'mul': lambda: a * b, 'sub': lambda: a - 2.5 * b, 'lin': lambda: 3 * a + 0.25,
             'zero': lambda: a - a, 'times0': lambda: b * 0 + 2.5,
             'cmul': lambda: a * k, 'cdiv': lambda: a / k, 'rcmul': lambda: k * a - b, 'clin': lambda: (a + k) * k}[op]()
        if op in ('cmul', 'cdiv', 'rcmul', 'clin'): op += ':' + type(k).__name__
        y = core.result(y, label=lab())
        inter.append(y); pool.append(y); desc['ops'].append('result-' + op)
    cinter = []
    if cplx and rng.random() < 0.6:
        w = (cplx[0] - cplx[0]) if rng.random() < 0.2 else cplx[0] * rng.choice(pool) + (cplx[-1] if rng.random() < 0.5 else 1.5)
        cinter.append(core.result(w, label=lab())); desc['ops'].append('result-complex')
    ar = garchive.Archive()
    used = set(); items = {}
    cands = [('r', x) for x in reals] + [('c', x) for x in cplx] + [('i', x) for x in inter] + [('ci', x) for x in cinter]
    order = list(range(len(cands))); rng.shuffle(order)
    chosen = order[:max(1, rng.randint(1, len(cands)))]
    if first is not None:
        # creation order: an entry never depends on an intermediate result that is filed after it, so splitting the entries
        # does not change what freezing keeps (components with respect to intermediates that are not archived are dropped)
        chosen = sorted(chosen)
    keep = [cands[i] for i in chosen]
    for kind, obj in keep:
        items[rand_tag(rng, used)] = obj
    # first='half': only the first half of the entries goes in now; the caller adds desc['_rest'] later (second generation)
    all_items = items
    if first == 'half':
        n1 = max(1, len(items) // 2)
        desc['_rest'] = dict(list(items.items())[n1:])
        items = dict(list(items.items())[:n1])
    # half through add(**kw), half through item assignment
    if rng.random() < 0.5:
        try:
            ar.add(**items)
        except TypeError as ex:
            # known finding C09-8: the tag 'self' cannot be passed as a keyword; nothing else may fail here
            if 'self' in items and "multiple values for argument 'self'" in str(ex):
                KNOWN_HITS['add-self'] = KNOWN_HITS.get('add-self', 0) + 1
                ar = garchive.Archive()
                for k, v in items.items():
                    ar[k] = v
            else:
                raise
    else:
        for k, v in items.items():
            ar[k] = v
    items = all_items
    desc['tags'] = list(items); desc['kinds'] = [k for k, _ in keep]
    return ar, desc, items

# ------------------------------------------------------------------ option grids
JSON_INDENTS = [None, 0, 1, 4]
JSON_SEPS = [None, (',', ':'), (', ', ': '), (' , ', ' : ')]
JSON_GRID = [dict(indent=i, separators=s, sort_keys=k, ensure_ascii=e)
             for i in JSON_INDENTS for s in JSON_SEPS for k in (False, True) for e in (True, False)]

def json_kwargs(o):
    kw = {}
    if o['indent'] is not None: kw['indent'] = o['indent']
    if o['separators'] is not None: kw['separators'] = tuple(o['separators'])
    if o['sort_keys']: kw['sort_keys'] = True
    if not o['ensure_ascii']: kw['ensure_ascii'] = False
    return kw

def cjopts(o):
    ind = o['indent']
    ci = 'None' if ind is None else '(Some %s)' % cstring(' ' * ind if isinstance(ind, int) else ind)
    cs = 'None' if o['separators'] is None else '(Some (%s, %s))' % (cstring(o['separators'][0]), cstring(o['separators'][1]))
    return '(resolve_opts %s %s %s %s)' % (ci, cs, cbool(o['sort_keys']), cbool(o['ensure_ascii']))

XML_INDENTS = [None, 0, 1, 4]
XML_PREFIXES = [None, 'gtc', 'n0', '_a.b-1']
# namespace prefixes: names that must be ACCEPTED (and give a valid, reloadable document when the encoding
# can represent them), non-names that must be REFUSED, reserved ones (refused by an older rule or valid)
GOOD_PREFIXES = ['g', 'a.b', '_x-1', '\u00e9', '\u0434\u0430\u043d\u043d\u044b\u0435', '\u00e0b', 'a\u00b7', '\u6570\u636e', '_\u00e91', 'Z\u0301']
BAD_PREFIXES = ['1x', 'a b', '-a', '.a', 'a<', 'a>b', 'a"', 'a:b', 'a\n', ' g', 'a/b', 'a=b', '\u00d7a', '\u0300a', '1\u00e9', ';',
                '\u00f7', '\u00b7a', '\ufffe', '\u2040a', 'a\u00d7', '\u037e', 'a\u2000', '\u00e9 ']
RESERVED_PREFIXES = ['xmlfoo', 'XML', 'xmlns', 'Xml_1']
NAME_ONLY_5TH_ED = ['a\u2040', '\u200c', '\U00010000', 'a\U000e0100']     # accepted; expat (4th-ed. names) cannot read them back
PREFIX_BOUNDS = [64, 65, 90, 91, 94, 95, 96, 97, 122, 123, 44, 45, 46, 47, 48, 57, 58, 59, 182, 183, 184, 191, 192, 214, 215, 216, 246, 247, 248,
                 767, 768, 879, 880, 893, 894, 895, 8191, 8192, 8203, 8204, 8205, 8206, 8254, 8255, 8256, 8257, 8303, 8304, 8591, 8592,
                 11263, 11264, 12271, 12272, 12288, 12289, 55295, 63743, 63744, 64975, 64976, 65007, 65008, 65533, 65534, 65535,
                 65536, 983039, 983040, 1114111, 32, 10, 0]

def rand_prefix(rng):
    return ''.join(chr(rng.choice(PREFIX_BOUNDS)) for _ in range(rng.choice([1, 1, 2, 2, 3])))

# the pass-through `encoding` option: everything ElementTree accepts.  utf-16 carries a byte-order mark and works;
# known finding C09-7 lists exactly three sub-classes that GTC's own reader (expat) or the schema validator cannot take:
UNREADABLE_ENCODINGS = ('utf-16-le', 'utf-16-be', 'utf-32', 'shift_jis', 'cp037')     # (i) the reader cannot decode them
ALIAS_ENCODINGS = ('utf8', 'latin-1')                          # (ii) alias spelling written verbatim into the declaration
EIGHT_BIT_ENCODINGS = ('iso-8859-1', 'cp1252', 'latin-1')      # (iii) with xml_declaration=False and non-ASCII text
XML_ENCODINGS = [None, 'utf-8', 'unicode', 'us-ascii', 'utf-16', 'iso-8859-1', 'cp1252', 'ascii', 'koi8-r',
                 'utf-16-le', 'utf-16-be', 'utf-32', 'shift_jis', 'cp037', 'utf8', 'latin-1']
XML_DECLS = [None, True, False]
XML_GRID = [dict(indent=i, prefix=p, encoding=e, xml_declaration=d, short_empty_elements=s)
            for i in XML_INDENTS for p in XML_PREFIXES for e in XML_ENCODINGS for d in XML_DECLS for s in (True, False)]

def xml_expected_failure(o, why, nonascii_bytes):
    """is a failure of this XML option cell one of the three sub-classes of known finding C09-7 (and nothing else)?"""
    if why not in ('not-well-formed', 'reload'):
        return False
    enc = o.get('encoding'); decl = o.get('xml_declaration')
    if enc in UNREADABLE_ENCODINGS:
        return True
    if enc in ALIAS_ENCODINGS and decl is not False:       # the declaration carries the alias
        return (enc == 'utf8' and why == 'reload') or (enc == 'latin-1' and why == 'not-well-formed')
    if enc in EIGHT_BIT_ENCODINGS and decl is False and nonascii_bytes:
        return True
    return False

def xml_kwargs(o):
    kw = {}
    for k in ('indent', 'prefix', 'encoding', 'xml_declaration'):
        if o[k] is not None: kw[k] = o[k]
    if not o['short_empty_elements']: kw['short_empty_elements'] = False
    return kw

# ------------------------------------------------------------------ printer oracles
def collect(doc, nums, strs):
    if isinstance(doc, dict):
        for k, v in doc.items():
            strs.add(k); collect(v, nums, strs)
    elif isinstance(doc, list):
        for v in doc: collect(v, nums, strs)
    elif isinstance(doc, str):
        strs.add(doc)
    elif isinstance(doc, (int, float)) and not isinstance(doc, bool):
        nums.append(doc)

def printer_tables(doc):
    nums = []; strs = set(); collect(doc, nums, strs)
    seen = set(); rows = []
    for v in nums:
        key = cnum(v)
        if key in seen: continue
        seen.add(key)
        txt = float.__repr__(v) if isinstance(v, float) else int.__repr__(v)
        if isinstance(v, float) and math.isnan(v): txt = 'NaN'
        if isinstance(v, float) and math.isinf(v): txt = 'Infinity' if v > 0 else '-Infinity'
        rows.append('((%s : T F), %s)' % (key, cstring(txt)))
    srows = []
    for s in sorted(strs):
        srows.append('(true, %s, %s)' % (cstring(s), cstring(json.encoder.encode_basestring_ascii(s))))
        srows.append('(false, %s, %s)' % (cstring(s), cstring(json.encoder.encode_basestring(s))))
    return clist(rows), clist(srows)

# ------------------------------------------------------------------ corrupted documents
def paths(doc, pre=()):
    yield pre, doc
    if isinstance(doc, dict):
        for k, v in doc.items():
            yield from paths(v, pre + (k,))
    elif isinstance(doc, list):
        for i, v in enumerate(doc):
            yield from paths(v, pre + (i,))

def get(doc, path):
    for p in path: doc = doc[p]
    return doc

BAD_KEYS = ['1abc', 'a-b', 'a b', 'ok_name', 'x\n', '', '(1, 2)', '(1,2)', '(1,\t 2)', '(1, 2, 0)', '(1, 2, 3)', '(1, 2',
            'additionalProperties', 'xadditionalPropertiesy', '(12, 34)\n', ' (1, 2)', '(1, a)', '(, 2)', '(1, 2, 00)', 'None', 'CLASS']
BAD_VALUES = [None, True, False, 0, -1, 0.5, 1, 1.0, -0.0, 1e300, 'Vector', 'LeafNode', 'Archive', 'ElementaryReal', 'IntermediateReal',
              'Complex', 'Complx', '', '(1, 2)', '(1, 2, 0)', '(1, 2, 3)', '(1,2)', 'None', [], {}, ['(1, 2)'], ['(1, 2)', '(3, 4)'],
              ['(1, 2)', '(3, 4)', '(5, 6)'], [None, 1.0, None], ['a', 1.0, 2.0, 3], {'(1, 2)': 1.0}, {'bad': 1.0}, {'CLASS': 'Complex'},
              {'CLASS': 'Vector', 'index': [], 'value': []}, {'CLASS': 'Vector', 'index': ['(1, 2, 0)'], 'value': ['x']}]

def corrupt(rng, doc):
    """one or two random local edits of a valid document; returns (document, description)"""
    d = copy.deepcopy(doc); notes = []
    for _ in range(rng.choice([1, 1, 1, 2])):
        allp = list(paths(d))
        objs = [p for p, v in allp if isinstance(v, dict)]
        kind = rng.choice(['del', 'add', 'set', 'set', 'rename', 'setkey'])
        if kind == 'del' and objs:
            p = rng.choice(objs); o = get(d, p)
            if o:
                k = rng.choice(list(o)); del o[k]; notes.append('del %s/%s' % ('/'.join(map(str, p)), k))
        elif kind == 'add' and objs:
            p = rng.choice(objs); o = get(d, p)
            k = rng.choice(BAD_KEYS + ['extra', 'ensemble', 'correlation', 'complex', 'label', 'df'])
            o[k] = copy.deepcopy(rng.choice(BAD_VALUES)); notes.append('add %s/%s' % ('/'.join(map(str, p)), k))
        elif kind == 'set':
            cand = [p for p, v in allp if p]
            p = rng.choice(cand); parent = get(d, p[:-1])
            parent[p[-1]] = copy.deepcopy(rng.choice(BAD_VALUES)); notes.append('set %s' % '/'.join(map(str, p)))
        elif kind in ('rename', 'setkey') and objs:
            p = rng.choice(objs); o = get(d, p)
            if o:
                k = rng.choice(list(o)); nk = rng.choice(BAD_KEYS)
                items = [(nk if kk == k else kk, vv) for kk, vv in o.items()]
                o.clear(); o.update(items); notes.append('rename %s/%s -> %r' % ('/'.join(map(str, p)), k, nk))
    return d, '; '.join(notes)

REGEX_ALPHABET = ['(', ')', ',', ' ', '\t', '\n', '0', '1', '9', '12', 'a', 'Z', '_', '-', 'x', '\x1c', '\r', 'additionalProperties', '.', '5']

def rand_regex_input(rng):
    base = rng.choice(['(1, 2)', '(12,34)', '(1, 2, 0)', '(7,  8,\t0)', '(1, 2, 3)', 'abc', '_a1', 'x', '', 'additionalProperties'])
    s = list(base)
    for _ in range(rng.choice([0, 0, 1, 1, 2, 3])):
        i = rng.randint(0, len(s))
        if s and rng.random() < 0.4:
            del s[min(i, len(s) - 1)]
        else:
            s.insert(i, rng.choice(REGEX_ALPHABET))
    return ''.join(s)

"""C09 -- stored documents conform to the shipped schemas under every writer option, and can
be read back with the same content whatever options were used."""
import io, json, math, re, copy, warnings, traceback, random
from common import *
import c09gen as G

COQ_PROPS = 'props/C09.v'
PARTIAL = ('PROVED (Coq, all archive sizes, any number carrier): every JSON document built from a well-formed frozen archive with '
           'identifier tags validates against the schema term regenerated from gtc_v_1_5_0.json (C09_json_valid); the reader\'s '
           'version regex (regenerated from persistence.loads_json) is found in the printed text for EVERY archive and every indent / '
           'item separator / key separator (white space, colon, white space: all that print JSON) / sort_keys / ensure_ascii '
           '(C09_sniff_all_options, C09_key_separators; fixed finding C09-1 is replayed as a regression). '
           'NOT PROVED, correspondence only: (a) validity of the sort_keys=True document for all archives (the jsort model is tied to real '
           'documents and validated on examples / by jsonschema on every generated document); (b) reading back (decoders are not modelled: '
           'every document of the full option grids is reloaded and compared with the objects that were archived); (c) XML: no Coq model of '
           'xml_format.py / the .xsd -- documents of the full XML option grid are validated with lxml, reloaded and compared, prefixes that are '
           'not NCNames of Namespaces in XML 1.0 must be refused and names -- non-ASCII included -- accepted (fixed finding C09-3; the code-point ranges of the test are regenerated from xml_format.py and proved equal to the XML 1.0 production: C09_prefix_test_is_ncname, C09_prefix_accepted_no_colon), and the same Archive object is written as XML/JSON in sequence in both orders. '
           'Archives holding constants (uid None) and nan dof are outside wf: known findings C09-2, C09-5; non-ASCII prefix under an ASCII encoding: C09-6.')
ASSUMPTIONS = ['json.loads(json.dumps(t, **options)) == t up to member order; ElementTree parses what it prints (validated on every run)',
               'jsonschema (Draft 2020-12) and lxml are the reference validators the model validators are compared with']
TRUSTED = ['tools/tr_schema.py (JSON schema + sniff regex -> Gallina); harness/c09gen.py renderings of documents and archives',
           'jsonschema, lxml, json, xml.etree only as correspondence partners']

# ------------------------------------------------------------------ implementation side
_validators = {}
def validators():
    if not _validators:
        import jsonschema
        from lxml import etree
        _validators['json'] = jsonschema.Draft202012Validator(json.load(open(G.SCHEMA_JSON)))
        _validators['xsd'] = etree.XMLSchema(file=G.SCHEMA_XSD)
    return _validators

def dump_json_text(ar, o, via_file):
    from GTC import persistence as P
    kw = G.json_kwargs(o)
    if via_file:
        f = io.StringIO(); P.dump_json(f, ar, **kw); return f.getvalue()
    return P.dumps_json(ar, **kw)

def observe(ar2, tags):
    """content of a loaded archive, as comparable data (floats by bit pattern)"""
    return observe_objs({t: ar2.extract(t) for t in tags})

def f32_names(objs):
    """observation names (tag, tag.re, tag.im) of the archived reals that hold a numpy floating number other than float64
    (np.float32, np.float16, ...) in a stored component vector: the input class of known finding C09-9"""
    import numpy as np
    from GTC import lib
    bad = lambda v: isinstance(v, np.floating) and not isinstance(v, np.float64)
    names = set()
    for t, o in objs.items():
        parts = [(t + '.re', o.real), (t + '.im', o.imag)] if isinstance(o, lib.UncertainComplex) else [(t, o)]
        for n, r in parts:
            vals = list(r._u_components.values()) + list(r._d_components.values()) + list(r._i_components.values())
            if any(bad(v) for v in vals) or bad(r.x):
                names.add(n)
    return names

def mark_f32(ar, items):
    ar._c09_f32 = sorted(f32_names(items))
    return ar._c09_f32

def f32_of(ar):
    return list(getattr(ar, '_c09_f32', ()))

def diff_keys(obs, orig):
    return sorted(k for k in set(orig) | set(obs) if obs.get(k) != orig.get(k))

def in_f32_class(key, f32):
    """is this observation key about a real of the class (its own record, or a correlation involving it)?"""
    if key.endswith('#'): return key[:-1] in f32
    if '~' in key: return any(p in f32 for p in key.split('~'))
    return False

def observe_objs(objs):
    """the same observation on uncertain numbers (used on the ORIGINAL objects as the reference)"""
    from GTC import core, lib
    out = {}
    reals = []
    for t, o in objs.items():
        if isinstance(o, lib.UncertainComplex):
            reals += [(t + '.re', o.real), (t + '.im', o.imag)]
            out[t] = ('c', repr(o.label))
        else:
            reals.append((t, o)); out[t] = ('r',)
    kept = set(tuple(r._node.uid) for _, r in reals if r._node is not None and r._node.uid is not None and r.is_intermediate)
    for n, r in reals:
        comps = sorted((tuple(k.uid), cf(v)) for k, v in zip(r._u_components.keys(), r._u_components.values()))
        comps += sorted((tuple(k.uid), cf(v)) for k, v in zip(r._d_components.keys(), r._d_components.values()))
        # freezing drops the components with respect to intermediates that are not themselves archived
        icomps = sorted((tuple(k.uid), cf(v)) for k, v in zip(r._i_components.keys(), r._i_components.values())
                        if tuple(k.uid) in kept)
        out[n + '#'] = (cf(r.x), cf(r.u), cf(r.df), repr(r.label), bool(r.is_elementary), bool(r.is_intermediate),
                        tuple(r._node.uid) if r._node is not None and r._node.uid is not None else None, comps, icomps)
    for i, (n1, r1) in enumerate(reals):
        for n2, r2 in reals[:i]:
            try:
                out[n1 + '~' + n2] = cf(core.get_correlation(r1, r2))
            except ArithmeticError as ex:       # zero-uncertainty operands: same outcome expected for every option
                out[n1 + '~' + n2] = type(ex).__name__
    return out

def load_json_observed(text, tags, k):
    """-> (path, outcome): path 'current'/'legacy' (which decoder loads_json chose), outcome = content or exception name"""
    from GTC import persistence as P
    new_context(k)
    with warnings.catch_warnings(record=True) as w:
        warnings.simplefilter('always')
        try:
            ar2 = P.loads_json(text)
            res = observe(ar2, tags)
        except Exception as ex:
            res = 'EXN ' + type(ex).__name__
    legacy = any('legacy JSON format' in str(i.message) for i in w)
    return ('legacy' if legacy else 'current'), res

# ------------------------------------------------------------------ correspondence
HEADER = '''From Coq Require Import List Bool Ascii String ZArith NArith Floats.
From GTCV Require Import Num FNum Regex Json JsonArchive C09Case%s.
From GTCV.gen Require Import Gen_schema_json.
Import ListNotations.
Local Open Scope string_scope.
Local Open Scope float_scope.
'''

def count_zero_u(ar, dist):
    """stored uncertainties that are exactly zero (leaf table and intermediate table of a frozen archive)"""
    dist['zero_u_leaves'] = dist.get('zero_u_leaves', 0) + sum(1 for ln in ar._leaf_nodes.values() if ln.u == 0)
    dist['zero_u_intermediates'] = dist.get('zero_u_intermediates', 0) + sum(1 for v in ar._intermediate_uids.values() if v[1] == 0)

def count_nonfloat(ar, dist):
    """stored numeric fields of a frozen archive that are not plain Python floats (numpy scalars left by arithmetic with numpy constants)"""
    h = dist.setdefault('nonfloat_stored_fields', {})
    def note(v):
        if type(v) is not float:
            h[type(v).__name__] = h.get(type(v).__name__, 0) + 1
    for ln in ar._leaf_nodes.values():
        note(ln.u); note(ln.df)
    for v in list(ar._tagged_real.values()) + list(ar._untagged_real.values()):
        if hasattr(v, 'x'): note(v.x)
        else:
            note(v.value)
            for vec in (v.u_components, v.d_components, v.i_components):
                for c in vec.values(): note(c)
    for v in ar._intermediate_uids.values():
        note(v[1]); note(v[2])

def run_groups(name, header, groups, timeout=900):
    """groups: list of (definitions text, [terms of type Z]); one .v file per group, compiled in parallel.
    Returns (values per group (list or None), errors)."""
    d = scratch('cases_' + name)
    files = []
    for gi, (defs, terms) in enumerate(groups):
        path = os.path.join(d, '%s_%d.v' % (name, gi))
        with open(path, 'w') as f:
            f.write(header + '\n' + defs + '\n')
            for j, t in enumerate(terms):
                f.write('Definition case_%d : Z := %s.\n' % (j, t))
            f.write('Eval vm_compute in (%s : list Z).\n' % clist(['case_%d' % j for j in range(len(terms))]))
        files.append(path)
    res = run_coqc_many(files, timeout=timeout)
    values = []; errors = []
    for path, (defs, terms) in zip(files, groups):
        rc, out = res[path]
        vals = parse_zlist(out)
        if vals is None or len(vals) != len(terms):
            errors.append({'file': path, 'rc': rc, 'output': out[-2000:]}); values.append(None)
        else:
            values.append(vals)
    if not errors:
        shutil.rmtree(d, ignore_errors=True)
    return values, errors

def translator_fresh():
    """fail closed if coq/gen/Gen_schema_json.v is not what tools/tr_schema.py produces from REPO now"""
    sys.path.insert(0, os.path.join(VERIF, 'tools'))
    import importlib, tr_schema
    importlib.reload(tr_schema)
    d = scratch('c09_gen')
    import contextlib
    with contextlib.redirect_stdout(io.StringIO()) as buf:
        rc = tr_schema.main(REPO, d)
    new = open(os.path.join(d, 'Gen_schema_json.v')).read()
    cur_p = os.path.join(COQ, 'gen', 'Gen_schema_json.v')
    cur = open(cur_p).read() if os.path.exists(cur_p) else None
    shutil.rmtree(d, ignore_errors=True)
    return rc, new == cur, buf.getvalue().strip()

def correspondence(rng, tier):
    from GTC import persistence as P
    V = validators(); t_start = time.time()
    n_arch = 16 if tier == 'quick' else 110
    n_corrupt = 128 if tier == 'quick' else 2000
    n_regex = 150 if tier == 'quick' else 2000
    cells_per_archive = 4 if tier == 'quick' else 16
    mism = []; groups = []; gmeta = []
    dist = {'archives': 0, 'json_documents': 0, 'json_options_covered': 0, 'leaves': 0, 'tagged': 0, 'intermediates': 0,
            'corrupt_valid': 0, 'corrupt_invalid': 0, 'regex_match': 0, 'regex_nomatch': 0, 'kinds': {}, 'reload_current': 0,
            'reload_legacy': 0, 'print_cases': 0}
    samples = []
    rc, fresh, tout = translator_fresh()
    if rc != 0 or not fresh:
        mism.append({'kind': 'translator', 'detail': 'coq/gen/Gen_schema_json.v is not the current translation of the schema/sniff '
                     '(tools/tr_schema.py rc=%d, identical=%s): %s' % (rc, fresh, tout[-500:])})
    covered = set(); valid_docs = []; steps = 0
    ncell = len(G.JSON_GRID)
    for ai in range(n_arch):
        ctx = rng.choice([7, 11, 123456, rng.getrandbits(127) + 1])
        aseed = rng.getrandbits(48)
        ar, desc, items = G.build_archive(random.Random(aseed), ctx)
        orig_obs = observe_objs(items)          # the reference content: the objects that were archived
        if mark_f32(ar, items):
            # known finding C09-9: a float32 number in a stored vector; dumps_json must fail in exactly that way (or work)
            try:
                P.dumps_json(ar)
            except Exception as ex:
                f = {'format': 'json', 'why': 'dump-raised', 'detail': '%s: %s' % (type(ex).__name__, str(ex)[:150]),
                     'f32': f32_of(ar), 'written_as': 'json', 'archive_seed': aseed, 'ctx': ctx}
                if is_known(f):
                    h = dist.setdefault('known_class_hits', {}); h['C09-9'] = h.get('C09-9', 0) + 1
                else:
                    mism.append(dict(f, kind='json-dump-raised'))
                continue
        ar._freeze()
        tags = desc['tags']
        dist['archives'] += 1
        for k in desc['kinds']: dist['kinds'][k] = dist['kinds'].get(k, 0) + 1
        dist['leaves'] += len(ar._leaf_nodes); dist['tagged'] += len(tags); dist['intermediates'] += len(ar._intermediate_uids)
        count_nonfloat(ar, dist); count_zero_u(ar, dist)
        base_text = P.dumps_json(ar)
        base = json.loads(base_text)
        info = {'archive': ai, 'ctx': ctx, 'archive_seed': aseed, 'format': 'json', 'tags': tags}
        if ai < 2: samples.append({'desc': desc, 'json': base_text[:300]})
        nt, st = G.printer_tables(base)
        defs = ['Definition A : farchive F := %s.' % G.abstract_archive(ar),
                'Definition D : json F := %s.' % G.cjson(base),
                'Definition NT : list (T F * string) := %s.' % nt,
                'Definition ST : list (bool * string * string) := %s.' % st]
        terms = []; meta = []
        def add(term, m):
            terms.append(term); meta.append(dict(info, **m))
        ok0 = V['json'].is_valid(base)
        add('case_encode A D', {'check': 'model encoder = document written'})
        add('case_valid D %s' % cbool(ok0), {'check': 'model validator = jsonschema (real document)'})
        valid_docs.append(base)
        base_obs = orig_obs
        if len(base_text) > 1024: dist['json_long_documents'] = dist.get('json_long_documents', 0) + 1
        sorted_done = False
        for oi, o in enumerate(G.JSON_GRID):
            text = dump_json_text(ar, o, via_file=(oi + ai) % 2 == 0)
            dist['json_documents'] += 1; steps += 1
            try:
                doc = json.loads(text)
            except Exception as ex:
                mism.append(dict(info, kind='json-parse', options=o, detail=repr(ex))); continue
            if not V['json'].is_valid(doc):
                mism.append(dict(info, kind='schema', options=o, why='schema', detail='document does not validate',
                                 errors=[e.message[:200] for e in V['json'].iter_errors(doc)][:3]))
            if doc != base or (o['sort_keys'] and list(doc) != sorted(doc)):
                mism.append(dict(info, kind='options-change-document', options=o))
            path, obs = load_json_observed(text, tags, 900 + ai)
            dist['reload_' + path] += 1
            content_same = (not isinstance(obs, str)) and obs == base_obs
            if not content_same and not is_known(dict(info, options=o)):
                mism.append(dict(info, kind='reload', options=o, why='reload', detail='content differs / not readable',
                                 outcome=str(obs)[:200]))
            if oi % 8 == ai % 8:
                pattern = HISTORIES[(ai + oi // 8) % len(HISTORIES)]
                dist['second_generation_json'] = dist.get('second_generation_json', 0) + 1; steps += 1
                r2 = gen2_check(aseed, ctx, G.LABELS, 'json', o, G.JSON_GRID[(oi + 1) % ncell], pattern, ar, 900 + ai)
                if r2 is not None and not is_known(dict(info, options=o, **r2)):
                    mism.append(dict(info, kind='json-gen2-' + r2['why'], options=o, **r2))
            if (oi + ai * 5) % (ncell // cells_per_archive) == 0:
                covered.add(oi); dist['print_cases'] += 1
                defs.append('Definition TX%d : string := %s.' % (oi, G.cstring(text)))
                add('case_print %s NT ST D TX%d' % (G.cjopts(o), oi), {'options': o, 'check': 'model printer text = json.dumps text'})
                add('case_sniff TX%d %s' % (oi, cbool(path == 'current')), {'options': o, 'check': 'model sniff = decoder chosen by loads_json'})
                if o['sort_keys'] and not sorted_done:
                    sorted_done = True
                    add('case_sorted A %s' % G.cjson(doc), {'options': o, 'check': 'sorted model document = sort_keys document'})
        groups.append(('\n'.join(defs), terms)); gmeta.append(meta)
    dist['json_options_covered'] = len(covered)
    # corrupted documents: model validator and jsonschema must agree, valid or not
    small = sorted(valid_docs, key=lambda d: len(json.dumps(d)))[:max(4, len(valid_docs) // 3)]
    terms = []; meta = []
    for ci in range(n_corrupt):
        doc, note = G.corrupt(rng, rng.choice(small))
        try:
            ok = V['json'].is_valid(doc)
        except Exception as ex:
            continue
        dist['corrupt_valid' if ok else 'corrupt_invalid'] += 1
        terms.append('case_valid %s %s' % (G.cjson(doc), cbool(ok)))
        meta.append({'check': 'model validator = jsonschema (corrupted document)', 'edit': note,
                     'document': doc if len(json.dumps(doc)) < 3000 else None, 'jsonschema_valid': ok})
        if len(terms) == 16:
            groups.append(('', terms)); gmeta.append(meta); terms = []; meta = []
    if terms:
        groups.append(('', terms)); gmeta.append(meta)
    # the regular expressions of the schema against Python's re
    pats = sorted(set(find_patterns(json.load(open(G.SCHEMA_JSON)))))
    terms = []; meta = []
    for ri in range(n_regex):
        p = rng.choice(pats); s = G.rand_regex_input(rng)
        m = re.search(p, s) is not None
        dist['regex_match' if m else 'regex_nomatch'] += 1
        terms.append('match assoc %s schema_pats with Some p => case_pmatch p %s %s | None => 99%%Z end' % (G.cstring(p), G.cstring(s), cbool(m)))
        meta.append({'check': 'model regex = re.search', 'pattern': p, 'input': s, 're_search': m})
        if len(terms) == 400:
            groups.append(('', terms)); gmeta.append(meta); terms = []; meta = []
    if terms:
        groups.append(('', terms)); gmeta.append(meta)
    # the witness of C09_sniff_refuted: model text = implementation text, and the implementation does fail on it
    war = _simple_archive()
    wtext = P.dumps_json(war, separators=(',', ':'))
    wpath, wobs = load_json_observed(wtext, ['x'], 990)
    groups.append(('', ['case_witness %s %s' % (G.cjson(json.loads(wtext)), G.cstring(wtext)),
                        'case_sniff %s %s' % (G.cstring(wtext), cbool(wpath == 'current'))]))
    gmeta.append([{'check': 'witness of C09_sniff_refuted: model document/text = implementation'},
                  {'check': 'witness of C09_sniff_refuted: decoder chosen', 'path': wpath, 'outcome': str(wobs)[:100]}])
    # tags that are words of the storage formats (every one of them, as real / complex / intermediate entries)
    for kind in ('real', 'complex', 'interm', 'numeric', 'zero', 'numeric32'):
        fails, rar, rtags = check_reserved(kind)
        dist['reserved_tags_' + kind] = len(rtags); steps += 4
        if kind.startswith('numeric'): count_nonfloat(rar, dist)
        if kind == 'zero': count_zero_u(rar, dist)
        for r in fails:
            if not is_known(dict(r, format='reserved')):
                mism.append(dict(r, kind='reserved-tags', format='reserved', options={'kind': kind}))
            else:
                h = dist.setdefault('known_class_hits', {}); h['C09-9'] = h.get('C09-9', 0) + 1
        if kind == 'numeric32':
            continue                      # no JSON document exists for it (that is the finding)
        try:
            rdoc = json.loads(P.dumps_json(rar))          # (the same archive object, after it was written as XML)
            rabs = G.abstract_archive(rar)
        except Exception as ex:
            mism.append({'kind': 'sequence-dump-raised', 'format': 'sequence', 'why': 'dump-raised', 'options': {'kind': kind},
                         'detail': 'dumps_json after dumps_xml on one archive: %s: %s' % (type(ex).__name__, str(ex)[:150])})
            continue
        groups.append(('Definition A : farchive F := %s.\nDefinition D : json F := %s.' % (rabs, G.cjson(rdoc)),
                       ['case_encode A D', 'case_valid D %s' % cbool(V['json'].is_valid(rdoc))]))
        gmeta.append([{'check': 'model encoder = document written (reserved-word tags / numeric zoo, %s)' % kind},
                      {'check': 'model validator = jsonschema (reserved-word tags, %s)' % kind}])
    xm = xml_correspondence(rng, tier, dist, samples)
    mism += xm['mismatches']; steps += xm['steps']
    groups += xm['groups']; gmeta += xm['gmeta']
    t_py = time.time() - t_start
    dist['known_class_hits'] = dict(G.KNOWN_HITS, **dist.get('known_class_hits', {}))
    values, errors = run_groups('C09', HEADER % xm.get('imports', ''), groups)
    dist['seconds_python_side'] = round(t_py, 1); dist['seconds_coq_side'] = round(time.time() - t_start - t_py, 1)
    for e in errors:
        mism.append({'kind': 'coq-case-file-failed', 'detail': e})
    ncases = 0
    for vals, meta in zip(values, gmeta):
        ncases += len(meta)
        if vals is None: continue
        for v, m in zip(vals, meta):
            if v != -1:
                mism.append(dict(m, kind='model-vs-implementation', code=v))
    return {'programs': ncases, 'steps': steps + ncases, 'mismatches': mism,
            'distinct': dist['archives'] * len(G.JSON_GRID) + xm['distinct'] + dist['corrupt_valid'] + dist['corrupt_invalid'],
            'distribution': dist,
            'rule': 'random sessions (1-4 ureals incl. dependent/finite-dof, ensembles, ucomplex of 3 kinds, real and complex '
                    'intermediates, labels incl. escapes/unicode, 127-bit context ids) archived under identifier tags; every archive is '
                    'written under the full JSON grid (indent x separators x sort_keys x ensure_ascii = %d cells) and the full XML grid '
                    '(%d cells); validated with jsonschema/lxml, reloaded and compared; model encoder/validator/printer/sniff are '
                    'evaluated in coqc on the same documents; corrupted documents and random regex inputs must get the same verdict '
                    'from model and reference; every archive has >= 1 leaf and >= 1 tag, so every case is non-trivial' % (len(G.JSON_GRID), len(G.XML_GRID)),
            'samples': samples}

def find_patterns(s):
    if isinstance(s, dict):
        for k, v in s.items():
            if k == 'pattern' and isinstance(v, str): yield v
            elif k == 'patternProperties' and isinstance(v, dict):
                for kk, vv in v.items():
                    yield kk
                    yield from find_patterns(vv)
            else:
                yield from find_patterns(v)
    elif isinstance(s, list):
        for v in s: yield from find_patterns(v)

def check_reserved(kind, ctx=7):
    """fixed archives: tags that are the words of the storage formats ('real', 'complex', 'interm'), numbers in every accepted
    guise ('numeric'), float32 constants ('numeric32', known finding C09-9).  Every document must validate and read back with
    the original content, in both formats.  -> (list of failure dicts -- one per format/option at most --, archive, tags)"""
    from GTC import persistence as P
    from lxml import etree
    V = validators()
    builder = {'numeric': G.numeric_archive, 'numeric32': G.numeric32_archive, 'zero': G.zero_archive}.get(kind)
    ar, tags, items = builder(ctx) if builder else G.reserved_archive(kind, ctx)
    orig = observe_objs(items)
    f32 = mark_f32(ar, items)
    fails = []
    for fmt, kw in (('json', {}), ('json', {'sort_keys': True, 'indent': 1}), ('xml', {}), ('xml', {'prefix': 'gtc', 'indent': 2})):
        where = {'reserved_kind': kind, 'written_as': fmt, 'kw': kw, 'f32': f32}
        try:
            out = P.dumps_json(ar, **kw) if fmt == 'json' else P.dumps_xml(ar, **kw)
        except Exception as ex:
            fails.append(dict(where, why='dump-raised', detail='%s: %s' % (type(ex).__name__, str(ex)[:150]))); continue
        if fmt == 'json':
            doc = json.loads(out)
            if not V['json'].is_valid(doc):
                fails.append(dict(where, why='schema', errors=[e.message[:200] for e in V['json'].iter_errors(doc)][:3])); continue
            _, obs = load_json_observed(out, tags, 903)
        else:
            if not V['xsd'].validate(etree.fromstring(out)):
                fails.append(dict(where, why='schema', detail=str(V['xsd'].error_log)[:300])); continue
            obs = load_xml_observed(out, tags, 903)
        if isinstance(obs, str):
            fails.append(dict(where, why='reload', outcome=obs))
        elif obs != orig:
            dk = diff_keys(obs, orig)
            fails.append(dict(where, why='reload', outcome='content differs at %s' % dk[:5], diff_keys=dk))
    return fails, ar, tags

def xml_bytes(out):
    """what dumps_xml returned, as bytes a parser can be given"""
    if isinstance(out, bytes): return out
    m = re.match(r"<\?xml[^>]*encoding=['\"]([A-Za-z0-9._-]+)['\"]", out)
    return out.encode(m.group(1) if m else 'utf-8', 'xmlcharrefreplace')

def load_xml_observed(out, tags, k, how='loads'):
    """read an XML document back: 'loads' = loads_xml on what dumps_xml returned (bytes or str),
    'file' = load_xml on a file object holding it, 'name' = load_xml on a file name"""
    from GTC import persistence as P
    new_context(k)
    try:
        if how == 'loads':
            ar2 = P.loads_xml(out)
        elif how == 'file':
            ar2 = P.load_xml(io.BytesIO(out) if isinstance(out, bytes) else io.StringIO(out))
        else:
            path = os.path.join(BUILD, 'c09_%d.xml' % os.getpid())
            with open(path, 'wb') as f:
                f.write(xml_bytes(out))
            try:
                ar2 = P.load_xml(path)
            finally:
                os.remove(path)
        return observe(ar2, tags)
    except Exception as ex:
        return 'EXN ' + type(ex).__name__

def xml_check_cell(ar, tags, o, base_obs, k):
    """-> None or a dict saying what failed for this option cell (implementation side only)"""
    from GTC import persistence as P
    from lxml import etree
    V = validators()
    try:
        out = P.dumps_xml(ar, **G.xml_kwargs(o))
    except Exception as ex:
        return {'why': 'dump-raised', 'detail': '%s: %s' % (type(ex).__name__, str(ex)[:150])}
    na = any(b > 127 for b in out) if isinstance(out, bytes) else any(ord(c) > 127 for c in out)
    try:
        doc = etree.fromstring(xml_bytes(out))
    except Exception as ex:
        return {'why': 'not-well-formed', 'detail': str(ex)[:150], 'nonascii_bytes': na}
    known_schema = None
    if not V['xsd'].validate(doc):
        known_schema = {'why': 'schema', 'detail': str(V['xsd'].error_log)[:300]}
        if not all("'nan' is not a valid value" in e.message for e in V['xsd'].error_log):
            return known_schema
        # only the nan-dof complaint of known finding C09-5: the rest of the cell (file writer, every loader) is still checked
    try:
        f = io.StringIO() if isinstance(out, str) else io.BytesIO()
        P.dump_xml(f, ar, **G.xml_kwargs(o))
        if f.getvalue() != out:
            return {'why': 'dump_xml-differs-from-dumps_xml'}
    except Exception as ex:
        return {'why': 'dump-raised', 'detail': 'dump_xml %s: %s' % (type(ex).__name__, str(ex)[:150])}
    for how in ('loads', 'file', 'name'):
        obs = load_xml_observed(out, tags, k, how)
        if isinstance(obs, str):
            return {'why': 'reload', 'loader': how, 'outcome': obs, 'nonascii_bytes': na}
        if obs != base_obs:
            return {'why': 'reload', 'loader': how, 'outcome': str(obs)[:200], 'nonascii_bytes': na,
                    'diff_keys': diff_keys(obs, base_obs), 'f32': f32_of(ar), 'written_as': 'xml'}
    return known_schema

HISTORIES = ['same', 'other', 'same+other', 'other+same', 'different+same', 'twice']

def history_dumps(pattern, fmt, o, o_other):
    """the dumps a first-generation archive goes through before it is copied: 'same' = the format and options of the cell
    under test, 'other' = the other format (default options), 'different' = the same format with other options"""
    kw = (lambda c: G.json_kwargs(c)) if fmt == 'json' else (lambda c: G.xml_kwargs(c))
    other = 'xml' if fmt == 'json' else 'json'
    step = {'same': (fmt, kw(o)), 'other': (other, {}), 'different': (fmt, kw(o_other)), 'twice': (fmt, kw(o))}
    names = ['twice', 'twice'] if pattern == 'twice' else pattern.split('+')
    return [step[n] for n in names]

def second_generation(seed, ctx, labels, history):
    """an archive WITH A HISTORY: the first half of the entries is archived and dumped (history), the archive is copied with
    Archive.copy, the remaining entries are added to the copy.  Same content as build_archive(seed) gives directly."""
    from GTC import persistence as P, archive as garchive
    ar1, desc, items = G.build_archive(random.Random(seed), ctx, labels=labels, first='half')
    rest = desc.pop('_rest')
    for fmt, kw in history:
        try:
            P.dumps_json(ar1, **kw) if fmt == 'json' else P.dumps_xml(ar1, **kw)
        except Exception:
            pass                      # (failures of first-generation dumps are the business of the ordinary cells)
    ar2 = garchive.Archive.copy(ar1)
    if rest and 'self' not in rest and seed % 2:
        ar2.add(**rest)
    else:
        for k, v in rest.items():
            ar2[k] = v
    mark_f32(ar2, items)
    return ar2, desc, items, len(rest)

def dump_text(ar, fmt, o):
    from GTC import persistence as P
    try:
        return P.dumps_json(ar, **G.json_kwargs(o)) if fmt == 'json' else P.dumps_xml(ar, **G.xml_kwargs(o))
    except Exception as ex:
        return ('EXN', type(ex).__name__, str(ex)[:120])

def gen2_check(seed, ctx, labels, fmt, o, o_other, pattern, fresh, k):
    """the option cell o on a second-generation archive: its document must be the one the fresh archive of the same content
    gives, and it must validate and read back with EVERY entry.  -> None or a failure dict"""
    V = validators()
    ar2, desc, items, nrest = second_generation(seed, ctx, labels, history_dumps(pattern, fmt, o, o_other))
    tags = desc['tags']
    where = {'generation': 2, 'history': pattern, 'added_after_copy': nrest}
    fresh = G.build_archive(random.Random(seed), ctx, labels=labels, first='all')[0]      # same entries, same order, no history
    out2 = dump_text(ar2, fmt, o); outf = dump_text(fresh, fmt, o)
    if out2 != outf:
        return dict(where, why='document-depends-on-history',
                    detail='second-generation %s vs fresh %s' % (str(out2)[:60] if isinstance(out2, tuple) else 'document of %d chars' % len(out2),
                                                                  str(outf)[:60] if isinstance(outf, tuple) else 'document of %d chars' % len(outf)))
    if isinstance(out2, tuple):
        return None                   # both writers refuse in the same way: judged by the ordinary cell
    orig_obs = observe_objs(items)
    if fmt == 'xml':
        r = xml_check_cell(ar2, tags, o, orig_obs, k)
        return None if r is None else dict(where, **r)
    doc = json.loads(out2)
    if not V['json'].is_valid(doc):
        return dict(where, why='schema', errors=[e.message[:200] for e in V['json'].iter_errors(doc)][:3])
    _, obs = load_json_observed(out2, tags, k)
    if isinstance(obs, str) or obs != orig_obs:
        return dict(where, why='reload', outcome=str(obs)[:200])
    return None

def write_sequence(ar, tags, order, orig_obs, k, refs):
    """the SAME Archive object written several times in the given order of formats (default options);
    every document must validate, read back with the original content and be identical to the
    document a fresh twin archive gives for that format (refs).  -> None or a dict saying what failed"""
    from GTC import persistence as P
    from lxml import etree
    V = validators()
    for step, fmt in enumerate(order):
        where = {'step': step, 'order': order}
        try:
            out = P.dumps_json(ar) if fmt == 'json' else P.dumps_xml(ar)
        except Exception as ex:
            return dict(where, why='dump-raised', detail='%s: %s' % (type(ex).__name__, str(ex)[:150]), f32=f32_of(ar), written_as=fmt)
        if refs.get(fmt) is not None and out != refs[fmt]:
            return dict(where, why='document-depends-on-history')
        refs.setdefault(fmt, out)
        if fmt == 'json':
            try:
                doc = json.loads(out, parse_constant=_not_json)
            except ValueError as ex:
                return dict(where, why='not-json', detail=str(ex))
            if not V['json'].is_valid(doc):
                return dict(where, why='schema', errors=[e.message[:200] for e in V['json'].iter_errors(doc)][:3])
            _, obs = load_json_observed(out, tags, k)
        else:
            try:
                doc = etree.fromstring(xml_bytes(out))
            except Exception as ex:
                return dict(where, why='not-well-formed', detail=str(ex)[:150])
            if not V['xsd'].validate(doc):
                return dict(where, why='schema', detail=str(V['xsd'].error_log)[:300])
            obs = load_xml_observed(out, tags, k)
        if isinstance(obs, str):
            return dict(where, why='reload', outcome=obs)
        if obs != orig_obs:
            return dict(where, why='reload', outcome=str(obs)[:200], diff_keys=diff_keys(obs, orig_obs), f32=f32_of(ar), written_as=fmt)
    return None

SEQUENCES = [['xml', 'json', 'xml', 'json'], ['json', 'xml', 'json', 'xml']]

def prefix_accepted(ar, prefix):
    """does archive_to_xml accept this prefix (True) or refuse it with ValueError (False)"""
    from GTC import xml_format
    try:
        xml_format.archive_to_xml(ar, prefix=prefix)
        return True
    except ValueError:
        return False

def prefix_check(ar, tags, orig_obs, prefix, expect, k):
    """expect 'accept': must be accepted and, under an encoding that can represent it, give a valid document that
    reads back with the original content; 'refuse': ValueError; 'either': refused, or valid and reloadable.
    -> list of dicts saying what failed"""
    from GTC import persistence as P
    out = []
    acc = prefix_accepted(ar, prefix)
    if expect == 'accept' and not acc:
        return [{'why': 'name-refused', 'detail': 'a prefix that is an NCName was refused'}]
    if expect == 'refuse':
        return [{'why': 'prefix-not-ncname', 'detail': 'a prefix that is not an NCName was accepted'}] if acc else []
    if not acc:
        return []
    for enc in ('utf-8', 'unicode', None, 'us-ascii'):
        o = dict(indent=None, prefix=prefix, encoding=enc, xml_declaration=None, short_empty_elements=True)
        r = xml_check_cell(ar, tags, o, orig_obs, k)
        if r is not None:
            out.append(dict(r, options=o))
    return out

def xml_correspondence(rng, tier, dist, samples):
    from GTC import persistence as P
    n_arch = 16 if tier == 'quick' else 45
    per = 48 if tier == 'quick' else len(G.XML_GRID)
    mism = []; steps = 0; covered = set()
    dist.update({'xml_archives': 0, 'xml_documents': 0, 'xml_options_covered': 0, 'sequences': 0,
                 'xml_finite_dof_above_1e5': 0})
    ncell = len(G.XML_GRID); grid_start = rng.randrange(ncell)
    g2_stride = 4 if tier == 'quick' else 13          # thorough: 60 archives x 1440 cells, keep the tier under 15 min
    assert math.gcd(97, ncell) == 1
    for ai in range(n_arch):
        ctx = rng.choice([7, 11, rng.getrandbits(127) + 1]); aseed = rng.getrandbits(48)
        labels = G.XML_INTL_LABELS if aseed % 2 else G.XML_SAFE_LABELS
        ar, desc, items = G.build_archive(random.Random(aseed), ctx, labels=labels)
        orig_obs = observe_objs(items)
        mark_f32(ar, items)
        ar._freeze(); tags = desc['tags']
        info = {'archive': ai, 'ctx': ctx, 'archive_seed': aseed, 'format': 'xml', 'tags': tags, 'labels': 'intl' if aseed % 2 else 'safe'}
        dist['xml_nonascii_labels'] = dist.get('xml_nonascii_labels', 0) + sum(
            1 for ln in ar._leaf_nodes.values() if ln.label and any(ord(c) > 127 for c in ln.label))
        dist['xml_archives'] += 1
        count_nonfloat(ar, dist); count_zero_u(ar, dist)
        dist['xml_finite_dof_above_1e5'] += sum(1 for ln in ar._leaf_nodes.values() if 1e5 < ln.df < math.inf)
        f = io.BytesIO(); P.dump_xml(f, ar); base_out = f.getvalue()
        if base_out != P.dumps_xml(ar):
            mism.append(dict(info, kind='dump_xml-differs-from-dumps_xml'))
        if ai < 1: samples.append({'desc': desc, 'xml': base_out[:300].decode('utf-8', 'replace')})
        for j in range(per):
            oi = (grid_start + (ai * per + j) * 97) % ncell      # 97 is coprime to the grid size: encodings mix evenly
            o = G.XML_GRID[oi]; covered.add(oi)
            dist['xml_documents'] += 1; steps += 1
            r = xml_check_cell(ar, tags, o, orig_obs, 700 + ai)
            if r is not None and not is_known(dict(info, options=o, **r)):
                mism.append(dict(info, kind='xml-' + r['why'], options=o, **r))
            elif r is not None:
                h = dist.setdefault('known_class_hits', {})
                key = 'C09-7' if G.xml_expected_failure(o, r['why'], bool(r.get('nonascii_bytes'))) else ('C09-9' if r.get('diff_keys') else 'other-known')
                h[key] = h.get(key, 0) + 1
            if j % g2_stride == g2_stride - 1:
                # the same cell on an archive with a history (dumped, copied, extended)
                pattern = HISTORIES[(ai + j // g2_stride) % len(HISTORIES)]
                dist['second_generation_xml'] = dist.get('second_generation_xml', 0) + 1; steps += 1
                r2 = gen2_check(aseed, ctx, labels, 'xml', o, G.XML_GRID[(oi + 1) % ncell], pattern, ar, 700 + ai)
                if r2 is not None and not is_known(dict(info, options=o, **r2)):
                    mism.append(dict(info, kind='xml-gen2-' + r2['why'], options=o, **r2))
        # the same Archive object written in several formats in sequence, both orders (twins from the same seed)
        refs = {}
        for order in SEQUENCES:
            tw, tdesc, titems = G.build_archive(random.Random(aseed), ctx, labels=labels)
            mark_f32(tw, titems)
            dist['sequences'] += 1; steps += len(order)
            r = write_sequence(tw, tags, order, orig_obs, 700 + ai, refs)
            if r is not None and not is_known(dict(info, format='sequence', **r)):
                mism.append(dict(info, kind='sequence-' + r['why'], format='sequence', options={'order': order},
                                 **{k: v for k, v in r.items() if k != 'order'}))
        if ai < 3:
            for expect, plist in (('accept', G.GOOD_PREFIXES), ('refuse', G.BAD_PREFIXES), ('either', G.RESERVED_PREFIXES)):
                for pfx in plist:
                    dist['prefixes_' + expect] = dist.get('prefixes_' + expect, 0) + 1; steps += 1
                    for r in prefix_check(ar, tags, orig_obs, pfx, expect, 700 + ai):
                        f = dict(info, **r); f.setdefault('options', {'prefix': pfx})
                        if not is_known(f):
                            mism.append(dict(f, kind='xml-prefix'))
        if ai == 0:
            PREFIX_AR.append(ar)
    dist['xml_options_covered'] = len(covered)
    xg = xml_model_groups(rng, tier, dist)
    return {'mismatches': mism, 'steps': steps, 'distinct': dist['xml_documents'] + dist['sequences'], 'imports': xg['imports'],
            'groups': xg['groups'], 'gmeta': xg['gmeta']}

PREFIX_AR = []

def cps(s):
    return clist(['%d%%N' % ord(c) for c in s])

def xml_model_groups(rng, tier, dist):
    """model of the prefix test (ranges regenerated from xml_format.py) = what archive_to_xml accepts"""
    ar = PREFIX_AR.pop() if PREFIX_AR else _simple_archive()
    del PREFIX_AR[:]
    pool = G.GOOD_PREFIXES + G.BAD_PREFIXES + G.NAME_ONLY_5TH_ED + [G.rand_prefix(rng) for _ in range(250 if tier == 'quick' else 3000)]
    terms = []; meta = []; n_acc = 0
    for pfx in pool:
        if pfx.lower().startswith('xml') or not pfx:       # refused / not a prefix by older rules of archive_to_xml
            continue
        acc = prefix_accepted(ar, pfx); n_acc += acc
        terms.append('case_prefix %s %s' % (cps(pfx), cbool(acc)))
        meta.append({'check': 'model prefix test = archive_to_xml accepts', 'prefix': pfx, 'code_points': [ord(c) for c in pfx], 'accepted': acc})
    dist['prefix_cases'] = len(terms); dist['prefix_cases_accepted'] = n_acc
    return {'imports': '', 'groups': [('', terms)], 'gmeta': [meta]}

# ------------------------------------------------------------------ known findings
def is_known(f):
    """failing inputs explained by the listed known findings"""
    if f.get('format') == 'gen2' and isinstance(f.get('options'), dict) and 'cell' in f['options']:
        f = dict(f, format=f['options']['format'], options=f['options']['cell'])     # judged like the cell it exercises
    # C09-1 (key separator) and C09-3 (prefix) are FIXED findings: nothing is excused for them any more
    if f.get('format') == 'xml' and f.get('why') == 'label-not-xml-char':
        return True
    if f.get('why') == 'constant':
        return True
    # C09-6: a non-ASCII NCName prefix written under an ASCII encoding (the default): ElementTree puts character
    # references into the element names
    o = f.get('options') or {}
    if f.get('format') == 'xml' and f.get('why') == 'not-well-formed' and o.get('encoding') in (None, 'us-ascii') \
       and isinstance(o.get('prefix'), str) and any(ord(c) > 127 for c in o['prefix']):
        return True
    # C09-7: encodings the reader cannot decode / alias spellings in the declaration / 8-bit without declaration
    if f.get('format') == 'xml' and G.xml_expected_failure(o, f.get('why'), bool(f.get('nonascii_bytes'))):
        return True
    # C09-9: a stored component that is a non-float64 numpy floating number (np.float32 constant in an operation):
    # dumps_json raises TypeError (not JSON serializable); XML reload differs only at numbers of reals in that class
    f32 = set(f.get('f32') or [])
    if f32:
        if f.get('why') == 'dump-raised' and 'not JSON serializable' in str(f.get('detail')) and 'float' in str(f.get('detail')) \
           and 'float64' not in str(f.get('detail')):
            return True
        dk = f.get('diff_keys')
        if f.get('why') == 'reload' and dk and all(in_f32_class(k, f32) for k in dk) and f.get('written_as', 'xml') == 'xml':
            return True
    # C09-5: an intermediate result with zero uncertainty has dof nan: 'nan' in XML, NaN in JSON
    if f.get('why') == 'schema' and "'nan' is not a valid value" in str(f.get('detail')):
        return True
    if f.get('why') == 'not-json' and 'NaN' in str(f.get('detail')):
        return True
    return False

def _simple_archive(label=None, k=7):
    from GTC import core, archive as garchive
    new_context(k)
    x = core.ureal(1.5, 0.25, 4, label=label)
    ar = garchive.Archive(); ar.add(x=x)
    return ar

def kf_json_separators():
    """dumps_json(ar, separators=(',', ':')) cannot be read back by loads_json"""
    from GTC import persistence as P
    ar = _simple_archive()
    s = P.dumps_json(ar, separators=(',', ':'))
    new_context(8)
    with warnings.catch_warnings():
        warnings.simplefilter('ignore')
        try:
            P.loads_json(s)
        except Exception as ex:
            return True, 'loads_json raised %s: %s' % (type(ex).__name__, str(ex)[:100])
    return False, 'read back without error'

def kf_constant():
    """an archive holding a constant: JSON document has uid "None" (schema-invalid), dumps_xml raises"""
    from GTC import core, archive as garchive, persistence as P
    new_context(7)
    ar = garchive.Archive(); ar.add(c=core.constant(3.0), x=core.ureal(1, 1))
    doc = json.loads(P.dumps_json(ar))
    bad_json = not validators()['json'].is_valid(doc)
    try:
        P.dumps_xml(ar); bad_xml = False
    except TypeError:
        bad_xml = True
    return bad_json or bad_xml, 'json invalid=%s, dumps_xml TypeError=%s' % (bad_json, bad_xml)

def kf_nan_dof():
    """result(x*y) at x = y = 0 has u = 0 and dof nan: <df>nan</df> is not an xsd:double, NaN is not JSON"""
    from GTC import core, archive as garchive, persistence as P
    from lxml import etree
    new_context(7)
    x = core.ureal(0, 1, 5); y = core.ureal(0, 1, 5); m = core.result(x * y)
    ar = garchive.Archive(); ar.add(m=m)
    bad_xml = not validators()['xsd'].validate(etree.fromstring(P.dumps_xml(ar)))
    try:
        json.loads(P.dumps_json(ar), parse_constant=_not_json); bad_json = False
    except ValueError:
        bad_json = True
    return bad_xml or bad_json, 'xml schema-invalid=%s, json has NaN=%s' % (bad_xml, bad_json)

def kf_xml_prefix():
    """dumps_xml(ar, prefix='1x') is accepted and yields a document that is not well-formed XML"""
    from GTC import persistence as P
    from lxml import etree
    ar = _simple_archive()
    try:
        b = P.dumps_xml(ar, prefix='1x')
    except ValueError:
        return False, 'prefix rejected'
    try:
        etree.fromstring(b)
    except etree.XMLSyntaxError as ex:
        return True, 'not well-formed: %s' % str(ex)[:80]
    return False, 'well-formed'

def kf_xml_prefix_encoding():
    """dumps_xml(ar, prefix='\u00e9') with the default (us-ascii) encoding writes &#233;:gtcArchive : not well-formed"""
    from GTC import persistence as P
    from lxml import etree
    ar = _simple_archive()
    try:
        etree.fromstring(P.dumps_xml(ar, prefix='\u00e9'))
    except etree.XMLSyntaxError as ex:
        return True, 'not well-formed: %s' % str(ex)[:80]
    except ValueError:
        return False, 'prefix refused'
    return False, 'well-formed'

def kf_xml_encodings():
    """one input per sub-class of C09-7; reproduces = all three still fail"""
    from GTC import persistence as P
    from lxml import etree
    def cell(enc, decl):
        ar = _simple_archive(label='\u00b5m')
        o = dict(indent=None, prefix=None, encoding=enc, xml_declaration=decl, short_empty_elements=True)
        r = xml_check_cell(ar, ['x'], o, _obs_simple(), 8)
        return r is not None and G.xml_expected_failure(o, r['why'], bool(r.get('nonascii_bytes'))), r
    a, ra = cell('utf-16-le', None)        # (i) valid document, loads_xml raises ValueError
    b, rb = cell('utf8', None)             # (ii) declaration says encoding='utf8': loads_xml raises ParseError
    c, rc = cell('iso-8859-1', False)      # (iii) no declaration, byte 0xB5: not well-formed
    return (a and b and c), 'utf-16-le: %s; utf8: %s; iso-8859-1 without declaration: %s' % (
        (ra or {}).get('outcome', ra and ra.get('why')), (rb or {}).get('outcome', rb and rb.get('why')), (rc or {}).get('why'))

def _obs_simple():
    from GTC import core
    new_context(7)
    return observe_objs({'x': core.ureal(1.5, 0.25, 4, label='\u00b5m')})

def kf_add_self():
    """Archive.add(self=x): the tag 'self' cannot be passed as a keyword argument; item assignment works"""
    from GTC import core, archive as garchive
    new_context(7)
    x = core.ureal(1.5, 0.25, 4)
    ar = garchive.Archive()
    try:
        ar.add(**{'self': x})
    except TypeError as ex:
        ar['self'] = x
        return "multiple values for argument 'self'" in str(ex), str(ex)[:100]
    return False, 'accepted'

def kf_float32():
    """result(x * numpy.float32(k)): (1) k = 2.0 (exact): dumps_json raises TypeError (float32 is not JSON serializable);
    (2) k = 0.1 (inexact): the XML document reads back with a different component.  reproduces = both"""
    import numpy as np
    from GTC import core, archive as garchive, persistence as P
    out = []
    for k in (np.float32(2.0), np.float32(0.1)):
        new_context(7)
        x = core.ureal(1.5, 0.25, 4); y = core.result(x * k)
        items = {'x': x, 'y': y}
        orig = observe_objs(items)
        ar = garchive.Archive(); ar.add(**items)
        try:
            P.dumps_json(ar); j = False
        except TypeError as ex:
            j = 'float32' in str(ex)
        obs = load_xml_observed(P.dumps_xml(ar), ['x', 'y'], 8)
        out.append((j, (not isinstance(obs, str)) and obs != orig))
    return (out[0][0] and out[1][1]), 'factor 2.0: json TypeError=%s xml differs=%s; factor 0.1: json TypeError=%s xml differs=%s' % (out[0] + out[1])

def kf_xml_label_chars():
    """a label with a character outside the XML Char production (e.g. \\x0b) yields ill-formed XML"""
    from GTC import persistence as P
    ar = _simple_archive(label='a\x0bb')
    b = P.dumps_xml(ar)
    new_context(8)
    try:
        P.loads_xml(b)
    except Exception as ex:
        return True, 'loads_xml raised %s' % type(ex).__name__
    return False, 'read back'

# ------------------------------------------------------------------ oracle search (only after a break / thorough)
def _not_json(name):
    raise ValueError('%s is not a JSON value' % name)

def check_archive(rng_state_seed, ctx, fmt, o):
    """independent restatement: build the archive, write it with options o, validate with the reference
    validator, read back, compare with the content of the objects that were archived"""
    from GTC import persistence as P
    V = validators()
    labels = G.LABELS if fmt == 'json' else (G.XML_INTL_LABELS if rng_state_seed % 2 else G.XML_SAFE_LABELS)
    ar, desc, items = G.build_archive(random.Random(rng_state_seed), ctx, labels=labels)
    orig_obs = observe_objs(items)
    mark_f32(ar, items)
    tags = desc['tags']
    if fmt == 'json':
        try:
            text = P.dumps_json(ar, **G.json_kwargs(o))
        except Exception as ex:
            return {'why': 'dump-raised', 'detail': '%s: %s' % (type(ex).__name__, str(ex)[:150]), 'f32': f32_of(ar), 'written_as': 'json'}
        try:
            doc = json.loads(text, parse_constant=_not_json)
        except ValueError as ex:
            return {'why': 'not-json', 'detail': str(ex)}
        if not V['json'].is_valid(doc):
            return {'why': 'schema', 'errors': [e.message[:200] for e in V['json'].iter_errors(doc)][:3]}
        _, obs = load_json_observed(text, tags, 901)
        if isinstance(obs, str) or obs != orig_obs:
            return {'why': 'reload', 'outcome': str(obs)[:200]}
        return None
    if fmt == 'gen2':
        grid = G.JSON_GRID if o['format'] == 'json' else G.XML_GRID
        return gen2_check(rng_state_seed, ctx, labels if o['format'] == 'xml' else G.LABELS, o['format'], o['cell'],
                          grid[(grid.index(o['cell']) + 1) % len(grid)], o['history'], ar, 902)
    if fmt == 'reserved':
        for r in check_reserved(o['kind'])[0]:
            if not is_known(dict(r, format='reserved')):
                return r
        return None
    if fmt == 'sequence':
        return write_sequence(ar, tags, o['order'], orig_obs, 902, {})
    if fmt == 'prefix':
        for r in prefix_check(ar, tags, orig_obs, o['prefix'], o['expect'], 902):
            f = dict(r, format='xml'); f.setdefault('options', {'prefix': o['prefix']})
            if not is_known(f):
                return dict({k: v for k, v in r.items() if k != 'options'}, format='prefix', cell=r.get('options'))
        return None
    return xml_check_cell(ar, tags, o, orig_obs, 902)

def search(rng, tier, broken):
    n = 60 if tier == 'quick' else 400
    tried = 0
    for i in range(n):
        seed = rng.getrandbits(48); ctx = rng.choice([7, rng.getrandbits(100) + 1])
        pgrid = [{'prefix': q, 'expect': e} for e, l in (('accept', G.GOOD_PREFIXES), ('refuse', G.BAD_PREFIXES), ('either', G.RESERVED_PREFIXES)) for q in l]
        for fmt, grid in (('json', G.JSON_GRID), ('xml', G.XML_GRID), ('sequence', [{'order': q} for q in SEQUENCES]), ('prefix', pgrid),
                          ('gen2', [{'format': ff, 'cell': rng.choice(G.JSON_GRID if ff == 'json' else G.XML_GRID), 'history': hh}
                                    for ff in ('xml', 'json') for hh in HISTORIES]),
                          ('reserved', [{'kind': q} for q in ('real', 'complex', 'interm', 'numeric', 'zero', 'numeric32')])):
            for o in rng.sample(grid, min(6, len(grid))):
                f = {'format': fmt, 'archive_seed': seed, 'ctx': ctx, 'options': o}
                if is_known(f): continue
                tried += 1
                try:
                    r = check_archive(seed, ctx, fmt, o)
                except Exception as ex:
                    r = {'why': 'exception', 'detail': '%s: %s' % (type(ex).__name__, str(ex)[:200])}
                if r is not None:
                    f.update(r)
                    if not is_known(f):
                        return {'tried': tried, 'failing': f}
    return {'tried': tried, 'failing': None}

def replay(payload):
    f = payload.get('failing_input')
    print(json.dumps(payload.get('broken'), indent=1, default=str)[:3000])
    if f:
        try:
            r = check_archive(f['archive_seed'], f['ctx'], f['format'], f['options'])
        except Exception as ex:
            r = {'why': 'exception', 'detail': '%s: %s' % (type(ex).__name__, str(ex)[:200])}
        print('replayed failing input on the implementation:', 'STILL FAILS %r' % (r,) if r else 'passes now')
        return 1 if r else 0
    return 0

(* CKernel.v -- executable model of the uncertain-COMPLEX kernel of GTC (lib.py class
   UncertainComplex, the six assemblers 3801-4244, z_to_seq, std_variance_covariance_complex;
   core.py ucomplex / multiple_ucomplex / constant / result; reporting.sensitivity /
   u_component for complex and mixed arguments) ON TOP of the uncertain-real kernel
   (Kernel.v): an UncertainComplex is a pair of UncertainReal objects, which occupy two slots
   of the real kernel's state, so every real read of Kernel.v works on z.real / z.imag.
   The operator and function bodies are the GENERATED definitions of gen/Gen_lib_complex.v;
   '+' and '-' are component-wise calls of Kernel.apply_bin / apply_un, as in the source.
   Definitions only.  Not modelled: willink_hall beyond elementary arguments (complex dof). *)
From Coq Require Import ZArith List Bool.
From GTCV Require Import Num Vector Opres KTypes Kernel Cplx COpres.
From GTCV.gen Require Import Gen_lib_real Gen_lib_complex.
Import ListNotations.

(* ---------- programs and observations: parametric in the carrier only ---------- *)
Section CKTypes.
  Variable V : Type.
  Inductive cnumv := NR (v : V) | NC (re im : V).          (* a plain Python number *)
  (* the uncertainty argument of core.ucomplex: a float, a 2-sequence, a 4-sequence, or a
     sequence of another length *)
  Inductive uform := UScalar (u : V) | USeq2 (a b : V) | USeq4 (a b c d : V) | USeqBad.
  Inductive cunop := CUf (f : unop) | CUconj.
  Inductive carg := CArgC (i : nat) | CArgR (i : nat) | CArgN (x : cnumv).
  Inductive cattr := CR_x | CR_u | CR_v | CR_r | CR_df.
  (* the r argument of core.set_correlation: a float or a sequence *)
  Inductive rform := RScalar (r : V) | RSeq (l : list V).
  Inductive cop :=
  | CK (o : op V)                                  (* an operation of the real kernel *)
  | CUcomplex (z : cnumv) (u : uform) (df : dfval V) (label : option Z) (indep : bool)
  | CConstant (z : cnumv) (label : option Z)
  | CMultiple (zs : list cnumv) (us : list uform) (df : dfval V)
  | CUn (f : cunop) (a : nat)
  | CBin (f : binop) (a b : carg)
  | CResult (a : nat) (label : option Z)
  | CRead (at_ : cattr) (a : nat)
  | CSens (y x : carg)
  | CUComp (y x : carg)
  | CSetCorr (r : rform) (a : nat) (b : option carg)    (* core.set_correlation(r, z, arg2), z complex *)
  | CGetCorr (cov : bool) (a : nat) (b : option carg).  (* core.get_correlation / get_covariance (z, arg2), z complex *)

  Record cmeta := mkCM {
    cm_im : nat;                                   (* slot of the imaginary component *)
    cm_label : option Z;
    cm_elem : bool;
    cm_u : option (V * V);                         (* the _u, _v, _r caches *)
    cm_v : option (V * V * V * V);
    cm_r : option V }.
  Inductive centry := CObj (m : cmeta) | CAliasOf (i : nat).
  (* a complex object is named by the slot of its real component *)
  (* wacc: the class attributes _EnsembleComponents.sum_sq_u11 / sum_sq_u22 / sum_sq_diag, which
     persist between calls of willink_hall (None = the initial Python None) *)
  Record cstate := mkCS { ks : state V; cobjs : list (nat * centry); wacc : option (V * V * V) }.
End CKTypes.

Arguments NR {V}. Arguments NC {V}. Arguments UScalar {V}. Arguments USeq2 {V}. Arguments USeq4 {V}.
Arguments USeqBad {V}.
Arguments CArgC {V}. Arguments CArgR {V}. Arguments CArgN {V}.
Arguments CK {V}. Arguments CUcomplex {V}. Arguments CConstant {V}. Arguments CMultiple {V}.
Arguments CUn {V}. Arguments CBin {V}. Arguments CResult {V}. Arguments CRead {V}.
Arguments CSens {V}. Arguments CUComp {V}. Arguments CSetCorr {V}. Arguments CGetCorr {V}. Arguments RScalar {V}. Arguments RSeq {V}.
Arguments mkCM {V}. Arguments cm_im {V}. Arguments cm_label {V}. Arguments cm_elem {V}.
Arguments cm_u {V}. Arguments cm_v {V}. Arguments cm_r {V}.
Arguments CObj {V}. Arguments CAliasOf {V}. Arguments mkCS {V}. Arguments ks {V}. Arguments cobjs {V}. Arguments wacc {V}.

Section CKernel.
  Variable C : CNum.
  Notation N := (cN C).
  Notation V := (T N).
  Notation vec := (vec N).
  Notation ureal := (ureal V). Notation state := (state V). Notation slot := (slot V).
  Notation out := (out V). Notation cstate := (cstate V). Notation cmeta := (cmeta V).
  Notation pyn := (pyn C). Notation jac := (jac C).

  Definition cinit (ctx : Z) : cstate := mkCS (init N ctx) [] None.

  Definition to_pyn (x : cnumv V) : pyn :=
    match x with NR v => PR v | NC a b => PC a b end.

  Definition f0 : V := dyad N 0 0.      (* the literal 0.0 *)

  (* ---------- the six assemblers (lib.py 3801-4244) ---------- *)
  (* merge_weighted_vectors_twice(v1,(a,b),v2,(c,d)) = (merge_w v1 a v2 c, merge_w v1 b v2 d);
     scale_vector_twice(v,(a,b)) = (scale v a, scale v b) -- see Vector.v *)
  Definition mk3 (y : V) (f : (ureal -> vec) -> vec) : ureal :=
    new_un N y (f (@uc V)) (f (@dc V)) (f (@ic V)).

  Definition univariate_uc (re im : ureal) (z : pyn) (j : jac) : ureal * ureal :=
    (mk3 (n_real C z) (fun p => merge_w (p re) (j0 C j) (p im) (j1 C j)),
     mk3 (n_imag C z) (fun p => merge_w (p re) (j2 C j) (p im) (j3 C j))).

  Definition bivariate_uc_uc (lr li rr ri : ureal) (z : pyn) (dl dr : jac) : ureal * ureal :=
    (mk3 (n_real C z) (fun p => merge (merge_w (p lr) (j0 C dl) (p li) (j1 C dl))
                                      (merge_w (p rr) (j0 C dr) (p ri) (j1 C dr))),
     mk3 (n_imag C z) (fun p => merge (merge_w (p lr) (j2 C dl) (p li) (j3 C dl))
                                      (merge_w (p rr) (j2 C dr) (p ri) (j3 C dr)))).

  Definition bivariate_uc_ur (lr li r : ureal) (z : pyn) (dl dr : jac) : ureal * ureal :=
    (mk3 (n_real C z) (fun p => merge (merge_w (p lr) (j0 C dl) (p li) (j1 C dl)) (scale (p r) (j0 C dr))),
     mk3 (n_imag C z) (fun p => merge (merge_w (p lr) (j2 C dl) (p li) (j3 C dl)) (scale (p r) (j2 C dr)))).

  Definition bivariate_uc_n (lr li : ureal) (z : pyn) (dl dr : jac) : ureal * ureal :=
    (mk3 (n_real C z) (fun p => merge_w (p lr) (j0 C dl) (p li) (j1 C dl)),
     mk3 (n_imag C z) (fun p => merge_w (p lr) (j2 C dl) (p li) (j3 C dl))).

  Definition bivariate_ur_uc (l rr ri : ureal) (z : pyn) (dl dr : jac) : ureal * ureal :=
    (mk3 (n_real C z) (fun p => merge (scale (p l) (j0 C dl)) (merge_w (p rr) (j0 C dr) (p ri) (j1 C dr))),
     mk3 (n_imag C z) (fun p => merge (scale (p l) (j2 C dl)) (merge_w (p rr) (j2 C dr) (p ri) (j3 C dr)))).

  Definition bivariate_n_uc (rr ri : ureal) (z : pyn) (dl dr : jac) : ureal * ureal :=
    (mk3 (n_real C z) (fun p => merge_w (p rr) (j0 C dr) (p ri) (j1 C dr)),
     mk3 (n_imag C z) (fun p => merge_w (p rr) (j2 C dr) (p ri) (j3 C dr))).

  (* the other operand of a binary operation on a complex [self] *)
  Inductive cother := OthC (re im : ureal) | OthR (o : ureal) | OthN (x : pyn) | OthNone.

  Definition assemble (k : bikind) (sre sim : ureal) (oth : cother) (z : pyn) (dl dr : jac)
    : res (ureal * ureal) :=
    match k, oth with
    | K_uc_uc, OthC ore oim => Ok (bivariate_uc_uc sre sim ore oim z dl dr)
    | K_uc_ur, OthR o => Ok (bivariate_uc_ur sre sim o z dl dr)
    | K_uc_n, OthN _ => Ok (bivariate_uc_n sre sim z dl dr)
    | K_ur_uc, OthR o => Ok (bivariate_ur_uc o sre sim z dl dr)
    | K_n_uc, OthN _ => Ok (bivariate_n_uc sre sim z dl dr)
    | _, _ => Err OtherExn
    end.

  (* ---------- calls into the real kernel made by + - neg pos conjugate ---------- *)
  (* an operand with the slot it lives in, if any *)
  Definition sarg := (option nat * operand N)%type.

  Definition rarg_val (sre sim : nat * ureal) (oth : cother) (othslots : option nat * option nat)
             (a : rarg V) : res sarg :=
    match a with
    | ASelfRe => Ok (Some (fst sre), OpdU (snd sre))
    | ASelfIm => Ok (Some (fst sim), OpdU (snd sim))
    | AOthRe => match oth with OthC ore _ => Ok (fst othslots, OpdU ore) | _ => Err OtherExn end
    | AOthIm => match oth with OthC _ oim => Ok (snd othslots, OpdU oim) | _ => Err OtherExn end
    | AOth => match oth with OthR o => Ok (fst othslots, OpdU o) | _ => Err OtherExn end
    | ANumV v => Ok (None, OpdN v)
    | AConstV v => Ok (None, OpdU (mk_constant N v None))
    end.

  (* a component of a new complex object: a new UncertainReal, or an existing one *)
  Inductive cpart := CNew (o : ureal) | COld (j : nat) (o : ureal).
  Definition comp_obj (c : cpart) : ureal := match c with CNew o => o | COld _ o => o end.

  Definition of_same (a : sarg) : res cpart :=
    match a with
    | (Some j, OpdU o) => Ok (COld j o)
    | (None, OpdU o) => Ok (CNew o)          (* a temporary or a fresh constant *)
    | _ => Err OtherExn
    end.
  Definition sarg_of (c : cpart) : sarg :=
    match c with CNew o => (None, OpdU o) | COld j o => (Some j, OpdU o) end.

  Definition bin_part (f : binop) (x y : sarg) : res cpart :=
    v <- apply_bin N f (snd x) (snd y) ;;
    match v with
    | VObj o => Ok (CNew o)
    | VSame L => (match snd x with OpdU _ => of_same x | OpdN _ => of_same y end)
    | VSame Rt => (match snd y with OpdU _ => of_same y | OpdN _ => of_same x end)
    | _ => Err OtherExn
    end.

  Fixpoint rexp_val (sre sim : nat * ureal) (oth : cother) (othslots : option nat * option nat)
           (e : rexp V) : res cpart :=
    match e with
    | RBin f a b =>
        x <- rarg_val sre sim oth othslots a ;; y <- rarg_val sre sim oth othslots b ;;
        bin_part f x y
    | RUn f a =>
        x <- rarg_val sre sim oth othslots a ;;
        match snd x with
        | OpdU o => v <- apply_un N f o ;;
                    match v with
                    | VObj o' => Ok (CNew o')
                    | VSame _ => of_same x
                    | _ => Err OtherExn
                    end
        | OpdN _ => Err TypeError
        end
    | RNest f e1 b =>
        c <- rexp_val sre sim oth othslots e1 ;; y <- rarg_val sre sim oth othslots b ;;
        bin_part f (sarg_of c) y
    | RArg a => x <- rarg_val sre sim oth othslots a ;; of_same x
    end.

  (* ---------- results of an operation on complex operands ---------- *)
  Inductive cval :=
  | RSelf                          (* the complex operand itself *)
  | RCplx (re im : cpart)           (* UncertainComplex(re, im) *)
  | RReal (v : opval V).           (* an uncertain real / plain number result *)

  (* UncertainComplex.__init__: assert i.is_intermediate == r.is_intermediate *)
  Definition mk_cplx (re im : cpart) : res cval :=
    if Bool.eqb (is_intermediate N (comp_obj re)) (is_intermediate N (comp_obj im))
    then Ok (RCplx re im) else Err AssertionError.

  Definition realize_c (r : cres C) (sre sim : nat * ureal) (oth : cother)
             (othslots : option nat * option nat) : res cval :=
    match r with
    | CSelf => Ok RSelf
    | CNegSelf =>
        re <- rexp_val sre sim oth othslots (RUn U_neg ASelfRe) ;;
        im <- rexp_val sre sim oth othslots (RUn U_neg ASelfIm) ;;
        mk_cplx re im
    | CUni z j => let (re, im) := univariate_uc (snd sre) (snd sim) z j in mk_cplx (CNew re) (CNew im)
    | CBi k z dl dr =>
        '(re, im) <- assemble k (snd sre) (snd sim) oth z dl dr ;; mk_cplx (CNew re) (CNew im)
    | CPair e1 e2 =>
        re <- rexp_val sre sim oth othslots e1 ;;
        im <- rexp_val sre sim oth othslots e2 ;;
        mk_cplx re im
    | CRealMergeW y w1 w2 =>
        let a := snd sre in let b := snd sim in
        Ok (RReal (VObj (mk3 (n_real C y) (fun p => merge_w (p a) (n_real C w1) (p b) (n_real C w2)))))
    | CPhase =>
        v <- apply_bin N B_atan2 (OpdU (snd sim)) (OpdU (snd sre)) ;; Ok (RReal v)
    | CPromL | CPromR => Err OtherExn       (* handled by [promote_pow] *)
    end.

  Definition gc_unop (f : cunop) : cplx C -> pyn -> res (cres C) :=
    match f with
    | CUconj => gc_conjugate C
    | CUf U_exp => gc_exp C | CUf U_log => gc_log C | CUf U_log10 => gc_log10 C
    | CUf U_sqrt => gc_sqrt C | CUf U_sin => gc_sin C | CUf U_cos => gc_cos C
    | CUf U_tan => gc_tan C | CUf U_asin => gc_asin C | CUf U_acos => gc_acos C
    | CUf U_atan => gc_atan C | CUf U_sinh => gc_sinh C | CUf U_cosh => gc_cosh C
    | CUf U_tanh => gc_tanh C | CUf U_asinh => gc_asinh C | CUf U_acosh => gc_acosh C
    | CUf U_atanh => gc_atanh C | CUf U_magnitude => gc_magnitude C
    | CUf U_mag_squared => gc_mag_squared C | CUf U_phase => gc_phase C
    | CUf U_neg => gc_neg C | CUf U_pos => gc_pos C
    end.

  (* self (op) other, self complex: UncertainComplex.__add__ ... __pow__ *)
  Definition gc_bin_uc (f : binop) : res (cplx C -> pyn -> res (cres C)) :=
    match f with
    | B_add => Ok (gc_add_uc C) | B_sub => Ok (gc_sub_uc C) | B_mul => Ok (gc_mul_uc C)
    | B_div => Ok (gc_div_uc C) | B_pow => Ok (gc_pow_uc C) | B_atan2 => Err TypeError
    end.
  Definition gc_bin_ur (f : binop) : res (cplx C -> pyn -> res (cres C)) :=
    match f with
    | B_add => Ok (gc_add_ur C) | B_sub => Ok (gc_sub_ur C) | B_mul => Ok (gc_mul_ur C)
    | B_div => Ok (gc_div_ur C) | B_pow => Ok (gc_pow_ur C) | B_atan2 => Err TypeError
    end.
  Definition gc_bin_n (f : binop) : res (cplx C -> pyn -> res (cres C)) :=
    match f with
    | B_add => Ok (gc_add_n C) | B_sub => Ok (gc_sub_n C) | B_mul => Ok (gc_mul_n C)
    | B_div => Ok (gc_div_n C) | B_pow => Ok (gc_pow_n C) | B_atan2 => Err TypeError
    end.
  (* other (op) self, self complex, other not an UncertainComplex: __radd__ ... __rpow__ *)
  Definition gc_rbin_ur (f : binop) : res (cplx C -> pyn -> res (cres C)) :=
    match f with
    | B_add => Ok (gc_radd_ur C) | B_sub => Ok (gc_rsub_ur C) | B_mul => Ok (gc_rmul_ur C)
    | B_div => Ok (gc_rdiv_ur C) | B_pow => Ok (gc_rpow_ur C) | B_atan2 => Err TypeError
    end.
  Definition gc_rbin_n (f : binop) : res (cplx C -> pyn -> res (cres C)) :=
    match f with
    | B_add => Ok (gc_radd_n C) | B_sub => Ok (gc_rsub_n C) | B_mul => Ok (gc_rmul_n C)
    | B_div => Ok (gc_rdiv_n C) | B_pow => Ok (gc_rpow_n C) | B_atan2 => Err TypeError
    end.

  Definition cvalue (re im : ureal) : cplx C := (ux re, ux im).

  (* one function / unary operator applied to a complex object *)
  Definition capply_un (f : cunop) (sre sim : nat * ureal) : res cval :=
    r <- gc_unop f (cvalue (snd sre) (snd sim)) (PR f0) ;;
    realize_c r sre sim OthNone (None, None).

  (* one binary operator with the complex object [self] on the left (rev = false) or on the
     right (rev = true: Python falls back to the reflected method of the complex operand) *)
  Definition capply_bin (f : binop) (rev : bool) (sre sim : nat * ureal) (oth : cother)
             (othslots : option nat * option nat) : res cval :=
    let sv := cvalue (snd sre) (snd sim) in
    match oth with
    | OthC ore oim =>
        g <- gc_bin_uc f ;; r <- g sv (of_c C (cvalue ore oim)) ;; realize_c r sre sim oth othslots
    | OthR o =>
        g <- (if rev then gc_rbin_ur f else gc_bin_ur f) ;; r <- g sv (PR (ux o)) ;;
        realize_c r sre sim oth othslots
    | OthN x =>
        g <- (if rev then gc_rbin_n f else gc_bin_n f) ;; r <- g sv x ;;
        realize_c r sre sim oth othslots
    | OthNone => Err TypeError
    end.

  (* ---------- uncertain real (op) plain complex number: lib._add ... lib._rpow ---------- *)
  Definition gr_bin (f : binop) (rev : bool) : res (cplx C -> pyn -> res (cres C)) :=
    match f, rev with
    | B_add, false => Ok (gr_add_c C) | B_add, true => Ok (gr_radd_c C)
    | B_sub, false => Ok (gr_sub_c C) | B_sub, true => Ok (gr_rsub_c C)
    | B_mul, false => Ok (gr_mul_c C) | B_mul, true => Ok (gr_rmul_c C)
    | B_div, false => Ok (gr_div_c C) | B_div, true => Ok (gr_rdiv_c C)
    | B_pow, false => Ok (gr_pow_c C) | B_pow, true => Ok (gr_rpow_c C)
    | B_atan2, _ => Err TypeError
    end.

  (* x + 0j (lib._add with rhs = 0j) : the temporary UncertainComplex the ** fall-backs build *)
  Definition promote (x : nat * ureal) : res (cpart * cpart) :=
    r <- gr_add_c C (ux (snd x), f0) (PC f0 f0) ;;
    v <- realize_c r x x (OthR (snd x)) (Some (fst x), None) ;;
    match v with RCplx re im => Ok (re, im) | _ => Err OtherExn end.

  (* T ** other / other ** T for the promoted temporary T: UncertainComplex.__pow__ / __rpow__;
     `return self` is then the temporary itself *)
  Definition promote_pow (rev : bool) (x : nat * ureal) (oth : cother) (othslots : option nat * option nat)
    : res cval :=
    '(re, im) <- promote x ;;
    v <- capply_bin B_pow rev (O, comp_obj re) (O, comp_obj im) oth othslots ;;
    match v with
    | RSelf => mk_cplx re im
    | _ => Ok v
    end.

  (* x (op) c, c (op) x for an uncertain real x and a plain COMPLEX number c *)
  Definition rapply_bin_c (f : binop) (rev : bool) (x : nat * ureal) (c : pyn) : res cval :=
    g <- gr_bin f rev ;; r <- g (ux (snd x), f0) c ;;
    match r with
    | CPromL => promote_pow false x (OthN c) (None, None)
    | CPromR => promote_pow true x (OthN c) (None, None)
    | _ => realize_c r x x (OthR (snd x)) (Some (fst x), None)
    end.

  (* ---------- state access ---------- *)
  Fixpoint nassoc {A} (l : list (nat * A)) (i : nat) : option A :=
    match l with
    | [] => None
    | (j, a) :: l' => if Nat.eqb i j then Some a else nassoc l' i
    end.
  Fixpoint nassoc_set {A} (l : list (nat * A)) (i : nat) (a : A) : list (nat * A) :=
    match l with
    | [] => [(i, a)]
    | (j, b) :: l' => if Nat.eqb i j then (i, a) :: l' else (j, b) :: nassoc_set l' i a
    end.

  Fixpoint cresolve (fuel : nat) (l : list (nat * centry V)) (i : nat) : nat :=
    match fuel with
    | O => i
    | S f => match nassoc l i with
             | Some (CAliasOf j) => cresolve f l j
             | _ => i
             end
    end.

  (* (canonical name, meta, (slot, real component), (slot, imaginary component)) *)
  Definition get_cplx (s : cstate) (i : nat)
    : res (nat * cmeta * (nat * ureal) * (nat * ureal)) :=
    let j := cresolve (length (cobjs s)) (cobjs s) i in
    match nassoc (cobjs s) j with
    | Some (CObj m) =>
        '(jr, ore, _) <- get_real N (ks s) j ;;
        '(ji, oim, _) <- get_real N (ks s) (cm_im m) ;;
        Ok (j, m, (jr, ore), (ji, oim))
    | _ => Err TypeError
    end.

  Definition nslots (s : cstate) : nat := length (s_slots (ks s)).
  Definition kpush (s : cstate) (sl : slot) : cstate := mkCS (push N (ks s) sl) (cobjs s) (wacc s).
  Definition with_ks (s : cstate) (k : state) : cstate := mkCS k (cobjs s) (wacc s).
  Definition with_acc (s : cstate) (a : option (V * V * V)) : cstate := mkCS (ks s) (cobjs s) a.
  Definition set_meta (s : cstate) (j : nat) (m : cmeta) : cstate :=
    mkCS (ks s) (nassoc_set (cobjs s) j (CObj m)) (wacc s).

  Definition cfail1 (s : cstate) (e : exn) : cstate * out := (kpush s SErr, OutExn e).
  Definition cfail2 (s : cstate) (e : exn) : cstate * out := (kpush (kpush s SErr) SErr, OutExn e).

  Definition comp_slot (c : cpart) : slot * out :=
    match c with
    | CNew o => (SReal o None, dump N o)
    | COld j _ => (SAlias j, OutSame j)
    end.

  (* a new complex object: two slots and an entry *)
  Definition push_cplx (s : cstate) (re im : cpart) (label : option Z) (elem : bool) : cstate * out :=
    let i := nslots s in
    let (sr, outr) := comp_slot re in
    let (si, outi) := comp_slot im in
    (mkCS (push N (push N (ks s) sr) si)
          (cobjs s ++ [(i, CObj (mkCM (S i) label elem None None None))]) (wacc s),
     OutList [outr; outi]).

  Definition is_elem_c (re im : cpart) : bool :=
    is_elementary N (comp_obj re) || is_elementary N (comp_obj im).

  (* finish an operation whose result is complex (always two slots) *)
  Definition finish_cplx (s : cstate) (v : res cval) (self : nat * cmeta * (nat * ureal) * (nat * ureal))
    : cstate * out :=
    match v with
    | Err e => cfail2 s e
    | Ok RSelf =>
        let '(j, _, (jr, _), (ji, _)) := self in
        let i := nslots s in
        (mkCS (push N (push N (ks s) (SAlias jr)) (SAlias ji)) (cobjs s ++ [(i, CAliasOf j)]) (wacc s),
         OutSame j)
    | Ok (RCplx re im) => push_cplx s re im None (is_elem_c re im)
    | Ok (RReal _) => cfail2 s OtherExn
    end.

  (* an operation on uncertain-real / plain operands that may promote to complex: always two
     slots (a real result is followed by an empty slot) *)
  Definition finish_any (s : cstate) (v : res cval) (ia ib : nat) : cstate * out :=
    match v with
    | Err e => cfail2 s e
    | Ok (RCplx re im) => push_cplx s re im None (is_elem_c re im)
    | Ok (RReal (VObj o)) => (kpush (kpush s (SReal o None)) SErr, dump N o)
    | Ok (RReal (VSame L)) => (kpush (kpush s (SAlias ia)) SErr, OutSame ia)
    | Ok (RReal (VSame Rt)) => (kpush (kpush s (SAlias ib)) SErr, OutSame ib)
    | Ok (RReal (VPlain x)) => (kpush (kpush s (SNum x)) SErr, OutVal x)
    | Ok _ => cfail2 s OtherExn
    end.

  Definition finish_real (s : cstate) (v : res cval) : cstate * out :=
    match v with
    | Ok (RReal (VObj o)) => (kpush s (SReal o None), dump N o)
    | Ok (RReal (VPlain x)) => (kpush s (SNum x), OutVal x)
    | Ok _ => cfail1 s OtherExn
    | Err e => cfail1 s e
    end.

  (* ---------- declarations ---------- *)
  Definition upd_leaf (s : state) (k : key) (f : leaf V -> leaf V) : state :=
    match assoc (s_leaves s) k with
    | Some l => set_leaves N s (assoc_set (s_leaves s) k (f l))
    | None => s
    end.

  Definition sub_label (label : option Z) (im : bool) : option Z :=
    match label with
    | Some l => Some (if im then 2 * l + 1 else 2 * l)%Z
    | None => None
    end.

  (* UncertainComplex._elementary.  (Both UncertainReal._elementary calls see arguments that
     core.ucomplex has validated already, so the second cannot fail after the first.) *)
  Definition celementary (s : state) (zr zi u_r u_i : V) (r : option V) (df : dfval V)
             (label : option Z) (indep : bool) : res (state * ureal * ureal) :=
    '(s1, re) <- elementary N s zr u_r df (sub_label label false) indep ;;
    '(s2, im) <- elementary N s1 zi u_i df (sub_label label true) indep ;;
    match unode re, unode im with
    | LeafRef kr, LeafRef ki =>
        let setc := fun l : leaf V => mkLeaf (l_u l) (l_df l) (l_indep l) (l_corr l) (l_ens l)
                                           (Some (kr, ki)) (l_label l) in
        let s3 := upd_leaf (upd_leaf s2 kr setc) ki setc in
        match r with
        | None => Ok (s3, re, im)
        | Some rv =>
            if indep then Err AttributeError       (* an independent Leaf has no correlation dict *)
            else
              let addc := fun (k : key) (l : leaf V) =>
                            mkLeaf (l_u l) (l_df l) (l_indep l) (assoc_set (l_corr l) k rv) (l_ens l)
                                   (l_cplx l) (l_label l) in
              Ok (upd_leaf (upd_leaf s3 kr (addc ki)) ki (addc kr), re, im)
        end
    | _, _ => Err OtherExn
    end.

  Definition df_bad (df : dfval V) : bool :=
    match df with DFin d => ltb N d (of_Z N 1) || is_nan N d | DNaN => true | DInf => false end.

  (* 1 + 1E-10 *)
  Definition one_plus_tol : V := dyad N 562949953477607 (-49).

  (* core.ucomplex; the result is a constant (no state change) or an elementary pair *)
  Inductive cdecl := DConst (z : cplx C) | DElem (re im : ureal).

  Definition ucomplex_decl (s : state) (z : pyn) (u : uform V) (df : dfval V) (label : option Z)
             (indep : bool) : res (state * cdecl) :=
    let (zr, zi) := widen C z in
    if is_nan N zr || is_nan N zi || is_inf N zr || is_inf N zi then Err ValueError
    else if df_bad df then Err ValueError
    else
      '(u_r, u_i, r, indep') <-
        (match u with
         | USeq2 a b => Ok (a, b, None, indep)
         | USeq4 vr cv1 cv2 vi =>
             if is_inf N cv1 || negb (eqb N cv1 cv2) then Err ValueError
             else
               u_r <- libm1 N F_sqrt vr ;; u_i <- libm1 N F_sqrt vi ;;
               r <- (if negb (eqb N cv1 (of_Z N 0)) then q <- div N cv1 (mul N u_r u_i) ;; Ok (Some q)
                     else Ok None) ;;
               match r with
               | Some rv => if ltb N one_plus_tol (nabs N rv) then Err ValueError
                            else Ok (u_r, u_i, r, false)
               | None => Ok (u_r, u_i, r, indep)
               end
         | USeqBad => Err ValueError
         | UScalar uv => if negb (is_inf N uv) && negb (is_nan N uv) then Ok (uv, uv, None, indep)
                         else Err TypeError
         end) ;;
      if negb (leb N (of_Z N 0) u_r && negb (is_inf N u_r) && negb (is_nan N u_r)) then Err ValueError
      else if negb (leb N (of_Z N 0) u_i && negb (is_inf N u_i) && negb (is_nan N u_i)) then Err ValueError
      else if eqb N u_r (of_Z N 0) && eqb N u_i (of_Z N 0) then Ok (s, DConst (zr, zi))
      else '(s', re, im) <- celementary s zr zi u_r u_i r df label indep' ;; Ok (s', DElem re im).

  Definition const_pair (z : cplx C) (label : option Z) : ureal * ureal :=
    (mk_constant N (fst z) (sub_label label false), mk_constant N (snd z) (sub_label label true)).

  Definition push_decl (s : cstate) (d : cdecl) (label : option Z) : cstate * out :=
    match d with
    | DConst z => let (re, im) := const_pair z label in push_cplx s (CNew re) (CNew im) label false
    | DElem re im => push_cplx s (CNew re) (CNew im) label true
    end.

  (* get_covariance_real of the two components of an elementary pair (distinct leaves) *)
  Definition wh_elementary (s : state) (re im : ureal) : res (V * V * V * V) :=
    '(vr, _) <- prop_v N s re None ;; '(vi, _) <- prop_v N s im None ;;
    cv <- get_covariance_real N s re im ;;
    Ok (vr, cv, cv, vi).

  (* ---------- reads ---------- *)
  Definition out4 (a b c d : V) : out := OutList [OutVal a; OutVal b; OutVal c; OutVal d].

  Definition cread_u (s : cstate) (a : nat) : cstate * out :=
    match get_cplx s a with
    | Err e => cfail1 s e
    | Ok (j, m, (jr, ore), (ji, oim)) =>
        match cm_u m with
        | Some (ur, ui) => (kpush s SErr, OutList [OutVal ur; OutVal ui])
        | None =>
            match get_real N (ks s) jr with
            | Err e => cfail1 s e
            | Ok (_, _, cr) =>
                match prop_u N (ks s) ore cr with
                | Err e => cfail1 s e
                | Ok (ur, cr') =>
                    let k1 := set_cache N (ks s) jr ore cr' in
                    match get_real N k1 ji with
                    | Err e => cfail1 (with_ks s k1) e
                    | Ok (_, _, ci) =>
                        match prop_u N k1 oim ci with
                        | Err e => cfail1 (with_ks s k1) e
                        | Ok (ui, ci') =>
                            let k2 := set_cache N k1 ji oim ci' in
                            let m' := mkCM (cm_im m) (cm_label m) (cm_elem m) (Some (ur, ui)) (cm_v m) (cm_r m) in
                            (kpush (set_meta (with_ks s k2) j m') SErr, OutList [OutVal ur; OutVal ui])
                        end
                    end
                end
            end
        end
    end.

  (* the v property: returns the new state (caches filled) and the matrix *)
  Definition cprop_v (s : cstate) (a : nat) : cstate * res (V * V * V * V) :=
    match get_cplx s a with
    | Err e => (s, Err e)
    | Ok (j, m, (jr, ore), (ji, oim)) =>
        match cm_v m with
        | Some v => (s, Ok v)
        | None =>
            match get_real N (ks s) jr with
            | Err e => (s, Err e)
            | Ok (_, _, cr) =>
                match prop_v N (ks s) ore cr with
                | Err e => (s, Err e)
                | Ok (vr, cr') =>
                    let k1 := set_cache N (ks s) jr ore cr' in
                    match get_real N k1 ji with
                    | Err e => (with_ks s k1, Err e)
                    | Ok (_, _, ci) =>
                        match prop_v N k1 oim ci with
                        | Err e => (with_ks s k1, Err e)
                        | Ok (vi, ci') =>
                            let k2 := set_cache N k1 ji oim ci' in
                            match std_covariance_real N k2 ore oim with
                            | Err e => (with_ks s k2, Err e)
                            | Ok cv =>
                                let v := (vr, cv, cv, vi) in
                                let m' := mkCM (cm_im m) (cm_label m) (cm_elem m) (cm_u m) (Some v) (cm_r m) in
                                (set_meta (with_ks s k2) j m', Ok v)
                            end
                        end
                    end
                end
            end
        end
    end.

  Definition cread_r (s : cstate) (a : nat) : cstate * out :=
    match get_cplx s a with
    | Err e => cfail1 s e
    | Ok (j, m, _, _) =>
        match cm_r m with
        | Some r => (kpush s SErr, OutVal r)
        | None =>
            match cprop_v s a with
            | (s1, Err e) => cfail1 s1 e
            | (s1, Ok (vrr, vri, _, vii)) =>
                let rr := (if negb (eqb N vri f0) then
                             sq <- libm1 N F_sqrt (mul N vrr vii) ;; div N vri sq
                           else Ok f0) in
                match rr, get_cplx s1 a with
                | Ok r, Ok (_, m1, _, _) =>
                    let m' := mkCM (cm_im m1) (cm_label m1) (cm_elem m1) (cm_u m1) (cm_v m1) (Some r) in
                    (kpush (set_meta s1 j m') SErr, OutVal r)
                | Err e, _ => cfail1 s1 e
                | _, Err e => cfail1 s1 e
                end
            end
        end
    end.

  (* ---------- sensitivity and u_component with complex / mixed arguments ---------- *)
  Definition both_elem_or_interm (xre xim : ureal) : bool :=
    (is_elementary N xre && is_elementary N xim) || (is_intermediate N xre && is_intermediate N xim).

  Inductive sres := SOk (a b c d : V) | SFail (e : exn) | SFailRepr (e : exn) (i : nat).

  (* UncertainComplex.sensitivity / u_component (self = y complex) *)
  Definition csens_cy (which : bool) (s : state) (yre yim : ureal) (x : carg V) (xs : cstate) : sres :=
    let f := if which then sensitivity N s else u_component N s in
    match x with
    | CArgC i =>
        match get_cplx xs i with
        | Err e => SFail e
        | Ok (_, _, (_, xre), (_, xim)) =>
            if both_elem_or_interm xre xim then
              match f yre xre, f yre xim, f yim xre, f yim xim with
              | Ok a, Ok b, Ok c, Ok d => SOk a b c d
              | Err e, _, _, _ => SFail e
              | _, Err e, _, _ => SFail e
              | _, _, Err e, _ => SFail e
              | _, _, _, Err e => SFail e
              end
            else if is_constant N xre && is_constant N xim then SOk f0 f0 f0 f0
            else SFail NotImplementedError     (* RuntimeError after repr(x): complex dof, not modelled *)
        end
    | CArgR i =>
        match get_real N s i with
        | Err e => SFail e
        | Ok (_, x', _) =>
            if is_elementary N x' || is_intermediate N x' then
              match f yre x', f yim x' with
              | Ok a, Ok c => SOk a f0 c f0
              | Err e, _ => SFail e
              | _, Err e => SFail e
              end
            else if is_constant N x' then SOk f0 f0 f0 f0
            else SFailRepr TypeError i
        end
    | CArgN _ => SOk f0 f0 f0 f0
    end.

  (* UncertainReal.sensitivity(x) with x complex *)
  Definition csens_ry (s : state) (y xre xim : ureal) (ire iim : nat) : sres :=
    match sensitivity N s y xre with
    | Err RuntimeError => SFailRepr RuntimeError ire
    | Err e => SFail e
    | Ok a =>
        match sensitivity N s y xim with
        | Err RuntimeError => SFailRepr RuntimeError iim
        | Err e => SFail e
        | Ok b => SOk a b f0 f0
        end
    end.

  (* UncertainReal.u_component(x) with x complex *)
  Definition cucomp_ry (s : state) (y xre xim : ureal) : sres :=
    let one := fun xi : ureal =>
      match unode xi with
      | LeafRef _ | NodeRef _ => u_component N s y xi
      | _ => if is_constant N xre && is_constant N xim then Ok (of_Z N 0)
             else Err NotImplementedError  (* TypeError after repr(x): complex dof, not modelled *)
      end in
    match one xre with
    | Err e => SFail e
    | Ok a => match one xim with
              | Err e => SFail e
              | Ok b => SOk a b f0 f0
              end
    end.

  Definition finish_sres (s : cstate) (r : sres) : cstate * out :=
    match r with
    | SOk a b c d => (kpush s SErr, out4 a b c d)
    | SFail e => cfail1 s e
    | SFailRepr e i =>
        match repr_effect N (ks s) i with
        | (k1, None) => cfail1 (with_ks s k1) e
        | (k1, Some e') => cfail1 (with_ks s k1) e'
        end
    end.

  Definition csens_step (which : bool) (s : cstate) (y x : carg V) : cstate * out :=
    match y with
    | CArgC iy =>
        match get_cplx s iy with
        | Err e => cfail1 s e
        | Ok (_, _, (_, yre), (_, yim)) => finish_sres s (csens_cy which (ks s) yre yim x s)
        end
    | CArgR iy =>
        match get_real N (ks s) iy with
        | Err e => cfail1 s e
        | Ok (_, y', _) =>
            match x with
            | CArgC ix =>
                match get_cplx s ix with
                | Err e => cfail1 s e
                | Ok (_, m, (jr, xre), (ji, xim)) =>
                    finish_sres s (if which then csens_ry (ks s) y' xre xim jr ji
                                   else cucomp_ry (ks s) y' xre xim)
                end
            | CArgR ix =>
                let (k1, o) := step N (ks s) (if which then OpSens iy ix else OpUComp iy ix) in
                (with_ks s k1, o)
            | CArgN (NR _) => (kpush s SErr, OutVal f0)
            | CArgN (NC _ _) => (kpush s SErr, out4 f0 f0 f0 f0)
            end
        end
    | CArgN _ => cfail1 s RuntimeError
    end.

  (* ---------- willink_hall (lib.py 4267-4653) ---------- *)
  Definition acc3 := option (V * V * V).        (* sum_sq_u11, sum_sq_u22, sum_sq_diag *)
  Definition pow2 (x : V) : res V := libm2 N F_pow x (of_Z N 2).
  Definition two_f : V := dyad N 2 0.

  (* x / nu for a degrees-of-freedom value (x / inf = x * 0.0 bit for bit) *)
  Definition div_nu (x : V) (nu : dfval V) : res V :=
    match nu with
    | DInf => Ok (mul N x f0)
    | DFin v => div N x v
    | DNaN => Err OtherExn
    end.

  (* the three `+=` of _EnsembleComponents.accumulate / of the independent loop, in source order;
     a failure part-way leaves the earlier updates in place *)
  Definition acc_add (a : acc3) (v11 v12 v22 : V) (nu : dfval V) : acc3 * option exn :=
    match a with
    | None => (a, Some TypeError)                 (* None += float *)
    | Some (s11, s22, sd) =>
        match div_nu (mul N v11 v11) nu with
        | Err e => (a, Some e)
        | Ok q1 =>
            let a1 := Some (add N s11 q1, s22, sd) in
            match div_nu (mul N v22 v22) nu with
            | Err e => (a1, Some e)
            | Ok q2 =>
                let a2 := Some (add N s11 q1, add N s22 q2, sd) in
                match (p <- pow2 v12 ;; div_nu (add N (mul N v11 v22) p) nu) with
                | Err e => (a2, Some e)
                | Ok q3 => (Some (add N s11 q1, add N s22 q2, add N sd q3), None)
                end
            end
        end
    end.

  (* _covariance_submatrix(u_re, u_im): (v_rr, v_ri, v_ii) *)
  Fixpoint covsub_loop (k : state) (all_im : vec) (cur_re cur_im : vec) (a : V * V * V) : res (V * V * V) :=
    match cur_re, cur_im with
    | [], [] => Ok a
    | (kx, xre) :: tre, (kx', xim) :: tim =>
        let '(vrr, vri, vii) := a in
        l <- leaf_of N k kx ;;
        p1 <- pow2 xre ;; p2 <- pow2 xim ;;
        let vrr := add N vrr p1 in let vii := add N vii p2 in let vri := add N vri (mul N xre xim) in
        f1 <- fsum N (map (fun kv => mul N (mul N (mul N two_f xre) (snd kv)) (corr_get N l (fst kv))) tre) ;;
        let vrr := add N vrr f1 in
        f2 <- fsum N (map (fun kv => mul N (mul N (mul N two_f xim) (snd kv)) (corr_get N l (fst kv))) tim) ;;
        let vii := add N vii f2 in
        f3 <- fsum N (map (fun kv => mul N (mul N xre (snd kv)) (corr_get N l (fst kv)))
                          (filter (fun kv => negb (keqb (fst kv) kx)) all_im)) ;;
        covsub_loop k all_im tre tim (vrr, add N vri f3, vii)
    | _, _ => Err AssertionError                  (* assert u_re.keys() == u_im.keys() *)
    end.
  Definition covariance_submatrix (k : state) (ure uim : vec) : res (V * V * V) :=
    if klist_eqb (keys ure) (keys uim) then covsub_loop k uim ure uim (f0, f0, f0) else Err AssertionError.

  Record ecomp := mkEC { ec_re : vec; ec_im : vec; ec_nu : dfval V }.
  Definition ereg := list (list key * ecomp).
  Fixpoint ereg_get (r : ereg) (e : list key) : option ecomp :=
    match r with [] => None | (e', c) :: r' => if klist_eqb e e' then Some c else ereg_get r' e end.
  Fixpoint ereg_set (r : ereg) (e : list key) (c : ecomp) : ereg :=
    match r with
    | [] => [(e, c)]
    | (e', c') :: r' => if klist_eqb e e' then (e', c) :: r' else (e', c') :: ereg_set r' e c
    end.

  (* Vector.append: assert self._index[-1].uid < i.uid *)
  Definition vappend (v : vec) (kx : key) (x : V) : res vec :=
    match last (map (fun kv => Some (fst kv)) v) None with
    | Some k' => match kcmp k' kx with Lt => Ok (v ++ [(kx, x)]) | _ => Err AssertionError end
    | None => Ok [(kx, x)]
    end.

  Definition accumulate (k : state) (a : acc3) (c : ecomp) : acc3 * option exn :=
    match covariance_submatrix k (ec_re c) (ec_im c) with
    | Err e => (a, Some e)
    | Ok (v11, v12, v22) => acc_add a v11 v12 v22 (ec_nu c)
    end.

  (* the check over the later dependent influences j of a complex influence i *)
  Fixpoint wh_check (k : state) (inf_i : bool) (ens_i : list key) (li lim : leaf V) (rest : vec) : res unit :=
    match rest with
    | [] => Ok tt
    | (kj, _) :: rest' =>
        lj <- leaf_of N k kj ;;
        if inf_i && df_is_inf N (l_df lj) then wh_check k inf_i ens_i li lim rest'
        else if negb (kmem kj ens_i) &&
                ((match assoc (l_corr li) kj with Some _ => true | None => false end) ||
                 (match assoc (l_corr lim) kj with Some _ => true | None => false end))
             then Err AssertionError
        else wh_check k inf_i ens_i li lim rest'
    end.

  (* the loop over the dependent influences; [ids] = the ids still to visit (re_d restricted),
     threaded state: accumulators, ensemble registry, skip flag *)
  Fixpoint wh_dep (k : state) (red imd : vec) (ids : vec) (skip : bool) (reg : ereg) (a : acc3)
    : acc3 * res ereg :=
    match ids with
    | [] => (a, Ok reg)
    | (kre, _) :: rest =>
        if skip then wh_dep k red imd rest false reg a
        else
          match leaf_of N k kre with
          | Err e => (a, Err e)
          | Ok li =>
              let nu := l_df li in
              let inf_i := df_is_inf N nu in
              let ens_i := ens_of N k li in
              let reg1 := match ens_i with
                          | [] => reg
                          | _ => match ereg_get reg ens_i with Some _ => reg | None => reg ++ [(ens_i, mkEC [] [] nu)] end
                          end in
              let c0 := match ereg_get reg1 ens_i with Some c => c | None => mkEC [] [] nu end in
              let getv := fun (v : vec) (kx : key) =>
                            match get v kx with Some x => Ok x | None => Err (ValueError) end in
              let upd := (match l_cplx li with
                          | Some _ =>
                              match rest with
                              | [] => Err IndexError                  (* ids_d[i_re + 1] *)
                              | (kim, _) :: rest2 =>
                                  lim <- leaf_of N k kim ;;
                                  _ <- wh_check k inf_i ens_i li lim rest2 ;;
                                  if inf_i then Ok (c0, true)
                                  else
                                    x1 <- getv red kre ;; r1 <- vappend (ec_re c0) kre x1 ;;
                                    x2 <- getv red kim ;; r2 <- vappend r1 kim x2 ;;
                                    y1 <- getv imd kre ;; i1 <- vappend (ec_im c0) kre y1 ;;
                                    y2 <- getv imd kim ;; i2 <- vappend i1 kim y2 ;;
                                    Ok (mkEC r2 i2 (ec_nu c0), true)
                              end
                          | None =>
                              if negb inf_i && (match rest with [] => false | _ => true end) then Err AssertionError
                              else if inf_i then Ok (c0, false)
                              else
                                x1 <- getv red kre ;; r1 <- vappend (ec_re c0) kre x1 ;;
                                y1 <- getv imd kre ;; i1 <- vappend (ec_im c0) kre y1 ;;
                                Ok (mkEC r1 i1 (ec_nu c0), false)
                          end) in
              match upd with
              | Err e => (a, Err e)
              | Ok (c1, skip') =>
                  match ens_i with
                  | [] =>
                      match accumulate k a c1 with
                      | (a', Some e) => (a', Err e)
                      | (a', None) => wh_dep k red imd rest skip' reg1 a'
                      end
                  | _ => wh_dep k red imd rest skip' (ereg_set reg1 ens_i c1) a
                  end
              end
          end
    end.

  Fixpoint wh_finish (k : state) (cs : list ecomp) (a : acc3) : acc3 * option exn :=
    match cs with
    | [] => (a, None)
    | c :: cs' => match accumulate k a c with
                  | (a', Some e) => (a', Some e)
                  | (a', None) => wh_finish k cs' a'
                  end
    end.

  Fixpoint wh_indep (k : state) (reu imu : vec) (a : acc3) : acc3 * option exn :=
    match reu, imu with
    | (kx, xr) :: tr, (_, xi) :: ti =>
        match leaf_of N k kx with
        | Err e => (a, Some e)
        | Ok l =>
            match l_df l with
            | DInf => wh_indep k tr ti a
            | nu =>
                match (v11 <- pow2 xr ;; v22 <- pow2 xi ;; Ok (v11, v22)) with
                | Err e => (a, Some e)
                | Ok (v11, v22) =>
                    match acc_add a v11 (mul N xr xi) v22 nu with
                    | (a', Some e) => (a', Some e)
                    | (a', None) => wh_indep k tr ti a'
                    end
                end
            end
        end
    | _, _ => (a, None)
    end.

  (* std_variance_covariance_complex(x): re.v, im.v (which fill the _u caches of the component
     reals) and std_covariance_real *)
  Definition svcc (k : state) (jr ji : nat) : state * res (V * V * V * V) :=
    match get_real N k jr with
    | Err e => (k, Err e)
    | Ok (_, ore, cr) =>
        match prop_v N k ore cr with
        | Err e => (k, Err e)
        | Ok (vr, cr') =>
            let k1 := set_cache N k jr ore cr' in
            match get_real N k1 ji with
            | Err e => (k1, Err e)
            | Ok (_, oim, ci) =>
                match prop_v N k1 oim ci with
                | Err e => (k1, Err e)
                | Ok (vi, ci') =>
                    let k2 := set_cache N k1 ji oim ci' in
                    match std_covariance_real N k2 ore oim with
                    | Err e => (k2, Err e)
                    | Ok cv => (k2, Ok (vr, cv, cv, vi))
                    end
                end
            end
        end
    end.

  Definition all_inf_keys (k : state) (v : vec) : res bool := all_inf N k v.

  Definition to_dfval (d : V) : dfval V :=
    if is_nan N d then DNaN else if is_inf N d then DInf else DFin d.

  (* willink_hall(x) for the complex object with component slots jr, ji; returns the new
     kernel state (caches), the accumulators as the call leaves them, and (cv, df) *)
  Definition willink_hall (k : state) (a : acc3) (jr ji : nat) (ore oim : ureal)
    : state * acc3 * res (V * V * V * V * dfval V) :=
    if is_constant N ore && is_constant N oim then (k, a, Ok (f0, f0, f0, f0, DInf))
    else if (is_elementary N ore && is_elementary N oim)
            || (is_elementary N ore && is_constant N oim)
            || (is_elementary N oim && is_constant N ore) then
      (k, a,
       vr <- (if is_elementary N ore then '(v, _) <- prop_v N k ore None ;; Ok v else Ok f0) ;;
       vi <- (if is_elementary N oim then '(v, _) <- prop_v N k oim None ;; Ok v else Ok f0) ;;
       cv <- (if is_elementary N ore && is_elementary N oim then get_covariance_real N k ore oim else Ok f0) ;;
       '(d, _) <- prop_df N k (if is_elementary N ore then ore else oim) None ;;
       Ok (vr, cv, cv, vi, d))
    else
      let reu := extend (uc ore) (uc oim) in let imu := extend (uc oim) (uc ore) in
      let red := extend (dc ore) (dc oim) in let imd := extend (dc oim) (dc ore) in
      match all_inf N k reu, all_inf N k red with
      | Err e, _ => (k, a, Err e)
      | _, Err e => (k, a, Err e)
      | Ok iu, Ok id =>
          if iu && id then
            match svcc k jr ji with
            | (k1, Ok v) => (k1, a, Ok (v, DInf))
            | (k1, Err e) => (k1, a, Err e)
            end
          else
            let a0 : acc3 := Some (f0, f0, f0) in                 (* _EnsembleComponents.clear() *)
            match wh_indep k reu imu a0 with
            | (a1, Some e) => (k, a1, Err e)
            | (a1, None) =>
                match wh_dep k red imd red false [] a1 with
                | (a2, Err e) => (k, a2, Err e)
                | (a2, Ok reg) =>
                    match wh_finish k (map snd reg) a2 with
                    | (a3, Some e) => (k, a3, Err e)
                    | (a3, None) =>
                        match svcc k jr ji with
                        | (k1, Err e) => (k1, a3, Err e)
                        | (k1, Ok (s11, s12, s21, s22)) =>
                            if eqb N s11 f0 && eqb N s12 f0 && eqb N s22 f0 then (k1, a3, Ok (s11, s12, s21, s22, DNaN))
                            else
                              (k1, a3,
                               match a3 with
                               | None => Err TypeError
                               | Some (q11, q22, qd) =>
                                   p <- pow2 (add N s11 s22) ;; u2 <- div N p (dyad N 4 0) ;;
                                   A <- div N (mul N (mul N two_f s11) s11) u2 ;;
                                   D <- div N (add N (mul N s11 s22) (mul N s12 s12)) u2 ;;
                                   F <- div N (mul N (mul N two_f s22) s22) u2 ;;
                                   a' <- div N (mul N two_f q11) u2 ;;
                                   d' <- div N qd u2 ;;
                                   f' <- div N (mul N two_f q22) u2 ;;
                                   let num := add N (add N A D) F in
                                   let den := add N (add N a' d') f' in
                                   match div N num den with
                                   | Ok d => Ok (s11, s12, s21, s22, to_dfval d)
                                   | Err ZeroDivisionError => Ok (s11, s12, s21, s22, DInf)
                                   | Err e => Err e
                                   end
                               end)
                        end
                    end
                end
            end
      end.

  (* the df property of an UncertainComplex: willink_hall, then _v is set if absent *)
  Definition cread_df (s : cstate) (a : nat) : cstate * out :=
    match get_cplx s a with
    | Err e => cfail1 s e
    | Ok (j, m, (jr, ore), (ji, oim)) =>
        match willink_hall (ks s) (wacc s) jr ji ore oim with
        | (k1, a1, Err e) => cfail1 (with_acc (with_ks s k1) a1) e
        | (k1, a1, Ok (v11, v12, v21, v22, d)) =>
            let s1 := with_acc (with_ks s k1) a1 in
            let s2 := match cm_v m with
                      | Some _ => s1
                      | None => set_meta s1 j (mkCM (cm_im m) (cm_label m) (cm_elem m) (cm_u m)
                                                    (Some (v11, v12, v21, v22)) (cm_r m))
                      end in
            (kpush s2 SErr, OutDof d)
        end
    end.

  (* ---------- UncertainComplex.set_correlation (lib.py 2737-2792) ---------- *)
  (* one set_correlation_real(x1, x2, r) on the objects in slots ia, ib; the TypeError message
     formats both arguments with repr() *)
  Definition scr (k : state) (r : V) (ia ib : nat) : state * option exn :=
    match get_real N k ia, get_real N k ib with
    | Ok (_, oa, _), Ok (_, ob, _) =>
        match set_correlation_real N k r oa ob with
        | Ok k' => (k', None)
        | Err TypeError =>
            match repr_effect N k ia with
            | (k1, Some e) => (k1, Some e)
            | (k1, None) =>
                match repr_effect N k1 ib with
                | (k2, Some e) => (k2, Some e)
                | (k2, None) => (k2, Some TypeError)
                end
            end
        | Err e => (k, Some e)
        end
    | Err e, _ => (k, Some e)
    | _, Err e => (k, Some e)
    end.

  Fixpoint scr_list (k : state) (l : list (V * nat * nat)) : state * option exn :=
    match l with
    | [] => (k, None)
    | (r, ia, ib) :: l' =>
        match scr k r ia ib with
        | (k1, None) => scr_list k1 l'
        | (k1, Some e) => (k1, Some e)
        end
    end.

  (* set_correlation_real(x1, x2, r, assign=False): the same checks -- and the repr() effects of its
     TypeError message -- but nothing is assigned *)
  Definition scr_check (k : state) (r : V) (ia ib : nat) : state * option exn :=
    match scr k r ia ib with
    | (_, None) => (k, None)
    | (k1, Some e) => (k1, Some e)
    end.

  Fixpoint scr_check_list (k : state) (l : list (V * nat * nat)) : state * option exn :=
    match l with
    | [] => (k, None)
    | (r, ia, ib) :: l' =>
        match scr_check k r ia ib with
        | (k1, None) => scr_check_list k1 l'
        | (k1, Some e) => (k1, Some e)
        end
    end.

  Definition rform_is_zero (r : rform V) : bool :=
    match r with RScalar v => eqb N v f0 | RSeq _ => false end.

  Definition cset_corr (s : cstate) (r : rform V) (a : nat) (b : option (carg V)) : cstate * out :=
    if rform_is_zero r then (kpush s SErr, OutUnit)          (* core.set_correlation: if r == 0.0: return *)
    else
      match get_cplx s a with
      | Err e => cfail1 s e
      | Ok (_, _, (jr, ore), (ji, oim)) =>
          let fin := fun (res : state * option exn) =>
                       match res with
                       | (k1, None) => (kpush (with_ks s k1) SErr, OutUnit)
                       | (k1, Some e) => cfail1 (with_ks s k1) e
                       end in
          match b with
          | None =>
              match r with
              | RScalar v => fin (scr (ks s) v jr ji)
              | RSeq _ => cfail1 s TypeError
              end
          | Some (CArgR ib) =>
              (* TypeError("illegal argument {!r}".format(arg)) *)
              match repr_effect N (ks s) ib with
              | (k1, None) => cfail1 (with_ks s k1) TypeError
              | (k1, Some e) => cfail1 (with_ks s k1) e
              end
          | Some (CArgC ib) =>
              match get_cplx s ib with
              | Err e => cfail1 s e
              | Ok (_, _, (kr, xre), (ki, xim)) =>
                  match r with
                  | RSeq [r0; r1; r2; r3] =>
                      if eqb N r0 f0 && eqb N r1 f0 && eqb N r2 f0 && eqb N r3 f0 then (kpush s SErr, OutUnit)
                      else
                        let four := [(r0, jr, kr); (r1, jr, ki); (r2, ji, kr); (r3, ji, ki)] in
                        (* all four pairs are checked (assign=False) before any coefficient is assigned *)
                        match scr_check_list (ks s) four with
                        | (k1, Some e) => cfail1 (with_ks s k1) e
                        | (_, None) =>
                        match node_df N (ks s) ore with
                        | Err e => cfail1 s e
                        | Ok d1 =>
                            match (if df_is_inf N d1 then d2 <- node_df N (ks s) xim ;; Ok (df_is_inf N d2) else Ok false) with
                            | Err e => cfail1 s e
                            | Ok true => fin (scr_list (ks s) four)
                            | Ok false =>
                                (* n_re2.uid in n_re1.ensemble *)
                                match unode xre, unode ore with
                                | NoNode, _ => cfail1 s AttributeError
                                | _, LeafRef k1 =>
                                    match leaf_of N (ks s) k1 with
                                    | Err e => cfail1 s e
                                    | Ok l1 =>
                                        if l_indep l1 then cfail1 s AttributeError
                                        else
                                          let inens := match unode xre with
                                                       | LeafRef k2 | NodeRef k2 => kmem k2 (ens_of N (ks s) l1)
                                                       | _ => false
                                                       end in
                                          if inens then fin (scr_list (ks s) four) else cfail1 s RuntimeError
                                    end
                                | _, _ => cfail1 s AttributeError
                                end
                            end
                        end
                        end
                  | _ => cfail1 s TypeError
                  end
              end
          | Some (CArgN _) => cfail1 s TypeError
          end
      end.

  (* ---------- UncertainComplex.get_correlation / get_covariance (lib.py 2698-2735, 2795-2829) ---------- *)
  (* one argument: the float get_correlation_real(self.real, self.imag) -- looked up, NOT the cached self.r;
     a real argument: (rr, 0.0, ir, 0.0); a complex argument: the four component pairs; a number: zeros.
     Pure reads: no cache is filled. *)
  Definition cget_corr (s : cstate) (cov : bool) (a : nat) (b : option (carg V)) : cstate * out :=
    let g := if cov then get_covariance_real N (ks s) else get_correlation_real N (ks s) in
    match get_cplx s a with
    | Err e => cfail1 s e
    | Ok (_, _, (_, ore), (_, oim)) =>
        match b with
        | None => match g ore oim with
                  | Ok v => (kpush s SErr, OutVal v)
                  | Err e => cfail1 s e
                  end
        | Some (CArgN _) => (kpush s SErr, out4 f0 f0 f0 f0)
        | Some (CArgR ib) =>
            match get_real N (ks s) ib with
            | Err e => cfail1 s e
            | Ok (_, x, _) =>
                match g ore x with
                | Err e => cfail1 s e
                | Ok rr => match g oim x with
                           | Err e => cfail1 s e
                           | Ok ir => (kpush s SErr, out4 rr f0 ir f0)
                           end
                end
            end
        | Some (CArgC ib) =>
            match get_cplx s ib with
            | Err e => cfail1 s e
            | Ok (_, _, (_, xre), (_, xim)) =>
                match g ore xre with
                | Err e => cfail1 s e
                | Ok rr =>
                    match g ore xim with
                    | Err e => cfail1 s e
                    | Ok ri =>
                        match g oim xre with
                        | Err e => cfail1 s e
                        | Ok ir =>
                            match g oim xim with
                            | Err e => cfail1 s e
                            | Ok ii => (kpush s SErr, out4 rr ri ir ii)
                            end
                        end
                    end
                end
            end
        end
    end.

  (* ---------- the state machine ---------- *)
  Definition is_cplx_num (x : cnumv V) : bool := match x with NC _ _ => true | NR _ => false end.

  (* core.multiple_ucomplex: the declarations in order *)
  Fixpoint cmultiple_decl (s : state) (zs : list (cnumv V)) (us : list (uform V)) (df : dfval V)
           (acc : list cdecl) : state * res (list cdecl) :=
    match zs, us with
    | [], [] => (s, Ok (rev acc))
    | z :: zs', u :: us' =>
        match ucomplex_decl s (to_pyn z) u df None false with
        | Ok (s', d) => cmultiple_decl s' zs' us' df (d :: acc)
        | Err e => (s, Err e)
        end
    | _, _ => (s, Err RuntimeError)
    end.

  Definition cstep (s : cstate) (o : cop V) : cstate * out :=
    match o with
    | CK ko => let (k1, r) := step N (ks s) ko in (with_ks s k1, r)
    | CUcomplex z u df label indep =>
        match ucomplex_decl (ks s) (to_pyn z) u df label indep with
        | Ok (k1, d) => push_decl (with_ks s k1) d label
        | Err e => cfail2 s e
        end
    | CConstant z label =>
        match z with
        | NC a b => push_decl s (DConst (a, b)) label
        | NR _ => cfail2 s TypeError
        end
    | CMultiple zs us df =>
        if negb (Nat.eqb (length zs) (length us)) then cfail2 s RuntimeError
        else
          match cmultiple_decl (ks s) zs us df [] with
          | (k1, Err e) => cfail2 (with_ks s k1) e
          | (k1, Ok ds) =>
              (* complex_ensemble over the non-constant members: s_i.df (willink_hall of an
                 elementary pair) fills the _v cache of each member *)
              let members := flat_map (fun d => match d with DElem re im => [re; im] | DConst _ => [] end) ds in
              let k2 := real_ensemble N k1 members in
              let step1 := fun (acc : cstate * list out * option exn) (d : cdecl) =>
                let '(st, outs, err) := acc in
                let (st1, o1) := push_decl st d None in
                match d with
                | DElem re im =>
                    match wh_elementary k1 re im with
                    | Ok v =>
                        let j := nslots st in
                        (set_meta st1 j (mkCM (S j) None true None (Some v) None), outs ++ [o1], err)
                    | Err e => (st1, outs ++ [o1], match err with None => Some e | _ => err end)
                    end
                | DConst _ => (st1, outs ++ [o1], err)
                end in
              let '(st, outs, err) := fold_left step1 ds (with_ks s k2, [], None) in
              match err with
              | None => (st, OutList outs)
              | Some e => cfail2 (with_ks s k1) e
              end
          end
    | CUn f a =>
        match get_cplx s a with
        | Err e => (match f with
                    | CUf U_magnitude | CUf U_mag_squared | CUf U_phase => cfail1 s e
                    | _ => cfail2 s e end)
        | Ok (j, m, sre, sim) =>
            let v := capply_un f sre sim in
            match f with
            | CUf U_magnitude | CUf U_mag_squared | CUf U_phase => finish_real s v
            | _ => finish_cplx s v (j, m, sre, sim)
            end
        end
    | CBin f a b =>
        match a, b with
        | CArgC ia, _ =>
            match get_cplx s ia with
            | Err e => cfail2 s e
            | Ok (j, m, sre, sim) =>
                match b with
                | CArgC ib =>
                    match get_cplx s ib with
                    | Err e => cfail2 s e
                    | Ok (_, _, (jr, ore), (ji, oim)) =>
                        finish_cplx s (capply_bin f false sre sim (OthC ore oim) (Some jr, Some ji)) (j, m, sre, sim)
                    end
                | CArgR ib =>
                    match get_real N (ks s) ib with
                    | Err e => cfail2 s e
                    | Ok (jb, ob, _) =>
                        finish_cplx s (capply_bin f false sre sim (OthR ob) (Some jb, None)) (j, m, sre, sim)
                    end
                | CArgN x =>
                    finish_cplx s (capply_bin f false sre sim (OthN (to_pyn x)) (None, None)) (j, m, sre, sim)
                end
            end
        | _, CArgC ib =>
            match get_cplx s ib with
            | Err e => cfail2 s e
            | Ok (j, m, sre, sim) =>
                match a with
                | CArgR ia =>
                    match get_real N (ks s) ia with
                    | Err e => cfail2 s e
                    | Ok (ja, oa, _) =>
                        finish_cplx s (capply_bin f true sre sim (OthR oa) (Some ja, None)) (j, m, sre, sim)
                    end
                | CArgN x =>
                    finish_cplx s (capply_bin f true sre sim (OthN (to_pyn x)) (None, None)) (j, m, sre, sim)
                | CArgC _ => cfail2 s OtherExn
                end
            end
        | CArgR ia, CArgN x =>
            match get_real N (ks s) ia with
            | Err e => cfail2 s e
            | Ok (ja, oa, _) =>
                match x with
                | NC _ _ => finish_any s (rapply_bin_c f false (ja, oa) (to_pyn x)) ja ja
                | NR v =>
                    match apply_bin N f (OpdU oa) (OpdN v) with
                    | Ok VComplex => finish_any s (promote_pow false (ja, oa) (OthN (PR v)) (None, None)) ja ja
                    | Ok v' => finish_any s (Ok (RReal v')) ja ja
                    | Err e => cfail2 s e
                    end
                end
            end
        | CArgN x, CArgR ib =>
            match get_real N (ks s) ib with
            | Err e => cfail2 s e
            | Ok (jb, ob, _) =>
                match x with
                | NC _ _ => finish_any s (rapply_bin_c f true (jb, ob) (to_pyn x)) jb jb
                | NR v =>
                    match apply_bin N f (OpdN v) (OpdU ob) with
                    | Ok VComplex => finish_any s (promote_pow true (jb, ob) (OthN (PR v)) (None, None)) jb jb
                    | Ok v' => finish_any s (Ok (RReal v')) jb jb
                    | Err e => cfail2 s e
                    end
                end
            end
        | CArgR ia, CArgR ib =>
            match get_real N (ks s) ia, get_real N (ks s) ib with
            | Ok (ja, oa, _), Ok (jb, ob, _) =>
                match apply_bin N f (OpdU oa) (OpdU ob) with
                | Ok VComplex => finish_any s (promote_pow false (ja, oa) (OthR ob) (Some jb, None)) ja jb
                | Ok v' => finish_any s (Ok (RReal v')) ja jb
                | Err e => cfail2 s e
                end
            | Err e, _ => cfail2 s e
            | _, Err e => cfail2 s e
            end
        | CArgN _, CArgN _ => cfail2 s TypeError
        end
    | CResult a label =>
        (* UncertainComplex._intermediate: the two components in turn, then a NEW complex object *)
        match get_cplx s a with
        | Err e => cfail2 s e
        | Ok (_, _, (jr, _), (ji, _)) =>
            let i := nslots s in
            let (k1, o1) := step N (ks s) (OpResult jr (sub_label label false)) in
            match o1 with
            | OutExn e => (kpush (with_ks s k1) SErr, OutExn e)
            | _ =>
                let (k2, o2) := step N k1 (OpResult ji (sub_label label true)) in
                match o2 with
                | OutExn e => (with_ks s k2, OutExn e)
                | _ =>
                    match get_real N k2 i, get_real N k2 (S i) with
                    | Ok (_, re, _), Ok (_, im, _) =>
                        if Bool.eqb (is_intermediate N re) (is_intermediate N im) then
                          (mkCS k2 (cobjs s ++ [(i, CObj (mkCM (S i) label (is_elementary N re || is_elementary N im)
                                                                None None None))]) (wacc s),
                           OutList [o1; o2])
                        else (with_ks s k2, OutExn AssertionError)
                    | _, _ => (with_ks s k2, OutExn OtherExn)
                    end
                end
            end
        end
    | CRead CR_x a =>
        match get_cplx s a with
        | Err e => cfail1 s e
        | Ok (_, _, (_, re), (_, im)) => (kpush s SErr, OutList [OutVal (ux re); OutVal (ux im)])
        end
    | CRead CR_u a => cread_u s a
    | CRead CR_v a =>
        match cprop_v s a with
        | (s1, Ok (a1, b1, c1, d1)) => (kpush s1 SErr, out4 a1 b1 c1 d1)
        | (s1, Err e) => cfail1 s1 e
        end
    | CRead CR_r a => cread_r s a
    | CRead CR_df a => cread_df s a
    | CSetCorr r a b => cset_corr s r a b
    | CGetCorr cov a b => cget_corr s cov a b
    | CSens y x => csens_step true s y x
    | CUComp y x => csens_step false s y x
    end.

  Fixpoint crun (s : cstate) (p : list (cop V)) : cstate * list out :=
    match p with
    | [] => (s, [])
    | o :: p' => let '(s', r) := cstep s o in
                 let '(s'', rs) := crun s' p' in (s'', r :: rs)
    end.
End CKernel.

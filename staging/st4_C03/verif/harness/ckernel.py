"""ckernel.py -- correspondence for the uncertain-complex kernel (CKernel.v).

A CSession executes operations on the real GTC (in /repo's working tree) while recording each
one as a Gallina `cop float` term and the observed outcome as an `out float` term (the
component vectors of BOTH component reals of every complex result, bit for bit), every libm
call (`math` proxy), every cmath call (`cmath` proxy) and rule-based rows for complex `**`
and abs().  A complex object occupies two slots (its real and imaginary UncertainReal), so
all real-kernel operations of kernel.KSession keep working on z.real / z.imag."""
import math, cmath, random, os, re, numbers, types
from common import *
import kernel
from kernel import KSession, ckey, cvec, cdf, UNOPS

CFUNS = ['exp', 'log', 'log10', 'sqrt', 'sin', 'cos', 'tan', 'asin', 'acos', 'atan', 'sinh', 'cosh', 'tanh',
         'asinh', 'acosh', 'atanh']
CUNOPS = CFUNS + ['magnitude', 'mag_squared', 'phase', 'neg', 'pos', 'conjugate']
REAL_RESULT = ('magnitude', 'mag_squared', 'phase')
CBINOPS = ['add', 'sub', 'mul', 'div', 'pow']

class record_cmath(object):
    """route GTC's module-level `cmath` names through a Recorder"""
    MODS = ('GTC.lib', 'GTC.core')
    def __init__(self):
        self.log = []
    def __enter__(self):
        import importlib
        self.saved = []
        for m in self.MODS:
            mod = importlib.import_module(m)
            if hasattr(mod, 'cmath') and isinstance(getattr(mod, 'cmath'), types.ModuleType):
                self.saved.append((mod, mod.cmath))
                mod.cmath = Recorder(mod.cmath, self.log)
        return self
    def __exit__(self, *a):
        for mod, real in self.saved:
            mod.cmath = real
        return False

def cnum(x):
    """a plain Python number as a cnumv term"""
    if isinstance(x, complex):
        return '(NC %s %s)' % (cf(x.real), cf(x.imag))
    return '(NR %s)' % cf(float(x))

def cuform(u):
    if isinstance(u, (tuple, list)):
        if len(u) == 2: return '(USeq2 %s %s)' % (cf(u[0]), cf(u[1]))
        if len(u) == 4: return '(USeq4 %s %s %s %s)' % tuple(cf(v) for v in u)
        return 'USeqBad'
    return '(UScalar %s)' % cf(u)

def cpair(z):
    return '(%s, %s)' % (cf(z.real), cf(z.imag))

def coracle_table(log, extra=()):
    seen = set(); rows = []
    for name, args, r in list(log) + list(extra):
        if name == 'cpow':
            a, b = complex(args[0]), complex(args[1])
            fl = [a.real, a.imag, b.real, b.imag]; fn = 'C_pow'
        elif name in CFUNS and len(args) == 1:
            try:
                a = complex(args[0])
            except (TypeError, ValueError):
                continue
            fl = [a.real, a.imag]; fn = 'C_' + name
        else:
            continue
        key = (fn, tuple(cf(v) for v in fl))
        if key in seen: continue
        seen.add(key)
        if r[0] == 'ok':
            rs = 'Ok %s' % cpair(complex(r[1]))
        else:
            rs = 'Err %s' % cexn(r[1])
        rows.append('(%s, %s, %s)' % (fn, clist([cf(v) for v in fl]), rs))
    return clist(rows)

def cpow_entry(a, b):
    try:
        y = a ** b
    except Exception as ex:
        return ('cpow', (a, b), ('exn', type(ex).__name__))
    return ('cpow', (a, b), ('ok', complex(y)))

def hypot_entry(z):
    try:
        y = abs(z)
    except Exception as ex:
        return ('hypot', (z.real, z.imag), ('exn', type(ex).__name__))
    return ('hypot', (z.real, z.imag), ('ok', y))


class CSession(KSession):
    def __init__(self, ctx_id=1):
        KSession.__init__(self, ctx_id)
        import warnings
        warnings.simplefilter('ignore')
        self.crec = record_cmath()
        self.crec.__enter__()
        self.cextra = []
        self.cfirst = {}          # id(complex object) -> slot of its real component
        self.keep = []            # keep complex objects alive (ids must stay unique)
        self.UC = self.lib.UncertainComplex
        self.UR = self.lib.UncertainReal
        # float ** 2 inside willink_hall / _covariance_submatrix: record the operands (rule-based pow rows)
        lib = self.lib
        self._saved_lib = (lib._covariance_submatrix, lib.std_variance_covariance_complex)
        cs0, sv0 = self._saved_lib
        def cov_sub(u_re, u_im):
            for v in list(u_re._value) + list(u_im._value):
                self.extra.append(pow_entry(v, 2))
            r = cs0(u_re, u_im)
            self.extra.append(pow_entry(r[1], 2))
            return r
        def svcc(x):
            r = sv0(x)
            self.extra.append(pow_entry(r[0] + r[3], 2))
            return r
        lib._covariance_submatrix = cov_sub
        lib.std_variance_covariance_complex = svcc

    def close(self):
        self.lib._covariance_submatrix, self.lib.std_variance_covariance_complex = self._saved_lib
        self.crec.__exit__()
        KSession.close(self)

    # real-kernel operations are wrapped in CK
    def record(self, opterm, pyop, thunk, multi=False):
        r = KSession.record(self, opterm, pyop, thunk, multi)
        self.ops[-1] = '(CK %s)' % self.ops[-1]
        return r

    # an operation that names an empty slot (the result of a failed step) is a generator slip, not a test of
    # GTC: it is skipped rather than recorded
    def _ur(self, *idx):
        return all(0 <= i < len(self.slots) and isinstance(self.slots[i], self.UR) for i in idx)
    def read(self, attr, a):
        return KSession.read(self, attr, a) if self._ur(a) else None
    def un(self, f, a):
        return KSession.un(self, f, a) if self._ur(a) else None
    def result(self, a, label=None):
        return KSession.result(self, a, label) if self._ur(a) else None
    def sens(self, y, x):
        return KSession.sens(self, y, x) if self._ur(y, x) else None
    def ucomp(self, y, x):
        return KSession.ucomp(self, y, x) if self._ur(y, x) else None
    def get_cov(self, a, b):
        return KSession.get_cov(self, a, b) if self._ur(a, b) else None
    def get_corr(self, a, b):
        return KSession.get_corr(self, a, b) if self._ur(a, b) else None
    def set_corr(self, r, a, b):
        return KSession.set_corr(self, r, a, b) if self._ur(a, b) else None
    def bin(self, f, a, b):
        ok = all(x[0] != 'ref' or self._ur(x[1]) for x in (a, b))
        return KSession.bin(self, f, a, b) if ok else None
    def _args_ok(self, *args):
        for a in args:
            if a is None: continue
            if a[0] == 'c' and self.cobj(a[1]) is None: return False
            if a[0] == 'r' and not self._ur(a[1]): return False
        return True

    # ---------------- observation of complex-kernel operations
    def _real_out(self, o):
        """out term of a component real + register it"""
        if id(o) in self.first:
            return '(OutSame %d)' % self.first[id(o)]
        self.first[id(o)] = len(self.slots)
        return self.dump(o)

    def _push_cplx(self, z):
        """append the two component slots of complex object z; returns its out term"""
        if id(z) in self.cfirst:
            t = '(OutSame %d)' % self.cfirst[id(z)]
            self.slots.append(z.real); self.slots.append(z.imag)
            return t
        i = len(self.slots)
        self.cfirst[id(z)] = i; self.keep.append(z)
        a = self._real_out(z.real); self.slots.append(z.real)
        b = self._real_out(z.imag); self.slots.append(z.imag)
        return '(OutList [%s; %s])' % (a, b)

    def crecord(self, opterm, pyop, thunk, kind):
        self.ops.append(opterm)
        self.pyops.append(pyop)
        self.stats[pyop[0]] = self.stats.get(pyop[0], 0) + 1
        two = kind in ('cplx', 'multi', 'any2')
        try:
            r = thunk()
        except Exception as ex:
            self.outs.append('(OutExn %s)' % cexn(type(ex).__name__))
            self.slots.extend([None, None] if two else [None])
            self.stats['exn'] = self.stats.get('exn', 0) + 1
            return None
        if kind == 'cplx':
            if isinstance(r, self.UC):
                self.outs.append(self._push_cplx(r))
            else:
                self.outs.append('(OutExn OtherExn)'); self.slots.extend([None, None])
        elif kind == 'multi':
            self.outs.append('(OutList %s)' % clist([self._push_cplx(z) for z in r]))
        elif kind == 'any2':
            # complex result: two component slots; real / plain result: the result and an empty slot
            if isinstance(r, self.UC):
                self.outs.append(self._push_cplx(r))
            elif isinstance(r, self.UR):
                if id(r) in self.first:
                    self.outs.append('(OutSame %d)' % self.first[id(r)])
                else:
                    self.first[id(r)] = len(self.slots)
                    self.outs.append(self.dump(r))
                self.slots.extend([r, None])
            elif isinstance(r, numbers.Real):
                self.outs.append('(OutVal %s)' % cf(r)); self.slots.extend([None, None])
            else:
                self.outs.append('(OutExn OtherExn)'); self.slots.extend([None, None])
        elif kind == 'unit':
            self.outs.append('OutUnit' if r is None else '(OutExn OtherExn)'); self.slots.append(None)
        elif kind == 'real':
            if isinstance(r, self.UR):
                if id(r) in self.first:
                    self.outs.append('(OutSame %d)' % self.first[id(r)])
                else:
                    self.first[id(r)] = len(self.slots)
                    self.outs.append(self.dump(r))
                self.slots.append(r)
            elif isinstance(r, numbers.Real):
                self.outs.append('(OutVal %s)' % cf(r)); self.slots.append(None)
            else:
                self.outs.append('(OutExn OtherExn)'); self.slots.append(None)
        else:   # 'val'
            if isinstance(r, tuple) and len(r) == 2 and r[0] == 'df':
                self.outs.append('(OutDof %s)' % cdf(r[1]))
            elif isinstance(r, complex):
                self.outs.append('(OutList [OutVal %s; OutVal %s])' % (cf(r.real), cf(r.imag)))
            elif isinstance(r, tuple):
                self.outs.append('(OutList %s)' % clist(['OutVal %s' % cf(v) for v in r]))
            else:
                self.outs.append('(OutVal %s)' % cf(r))
            self.slots.append(None)
        return r

    # ---------------- complex objects in slots
    def cobj(self, i):
        """the complex object whose real component lives in slot i"""
        for z in self.keep:
            if self.cfirst[id(z)] == i: return z
        # an alias (result `is` an earlier object): same components
        for z in self.keep:
            if z.real is self.slots[i] and z.imag is self.slots[i + 1]: return z
        return None

    def cplx_slots(self):
        """slot indices naming complex objects (first occurrence)"""
        return sorted(self.cfirst.values())

    def _arg(self, a):
        if a[0] == 'c': return self.cobj(a[1])
        if a[0] == 'r': return self.slots[a[1]]
        return a[1]
    def _argterm(self, a):
        if isinstance(a, tuple) and a[0] == 'c': return '(CArgC %d)' % a[1]
        if isinstance(a, tuple) and a[0] == 'r': return '(CArgR %d)' % a[1]
        if isinstance(a, tuple) and a[0] == 'n': return '(CArgN %s)' % cnum(a[1])
        return KSession._argterm(self, a)
    def _val(self, a):
        o = self._arg(a)
        if isinstance(o, self.UC): return o._value
        if isinstance(o, self.UR): return o._x
        return o

    # ---------------- operations
    def ucomplex(self, z, u, df=math.inf, label=None, indep=True):
        t = '(CUcomplex %s %s %s %s %s)' % (cnum(z), cuform(u), cdf(df), copt(label, cz), cbool(indep))
        lab = None if label is None else 'L%d' % label
        return self.crecord(t, ('ucomplex', z, u, df, label, indep),
                            lambda: self.core.ucomplex(z, u, df, label=lab, independent=indep), 'cplx')

    def cconstant(self, z, label=None):
        lab = None if label is None else 'L%d' % label
        return self.crecord('(CConstant %s %s)' % (cnum(z), copt(label, cz)), ('cconstant', z, label),
                            lambda: self.core.constant(z, label=lab), 'cplx')

    def cmultiple(self, zs, us, df):
        t = '(CMultiple %s %s %s)' % (clist([cnum(z) for z in zs]), clist([cuform(u) for u in us]), cdf(df))
        return self.crecord(t, ('cmultiple', list(zs), list(us), df),
                            lambda: self.core.multiple_ucomplex(list(zs), list(us), df), 'multi')

    def cun(self, f, a):
        z = self.cobj(a)
        if z is None: return None
        v = z._value
        if f in ('magnitude', 'mag_squared'):
            h = hypot_entry(v); self.extra.append(h)
            if h[2][0] == 'ok': self.extra.append(pow_entry(h[2][1], 2))
        if f == 'phase':
            self.extra.append(pow_entry(v.real, 2)); self.extra.append(pow_entry(v.imag, 2))
        def th():
            if f == 'neg': return -z
            if f == 'pos': return +z
            if f == 'conjugate': return z.conjugate()
            return getattr(self.core, f)(z)
        term = '(CUn CUconj %d)' % a if f == 'conjugate' else '(CUn (CUf U_%s) %d)' % (f, a)
        return self.crecord(term, ('cun', f, a), th, 'real' if f in REAL_RESULT else 'cplx')

    def cbin(self, f, a, b):
        """a (op) b where at least one operand is an uncertain number: ('c',i) complex object, ('r',i) uncertain
        real, ('n',v) plain number.  Without a complex operand the result may still be complex (a complex literal,
        or ** leaving the reals): such operations always occupy two slots."""
        if not self._args_ok(a, b): return None
        va, vb = self._arg(a), self._arg(b)
        xa, xb = self._val(a), self._val(b)
        anyc = a[0] == 'c' or b[0] == 'c'
        if f == 'pow':
            self.cextra.append(cpow_entry(xa, xb))
            if not anyc:
                # the real attempt l**r, r*l**(r-1) of lib._pow / lib._rpow
                if not isinstance(xa, complex) and not isinstance(xb, complex):
                    self.extra.append(pow_entry(xa, xb)); self.extra.append(pow_entry(xa, xb - 1))
        if not anyc:
            for x in (xa, xb):
                if isinstance(x, complex):
                    h = hypot_entry(x); self.extra.append(h)       # abs(rhs)**2 in lib._div
                    if h[2][0] == 'ok': self.extra.append(pow_entry(h[2][1], 2))
        def th():
            if f == 'add': return va + vb
            if f == 'sub': return va - vb
            if f == 'mul': return va * vb
            if f == 'div': return va / vb
            if f == 'pow': return va ** vb
        return self.crecord('(CBin B_%s %s %s)' % (f, self._argterm(a), self._argterm(b)), ('cbin', f, a, b), th,
                            'cplx' if anyc else 'any2')

    def cresult(self, a, label=None):
        if self.cobj(a) is None: return None
        lab = None if label is None else 'L%d' % label
        return self.crecord('(CResult %d %s)' % (a, copt(label, cz)), ('cresult', a, label),
                            lambda: self.core.result(self.cobj(a), label=lab), 'cplx')

    def cread(self, attr, a):
        z = self.cobj(a)
        if z is None: return None
        def th():
            if attr == 'x': return complex(z.x)
            if attr == 'u': return tuple(z.u)
            if attr == 'v': return tuple(z.v)
            if attr == 'r': return float(z.r)
            if attr == 'df': return ('df', z.df)
        if attr == 'df':
            # the independent influences: re_u[id]**2, im_u[id]**2, (re_u[id]*im_u[id])**2
            from GTC import vector
            try:
                re_u = vector.extend_vector(z.real._u_components, z.imag._u_components)
                im_u = vector.extend_vector(z.imag._u_components, z.real._u_components)
                for x, y in zip(re_u._value, im_u._value):
                    self.extra.append(pow_entry(x, 2)); self.extra.append(pow_entry(y, 2)); self.extra.append(pow_entry(x * y, 2))
            except Exception:
                pass
        return self.crecord('(CRead CR_%s %d)' % (attr, a), ('cread', attr, a), th, 'val')

    def cset_corr(self, r, a, b=None):
        """core.set_correlation(r, z, arg2) with z the complex object in slot a; r a float or a list;
        b: None | ('c', i) | ('r', i) | ('n', v)"""
        z = self.cobj(a)
        if z is None or not self._args_ok(b): return None
        rt = '(RSeq %s)' % clist([cf(v) for v in r]) if isinstance(r, (list, tuple)) else '(RScalar %s)' % cf(r)
        bt = 'None' if b is None else '(Some %s)' % self._argterm(b)
        ob = None if b is None else self._arg(b)
        return self.crecord('(CSetCorr %s %d %s)' % (rt, a, bt), ('cset_corr', r, a, b),
                            lambda: self.core.set_correlation(r, z, ob), 'unit')

    def cget_corr(self, a, b=None, cov=False):
        """core.get_correlation(z, arg2) / core.get_covariance(z, arg2) with z the complex object in slot a;
        b: None | ('c', i) | ('r', i) | ('n', v)"""
        z = self.cobj(a)
        if z is None or not self._args_ok(b): return None
        ob = None if b is None else self._arg(b)
        if cov:
            for o in (z.real, z.imag) + ((ob.real, ob.imag) if isinstance(ob, self.UC) else (ob,) if isinstance(ob, self.UR) else ()):
                if o.is_elementary: self.extra.append(pow_entry(o._node.u, 2))
        fn = self.core.get_covariance if cov else self.core.get_correlation
        def th():
            r = fn(z, ob)
            return tuple(float(v) for v in r) if isinstance(r, tuple) else float(r)
        bt = 'None' if b is None else '(Some %s)' % self._argterm(b)
        return self.crecord('(CGetCorr %s %d %s)' % (cbool(cov), a, bt), ('cget_corr', a, b, cov), th, 'val')

    def _sens_ok(self, x):
        """the model does not cover repr() of a complex argument (complex dof): skip those"""
        o = self._arg(x)
        if isinstance(o, self.UC):
            r, i = o.real, o.imag
            if (r.is_elementary and i.is_elementary) or (r.is_intermediate and i.is_intermediate): return True
            return self.lib._is_uncertain_complex_constant(o)
        return True

    def _sens(self, name, fn, y, x):
        if not self._args_ok(y, x) or not self._sens_ok(x): return None
        oy, ox = self._arg(y), self._arg(x)
        def th():
            r = fn(oy, ox)
            return tuple(float(v) for v in r) if isinstance(r, tuple) else float(r)
        T = 'CSens' if name == 'csens' else 'CUComp'
        return self.crecord('(%s %s %s)' % (T, self._argterm(y), self._argterm(x)), (name, y, x), th, 'val')

    def csens(self, y, x):
        return self._sens('csens', self.reporting.sensitivity, y, x)
    def cucomp(self, y, x):
        return self._sens('cucomp', self.reporting.u_component, y, x)

    # ---------------- emission
    def case_term(self):
        tbl = oracle_table(self.rec.log, self.extra)
        ctbl = coracle_table(self.crec.log, self.cextra)
        return '(%s, %s, %s, %s, %s)' % (cz(self.ctx_id), tbl, ctbl, clist(self.ops), clist(self.outs))

    def check_heap(self):
        from GTC.vector import INF_UID
        for o in self.slots:
            if isinstance(o, self.UR):
                for v in (o._u_components, o._d_components, o._i_components):
                    if len(v._index) != len(v._value) or any(k is INF_UID for k in v._index):
                        return False
        return True


HEADER = '''From Coq Require Import ZArith List PrimFloat String.
From GTCV Require Import Num FNum Vector Opres KTypes Kernel Cplx CFNum COpres CKernel CCaseLib.
Import ListNotations.
Local Open Scope float_scope.
'''

def emit_cases(dirname, sessions, per_file=60, prefix='ccases'):
    """write the case files; sessions are distributed over the files so that the files carry about the same number of
    steps (longest first, each to the lightest file) -- coqc runs one file per core and the slowest file is the wall time"""
    nfiles = max(1, (len(sessions) + per_file - 1) // per_file)
    bins = [[] for _ in range(nfiles)]; load = [0] * nfiles
    for i in sorted(range(len(sessions)), key=lambda i: -len(sessions[i].ops)):
        k = min(range(nfiles), key=lambda k: (load[k], k))
        bins[k].append(i); load[k] += len(sessions[i].ops) + 5
    files = []
    for k, idx in enumerate(bins):
        if not idx: continue
        idx.sort()
        path = os.path.join(dirname, '%s_%d.v' % (prefix, k))
        with open(path, 'w') as f:
            f.write(HEADER)
            for j, i in enumerate(idx):
                f.write('Definition c%d : ccase := %s.\n' % (j, sessions[i].case_term()))
            f.write('Definition all_cases : list ccase := %s.\n' % clist(['c%d' % j for j in range(len(idx))]))
            f.write('Eval vm_compute in (report_ccases all_cases).\n')
        files.append((path, idx))
    return files

def run_sessions(sessions, name, per_file=60):
    """evaluate the FNum model on the recorded programs inside coqc and compare; returns mismatches"""
    d = scratch('ccorr_' + name)
    files = emit_cases(d, sessions, per_file=per_file)
    res = run_coqc_many([f for f, _ in files])
    mism = []
    for f, idx in files:
        rc, out = res[f]
        rep = kernel.parse_report(out)
        if rep is None or len(rep) != len(idx):
            mism.append({'kind': 'coqc-failed', 'file': f, 'rc': rc, 'output': out[-1500:]})
            continue
        for i, r in zip(idx, rep):
            if r != -1:
                s = sessions[i]
                mism.append({'kind': 'model-vs-implementation', 'program': s.pyops[:r + 1], 'step': r, 'ctx': s.ctx_id,
                             'tag': getattr(s, 'tag', None),
                             'implementation_output': s.outs[r][:600] if r < len(s.outs) else None})
    for s in sessions:
        if not s.heap_ok:
            mism.append({'kind': 'vector-heap-corrupted', 'program': s.pyops, 'ctx': s.ctx_id})
    if not mism:
        shutil.rmtree(d, ignore_errors=True)
    return mism

# ------------------------------------------------------------------ replay / diagnosis
def run_pyops(pyops, ctx_id):
    s = CSession(ctx_id)
    def tup(x):
        return tuple(x) if isinstance(x, list) else x
    def num(x):
        if isinstance(x, dict) and 'complex' in x: return complex(x['complex'][0], x['complex'][1])
        if isinstance(x, str):
            try: return complex(x)
            except ValueError: return x
        return x
    def arg(a):
        a = tuple(a)
        return (a[0], num(a[1])) if a[0] in ('n', 'num') else a
    for op in pyops:
        op = list(op); k = op[0]
        if k == 'ucomplex': s.ucomplex(num(op[1]), tup(op[2]), op[3], label=op[4], indep=op[5])
        elif k == 'cconstant': s.cconstant(num(op[1]), label=op[2])
        elif k == 'cmultiple': s.cmultiple([num(z) for z in op[1]], [tup(u) for u in op[2]], op[3])
        elif k == 'cun': s.cun(op[1], op[2])
        elif k == 'cbin': s.cbin(op[1], arg(op[2]), arg(op[3]))
        elif k == 'cresult': s.cresult(op[1], label=op[2])
        elif k == 'cread': s.cread(op[1], op[2])
        elif k == 'cget_corr': s.cget_corr(op[1], None if op[2] is None else arg(op[2]), op[3])
        elif k == 'cset_corr': s.cset_corr(tup(op[1]) if isinstance(op[1], list) else op[1], op[2], None if op[3] is None else arg(op[3]))
        elif k == 'csens': s.csens(arg(op[1]), arg(op[2]))
        elif k == 'cucomp': s.cucomp(arg(op[1]), arg(op[2]))
        elif k == 'ureal': s.ureal(op[1], op[2], op[3], label=op[4], indep=op[5])
        elif k == 'constant': s.constant(op[1], label=op[2])
        elif k == 'multiple': s.multiple(op[1], op[2], op[3])
        elif k == 'un': s.un(op[1], op[2])
        elif k == 'bin': s.bin(op[1], tuple(op[2]), tuple(op[3]))
        elif k == 'result': s.result(op[1], label=op[2])
        elif k == 'set_corr': s.set_corr(op[1], op[2], op[3])
        elif k == 'read': s.read(op[1], op[2])
        elif k == 'sens': s.sens(op[1], op[2])
        elif k == 'ucomp': s.ucomp(op[1], op[2])
        elif k == 'get_cov': s.get_cov(op[1], op[2])
        elif k == 'get_corr': s.get_corr(op[1], op[2])
        else: raise ValueError(k)
    s.heap_ok = s.check_heap()
    s.close()
    return s

def diagnose(s, step):
    """model output vs implementation output at one step (text)"""
    d = scratch('cdiag')
    path = os.path.join(d, 'diag.v')
    with open(path, 'w') as f:
        f.write(HEADER)
        f.write('Definition c0 : ccase := %s.\n' % s.case_term())
        f.write('Eval vm_compute in (run_ccase c0).\n')
        f.write('Eval vm_compute in (cmodel_out c0 %d).\n' % step)
    res = run_coqc_many([path])
    return s.outs[step] if step < len(s.outs) else None, res[path][1]

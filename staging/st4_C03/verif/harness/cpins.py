"""cpins.py -- the pinned generated definitions of the complex kernel.

gen/Gen_lib_complex.v is REGENERATED from the working tree on every check of every property, so the model follows a
change of a source formula.  Bodies that a theorem of props/C03.v covers are guarded by their proofs; for the others
(listed here) a change of the generated text is reported by every correspondence run that uses the complex kernel
(cgen.run_ckernel_corr) instead of being followed silently."""
import os, json, hashlib
from common import COQ

# Generated definitions that NO theorem of props/C03.v mentions yet (see PARTIAL).  A change of
# their text is a change of a formula whose correctness is covered by correspondence + oracle
# only, so it is pinned: the check reports it (and then searches for a failing input) instead
# of silently following the new formula.  Proved bodies (gc_mul_*, gc_add_*, gc_sub_*, gc_radd_*,
# gc_rsub_*, gc_exp, gc_sin, gc_cos, gc_sinh, gc_cosh) are guarded by their proofs and not pinned.
UNPROVEN = ['gc_div_uc', 'gc_div_ur', 'gc_div_n', 'gc_rdiv_ur', 'gc_rdiv_n', 'gc_pow_uc', 'gc_pow_ur', 'gc_pow_n',
            'gc_rpow_ur', 'gc_rpow_n', 'gc_neg', 'gc_pos', 'gc_conjugate', 'gc_log', 'gc_log10', 'gc_sqrt', 'gc_tan',
            'gc_asin', 'gc_acos', 'gc_atan', 'gc_tanh', 'gc_asinh', 'gc_acosh', 'gc_atanh', 'gc_magnitude',
            'gc_mag_squared', 'gc_phase',
            'gr_add_c', 'gr_radd_c', 'gr_sub_c', 'gr_rsub_c', 'gr_mul_c', 'gr_rmul_c', 'gr_div_c', 'gr_rdiv_c', 'gr_pow_c', 'gr_rpow_c']
PINS = os.path.join(os.path.dirname(os.path.abspath(__file__)), 'C03_pinned.json')

def generated_defs():
    import re as _re
    try:
        txt = open(os.path.join(COQ, 'gen', 'Gen_lib_complex.v')).read()
    except IOError:
        return {}
    return {m.group(1): hashlib.sha1(m.group(2).encode()).hexdigest()
            for m in _re.finditer(r'Definition (g[cr]_\w+) \(C : CNum\)[^\n]*:=\n(.*?)\.\n\n', txt, _re.S)}

def pinned_drift():
    cur = generated_defs()
    try:
        pins = json.load(open(PINS))
    except IOError:
        return [{'kind': 'pinned-formulas-missing', 'file': PINS}]
    return [{'kind': 'unproven-formula-changed', 'definition': n,
             'note': 'the source formula behind this generated definition changed; no theorem covers it (PARTIAL)'}
            for n in UNPROVEN if cur.get(n) != pins.get(n)]


#!/usr/bin/env python3
"""tr_type_a_fit.py -- fail-closed Python-ast -> Gallina translator for the straight-line
fits of GTC/type_a.py (property C13).  Usage: tr_type_a_fit.py <repo> <outdir>
(or main(repo, outdir) from the driver).  Writes <outdir>/Gen_type_a_fit.v.

For _clip_r, line_fit, _line_fit_wls, line_fit_wls, line_fit_rwls, the argument checks of the
line_fit_wtls wrapper and the six prediction methods (x_from_y / y_from_x of LineFitOLS,
LineFitRWLS, LineFitWLS) it emits Num-parametric, res-monadic Gallina that is the same
computation as the source in <repo>'s working tree: the same float operations in the same
order, math.fsum over the same term lists, every division and libm call checked, Python ints
kept apart from floats.  The non-arithmetic remainder of each function (declaration of a and
b with `independent=False`, real_ensemble, set_correlation, the returned class; for the
prediction methods append_real_ensemble and the returned expression) is not translated but
*compared*, statement for statement, with the shape the hand-written model in LineFitA.v
implements.  Anything else makes that definition ABSENT (with a comment saying why) so the
model / proofs that use it stop compiling: nothing is guessed, no old definition is reused."""
import ast, sys, os, math
sys.path.insert(0, os.path.dirname(os.path.abspath(__file__)))
from translate import Untranslatable, dyadic, zlit, find_func, strip_doc

MISSING = object()

def dump(n):
    return ast.dump(n) if isinstance(n, ast.AST) else repr(n)

def same_ast(stmts, template):
    """statement list == the statements of the template source text"""
    want = ast.parse(template).body
    return len(stmts) == len(want) and all(ast.dump(a) == ast.dump(b) for a, b in zip(stmts, want))

def norm_ureal(call):
    """arguments of a call of type_a.ureal (= UncertainReal._elementary(x,u,df,label,independent))"""
    if not (isinstance(call, ast.Call) and isinstance(call.func, ast.Name) and call.func.id == 'ureal'):
        raise Untranslatable('expected a call of ureal')
    names = ['x', 'u', 'df', 'label', 'independent']
    if len(call.args) > 5:
        raise Untranslatable('ureal arity')
    d = dict(zip(names, call.args))
    for kw in call.keywords:
        if kw.arg not in names or kw.arg in d:
            raise Untranslatable('ureal keyword %r' % kw.arg)
        d[kw.arg] = kw.value
    for n in names:
        d.setdefault(n, MISSING)
    if d['x'] is MISSING or d['u'] is MISSING or d['df'] is MISSING:
        raise Untranslatable('ureal: x, u, df are required')
    return d

class Comp:
    """typed compiler: 'Z' Python int, 'F' float, 'D' degrees of freedom (dfval), 'LF' sequence of
    floats, 'LAM' a lambda bound to a name, 'U' an uncertain-number object"""
    def __init__(self, env):
        self.env = dict(env)
        self.n = 0
        self.decl = None

    def fresh(self, base):
        self.n += 1
        return '%s_%d' % (base.strip('_') or 'v', self.n)

    def key(self, e):
        if isinstance(e, ast.Name): return e.id
        if isinstance(e, ast.Attribute) and isinstance(e.value, ast.Name): return '%s.%s' % (e.value.id, e.attr)
        return None

    def close(self, prelude, final):
        s = final
        for b in reversed(prelude):
            s = '(%s ;;\n   %s)' % (b, s)
        return s

    def toF(self, t, ty):
        if ty == 'F': return t
        if ty == 'Z': return '(of_Z N %s)' % t
        raise Untranslatable('a %s where a number is needed' % ty)

    # ---------------- expressions
    def expr(self, e):
        if isinstance(e, ast.Constant):
            if isinstance(e.value, bool) or not isinstance(e.value, (int, float)):
                raise Untranslatable('constant %r' % (e.value,))
            kind, v = dyadic(e.value)
            if kind == 'Z': return [], zlit(v), 'Z'
            return [], '(dyad N %s %s)' % (zlit(v[0]), zlit(v[1])), 'F'
        k = self.key(e)
        if k is not None and k in self.env:
            ty, t = self.env[k]
            if ty == 'LAM': raise Untranslatable('lambda used as a value')
            return [], t, ty
        if isinstance(e, ast.Name):
            if e.id == 'inf': return [], 'DInf', 'D'
            raise Untranslatable('unbound name %s' % e.id)
        if isinstance(e, ast.UnaryOp) and isinstance(e.op, ast.USub):
            p, t, ty = self.expr(e.operand)
            if ty == 'Z': return p, '(- %s)%%Z' % t, 'Z'
            return p, '(neg N %s)' % self.toF(t, ty), 'F'
        if isinstance(e, ast.BinOp):
            pl, tl, yl = self.expr(e.left)
            pr, tr, yr = self.expr(e.right)
            p = pl + pr
            if yl == 'Z' and yr == 'Z' and isinstance(e.op, (ast.Add, ast.Sub, ast.Mult)):
                o = {ast.Add: '+', ast.Sub: '-', ast.Mult: '*'}[type(e.op)]
                return p, '(%s %s %s)%%Z' % (tl, o, tr), 'Z'
            if isinstance(e.op, ast.Div) and yr == 'D':
                v = self.fresh('q')
                return p + ['%s <- div_df N %s %s' % (v, self.toF(tl, yl), tr)], v, 'F'
            fl, fr = self.toF(tl, yl), self.toF(tr, yr)
            if isinstance(e.op, ast.Add):  return p, '(add N %s %s)' % (fl, fr), 'F'
            if isinstance(e.op, ast.Sub):  return p, '(sub N %s %s)' % (fl, fr), 'F'
            if isinstance(e.op, ast.Mult): return p, '(mul N %s %s)' % (fl, fr), 'F'
            if isinstance(e.op, ast.Div):
                v = self.fresh('q')
                return p + ['%s <- div N %s %s' % (v, fl, fr)], v, 'F'
            if isinstance(e.op, ast.Pow):
                v = self.fresh('p')
                return p + ['%s <- libm2 N F_pow %s %s' % (v, fl, fr)], v, 'F'
            raise Untranslatable('binary operator %s' % type(e.op).__name__)
        if isinstance(e, ast.Call):
            f = e.func
            if e.keywords: raise Untranslatable('keyword call')
            if isinstance(f, ast.Name) and f.id == 'len' and len(e.args) == 1:
                p, t, ty = self.expr(e.args[0])
                if ty != 'LF' or p: raise Untranslatable('len of a non-sequence')
                return [], '(zlen N %s)' % t, 'Z'
            if isinstance(f, ast.Name) and f.id == 'abs' and len(e.args) == 1:
                p, t, ty = self.expr(e.args[0])
                return p, '(nabs N %s)' % self.toF(t, ty), 'F'
            if isinstance(f, ast.Name) and f.id == '_clip_r' and len(e.args) == 1:
                # the module's own helper, translated as g_fit_clip_r (emitted before its users)
                if not self.have_clip: raise Untranslatable('_clip_r was not translated')
                p, t, ty = self.expr(e.args[0])
                v = self.fresh('c')
                return p + ['%s <- g_fit_clip_r N %s' % (v, self.toF(t, ty))], v, 'F'
            if isinstance(f, ast.Name) and self.env.get(f.id, (None,))[0] == 'LAM':
                lam = self.env[f.id][1]
                params = [a.arg for a in lam.args.args]
                if len(params) != len(e.args) or lam.args.defaults or lam.args.vararg or lam.args.kwarg:
                    raise Untranslatable('lambda call arity')
                saved = dict(self.env); pre = []
                bound = {}
                for prm, a in zip(params, e.args):
                    p, t, ty = self.expr(a)
                    pre += p; bound[prm] = (ty, t)
                self.env.update(bound)
                p, t, ty = self.expr(lam.body)
                self.env = saved
                return pre + p, t, ty
            if isinstance(f, ast.Attribute) and isinstance(f.value, ast.Name) and f.value.id == 'math':
                if f.attr == 'sqrt' and len(e.args) == 1:
                    p, t, ty = self.expr(e.args[0])
                    v = self.fresh('m')
                    return p + ['%s <- libm1 N F_sqrt %s' % (v, self.toF(t, ty))], v, 'F'
                if f.attr == 'fsum' and len(e.args) == 1:
                    p, t, ty = self.expr(e.args[0])
                    if ty != 'LF': raise Untranslatable('fsum of a non-sequence')
                    v = self.fresh('s')
                    return p + ['%s <- fsum N %s' % (v, t)], v, 'F'
            raise Untranslatable('call %s' % dump(f)[:80])
        if isinstance(e, (ast.ListComp, ast.GeneratorExp)):
            return self.comprehension(e)
        raise Untranslatable('expression %s' % type(e).__name__)

    def comprehension(self, e):
        if len(e.generators) != 1: raise Untranslatable('nested comprehension')
        g = e.generators[0]
        if g.ifs or g.is_async: raise Untranslatable('filtered comprehension')
        if isinstance(g.iter, ast.Call) and isinstance(g.iter.func, ast.Name) and g.iter.func.id in ('izip', 'zip') \
                and not g.iter.keywords:
            its = g.iter.args
            if not isinstance(g.target, ast.Tuple): raise Untranslatable('zip target')
            tgts = g.target.elts
        else:
            its = [g.iter]; tgts = [g.target]
        if len(its) != len(tgts) or not 1 <= len(its) <= 3: raise Untranslatable('comprehension arity')
        seqs = []
        for it in its:
            p, t, ty = self.expr(it)
            if p or ty != 'LF': raise Untranslatable('comprehension over a non-sequence')
            seqs.append(t)
        names = []
        saved = dict(self.env)
        for t in tgts:
            if not isinstance(t, ast.Name): raise Untranslatable('comprehension target')
            names.append(t.id)
            self.env[t.id] = ('F', t.id)
        p, t, ty = self.expr(e.elt)
        body = self.close(p, 'Ok %s' % self.toF(t, ty))
        self.env = saved
        v = self.fresh('l')
        return ['%s <- mapM%d N (fun %s => %s) %s' % (v, len(seqs), ' '.join(names), body, ' '.join(seqs))], v, 'LF'

    def ztest(self, t):
        """tests over Python ints: comparisons joined by `or`"""
        if isinstance(t, ast.BoolOp) and isinstance(t.op, ast.Or):
            return '(%s)' % ' || '.join(self.ztest(v) for v in t.values)
        if isinstance(t, ast.Compare) and len(t.ops) == 1:
            pl, tl, yl = self.expr(t.left); pr, tr, yr = self.expr(t.comparators[0])
            if pl or pr or yl != 'Z' or yr != 'Z': raise Untranslatable('test over non-integers')
            op = t.ops[0]
            if isinstance(op, ast.LtE):   return '(Z.leb %s %s)' % (tl, tr)
            if isinstance(op, ast.Lt):    return '(Z.ltb %s %s)' % (tl, tr)
            if isinstance(op, ast.NotEq): return '(negb (Z.eqb %s %s))' % (tl, tr)
            if isinstance(op, ast.Eq):    return '(Z.eqb %s %s)' % (tl, tr)
        raise Untranslatable('test %s' % dump(t)[:80])

    # ---------------- statements
    def is_raise_runtime(self, stmts):
        return (len(stmts) == 1 and isinstance(stmts[0], ast.Raise) and isinstance(stmts[0].exc, ast.Call)
                and isinstance(stmts[0].exc.func, ast.Name) and stmts[0].exc.func.id == 'RuntimeError')

    def dof_block(self, s):
        """if dof is None: df = E  else: if isinstance(dof,numbers.Number) and dof > 0: df = dof  else: raise RuntimeError
        -> (variable, gallina term : res dfval) or None"""
        probe = ast.parse("if dof is None:\n    df = 0\nelse:\n    if isinstance(dof,numbers.Number) and dof > 0:\n"
                          "        df = dof\n    else:\n        raise RuntimeError(0)").body[0]
        if not (isinstance(s, ast.If) and ast.dump(s.test) == ast.dump(probe.test)): return None
        if not (len(s.body) == 1 and isinstance(s.body[0], ast.Assign) and len(s.body[0].targets) == 1
                and isinstance(s.body[0].targets[0], ast.Name) and s.body[0].targets[0].id == 'df'):
            raise Untranslatable('dof block: default branch')
        if len(s.orelse) != 1 or not isinstance(s.orelse[0], ast.If): raise Untranslatable('dof block: else branch')
        i, pi = s.orelse[0], probe.orelse[0]
        if ast.dump(i.test) != ast.dump(pi.test) or not same_ast(i.body, 'df = dof') or not self.is_raise_runtime(i.orelse):
            raise Untranslatable('dof block: validation of dof')
        p, t, ty = self.expr(s.body[0].value)
        if p: raise Untranslatable('dof block: default value')
        if ty == 'Z': dflt = '(df_of_Z N %s)' % t
        elif ty == 'D': dflt = t
        else: raise Untranslatable('dof block: default type')
        return ('(match dof with\n    | DofNone => Ok %s\n    | DofNum d_ => if ltb N (of_Z N 0%%Z) d_ then Ok (df_of_num N d_) else Err RuntimeError\n'
                '    | DofBad => Err RuntimeError end)' % dflt)

    def block(self, stmts, is_tail, tail):
        if not stmts: raise Untranslatable('fell off the end')
        s, rest = stmts[0], stmts[1:]
        if is_tail(s): return tail(self, stmts)
        if isinstance(s, ast.AugAssign) and isinstance(s.target, ast.Name):
            s = ast.Assign(targets=[s.target], value=ast.BinOp(left=ast.Name(id=s.target.id, ctx=ast.Load()), op=s.op, right=s.value))
        if isinstance(s, ast.Assign) and len(s.targets) == 1 and isinstance(s.targets[0], ast.Name):
            name = s.targets[0].id; val = s.value
            if isinstance(val, ast.Lambda):
                self.env[name] = ('LAM', val)
                return self.block(rest, is_tail, tail)
            if isinstance(val, ast.Call) and isinstance(val.func, ast.Name) and val.func.id == 'value_seq':
                if not (len(val.args) == 1 and isinstance(val.args[0], ast.Name) and val.args[0].id == name
                        and self.env.get(name, (None,))[0] == 'LF'):
                    raise Untranslatable('value_seq shape')
                return self.block(rest, is_tail, tail)     # the model receives the values
            if isinstance(val, ast.Call) and isinstance(val.func, ast.Name) and val.func.id == 'ureal':
                if self.decl is not None: raise Untranslatable('two declarations')
                d = norm_ureal(val)
                px, tx, yx = self.expr(d['x']); pu, tu, yu = self.expr(d['u'])
                if self.key(d['df']) != 'df' or self.env.get('df', (None,))[0] != 'D' or self.env['df'][1] != 'df':
                    raise Untranslatable('declaration does not use the df of the fit')
                if not (isinstance(d['label'], ast.Name) and d['label'].id == self.label_param):
                    raise Untranslatable('declaration label')
                if d['independent'] is MISSING: ind = 'None'
                elif isinstance(d['independent'], ast.Constant) and isinstance(d['independent'].value, bool):
                    ind = '(Some %s)' % ('true' if d['independent'].value else 'false')
                else: raise Untranslatable('declaration independent=')
                self.decl = (name, px + pu, self.toF(tx, yx), self.toF(tu, yu), ind)
                self.env[name] = ('U', name)
                return self.block(rest, is_tail, tail)
            if name == 'df' and self.key(val) == 'a.df' and self.env.get('a.df') == ('D', 'df'):
                self.env['df'] = ('D', 'df')               # df = a.df : the df of the fit (a parameter)
                return self.block(rest, is_tail, tail)
            p, t, ty = self.expr(val)
            v = self.fresh(name)
            self.env[name] = (ty, v)
            body = self.block(rest, is_tail, tail)
            return self.close(p, '(let %s := %s in\n   %s)' % (v, t, body))
        if isinstance(s, ast.Assign) and len(s.targets) == 1 and isinstance(s.targets[0], ast.Tuple):
            names = [getattr(t, 'id', None) for t in s.targets[0].elts]
            if ast.dump(s.value) == ast.dump(ast.parse('self._a_b').body[0].value):
                if names != ['a', 'b']: raise Untranslatable('a, b = self._a_b')
                self.env['a'] = ('U', 'a'); self.env['b'] = ('U', 'b'); self.env['a.df'] = ('D', 'df')
                return self.block(rest, is_tail, tail)
            v = s.value
            if isinstance(v, ast.Call) and isinstance(v.func, ast.Name) and v.func.id == '_line_fit_wls' and not v.keywords:
                if not self.have_wls: raise Untranslatable('_line_fit_wls was not translated')
                args = []
                for a in v.args:
                    p, t, ty = self.expr(a)
                    if p or ty != 'LF': raise Untranslatable('_line_fit_wls argument')
                    args.append(t)
                if len(args) != 3 or len(names) != 7 or None in names: raise Untranslatable('_line_fit_wls call shape')
                vs = [self.fresh(n) for n in names]
                for n, w, ty in zip(names, vs, ['F'] * 6 + ['Z']):
                    self.env[n] = (ty, w)
                body = self.block(rest, is_tail, tail)
                return "('(%s) <- g__line_fit_wls N %s ;;\n   %s)" % (', '.join(vs), ' '.join(args), body)
            raise Untranslatable('tuple assignment')
        if isinstance(s, ast.If):
            d = self.dof_block(s)
            if d is not None:
                v = self.fresh('df')
                self.env['df'] = ('D', v)
                body = self.block(rest, is_tail, tail)
                return '(%s <- %s ;;\n   %s)' % (v, d, body)
            if self.is_raise_runtime(s.body) and not s.orelse:
                c = self.ztest(s.test)
                return '(if %s then Err RuntimeError else\n   %s)' % (c, self.block(rest, is_tail, tail))
            raise Untranslatable('if shape')
        raise Untranslatable('statement %s' % type(s).__name__)


LABEL_T = "'%s_{}'.format(label) if label is not None else None"

def fit_tail(cls):
    def tail(c, stmts):
        if len(stmts) != 5: raise Untranslatable('fit tail: %d statements' % len(stmts))
        out = {}
        dfterm = None
        for s, nm in zip(stmts[:2], 'ab'):
            if not (isinstance(s, ast.Assign) and len(s.targets) == 1 and isinstance(s.targets[0], ast.Name)
                    and s.targets[0].id == nm):
                raise Untranslatable('fit tail: declaration of %s' % nm)
            d = norm_ureal(s.value)
            for fld in ('x', 'u'):
                p, t, ty = c.expr(d[fld])
                if p or ty != 'F' or not isinstance(d[fld], ast.Name): raise Untranslatable('fit tail: %s.%s' % (nm, fld))
                out[nm + fld] = t
            if not isinstance(d['df'], ast.Name) or d['df'].id != 'df': raise Untranslatable('fit tail: df')
            p, t, ty = c.expr(d['df'])
            this = '(df_of_Z N %s)' % t if ty == 'Z' else t if ty == 'D' else None
            if this is None or (dfterm is not None and this != dfterm): raise Untranslatable('fit tail: df type')
            dfterm = this
            if d['label'] is MISSING or ast.dump(d['label']) != ast.dump(ast.parse(LABEL_T % nm).body[0].value):
                raise Untranslatable('fit tail: label of %s' % nm)
            if not (isinstance(d['independent'], ast.Constant) and d['independent'].value is False):
                raise Untranslatable('fit tail: %s must be declared independent=False' % nm)
        if not same_ast(stmts[2:3], 'real_ensemble( (a,b), df )'): raise Untranslatable('fit tail: real_ensemble')
        s = stmts[3]
        probe = ast.parse('a.set_correlation(R,b)').body[0]
        if not (isinstance(s, ast.Expr) and isinstance(s.value, ast.Call) and len(s.value.args) == 2 and not s.value.keywords
                and ast.dump(s.value.func) == ast.dump(probe.value.func)
                and ast.dump(s.value.args[1]) == ast.dump(probe.value.args[1]) and isinstance(s.value.args[0], ast.Name)):
            raise Untranslatable('fit tail: set_correlation')
        p, r, ty = c.expr(s.value.args[0])
        if p or ty != 'F': raise Untranslatable('fit tail: correlation value')
        s = stmts[4]
        if not (isinstance(s, ast.Return) and isinstance(s.value, ast.Call) and isinstance(s.value.func, ast.Name)
                and s.value.func.id == cls and len(s.value.args) == 4 and not s.value.keywords
                and [getattr(a, 'id', None) for a in s.value.args[:2]] == ['a', 'b']):
            raise Untranslatable('fit tail: return %s(a,b,..)' % cls)
        p1, ssr, y1 = c.expr(s.value.args[2]); p2, n, y2 = c.expr(s.value.args[3])
        if p1 or p2 or y1 != 'F' or y2 != 'Z': raise Untranslatable('fit tail: ssr, N')
        return 'Ok (mkFS %s %s %s %s %s %s %s %s)' % (out['ax'], out['au'], out['bx'], out['bu'], dfterm, r, ssr, n)
    return tail

def is_decl_ab(s):
    return (isinstance(s, ast.Assign) and len(s.targets) == 1 and isinstance(s.targets[0], ast.Name)
            and s.targets[0].id == 'a' and isinstance(s.value, ast.Call)
            and isinstance(s.value.func, ast.Name) and s.value.func.id == 'ureal')

def check_sig(fn, names, defaults):
    a = fn.args
    if [x.arg for x in a.args] != names or a.vararg or a.kwarg or a.kwonlyargs or getattr(a, 'posonlyargs', []):
        raise Untranslatable('signature %r' % ([x.arg for x in a.args],))
    if [dump(d) for d in a.defaults] != [dump(ast.Constant(value=None))] * defaults:
        raise Untranslatable('defaults')

WTLS_REST = '''
independent = r_xy is None
x_u = [ ureal( value(x_i),u_i,inf,None,independent=independent) for x_i, u_i in izip(x,u_x) ]
y_u = [ ureal( value(y_i),u_i,inf,None,independent=independent) for y_i, u_i in izip(y,u_y) ]
if not independent:
    for x_i,y_i,r_i in izip(x_u,y_u,r_xy):
        x_i.set_correlation(r_i,y_i)
result = type_b.line_fit_wtls(x_u,y_u,a_b=a0_b0)
a, b = result.a_b
N = result.N
ssr = result.ssr
r_ab = %(RAB)s
a = ureal(a.x, a.u, df, label='a_{}'.format(label) if label is not None else None, independent=False)
b = ureal(b.x, b.u, df, label='b_{}'.format(label) if label is not None else None, independent=False)
real_ensemble( (a,b), df )
a.set_correlation(r_ab,b)
return LineFitWTLS(a,b,ssr,N)
'''

X_FROM_Y_TAIL = '''
append_real_ensemble(a,y)
if abs(b) < 1E-15:
    x = a
else:
    x = (y - a)/b
if x_label is not None:
    x = result( x, label=x_label )
return x
'''
Y_FROM_X_TAIL = '''
append_real_ensemble(a,noise)
if y_label is None:
    y = a + b*x + noise
else:
    y = result( a + b*x + noise, label=y_label )
return y
'''

def is_append(s):
    return (isinstance(s, ast.Expr) and isinstance(s.value, ast.Call) and isinstance(s.value.func, ast.Name)
            and s.value.func.id == 'append_real_ensemble')

def pred_tail(template, var):
    def tail(c, stmts):
        if c.decl is None or c.decl[0] != var: raise Untranslatable('the extra input %s is not declared' % var)
        if not same_ast(stmts, template): raise Untranslatable('prediction tail differs from the modelled shape')
        _, pre, x, u, ind = c.decl
        return c.close(pre, 'Ok (mkPS %s %s %s)' % (x, u, ind))
    return tail

CLIP_R = '''
if 1.0 < abs(r) < 1.0 + 1E-10:
    return 1.0 if r > 0.0 else -1.0
else:
    return r
'''

VT = '(T N)'
LT = '(list (T N))'

def generate(repo):
    src = open(os.path.join(repo, 'GTC', 'type_a.py')).read()
    tree = ast.parse(src)
    out = ['(* GENERATED by tools/tr_type_a_fit.py from GTC/type_a.py -- do not edit *)',
           'From Coq Require Import ZArith List Bool.',
           'From GTCV Require Import Num Vector Opres KTypes FitLib.',
           'Import ListNotations.', '']
    status = {}
    state = {'wls': False, 'clip': False, 'wtls_clip': None}

    def emit(gname, params, rtype, thunk):
        try:
            body = thunk()
            out.append('Definition %s (N : Num) %s : res %s :=\n  %s.\n' % (gname, params, rtype, body))
            status[gname] = True
        except Untranslatable as ex:
            out.append('(* UNTRANSLATABLE %s: %s *)\n' % (gname, ex))
            status[gname] = False

    def getfn(name, cls=None):
        fn = find_func(tree, name, cls)
        if fn is None: raise Untranslatable('%s%s not found' % (cls + '.' if cls else '', name))
        return fn

    def new(env):
        c = Comp(env); c.have_wls = state['wls']; c.have_clip = state['clip']; c.label_param = None
        return c

    # ---- _clip_r: r with rounding error just outside [-1,1] removed (compared with the modelled shape;
    #      Python's chained comparison a < b < c is (a < b) and (b < c))
    def th():
        fn = getfn('_clip_r'); check_sig(fn, ['r'], 0)
        if not same_ast(strip_doc(fn.body), CLIP_R): raise Untranslatable('_clip_r differs from the modelled shape')
        kind, (m, e) = dyadic(1E-10)
        one = '(dyad N 1%Z 0%Z)'
        return ('(if (andb (ltb N %s (nabs N r)) (ltb N (nabs N r) (add N %s (dyad N %s %s)))) then\n'
                '     (Ok (if (ltb N (dyad N 0%%Z 0%%Z) r) then %s else (neg N %s)))\n   else (Ok r))'
                % (one, one, zlit(m), zlit(e), one, one))
    emit('g_fit_clip_r', '(r : %s)' % VT, VT, th)
    state['clip'] = status['g_fit_clip_r']

    # ---- _line_fit_wls
    def th():
        fn = getfn('_line_fit_wls'); check_sig(fn, ['x', 'y', 'u_y'], 0)
        c = new({'x': ('LF', 'x'), 'y': ('LF', 'y'), 'u_y': ('LF', 'u_y')})
        def tail(c, stmts):
            s = stmts[0]
            if len(stmts) != 1 or not isinstance(s.value, ast.Tuple) or len(s.value.elts) != 7: raise Untranslatable('return shape')
            ts = []
            for e, want in zip(s.value.elts, ['F'] * 6 + ['Z']):
                p, t, ty = c.expr(e)
                if p or ty != want: raise Untranslatable('return element')
                ts.append(t)
            return 'Ok (%s)' % ', '.join(ts)
        return c.block(strip_doc(fn.body), lambda s: isinstance(s, ast.Return), tail)
    emit('g__line_fit_wls', '(x y u_y : %s)' % LT, '(%s * %s * %s * %s * %s * %s * Z)' % ((VT,) * 6), th)
    state['wls'] = status['g__line_fit_wls']

    # ---- the three fit functions
    def th():
        fn = getfn('line_fit'); check_sig(fn, ['x', 'y', 'label'], 1)
        c = new({'x': ('LF', 'x'), 'y': ('LF', 'y')})
        return c.block(strip_doc(fn.body), is_decl_ab, fit_tail('LineFitOLS'))
    emit('g_line_fit', '(x y : %s)' % LT, '(fitspec (T N))', th)
    for nm, w, cls in [('line_fit_wls', 'u_y', 'LineFitWLS'), ('line_fit_rwls', 's_y', 'LineFitRWLS')]:
        def th(nm=nm, w=w, cls=cls):
            fn = getfn(nm); check_sig(fn, ['x', 'y', w, 'dof', 'label'], 2)
            c = new({'x': ('LF', 'x'), 'y': ('LF', 'y'), w: ('LF', w)})
            return c.block(strip_doc(fn.body), is_decl_ab, fit_tail(cls))
        emit('g_' + nm, '(x y %s : %s) (dof : dofarg (T N))' % (w, LT), '(fitspec (T N))', th)

    # ---- the wrapper of type_b.line_fit_wtls: argument checks translated, the rest compared
    def th():
        fn = getfn('line_fit_wtls'); check_sig(fn, ['x', 'y', 'u_x', 'u_y', 'a0_b0', 'r_xy', 'dof', 'label'], 4)
        c = new({k: ('LF', k) for k in ('x', 'y', 'u_x', 'u_y')})
        def is_tail(s):
            return (isinstance(s, ast.Assign) and isinstance(s.targets[0], ast.Name) and s.targets[0].id == 'independent')
        def tail(c, stmts):
            # the correlation of the type-B result is re-declared either as it is or through _clip_r
            if same_ast(stmts, WTLS_REST % {'RAB': '_clip_r( a.get_correlation(b) )'}): state['wtls_clip'] = True
            elif same_ast(stmts, WTLS_REST % {'RAB': 'a.get_correlation(b)'}): state['wtls_clip'] = False
            else: raise Untranslatable('wrapper body differs from the modelled shape')
            ty, t = c.env.get('df', (None, None))
            if ty != 'D': raise Untranslatable('df')
            return 'Ok %s' % t
        return c.block(strip_doc(fn.body), is_tail, tail)
    emit('g_line_fit_wtls_df', '(x y u_x u_y : %s) (dof : dofarg (T N))' % LT, '(dfval %s)' % VT, th)

    # ---- what the wrapper does to the correlation r of the type-B result before a.set_correlation(r_ab, b)
    def th():
        if not status.get('g_line_fit_wtls_df'): raise Untranslatable('the wrapper was not translated')
        if state['wtls_clip']:
            if not state['clip']: raise Untranslatable('_clip_r was not translated')
            return '(c_1 <- g_fit_clip_r N r ;;\n   Ok c_1)'
        return 'Ok r'
    emit('g_line_fit_wtls_r', '(r : %s)' % VT, VT, th)

    # ---- prediction methods
    PRED = [
        ('LineFitOLS', 'x_from_y', ['self', 'yseq', 'x_label', 'y_label'], 2, {'yseq': 'LF'}, 'y_label', X_FROM_Y_TAIL, 'y'),
        ('LineFitOLS', 'y_from_x', ['self', 'x', 's_label', 'y_label'], 2, {}, 's_label', Y_FROM_X_TAIL, 'noise'),
        ('LineFitRWLS', 'x_from_y', ['self', 'yseq', 's_y', 'x_label', 'y_label'], 2, {'yseq': 'LF', 's_y': 'F'}, 'y_label', X_FROM_Y_TAIL, 'y'),
        ('LineFitRWLS', 'y_from_x', ['self', 'x', 's_y', 's_label', 'y_label'], 2, {'s_y': 'F'}, 's_label', Y_FROM_X_TAIL, 'noise'),
        ('LineFitWLS', 'x_from_y', ['self', 'y_data', 'u_y_data', 'x_label', 'y_label'], 2, {'y_data': 'LF', 'u_y_data': 'F'}, 'y_label', X_FROM_Y_TAIL, 'y'),
        ('LineFitWLS', 'y_from_x', ['self', 'x', 's_y', 's_label', 'y_label'], 2, {'s_y': 'F'}, 's_label', Y_FROM_X_TAIL, 'noise'),
    ]
    for cls, meth, sig, ndef, params, lab, template, var in PRED:
        gname = 'g_%s_%s' % (cls[7:], meth)
        def th(cls=cls, meth=meth, sig=sig, ndef=ndef, params=params, lab=lab, template=template, var=var):
            fn = getfn(meth, cls); check_sig(fn, sig, ndef)
            env = {'self._ssr': ('F', 'ssr')}
            for k, ty in params.items(): env[k] = (ty, k)
            c = new(env); c.label_param = lab
            return c.block(strip_doc(fn.body), is_append, pred_tail(template, var))
        ps = ' '.join('(%s : %s)' % (k, LT if ty == 'LF' else VT) for k, ty in params.items())
        emit(gname, '(ssr : %s) (df : dfval %s) %s' % (VT, VT, ps), '(predspec (T N))', th)

    # ---- the |b| threshold of x_from_y (part of the compared tail)
    kind, (m, e) = dyadic(1E-15)
    out.append('Definition g_pred_threshold (N : Num) : T N := dyad N %s %s.\n' % (zlit(m), zlit(e)))
    return '\n'.join(out) + '\n', status

def main(repo=None, outdir=None):
    if repo is None:
        repo, outdir = sys.argv[1], sys.argv[2]
    text, st = generate(repo)
    os.makedirs(outdir, exist_ok=True)
    open(os.path.join(outdir, 'Gen_type_a_fit.v'), 'w').write(text)
    bad = [k for k, v in st.items() if not v]
    print('tr_type_a_fit: Gen_type_a_fit.v: %d definitions, %d untranslatable %s' % (len(st) - len(bad), len(bad), bad))
    return st

if __name__ == '__main__':
    main()

(* LineFitA.v -- executable model of the type-A straight-line fits of GTC/type_a.py
   (line_fit, line_fit_wls, line_fit_rwls, the line_fit_wtls wrapper) and of the prediction
   methods x_from_y / y_from_x of LineFitOLS, LineFitRWLS, LineFitWLS, on top of the
   uncertain-real kernel (Kernel.v).  The arithmetic of every function is GENERATED
   (gen/Gen_type_a_fit.v); what is hand-written here is what the translator compares the rest
   of each function with: declaration of a and b as dependent elementary inputs, real_ensemble,
   set_correlation; for the prediction methods the declaration of the extra input,
   append_real_ensemble, and the returned expression (evaluated with Kernel.eval_un, i.e. with
   the generated operator bodies of lib.py).  Definitions only. *)
From Coq Require Import ZArith List Bool.
From GTCV Require Import Num Vector Opres KTypes Kernel FitLib.
From GTCV.gen Require Import Gen_lib_real Gen_type_a_fit.
Import ListNotations.

(* ---------- programs (parametric in the carrier only) ---------- *)
Section FitOps.
  Variable V : Type.

  Inductive fitcls := COLS | CWLS | CRWLS | CWTLS.

  (* what type_b.line_fit_wtls returned (an external computation for this property):
     number of elementary uids consumed before a is declared, a.x a.u b.x b.u, the correlation
     of the type-B (a, b), ssr N *)
  Inductive wtls_oracle :=
  | mkWO (skip : Z) (ax au bx bu r ssr : V) (n : Z)
  | WOExn (skip : Z) (e : exn).        (* type_b.line_fit_wtls itself raised e *)

  Inductive fop :=
  | FK (o : op V)                                         (* any kernel operation / observation *)
  | FFitOLS (x y : list V) (label : option Z)
  | FFitWLS (x y u : list V) (dof : dofarg V) (label : option Z)
  | FFitRWLS (x y sy : list V) (dof : dofarg V) (label : option Z)
  | FFitWTLS (x y ux uy : list V) (dof : dofarg V) (label : option Z) (o : option wtls_oracle)
  | FXfromY (f : nat) (ys : list V) (extra : option V) (x_label y_label : option Z)
  | FYfromX (f : nat) (x : arg V) (extra : option V) (s_label y_label : option Z)
  | FEnsOf (ks : list key).          (* observation: the ensemble (content) of each of these live Leaf nodes *)

  (* a fit object: class, the slots holding a and b, ssr, N *)
  Record fit := mkFit { ft_cls : fitcls; ft_a : nat; ft_b : nat; ft_ssr : V; ft_n : Z }.
  Record fstate := mkF { fk : state V; ffits : list (option fit) }.
End FitOps.

Arguments mkWO {V}. Arguments WOExn {V}. Arguments FK {V}. Arguments FFitOLS {V}. Arguments FFitWLS {V}. Arguments FFitRWLS {V}.
Arguments FFitWTLS {V}. Arguments FXfromY {V}. Arguments FYfromX {V}. Arguments FEnsOf {V}.
Arguments mkFit {V}. Arguments ft_cls {V}. Arguments ft_a {V}. Arguments ft_b {V}. Arguments ft_ssr {V}. Arguments ft_n {V}.
Arguments mkF {V}. Arguments fk {V}. Arguments ffits {V}.

Section LineFitA.
  Variable N : Num.
  Notation V := (T N).
  Notation state := (state V). Notation ureal := (ureal V). Notation out := (out V).
  Notation fstate := (fstate V). Notation fit := (fit V).

  (* labels 'a_<l>' and 'b_<l>' are coded 2l and 2l+1 *)
  Definition lab_a (l : option Z) : option Z := option_map (fun z => (2 * z)%Z) l.
  Definition lab_b (l : option Z) : option Z := option_map (fun z => (2 * z + 1)%Z) l.

  (* a = ureal(a_,siga,df,label_a,independent=False); b = ...; real_ensemble((a,b),df);
     a.set_correlation(r_ab,b).  The state is returned also on failure: the declarations
     that succeeded have happened. *)
  Definition declare_fit (s : state) (fs : fitspec V) (label : option Z) : state * res (ureal * ureal) :=
    match elementary N s (fs_ax fs) (fs_au fs) (fs_df fs) (lab_a label) false with
    | Err e => (s, Err e)
    | Ok (s1, a) =>
        match elementary N s1 (fs_bx fs) (fs_bu fs) (fs_df fs) (lab_b label) false with
        | Err e => (s1, Err e)
        | Ok (s2, b) =>
            let s3 := real_ensemble N s2 [a; b] in
            match set_correlation N s3 (fs_r fs) a b with
            | Err e => (s3, Err e)
            | Ok s4 => (s4, Ok (a, b))
            end
        end
    end.

  (* append_real_ensemble(member, x) *)
  Definition append_ens (s : state) (member x : ureal) : res state :=
    match unode member, unode x with
    | LeafRef km, LeafRef kx =>
        lm <- leaf_of N s km ;; lx <- leaf_of N s kx ;;
        if l_indep lx then Err AssertionError
        else if l_indep lm then Err AttributeError      (* an independent Leaf has no ensemble *)
        else
          let eid := l_ens lm in
          let s1 := mkS (s_ctx s) (s_ne s) (s_ni s) (s_leaves s) (s_nodes s)
                        (set_nth (s_ens s) eid (kinsert kx (nth eid (s_ens s) []))) (s_slots s) in
          Ok (set_leaf_ens N s1 kx eid)
    | _, _ => Err AttributeError
    end.

  (* ---------- observations ---------- *)
  Definition lab_out (l : option Z) : out :=
    match l with None => OutUnit | Some z => OutVal (of_Z N z) end.
  Definition out_keys (ks : list key) : out :=
    OutList (map (fun k => OutObj (of_Z N 0) [] [] [] (KElem k)) ks).

  (* u, df, label, independent?, ensemble of the Leaf of an elementary object *)
  Definition leaf_out (s : state) (o : ureal) : out :=
    match unode o with
    | LeafRef k =>
        match assoc (s_leaves s) k with
        | Some l => OutList [OutVal (l_u l); OutDof (l_df l); lab_out (l_label l);
                             OutVal (of_Z N (if l_indep l then 1 else 0)); out_keys (ens_of N s l)]
        | None => OutExn KeyError
        end
    | _ => OutExn TypeError
    end.

  Definition push2 (s : state) (a b : slot V) : state := push N (push N s a) b.
  Definition push3 (s : state) (a b c : slot V) : state := push N (push N (push N s a) b) c.

  (* ---------- the fit functions ---------- *)
  Definition finish_fit (st : fstate) (cls : fitcls) (s0 : state) (r : res (fitspec V)) (label : option Z)
    : fstate * out :=
    match r with
    | Err e => (mkF (push2 s0 SErr SErr) (ffits st ++ [None]), OutExn e)
    | Ok fs =>
        match declare_fit s0 fs label with
        | (s', Err e) => (mkF (push2 s' SErr SErr) (ffits st ++ [None]), OutExn e)
        | (s', Ok (a, b)) =>
            let ia := length (s_slots s') in
            (mkF (push2 s' (SReal a None) (SReal b None))
                 (ffits st ++ [Some (mkFit cls ia (S ia) (fs_ssr fs) (fs_n fs))]),
             OutList [dump N a; dump N b; leaf_out s' a; leaf_out s' b;
                      OutVal (fs_ssr fs); OutVal (of_Z N (fs_n fs))])
        end
    end.

  Definition skip_uids (s : state) (k : Z) : state :=
    mkS (s_ctx s) (s_ne s + k)%Z (s_ni s) (s_leaves s) (s_nodes s) (s_ens s) (s_slots s).

  Definition wtls_spec (x y ux uy : list V) (dof : dofarg V) (o : option (wtls_oracle V))
    : res (Z * res (fitspec V)) :=
    df <- g_line_fit_wtls_df N x y ux uy dof ;;
    match o with
    | None => Err OracleMissing
    | Some (mkWO skip ax au bx bu r ssr n) =>
        (* r_ab = [_clip_r(] a.get_correlation(b) [)] : generated, as the source has it *)
        r_ab <- g_line_fit_wtls_r N r ;;
        Ok (skip, Ok (mkFS ax au bx bu df r_ab ssr n))
    | Some (WOExn skip e) => Ok (skip, Err e)
    end.

  (* ---------- the prediction methods ---------- *)
  Definition pred_spec_x (cls : fitcls) (ssr : V) (df : dfval V) (ys : list V) (extra : option V)
    : res (predspec V) :=
    match cls, extra with
    | COLS, None => g_OLS_x_from_y N ssr df ys
    | CRWLS, Some sy => g_RWLS_x_from_y N ssr df ys sy
    | CWLS, Some u => g_WLS_x_from_y N ssr df ys u
    | CWTLS, _ => Err AttributeError          (* LineFitWTLS has no prediction methods *)
    | _, _ => Err TypeError                   (* wrong number of arguments *)
    end.

  Definition pred_spec_y (cls : fitcls) (ssr : V) (df : dfval V) (extra : option V) : res (predspec V) :=
    match cls, extra with
    | COLS, None => g_OLS_y_from_x N ssr df
    | CRWLS, Some sy => g_RWLS_y_from_x N ssr df sy
    | CWLS, Some sy => g_WLS_y_from_x N ssr df sy
    | CWTLS, _ => Err AttributeError
    | _, _ => Err TypeError
    end.

  (* y = ureal(value, u, df, label=.., [independent=..]); append_real_ensemble(a, y) *)
  Definition declare_extra (s : state) (a : ureal) (d : dfval V) (ps : predspec V) (label : option Z)
    : res (state * ureal) :=
    match ps_indep ps with
    | None => Err TypeError              (* _elementary() missing 1 required positional argument *)
    | Some ind =>
        '(s1, y) <- elementary N s (ps_x ps) (ps_u ps) d label ind ;;
        s2 <- append_ens s1 a y ;;
        Ok (s2, y)
    end.

  (* the common prefix of a prediction: a, b = self._a_b; df = a.df; arithmetic; extra input *)
  Definition pred_prefix (s : state) (f : fit) (spec : dfval V -> res (predspec V)) (label : option Z)
    : res (state * ureal * ureal * ureal) :=
    '(_, a, _) <- get_real N s (ft_a f) ;;
    '(_, b, _) <- get_real N s (ft_b f) ;;
    d <- node_df N s a ;;
    ps <- spec d ;;
    '(s1, y) <- declare_extra s a d ps label ;;
    Ok (s1, a, b, y).

  (* the returned object sits in slot i; `if label is not None: x = result(x, label)`;
     the Leaf observations are made on the final state *)
  Definition finish_pred (st : fstate) (s : state) (i : nat) (label : option Z) (obs : state -> list out) (raw : out)
    : fstate * out :=
    match label with
    | None => (mkF (push N s (SAlias i)) (ffits st), OutList (obs s ++ [raw]))
    | Some l => let '(s', o) := step N s (OpResult i (Some l)) in
                (mkF s' (ffits st), OutList (obs s' ++ [o]))
    end.

  Definition x_expr (iy ia ib : nat) : expr N :=
    EBin N B_div (EBin N B_sub (EVar N iy) (EVar N ia)) (EVar N ib).
  Definition y_expr (ia ib : nat) (x : expr N) (inoise : nat) : expr N :=
    EBin N B_add (EBin N B_add (EVar N ia) (EBin N B_mul (EVar N ib) x)) (EVar N inoise).

  Definition do_x_from_y (st : fstate) (f : fit) (ys : list V) (extra : option V)
             (x_label y_label : option Z) : fstate * out :=
    let s := fk st in
    match pred_prefix s f (fun d => pred_spec_x (ft_cls f) (ft_ssr f) d ys extra) y_label with
    | Err e => (mkF (push3 s SErr SErr SErr) (ffits st), OutExn e)
    | Ok (s1, a, b, y) =>
        let iy := length (s_slots s1) in
        let s2 := push N s1 (SReal y None) in
        let obs := fun s' => [leaf_out s' y; leaf_out s' a] in
        if ltb N (nabs N (ux b)) (g_pred_threshold N) then
          (* the best-fit line is horizontal: x = a; the new input is referenced by nothing but
             the ensemble (its Leaf is unobservable: the registry is weak) *)
          finish_pred st (push N s2 (SAlias (ft_a f))) (S iy) x_label (fun s' => [leaf_out s' a])
                      (OutSame (resolve N s2 (ft_a f)))
        else
          match eval_un N s2 (x_expr iy (ft_a f) (ft_b f)) with
          | Ok (OpdU x) => finish_pred st (push N s2 (SReal x None)) (S iy) x_label obs (dump N x)
          | Ok (OpdN _) => (mkF (push2 s2 SErr SErr) (ffits st), OutExn OtherExn)
          | Err e => (mkF (push2 s2 SErr SErr) (ffits st), OutExn e)
          end
    end.

  Definition do_y_from_x (st : fstate) (f : fit) (x : arg V) (extra : option V)
             (s_label y_label : option Z) : fstate * out :=
    let s := fk st in
    match pred_prefix s f (fun d => pred_spec_y (ft_cls f) (ft_ssr f) d extra) s_label with
    | Err e => (mkF (push3 s SErr SErr SErr) (ffits st), OutExn e)
    | Ok (s1, a, b, nz) =>
        let inz := length (s_slots s1) in
        let s2 := push N s1 (SReal nz None) in
        let obs := fun s' => [leaf_out s' nz; leaf_out s' a] in
        let xe := match x with ARef i => EVar N i | ANum v => ENum N v end in
        match eval_un N s2 (y_expr (ft_a f) (ft_b f) xe inz) with
        | Ok (OpdU y) => finish_pred st (push N s2 (SReal y None)) (S inz) y_label obs (dump N y)
        | Ok (OpdN _) => (mkF (push2 s2 SErr SErr) (ffits st), OutExn OtherExn)
        | Err e => (mkF (push2 s2 SErr SErr) (ffits st), OutExn e)
        end
    end.

  (* ---------- one step ---------- *)
  Definition fstep (st : fstate) (o : fop V) : fstate * out :=
    match o with
    | FK k => let '(s', r) := step N (fk st) k in (mkF s' (ffits st), r)
    | FFitOLS x y label => finish_fit st COLS (fk st) (g_line_fit N x y) label
    | FFitWLS x y u dof label => finish_fit st CWLS (fk st) (g_line_fit_wls N x y u dof) label
    | FFitRWLS x y sy dof label => finish_fit st CRWLS (fk st) (g_line_fit_rwls N x y sy dof) label
    | FFitWTLS x y ux uy dof label o =>
        match wtls_spec x y ux uy dof o with
        | Err e => finish_fit st CWTLS (fk st) (Err e) label
        | Ok (skip, r) => finish_fit st CWTLS (skip_uids (fk st) skip) r label
        end
    | FXfromY i ys extra xl yl =>
        match nth_error (ffits st) i with
        | Some (Some f) => do_x_from_y st f ys extra xl yl
        | _ => (mkF (push3 (fk st) SErr SErr SErr) (ffits st), OutExn AttributeError)
        end
    | FYfromX i x extra sl yl =>
        match nth_error (ffits st) i with
        | Some (Some f) => do_y_from_x st f x extra sl yl
        | _ => (mkF (push3 (fk st) SErr SErr SErr) (ffits st), OutExn AttributeError)
        end
    | FEnsOf ks =>
        (* no state change, no slot: what `leaf.ensemble` holds now, for each Leaf asked for *)
        (st, OutList (map (fun k => match assoc (s_leaves (fk st)) k with
                                    | Some l => out_keys (ens_of N (fk st) l)
                                    | None => OutExn KeyError
                                    end) ks))
    end.

  Fixpoint frun (st : fstate) (p : list (fop V)) : fstate * list out :=
    match p with
    | [] => (st, [])
    | o :: p' => let '(st', r) := fstep st o in
                 let '(st'', rs) := frun st' p' in (st'', r :: rs)
    end.

  Definition finit (ctx : Z) : fstate := mkF (init N ctx) [].
End LineFitA.

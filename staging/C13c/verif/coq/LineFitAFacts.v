(* LineFitAFacts.v -- theorems about the GENERATED straight-line-fit formulas of
   gen/Gen_type_a_fit.v (translated from GTC/type_a.py on every run), instantiated at the
   reals.  Style: inversion.  Whenever a generated function returns (no exception), its
   results satisfy the (weighted) normal equations, its uncertainties and correlation are
   the entries of sigma^2 (X^T W X)^-1, ssr is the weighted residual sum, N the number of
   points and df follows the documented rule.  Nothing is assumed about the data: that the
   weights are non-zero and the design is not degenerate (S_tt <> 0) FOLLOWS from the fact
   that the function returned.  Totality on the intended domain is proved separately
   (wls_total) so that the statements are not vacuous. *)
From Coq Require Import ZArith List Bool Reals Lia Lra Psatz.
From GTCV Require Import Num RNum Vector Opres KTypes Kernel FitLib LineFitA DerivTable.
From GTCV.gen Require Import Gen_type_a_fit.
Import ListNotations.
Local Open Scope R_scope.

(* ---------- data points and sums ---------- *)
Definition pt := (R * R * R)%type.                 (* x_i, y_i, u_i (or scale factor s_i) *)
Definition px (p : pt) : R := fst (fst p).
Definition py (p : pt) : R := snd (fst p).
Definition pu (p : pt) : R := snd p.

Definition sumf (l : list R) : R := fold_right Rplus 0 l.
Definition Sm {A} (g : A -> R) (l : list A) : R := sumf (map g l).
(* weighted sum with weights 1/u^2 *)
Definition Sw (g : pt -> R) (l : list pt) : R := Sm (fun p => g p / (pu p * pu p)) l.

Lemma Sm_ext {A} (f g : A -> R) l : (forall p, In p l -> f p = g p) -> Sm f l = Sm g l.
Proof.
  unfold Sm. induction l as [|p l IH]; simpl; intros H; [reflexivity|].
  rewrite (H p) by auto. rewrite IH; auto.
Qed.
Lemma Sm_plus {A} (f g : A -> R) l : Sm (fun p => f p + g p) l = Sm f l + Sm g l.
Proof. unfold Sm. induction l; simpl; [lra|]. rewrite IHl. lra. Qed.
Lemma Sm_scal {A} c (f : A -> R) l : Sm (fun p => c * f p) l = c * Sm f l.
Proof. unfold Sm. induction l; simpl; [lra|]. rewrite IHl. lra. Qed.
Lemma Sm_nonneg {A} (f : A -> R) l : (forall p, In p l -> 0 <= f p) -> 0 <= Sm f l.
Proof.
  unfold Sm. induction l as [|p l IH]; simpl; intros H; [lra|].
  pose proof (H p (or_introl eq_refl)). assert (0 <= sumf (map f l)) by (apply IH; auto). lra.
Qed.
Lemma Sm_pos {A} (f : A -> R) l : l <> [] -> (forall p, In p l -> 0 < f p) -> 0 < Sm f l.
Proof.
  unfold Sm. destruct l as [|p l]; [congruence|]. intros _ H. simpl.
  pose proof (H p (or_introl eq_refl)).
  assert (0 <= Sm f l) by (apply Sm_nonneg; intros; apply Rlt_le, H; simpl; auto).
  unfold Sm in *. lra.
Qed.
Lemma Sm_const {A} c (l : list A) : Sm (fun _ => c) l = INR (length l) * c.
Proof.
  unfold Sm, sumf. induction l as [|a l IH]; [simpl; lra|].
  change (length (a :: l)) with (S (length l)). rewrite S_INR. simpl. rewrite IH. lra.
Qed.

(* a linear combination of three sums, from a pointwise identity *)
Lemma Sm_lin3 {A} (f g1 g2 g3 : A -> R) c1 c2 c3 l :
  (forall p, In p l -> f p = c1 * g1 p + c2 * g2 p + c3 * g3 p) ->
  Sm f l = c1 * Sm g1 l + c2 * Sm g2 l + c3 * Sm g3 l.
Proof.
  intros H. rewrite (Sm_ext f (fun p => c1 * g1 p + c2 * g2 p + c3 * g3 p)) by exact H.
  rewrite !Sm_plus, !Sm_scal. reflexivity.
Qed.
Lemma Sm_lin2 {A} (f g1 g2 : A -> R) c1 c2 l :
  (forall p, In p l -> f p = c1 * g1 p + c2 * g2 p) -> Sm f l = c1 * Sm g1 l + c2 * Sm g2 l.
Proof.
  intros H. rewrite (Sm_ext f (fun p => c1 * g1 p + c2 * g2 p)) by exact H.
  rewrite !Sm_plus, !Sm_scal. reflexivity.
Qed.

(* ---------- inversion of generated code evaluated at RNum ---------- *)
Lemma bind_ok {A B} (r : res A) (f : A -> res B) b :
  bind r f = Ok b -> exists a, r = Ok a /\ f a = Ok b.
Proof. destruct r; simpl; intros H; [eauto|discriminate]. Qed.

Lemma div_inv a b q : div RNum a b = Ok q -> b <> 0 /\ q = a / b.
Proof. simpl. unfold R_div. destruct (Req_EM_T b 0); intros H; [discriminate|]. injection H as <-. auto. Qed.
Lemma div_ok a b : b <> 0 -> div RNum a b = Ok (a / b).
Proof. simpl. unfold R_div. destruct (Req_EM_T b 0); [contradiction|reflexivity]. Qed.
Lemma sqrt_inv x m : libm1 RNum F_sqrt x = Ok m -> 0 <= x /\ m = sqrt x.
Proof. simpl. destruct (Rle_dec 0 x); intros H; [|discriminate]. injection H as <-. auto. Qed.
Lemma sqrt_ok x : 0 <= x -> libm1 RNum F_sqrt x = Ok (sqrt x).
Proof. simpl. destruct (Rle_dec 0 x); [reflexivity|contradiction]. Qed.
Lemma pow2_inv x p : libm2 RNum F_pow x (of_Z RNum 2%Z) = Ok p -> p = x * x.
Proof. simpl. rewrite pow_R_2. intros H. injection H as <-. reflexivity. Qed.
Lemma pow2_ok x : libm2 RNum F_pow x (of_Z RNum 2%Z) = Ok (x * x).
Proof. simpl. apply pow_R_2. Qed.
Lemma fsum_inv l s : fsum RNum l = Ok s -> s = sumf l.
Proof. simpl. intros H. injection H as <-. reflexivity. Qed.
Lemma div_df_inv x d q : div_df RNum x d = Ok q -> exists v, d = DFin v /\ v <> 0 /\ q = x / v.
Proof.
  destruct d; simpl; unfold R_div.
  - destruct (Req_EM_T 0 0); [discriminate|congruence].
  - discriminate.
  - destruct (Req_EM_T v 0); intros H; [discriminate|]. injection H as <-. eauto.
Qed.

Section MapM.
  Context {A : Type}.
  Lemma mapM1_inv (F : R -> res R) (g1 : A -> R) (f : A -> R) (Q : A -> Prop) l out :
    (forall p z, F (g1 p) = Ok z -> z = f p /\ Q p) ->
    mapM1 RNum F (map g1 l) = Ok out -> out = map f l /\ (forall p, In p l -> Q p).
  Proof.
    intros HF. revert out. induction l as [|p l IH]; simpl; intros out H.
    - injection H as <-. split; [reflexivity|tauto].
    - apply bind_ok in H. destruct H as (z & Hz & H). apply bind_ok in H. destruct H as (zs & Hzs & H).
      injection H as <-. destruct (HF _ _ Hz) as [-> Hq]. destruct (IH _ Hzs) as [-> Hall].
      split; [reflexivity|]. intros q [<-|Hin]; auto.
  Qed.
  Lemma mapM2_inv (F : R -> R -> res R) (g1 g2 : A -> R) (f : A -> R) (Q : A -> Prop) l out :
    (forall p z, F (g1 p) (g2 p) = Ok z -> z = f p /\ Q p) ->
    mapM2 RNum F (map g1 l) (map g2 l) = Ok out -> out = map f l /\ (forall p, In p l -> Q p).
  Proof.
    intros HF. revert out. induction l as [|p l IH]; simpl; intros out H.
    - injection H as <-. split; [reflexivity|tauto].
    - apply bind_ok in H. destruct H as (z & Hz & H). apply bind_ok in H. destruct H as (zs & Hzs & H).
      injection H as <-. destruct (HF _ _ Hz) as [-> Hq]. destruct (IH _ Hzs) as [-> Hall].
      split; [reflexivity|]. intros q [<-|Hin]; auto.
  Qed.
  Lemma mapM3_inv (F : R -> R -> R -> res R) (g1 g2 g3 : A -> R) (f : A -> R) (Q : A -> Prop) l out :
    (forall p z, F (g1 p) (g2 p) (g3 p) = Ok z -> z = f p /\ Q p) ->
    mapM3 RNum F (map g1 l) (map g2 l) (map g3 l) = Ok out -> out = map f l /\ (forall p, In p l -> Q p).
  Proof.
    intros HF. revert out. induction l as [|p l IH]; simpl; intros out H.
    - injection H as <-. split; [reflexivity|tauto].
    - apply bind_ok in H. destruct H as (z & Hz & H). apply bind_ok in H. destruct H as (zs & Hzs & H).
      injection H as <-. destruct (HF _ _ Hz) as [-> Hq]. destruct (IH _ Hzs) as [-> Hall].
      split; [reflexivity|]. intros q [<-|Hin]; auto.
  Qed.

  (* forward versions, for totality *)
  Lemma mapM1_fwd (F : R -> res R) (g1 : A -> R) (f : A -> R) l :
    (forall p, In p l -> F (g1 p) = Ok (f p)) -> mapM1 RNum F (map g1 l) = Ok (map f l).
  Proof.
    induction l as [|p l IH]; simpl; intros H; [reflexivity|].
    rewrite (H p) by auto. simpl. rewrite IH by auto. reflexivity.
  Qed.
  Lemma mapM2_fwd (F : R -> R -> res R) (g1 g2 : A -> R) (f : A -> R) l :
    (forall p, In p l -> F (g1 p) (g2 p) = Ok (f p)) -> mapM2 RNum F (map g1 l) (map g2 l) = Ok (map f l).
  Proof.
    induction l as [|p l IH]; simpl; intros H; [reflexivity|].
    rewrite (H p) by auto. simpl. rewrite IH by auto. reflexivity.
  Qed.
  Lemma mapM3_fwd (F : R -> R -> R -> res R) (g1 g2 g3 : A -> R) (f : A -> R) l :
    (forall p, In p l -> F (g1 p) (g2 p) (g3 p) = Ok (f p)) ->
    mapM3 RNum F (map g1 l) (map g2 l) (map g3 l) = Ok (map f l).
  Proof.
    induction l as [|p l IH]; simpl; intros H; [reflexivity|].
    rewrite (H p) by auto. simpl. rewrite IH by auto. reflexivity.
  Qed.
End MapM.

(* three sequences of equal length are the projections of one sequence of points *)
Fixpoint zip3 (xs ys us : list R) : list pt :=
  match xs, ys, us with
  | x :: xs', y :: ys', u :: us' => (x, y, u) :: zip3 xs' ys' us'
  | _, _, _ => []
  end.
Lemma zip3_proj xs : forall ys us, length xs = length ys -> length xs = length us ->
  xs = map px (zip3 xs ys us) /\ ys = map py (zip3 xs ys us) /\ us = map pu (zip3 xs ys us).
Proof.
  induction xs as [|x xs IH]; intros [|y ys] [|u us]; simpl; try discriminate; auto.
  intros H1 H2. injection H1 as H1. injection H2 as H2. destruct (IH ys us H1 H2) as (E1 & E2 & E3).
  change (px (x, y, u)) with x. change (py (x, y, u)) with y. change (pu (x, y, u)) with u.
  rewrite <- E1, <- E2, <- E3. auto.
Qed.
Lemma zlen_map {A} (g : A -> R) l : zlen RNum (map g l) = Z.of_nat (length l).
Proof. unfold zlen. rewrite map_length. reflexivity. Qed.

(* ================= the weighted kernel _line_fit_wls ================= *)
Definition wS (l : list pt) : R := Sw (fun _ => 1) l.
Definition wSx (l : list pt) : R := Sw px l.
Definition wSy (l : list pt) : R := Sw py l.
Definition wSxx (l : list pt) : R := Sw (fun p => px p * px p) l.
Definition wSxy (l : list pt) : R := Sw (fun p => px p * py p) l.
Definition wDet (l : list pt) : R := wS l * wSxx l - wSx l * wSx l.      (* det (X^T W X) *)
Definition wres (a b : R) (p : pt) : R := py p - a - b * px p.

(* (a, b) is the weighted least-squares solution; sa, sb, r describe (X^T W X)^-1 *)
Record wls_spec (l : list pt) (a b sa sb r ssr : R) : Prop := mkWlsSpec {
  ws_w : forall p, In p l -> pu p <> 0;
  ws_ne1 : a * wS l + b * wSx l = wSy l;
  ws_ne2 : a * wSx l + b * wSxx l = wSxy l;
  ws_det : 0 < wDet l;
  ws_va : sa * sa = wSxx l / wDet l;
  ws_vb : sb * sb = wS l / wDet l;
  ws_cab : r * sa * sb = - wSx l / wDet l;
  ws_sa : 0 < sa;
  ws_sb : 0 < sb;
  ws_ssr : ssr = Sw (fun p => wres a b p * wres a b p) l }.

Lemma sq_pos x : x <> 0 -> 0 < x * x.
Proof. intros H. destruct (Rtotal_order x 0) as [?|[?|?]]; [nra|contradiction|nra]. Qed.

(* _clip_r (type_a.py, translated as g_fit_clip_r) over the reals: every |r| <= 1 is returned unchanged *)
Lemma fit_clip_R r : Rabs r <= 1 -> g_fit_clip_r RNum r = Ok r.
Proof.
  intros H. unfold g_fit_clip_r. cbn [ltb RNum nabs dyad]. unfold Rltb.
  destruct (Rlt_dec (IZR 1 * powerRZ 2 0) (Rabs r)) as [C|_]; [simpl in C; lra|]. reflexivity.
Qed.

(* the wrapper's clip is the identity on every correlation coefficient proper *)
Lemma wtls_r_R r : Rabs r <= 1 -> g_line_fit_wtls_r RNum r = Ok r.
Proof. intros H. unfold g_line_fit_wtls_r. rewrite fit_clip_R by exact H. reflexivity. Qed.

Lemma sq_le1_abs x : x * x <= 1 -> Rabs x <= 1.
Proof. intros H. unfold Rabs. destruct (Rcase_abs x); nra. Qed.

(* the correlation the fits compute is in [-1,1] (Cauchy-Schwarz in the form r^2 = Sx^2/(S*Stt + Sx^2)) *)
Lemma r_ab_le1 S Stt Sx sa sb :
  0 < S -> 0 < Stt -> 0 < sa -> 0 < sb ->
  sa * sa = (1 + Sx * Sx / (S * Stt)) / S -> sb * sb = 1 / Stt ->
  Rabs (- Sx / (S * Stt * sa * sb)) <= 1.
Proof.
  intros HS HT Ha Hb Ea Eb. apply sq_le1_abs.
  set (D := S * Stt * sa * sb).
  assert (HD : 0 < D) by (unfold D; repeat apply Rmult_lt_0_compat; assumption).
  assert (HDD : D * D = S * Stt + Sx * Sx).
  { unfold D. replace (S * Stt * sa * sb * (S * Stt * sa * sb)) with (S * Stt * (S * Stt) * (sa * sa) * (sb * sb)) by ring.
    rewrite Ea, Eb. field. split; lra. }
  assert (Hq : - Sx / D * (- Sx / D) * (D * D) = Sx * Sx) by (field; lra).
  assert (HST : 0 < S * Stt) by (apply Rmult_lt_0_compat; assumption).
  set (q2 := - Sx / D * (- Sx / D)) in *.
  destruct (Rle_dec q2 1) as [|C]; [assumption|exfalso].
  assert (D * D < q2 * (D * D)) by nra. nra.
Qed.

Lemma dyad10 : dyad RNum 1%Z 0%Z = 1.
Proof. simpl. lra. Qed.

Ltac pw Hz :=
  cbn beta in Hz;
  repeat (let q := fresh "q" in let Hq := fresh "Hq" in
          apply bind_ok in Hz; destruct Hz as (q & Hq & Hz);
          first [apply div_inv in Hq; destruct Hq as [? ->] | apply pow2_inv in Hq; subst q]);
  injection Hz as <-.

Ltac pwfin := split; [ first [reflexivity | simpl; field; auto] | auto ].

Ltac nxt H v E := apply bind_ok in H; destruct H as (v & E & H).

Theorem wls_kernel_sound l a b sa sb r ssr n :
  g__line_fit_wls RNum (map px l) (map py l) (map pu l) = Ok (a, b, sa, sb, r, ssr, n) ->
  wls_spec l a b sa sb r ssr /\ n = Z.of_nat (length l).
Proof.
  intros H. unfold g__line_fit_wls in H. cbv zeta in H.
  nxt H v Ev.
  apply (mapM1_inv _ pu (fun p => pu p * pu p) (fun _ => True)) in Ev;
    [|intros p z Hz; pw Hz; pwfin].
  destruct Ev as [-> _].
  nxt H l5 E5.
  apply (mapM1_inv _ (fun p => pu p * pu p) (fun p => 1 / (pu p * pu p)) (fun p => pu p * pu p <> 0)) in E5;
    [|intros p z Hz; pw Hz; split; [simpl; replace (1 * 1) with 1 by lra; reflexivity | auto]].
  destruct E5 as [-> Hv].
  nxt H vS ES. apply fsum_inv in ES.
  nxt H l9 E9.
  apply (mapM2_inv _ px (fun p => pu p * pu p) (fun p => px p / (pu p * pu p)) (fun _ => True)) in E9;
    [|intros p z Hz; pw Hz; pwfin].
  destruct E9 as [-> _].
  nxt H vSx ESx. apply fsum_inv in ESx.
  nxt H l13 E13.
  apply (mapM2_inv _ py (fun p => pu p * pu p) (fun p => py p / (pu p * pu p)) (fun _ => True)) in E13;
    [|intros p z Hz; pw Hz; pwfin].
  destruct E13 as [-> _].
  nxt H vSy ESy. apply fsum_inv in ESy.
  nxt H k Ek. apply div_inv in Ek. destruct Ek as [HS0 Ek].
  nxt H t Et.
  apply (mapM2_inv _ px pu (fun p => (px p - k) / pu p) (fun p => pu p <> 0)) in Et;
    [|intros p z Hz; pw Hz; pwfin].
  destruct Et as [-> Hu].
  nxt H l21 E21.
  apply (mapM1_inv _ (fun p => (px p - k) / pu p) (fun p => (px p - k) / pu p * ((px p - k) / pu p)) (fun _ => True)) in E21;
    [|intros p z Hz; pw Hz; pwfin].
  destruct E21 as [-> _].
  nxt H vStt EStt. apply fsum_inv in EStt.
  nxt H l26 E26.
  apply (mapM3_inv _ (fun p => (px p - k) / pu p) py pu
           (fun p => (px p - k) / pu p * py p / pu p / vStt) (fun _ => vStt <> 0)) in E26;
    [|intros p z Hz; pw Hz; pwfin].
  destruct E26 as [-> _].
  nxt H vb Eb. apply fsum_inv in Eb.
  nxt H va Ea. apply div_inv in Ea. destruct Ea as [_ Ea].
  nxt H q31 E31. apply div_inv in E31. destruct E31 as [HSStt E31].
  nxt H q32 E32. apply div_inv in E32. destruct E32 as [_ E32]. rewrite dyad10 in E32.
  nxt H m33 E33. apply sqrt_inv in E33. destruct E33 as [Hq32 E33].
  nxt H q35 E35. apply div_inv in E35. destruct E35 as [HStt0 E35]. rewrite dyad10 in E35.
  nxt H m36 E36. apply sqrt_inv in E36. destruct E36 as [Hq35 E36].
  nxt H q38 E38. apply div_inv in E38. destruct E38 as [Hden E38].
  nxt H c39 E39.
  nxt H l42 E42.
  apply (mapM3_inv _ px py pu
           (fun p => (py p - va - vb * px p) / pu p * ((py p - va - vb * px p) / pu p)) (fun _ => True)) in E42;
    [|intros p z Hz; pw Hz; pwfin].
  destruct E42 as [-> _].
  nxt H vssr Essr. apply fsum_inv in Essr.
  rewrite zlen_map in H.
  injection H as <- <- <- <- <- <- <-.
  split; [|reflexivity].
  cbn [T RNum add sub mul neg] in *.
  change (sumf (map ?g l)) with (Sm g l) in *.
  (* the two list identities *)
  assert (HI1 : vStt = 1 * wSxx l + (- 2 * k) * wSx l + (k * k) * wS l).
  { rewrite EStt. unfold wSxx, wSx, wS, Sw. apply Sm_lin3. intros p Hp. field. auto. }
  assert (HI2 : vb = (1 / vStt) * wSxy l + (- k / vStt) * wSy l).
  { rewrite Eb. unfold wSxy, wSy, Sw. apply Sm_lin2. intros p Hp. field. auto. }
  assert (HvS : vS = wS l) by (rewrite ES; reflexivity).
  assert (HvSx : vSx = wSx l) by (rewrite ESx; reflexivity).
  assert (HvSy : vSy = wSy l) by (rewrite ESy; reflexivity).
  (* positivity *)
  assert (Hne : l <> []) by (intros ->; apply HS0; rewrite ES; reflexivity).
  assert (HSpos : 0 < vS).
  { rewrite ES. apply Sm_pos; [exact Hne|]. intros p Hp.
    apply Rdiv_lt_0_compat; [lra|]. apply sq_pos. auto. }
  assert (HSttpos : 0 < vStt).
  { assert (0 <= vStt) by (rewrite EStt; apply Sm_nonneg; intros p _; exact (Rle_0_sqr _)). lra. }
  rewrite <- HvS, <- HvSx in HI1. rewrite <- HvSy in HI2.
  set (Sxx := wSxx l) in *. set (Sxy := wSxy l) in *.
  assert (Ht : vStt = Sxx - k * vSx) by (rewrite HI1; rewrite Ek; field; auto).
  assert (Hb : vb * vStt = Sxy - k * vSy) by (rewrite HI2; field; auto).
  assert (Hdet : wDet l = vS * vStt).
  { unfold wDet. rewrite <- HvS, <- HvSx. fold Sxx. rewrite Ht, Ek. field. auto. }
  assert (Hm33 : m33 * m33 = q32) by (rewrite E33; apply sqrt_sqrt; exact Hq32).
  assert (Hm36 : m36 * m36 = q35) by (rewrite E36; apply sqrt_sqrt; exact Hq35).
  assert (Hq32pos : 0 < q32).
  { rewrite E32, E31. apply Rdiv_lt_0_compat; [|lra].
    assert (0 <= vSx * vSx / (vS * vStt)).
    { apply Rmult_le_pos; [exact (Rle_0_sqr _)|]. apply Rlt_le, Rinv_0_lt_compat. nra. }
    lra. }
  assert (H33 : 0 < m33) by (rewrite E33; apply sqrt_lt_R0; exact Hq32pos).
  assert (H36 : 0 < m36).
  { rewrite E36, E35. apply sqrt_lt_R0. apply Rdiv_lt_0_compat; lra. }
  (* r_ab = _clip_r(q38) and |q38| <= 1: the clip is the identity *)
  assert (Hc39 : c39 = q38).
  { rewrite (fit_clip_R q38) in E39; [injection E39 as <-; reflexivity|].
    rewrite E38. apply r_ab_le1; [exact HSpos|exact HSttpos|exact H33|exact H36| |].
    - rewrite Hm33, E32, E31. reflexivity.
    - rewrite Hm36, E35. reflexivity. }
  subst c39.
  constructor.
  - exact Hu.
  - rewrite <- HvS, <- HvSx, <- HvSy. rewrite Ea. field. auto.
  - rewrite <- HvSx. fold Sxx Sxy. replace Sxx with (vStt + k * vSx) by lra. rewrite Ea.
    replace (vb * (vStt + k * vSx)) with (vb * vStt + vb * k * vSx) by ring. rewrite Hb, Ek. field. auto.
  - rewrite Hdet. apply Rmult_lt_0_compat; assumption.
  - rewrite Hm33, E32, E31, Hdet. fold Sxx. replace Sxx with (vStt + k * vSx) by lra. rewrite Ek. field. split; auto.
  - rewrite Hm36, E35, Hdet, <- HvS. field. split; auto.
  - rewrite E38, Hdet, <- HvSx. field. repeat split; auto; lra.
  - exact H33.
  - exact H36.
  - rewrite Essr. unfold Sw, wres. apply Sm_ext. intros p Hp. field. auto.
Qed.

(* ================= the least-squares solution, in terms of the five sums ================= *)
(* (a, b) solves the normal equations of the design with sums S, Sx, Sy, Sxx, Sxy; ua, ub, r
   are standard uncertainties and correlation of covariance matrix sigma2 * (X^T W X)^-1 *)
Record ls_sol (S Sx Sy Sxx Sxy sigma2 a b ua ub r : R) : Prop := mkLsSol {
  ls_ne1 : a * S + b * Sx = Sy;
  ls_ne2 : a * Sx + b * Sxx = Sxy;
  ls_det : 0 < S * Sxx - Sx * Sx;
  ls_va : ua * ua = sigma2 * (Sxx / (S * Sxx - Sx * Sx));
  ls_vb : ub * ub = sigma2 * (S / (S * Sxx - Sx * Sx));
  ls_cab : r * ua * ub = sigma2 * (- Sx / (S * Sxx - Sx * Sx));
  ls_ua : 0 <= ua;
  ls_ub : 0 <= ub }.

Lemma wls_spec_sol l a b sa sb r ssr :
  wls_spec l a b sa sb r ssr -> ls_sol (wS l) (wSx l) (wSy l) (wSxx l) (wSxy l) 1 a b sa sb r.
Proof.
  intros [Hw H1 H2 Hd Ha Hb Hc Hsa Hsb _]. unfold wDet in *.
  constructor; auto; try lra.
Qed.

(* scaling the unit-variance solution by sigma = sqrt q *)
Lemma ls_sol_scale S Sx Sy Sxx Sxy a b sa sb r q :
  ls_sol S Sx Sy Sxx Sxy 1 a b sa sb r -> 0 <= q ->
  ls_sol S Sx Sy Sxx Sxy q a b (sa * sqrt q) (sb * sqrt q) r.
Proof.
  intros [H1 H2 Hd Ha Hb Hc Hsa Hsb] Hq.
  pose proof (sqrt_sqrt q Hq) as Hs. pose proof (sqrt_pos q) as Hp.
  constructor; auto.
  - replace (sa * sqrt q * (sa * sqrt q)) with (sa * sa * (sqrt q * sqrt q)) by ring. rewrite Hs, Ha. ring.
  - replace (sb * sqrt q * (sb * sqrt q)) with (sb * sb * (sqrt q * sqrt q)) by ring. rewrite Hs, Hb. ring.
  - replace (r * (sa * sqrt q) * (sb * sqrt q)) with (r * sa * sb * (sqrt q * sqrt q)) by ring. rewrite Hs, Hc. ring.
  - apply Rmult_le_pos; auto.
  - apply Rmult_le_pos; auto.
Qed.

Lemma guard_false (b : bool) {A} (x y : res A) r : (if b then x else y) = r -> b = false -> y = r.
Proof. intros H ->. exact H. Qed.

Lemma zeqb_len {A B} (l1 : list A) (l2 : list B) :
  negb (Z.eqb (Z.of_nat (length l1)) (Z.of_nat (length l2))) = false -> length l1 = length l2.
Proof. intros H. apply negb_false_iff, Z.eqb_eq in H. lia. Qed.

Definition dof_rule (dof : dofarg R) (dflt : dfval R) (d : dfval R) : Prop :=
  match dof with
  | DofNone => d = dflt
  | DofNum v => 0 < v /\ d = DFin v
  | DofBad => False
  end.

Lemma dof_match_inv (dof : dofarg R) dflt d :
  match dof with
  | DofNone => Ok dflt
  | DofNum d_ => if ltb RNum (of_Z RNum 0%Z) d_ then Ok (df_of_num RNum d_) else Err RuntimeError
  | DofBad => Err RuntimeError
  end = Ok d -> dof_rule dof dflt d.
Proof.
  destruct dof; simpl; intros H.
  - injection H as <-. reflexivity.
  - unfold Rltb in H. destruct (Rlt_dec 0 v); [|discriminate]. injection H as <-. auto.
  - discriminate.
Qed.

(* ---------- line_fit_wls ---------- *)
Theorem wls_sound xs ys us dof fs :
  g_line_fit_wls RNum xs ys us dof = Ok fs ->
  exists l, xs = map px l /\ ys = map py l /\ us = map pu l /\ (3 <= length l)%nat /\
    wls_spec l (fs_ax fs) (fs_bx fs) (fs_au fs) (fs_bu fs) (fs_r fs) (fs_ssr fs) /\
    fs_n fs = Z.of_nat (length l) /\ dof_rule dof DInf (fs_df fs).
Proof.
  intros H. unfold g_line_fit_wls in H. cbv zeta in H. unfold zlen in H.
  match type of H with (if ?c then _ else _) = _ => destruct c eqn:G; [discriminate|] end.
  apply orb_false_iff in G. destruct G as [G G3]. apply orb_false_iff in G. destruct G as [G1 G2].
  apply zeqb_len in G2. apply zeqb_len in G3. apply Z.leb_gt in G1.
  destruct (zip3_proj xs ys us G2 G3) as (E1 & E2 & E3).
  remember (zip3 xs ys us) as l eqn:Hl. clear Hl.
  exists l. assert (Hlen : length xs = length l) by (rewrite E1 at 1; apply map_length).
  rewrite E1, E2, E3 in H.
  apply bind_ok in H. destruct H as ([[[[[[a b] sa] sb] r] ssr] n] & Hk & H).
  apply wls_kernel_sound in Hk. destruct Hk as [Hspec Hn].
  apply bind_ok in H. destruct H as (d & Hd & H). apply dof_match_inv in Hd.
  injection H as <-. simpl.
  split; [exact E1|]. split; [exact E2|]. split; [exact E3|]. split; [lia|].
  split; [exact Hspec|]. split; [exact Hn|exact Hd].
Qed.

(* ---------- line_fit_rwls ---------- *)
Theorem rwls_sound xs ys ss dof fs :
  g_line_fit_rwls RNum xs ys ss dof = Ok fs ->
  exists l d, xs = map px l /\ ys = map py l /\ ss = map pu l /\
    (forall p, In p l -> pu p <> 0) /\
    dof_rule dof (DFin (IZR (Z.of_nat (length l) - 2))) (fs_df fs) /\ fs_df fs = DFin d /\ d <> 0 /\
    0 <= fs_ssr fs / d /\
    ls_sol (wS l) (wSx l) (wSy l) (wSxx l) (wSxy l) (fs_ssr fs / d)
           (fs_ax fs) (fs_bx fs) (fs_au fs) (fs_bu fs) (fs_r fs) /\
    fs_ssr fs = Sw (fun p => wres (fs_ax fs) (fs_bx fs) p * wres (fs_ax fs) (fs_bx fs) p) l /\
    fs_n fs = Z.of_nat (length l).
Proof.
  intros H. unfold g_line_fit_rwls in H. cbv zeta in H. unfold zlen in H.
  apply bind_ok in H. destruct H as (df & Hd & H). apply dof_match_inv in Hd.
  match type of H with (if ?c then _ else _) = _ => destruct c eqn:G; [discriminate|] end.
  apply orb_false_iff in G. destruct G as [G2 G3].
  apply zeqb_len in G2. apply zeqb_len in G3.
  destruct (zip3_proj xs ys ss G2 G3) as (E1 & E2 & E3).
  remember (zip3 xs ys ss) as l eqn:Hl. clear Hl.
  assert (Hlen : length xs = length l) by (rewrite E1 at 1; apply map_length).
  rewrite E1, E2, E3 in H.
  apply bind_ok in H. destruct H as ([[[[[[a b] sa] sb] r] ssr] n] & Hk & H).
  apply wls_kernel_sound in Hk. destruct Hk as [Hspec Hn].
  apply bind_ok in H. destruct H as (q & Hq & H). apply div_df_inv in Hq. destruct Hq as (d & Edf & Hd0 & ->).
  apply bind_ok in H. destruct H as (m & Hm & H). apply sqrt_inv in Hm. destruct Hm as [Hq0 ->].
  injection H as <-. simpl.
  exists l, d. rewrite Hlen in Hd. unfold df_of_Z in Hd. simpl in Hd.
  split; [exact E1|]. split; [exact E2|]. split; [exact E3|].
  split; [apply (ws_w _ _ _ _ _ _ _ Hspec)|].
  split; [exact Hd|]. split; [exact Edf|]. split; [exact Hd0|]. split; [exact Hq0|].
  split; [apply ls_sol_scale; [apply wls_spec_sol with (ssr := ssr); exact Hspec | exact Hq0]|].
  split; [apply (ws_ssr _ _ _ _ _ _ _ Hspec)|exact Hn].
Qed.

(* ---------- line_fit (ordinary least squares) ---------- *)
Definition mSx (l : list pt) : R := Sm px l.
Definition mSy (l : list pt) : R := Sm py l.
Definition mSxx (l : list pt) : R := Sm (fun p => px p * px p) l.
Definition mSxy (l : list pt) : R := Sm (fun p => px p * py p) l.

Lemma IZR_len {A} (l : list A) : IZR (Z.of_nat (length l)) = INR (length l).
Proof. symmetry. apply INR_IZR_INZ. Qed.

Theorem ols_sound xs ys fs :
  g_line_fit RNum xs ys = Ok fs ->
  exists l, xs = map px l /\ ys = map py l /\ (3 <= length l)%nat /\
    let n := INR (length l) in
    fs_df fs = DFin (n - 2) /\ 0 <= fs_ssr fs / (n - 2) /\
    ls_sol n (mSx l) (mSy l) (mSxx l) (mSxy l) (fs_ssr fs / (n - 2))
           (fs_ax fs) (fs_bx fs) (fs_au fs) (fs_bu fs) (fs_r fs) /\
    fs_ssr fs = Sm (fun p => wres (fs_ax fs) (fs_bx fs) p * wres (fs_ax fs) (fs_bx fs) p) l /\
    fs_n fs = Z.of_nat (length l).
Proof.
  intros H. unfold g_line_fit in H. cbv zeta in H. unfold zlen in H.
  match type of H with (if ?c then _ else _) = _ => destruct c eqn:G; [discriminate|] end.
  apply orb_false_iff in G. destruct G as [G1 G2]. apply zeqb_len in G2. apply Z.leb_gt in G1.
  destruct (zip3_proj xs ys xs G2 eq_refl) as (E1 & E2 & _).
  remember (zip3 xs ys xs) as l eqn:Hl. clear Hl.
  assert (Hlen : length xs = length l) by (rewrite E1 at 1; apply map_length).
  rewrite Hlen in H, G1. rewrite E1, E2 in H. exists l.
  set (n := INR (length l)).
  assert (HnZ : of_Z RNum (Z.of_nat (length l)) = n) by (simpl; apply IZR_len).
  assert (Hn3 : 3 <= n) by (unfold n; replace 3 with (INR 3) by (simpl; lra); apply le_INR; lia).
  assert (Hdf : of_Z RNum (Z.of_nat (length l) - 2) = n - 2) by (simpl; rewrite minus_IZR, IZR_len; reflexivity).
  rewrite HnZ, Hdf in H. unfold df_of_Z in H. rewrite Hdf in H.
  nxt H vSx ESx. apply fsum_inv in ESx.
  nxt H vSy ESy. apply fsum_inv in ESy.
  nxt H k Ek. apply div_inv in Ek. destruct Ek as [_ Ek].
  nxt H t Et.
  apply (mapM1_inv _ px (fun p => px p - k) (fun _ => True)) in Et; [|intros p z Hz; pw Hz; pwfin].
  destruct Et as [-> _].
  nxt H l11 E11.
  apply (mapM1_inv _ (fun p => px p - k) (fun p => (px p - k) * (px p - k)) (fun _ => True)) in E11;
    [|intros p z Hz; pw Hz; pwfin].
  destruct E11 as [-> _].
  nxt H vStt EStt. apply fsum_inv in EStt.
  nxt H l15 E15.
  apply (mapM2_inv _ (fun p => px p - k) py (fun p => (px p - k) * py p / vStt) (fun _ => True)) in E15;
    [|intros p z Hz; pw Hz; pwfin].
  destruct E15 as [-> _].
  nxt H vb Eb. apply fsum_inv in Eb.
  nxt H va Ea. apply div_inv in Ea. destruct Ea as [_ Ea].
  nxt H q20 E20. apply div_inv in E20. destruct E20 as [HnStt E20].
  nxt H q21 E21. apply div_inv in E21. destruct E21 as [_ E21]. rewrite dyad10 in E21.
  nxt H m22 E22. apply sqrt_inv in E22. destruct E22 as [Hq21 E22].
  nxt H q24 E24. apply div_inv in E24. destruct E24 as [HStt0 E24]. rewrite dyad10 in E24.
  nxt H m25 E25. apply sqrt_inv in E25. destruct E25 as [Hq24 E25].
  nxt H q27 E27. apply div_inv in E27. destruct E27 as [Hden E27].
  nxt H c28 E28.
  nxt H l30 E30.
  apply (mapM2_inv _ px py (fun p => (py p - va - vb * px p) * (py p - va - vb * px p)) (fun _ => True)) in E30;
    [|intros p z Hz; pw Hz; pwfin].
  destruct E30 as [-> _].
  nxt H vssr Essr. apply fsum_inv in Essr.
  nxt H q33 E33. apply div_inv in E33. destruct E33 as [Hdf0 E33].
  nxt H m34 E34. apply sqrt_inv in E34. destruct E34 as [Hq33 E34].
  injection H as <-. cbn [fs_ax fs_au fs_bx fs_bu fs_df fs_r fs_ssr fs_n].
  cbn [T RNum add sub mul neg] in *.
  change (sumf (map ?g l)) with (Sm g l) in *.
  fold (mSx l) in ESx. fold (mSy l) in ESy.
  assert (HI1 : vStt = 1 * mSxx l + (- 2 * k) * mSx l + (k * k) * n).
  { rewrite EStt. unfold n. rewrite <- (Rmult_1_r (INR (length l))), <- (Sm_const 1 l).
    unfold mSxx, mSx. apply Sm_lin3. intros p Hp. ring. }
  assert (HI2 : vb = (1 / vStt) * mSxy l + (- k / vStt) * mSy l).
  { rewrite Eb. unfold mSxy, mSy. apply Sm_lin2. intros p Hp. field. auto. }
  rewrite <- ESx in HI1. rewrite <- ESy in HI2.
  set (Sxx := mSxx l) in *. set (Sxy := mSxy l) in *.
  assert (Hn0 : n <> 0) by lra.
  assert (Ht : vStt = Sxx - k * vSx) by (rewrite HI1; rewrite Ek; field; auto).
  assert (Hb : vb * vStt = Sxy - k * vSy) by (rewrite HI2; field; auto).
  assert (HSttpos : 0 < vStt).
  { assert (0 <= vStt) by (rewrite EStt; apply Sm_nonneg; intros p _; exact (Rle_0_sqr _)). lra. }
  assert (Hdet : n * Sxx - vSx * vSx = n * vStt) by (rewrite Ht, Ek; field; auto).
  assert (Hm22 : m22 * m22 = q21) by (rewrite E22; apply sqrt_sqrt; exact Hq21).
  assert (Hm25 : m25 * m25 = q24) by (rewrite E25; apply sqrt_sqrt; exact Hq24).
  assert (Hq21pos : 0 < q21).
  { rewrite E21, E20. apply Rdiv_lt_0_compat; [|lra].
    assert (0 <= vSx * vSx / (n * vStt)).
    { apply Rmult_le_pos; [exact (Rle_0_sqr _)|]. apply Rlt_le, Rinv_0_lt_compat. nra. }
    lra. }
  assert (H22 : 0 < m22) by (rewrite E22; apply sqrt_lt_R0; exact Hq21pos).
  assert (H25 : 0 < m25).
  { rewrite E25, E24. apply sqrt_lt_R0. apply Rdiv_lt_0_compat; lra. }
  assert (Hc28 : c28 = q27).
  { rewrite (fit_clip_R q27) in E28; [injection E28 as <-; reflexivity|].
    rewrite E27. apply r_ab_le1; [lra|exact HSttpos|exact H22|exact H25| |].
    - rewrite Hm22, E21, E20. reflexivity.
    - rewrite Hm25, E24. reflexivity. }
  subst c28.
  split; [exact E1|]. split; [exact E2|]. split; [lia|].
  split; [reflexivity|]. rewrite <- E33. split; [exact Hq33|].
  split.
  - rewrite E34. apply ls_sol_scale; [|exact Hq33].
    rewrite <- ESx, <- ESy. fold Sxx Sxy. constructor.
    + rewrite Ea. field. auto.
    + replace Sxx with (vStt + k * vSx) by lra. rewrite Ea.
      replace (vb * (vStt + k * vSx)) with (vb * vStt + vb * k * vSx) by ring. rewrite Hb, Ek. field. auto.
    + rewrite Hdet. apply Rmult_lt_0_compat; lra.
    + rewrite Hdet, Hm22, E21, E20. replace Sxx with (vStt + k * vSx) by lra. rewrite Ek. field. split; auto.
    + rewrite Hdet, Hm25, E24. field. split; auto.
    + rewrite Hdet, E27. field. repeat split; auto; lra.
    + lra.
    + lra.
  - split; [|reflexivity]. rewrite Essr. unfold wres. reflexivity.
Qed.

(* ================= totality: the statements above are not vacuous ================= *)
Theorem wls_kernel_total l :
  l <> [] -> (forall p, In p l -> pu p <> 0) -> wDet l <> 0 ->
  exists a b sa sb r ssr,
    g__line_fit_wls RNum (map px l) (map py l) (map pu l) = Ok (a, b, sa, sb, r, ssr, Z.of_nat (length l)).
Proof.
  intros Hne Hu Hdet.
  assert (Hv : forall p, In p l -> pu p * pu p <> 0) by (intros p Hp; apply Rgt_not_eq, sq_pos; auto).
  assert (HSpos : 0 < wS l).
  { unfold wS, Sw. apply Sm_pos; [exact Hne|]. intros p Hp. apply Rdiv_lt_0_compat; [lra|]. apply sq_pos; auto. }
  set (k := wSx l / wS l).
  set (vStt := Sm (fun p => (px p - k) / pu p * ((px p - k) / pu p)) l).
  assert (HI1 : vStt = 1 * wSxx l + (- 2 * k) * wSx l + (k * k) * wS l).
  { unfold vStt, wSxx, wSx, wS, Sw. apply Sm_lin3. intros p Hp. field. auto. }
  assert (HStt : vStt = wDet l / wS l) by (rewrite HI1; unfold k, wDet; field; lra).
  assert (HSttpos : 0 < vStt).
  { assert (0 <= vStt) by (apply Sm_nonneg; intros p _; exact (Rle_0_sqr _)).
    assert (vStt <> 0) by (rewrite HStt; apply Rmult_integral_contrapositive_currified; [exact Hdet|apply Rinv_neq_0_compat; lra]).
    lra. }
  unfold g__line_fit_wls. cbv zeta.
  rewrite (mapM1_fwd _ pu (fun p => pu p * pu p)) by (intros; reflexivity). cbn [bind].
  rewrite (mapM1_fwd _ (fun p => pu p * pu p) (fun p => 1 / (pu p * pu p)))
    by (intros p Hp; cbn beta; rewrite div_ok by auto; cbn [bind]; rewrite dyad10; reflexivity).
  cbn [bind fsum RNum].
  rewrite (mapM2_fwd _ px (fun p => pu p * pu p) (fun p => px p / (pu p * pu p)))
    by (intros p Hp; cbn beta; rewrite div_ok by auto; reflexivity).
  cbn [bind fsum RNum].
  rewrite (mapM2_fwd _ py (fun p => pu p * pu p) (fun p => py p / (pu p * pu p)))
    by (intros p Hp; cbn beta; rewrite div_ok by auto; reflexivity).
  cbn [bind fsum RNum].
  change (fold_right Rplus 0 (map ?g l)) with (Sm g l).
  change (Sm (fun p => 1 / (pu p * pu p)) l) with (wS l).
  change (Sm (fun p => px p / (pu p * pu p)) l) with (wSx l).
  change (Sm (fun p => py p / (pu p * pu p)) l) with (wSy l).
  rewrite (div_ok (wSx l) (wS l)) by lra. cbn [bind]. fold k.
  rewrite (mapM2_fwd _ px pu (fun p => (px p - k) / pu p))
    by (intros p Hp; cbn beta; rewrite div_ok by auto; reflexivity).
  cbn [bind].
  rewrite (mapM1_fwd _ (fun p => (px p - k) / pu p) (fun p => (px p - k) / pu p * ((px p - k) / pu p)))
    by (intros; reflexivity).
  cbn [bind fsum RNum]. change (fold_right Rplus 0 (map ?g l)) with (Sm g l). fold vStt.
  rewrite (mapM3_fwd _ (fun p => (px p - k) / pu p) py pu (fun p => (px p - k) / pu p * py p / pu p / vStt))
    by (intros p Hp; cbn beta; rewrite div_ok by auto; cbn [bind]; rewrite div_ok by lra; reflexivity).
  cbn [bind fsum RNum]. change (fold_right Rplus 0 (map ?g l)) with (Sm g l).
  set (vb := Sm (fun p => (px p - k) / pu p * py p / pu p / vStt) l).
  rewrite div_ok by lra. cbn [bind]. set (va := sub RNum (wSy l) (mul RNum vb (wSx l)) / wS l).
  assert (HSS : wS l * vStt <> 0) by (apply Rgt_not_eq; apply Rmult_lt_0_compat; lra).
  rewrite (div_ok _ (mul RNum (wS l) vStt)) by exact HSS. cbn [bind].
  rewrite div_ok by lra. cbn [bind]. rewrite dyad10.
  set (q32 := add RNum 1 (mul RNum (wSx l) (wSx l) / mul RNum (wS l) vStt) / wS l).
  assert (Hq32 : 0 < q32).
  { unfold q32. cbn [add mul RNum]. apply Rdiv_lt_0_compat; [|lra].
    assert (0 <= wSx l * wSx l / (wS l * vStt)).
    { apply Rmult_le_pos; [exact (Rle_0_sqr _)|]. apply Rlt_le, Rinv_0_lt_compat. nra. }
    lra. }
  rewrite sqrt_ok by lra. cbn [bind].
  rewrite div_ok by lra. cbn [bind].
  assert (Hq35 : 0 < 1 / vStt) by (apply Rdiv_lt_0_compat; lra).
  rewrite sqrt_ok by lra. cbn [bind].
  assert (Hs1 : 0 < sqrt q32) by (apply sqrt_lt_R0; exact Hq32).
  assert (Hs2 : 0 < sqrt (1 / vStt)) by (apply sqrt_lt_R0; exact Hq35).
  rewrite div_ok.
  2:{ cbn [mul RNum]. apply Rgt_not_eq. repeat apply Rmult_lt_0_compat; lra. }
  cbn [bind]. cbn [neg mul RNum].
  rewrite fit_clip_R.
  2:{ apply r_ab_le1; try lra.
      - rewrite sqrt_sqrt by lra. unfold q32. reflexivity.
      - rewrite sqrt_sqrt by lra. reflexivity. }
  cbn [bind].
  rewrite (mapM3_fwd _ px py pu (fun p => (py p - va - vb * px p) / pu p * ((py p - va - vb * px p) / pu p)))
    by (intros p Hp; cbn beta; rewrite div_ok by auto; cbn [bind]; rewrite pow2_ok; reflexivity).
  cbn [bind fsum RNum]. rewrite zlen_map.
  do 6 eexists. reflexivity.
Qed.

(* ================= uniqueness of the least-squares solution ================= *)
Lemma sq_inj_nonneg x y : 0 <= x -> 0 <= y -> x * x = y * y -> x = y.
Proof. intros. nra. Qed.

Theorem ls_sol_unique S Sx Sy Sxx Sxy q a b ua ub r a' b' ua' ub' r' :
  ls_sol S Sx Sy Sxx Sxy q a b ua ub r -> ls_sol S Sx Sy Sxx Sxy q a' b' ua' ub' r' ->
  a = a' /\ b = b' /\ ua = ua' /\ ub = ub' /\ r * ua * ub = r' * ua' * ub'.
Proof.
  intros [H1 H2 Hd Ha Hb Hc Hua Hub] [H1' H2' _ Ha' Hb' Hc' Hua' Hub'].
  assert (E1 : (a - a') * S + (b - b') * Sx = 0) by lra.
  assert (E2 : (a - a') * Sx + (b - b') * Sxx = 0) by lra.
  assert (Eb : b = b').
  { assert (H : (S * Sxx - Sx * Sx) * (b - b') = 0).
    { replace ((S * Sxx - Sx * Sx) * (b - b'))
        with (S * ((a - a') * Sx + (b - b') * Sxx) - Sx * ((a - a') * S + (b - b') * Sx)) by ring.
      rewrite E1, E2. ring. }
    apply Rmult_integral in H. destruct H; lra. }
  assert (Ea : a = a').
  { assert (H : (S * Sxx - Sx * Sx) * (a - a') = 0).
    { replace ((S * Sxx - Sx * Sx) * (a - a'))
        with (Sxx * ((a - a') * S + (b - b') * Sx) - Sx * ((a - a') * Sx + (b - b') * Sxx)) by ring.
      rewrite E1, E2. ring. }
    apply Rmult_integral in H. destruct H; lra. }
  split; [exact Ea|]. split; [exact Eb|].
  split; [apply sq_inj_nonneg; auto; lra|]. split; [apply sq_inj_nonneg; auto; lra|]. lra.
Qed.

(* multiplying all weights by lambda divides the covariance by lambda *)
Lemma ls_sol_homog lam S Sx Sy Sxx Sxy q a b ua ub r :
  0 < lam ->
  ls_sol (lam * S) (lam * Sx) (lam * Sy) (lam * Sxx) (lam * Sxy) q a b ua ub r ->
  ls_sol S Sx Sy Sxx Sxy (q / lam) a b ua ub r.
Proof.
  intros Hl [H1 H2 Hd Ha Hb Hc Hua Hub].
  assert (Hd' : 0 < S * Sxx - Sx * Sx).
  { replace (lam * S * (lam * Sxx) - lam * Sx * (lam * Sx)) with (lam * lam * (S * Sxx - Sx * Sx)) in Hd by ring.
    assert (0 < lam * lam) by nra. nra. }
  constructor; auto.
  - nra.
  - nra.
  - rewrite Ha. field. split; lra.
  - rewrite Hb. field. split; lra.
  - rewrite Hc. field. split; lra.
Qed.

(* sums that depend on the points only through (x, y) *)
Lemma Sm_proj_ext (F : R -> R -> R) (l1 : list pt) : forall l2,
  map px l1 = map px l2 -> map py l1 = map py l2 ->
  Sm (fun p => F (px p) (py p)) l1 = Sm (fun p => F (px p) (py p)) l2.
Proof.
  unfold Sm, sumf. induction l1 as [|p l1 IH]; intros [|q l2]; simpl; try discriminate; auto.
  intros Hx Hy. injection Hx as Hx Hx'. injection Hy as Hy Hy'. rewrite Hx, Hy, (IH l2); auto.
Qed.

Lemma Sw_const_weight c g l : c <> 0 -> (forall p, In p l -> pu p = c) -> Sw g l = / (c * c) * Sm g l.
Proof.
  intros Hc H. unfold Sw. rewrite <- Sm_scal. apply Sm_ext. intros p Hp. rewrite (H p Hp). field. auto.
Qed.

Lemma In_map_const {A} (f : A -> R) c l : map f l = map (fun _ => c) l -> forall p, In p l -> f p = c.
Proof.
  induction l as [|q l IH]; simpl; intros H p Hp; [contradiction|].
  injection H as H1 H2. destruct Hp as [<-|Hp]; auto.
Qed.

(* ================= RWLS with equal scale factors = OLS ================= *)
Theorem rwls_equal_scale_is_ols (l : list pt) c fw fo :
  c <> 0 ->
  g_line_fit_rwls RNum (map px l) (map py l) (map (fun _ => c) l) DofNone = Ok fw ->
  g_line_fit RNum (map px l) (map py l) = Ok fo ->
  fs_ax fw = fs_ax fo /\ fs_bx fw = fs_bx fo /\ fs_au fw = fs_au fo /\ fs_bu fw = fs_bu fo /\
  fs_r fw * fs_au fw * fs_bu fw = fs_r fo * fs_au fo * fs_bu fo /\
  fs_df fw = fs_df fo /\ fs_n fw = fs_n fo /\ fs_ssr fw = fs_ssr fo / (c * c).
Proof.
  intros Hc Hw Ho.
  apply rwls_sound in Hw. destruct Hw as (lw & d & Ex & Ey & Eu & Hu & Hrule & Edf & Hd0 & Hq & Hsol & Hssr & Hn).
  apply ols_sound in Ho. destruct Ho as (lo & Ex' & Ey' & Hlen & Edf' & Hq' & Hsol' & Hssr' & Hn').
  assert (Hlw : length lw = length l) by (rewrite <- (map_length px lw), <- Ex; apply map_length).
  assert (Hlo : length lo = length l) by (rewrite <- (map_length px lo), <- Ex'; apply map_length).
  assert (Hcw : forall p, In p lw -> pu p = c).
  { apply In_map_const. rewrite <- Eu. clear -Hlw. revert l Hlw. induction lw; intros [|q l]; simpl; try discriminate; auto.
    intros H. f_equal. apply IHlw. lia. }
  assert (Hd : d = INR (length lo) - 2).
  { unfold dof_rule in Hrule. rewrite Edf in Hrule. injection Hrule as ->. rewrite minus_IZR, IZR_len, Hlw, Hlo. reflexivity. }
  assert (Hcc : 0 < / (c * c)) by (apply Rinv_0_lt_compat, sq_pos; auto).
  (* the weighted sums are the plain sums over c^2 *)
  assert (ES : wS lw = / (c * c) * INR (length lo)).
  { unfold wS. rewrite (Sw_const_weight c) by auto. rewrite Sm_const, Hlw, Hlo. ring. }
  assert (ESx : wSx lw = / (c * c) * mSx lo).
  { unfold wSx. rewrite (Sw_const_weight c) by auto. f_equal.
    apply (Sm_proj_ext (fun x _ => x)); congruence. }
  assert (ESy : wSy lw = / (c * c) * mSy lo).
  { unfold wSy. rewrite (Sw_const_weight c) by auto. f_equal.
    apply (Sm_proj_ext (fun _ y => y)); congruence. }
  assert (ESxx : wSxx lw = / (c * c) * mSxx lo).
  { unfold wSxx. rewrite (Sw_const_weight c) by auto. f_equal.
    apply (Sm_proj_ext (fun x _ => x * x)); congruence. }
  assert (ESxy : wSxy lw = / (c * c) * mSxy lo).
  { unfold wSxy. rewrite (Sw_const_weight c) by auto. f_equal.
    apply (Sm_proj_ext (fun x y => x * y)); congruence. }
  rewrite ES, ESx, ESy, ESxx, ESxy in Hsol. apply ls_sol_homog in Hsol; [|exact Hcc].
  (* same (a, b): then the residual sums agree up to c^2, hence the same sigma^2 *)
  assert (Eab : fs_ax fw = fs_ax fo /\ fs_bx fw = fs_bx fo).
  { destruct Hsol as [H1 H2 Hdet _ _ _ _ _]. destruct Hsol' as [H1' H2' _ _ _ _ _ _].
    set (S := INR (length lo)) in *.
    assert (E1 : (fs_ax fw - fs_ax fo) * S + (fs_bx fw - fs_bx fo) * mSx lo = 0) by lra.
    assert (E2 : (fs_ax fw - fs_ax fo) * mSx lo + (fs_bx fw - fs_bx fo) * mSxx lo = 0) by lra.
    split.
    - assert (H : (S * mSxx lo - mSx lo * mSx lo) * (fs_ax fw - fs_ax fo) = 0).
      { replace ((S * mSxx lo - mSx lo * mSx lo) * (fs_ax fw - fs_ax fo))
          with (mSxx lo * ((fs_ax fw - fs_ax fo) * S + (fs_bx fw - fs_bx fo) * mSx lo)
                - mSx lo * ((fs_ax fw - fs_ax fo) * mSx lo + (fs_bx fw - fs_bx fo) * mSxx lo)) by ring.
        rewrite E1, E2. ring. }
      apply Rmult_integral in H. destruct H; lra.
    - assert (H : (S * mSxx lo - mSx lo * mSx lo) * (fs_bx fw - fs_bx fo) = 0).
      { replace ((S * mSxx lo - mSx lo * mSx lo) * (fs_bx fw - fs_bx fo))
          with (S * ((fs_ax fw - fs_ax fo) * mSx lo + (fs_bx fw - fs_bx fo) * mSxx lo)
                - mSx lo * ((fs_ax fw - fs_ax fo) * S + (fs_bx fw - fs_bx fo) * mSx lo)) by ring.
        rewrite E1, E2. ring. }
      apply Rmult_integral in H. destruct H; lra. }
  destruct Eab as [Ea Eb].
  assert (Essr : fs_ssr fw = fs_ssr fo / (c * c)).
  { rewrite Hssr, Hssr', Ea, Eb. rewrite (Sw_const_weight c) by auto. unfold Rdiv. rewrite Rmult_comm. f_equal.
    unfold wres. apply (Sm_proj_ext (fun x y => (y - fs_ax fo - fs_bx fo * x) * (y - fs_ax fo - fs_bx fo * x))); congruence. }
  assert (Hq2 : fs_ssr fw / d / / (c * c) = fs_ssr fo / (INR (length lo) - 2)).
  { rewrite Essr, Hd. field. split; [|auto]. rewrite <- Hd. exact Hd0. }
  rewrite Hq2 in Hsol.
  destruct (ls_sol_unique _ _ _ _ _ _ _ _ _ _ _ _ _ _ _ _ Hsol Hsol') as (_ & _ & Eua & Eub & Er).
  split; [exact Ea|]. split; [exact Eb|]. split; [exact Eua|]. split; [exact Eub|]. split; [exact Er|].
  split; [rewrite Edf, Edf', Hd; reflexivity|]. split; [rewrite Hn, Hn', Hlw, Hlo; reflexivity|exact Essr].
Qed.

(* ================= the prediction methods ================= *)
(* the extra input each method declares *)
Theorem ols_y_from_x_input ssr d ps :
  g_OLS_y_from_x RNum ssr (DFin d) = Ok ps ->
  ps_x ps = 0 /\ ps_u ps = sqrt (ssr / d) /\ 0 <= ssr / d /\ ps_indep ps = Some false.
Proof.
  unfold g_OLS_y_from_x. intros H. nxt H q Hq. apply div_df_inv in Hq. destruct Hq as (v & Ev & Hv & ->).
  injection Ev as <-. nxt H m Hm. apply sqrt_inv in Hm. destruct Hm as [H0 ->]. injection H as <-. simpl. auto.
Qed.

Theorem ols_x_from_y_input ssr d ys ps :
  g_OLS_x_from_y RNum ssr (DFin d) ys = Ok ps ->
  let p := INR (length ys) in
  ps_x ps = sumf ys / p /\ ps_u ps = sqrt (ssr / d / p) /\ ps_indep ps = Some false /\ p <> 0.
Proof.
  unfold g_OLS_x_from_y. cbv zeta. intros H. unfold zlen in H. simpl of_Z in H. rewrite IZR_len in H.
  nxt H s Hs. apply fsum_inv in Hs. subst s.
  nxt H y Hy. apply div_inv in Hy. destruct Hy as [Hp ->].
  nxt H q Hq. apply div_df_inv in Hq. destruct Hq as (v & Ev & Hv & ->). injection Ev as <-.
  nxt H q2 Hq2. apply div_inv in Hq2. destruct Hq2 as [_ ->].
  nxt H m Hm. apply sqrt_inv in Hm. destruct Hm as [H0 ->]. injection H as <-. simpl. auto.
Qed.

Theorem rwls_x_from_y_input ssr d ys sy ps :
  g_RWLS_x_from_y RNum ssr (DFin d) ys sy = Ok ps ->
  let p := INR (length ys) in
  ps_x ps = sumf ys / p /\ ps_u ps = sy * sqrt (ssr / d / p) /\ ps_indep ps = Some false /\ p <> 0.
Proof.
  unfold g_RWLS_x_from_y. cbv zeta. intros H. unfold zlen in H. simpl of_Z in H. rewrite IZR_len in H.
  nxt H s Hs. apply fsum_inv in Hs. subst s.
  nxt H y Hy. apply div_inv in Hy. destruct Hy as [Hp ->].
  nxt H q Hq. apply div_df_inv in Hq. destruct Hq as (v & Ev & Hv & ->). injection Ev as <-.
  nxt H q2 Hq2. apply div_inv in Hq2. destruct Hq2 as [_ ->].
  nxt H m Hm. apply sqrt_inv in Hm. destruct Hm as [H0 ->]. injection H as <-. simpl. auto.
Qed.

Theorem wls_x_from_y_input ssr df ys u ps :
  g_WLS_x_from_y RNum ssr df ys u = Ok ps ->
  let p := INR (length ys) in
  ps_x ps = sumf ys / p /\ ps_u ps = u / sqrt p /\ ps_indep ps = Some false /\ p <> 0.
Proof.
  unfold g_WLS_x_from_y. cbv zeta. intros H. unfold zlen in H. simpl of_Z in H. rewrite IZR_len in H.
  nxt H s Hs. apply fsum_inv in Hs. subst s.
  nxt H y Hy. apply div_inv in Hy. destruct Hy as [Hp ->].
  nxt H m Hm. apply sqrt_inv in Hm. destruct Hm as [H0 ->].
  nxt H q Hq. apply div_inv in Hq. destruct Hq as [_ ->]. injection H as <-. simpl. auto.
Qed.

(* LineFitWLS.y_from_x and LineFitRWLS.y_from_x (repaired: they used to omit `independent`, and the
   RWLS noise was scaled by sqrt(s_y*ssr/df)): the noise input is a dependent input of value 0 with
   u = s_y (WLS: the stated response uncertainty) resp. s_y*sqrt(ssr/df) (RWLS: the scale factor
   times the residual scale) *)
Theorem wls_y_from_x_input ssr df sy ps :
  g_WLS_y_from_x RNum ssr df sy = Ok ps -> ps_x ps = 0 /\ ps_u ps = sy /\ ps_indep ps = Some false.
Proof. unfold g_WLS_y_from_x. intros H. injection H as <-. simpl. auto. Qed.

Theorem wls_y_from_x_total ssr df sy : exists ps, g_WLS_y_from_x RNum ssr df sy = Ok ps.
Proof. eexists. reflexivity. Qed.

Theorem rwls_y_from_x_input ssr d sy ps :
  g_RWLS_y_from_x RNum ssr (DFin d) sy = Ok ps ->
  ps_x ps = 0 /\ ps_u ps = sy * sqrt (ssr / d) /\ 0 <= ssr / d /\ ps_indep ps = Some false.
Proof.
  unfold g_RWLS_y_from_x. intros H. nxt H q Hq. apply div_df_inv in Hq. destruct Hq as (v & Ev & Hv & ->).
  injection Ev as <-. nxt H m Hm. apply sqrt_inv in Hm. destruct Hm as [H0 ->]. injection H as <-. simpl. auto.
Qed.

Theorem y_from_x_total ssr d sy :
  d <> 0 -> 0 <= ssr / d ->
  (exists ps, g_OLS_y_from_x RNum ssr (DFin d) = Ok ps) /\ (exists ps, g_RWLS_y_from_x RNum ssr (DFin d) sy = Ok ps).
Proof.
  intros Hd Hq. split.
  - unfold g_OLS_y_from_x, div_df. rewrite div_ok by exact Hd. cbn [bind]. rewrite sqrt_ok by exact Hq.
    cbn [bind]. eexists. reflexivity.
  - unfold g_RWLS_y_from_x, div_df. rewrite div_ok by exact Hd. cbn [bind]. rewrite sqrt_ok by exact Hq.
    cbn [bind]. eexists. reflexivity.
Qed.

(* the RWLS noise scale is now the one x_from_y uses for a single observation (p = 1):
   both are s_y * sqrt(ssr/df) *)
Theorem rwls_scale_consistent ssr d sy y0 ps1 ps2 :
  g_RWLS_y_from_x RNum ssr (DFin d) sy = Ok ps1 ->
  g_RWLS_x_from_y RNum ssr (DFin d) [y0] sy = Ok ps2 ->
  ps_u ps1 = ps_u ps2.
Proof.
  intros H1 H2. apply rwls_y_from_x_input in H1. apply rwls_x_from_y_input in H2.
  destruct H1 as (_ & -> & _ & _). cbv zeta in H2. destruct H2 as (_ & -> & _ & _).
  simpl. replace (ssr / d / 1) with (ssr / d) by (unfold Rdiv; rewrite Rinv_1; ring). reflexivity.
Qed.

(* ================= totality of the public functions ================= *)
Lemma len3_guard (n : nat) : (3 <= n)%nat -> Z.leb (Z.of_nat n - 2) 0 = false.
Proof. intros. apply Z.leb_gt. lia. Qed.

Theorem wls_total l :
  (3 <= length l)%nat -> (forall p, In p l -> pu p <> 0) -> wDet l <> 0 ->
  exists fs, g_line_fit_wls RNum (map px l) (map py l) (map pu l) DofNone = Ok fs.
Proof.
  intros Hn Hu Hd. assert (Hne : l <> []) by (intros ->; simpl in Hn; lia).
  destruct (wls_kernel_total l Hne Hu Hd) as (a & b & sa & sb & r & ssr & Hk).
  unfold g_line_fit_wls. cbv zeta. unfold zlen. rewrite !map_length, len3_guard, !Z.eqb_refl by exact Hn.
  cbn [negb orb]. rewrite Hk. cbn [bind]. eexists. reflexivity.
Qed.

Theorem rwls_total l :
  (3 <= length l)%nat -> (forall p, In p l -> pu p <> 0) -> wDet l <> 0 ->
  exists fs, g_line_fit_rwls RNum (map px l) (map py l) (map pu l) DofNone = Ok fs.
Proof.
  intros Hn Hu Hd. assert (Hne : l <> []) by (intros ->; simpl in Hn; lia).
  destruct (wls_kernel_total l Hne Hu Hd) as (a & b & sa & sb & r & ssr & Hk).
  pose proof (wls_kernel_sound _ _ _ _ _ _ _ _ Hk) as [Hs _].
  assert (Hssr : 0 <= ssr).
  { rewrite (ws_ssr _ _ _ _ _ _ _ Hs). unfold Sw. apply Sm_nonneg. intros p Hp.
    apply Rmult_le_pos; [exact (Rle_0_sqr _)|]. apply Rlt_le, Rinv_0_lt_compat, sq_pos; auto. }
  unfold g_line_fit_rwls. cbv zeta. unfold zlen. rewrite !map_length, !Z.eqb_refl.
  cbn [negb orb bind]. rewrite Hk. cbn [bind]. unfold df_of_Z, div_df.
  assert (Hdf : 0 < of_Z RNum (Z.of_nat (length l) - 2)).
  { simpl. apply IZR_lt. lia. }
  rewrite div_ok by lra. cbn [bind].
  rewrite sqrt_ok.
  2:{ apply Rmult_le_pos; [exact Hssr|]. apply Rlt_le, Rinv_0_lt_compat. exact Hdf. }
  cbn [bind]. eexists. reflexivity.
Qed.

Theorem ols_total l :
  (3 <= length l)%nat -> INR (length l) * mSxx l - mSx l * mSx l <> 0 ->
  exists fs, g_line_fit RNum (map px l) (map py l) = Ok fs.
Proof.
  intros Hn Hd.
  set (n := INR (length l)) in *.
  assert (Hn3 : 3 <= n) by (unfold n; replace 3 with (INR 3) by (simpl; lra); apply le_INR; lia).
  set (k := mSx l / n).
  set (vStt := Sm (fun p => (px p - k) * (px p - k)) l).
  assert (HI1 : vStt = 1 * mSxx l + (- 2 * k) * mSx l + (k * k) * n).
  { unfold vStt, n. rewrite <- (Rmult_1_r (INR (length l))), <- (Sm_const 1 l).
    unfold mSxx, mSx. apply Sm_lin3. intros p Hp. ring. }
  assert (HStt : vStt = (n * mSxx l - mSx l * mSx l) / n) by (rewrite HI1; unfold k; field; lra).
  assert (HSttpos : 0 < vStt).
  { assert (0 <= vStt) by (apply Sm_nonneg; intros p _; exact (Rle_0_sqr _)).
    assert (vStt <> 0) by (rewrite HStt; apply Rmult_integral_contrapositive_currified; [exact Hd|apply Rinv_neq_0_compat; lra]).
    lra. }
  unfold g_line_fit. cbv zeta. unfold zlen. rewrite !map_length, len3_guard, Z.eqb_refl by exact Hn.
  cbn [negb orb fsum RNum bind].
  change (fold_right Rplus 0 (map ?g l)) with (Sm g l). fold (mSx l) (mSy l).
  assert (HnZ : of_Z RNum (Z.of_nat (length l)) = n) by (simpl; apply IZR_len).
  assert (Hdf : of_Z RNum (Z.of_nat (length l) - 2) = n - 2) by (simpl; rewrite minus_IZR, IZR_len; reflexivity).
  rewrite !HnZ, !Hdf.
  rewrite (div_ok (mSx l) n) by lra. cbn [bind]. fold k.
  rewrite (mapM1_fwd _ px (fun p => px p - k)) by (intros; reflexivity). cbn [bind].
  rewrite (mapM1_fwd _ (fun p => px p - k) (fun p => (px p - k) * (px p - k))) by (intros; reflexivity).
  cbn [bind fsum RNum]. change (fold_right Rplus 0 (map ?g l)) with (Sm g l). fold vStt.
  rewrite (mapM2_fwd _ (fun p => px p - k) py (fun p => (px p - k) * py p / vStt))
    by (intros p Hp; cbn beta; rewrite div_ok by lra; reflexivity).
  cbn [bind fsum RNum]. change (fold_right Rplus 0 (map ?g l)) with (Sm g l).
  set (vb := Sm (fun p => (px p - k) * py p / vStt) l).
  rewrite div_ok by lra. cbn [bind]. set (va := sub RNum (mSy l) (mul RNum vb (mSx l)) / n).
  assert (HSS : n * vStt <> 0) by (apply Rgt_not_eq; apply Rmult_lt_0_compat; lra).
  rewrite (div_ok _ (mul RNum n vStt)) by exact HSS. cbn [bind].
  rewrite div_ok by lra. cbn [bind]. rewrite dyad10.
  set (q21 := add RNum 1 (mul RNum (mSx l) (mSx l) / mul RNum n vStt) / n).
  assert (Hq21 : 0 < q21).
  { unfold q21. cbn [add mul RNum]. apply Rdiv_lt_0_compat; [|lra].
    assert (0 <= mSx l * mSx l / (n * vStt)).
    { apply Rmult_le_pos; [exact (Rle_0_sqr _)|]. apply Rlt_le, Rinv_0_lt_compat. nra. }
    lra. }
  rewrite sqrt_ok by lra. cbn [bind].
  rewrite div_ok by lra. cbn [bind].
  assert (Hq24 : 0 < 1 / vStt) by (apply Rdiv_lt_0_compat; lra).
  rewrite sqrt_ok by lra. cbn [bind].
  assert (Hs1 : 0 < sqrt q21) by (apply sqrt_lt_R0; exact Hq21).
  assert (Hs2 : 0 < sqrt (1 / vStt)) by (apply sqrt_lt_R0; exact Hq24).
  rewrite div_ok.
  2:{ cbn [mul RNum]. apply Rgt_not_eq. repeat apply Rmult_lt_0_compat; lra. }
  cbn [bind]. cbn [neg mul RNum].
  rewrite fit_clip_R.
  2:{ apply r_ab_le1; try lra.
      - rewrite sqrt_sqrt by lra. unfold q21. reflexivity.
      - rewrite sqrt_sqrt by lra. reflexivity. }
  cbn [bind].
  rewrite (mapM2_fwd _ px py (fun p => (py p - va - vb * px p) * (py p - va - vb * px p)))
    by (intros p Hp; cbn beta; rewrite pow2_ok; reflexivity).
  cbn [bind fsum RNum]. change (fold_right Rplus 0 (map ?g l)) with (Sm g l).
  set (ssr := Sm (fun p => (py p - va - vb * px p) * (py p - va - vb * px p)) l).
  assert (Hssr : 0 <= ssr) by (apply Sm_nonneg; intros p _; exact (Rle_0_sqr _)).
  rewrite div_ok by lra. cbn [bind].
  rewrite sqrt_ok.
  2:{ apply Rmult_le_pos; [exact Hssr|]. apply Rlt_le, Rinv_0_lt_compat. lra. }
  cbn [bind]. eexists. reflexivity.
Qed.

(* ================= equivariance of the fitted values under x -> al*x+be, y -> ga*y+de ================= *)
Lemma ne_unique S Sx Sy Sxx Sxy a b a' b' :
  S * Sxx - Sx * Sx <> 0 ->
  a * S + b * Sx = Sy -> a * Sx + b * Sxx = Sxy -> a' * S + b' * Sx = Sy -> a' * Sx + b' * Sxx = Sxy ->
  a = a' /\ b = b'.
Proof.
  intros Hd H1 H2 H1' H2'.
  assert (E1 : (a - a') * S + (b - b') * Sx = 0) by lra.
  assert (E2 : (a - a') * Sx + (b - b') * Sxx = 0) by lra.
  split.
  - assert (H : (S * Sxx - Sx * Sx) * (a - a') = 0).
    { replace ((S * Sxx - Sx * Sx) * (a - a'))
        with (Sxx * ((a - a') * S + (b - b') * Sx) - Sx * ((a - a') * Sx + (b - b') * Sxx)) by ring.
      rewrite E1, E2. ring. }
    apply Rmult_integral in H. destruct H; [contradiction|lra].
  - assert (H : (S * Sxx - Sx * Sx) * (b - b') = 0).
    { replace ((S * Sxx - Sx * Sx) * (b - b'))
        with (S * ((a - a') * Sx + (b - b') * Sxx) - Sx * ((a - a') * S + (b - b') * Sx)) by ring.
      rewrite E1, E2. ring. }
    apply Rmult_integral in H. destruct H; [contradiction|lra].
Qed.

Lemma ne_equivariant S Sx Sy Sxx Sxy a b al be ga de :
  al <> 0 -> a * S + b * Sx = Sy -> a * Sx + b * Sxx = Sxy ->
  (ga * a + de - ga * b / al * be) * S + ga * b / al * (al * Sx + be * S) = ga * Sy + de * S /\
  (ga * a + de - ga * b / al * be) * (al * Sx + be * S)
    + ga * b / al * (al * al * Sxx + 2 * al * be * Sx + be * be * S)
    = al * ga * Sxy + al * de * Sx + be * ga * Sy + be * de * S.
Proof. intros Ha H1 H2. rewrite <- H1, <- H2. split; field; exact Ha. Qed.

Definition shift_scale (al be ga de : R) (p : pt) : pt := (al * px p + be, ga * py p + de, pu p).

Lemma Sm_map {A B} (g : B -> R) (f : A -> B) l : Sm g (map f l) = Sm (fun p => g (f p)) l.
Proof. unfold Sm. rewrite map_map. reflexivity. Qed.

Theorem ols_values_equivariant (l : list pt) al be ga de fs fs' :
  al <> 0 ->
  g_line_fit RNum (map px l) (map py l) = Ok fs ->
  g_line_fit RNum (map (fun p => al * px p + be) l) (map (fun p => ga * py p + de) l) = Ok fs' ->
  fs_bx fs' = ga * fs_bx fs / al /\ fs_ax fs' = ga * fs_ax fs + de - ga * fs_bx fs / al * be /\
  fs_df fs' = fs_df fs /\ fs_n fs' = fs_n fs.
Proof.
  intros Hal H H'.
  apply ols_sound in H. destruct H as (l1 & Ex & Ey & _ & Edf & _ & Hsol & _ & Hn).
  apply ols_sound in H'. destruct H' as (l2 & Ex' & Ey' & _ & Edf' & _ & Hsol' & _ & Hn').
  set (T := shift_scale al be ga de).
  assert (Hx2 : map px l2 = map px (map T l)) by (rewrite <- Ex', map_map; reflexivity).
  assert (Hy2 : map py l2 = map py (map T l)) by (rewrite <- Ey', map_map; reflexivity).
  assert (L1 : length l1 = length l) by (rewrite <- (map_length px l1), <- Ex; apply map_length).
  assert (L2 : length l2 = length l) by (rewrite <- (map_length px l2), Hx2, !map_length; reflexivity).
  set (n := INR (length l)).
  (* sums of the original data *)
  assert (A1 : mSx l1 = mSx l) by (apply (Sm_proj_ext (fun x _ => x)); congruence).
  assert (A2 : mSy l1 = mSy l) by (apply (Sm_proj_ext (fun _ y => y)); congruence).
  assert (A3 : mSxx l1 = mSxx l) by (apply (Sm_proj_ext (fun x _ => x * x)); congruence).
  assert (A4 : mSxy l1 = mSxy l) by (apply (Sm_proj_ext (fun x y => x * y)); congruence).
  (* sums of the transformed data *)
  assert (Hn1 : Sm (fun _ : pt => 1) l = n) by (rewrite Sm_const; unfold n; ring).
  assert (B1 : mSx l2 = al * mSx l + be * n).
  { transitivity (Sm (fun p => px p) (map T l)); [exact (Sm_proj_ext (fun x _ => x) l2 (map T l) Hx2 Hy2)|].
    rewrite Sm_map, <- Hn1. apply Sm_lin2. intros p _. unfold T, shift_scale, px. simpl. ring. }
  assert (B2 : mSy l2 = ga * mSy l + de * n).
  { transitivity (Sm (fun p => py p) (map T l)); [exact (Sm_proj_ext (fun _ y => y) l2 (map T l) Hx2 Hy2)|].
    rewrite Sm_map, <- Hn1. apply Sm_lin2. intros p _. unfold T, shift_scale, py. simpl. ring. }
  assert (B3 : mSxx l2 = al * al * mSxx l + 2 * al * be * mSx l + be * be * n).
  { transitivity (Sm (fun p => px p * px p) (map T l)); [exact (Sm_proj_ext (fun x _ => x * x) l2 (map T l) Hx2 Hy2)|].
    rewrite Sm_map, <- Hn1. apply Sm_lin3. intros p _. unfold T, shift_scale, px. simpl. ring. }
  assert (B4 : mSxy l2 = al * ga * mSxy l + al * de * mSx l + be * ga * mSy l + be * de * n).
  { transitivity (Sm (fun p => px p * py p) (map T l)); [exact (Sm_proj_ext (fun x y => x * y) l2 (map T l) Hx2 Hy2)|].
    rewrite Sm_map, <- Hn1.
    rewrite (Sm_ext _ (fun p => al * ga * (px p * py p) + (al * de * px p + (be * ga * py p + be * de * 1)))).
    - rewrite !Sm_plus, !Sm_scal. unfold mSxy, mSx, mSy. ring.
    - intros p _. unfold T, shift_scale, px, py. simpl. ring. }
  cbv zeta in Hsol, Hsol', Edf, Edf'. rewrite L1, A1, A2, A3, A4 in Hsol. rewrite L2, B1, B2, B3, B4 in Hsol'.
  fold n in Hsol, Hsol'.
  destruct Hsol as [H1 H2 _ _ _ _ _ _]. destruct Hsol' as [H1' H2' Hd' _ _ _ _ _].
  destruct (ne_equivariant _ _ _ _ _ _ _ al be ga de Hal H1 H2) as [G1 G2].
  destruct (ne_unique _ _ _ _ _ _ _ _ _ (Rgt_not_eq _ _ Hd') H1' H2' G1 G2) as [Ea Eb].
  split; [exact Eb|]. split; [exact Ea|].
  split; [rewrite Edf, Edf', L1, L2; reflexivity|rewrite Hn, Hn', L1, L2; reflexivity].
Qed.

(* ================= float level (FNum, any oracle table): the r_ab handed to set_correlation ================= *)
From Coq Require Import PrimFloat.
From GTCV Require Import FNum.

(* _clip_r returns its argument or exactly +-1 *)
Lemma fit_clip_float_cases tbl (r : float) :
  exists c, g_fit_clip_r (FNum tbl) r = Ok c /\ (c = r \/ c = 1%float \/ c = (-1)%float).
Proof.
  unfold g_fit_clip_r.
  match goal with |- context [if ?b then _ else _] => destruct b end.
  - eexists. split; [reflexivity|].
    match goal with |- context [if ?b then _ else _] => destruct b end; [right; left|right; right]; reflexivity.
  - eexists. split; [reflexivity|]. left. reflexivity.
Qed.

(* peel the binds of a generated body up to the call of _clip_r *)
Ltac peel_to_clip H :=
  repeat match type of H with
         | bind (g_fit_clip_r _ _) _ = Ok _ => fail 1
         | bind _ _ = Ok _ =>
             let v := fresh "v" in let E := fresh "E" in
             apply bind_ok in H; destruct H as (v & E & H); clear E
         end.
Ltac peel_all H :=
  repeat match type of H with
         | bind _ _ = Ok _ =>
             let v := fresh "v" in let E := fresh "E" in
             apply bind_ok in H; destruct H as (v & E & H); clear E
         end.

(* in every binary64 run of _line_fit_wls / line_fit that returns, the correlation returned (the one
   passed to a.set_correlation) is _clip_r of the computed quotient: that quotient itself, or exactly
   +-1 when the quotient was in the rounding band just outside [-1,1] *)
Theorem wls_kernel_r_clipped tbl x y u a b sa sb r ssr n :
  g__line_fit_wls (FNum tbl) x y u = Ok (a, b, sa, sb, r, ssr, n) ->
  exists r0, g_fit_clip_r (FNum tbl) r0 = Ok r /\ (r = r0 \/ r = 1%float \/ r = (-1)%float).
Proof.
  intros H. unfold g__line_fit_wls in H. cbv zeta in H.
  peel_to_clip H.
  apply bind_ok in H. destruct H as (c & Ec & H).
  peel_all H. injection H as _ _ _ _ <- _ _.
  match type of Ec with g_fit_clip_r _ ?r0 = _ =>
    exists r0; split; [exact Ec|]; destruct (fit_clip_float_cases tbl r0) as (c' & Ec' & Hc') end.
  rewrite Ec in Ec'. injection Ec' as <-. exact Hc'.
Qed.

Theorem ols_r_clipped tbl x y fs :
  g_line_fit (FNum tbl) x y = Ok fs ->
  exists r0, g_fit_clip_r (FNum tbl) r0 = Ok (fs_r fs) /\
             (fs_r fs = r0 \/ fs_r fs = 1%float \/ fs_r fs = (-1)%float).
Proof.
  intros H. unfold g_line_fit in H. cbv zeta in H.
  match type of H with (if ?c then _ else _) = _ => destruct c; [discriminate|] end.
  peel_to_clip H.
  apply bind_ok in H. destruct H as (c & Ec & H).
  peel_all H. injection H as <-. cbn [fs_r].
  match type of Ec with g_fit_clip_r _ ?r0 = _ =>
    exists r0; split; [exact Ec|]; destruct (fit_clip_float_cases tbl r0) as (c' & Ec' & Hc') end.
  rewrite Ec in Ec'. injection Ec' as <-. exact Hc'.
Qed.

Theorem wls_r_clipped tbl x y u dof fs :
  g_line_fit_wls (FNum tbl) x y u dof = Ok fs ->
  exists r0, g_fit_clip_r (FNum tbl) r0 = Ok (fs_r fs) /\
             (fs_r fs = r0 \/ fs_r fs = 1%float \/ fs_r fs = (-1)%float).
Proof.
  intros H. unfold g_line_fit_wls in H. cbv zeta in H.
  match type of H with (if ?c then _ else _) = _ => destruct c; [discriminate|] end.
  apply bind_ok in H. destruct H as ([[[[[[a b] sa] sb] r] ssr] n] & Hk & H).
  apply wls_kernel_r_clipped in Hk.
  apply bind_ok in H. destruct H as (d & _ & H). injection H as <-. exact Hk.
Qed.

Theorem rwls_r_clipped tbl x y u dof fs :
  g_line_fit_rwls (FNum tbl) x y u dof = Ok fs ->
  exists r0, g_fit_clip_r (FNum tbl) r0 = Ok (fs_r fs) /\
             (fs_r fs = r0 \/ fs_r fs = 1%float \/ fs_r fs = (-1)%float).
Proof.
  intros H. unfold g_line_fit_rwls in H. cbv zeta in H.
  apply bind_ok in H. destruct H as (d & _ & H).
  match type of H with (if ?c then _ else _) = _ => destruct c; [discriminate|] end.
  apply bind_ok in H. destruct H as ([[[[[[a b] sa] sb] r] ssr] n] & Hk & H).
  apply wls_kernel_r_clipped in Hk.
  peel_all H. injection H as <-. exact Hk.
Qed.

(* the line_fit_wtls wrapper: the correlation r of the type-B (a, b) is re-declared as _clip_r(r) *)
Theorem wtls_r_clipped tbl (r c : float) :
  g_line_fit_wtls_r (FNum tbl) r = Ok c ->
  g_fit_clip_r (FNum tbl) r = Ok c /\ (c = r \/ c = 1%float \/ c = (-1)%float).
Proof.
  intros H. unfold g_line_fit_wtls_r in H. apply bind_ok in H. destruct H as (c' & Ec & H). injection H as <-.
  split; [exact Ec|]. destruct (fit_clip_float_cases tbl r) as (c2 & Ec2 & Hc2).
  rewrite Ec in Ec2. injection Ec2 as <-. exact Hc2.
Qed.

(* so the ValueError of set_correlation_real (|r| > 1) is no longer raised for a correlation in the
   rounding band: a value of exactly +-1 is accepted *)
Lemma clipped_one_accepted :
  PrimFloat.ltb 1%float (PrimFloat.abs 1%float) = false /\ PrimFloat.ltb 1%float (PrimFloat.abs (-1)%float) = false.
Proof. split; reflexivity. Qed.

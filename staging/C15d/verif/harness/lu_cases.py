"""lu_cases.py -- case generator, implementation runner, Coq printers and the search oracle for
C15 (GTC/LU.py and the linear-algebra wrappers of GTC/linear_algebra.py).

A case is a JSON-able dict: {'ctx', 'fn', 'pool': [(x,u,independent)...], 'a': rows of element
descriptors, 'b': rows / list / None}.  Element descriptors:
  ['i', z] int   ['f', x] float   ['p', k] the elementary uncertain real pool[k] itself (the SAME
  object wherever it is used: shared influences between a and b)   ['m', [[k,c],...], c0, lab]
  the intermediate sum(c*pool[k]) + c0, passed through result() when lab   ['q', k1, k2]
  pool[k1]*pool[k2]   ['c', x] an uncertain constant   ['zc', re, im] complex and ['zu', re, im, u]
  uncertain complex (oracle search only: not modelled)."""
import math, random, collections, hashlib, numbers, itertools
from common import *
from kernel import ckey, cvec

class Unmodelled(Exception):
    pass

# ------------------------------------------------------------------ building the arrays
def build_elem(d, pool, core):
    k = d[0]
    if k == 'i': return int(d[1])
    if k == 'f': return float(d[1])
    if k == 'p': return pool[d[1]]
    if k == 'm':
        acc = None
        for j, c in d[1]:
            t = pool[j] * c
            acc = t if acc is None else acc + t
        acc = acc + d[2]
        return core.result(acc) if d[3] else acc
    if k == 'q': return pool[d[1]] * pool[d[2]]
    if k == 'c': return core.constant(float(d[1]))
    if k == 'zc': return complex(d[1], d[2])
    if k == 'zu': return core.ucomplex(complex(d[1], d[2]), d[3])
    raise ValueError(d)

VIEWS2 = ['plain', 'T', 'dotT', 'F', 'slice', 'step', 'Tslice']
VIEWS1 = ['plain', 'slice', 'step', 'rev']

def make_view(elems, mode, la, dt=None):
    """(array passed to the function, base array that owns the memory).  `elems` is the LOGICAL
    content (element [i][j] of what is passed); the memory layout differs by mode:
    T / dotT: transpose view of a C-ordered base; F: Fortran-ordered array; slice / step: a window /
    every second row and column of a larger base; Tslice: a window of a transposed base; rev (1-D):
    reversed view."""
    import numpy as np
    from GTC.uncertain_array import UncertainArray
    # dt: build the memory as a NUMERIC ndarray of that dtype (uarray keeps the dtype of an ndarray)
    U = la.uarray if dt is None else (lambda x: la.uarray(np.array(x, dtype=dt)))
    two = bool(elems) and isinstance(elems[0], list)
    if mode in (None, 'plain'):
        a = U(elems); return a, a
    if not two:
        n = len(elems)
        if mode == 'slice':
            base = U([91.5] + list(elems) + [92.5, 93.5]); return base[1:n + 1], base
        if mode == 'step':
            full = []
            for e in elems: full += [e, 94.5]
            base = U(full); return base[::2], base
        if mode == 'rev':
            base = U(list(reversed(elems))); return base[::-1], base
        raise ValueError(mode)
    n, m = len(elems), len(elems[0])
    tr = [[elems[i][j] for i in range(n)] for j in range(m)]
    if mode == 'T':
        base = U(tr); return la.transpose(base), base
    if mode == 'dotT':
        base = U(tr); return base.T, base
    if mode == 'F':
        o = np.empty((n, m), dtype=object, order='F')
        for i in range(n):
            for j in range(m): o[i, j] = elems[i][j]
        base = UncertainArray(o if dt is None else np.asfortranarray(o.astype(dt))); return base, base
    if mode == 'slice':
        big = [[95.5] * (m + 3)] + [[96.5] + list(r) + [97.5, 98.5] for r in elems] + [[99.5] * (m + 3)]
        base = U(big); return base[1:n + 1, 1:m + 1], base
    if mode == 'step':
        big = []
        for r in elems:
            row = []
            for e in r: row += [81.5, e]
            big.append(row); big.append([82.5] * (2 * m))
        base = U(big); return base[::2, 1::2], base
    if mode == 'Tslice':
        big = [[83.5] * (n + 2)] + [[84.5] + list(r) + [85.5] for r in tr]
        base = U(big); return base.T[1:n + 1, 1:m + 1], base
    raise ValueError(mode)

def build(case, want_bases=False):
    from GTC import core, la
    new_context(case['ctx'])
    pool = [core.ureal(x, u, independent=bool(ind)) for x, u, ind in case['pool']]
    def arr(rows, mode, dt=None):
        if rows is None: return None, None
        if rows and isinstance(rows[0], list) and rows[0] and isinstance(rows[0][0], list):
            elems = [[build_elem(e, pool, core) for e in r] for r in rows]
            if not all(len(r) == len(elems[0]) for r in elems): mode = 'plain'
        else:
            elems = [build_elem(e, pool, core) for e in rows]
        return make_view(elems, mode, la, dt)
    if case['fn'] in ND_FNS:
        a, abase = make_nd(case['na'], case.get('a_view'), pool, core, la, case.get('a_dtype'))
        b, bbase = make_nd(case['nb'], case.get('b_view'), pool, core, la, case.get('b_dtype')) if case.get('nb') else (None, None)
    else:
        a, abase = arr(case['a'], case.get('a_view'), case.get('a_dtype'))
        b, bbase = arr(case.get('b'), case.get('b_view'), case.get('b_dtype'))
    if want_bases: return pool, a, b, (abase, bbase)
    return pool, a, b

ND_FNS = ('dotN', 'matmulN', 'transposeN')
VIEWSN = ['plain', 'swap', 'F']

def make_nd(nd, mode, pool, core, la, dt=None):
    """an operand with any number of dimensions: {'shape': [...], 'flat': [descriptors, row-major]}.
    shape [] is a scalar (the element itself is passed).  swap: the view np.swapaxes(base, -1, -2) of a
    base stored with its last two axes exchanged; F: Fortran-ordered memory."""
    import numpy as np
    from GTC.uncertain_array import UncertainArray
    shape = tuple(nd['shape'])
    elems = [build_elem(e, pool, core) for e in nd['flat']]
    if not shape:
        return elems[0], None
    o = np.empty(len(elems), dtype=object)
    for i, e in enumerate(elems): o[i] = e
    o = o.reshape(shape)
    if dt is not None: o = o.astype(dt)
    if mode == 'swap' and len(shape) >= 2:
        base = UncertainArray(np.ascontiguousarray(np.swapaxes(o, -1, -2)))
        return np.swapaxes(base, -1, -2), base
    if mode == 'F' and len(shape) >= 2:
        base = UncertainArray(np.asfortranarray(o)); return base, base
    base = UncertainArray(o); return base, base

def rows_of(x):
    """any result as rows of elements"""
    import numpy as np
    if isinstance(x, np.ndarray):
        if x.ndim == 0: return [[x.item()]]
        if x.ndim == 1: return [[e] for e in x]
        if x.ndim == 2: return [list(r) for r in x]
        raise Unmodelled('ndim %d' % x.ndim)
    return [[x]]

def _form(x, form):
    """how the operand is handed over: the uarray itself, a plain-ndarray view of the same memory, or nested lists"""
    import numpy as np
    if form == 'ndarray' and isinstance(x, np.ndarray): return x.view(np.ndarray)
    if form == 'list' and isinstance(x, np.ndarray): return x.tolist()
    return x

def seen(x, form):
    """the operand as the function sees it: a nested list is re-read by numpy (which infers a common dtype)"""
    import numpy as np
    return np.asarray(x.tolist()) if (form == 'list' and isinstance(x, np.ndarray)) else x

def norm_axes(axes, nd):
    return list(range(nd))[::-1] if axes is None else [ax % nd for ax in axes]

def call_impl(case, a, b):
    import numpy as np
    from GTC import la, LU
    fn = case['fn']
    a = _form(a, case.get('a_form')); b = _form(b, case.get('b_form'))
    if fn == 'transposeN':
        axes = None if case.get('axes') is None else tuple(case['axes'])
        how = case.get('how', 'la')
        if how == 'la': return la.transpose(a, axes)
        if how == 'la-default': return la.transpose(a)
        if how == 'T': return a.T
        return np.transpose(a, axes)
    if fn == 'solve': return la.solve(a, b)
    if fn == 'inv': return la.inv(a)
    if fn == 'det': return la.det(a)
    if fn == 'invab': return LU.invab(a, b)
    if fn == 'matmul': return la.matmul(a, b)
    if fn == 'at': return a @ b
    if fn == 'dot': return la.dot(a, b)
    if fn == 'transpose': return la.transpose(a)
    if fn == 'dotN': return la.dot(a, b)
    if fn == 'matmulN': return la.matmul(a, b) if not case.get('use_at') else a @ b
    raise ValueError(fn)

# ------------------------------------------------------------------ Coq literals
def cnode(o):
    n = o._node
    if n is None: return 'NoNode'
    if o.is_elementary: return '(LeafRef %s)' % ckey(n.uid)
    if o.is_intermediate: return '(NodeRef %s)' % ckey(n.uid)
    return '(ConstLeaf None)'

def celt(e):
    from GTC import lib
    import numpy as np
    if isinstance(e, (bool, np.bool_)): return '(@EI NF %s)' % cz(int(e))
    if isinstance(e, numbers.Integral): return '(@EI NF %s)' % cz(int(e))
    if isinstance(e, float): return '(@EN NF %s)' % cf(e)
    if isinstance(e, lib.UncertainReal):
        return '(@EU NF (mkU %s %s %s %s %s))' % (cf(e._x), cvec(e._u_components), cvec(e._d_components),
                                                   cvec(e._i_components), cnode(e))
    raise Unmodelled(type(e).__name__)

def crows(rows):
    return clist([clist([celt(e) for e in r]) for r in rows])

# ------------------------------------------------------------------ history of the argument arrays
PRE_OPS = ['add', 'sub', 'mul', 'div']
PRE_OTHER = ['bigger', 'bigger', 'same', 'scalar', 'row', 'col', 'bad']
PRE_FORM = ['uarray', 'ndarray', 'list']

def gen_prelude(rng, case):
    """array operations performed on the operands BEFORE the linear-algebra call (results thrown
    away, exceptions caught): broadcasting binary operations with the operand first or second,
    against larger / equal / smaller / scalar / incompatible partners, some of which raise
    (zero divisors) ; unary operations and views.  The la functions depend on contents only."""
    steps = []
    for _ in range(rng.randint(1, 4)):
        t = rng.choice(['a', 'b']) if (case.get('b') is not None or case.get('nb')) else 'a'
        if rng.random() < 0.2:
            steps.append({'k': 'unary', 't': t, 'on': rng.choice(['arg', 'base']),
                          'f': rng.choice(['neg', 'pos', 'T', 'transpose', 'slice', 'abs', 'sqrt', 'log'])})
        else:
            steps.append({'k': 'bin', 't': t, 'on': rng.choice(['arg', 'arg', 'base']),
                          'pos': rng.choice(['first', 'second']), 'op': rng.choice(PRE_OPS + ['div']),
                          'other': rng.choice(PRE_OTHER), 'form': rng.choice(PRE_FORM),
                          'zero': rng.random() < 0.5, 'lead': rng.randint(2, 3)})
    return steps

def _other_array(step, shape):
    """the partner of a binary prelude operation, as nested lists of floats (or a scalar)"""
    import numpy as np
    kind = step['other']
    if kind == 'scalar':
        return 0.0 if step['zero'] else 2.5
    if kind == 'bigger': shp = (step['lead'],) + tuple(shape)
    elif kind == 'same': shp = tuple(shape)
    elif kind == 'row': shp = (shape[-1],)
    elif kind == 'col': shp = (shape[0], 1) if len(shape) == 2 else (1,)
    else: shp = (shape[-1] + 1,)
    cnt = int(np.prod(shp)) if shp else 1
    vals = [1.0 + 0.5 * i for i in range(cnt)]
    if step['zero'] and cnt: vals[cnt // 2] = 0.0
    return np.array(vals, dtype=object).reshape(shp)

def run_prelude(case, a, b, bases):
    """returns the list of outcome tags (for the distribution); never raises"""
    import operator, numpy as np
    from GTC import la, core
    tags = []
    for st in case.get('prelude') or []:
        arr = {'a': a, 'b': b}[st['t']]
        if st.get('on') == 'base': arr = bases[0 if st['t'] == 'a' else 1]
        if arr is None: continue
        try:
            if st['k'] == 'unary':
                f = st['f']
                if f == 'neg': -arr
                elif f == 'pos': +arr
                elif f == 'T': arr.T
                elif f == 'transpose': la.transpose(arr)
                elif f == 'slice': arr[::-1]
                elif f == 'abs': abs(arr)
                elif f == 'sqrt': core.sqrt(arr)
                elif f == 'log': core.log(arr)
                tags.append('pre-unary-ok')
                continue
            other = _other_array(st, arr.shape)
            if isinstance(other, np.ndarray):
                if st['form'] == 'uarray': other = la.uarray(other)
                elif st['form'] == 'list': other = other.tolist()
            op = {'add': operator.add, 'sub': operator.sub, 'mul': operator.mul, 'div': operator.truediv}[st['op']]
            if st['pos'] == 'first': op(arr, other)
            else: op(other, arr)
            tags.append('pre-bin-ok')
        except Exception as ex:
            tags.append('pre-raises-' + type(ex).__name__)
    return tags

def _flat(x):
    import numpy as np
    return list(x.flat) if isinstance(x, np.ndarray) else [x]

def _shape(x):
    import numpy as np
    return tuple(x.shape) if isinstance(x, np.ndarray) else ()

def snapshot(x):
    import numpy as np
    if x is None: return None
    if not isinstance(x, np.ndarray): return (celt(x), id(x))
    return (_shape(x), str(x.dtype), clist([celt(e) for e in x.flat]), [id(e) for e in x.flat] if x.dtype == object else None)

def _prod(t):
    r = 1
    for v in t: r *= v
    return r

def nd_call(case, a, b, r, exn):
    """Gallina call and expected outcome for la.dot / la.matmul on N-d operands.  Returns
    (call, expected, shape_problem)"""
    nat = lambda k: '%d%%nat' % k
    nl = lambda t: clist([nat(v) for v in t])
    a = seen(a, case.get('a_form')); b = seen(b, case.get('b_form'))
    fa, sa = _flat(a), _shape(a)
    fb, sb = (_flat(b), _shape(b)) if b is not None else ([], ())
    FA = clist([celt(e) for e in fa]); FB = clist([celt(e) for e in fb])
    problem = None
    if case['fn'] == 'transposeN':
        axes = norm_axes(case.get('axes') if case.get('how', 'la') in ('la', 'np') else None, len(sa))
        call = '(CTransposeN NF %s %s %s)' % (nl(sa), nl(axes), FA)
        spec = tuple(sa[ax] for ax in axes)
        if exn is None:
            if _shape(r) != spec:
                problem = 'transpose result shape %r, axes %r of shape %r give %r' % (_shape(r), case.get('axes'), sa, spec)
            return call, '(Ok ([%s], [%s], []))' % (clist([celt(e) for e in _flat(r)]), FA), problem
        return call, '(Err %s)' % cexn(exn), None
    if case['fn'] == 'dotN' and (sa == () or sb == ()):
        if sa == ():
            call = '(CScale NF true %s %s)' % (celt(a), FB); spec = sb; A2, B2 = FB, '[]'
        else:
            call = '(CScale NF false %s %s)' % (celt(b), FA); spec = sa; A2, B2 = FA, '[]'
        args = '[%s], []' % A2
    elif case['fn'] == 'dotN':
        PA = _prod(sa[:-1]); La = sa[-1]
        if len(sb) == 1: Lb, QB, M, tail = sb[0], 1, 1, ()
        else: Lb, QB, M, tail = sb[-2], _prod(sb[:-2]), sb[-1], sb[:-2] + (sb[-1],)
        call = '(CDotN NF %s %s %s %s %s %s %s)' % (nat(PA), nat(La), nat(Lb), nat(QB), nat(M), FA, FB)
        spec = sa[:-1] + tail
        args = '[%s], [%s]' % (FA, FB)
    elif len(sa) != len(sb):
        call = '(CMatmulMixed NF %s %s)' % (nat(len(sa)), nat(len(sb)))
        a1 = (1,) + sa if len(sa) == 1 else sa; b1 = sb + (1,) if len(sb) == 1 else sb
        k = max(len(a1), len(b1)) - 2
        SA = (1,) * (k - len(a1) + 2) + a1[:-2]; SB = (1,) * (k - len(b1) + 2) + b1[:-2]
        spec = tuple(max(x, y) for x, y in zip(SA, SB)) + (() if len(sa) == 1 else (sa[-2],)) + (() if len(sb) == 1 else (sb[-1],))
        args = '[%s], [%s]' % (FA, FB)
    else:
        SA, SB = sa[:-2], sb[:-2]
        call = '(CMatmulN NF %s %s %s %s %s %s %s %s)' % (nl(SA), nl(SB), nat(sa[-2]), nat(sa[-1]), nat(sb[-2]),
                                                      nat(sb[-1]), FA, FB)
        spec = tuple(max(x, y) for x, y in zip(SA, SB)) + (sa[-2], sb[-1])
        args = '[%s], [%s]' % (FA, FB)
    if exn is None:
        if _shape(r) != tuple(spec):
            problem = 'result shape %r, numpy semantics give %r' % (_shape(r), tuple(spec))
        expected = '(Ok ([%s], %s))' % (clist([celt(e) for e in _flat(r)]), args)
    else:
        expected = '(Err %s)' % cexn(exn)
    return call, expected, problem

def one_call(case, a, b, bases):
    """one call of the implementation on the arrays as they are NOW; the model is evaluated on the
    contents read at this moment.  Returns (gallina term of type Z, info)"""
    fn = case['fn']
    nd = fn in ND_FNS
    if fn in ('matmul', 'at', 'dot', 'dotN', 'matmulN') and b is not None:
        # both operands numeric and one of them floating: numpy multiplies with BLAS, whose accumulation starts from
        # +0.0 -- the sign of a zero result can differ from the object-dot order of the model; such calls (an operand
        # element that is zero) are left to the oracle
        import numpy as np
        sa_, sb_ = seen(a, case.get('a_form')), seen(b, case.get('b_form'))
        kinds = [getattr(x, 'dtype', np.dtype(object)).kind for x in (sa_, sb_)]
        if all(k in 'iuf' for k in kinds) and 'f' in kinds and any(e == 0 for x in (sa_, sb_) for e in _flat(x)):
            return None, {'exn': None, 'args_modified': False, 'shape_problem': None, 'skipped': 'native-float-dot-with-zero'}
    snap_all = lambda: (snapshot(a), snapshot(b), snapshot(bases[0]), snapshot(bases[1]),
                        _shape(a), getattr(a, 'strides', None), _shape(b) if b is not None else None,
                        getattr(b, 'strides', None))
    if not nd:
        ra = rows_of(seen(a, case.get('a_form'))); rb = rows_of(seen(b, case.get('b_form'))) if b is not None else []
        A = crows(ra); B = crows(rb)
    else:
        pre_call = nd_call(case, a, b, None, 'pending')[0]     # operands as literals BEFORE the call
    before = snap_all()
    info = {'exn': None, 'args_modified': False, 'shape_problem': None}
    r = None
    try:
        r = call_impl(case, a, b)
        if not nd:
            R = crows(rows_of(r))
            A2 = crows(rows_of(seen(a, case.get('a_form')))); B2 = crows(rows_of(seen(b, case.get('b_form')))) if b is not None else '[]'
            expected = '(Ok (%s, %s, %s))' % (R, A2, B2)
    except Unmodelled:
        raise
    except Exception as ex:
        info['exn'] = type(ex).__name__
        expected = '(Err %s)' % cexn(type(ex).__name__)
    if snap_all() != before:
        info['args_modified'] = True
    if nd:
        call, expected, info['shape_problem'] = nd_call(case, a, b, r, info['exn'])
        return '(check_call NF %s %s)' % (pre_call, expected), info
    n = len(ra); m = len(ra[0]) if ra else 0
    nat = lambda k: '%d%%nat' % k
    if fn == 'solve' and b.ndim == 2:
        call = '(CSolve2 NF %s %s %s %s)' % (nat(n), nat(len(rb[0]) if rb else 0), A, B)
    elif fn == 'solve':
        call = '(CSolve NF %s %s %s)' % (nat(n), A, clist([celt(r_[0]) for r_ in rb]))
    elif fn == 'inv': call = '(CInv NF %s %s)' % (nat(n), A)
    elif fn == 'det': call = '(CDet NF %s %s)' % (nat(n), A)
    elif fn == 'invab':
        call = '(CInvab NF %s %s %s %s)' % (nat(n), nat(len(rb[0]) if rb else 0), A, B)
    elif fn in ('matmul', 'at', 'dot'):
        # 1-D operands: lhs (m,) is a 1 x m row, rhs (m,) an m x 1 column
        if a.ndim == 1:
            ra = [[r_[0] for r_ in ra]]; n, m = 1, len(ra[0])
        p = 1 if b.ndim == 1 else (len(rb[0]) if rb else 0)
        A = crows(ra)
        if info['exn'] is None:
            rr = rows_of(r)
            if a.ndim == 1 and b.ndim == 2: rr = [[x[0] for x in rr]]
            expected = '(Ok (%s, %s, %s))' % (crows(rr), A, B)
        call = '(CMatmul NF %s %s %s %s %s)' % (nat(n), nat(m), nat(p), A, B)
    elif fn == 'transpose':
        call = '(CTranspose NF %s %s %s)' % (nat(n), nat(m), A)
        if info['exn'] is None:
            expected = '(Ok (%s, %s, []))' % (R, A2)
    else:
        raise ValueError(fn)
    checker = 'check_call NF'
    if fn in LU_FNS:
        forms = (case.get('a_form'), case.get('b_form') if b is not None else None)
        if 'list' in forms:
            call = '(CListArg NF)'                                   # C15-4: no .dtype / .shape on a list
        elif a.dtype.kind in 'iu' and case.get('a_form') == 'ndarray' and not \
                (b is not None and a.dtype != b.dtype and fn in ('solve', 'invab')):
            # C15-4: ndarray.copy() keeps the integer dtype and every store of ludcmp / _lubksb truncates: values are
            # judged by the oracle only; arguments-unchanged is still checked here
            info['skipped'] = 'int-ndarray-values'
            return None, info
        elif b is not None and a.dtype != b.dtype and fn in ('solve', 'invab'):
            call = '(CDtypeMismatch NF)'                             # the assert comes before any copy
        elif a.dtype == bool:
            call = '(CBoolDtype NF)'                                 # C15-4: unary + on numpy booleans in copy()
        elif a.dtype.kind in 'iu' and fn in ('inv', 'invab'):
            checker = 'check_call_int_result []'                     # C15-4: result stored through a float -> int cast
    return '(%s %s %s)' % (checker, call, expected), info

# ------------------------------------------------------------------ in-place changes between calls
def gen_mutations(rng, shape_a, shape_b, kind, npool, oracle_dom=None, exact=False):
    """in-place changes of the argument arrays between two calls on the SAME objects.  oracle_dom (for
    the oracle's well-conditioned matrices): column of the dominant element of each row of a; then only
    changes of a that keep it well conditioned are generated."""
    muts = []
    for _ in range(rng.randint(0, 3)):
        t = rng.choice(['a', 'b']) if shape_b else 'a'
        shp = shape_a if t == 'a' else shape_b
        if not shp:
            continue
        idx = [rng.randrange(d) for d in shp]
        c = rng.choice([2.0, 3.0, -0.5, 2, -1.0])
        safe = (t == 'b' or oracle_dom is None)
        kinds = ['scale_elem', 'scale_row', 'imul', 'set_num', 'set_pool', 'iadd'] if safe else \
                ['scale_elem', 'scale_row', 'imul']
        m = rng.choice(kinds)
        if m == 'set_pool' and not npool: m = 'set_num'
        if not safe and m == 'scale_elem':
            idx = [idx[0], oracle_dom[idx[0]]]; c = rng.choice([2.0, 3.0])
        v = rng.randint(-9, 9) if kind == 'int' else (rng.choice(EXACT) if exact else rnd_val(rng))
        muts.append({'m': m, 't': t, 'idx': idx, 'c': c, 'v': v, 'k': rng.randrange(npool) if npool else 0})
    return muts

def apply_mutations(muts, arrs, pool):
    """arrs = {'a': array, 'b': array}; returns the (possibly rebound) arrays and tags"""
    import numpy as np, operator, warnings
    tags = []
    for mu in muts:
        x = arrs.get(mu['t'])
        if not isinstance(x, np.ndarray): continue
        try:
            idx = tuple(mu['idx'][:x.ndim])
            if mu['m'] == 'scale_elem': x[idx] = x[idx] * mu['c']
            elif mu['m'] == 'set_num': x[idx] = mu['v']
            elif mu['m'] == 'set_pool': x[idx] = pool[mu['k']]
            elif mu['m'] == 'scale_row':
                if x.ndim == 1:
                    x[idx[0]:] = [e * mu['c'] for e in x[idx[0]:]]
                else:
                    sub = x[idx[0]]
                    new = np.empty(sub.size, dtype=object)
                    for i, e in enumerate(sub.flat): new[i] = e * mu['c']
                    x[idx[0]] = new.reshape(sub.shape)
            elif mu['m'] in ('imul', 'iadd'):
                with warnings.catch_warnings():
                    warnings.simplefilter('ignore')
                    arrs[mu['t']] = (operator.imul if mu['m'] == 'imul' else operator.iadd)(x, mu['c'])
            tags.append('mut-' + mu['m'])
        except Exception as ex:
            tags.append('mut-raises-' + type(ex).__name__)
    return tags

def case_terms(case):
    """build the arrays, run the history, then the call -- and, for a case with a 'sequence', change
    the SAME array objects in place and call again (each call compared with the model evaluated on the
    contents at that moment).  Returns [(gallina term, info), ...]"""
    pool, a, b, bases = build(case, want_bases=True)
    pre = run_prelude(case, a, b, bases)
    out = []
    t, info = one_call(case, a, b, bases)
    info['prelude'] = pre; info['call'] = 0
    out.append((t, info))
    arrs = {'a': a, 'b': b}
    for k, muts in enumerate(case.get('sequence') or []):
        tags = apply_mutations(muts, arrs, pool)
        t, info = one_call(case, arrs['a'], arrs['b'], bases)
        info['prelude'] = tags + ['repeat-call' if muts else 'repeat-call-unchanged']; info['call'] = k + 1
        out.append((t, info))
    return out

HEADER = '''From Coq Require Import ZArith List PrimFloat.
From GTCV Require Import Num FNum Vector Opres KTypes Kernel LU LUInst.
Import ListNotations.
Local Open Scope float_scope.
Definition NF : Num := FNum [].
'''

# ------------------------------------------------------------------ generator
NICE = [1.0, -1.0, 2.0, 0.5, -0.5, 3.0, 4.0, -2.0, 0.25, 1.5, -3.0, 5.0, 8.0, 0.75, 10.0, -7.0]

def rnd_val(rng, zero_ok=True):
    c = rng.random()
    if zero_ok and c < 0.10: return 0.0
    if c < 0.45: return rng.choice(NICE)
    if c < 0.55: return float(rng.randint(-9, 9)) or 1.0
    return round(rng.uniform(-6, 6), rng.choice([1, 3, 12])) or 0.5

def gen_pool(rng):
    pool = []
    for _ in range(rng.randint(1, 6)):
        x = rnd_val(rng) if rng.random() > 0.12 else 0.0
        u = rng.choice([0.1, 0.25, 1.0, 0.5, round(rng.uniform(0.01, 2.0), 3)])
        if rng.random() < 0.05: u = 0.0
        pool.append([x, u, rng.random() < 0.8])
    return pool

def gen_elem(rng, kind, pool, val=None):
    """one element descriptor of the requested array kind, with value val when given"""
    npool = len(pool)
    if kind == 'int': return ['i', int(round(val)) if val is not None else rng.randint(-9, 9)]
    if kind == 'float': return ['f', val if val is not None else rnd_val(rng)]
    # uncertain / mixed
    c = rng.random()
    if kind == 'mixed' and c < 0.45:
        return ['i', int(round(val)) if val is not None else rng.randint(-6, 6)] if rng.random() < 0.4 \
            else ['f', val if val is not None else rnd_val(rng)]
    c = rng.random()
    if c < 0.40: return ['p', rng.randrange(npool)]
    if c < 0.75:
        ks = rng.sample(range(npool), rng.randint(1, min(3, npool)))
        return ['m', [[k, rng.choice([1.0, -1.0, 2.0, 0.5, round(rng.uniform(-2, 2), 2) or 1.0])] for k in ks],
                rng.choice([0.0, 0.0, rnd_val(rng)]), rng.random() < 0.2]
    if c < 0.87: return ['q', rng.randrange(npool), rng.randrange(npool)]
    if c < 0.93: return ['c', rnd_val(rng)]
    return ['f', rnd_val(rng)]

def gen_matrix_vals(rng, n, style, integer=False):
    """plain values of an n x n matrix.  styles: 'dom' row-permuted diagonally dominant (needs
    pivoting, well conditioned), 'rand', 'zero00' zero in the leading position, 'singular',
    'zerorow'"""
    if style == 'dom':
        m = [[rnd_val(rng) for _ in range(n)] for _ in range(n)]
        if integer: m = [[float(round(v)) for v in r] for r in m]
        for i in range(n):
            m[i][i] = (sum(abs(v) for j, v in enumerate(m[i]) if j != i) + rng.choice([1.0, 2.0] if integer else [1.0, 2.0, 0.5])) * rng.choice([1, -1])
        rng.shuffle(m)
        return m
    m = [[rnd_val(rng) for _ in range(n)] for _ in range(n)]
    if style == 'zero00':
        m[0][0] = 0.0
        if n > 2: m[1][1] = 0.0
    elif style == 'singular' and n > 1:
        i, j = rng.sample(range(n), 2)
        c = rng.choice([1.0, 2.0, -1.0, 0.5])
        m[i] = [c * v for v in m[j]]
    elif style == 'zerorow':
        m[rng.randrange(n)] = [0.0] * n
    return m

KINDS = ['float', 'int', 'unc', 'mixed']
FNS = ['solve', 'solve', 'inv', 'det', 'invab', 'matmul', 'at', 'dot', 'transpose', 'dotN', 'dotN', 'matmulN',
       'transposeN', 'transposeN']

def elem_with_value(rng, kind, pool, v):
    """an element of the array kind whose VALUE is v (so that the pivoting pattern is controlled)"""
    if kind == 'int': return ['i', int(round(v))]
    if kind == 'float': return ['f', v]
    c = rng.random()
    if kind == 'mixed' and c < 0.5:
        return ['i', int(round(v))] if (v == round(v) and rng.random() < 0.5) else ['f', v]
    # an uncertain element with exactly this value: an intermediate  pool-combination + constant
    if rng.random() < 0.35 or not pool:
        pool.append([v, rng.choice([0.1, 0.5, 1.0, round(rng.uniform(0.01, 1.5), 3)]), rng.random() < 0.8])
        return ['p', len(pool) - 1]
    ks = rng.sample(range(len(pool)), rng.randint(1, min(2, len(pool))))
    terms = [[k, rng.choice([1.0, -1.0, 2.0, 0.5])] for k in ks]
    base = sum(c * pool[k][0] for k, c in terms)
    return ['m', terms, v - base, rng.random() < 0.15]

def gen_case(rng, ctx, malformed=False):
    fn = rng.choice(FNS)
    kind = rng.choice(KINDS)
    n = rng.choice([1, 2, 2, 3, 3, 4, 4, 5, 6])
    pool = gen_pool(rng) if kind in ('unc', 'mixed') else []
    case = {'ctx': ctx, 'fn': fn, 'kind': kind, 'n': n, 'pool': pool, 'b': None}
    if fn in ND_FNS:
        if not pool and kind in ('unc', 'mixed'): pool = case['pool'] = gen_pool(rng)
        gen_nd(rng, case, kind, pool, malformed)
        add_history(rng, case)
        return case
    if fn in ('solve', 'inv', 'det', 'invab'):
        style = rng.choice(['dom', 'dom', 'rand', 'rand', 'zero00', 'tiny'])
        if malformed: style = rng.choice(['singular', 'zerorow', 'nonsquare'])
        case['style'] = style
        if style == 'nonsquare':
            vals = [[rnd_val(rng) for _ in range(n + 1)] for _ in range(n)]
        elif style == 'tiny':      # a well-conditioned matrix scaled far down: pivots are tiny, not zero
            sc = rng.choice([2.0 ** -50, 1e-13, 1e-17, 2.0 ** -400])
            vals = [[v * sc for v in r] for r in gen_matrix_vals(rng, n, 'dom')]
        else:
            vals = gen_matrix_vals(rng, n, style)
        if kind == 'int' and style == 'tiny': style = case['style'] = 'dom'; vals = gen_matrix_vals(rng, n, 'dom')
        if kind == 'int': vals = [[float(round(v)) for v in r] for r in vals]
        case['a'] = [[elem_with_value(rng, kind, pool, v) for v in r] for r in vals]
        if fn == 'solve' and rng.random() < 0.4:        # 2-D right-hand side: n x m
            m = rng.randint(1, 3)
            case['b'] = [[gen_rhs(rng, kind, pool) for _ in range(m)] for _ in range(n)]
        elif fn == 'solve':
            case['b'] = [gen_rhs(rng, kind, pool) for _ in range(n)]
        elif fn == 'invab':
            m = rng.randint(1, 3)
            case['b'] = [[gen_rhs(rng, kind, pool) for _ in range(m)] for _ in range(n)]
    elif fn == 'transpose':
        m = rng.randint(1, 5)
        case['a'] = [[gen_elem(rng, kind, pool or [[1.0, 0.1, True]]) for _ in range(m)] for _ in range(n)]
        if not pool and kind in ('unc', 'mixed'): case['pool'] = [[1.0, 0.1, True]]
    else:
        m = rng.randint(1, 5); p = rng.randint(1, 4)
        shape = rng.choice(['22', '22', '22', '21', '12', '11']) if fn == 'dot' else rng.choice(['22', '22', '21'])
        if not pool and kind in ('unc', 'mixed'): pool = case['pool'] = gen_pool(rng)
        bm = m + 1 if malformed else m
        if shape[0] == '2': case['a'] = [[gen_elem(rng, kind, pool) for _ in range(m)] for _ in range(n)]
        else: case['a'] = [gen_elem(rng, kind, pool) for _ in range(m)]
        if shape[1] == '2': case['b'] = [[gen_elem(rng, kind, pool) for _ in range(p)] for _ in range(bm)]
        else: case['b'] = [gen_elem(rng, kind, pool) for _ in range(bm)]
        case['style'] = 'shape' + shape + ('-misaligned' if malformed else '')
    add_history(rng, case)
    return case

def gen_nd(rng, case, kind, pool, malformed):
    """operands of la.dot / la.matmul with up to 3 (matmul: 4) dimensions, incl. scalars for dot.
    matmul: both operands with the same number (>= 3) of dimensions, stack dimensions equal or 1
    or -- known finding C15-3 -- operands of DIFFERENT rank, one of them >= 3-D, which numpy.matmul
    broadcasts / promotes and la.matmul answers with IndexError)."""
    d = lambda: rng.randint(1, 3)
    L = d()
    if case['fn'] == 'transposeN':
        nd = rng.choice([1, 2, 2, 3, 3, 3])
        shp = [rng.randint(1, 4) for _ in range(nd)]
        c = rng.random()
        if c < 0.2: axes = None
        elif c < 0.35: axes = list(range(nd))
        elif c < 0.5: axes = list(range(nd))[::-1]
        else: axes = rng.sample(range(nd), nd)
        if axes is not None: axes = [ax - nd if rng.random() < 0.3 else ax for ax in axes]      # negative axes
        case['axes'] = axes
        case['how'] = rng.choice(['la', 'la', 'la', 'np']) if axes is not None else rng.choice(['la', 'la-default', 'T', 'np'])
        case['na'] = {'shape': shp, 'flat': [gen_elem(rng, kind, pool) for _ in range(_prod(shp))]}
        case['nb'] = None; case['a'] = None
        case['n'] = max(shp); case['style'] = 'tr%d' % nd
        return
    if case['fn'] == 'dotN':
        sa = rng.choice([[], [L], [d(), L], [d(), d(), L], [d(), d(), L]])
        sb = rng.choice([[], [L], [L, d()], [d(), L, d()], [d(), L, d()]])
        if len(sa) < 3 and len(sb) < 3 and sa and sb:        # make sure something is N-d or scalar
            if rng.random() < 0.5: sa = [d(), d(), L]
            else: sb = [d(), L, d()]
        if malformed and sa and sb:
            sb = list(sb); sb[0 if len(sb) == 1 else -2] = L + 1
    else:
        if not malformed and rng.random() < 0.3:        # different rank (C15-3)
            M = d()
            sa, sb = rng.choice([([d(), d(), L], [L, M]), ([d(), L], [d(), L, M]), ([L], [d(), L, M]),
                                 ([d(), d(), L], [L]), ([d(), 1, d(), L], [d(), L, M]), ([d(), L], [d(), d(), L, M])])
            case['use_at'] = rng.random() < 0.4
            mk = lambda shp: {'shape': list(shp), 'flat': [gen_elem(rng, kind, pool) for _ in range(_prod(shp))]}
            case['na'], case['nb'] = mk(sa), mk(sb)
            case['a'] = None
            case['n'] = max(list(sa) + list(sb) + [1])
            case['style'] = 'nd%d%d-mixed-rank' % (len(sa), len(sb))
            return
        k = rng.choice([1, 1, 2])
        SA = [d() for _ in range(k)]
        SB = [x if rng.random() < 0.6 else 1 for x in SA]
        if rng.random() < 0.3: SA = [1 if rng.random() < 0.5 else x for x in SA]
        if malformed:
            if rng.random() < 0.5: SB[0] = SA[0] + 1 if SA[0] > 1 else 3; SA[0] = max(SA[0], 2)
            sa = SA + [d(), L]; sb = SB + [L + (0 if SB[0] != SA[0] and SB[0] != 1 and SA[0] != 1 else 1), d()]
        else:
            sa = SA + [d(), L]; sb = SB + [L, d()]
        case['use_at'] = rng.random() < 0.4
    mk = lambda shp: {'shape': list(shp), 'flat': [gen_elem(rng, kind, pool) for _ in range(_prod(shp))]}
    case['na'], case['nb'] = mk(sa), mk(sb)
    case['a'] = None
    case['n'] = max(list(sa) + list(sb) + [1])
    case['style'] = 'nd%d%d' % (len(sa), len(sb)) + ('-misaligned' if malformed else '')

def case_shapes(case):
    def shp(rows):
        if rows is None: return None
        return [len(rows), len(rows[0])] if is2d(rows) else [len(rows)]
    if case['fn'] in ND_FNS: return case['na']['shape'], (case['nb']['shape'] if case.get('nb') else None)
    return shp(case['a']), shp(case.get('b'))

def add_sequence(rng, case, oracle_dom=None):
    """the same call repeated on the SAME array objects, with in-place changes in between"""
    if rng.random() < 0.35:
        sa, sb = case_shapes(case)
        if case['fn'] in ND_FNS or (sa and all(len(r) == len(case['a'][0]) for r in case['a']) if is2d(case['a']) else True):
            exact = case['fn'] not in LU_FNS and 'float64' in (case.get('a_dtype'), case.get('b_dtype'))
            case['sequence'] = [gen_mutations(rng, sa, sb, case['kind'], len(case['pool']), oracle_dom, exact)
                                for _ in range(rng.randint(1, 2))]

def is2d(rows):
    return bool(rows) and isinstance(rows[0], list) and bool(rows[0]) and isinstance(rows[0][0], list)

INT_DTYPES = ['int64', 'int32']
EXACT = [0.25 * k for k in range(-40, 41) if k != 0]
LU_FNS = ('solve', 'inv', 'det', 'invab')

def add_dtype_forms(rng, case, oracle=False):
    """arguments that are not object arrays: uarrays built from NUMERIC ndarrays (which keep their dtype), plain
    ndarrays, nested lists.  Only for all-int / all-float contents.  The four sub-classes of known finding C15-4 are
    generated too: integer dtypes with inv / invab (result allocated with a.dtype: truncated; modelled exactly),
    plain INTEGER ndarrays with solve / inv / det / invab (ndarray.copy keeps the dtype, every store truncates: only
    arguments-unchanged is compared in the correspondence, values by the oracle), nested lists with the LU
    functions (AttributeError), bool dtype with the LU functions (UFuncTypeError)."""
    kind, fn = case['kind'], case['fn']
    if kind not in ('int', 'float') or rng.random() < 0.45: return
    lu = fn in LU_FNS
    dts = (INT_DTYPES if kind == 'int' else ['float64', 'float64'] + (['float32', 'complex128'] if oracle else []))
    if case.get('tiny'): dts = [d for d in dts if d != 'float32']
    dt = rng.choice(dts)
    form = rng.choice(['uarray', 'uarray', 'ndarray', 'list'])
    if lu and kind == 'int' and rng.random() < 0.12: dt, form = 'bool', 'uarray'
    if case.get('style') == 'nonsquare': form = 'uarray'
    for key in ('a', 'b'):
        if case.get(key) is None and not (case.get('n' + key)): continue
        if lu:
            case[key + '_dtype'], case[key + '_form'] = dt, form          # LU.solve asserts equal dtypes
        else:
            if rng.random() < 0.25: continue                               # this operand stays an object uarray
            case[key + '_dtype'] = rng.choice(dts); case[key + '_form'] = rng.choice(['uarray', 'uarray', 'ndarray', 'list'])
            if fn == 'at' and case[key + '_form'] == 'list': case[key + '_form'] = 'ndarray' if key == 'b' else 'uarray'
    if fn == 'transposeN' and case.get('how') == 'T' and case.get('a_form') == 'list': case['a_form'] = 'ndarray'
    if case.get('use_at') and case.get('a_form') in ('list', 'ndarray') and case.get('b_form') in ('list', 'ndarray'):
        case['use_at'] = False
    if fn == 'at' and case.get('a_form') != 'uarray' and case.get('b_form') not in (None, 'uarray'):
        case['a_form'] = 'uarray'                                          # @ needs one operand that defines __matmul__
    if kind == 'float' and not lu:
        # numeric float operands go through BLAS (another summation order): exactly representable values only
        def ex(d): return ['f', rng.choice(EXACT)] if d[0] == 'f' else d
        for key in ('a', 'b'):
            rows = case.get(key)
            if rows is not None:
                case[key] = [[ex(e) for e in r] for r in rows] if is2d(rows) else [ex(e) for e in rows]
            nd = case.get('n' + key)
            if nd: nd['flat'] = [ex(e) for e in nd['flat']]

def add_history(rng, case, oracle_dom=None, oracle=False):
    add_dtype_forms(rng, case, oracle)
    add_views(rng, case)
    if rng.random() < 0.4:
        case['prelude'] = gen_prelude(rng, case)
    add_sequence(rng, case, oracle_dom)

def add_views(rng, case):
    """how the arguments are laid out in memory: half of the calls get a transpose view, a
    Fortran-ordered array, or a window / strided / reversed view of a larger base array"""
    if case['fn'] in ND_FNS:
        for key, nd in (('a', case['na']), ('b', case.get('nb'))):
            if nd: case[key + '_view'] = rng.choice(VIEWSN) if len(nd['shape']) >= 2 else 'plain'
        return
    for key in ('a', 'b'):
        rows = case.get(key)
        if rows is None: continue
        if rng.random() < 0.5:
            case[key + '_view'] = 'plain'
        else:
            case[key + '_view'] = rng.choice(VIEWS2[1:] if is2d(rows) else VIEWS1[1:])

def gen_rhs(rng, kind, pool):
    """right-hand sides: zero values (with and without uncertainty) are common on purpose"""
    c = rng.random()
    if kind == 'int': return ['i', 0 if c < 0.25 else rng.randint(-9, 9)]
    if kind != 'int' and rng.random() < 0.06:          # tiny but non-zero values
        t = rng.choice([1e-13, -3e-17, 2.0 ** -60, 5e-324, -1e-200])
        if kind == 'float' or (kind == 'mixed' and rng.random() < 0.5): return ['f', t]
        pool.append([t, rng.choice([1.0, 0.1]), True]); return ['p', len(pool) - 1]
    if kind == 'float': return ['f', 0.0 if c < 0.25 else rnd_val(rng)]
    if c < 0.15:
        pool.append([0.0, rng.choice([1.0, 0.5, 0.1]), True]); return ['p', len(pool) - 1]
    if c < 0.25: return ['f', 0.0] if kind == 'mixed' else ['c', 0.0]
    return gen_elem(rng, kind, pool)

# ------------------------------------------------------------------ correspondence run
def classify(case, info):
    tags = [case['fn'], 'kind=' + case['kind'], 'n=%d' % case['n'], 'style=' + str(case.get('style')),
            'a_view=' + str(case.get('a_view'))]
    if case.get('b') is not None: tags.append('b_view=' + str(case.get('b_view')))
    if case.get('sequence') and info.get('call') == 0: tags.append('with-sequence')
    for key in ('a', 'b'):
        if case.get(key + '_dtype'): tags.append('%s=%s/%s' % (key, case[key + '_dtype'], case.get(key + '_form')))
    if case['fn'] == 'transposeN': tags.append('axes=%s how=%s' % ('None' if case.get('axes') is None else 'given', case.get('how')))
    if info['exn']: tags.append('raises=' + info['exn'])
    tags.extend(info.get('prelude') or [])
    if case.get('prelude'): tags.append('with-prelude')
    return tags

def run_corr(rng, ncases, name):
    cases = []; terms = []; infos = []; mism = []
    stats = collections.Counter()
    i = 0
    ncalls = 0
    while len(cases) < ncases:
        i += 1
        case = gen_case(rng, 100 + i, malformed=(i % 8 == 0))
        try:
            tis = case_terms(case)
        except Unmodelled as ex:
            stats['skipped-unmodelled'] += 1
            continue
        cases.append(case); ncalls += len(tis)
        for t, info in tis:
            if t is not None:
                terms.append(t); infos.append((case, info))
            if info.get('skipped'): stats['model-skipped:' + info['skipped']] += 1
            info.setdefault('prelude', []); info.setdefault('call', 0)
            stats.update(classify(case, info))
            if info['args_modified']:
                mism.append({'kind': 'argument-modified', 'case': case, 'call': info['call']})
            if info.get('shape_problem'):
                mism.append({'kind': 'result-shape', 'what': info['shape_problem'], 'case': case, 'call': info['call']})
    vals, errors = coq_eval_cases('lu_' + name, HEADER, terms, per_file=28)
    for e in errors:
        mism.append({'kind': 'coqc-failed', 'file': e['file'], 'rc': e['rc'], 'output': e['output'][-1500:]})
    WHAT = {1: 'result differs', 2: 'argument a after the call differs', 3: 'argument b after the call differs',
            4: 'exception / no exception differs'}
    for (case, info), v in zip(infos, vals):
        if v is not None and v != -1:
            mism.append({'kind': 'model-vs-implementation', 'what': WHAT.get(v, str(v)), 'case': case,
                         'call': info['call'], 'implementation_exception': info['exn']})
    distinct = len(set(hashlib.sha1(json_key(c)).hexdigest() for c in cases if c['n'] > 1))
    return {'programs': len(cases), 'steps': ncalls, 'mismatches': mism, 'distinct': distinct,
            'distribution': dict(stats),
            'rule': 'random calls of la.solve/inv/det, LU.invab, la.matmul/dot/@, la.transpose on arrays of int / float / '
                    'uncertain-real / mixed elements (elementary inputs shared between a and b, intermediates, result() nodes, '
                    'constants, zero values with uncertainty), n = 1..6, row-permuted diagonally dominant / random / zero-leading '
                    'matrices, every 8th case singular, zero-row, non-square or misaligned; half of the arguments are views; 40 % of the calls '
                    'are preceded by a random history of array operations on the operands or their base arrays (broadcasting binary '
                    'operations as first / second operand that succeed or raise and are caught, unary operations, views) which the model '
                    'ignores; 35 % of the cases repeat the call on the SAME array objects after in-place changes (element / slice assignment, '
                    '*=, +=, or none), each call compared with the model on the contents at that moment; la.dot / la.matmul also get N-d '
                    'operands (dot: scalars, 1-D..3-D in all combinations; matmul: equal-rank stacks with broadcasting); result elements, argument contents '
                    'after the call and exception classes compared bit for bit with the FElt model; non-trivial = n > 1; '
                    'distinct by hash of the case',
            'samples': [{'case': c} for c in cases[:2]]}

# ------------------------------------------------------------------ slice for C10: operands are never modified
def _sig(x):
    """content signature of an array / scalar result (no Coq involved)"""
    import numpy as np
    def one(e):
        try: return celt(e)
        except Unmodelled: return repr(e)
    if isinstance(x, np.ndarray): return (tuple(x.shape), str(x.dtype), tuple(one(e) for e in x.flat))
    return ((), type(x).__name__, (one(x),))

def operands_unmodified_correspondence(rng, tier, name='C10la'):
    """Implementation-only slice of the C15 cases for property C10 ("operands are never modified by an operation"):
    every linear-algebra call (la.solve / inv / det, LU.invab, la.matmul / dot / @ / transpose, 2-D and N-d, on
    object, numeric-dtype, ndarray and list operands, views, with histories and in-place changes between repeated
    calls) is checked for (1) contents, element identities, shape, dtype and strides of every operand AND of the base
    array of every view being the same after the call as before, (2) the result not being, and (except for
    transposes, which are views by definition) not sharing memory with, an operand or base, (3) an immediate second
    call on the unchanged operands giving an equal, fresh result.  Returns the usual correspondence dict."""
    import numpy as np, warnings
    n = 150 if tier == 'quick' else 2500
    cases = 0; calls = 0; mism = []; stats = collections.Counter(); seen = set()
    def full_snap(objs):
        out = []
        for x in objs:
            if x is None: out.append(None)
            elif isinstance(x, np.ndarray):
                out.append((_sig(x), [id(e) for e in x.flat] if x.dtype == object else None, x.strides))
            else: out.append((_sig(x), id(x)))
        return out
    def run_once(case, a, b):
        try:
            with warnings.catch_warnings():
                warnings.simplefilter('ignore')
                return ('ok', call_impl(case, a, b))
        except Exception as ex:
            return ('exn', type(ex).__name__)
    i = 0
    while cases < n:
        i += 1
        case = gen_case(rng, 5000 + i, malformed=(i % 10 == 0))
        try:
            pool, a, b, bases = build(case, want_bases=True)
        except Exception:
            continue
        cases += 1; seen.add(hashlib.sha1(json_key(case)).hexdigest())
        stats[case['fn']] += 1
        with warnings.catch_warnings():
            warnings.simplefilter('ignore')
            run_prelude(case, a, b, bases)
        arrs = {'a': a, 'b': b}
        rounds = [None] + list(case.get('sequence') or [])
        for k, muts in enumerate(rounds):
            if muts is not None:
                with warnings.catch_warnings():
                    warnings.simplefilter('ignore')
                    apply_mutations(muts, arrs, pool)
            a_, b_ = arrs['a'], arrs['b']
            objs = [a_, b_, bases[0], bases[1]]
            before = full_snap(objs)
            st1, r1 = run_once(case, a_, b_)
            after = full_snap(objs)
            calls += 1
            def report(what):
                mism.append({'kind': 'operands-unmodified', 'what': what, 'case': case, 'call': k})
            if after != before:
                which = [nm for nm, x, y in zip(('a', 'b', 'base of a', 'base of b'), before, after) if x != y]
                report('%s changed by the call: %s' % (case['fn'], ', '.join(which)))
                stats['modified'] += 1
                continue
            if st1 == 'exn':
                stats['raises=' + r1] += 1
                continue
            if isinstance(r1, np.ndarray):
                if any(r1 is o for o in objs if o is not None):
                    report('%s returned one of its operands' % case['fn'])
                elif case['fn'] not in ('transpose', 'transposeN') and \
                        any(isinstance(o, np.ndarray) and np.shares_memory(r1, o) for o in objs):
                    report('the result of %s shares memory with an operand' % case['fn'])
            st2, r2 = run_once(case, a_, b_)
            calls += 1
            if full_snap(objs) != before:
                report('%s changed its operands on the second call' % case['fn'])
            elif st2 != 'ok' or _sig(r2) != _sig(r1):
                report('%s called twice on unchanged operands gave different results' % case['fn'])
            elif isinstance(r1, np.ndarray) and r2 is r1:
                report('%s returned the same result object twice' % case['fn'])
    return {'programs': cases, 'steps': calls, 'mismatches': mism, 'distinct': len(seen),
            'distribution': dict(stats),
            'rule': 'linear-algebra calls of the C15 generator (implementation only): operands and view bases '
                    'snapshotted around every call, results fresh and equal on a repeated call'}

def json_key(c):
    import json
    return json.dumps(c, sort_keys=True).encode()

# ------------------------------------------------------------------ oracle (search only)
def gen_oracle_case(rng):
    """well-conditioned systems (row-permuted diagonally dominant), all element kinds incl. complex"""
    tiny = False
    kind = rng.choice(['float', 'float', 'int', 'int', 'unc', 'mixed', 'complex', 'ucomplex'])
    fn = rng.choice(['solve', 'solve', 'inv', 'det', 'det', 'invab', 'matmul', 'transpose', 'dotN', 'matmulN', 'transposeN'])
    n = rng.randint(1, 6)
    if fn in ND_FNS:
        kind = rng.choice(KINDS)
        pool = gen_pool(rng) if kind in ('unc', 'mixed') else []
        case = {'ctx': 77, 'fn': fn, 'kind': kind, 'n': n, 'pool': pool, 'b': None}
        gen_nd(rng, case, kind, pool, False)
        add_history(rng, case, oracle=True)
        return case
    base = kind if kind in KINDS else 'mixed'
    pool = gen_pool(rng) if kind != 'float' and kind != 'int' else []
    vals = gen_matrix_vals(rng, n, 'dom', integer=(kind == 'int'))
    if kind == 'float' and rng.random() < 0.3:      # tiny pivots, same conditioning (plain floats only: exact values)
        sc = rng.choice([2.0 ** -50, 1e-13, 1e-17, 2.0 ** -200])
        vals = [[v * sc for v in r] for r in vals]
        tiny = True
    def el(v):
        if kind == 'complex' and rng.random() < 0.5: return ['zc', v, rnd_val(rng) * 0.1]
        if kind == 'ucomplex' and rng.random() < 0.5: return ['zu', v, rnd_val(rng) * 0.1, 0.1]
        return elem_with_value(rng, base, pool, v)
    def rhs():
        if kind in ('complex', 'ucomplex') and rng.random() < 0.5: return el(rnd_val(rng))
        return gen_rhs(rng, base, pool)
    case = {'ctx': 77, 'fn': fn, 'kind': kind, 'n': n, 'pool': pool, 'b': None,
            'a': [[el(v) for v in r] for r in vals]}
    if fn == 'solve' and rng.random() < 0.4:
        m = rng.randint(1, 3)
        case['b'] = [[rhs() for _ in range(m)] for _ in range(n)]
    elif fn == 'solve': case['b'] = [rhs() for _ in range(n)]
    if fn in ('invab', 'matmul'):
        m = rng.randint(1, 3)
        case['b'] = [[rhs() for _ in range(m)] for _ in range(n)]
    dom = [max(range(n), key=lambda j: abs(r[j])) for r in vals]
    if tiny: case['tiny'] = True
    add_history(rng, case, oracle_dom=dom, oracle=True)
    return case

def flat_descr(rows):
    if rows is None: return []
    out = []
    for r in rows:
        if r and isinstance(r[0], list): out.extend(r)
        else: out.append(r)
    return out

def _val(e):
    from GTC import lib
    if isinstance(e, (lib.UncertainReal, lib.UncertainComplex)): return e.x
    return e

def _comp(e, x):
    """magnitude of the component of uncertainty of element e due to the elementary input x"""
    from GTC import lib, reporting
    if not isinstance(e, (lib.UncertainReal, lib.UncertainComplex)): return 0.0
    c = reporting.u_component(e, x)
    try:
        return max(abs(float(v)) for v in c)
    except TypeError:
        return abs(float(c))

def _sumprod(a, x):
    """plain-Python sum of products, elementwise (the defining equation of matmul)"""
    n, m = len(a), len(a[0]); p = len(x[0])
    out = []
    for i in range(n):
        row = []
        for j in range(p):
            acc = a[i][0] * x[0][j]
            for k in range(1, m): acc = acc + a[i][k] * x[k][j]
            row.append(acc)
        out.append(row)
    return out

def _residual_fail(lhs_rows, rhs_rows, terms_scale, pool, tol, what):
    """lhs - rhs must vanish in value and in every component, relative to the size of the terms"""
    for i, (lr, rr) in enumerate(zip(lhs_rows, rhs_rows)):
        for j, (l, r) in enumerate(zip(lr, rr)):
            d = l - r
            sv, sc = terms_scale(i, j)
            if abs(_val(d)) > tol * max(sv, 1e-300) and abs(_val(d)) > 1e-300:
                return '%s: element (%d,%d) value residual %r (scale %r)' % (what, i, j, _val(d), sv)
            for k, x in enumerate(pool):
                c = _comp(d, x)
                if c > tol * max(sc(x), 1e-300) + 1e-300 and c > 1e-14 * sv:
                    return '%s: element (%d,%d) residual component w.r.t. input %d is %r (scale %r)' % (what, i, j, k, c, sc(x))
    return None

def oracle_check(case):
    """None if the property holds on this input (to conservative tolerances), else a dict.  A case with a
    'sequence' is checked at every call, on the contents the arrays have at that call."""
    try:
        pool, a, b, bases = build(case, want_bases=True)
    except Exception:
        return None
    run_prelude(case, a, b, bases)
    why = _oracle_once(case, pool, a, b, bases, True)
    arrs = {'a': a, 'b': b}
    k = 0
    for k, muts in enumerate(case.get('sequence') or [], 1):
        if why is not None: k -= 1; break
        apply_mutations(muts, arrs, pool)
        why = _oracle_once(case, pool, arrs['a'], arrs['b'], bases, False)
    if why is None: return None
    return dict(case, why=('call %d: ' % k if case.get('sequence') else '') + why,
                rhs_zero_uncertain=rhs_zero_uncertain(case))

def _nd_spec(fn, a, b):
    """shape and flat elements of dot / matmul by the element-wise sum-of-products definition"""
    import numpy as np, itertools
    sa, sb = _shape(a), _shape(b)
    def sop(f, g, L):
        acc = f(0) * g(0)
        for l in range(1, L): acc = acc + f(l) * g(l)
        return acc
    if fn == 'dotN':
        if sa == (): return sb, [a * e for e in _flat(b)]
        if sb == (): return sa, [e * b for e in _flat(a)]
        L = sa[-1]
        if len(sb) == 1:
            return sa[:-1], [sop(lambda l: a[ia + (l,)], lambda l: b[l], L) for ia in np.ndindex(*sa[:-1])]
        out = []
        for ia in np.ndindex(*sa[:-1]):
            for ib in np.ndindex(*sb[:-2]):
                for m in range(sb[-1]):
                    out.append(sop(lambda l: a[ia + (l,)], lambda l: b[ib + (l, m)], L))
        return sa[:-1] + sb[:-2] + (sb[-1],), out
    if len(sa) != len(sb):          # numpy.matmul: promote 1-D operands, pad the shorter stack with 1s
        a1 = a.reshape((1,) + sa) if len(sa) == 1 else a
        b1 = b.reshape(sb + (1,)) if len(sb) == 1 else b
        k = max(a1.ndim, b1.ndim)
        a1 = a1.reshape((1,) * (k - a1.ndim) + a1.shape); b1 = b1.reshape((1,) * (k - b1.ndim) + b1.shape)
        shape, flat = _nd_spec(fn, a1, b1)
        shape = shape[:-2] + (() if len(sa) == 1 else (shape[-2],)) + (() if len(sb) == 1 else (shape[-1],))
        return shape, flat
    SA, SB = sa[:-2], sb[:-2]
    S = tuple(max(x, y) for x, y in zip(SA, SB))
    out = []
    for s_ in np.ndindex(*S):
        ia = tuple(0 if d == 1 else i for d, i in zip(SA, s_)); ib = tuple(0 if d == 1 else i for d, i in zip(SB, s_))
        for i in range(sa[-2]):
            for j in range(sb[-1]):
                out.append(sop(lambda l: a[ia + (i, l)], lambda l: b[ib + (l, j)], sa[-1]))
    return S + (sa[-2], sb[-1]), out

def _oracle_once(case, pool, a, b, bases, first):
    import numpy as np
    from GTC import la, LU, lib
    fn = case['fn']
    f32 = 'float32' in (case.get('a_dtype'), case.get('b_dtype'))
    tol = 2e-4 if f32 else 1e-8
    tol12 = 1e-5 if f32 else 1e-12
    tol11 = 1e-5 if f32 else 1e-11
    snap = lambda arr: None if arr is None else ([(id(e) if arr.dtype == object else 0, repr(e)) for e in arr.flat] if isinstance(arr, np.ndarray) else repr(arr))
    snap_all = lambda: (snap(a), snap(b), snap(bases[0]), snap(bases[1]))
    before = snap_all()
    dtype_clash = fn in ('solve', 'invab') and isinstance(b, np.ndarray) and a.dtype != b.dtype
    try:
        r = call_impl(case, a, b)
        if dtype_clash: return '%s accepted operands of dtypes %s and %s' % (fn, a.dtype, b.dtype)
    except Exception as ex:
        if dtype_clash and isinstance(ex, AssertionError): return None      # LU.solve / invab: assert a.dtype == b.dtype
        # well-conditioned non-singular / aligned input: an exception is a failure of the property
        return '%s raised %s: %s' % (fn, type(ex).__name__, ex)
    why = None
    if snap_all() != before:
        why = '%s modified its arguments (or the base array of a view)' % fn
    if fn == 'transposeN':
        if why: return why
        sa = _shape(a)
        axes = norm_axes(case.get('axes') if case.get('how', 'la') in ('la', 'np') else None, len(sa))
        spec = tuple(sa[ax] for ax in axes)
        if _shape(r) != spec:
            return 'transpose(axes=%r) of shape %r has shape %r, not %r' % (case.get('axes'), sa, _shape(r), spec)
        for ridx in np.ndindex(*spec):
            src = [0] * len(sa)
            for k_, ax in enumerate(axes): src[ax] = ridx[k_]
            x, y = r[ridx], a[tuple(src)]
            if (x is not y) if (a.dtype == object and case.get('a_form') != 'list') else not (x == y):
                return 'transpose(axes=%r): element %r is not element %r of the argument' % (case.get('axes'), ridx, tuple(src))
        return None
    if fn in ND_FNS:
        if why: return why
        shape, flat = _nd_spec(fn, a, b)
        if _shape(r) != tuple(shape):
            return '%s result has shape %r, the sum-of-products definition gives %r' % (fn, _shape(r), tuple(shape))
        for t, (x, y) in enumerate(zip(_flat(r), flat)):
            d = x - y
            sv = abs(_val(x)) + abs(_val(y)) + 1e-300
            if abs(_val(d)) > tol11 * sv:
                return '%s element %d differs from the sum of products: %r vs %r' % (fn, t, _val(x), _val(y))
            for k, inp in enumerate(pool):
                c = _comp(d, inp)
                if c > tol11 * (_comp(x, inp) + _comp(y, inp)) + 1e-300 and c > 1e-14 * sv:
                    return '%s element %d: component w.r.t. input %d differs from the sum of products by %r' % (fn, t, k, c)
        return None
    A = [list(row) for row in a]
    def scale_of(A_, X_):
        def f(i, j):
            sv = sum(abs(_val(A_[i][k])) * abs(_val(X_[k][j])) for k in range(len(X_))) + 1.0
            def sc(x):
                return sum(_comp(A_[i][k], x) * abs(_val(X_[k][j])) + abs(_val(A_[i][k])) * _comp(X_[k][j], x)
                           for k in range(len(X_))) + 1e-12
            return sv, sc
        return f
    if why is None and fn in ('solve', 'invab'):
        one_d = fn == 'solve' and b.ndim == 1
        if not one_d and _shape(r) != _shape(b):
            return '%s result has shape %r, b has shape %r' % (fn, _shape(r), _shape(b))
        X = [[e] for e in r] if one_d else [list(row) for row in r]
        Bm = [[e] for e in b] if one_d else [list(row) for row in b]
        why = _residual_fail(_sumprod(A, X), Bm, scale_of(A, X), pool, tol, 'a.x - b')
    elif why is None and fn == 'inv':
        n = len(A); X = [list(row) for row in r]
        I = [[1 if i == j else 0 for j in range(n)] for i in range(n)]
        why = _residual_fail(_sumprod(A, X), I, scale_of(A, X), pool, tol, 'a.inv(a) - I') or \
              _residual_fail(_sumprod(X, A), I, scale_of(X, A), pool, tol, 'inv(a).a - I')
    elif why is None and fn == 'det':
        flat_d = [e for row in case['a'] for e in row] if first else []
        V = np.array([[complex(_val(e)) for e in row] for row in A])
        d = np.linalg.det(V); sc = float(np.prod([np.linalg.norm(row) for row in V])) + 1e-300
        if abs(complex(_val(r)) - d) > tol * sc:
            why = 'det value %r differs from the determinant %r' % (_val(r), d)
        else:
            # cofactor sensitivities: for an elementary input used in exactly one element, alone
            flat = flat_d
            n = len(A)
            for k, x in enumerate(pool if first else []):
                uses = [idx for idx, e in enumerate(flat) if e == ['p', k]]
                others = [e for e in flat if e[0] in ('m', 'q') and (k in [t[0] for t in e[1]] if e[0] == 'm' else k in e[1:3])]
                if len(uses) != 1 or others or not isinstance(r, lib.UncertainReal): continue
                i, j = divmod(uses[0], n)
                minor = np.delete(np.delete(V, i, 0), j, 1)
                cof = ((-1) ** (i + j)) * (np.linalg.det(minor) if n > 1 else 1.0)
                from GTC import reporting
                s = float(reporting.sensitivity(r, x))
                if abs(s - cof.real) > tol * sc / (abs(V[i][j]) + 1e-3) + 1e-9:
                    why = 'det sensitivity to a[%d,%d] is %r, cofactor is %r' % (i, j, s, cof.real); break
    elif why is None and fn == 'matmul':
        Bm = [list(row) for row in b]
        R = [list(row) for row in r]
        why = _residual_fail(R, _sumprod(A, Bm), scale_of(A, Bm), pool, tol12, 'matmul - sum of products')
        if why is None:
            R2 = [list(row) for row in (a @ b)]; R3 = [list(row) for row in la.dot(a, b)]
            why = _residual_fail(R2, R, scale_of(A, Bm), pool, tol12, '@ - matmul') or \
                  _residual_fail(R3, R, scale_of(A, Bm), pool, tol12, 'dot - matmul')
    elif why is None and fn == 'transpose':
        n, m = a.shape
        same = (lambda x, y: x is y) if (a.dtype == object and case.get('a_form') != 'list') else (lambda x, y: x == y)
        if r.shape != (m, n) or any(not same(r[j, i], a[i, j]) for i in range(n) for j in range(m)):
            why = 'transpose does not only permute'
    return why

def rhs_zero_uncertain(case):
    """does b hold an element whose value is 0 while it carries uncertainty (finding C15-1)?"""
    from GTC import lib
    try:
        pool, a, b = build(case)
    except Exception:
        return False
    import numpy as np
    if b is None or not isinstance(b, np.ndarray): return False
    return any(isinstance(e, (lib.UncertainReal, lib.UncertainComplex)) and e.x == 0 and
               any(_comp(e, x) != 0 for x in pool) for e in b.flat)

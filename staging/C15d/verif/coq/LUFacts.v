(* LUFacts.v -- theorems about the LU model (LU.v) instantiated at a commutative ring with a
   partial inverse ([ring_elt]): numpy's dot is the sum of products, ludet is parity times the
   product of the pivots, the in-place routines write only the cells they are given, and
   _lubksb solves a.x = b for every size N given the decomposition invariant P.a = L.U.
   The ring is abstract: fields of plain numbers and the dual numbers (DualRing.v) are
   instances.  The zero test [isz] (x == 0.0) looks at the VALUE only and decides units; the
   "skip leading zeros" shortcut of _lubksb uses the separate test [skipz] (a plain-number
   zero), which is exact: skipz x = true -> x = 0. *)
From Coq Require Import ZArith List Bool Lia Ring Arith PeanoNat.
From GTCV Require Import Num LU.
Import ListNotations.

Lemma foldM_ok {S X} (f : S -> X -> res S) (g : S -> X -> S) :
  (forall s x, f s x = Ok (g s x)) -> forall l s, foldM f l s = Ok (fold_left g l s).
Proof.
  intros H l. induction l as [|k l IH]; intros s; simpl; [reflexivity|].
  rewrite H. simpl. apply IH.
Qed.

Lemma foldM_app {S X} (f : S -> X -> res S) l1 l2 s :
  foldM f (l1 ++ l2) s = (s' <- foldM f l1 s ;; foldM f l2 s').
Proof.
  revert s. induction l1 as [|k l1 IH]; intros s; simpl; [reflexivity|].
  destruct (f s k); simpl; [apply IH|reflexivity].
Qed.

Lemma vupd_same {X} (b : nat -> X) i v : vupd b i v i = v.
Proof. unfold vupd. now rewrite Nat.eqb_refl. Qed.
Lemma vupd_other {X} (b : nat -> X) i j v : i <> j -> vupd b i v j = b j.
Proof. unfold vupd. intros H. destruct (Nat.eqb_spec i j); [contradiction|reflexivity]. Qed.

Section Facts.
  Variables (A Wt : Type).
  Variables (rO rI : A) (radd rmul rsub : A -> A -> A) (ropp rinv : A -> A).
  Variables isz skipz : A -> bool.
  Variable ofZ : Z -> A.
  Variables (absw : A -> Wt) (w0 : Wt) (wgt wge : Wt -> Wt -> bool) (wmul : Wt -> Wt -> Wt)
            (wrecip : Wt -> res Wt).
  Hypothesis Rth : ring_theory rO rI radd rmul rsub ropp (@eq A).
  (* elements whose value is not zero are units *)
  Hypothesis Hinv : forall y, isz y = false -> rmul y (rinv y) = rI.
  (* only true zeros are skipped by the shortcut of _lubksb *)
  Hypothesis Hskip : forall y, skipz y = true -> y = rO.

  Add Ring Aring : Rth.

  Notation RE := (ring_elt A Wt radd rmul rsub rinv isz skipz ofZ absw w0 wgt wge wmul wrecip).
  Infix "+" := radd. Infix "*" := rmul. Infix "-" := rsub.
  Notation "0" := rO. Notation "1" := rI.

  (* ---------------- finite sums ---------------- *)
  Fixpoint bsum (f : nat -> A) (n : nat) : A :=
    match n with O => 0 | S k => bsum f k + f k end.

  (* sum of f over k, k+1, ..., k+len-1 *)
  Definition rsum (f : nat -> A) (k len : nat) : A := bsum (fun t => f (k + t)%nat) len.

  Lemma bsum_ext f g n : (forall k, (k < n)%nat -> f k = g k) -> bsum f n = bsum g n.
  Proof.
    induction n as [|n IH]; intros H; simpl; [reflexivity|].
    rewrite IH, H by (intros; try apply H; lia). reflexivity.
  Qed.

  Lemma bsum_zero f n : (forall k, (k < n)%nat -> f k = 0) -> bsum f n = 0.
  Proof.
    induction n as [|n IH]; intros H; simpl; [reflexivity|].
    rewrite IH, H by (intros; try apply H; lia). ring.
  Qed.

  Lemma bsum_add f g n : bsum (fun k => f k + g k) n = bsum f n + bsum g n.
  Proof. induction n as [|n IH]; simpl; [ring|rewrite IH; ring]. Qed.

  Lemma bsum_mul_l c f n : c * bsum f n = bsum (fun k => c * f k) n.
  Proof. induction n as [|n IH]; simpl; [ring|rewrite <- IH; ring]. Qed.

  Lemma bsum_mul_r c f n : bsum f n * c = bsum (fun k => f k * c) n.
  Proof. induction n as [|n IH]; simpl; [ring|rewrite <- IH; ring]. Qed.

  Lemma bsum_swap (f : nat -> nat -> A) n m :
    bsum (fun i => bsum (fun j => f i j) m) n = bsum (fun j => bsum (fun i => f i j) n) m.
  Proof.
    induction n as [|n IH]; simpl.
    - symmetry. apply bsum_zero. reflexivity.
    - rewrite IH. rewrite <- bsum_add. reflexivity.
  Qed.

  Lemma bsum_split f i n : (i <= n)%nat -> bsum f n = bsum f i + rsum f i (n - i).
  Proof.
    intros H. replace n with (i + (n - i))%nat at 1 by lia.
    unfold rsum. generalize (n - i)%nat as d. induction d as [|d IH].
    - rewrite Nat.add_0_r. simpl. ring.
    - replace (i + S d)%nat with (S (i + d)) by lia. simpl. rewrite IH. ring.
  Qed.

  Lemma rsum_S f k len : rsum f k (S len) = rsum f k len + f (k + len)%nat.
  Proof. reflexivity. Qed.

  Lemma rsum_first f k len : rsum f k (S len) = f k + rsum f (S k) len.
  Proof.
    unfold rsum. induction len as [|len IH].
    - simpl. rewrite Nat.add_0_r. ring.
    - change (bsum (fun t => f (k + t)%nat) (S (S len))) with
          (bsum (fun t => f (k + t)%nat) (S len) + f (k + S len)%nat).
      rewrite IH. simpl. replace (S (k + len)) with (k + S len)%nat by lia. ring.
  Qed.

  Lemma rsum_ext f g k len :
    (forall j, (k <= j < k + len)%nat -> f j = g j) -> rsum f k len = rsum g k len.
  Proof. intros H. apply bsum_ext. intros t Ht. apply H. lia. Qed.

  Lemma bsum_single (i n : nat) (x : A) (f : nat -> A) :
    (i < n)%nat -> (forall k, (k < n)%nat -> k <> i -> f k = 0) -> bsum f n = f i.
  Proof.
    intros Hi H. rewrite (bsum_split f i n) by lia.
    rewrite (bsum_zero f i) by (intros; apply H; lia).
    replace (n - i)%nat with (S (n - i - 1)) by lia. rewrite rsum_first.
    unfold rsum. rewrite bsum_zero by (intros; apply H; lia). ring.
  Qed.

  (* ---------------- reduce(lambda sum,k: sum - f[k]*g[k], range(k, k+len), init) ------------- *)
  Lemma red_sub_ring (f g : nat -> A) k len (init : A) :
    red_sub RE f g (seq k len) init = Ok (init - rsum (fun j => f j * g j) k len).
  Proof.
    unfold red_sub. rewrite (foldM_ok _ (fun s j => s - f j * g j)) by reflexivity.
    f_equal. revert k init. induction len as [|len IH]; intros k init.
    - simpl. unfold rsum. simpl. ring.
    - simpl. rewrite IH. rewrite rsum_first. ring.
  Qed.

  (* ---------------- numpy object dot = sum of products ---------------- *)
  Theorem dot1_sum m (f g : nat -> A) : (0 < m)%nat -> dot1 RE m f g = Ok (bsum (fun k => f k * g k) m).
  Proof.
    intros Hm. destruct m as [|m]; [lia|]. unfold dot1. simpl e_mul. cbn [bind].
    rewrite (foldM_ok _ (fun acc k => acc + f k * g k)) by reflexivity. f_equal.
    assert (G : forall len k acc, fold_left (fun acc k => acc + f k * g k) (seq k len) acc
                                  = acc + rsum (fun j => f j * g j) k len).
    { induction len as [|len IH]; intros k acc; simpl.
      - unfold rsum; simpl; ring.
      - rewrite IH, rsum_first. ring. }
    rewrite G. rewrite (bsum_split _ 1 (S m)) by lia. simpl. replace (m - 0)%nat with m by lia. ring.
  Qed.

  Lemma mapM_ok {X Y} (f : X -> res Y) (g : X -> Y) :
    (forall x, f x = Ok (g x)) -> forall l, mapM f l = Ok (map g l).
  Proof. intros H l. induction l as [|x l IH]; simpl; [reflexivity|]. rewrite H, IH. reflexivity. Qed.

  Theorem matmul_def n m p (a b : nat -> nat -> A) :
    (0 < m)%nat ->
    matmul RE n m p a b = Ok (to_rows RE n p (fun i j => bsum (fun k => a i k * b k j) m)).
  Proof.
    intros Hm. unfold matmul, to_rows. apply mapM_ok. intros i. apply mapM_ok. intros j.
    now apply dot1_sum.
  Qed.

  (* ---------------- N-d dot and matmul: every element is the sum of products over the
     index pattern of numpy (dot: last axis of a with the second-to-last of b, all leading
     positions of a against all stacks of b; matmul: stacks paired by broadcasting) ------------- *)
  Theorem nd_dot_def PA Ln QB M (fa fb : nat -> A) :
    (0 < Ln)%nat ->
    nd_dot RE PA Ln QB M fa fb =
    Ok (map (fun t => let p := Nat.div t (QB * M) in
                      let q := Nat.modulo (Nat.div t M) QB in
                      let m := Nat.modulo t M in
                      bsum (fun l => fa (p * Ln + l)%nat * fb (q * Ln * M + l * M + m)%nat) Ln)
            (seq 0 (PA * QB * M))).
  Proof. intros H. unfold nd_dot. apply mapM_ok. intros t. now apply dot1_sum. Qed.

  Theorem nd_matmul_def SA SB n Ln p (fa fb : nat -> A) :
    (0 < Ln)%nat ->
    nd_matmul RE SA SB n Ln p fa fb =
    Ok (map (fun t => let s := Nat.div t (n * p) in
                      let i := Nat.modulo (Nat.div t p) n in
                      let j := Nat.modulo t p in
                      let mi := unravel (bshape SA SB) s in
                      bsum (fun l => fa (ravel_b SA mi * n * Ln + i * Ln + l)%nat
                                     * fb (ravel_b SB mi * Ln * p + l * p + j)%nat) Ln)
            (seq 0 (prodn (bshape SA SB) * n * p))).
  Proof. intros H. unfold nd_matmul. apply mapM_ok. intros t. now apply dot1_sum. Qed.

  Theorem nd_scale_def lft (sc : A) cnt (fa : nat -> A) :
    nd_scale RE lft sc cnt fa = Ok (map (fun t => if lft then sc * fa t else fa t * sc) (seq 0 cnt)).
  Proof. unfold nd_scale. apply mapM_ok. intros t. destruct lft; reflexivity. Qed.

  (* ---------------- ludet = parity * product of the pivots ---------------- *)
  Fixpoint bprod (f : nat -> A) (n : nat) : A :=
    match n with O => 1 | S k => bprod f k * f k end.

  Theorem ludet_prod n (lu : nat -> nat -> A) par : ludet RE n lu par = Ok (ofZ par * bprod (fun i => lu i i) n).
  Proof.
    unfold ludet. rewrite (foldM_ok _ (fun p i => p * lu i i)) by reflexivity. f_equal.
    simpl e_of_Z. generalize (ofZ par) as c.
    induction n as [|n IH]; intros c.
    - simpl. ring.
    - rewrite seq_S, fold_left_app. simpl. rewrite IH. ring.
  Qed.

  (* ---------------- permutations recorded by idx ---------------- *)
  Definition swapv {X} (b : nat -> X) (p q : nat) : nat -> X :=
    fun i => if Nat.eqb i p then b q else if Nat.eqb i q then b p else b i.

  Definition perm_vec {X} (idx : nat -> nat) (k : nat) (b : nat -> X) : nat -> X :=
    fold_left (fun b t => swapv b t (idx t)) (seq 0 k) b.

  Definition perm_rows (idx : nat -> nat) (k : nat) (a : (nat -> nat -> A)) : (nat -> nat -> A) :=
    fold_left (fun a t => swap_rows_gen a t (idx t)) (seq 0 k) a.

  Lemma perm_vec_S {X} idx k (b : nat -> X) :
    perm_vec idx (S k) b = swapv (perm_vec idx k b) k (idx k).
  Proof. unfold perm_vec. rewrite seq_S, fold_left_app. reflexivity. Qed.

  Lemma perm_rows_S idx k a :
    perm_rows idx (S k) a = swap_rows_gen (perm_rows idx k a) k (idx k).
  Proof. unfold perm_rows. rewrite seq_S, fold_left_app. reflexivity. Qed.

  Lemma perm_vec_stable {X} idx (b : nat -> X) i k :
    (forall t, (t < k)%nat -> (t <= idx t)%nat) -> (i < k)%nat ->
    perm_vec idx k b i = perm_vec idx (S i) b i.
  Proof.
    intros Hge Hi. induction k as [|k IH]; [lia|].
    destruct (Nat.eq_dec i k) as [->|Hne]; [reflexivity|].
    rewrite perm_vec_S. unfold swapv at 1.
    pose proof (Hge k ltac:(lia)) as Hk.
    destruct (Nat.eqb_spec i k); [lia|]. destruct (Nat.eqb_spec i (idx k)); [lia|].
    apply IH; [intros; apply Hge; lia | lia].
  Qed.

  (* ---------------- forward substitution ---------------- *)
  Section Subst.
    Variables (n : nat) (lu : (nat -> nat -> A)) (idx : nat -> nat).
    Hypothesis Hidx : forall t, (t < n)%nat -> (t <= idx t < n)%nat.
    Let Hge : forall t, (t < n)%nat -> (t <= idx t)%nat.
    Proof. intros t Ht. apply Hidx in Ht. lia. Qed.

    (* the loop body without the ii shortcut: subtract from j = 0 *)
    Definition fwd_spec_step (b : nat -> A) (i : nat) : nat -> A :=
      let b1 := vupd b (idx i) (b i) in
      vupd b1 i (b (idx i) - bsum (fun j => lu i j * b1 j) i).

    Definition fwd_inv (i : nat) (b : nat -> A) (ii : option nat) : Prop :=
      match ii with
      | None => forall j, (j < i)%nat -> b j = 0
      | Some k => (k <= i)%nat /\ forall j, (j < k)%nat -> b j = 0
      end.

    Lemma fwd_step_spec (b : nat -> A) ii i :
      (i < n)%nat -> fwd_inv i b ii ->
      exists ii', fwd_step RE lu idx (b, ii) i = Ok (fwd_spec_step b i, ii') /\
                  fwd_inv (S i) (fwd_spec_step b i) ii'.
    Proof.
      intros Hi Hinvt. pose proof (Hge i Hi) as Hip.
      unfold fwd_step, fwd_spec_step. cbn [E ring_elt].
      set (b1 := vupd b (idx i) (b i)).
      assert (Hb1 : forall j, (j < i)%nat -> b1 j = b j).
      { intros j Hj. unfold b1. apply vupd_other. lia. }
      destruct ii as [k|].
      - destruct Hinvt as [Hk Hz]. rewrite red_sub_ring. cbn [bind].
        exists (Some k). split.
        + do 2 f_equal. f_equal.
          rewrite (bsum_split _ k i) by lia.
          rewrite bsum_zero; [ring|]. intros j Hj. rewrite Hb1 by lia. rewrite Hz by lia. ring.
        + split; [lia|]. intros j Hj. rewrite vupd_other by lia. rewrite Hb1 by lia. apply Hz. lia.
      - simpl in Hinvt.
        assert (Hs : bsum (fun j => lu i j * b1 j) i = 0).
        { apply bsum_zero. intros j Hj. rewrite Hb1 by lia. rewrite Hinvt by lia. ring. }
        eexists. split.
        + rewrite Hs. replace (b (idx i) - 0) with (b (idx i)) by ring. reflexivity.
        + rewrite Hs. replace (b (idx i) - 0) with (b (idx i)) by ring.
          simpl e_skip. destruct (skipz (b (idx i))) eqn:Ez.
          * intros j Hj. destruct (Nat.eq_dec j i) as [->|Hne].
            -- rewrite vupd_same. apply Hskip. exact Ez.
            -- rewrite vupd_other by lia. rewrite Hb1 by lia. apply Hinvt. lia.
          * split; [lia|]. intros j Hj. rewrite vupd_other by lia. rewrite Hb1 by lia. apply Hinvt. lia.
    Qed.

    Lemma fwd_loop_spec len : forall i0 (b : nat -> A) ii,
      (i0 + len <= n)%nat -> fwd_inv i0 b ii ->
      exists ii', foldM (fwd_step RE lu idx) (seq i0 len) (b, ii)
                  = Ok (fold_left fwd_spec_step (seq i0 len) b, ii').
    Proof.
      induction len as [|len IH]; intros i0 b ii Hn Hi.
      - simpl. eauto.
      - cbn [seq foldM fold_left]. destruct (fwd_step_spec b ii i0 ltac:(lia) Hi) as (ii' & E & Hi').
        rewrite E. cbn [bind]. apply IH; [lia|assumption].
    Qed.

    Definition fwd_spec (b : nat -> A) : nat -> A := fold_left fwd_spec_step (seq 0 n) b.

    (* what the forward loop without shortcut computes: L y = P b, positions >= n untouched *)
    Lemma fwd_spec_inv (b : nat -> A) k :
      (k <= n)%nat ->
      let bk := fold_left fwd_spec_step (seq 0 k) b in
      (forall j, (k <= j)%nat -> bk j = perm_vec idx k b j) /\
      (forall i, (i < k)%nat ->
                 bk i + bsum (fun j => lu i j * bk j) i = perm_vec idx (S i) b i).
    Proof.
      induction k as [|k IH]; intros Hk; cbn zeta.
      - split; [reflexivity|intros; lia].
      - rewrite seq_S, fold_left_app. simpl fold_left.
        destruct (IH ltac:(lia)) as [I1 I2]. cbn zeta in I1, I2.
        set (bk := fold_left fwd_spec_step (seq 0 k) b) in *.
        pose proof (Hge k ltac:(lia)) as Hik.
        unfold fwd_spec_step. set (b1 := vupd bk (idx k) (bk k)).
        assert (Hb1 : forall j, (j < k)%nat -> b1 j = bk j).
        { intros j Hj. unfold b1. apply vupd_other. lia. }
        split.
        + intros j Hj. rewrite vupd_other by lia. rewrite perm_vec_S. unfold swapv.
          destruct (Nat.eqb_spec j k); [lia|]. unfold b1.
          destruct (Nat.eqb_spec j (idx k)) as [->|Hne].
          * rewrite vupd_same. apply I1. lia.
          * rewrite vupd_other by lia. apply I1. lia.
        + intros i Hi. destruct (Nat.eq_dec i k) as [->|Hne].
          * rewrite vupd_same. rewrite perm_vec_S. unfold swapv. rewrite Nat.eqb_refl.
            rewrite <- I1 by lia.
            rewrite (bsum_ext (fun j => lu k j * vupd b1 k _ j) (fun j => lu k j * b1 j)).
            2:{ intros j Hj. rewrite vupd_other by lia. reflexivity. }
            ring.
          * rewrite vupd_other by lia. rewrite Hb1 by lia.
            rewrite <- I2 by lia. f_equal. apply bsum_ext. intros j Hj.
            rewrite vupd_other by lia. rewrite Hb1 by lia. reflexivity.
    Qed.

    Lemma fwd_spec_eqn (b : nat -> A) i :
      (i < n)%nat ->
      fwd_spec b i + bsum (fun j => lu i j * fwd_spec b j) i = perm_vec idx n b i.
    Proof.
      intros Hi. destruct (fwd_spec_inv b n (Nat.le_refl n)) as [_ I2]. cbn zeta in I2.
      unfold fwd_spec. rewrite I2 by lia. symmetry. apply perm_vec_stable; assumption.
    Qed.

    (* ---------------- back substitution ---------------- *)
    Lemma back_loop m : forall (x x' : nat -> A),
      (m <= n)%nat ->
      foldM (back_step RE n lu) (rev (seq 0 m)) x = Ok x' ->
      (forall i, (i < m)%nat -> isz (lu i i) = false) /\
      (forall i, (i < m)%nat -> rsum (fun j => lu i j * x' j) i (n - i) = x i) /\
      (forall j, (m <= j)%nat -> x' j = x j).
    Proof.
      induction m as [|m IH]; intros x x' Hm H.
      - simpl in H. injection H as <-. repeat split; intros; try lia; reflexivity.
      - rewrite seq_S, rev_app_distr in H. simpl in H.
        unfold back_step at 1 in H. rewrite red_sub_ring in H. cbn [bind] in H.
        simpl e_div in H. destruct (isz (lu m m)) eqn:Ez; [discriminate|]. cbn [bind] in H.
        set (q := (x m - rsum (fun j => lu m j * x j) (S m) (n - S m)) * rinv (lu m m)) in H.
        destruct (IH _ _ ltac:(lia) H) as (Hd & Hrow & Hfix).
        split; [|split].
        + intros i Hi. destruct (Nat.eq_dec i m) as [->|]; [assumption|apply Hd; lia].
        + intros i Hi. destruct (Nat.eq_dec i m) as [->|Hne].
          * replace (n - m)%nat with (S (n - S m)) by lia. rewrite rsum_first.
            rewrite (Hfix m) by lia. rewrite vupd_same.
            rewrite (rsum_ext (fun j => lu m j * x' j) (fun j => lu m j * x j)).
            2:{ intros j Hj. rewrite Hfix by lia. rewrite vupd_other by lia. reflexivity. }
            unfold q. set (s := rsum (fun j => lu m j * x j) (S m) (n - S m)).
            pose proof (Hinv _ Ez) as Hu.
            replace (lu m m * ((x m - s) * rinv (lu m m)) + s)
              with ((x m - s) * (lu m m * rinv (lu m m)) + s) by ring.
            rewrite Hu. ring.
          * rewrite Hrow by lia. apply vupd_other. lia.
        + intros j Hj. rewrite Hfix by lia. apply vupd_other. lia.
    Qed.
  End Subst.

  (* ---------------- L and U read off the packed decomposition ---------------- *)
  Definition Lm (lu : (nat -> nat -> A)) (i k : nat) : A :=
    if Nat.ltb k i then lu i k else if Nat.eqb k i then 1 else 0.
  Definition Um (lu : (nat -> nat -> A)) (k j : nat) : A :=
    if Nat.leb k j then lu k j else 0.

  (* the decomposition invariant of ludcmp: idx records in-range row exchanges with rows at or
     below the diagonal, and L.U is the row-permuted matrix *)
  Definition decomposes (n : nat) (a lu : (nat -> nat -> A)) (idx : nat -> nat) : Prop :=
    (forall t, (t < n)%nat -> (t <= idx t < n)%nat) /\
    (forall i j, (i < n)%nat -> (j < n)%nat ->
                 bsum (fun k => Lm lu i k * Um lu k j) n = perm_rows idx n a i j).

  Lemma unpermute n (a : nat -> nat -> A) (b x : nat -> A) idx k :
    (forall t, (t < k)%nat -> (idx t < n)%nat) -> (k <= n)%nat ->
    (forall i, (i < n)%nat -> bsum (fun j => perm_rows idx k a i j * x j) n = perm_vec idx k b i) ->
    forall i, (i < n)%nat -> bsum (fun j => a i j * x j) n = b i.
  Proof.
    induction k as [|k IH]; intros Hidx Hk H.
    - exact H.
    - apply IH; [intros; apply Hidx; lia | lia |].
      intros i Hi. pose proof (Hidx k ltac:(lia)) as Hik.
      rewrite perm_rows_S, perm_vec_S in H.
      destruct (Nat.eq_dec i k) as [->|Hne].
      + (* row k of the unswapped system is row idx k of the swapped one *)
        specialize (H (idx k) Hik). unfold swap_rows_gen, swapv in H.
        destruct (Nat.eqb_spec (idx k) k) as [E|E].
        * rewrite E in H. exact H.
        * rewrite Nat.eqb_refl in H. exact H.
      + destruct (Nat.eq_dec i (idx k)) as [->|Hne2].
        * specialize (H k ltac:(lia)). unfold swap_rows_gen, swapv in H.
          rewrite Nat.eqb_refl in H. exact H.
        * specialize (H i Hi). unfold swap_rows_gen, swapv in H.
          destruct (Nat.eqb_spec i k); [contradiction|].
          destruct (Nat.eqb_spec i (idx k)); [contradiction|]. exact H.
  Qed.

  (* _lubksb solves the system, for every size and every right-hand side, given the
     decomposition invariant (the "skip leading zeros" shortcut only skips true zeros: Hskip) *)
  Theorem lubksb_solves n (a lu : nat -> nat -> A) idx (b x : nat -> A) :
    decomposes n a lu idx ->
    lubksb RE n lu idx b = Ok x ->
    forall i, (i < n)%nat -> bsum (fun j => a i j * x j) n = b i.
  Proof.
    intros [Hidx Hdec] H.
    assert (Hge : forall t, (t < n)%nat -> (t <= idx t)%nat) by (intros t Ht; apply Hidx in Ht; lia).
    unfold lubksb in H.
    (* forward phase = its specification *)
    assert (Hf : exists ii', foldM (fwd_step RE lu idx) (seq 0 n) (b, None) = Ok (fwd_spec n lu idx b, ii')).
    { apply (fwd_loop_spec n lu idx Hidx n 0 b None); [lia|]. simpl. intros; lia. }
    destruct Hf as [ii' Hf]. unfold vecE in Hf, H. cbn [E ring_elt] in Hf, H. rewrite Hf in H. cbn [bind] in H.
    set (y := fwd_spec n lu idx b) in *.
    destruct (back_loop n lu n y x (Nat.le_refl n) H) as (Hd & Hrow & _).
    (* U x = y, L y = P b, L U = P a  ==>  (P a) x = P b *)
    apply (unpermute n a b x idx n); [intros t Ht; apply Hidx in Ht; lia | lia |].
    intros i Hi.
    rewrite (bsum_ext _ (fun j => bsum (fun k => Lm lu i k * Um lu k j * x j) n)).
    2:{ intros j Hj. rewrite <- Hdec by assumption. apply bsum_mul_r. }
    rewrite bsum_swap.
    rewrite (bsum_ext _ (fun k => Lm lu i k * y k)).
    2:{ intros k Hk. rewrite <- (Hrow k Hk).
        rewrite (bsum_ext _ (fun j => Lm lu i k * (Um lu k j * x j))) by (intros; ring).
        rewrite <- bsum_mul_l. f_equal.
        rewrite (bsum_split _ k n) by lia.
        rewrite bsum_zero.
        2:{ intros j Hj. unfold Um. destruct (Nat.leb_spec k j); [lia|ring]. }
        rewrite (rsum_ext _ (fun j => lu k j * x j)).
        2:{ intros j Hj. unfold Um. destruct (Nat.leb_spec k j); [reflexivity|lia]. }
        ring. }
    rewrite <- (fwd_spec_eqn n lu idx Hidx b i Hi). fold y.
    set (F := fun k => Lm lu i k * y k).
    rewrite (bsum_split F i n) by lia.
    assert (E1 : bsum F i = bsum (fun j => lu i j * y j) i).
    { apply bsum_ext. intros j Hj. unfold F, Lm. destruct (Nat.ltb_spec j i); [reflexivity|lia]. }
    assert (E2 : rsum F i (n - i) = y i).
    { replace (n - i)%nat with (S (n - i - 1)) by lia. rewrite rsum_first.
      assert (E3 : rsum F (S i) (n - i - 1) = 0).
      { apply bsum_zero. intros t Ht. unfold F, Lm. destruct (Nat.ltb_spec (S i + t) i); [lia|].
        destruct (Nat.eqb_spec (S i + t) i); [lia|ring]. }
      rewrite E3. unfold F, Lm. rewrite Nat.ltb_irrefl, Nat.eqb_refl. ring. }
    rewrite E1, E2. ring.
  Qed.
  (* la.solve: with the decomposition invariant of ludcmp as a hypothesis *)
  Theorem solve_partial n (a : nat -> nat -> A) (b x : nat -> A) :
    (forall lu idx par, ludcmp RE n a = Ok (lu, idx, par) -> decomposes n a lu idx) ->
    solve RE n a b = Ok x ->
    forall i, (i < n)%nat -> bsum (fun j => a i j * x j) n = b i.
  Proof.
    intros Hdec H. unfold solve in H.
    destruct (ludcmp RE n a) as [[[lu idx] par]|e] eqn:Elu; [|discriminate]. cbn [bind] in H.
    eapply lubksb_solves; eauto.
  Qed.

  (* LU.invab: every column of the result solves the system for that column of b *)
  Theorem invab_partial n m (a b y : nat -> nat -> A) :
    (forall lu idx par, ludcmp RE n a = Ok (lu, idx, par) -> decomposes n a lu idx) ->
    invab RE n m a b = Ok y ->
    forall i j, (i < n)%nat -> (j < m)%nat -> bsum (fun k => a i k * y k j) n = b i j.
  Proof.
    intros Hdec H. unfold invab in H.
    destruct (ludcmp RE n a) as [[[lu idx] par]|e] eqn:Elu; [|discriminate]. cbn [bind] in H.
    specialize (Hdec _ _ _ eq_refl).
    revert y H. generalize (fun (_ _ : nat) => e_of_Z RE 0) as y0. cbn [E ring_elt].
    induction m as [|m IH]; intros y0 y H i j Hi Hj; [lia|].
    rewrite seq_S, foldM_app in H. cbn [Nat.add foldM] in H.
    destruct (foldM _ (seq 0 m) y0) as [y1|e] eqn:E1; [|discriminate]. cbn [bind] in H.
    destruct (lubksb RE n lu idx (fun i0 => b i0 m)) as [col|e] eqn:E2; [|discriminate].
    cbn [bind] in H. injection H as <-.
    destruct (Nat.eq_dec j m) as [->|Hne].
    - rewrite (bsum_ext _ (fun k => a i k * col k)).
      2:{ intros k Hk. now rewrite Nat.eqb_refl. }
      exact (lubksb_solves n a lu idx (fun i0 => b i0 m) col Hdec E2 i Hi).
    - rewrite (bsum_ext _ (fun k => a i k * y1 k j)).
      2:{ intros k Hk. destruct (Nat.eqb_spec j m); [contradiction|reflexivity]. }
      eapply IH; eauto; try lia.
  Qed.

  (* LU.solve with a 2-D right-hand side: every column of the result solves the system for that column of b *)
  Theorem solve2_partial n m (a b y : nat -> nat -> A) :
    (forall lu idx par, ludcmp RE n a = Ok (lu, idx, par) -> decomposes n a lu idx) ->
    solve2 RE n m a b = Ok y ->
    forall i j, (i < n)%nat -> (j < m)%nat -> bsum (fun k => a i k * y k j) n = b i j.
  Proof. exact (invab_partial n m a b y). Qed.

  (* la.inv: a . inv(a) = identity, given the decomposition invariant *)
  Theorem inv_partial n (a y : nat -> nat -> A) :
    (forall lu idx par, ludcmp RE n a = Ok (lu, idx, par) -> decomposes n a lu idx) ->
    ofZ 0%Z = 0 -> ofZ 1%Z = 1 ->
    inv RE n a = Ok y ->
    forall i j, (i < n)%nat -> (j < n)%nat ->
                bsum (fun k => a i k * y k j) n = if Nat.eqb i j then 1 else 0.
  Proof.
    intros Hdec H0 H1 H i j Hi Hj. unfold inv in H.
    rewrite (invab_partial n n a (identity RE) y Hdec H i j Hi Hj).
    unfold identity. simpl e_of_Z. destruct (Nat.eqb i j); assumption.
  Qed.
End Facts.

(* ---------------- which cells the calls write (any element interface) ---------------- *)
Section Frame.
  Variable L : Elt.

  Lemma bind_ok {X Y} (r : res X) (f : X -> res Y) y :
    (x <- r ;; f x) = Ok y -> exists x, r = Ok x /\ f x = Ok y.
  Proof. destruct r; simpl; [eauto|discriminate]. Qed.

  (* la.solve(a,b): the result is LU.solve of element-wise copies; every array that existed
     before the call (identities below [fresh]), in particular a and b, is left as it was *)
  Theorem solve_at_frame n (s : store L) pa pb fresh s' px :
    (pa < fresh)%nat -> (pb < fresh)%nat ->
    solve_at L n s pa pb fresh = Ok (s', px) ->
    (forall p, (p < fresh)%nat -> s' p = s p) /\
    exists x, solve L n (copy_arr L (s pa)) (fun i => copy_arr L (s pb) i 0%nat) = Ok x /\
              s' px = (fun i _ => x i).
  Proof.
    intros Ha Hb H. unfold solve_at, ludcmp_at, lubksb_at in H.
    rewrite vupd_same in H.
    apply bind_ok in H. destruct H as ([[s2 idx] par] & H1 & H).
    apply bind_ok in H1. destruct H1 as ([[lu idx'] par'] & Hlu & H1). injection H1 as <- <- <-.
    apply bind_ok in H. destruct H as (s4 & H3 & H). injection H as <- <-.
    apply bind_ok in H3. destruct H3 as (x & Hx & H3). injection H3 as <-.
    rewrite (vupd_other _ (S fresh) fresh) in Hx by lia. rewrite vupd_same in Hx.
    rewrite vupd_same in Hx.
    rewrite (vupd_other _ fresh pb) in Hx by lia. rewrite (vupd_other _ fresh pb) in Hx by lia.
    split.
    - intros p Hp. rewrite !vupd_other by lia. reflexivity.
    - exists x. split.
      + unfold solve. rewrite Hlu. cbn [bind]. exact Hx.
      + apply vupd_same.
  Qed.

  Theorem det_at_frame n (s : store L) pa fresh s' d :
    (pa < fresh)%nat ->
    det_at L n s pa fresh = Ok (s', d) ->
    (forall p, (p < fresh)%nat -> s' p = s p) /\ det L n (copy_arr L (s pa)) = Ok d.
  Proof.
    intros Ha H. unfold det_at, ludcmp_at in H. rewrite vupd_same in H.
    apply bind_ok in H. destruct H as ([[s2 idx] par] & H1 & H).
    apply bind_ok in H1. destruct H1 as ([[lu idx'] par'] & Hlu & H1). injection H1 as <- <- <-.
    apply bind_ok in H. destruct H as (d' & Hd & H). injection H as <- <-.
    rewrite vupd_same in Hd. split.
    - intros p Hp. rewrite !vupd_other by lia. reflexivity.
    - unfold det. rewrite Hlu. cbn [bind]. exact Hd.
  Qed.

  Lemma foldM_frame {X} (f : store L -> X -> res (store L)) fresh :
    (forall s x s', f s x = Ok s' -> forall p, (p < fresh)%nat -> s' p = s p) ->
    forall l s s', foldM f l s = Ok s' -> forall p, (p < fresh)%nat -> s' p = s p.
  Proof.
    intros Hf l. induction l as [|x l IH]; intros s s' H p Hp.
    - simpl in H. injection H as <-. reflexivity.
    - simpl in H. apply bind_ok in H. destruct H as (s1 & H1 & H).
      rewrite (IH _ _ H p Hp). eapply Hf; eauto.
  Qed.

  Theorem invab_at_frame n m (s : store L) pa pb fresh s' py :
    (pa < fresh)%nat -> (pb < fresh)%nat ->
    invab_at L n m s pa pb fresh = Ok (s', py) ->
    forall p, (p < fresh)%nat -> s' p = s p.
  Proof.
    intros Ha Hb H p Hp. unfold invab_at, ludcmp_at in H. rewrite vupd_same in H.
    apply bind_ok in H. destruct H as ([[s2 idx] par] & H1 & H).
    apply bind_ok in H1. destruct H1 as ([[lu idx'] par'] & Hlu & H1). injection H1 as <- <- <-.
    apply bind_ok in H. destruct H as (s5 & H5 & H). injection H as <- <-.
    pose proof (fun Hf => foldM_frame _ fresh Hf _ _ _ H5 p Hp) as G.
    rewrite G.
    - rewrite !vupd_other by lia. reflexivity.
    - intros s0 j s0' Hs q Hq. unfold lubksb_at in Hs.
      apply bind_ok in Hs. destruct Hs as (s'' & Hs & E). injection E as <-.
      apply bind_ok in Hs. destruct Hs as (x & _ & E). injection E as <-.
      rewrite !vupd_other by lia. reflexivity.
  Qed.

  Theorem solve2_at_frame n m (s : store L) pa pb fresh s' px :
    (pa < fresh)%nat -> (pb < fresh)%nat ->
    solve2_at L n m s pa pb fresh = Ok (s', px) ->
    forall p, (p < fresh)%nat -> s' p = s p.
  Proof.
    intros Ha Hb H p Hp. unfold solve2_at, ludcmp_at in H. rewrite vupd_same in H.
    apply bind_ok in H. destruct H as ([[s2 idx] par] & H1 & H).
    apply bind_ok in H1. destruct H1 as ([[lu idx'] par'] & Hlu & H1). injection H1 as <- <- <-.
    apply bind_ok in H. destruct H as (s5 & H5 & H). injection H as <- <-.
    pose proof (fun Hf => foldM_frame _ fresh Hf _ _ _ H5 p Hp) as G.
    rewrite G.
    - rewrite !vupd_other by lia. reflexivity.
    - intros s0 j s0' Hs q Hq. unfold lubksb_at in Hs.
      apply bind_ok in Hs. destruct Hs as (s'' & Hs & E). injection E as <-.
      apply bind_ok in Hs. destruct Hs as (x & _ & E). injection E as <-.
      rewrite !vupd_other by lia. reflexivity.
  Qed.

  Theorem inv_at_frame n (s : store L) pa fresh s' py :
    (pa < fresh)%nat ->
    inv_at L n s pa fresh = Ok (s', py) ->
    forall p, (p < fresh)%nat -> s' p = s p.
  Proof.
    intros Ha H p Hp. unfold inv_at in H.
    assert (H1 : (pa < S fresh)%nat) by lia. assert (H2 : (fresh < S fresh)%nat) by lia.
    assert (H3 : (p < S fresh)%nat) by lia.
    rewrite (invab_at_frame _ _ _ _ _ _ _ _ H1 H2 H p H3).
    apply vupd_other. lia.
  Qed.
End Frame.

(* ---------------- transpose only permutes ---------------- *)
From Coq Require Import Permutation.
Section TransposeFacts.
  Variable X : Type.
  Variable d : X.

  Definition rect (n m : nat) (rows : list (list X)) : Prop :=
    length rows = n /\ Forall (fun r => length r = m) rows.

  Lemma heads_map c (rows : list (list X)) :
    Forall (fun r => length r = S c) rows ->
    flat_map (fun r => match r with [] => [] | x :: _ => [x] end) rows = map (fun r => nth 0 r d) rows.
  Proof.
    induction 1 as [|r rows Hr _ IH]; simpl; [reflexivity|].
    destruct r; [discriminate|]. simpl. now rewrite IH.
  Qed.

  Lemma tails_rect n c (rows : list (list X)) : rect n (S c) rows -> rect n c (map (@tl X) rows).
  Proof.
    intros [Hn Hr]. split; [now rewrite map_length|].
    apply Forall_map. eapply Forall_impl; [|exact Hr]. intros r H. destruct r; simpl in *; lia.
  Qed.

  Theorem transpose_shape m : forall n rows,
    rect n m rows -> rect m n (transpose_rows X m rows).
  Proof.
    induction m as [|c IH]; intros n rows H.
    - split; [reflexivity|constructor].
    - destruct (IH n _ (tails_rect n c rows H)) as [Hl Hf]. destruct H as [Hn Hr].
      split; simpl; [now rewrite Hl|]. constructor; [|exact Hf].
      rewrite (heads_map c rows Hr). now rewrite map_length.
  Qed.

  Theorem transpose_nth m : forall n rows i j,
    rect n m rows -> (i < n)%nat -> (j < m)%nat ->
    nth i (nth j (transpose_rows X m rows) []) d = nth j (nth i rows []) d.
  Proof.
    induction m as [|c IH]; intros n rows i j H Hi Hj; [lia|].
    pose proof (tails_rect n c rows H) as Ht. destruct H as [Hn Hr].
    destruct j as [|j]; simpl.
    - rewrite (heads_map c rows Hr).
      rewrite (nth_indep _ d (nth 0 [] d)) by (rewrite map_length; lia).
      now rewrite (map_nth (fun r => nth 0 r d) rows [] i).
    - rewrite (IH n _ i j Ht Hi ltac:(lia)).
      rewrite (nth_indep _ [] (tl [])) by (rewrite map_length; lia).
      rewrite (map_nth (@tl X) rows [] i).
      destruct (nth i rows []); [destruct j; reflexivity|reflexivity].
  Qed.

  Lemma heads_tails_perm c (rows : list (list X)) :
    Forall (fun r => length r = S c) rows ->
    Permutation (flat_map (fun r => match r with [] => [] | x :: _ => [x] end) rows
                          ++ concat (map (@tl X) rows)) (concat rows).
  Proof.
    induction 1 as [|r rows Hr _ IH]; simpl; [constructor|].
    destruct r as [|x r]; [discriminate|]. simpl. constructor.
    rewrite <- IH. rewrite !app_assoc. apply Permutation_app_tail. apply Permutation_app_comm.
  Qed.

  Theorem transpose_perm m : forall n rows,
    rect n m rows -> Permutation (concat (transpose_rows X m rows)) (concat rows).
  Proof.
    induction m as [|c IH]; intros n rows H.
    - destruct H as [_ Hr]. simpl.
      replace (concat rows) with (@nil X); [constructor|].
      induction Hr as [|r rows Hr _ IHr]; simpl; [reflexivity|].
      destruct r; [exact IHr|discriminate].
    - simpl. rewrite (IH n _ (tails_rect n c rows H)). apply (heads_tails_perm c). apply H.
  Qed.
End TransposeFacts.

(* props/C15.v -- Property C15: linear-algebra results satisfy their defining equations,
   uncertainty included.  Statements only, closed by lemmas proved in LUFacts.v, DualRing.v
   and LUExamples.v.  The model (LU.v) is the one compared bit for bit with GTC/LU.py and the
   wrappers of GTC/linear_algebra.py on every run (at LUInst.FElt); the theorems are about the
   same model at an arbitrary commutative ring A with a partial inverse defined where the zero
   test [isz] (Python's `x == 0.0`, which looks at the value) says "not zero", and whose
   plain-zero test [skipz] (`isinstance(x, numbers.Number) and x == 0.0`, the shortcut of
   _lubksb after the repair of finding C15-1) only accepts true zeros: plain-number fields and
   the dual numbers D = value + components of uncertainty are instances. *)
From Coq Require Import ZArith List Bool Lia QArith Qcanon Permutation Reals.
From GTCV Require Import Num RNum Vector Opres KTypes Kernel LU LUInst LUFacts DualRing LUExamples LUDual.
Import ListNotations.

Section C15.
  Variables (A Wt : Type).
  Variables (rO rI : A) (radd rmul rsub : A -> A -> A) (ropp rinv : A -> A).
  Variables isz skipz : A -> bool.
  Variable ofZ : Z -> A.
  Variables (absw : A -> Wt) (w0 : Wt) (wgt wge : Wt -> Wt -> bool) (wmul : Wt -> Wt -> Wt)
            (wrecip : Wt -> res Wt).
  Hypothesis Rth : ring_theory rO rI radd rmul rsub ropp (@eq A).
  Hypothesis Hinv : forall y, isz y = false -> rmul y (rinv y) = rI.
  Hypothesis Hskip : forall y, skipz y = true -> y = rO.
  Notation RE := (ring_elt A Wt radd rmul rsub rinv isz skipz ofZ absw w0 wgt wge wmul wrecip).
  Notation sum := (bsum A rO radd).

  (* (1) matmul, dot and @ (numpy's object dot: first product, then additions left to right)
     equal the sum-of-products definition, element by element *)
  Theorem C15_dot_def : forall m (f g : nat -> A),
      (0 < m)%nat -> dot1 RE m f g = Ok (sum (fun k => rmul (f k) (g k)) m).
  Proof. exact (dot1_sum A Wt rO rI radd rmul rsub ropp rinv isz skipz ofZ absw w0 wgt wge wmul wrecip Rth). Qed.

  Theorem C15_matmul_def : forall n m p (a b : nat -> nat -> A),
      (0 < m)%nat ->
      matmul RE n m p a b = Ok (to_rows RE n p (fun i j => sum (fun k => rmul (a i k) (b k j)) m)).
  Proof. exact (matmul_def A Wt rO rI radd rmul rsub ropp rinv isz skipz ofZ absw w0 wgt wge wmul wrecip Rth). Qed.

  (* (1b) operands with more than two dimensions (flat, row-major): np.dot pairs the last axis of a
     with the second-to-last of b for ALL leading positions of a and ALL stacks of b; matmul pairs the
     stacks by broadcasting; a scalar operand of dot multiplies every element from its own side.
     Each element of the result is the sum of products over that index pattern. *)
  Theorem C15_dot_nd_def : forall PA Ln QB M (fa fb : nat -> A),
      (0 < Ln)%nat ->
      nd_dot RE PA Ln QB M fa fb =
      Ok (map (fun t => let p := Nat.div t (QB * M) in
                        let q := Nat.modulo (Nat.div t M) QB in
                        let m := Nat.modulo t M in
                        sum (fun l => rmul (fa (p * Ln + l)%nat) (fb (q * Ln * M + l * M + m)%nat)) Ln)
              (seq 0 (PA * QB * M))).
  Proof. exact (nd_dot_def A Wt rO rI radd rmul rsub ropp rinv isz skipz ofZ absw w0 wgt wge wmul wrecip Rth). Qed.

  Theorem C15_matmul_nd_def : forall SA SB n Ln p (fa fb : nat -> A),
      (0 < Ln)%nat ->
      nd_matmul RE SA SB n Ln p fa fb =
      Ok (map (fun t => let s := Nat.div t (n * p) in
                        let i := Nat.modulo (Nat.div t p) n in
                        let j := Nat.modulo t p in
                        let mi := unravel (bshape SA SB) s in
                        sum (fun l => rmul (fa (ravel_b SA mi * n * Ln + i * Ln + l)%nat)
                                           (fb (ravel_b SB mi * Ln * p + l * p + j)%nat)) Ln)
              (seq 0 (prodn (bshape SA SB) * n * p))).
  Proof. exact (nd_matmul_def A Wt rO rI radd rmul rsub ropp rinv isz skipz ofZ absw w0 wgt wge wmul wrecip Rth). Qed.

  Theorem C15_dot_scalar_def : forall lft (sc : A) cnt (fa : nat -> A),
      nd_scale RE lft sc cnt fa = Ok (map (fun t => if lft then rmul sc (fa t) else rmul (fa t) sc) (seq 0 cnt)).
  Proof. intros. apply nd_scale_def. Qed.

  (* (2) _lubksb solves a.x = b for every size and EVERY right-hand side, given the
     decomposition invariant of ludcmp (idx = in-range exchanges with rows at or below the
     diagonal, L.U = P.a).  No condition on b: the shortcut skips only true zeros (Hskip). *)
  Theorem C15_lubksb : forall n (a lu : nat -> nat -> A) idx (b x : nat -> A),
      decomposes A rO rI radd rmul n a lu idx ->
      lubksb RE n lu idx b = Ok x ->
      forall i, (i < n)%nat -> sum (fun j => rmul (a i j) (x j)) n = b i.
  Proof. exact (lubksb_solves A Wt rO rI radd rmul rsub ropp rinv isz skipz ofZ absw w0 wgt wge wmul wrecip Rth Hinv Hskip). Qed.

  (* (3) la.solve / LU.invab / la.inv -- PARTIAL: the decomposition invariant is a hypothesis *)
  Theorem C15_solve_partial : forall n (a : nat -> nat -> A) (b x : nat -> A),
      (forall lu idx par, ludcmp RE n a = Ok (lu, idx, par) -> decomposes A rO rI radd rmul n a lu idx) ->
      solve RE n a b = Ok x ->
      forall i, (i < n)%nat -> sum (fun j => rmul (a i j) (x j)) n = b i.
  Proof. exact (solve_partial A Wt rO rI radd rmul rsub ropp rinv isz skipz ofZ absw w0 wgt wge wmul wrecip Rth Hinv Hskip). Qed.

  (* la.solve / LU.solve with a 2-D right-hand side (n x m): after the repair of finding C15-5 every column of the
     result solves the system for that column of b -- PARTIAL like C15_solve_partial (decomposition as hypothesis) *)
  Theorem C15_solve_2d_partial : forall n m (a b y : nat -> nat -> A),
      (forall lu idx par, ludcmp RE n a = Ok (lu, idx, par) -> decomposes A rO rI radd rmul n a lu idx) ->
      solve2 RE n m a b = Ok y ->
      forall i j, (i < n)%nat -> (j < m)%nat -> sum (fun k => rmul (a i k) (y k j)) n = b i j.
  Proof. exact (solve2_partial A Wt rO rI radd rmul rsub ropp rinv isz skipz ofZ absw w0 wgt wge wmul wrecip Rth Hinv Hskip). Qed.

  Theorem C15_invab_partial : forall n m (a b y : nat -> nat -> A),
      (forall lu idx par, ludcmp RE n a = Ok (lu, idx, par) -> decomposes A rO rI radd rmul n a lu idx) ->
      invab RE n m a b = Ok y ->
      forall i j, (i < n)%nat -> (j < m)%nat -> sum (fun k => rmul (a i k) (y k j)) n = b i j.
  Proof. exact (invab_partial A Wt rO rI radd rmul rsub ropp rinv isz skipz ofZ absw w0 wgt wge wmul wrecip Rth Hinv Hskip). Qed.

  Theorem C15_inv_partial : forall n (a y : nat -> nat -> A),
      (forall lu idx par, ludcmp RE n a = Ok (lu, idx, par) -> decomposes A rO rI radd rmul n a lu idx) ->
      ofZ 0%Z = rO -> ofZ 1%Z = rI ->
      inv RE n a = Ok y ->
      forall i j, (i < n)%nat -> (j < n)%nat ->
                  sum (fun k => rmul (a i k) (y k j)) n = if Nat.eqb i j then rI else rO.
  Proof. exact (inv_partial A Wt rO rI radd rmul rsub ropp rinv isz skipz ofZ absw w0 wgt wge wmul wrecip Rth Hinv Hskip). Qed.

  (* (4) ludet = parity times the product of the pivots -- PARTIAL for "det has the
     determinant as value and the cofactors as sensitivities" *)
  Theorem C15_det_partial : forall n (lu : nat -> nat -> A) par,
      ludet RE n lu par = Ok (rmul (ofZ par) (bprod A rI rmul (fun i => lu i i) n)).
  Proof. exact (ludet_prod A Wt rO rI radd rmul rsub ropp rinv isz skipz ofZ absw w0 wgt wge wmul wrecip Rth). Qed.
End C15.
Print Assumptions C15_dot_def.
Print Assumptions C15_matmul_def.
Print Assumptions C15_dot_nd_def.
Print Assumptions C15_matmul_nd_def.
Print Assumptions C15_dot_scalar_def.
Print Assumptions C15_lubksb.
Print Assumptions C15_solve_partial.
Print Assumptions C15_solve_2d_partial.
Print Assumptions C15_invab_partial.
Print Assumptions C15_inv_partial.
Print Assumptions C15_det_partial.

(* (5) transpose only permutes *)
Theorem C15_transpose_perm : forall (X : Type) (d : X) n m (rows : list (list X)),
    rect X n m rows ->
    rect X m n (transpose_rows X m rows) /\
    (forall i j, (i < n)%nat -> (j < m)%nat ->
                 nth i (nth j (transpose_rows X m rows) []) d = nth j (nth i rows []) d) /\
    Permutation (concat (transpose_rows X m rows)) (concat rows).
Proof.
  intros X d n m rows H. split; [now apply transpose_shape|]. split.
  - intros i j Hi Hj. now apply (transpose_nth X d m n).
  - now apply (transpose_perm X m n).
Qed.
Print Assumptions C15_transpose_perm.

(* (5b) transpose with explicit axes on N-d arrays: the model's index map (result[r] = a[s], s[axes[k]] = r[k])
   is what is compared with np.transpose / la.transpose / .T on every run; that it is a permutation of the
   positions is checked here by execution for all axis orders of a 2x3x4 stack and a 3x2 matrix (bounded
   instance; the general theorem above is for 2-D) *)
Example C15_transpose_nd_example :
  forallb (fun axes => is_perm_of_seq 24 (map (tr_src [2; 3; 4]%nat axes) (seq 0 24)))
          [[0; 1; 2]; [0; 2; 1]; [1; 0; 2]; [1; 2; 0]; [2; 0; 1]; [2; 1; 0]]%nat = true /\
  tr_shape [2; 3; 4]%nat [0; 2; 1]%nat = [2; 4; 3]%nat.
Proof. split; [apply transpose_nd_permutes|reflexivity]. Qed.

(* (6) none of solve / inv / invab / det modifies an array that existed before the call
   (identities below [fresh]): they work on element-wise copies.  For ANY element interface,
   in particular the one run against the implementation. *)
Theorem C15_args_unchanged : forall (L : Elt) n m (s : store L) pa pb fresh,
    (pa < fresh)%nat -> (pb < fresh)%nat ->
    (forall s' px, solve_at L n s pa pb fresh = Ok (s', px) ->
                   (forall p, (p < fresh)%nat -> s' p = s p) /\
                   exists x, solve L n (copy_arr L (s pa)) (fun i => copy_arr L (s pb) i 0%nat) = Ok x /\
                             s' px = (fun i _ => x i)) /\
    (forall s' d, det_at L n s pa fresh = Ok (s', d) ->
                  (forall p, (p < fresh)%nat -> s' p = s p) /\ det L n (copy_arr L (s pa)) = Ok d) /\
    (forall s' py, inv_at L n s pa fresh = Ok (s', py) -> forall p, (p < fresh)%nat -> s' p = s p) /\
    (forall s' py, invab_at L n m s pa pb fresh = Ok (s', py) -> forall p, (p < fresh)%nat -> s' p = s p) /\
    (forall s' px, solve2_at L n m s pa pb fresh = Ok (s', px) -> forall p, (p < fresh)%nat -> s' p = s p).
Proof.
  intros L n m s pa pb fresh Ha Hb. split; [|split; [|split; [|split]]].
  - intros s' px H. exact (solve_at_frame L n s pa pb fresh s' px Ha Hb H).
  - intros s' d H. exact (det_at_frame L n s pa fresh s' d Ha H).
  - intros s' py H. exact (inv_at_frame L n s pa fresh s' py Ha H).
  - intros s' py H. exact (invab_at_frame L n m s pa pb fresh s' py Ha Hb H).
  - intros s' px H. exact (solve2_at_frame L n m s pa pb fresh s' px Ha Hb H).
Qed.
Print Assumptions C15_args_unchanged.

(* the copy made by UncertainArray.copy() applies unary + to every element; the instance run
   against the implementation uses, for uncertain reals, exactly what the body of __pos__
   regenerated from GTC/lib.py does *)
Theorem C15_copy_is_pos : forall (N : Num) (o : KTypes.ureal (T N)),
    (v <- apply_un N U_pos o ;; of_opval N v o o)
    = Ok (@OpdU N (new_un N (ux o) (uc o) (dc o) (ic o))) /\
    e_pos (FElt N) (EU o) = EU (new_un N (ux o) (uc o) (dc o) (ic o)).
Proof. intros N o. split; [apply pos_is_generated|reflexivity]. Qed.
Print Assumptions C15_copy_is_pos.

(* (7) uncertain numbers: D = value + components is a commutative ring whose units are the
   elements with a unit value, so (2)-(4) hold for uncertain elements in value and in every
   component of uncertainty at once -- for every right-hand side, zero values that carry
   uncertainty included (C15_ring_transfer has no condition on b) *)
Theorem C15_dual_ring :
  forall (A K : Type) (rO rI : A) (radd rmul rsub : A -> A -> A) (ropp rinv : A -> A) (isz : A -> bool),
    ring_theory rO rI radd rmul rsub ropp (@eq A) ->
    (forall y, isz y = false -> rmul y (rinv y) = rI) ->
    ring_theory (dO A K rO) (dI A K rO rI) (dadd A K radd) (dmul A K radd rmul) (dsub A K rsub)
                (dopp A K ropp) (@eq (D A K)) /\
    (forall y, disz A K isz y = false ->
               dmul A K radd rmul y (dinv A K rmul ropp rinv y) = dI A K rO rI).
Proof.
  intros A K rO rI radd rmul rsub ropp rinv isz Rth Hinv. split.
  - now apply D_ring.
  - now apply (D_inv A K rO rI radd rmul rsub ropp rinv isz Rth Hinv).
Qed.
Print Assumptions C15_dual_ring.

Theorem C15_ring_transfer :
  forall (A K : Type) (rO rI : A) (radd rmul rsub : A -> A -> A) (ropp rinv : A -> A) (isz : A -> bool)
         (Rth : ring_theory rO rI radd rmul rsub ropp (@eq A))
         (Hinv : forall y, isz y = false -> rmul y (rinv y) = rI)
         (Wt : Type) (absw : D A K -> Wt) (w0 : Wt) (wgt wge : Wt -> Wt -> bool) (wmul : Wt -> Wt -> Wt)
         (wrecip : Wt -> res Wt) (ofZ : Z -> D A K) (dskip : D A K -> bool)
         (Hdskip : forall y, dskip y = true -> y = dO A K rO)
         n (a : nat -> nat -> D A K) (b x : nat -> D A K),
    let DE := ring_elt (D A K) Wt (dadd A K radd) (dmul A K radd rmul) (dsub A K rsub)
                       (dinv A K rmul ropp rinv) (disz A K isz) dskip ofZ absw w0 wgt wge wmul wrecip in
    (forall lu idx par, ludcmp DE n a = Ok (lu, idx, par) ->
                        decomposes (D A K) (dO A K rO) (dI A K rO rI) (dadd A K radd) (dmul A K radd rmul) n a lu idx) ->
    solve DE n a b = Ok x ->
    forall i, (i < n)%nat ->
      bsum A rO radd (fun j => rmul (dval A K (a i j)) (dval A K (x j))) n = dval A K (b i) /\
      forall k, bsum A rO radd (fun j => radd (rmul (dval A K (a i j)) (dcomp A K (x j) k))
                                              (rmul (dval A K (x j)) (dcomp A K (a i j) k))) n
                = dcomp A K (b i) k.
Proof.
  intros A K rO rI radd rmul rsub ropp rinv isz Rth Hinv Wt absw w0 wgt wge wmul wrecip ofZ dskip Hdskip n a b x DE.
  exact (dual_solve_transfer A K rO rI radd rmul rsub ropp rinv isz Rth Hinv Wt absw w0 wgt wge wmul wrecip ofZ dskip Hdskip n a b x).
Qed.
Print Assumptions C15_ring_transfer.

(* (7b) the arithmetic GTC performs on uncertain-real elements (Kernel.apply_bin with the operator
   bodies regenerated from lib.py, over the reals) is the arithmetic of D: toD is a homomorphism
   for the operations LU.py and numpy's dot apply to elements; division is defined exactly when
   the VALUE of the divisor is non-zero *)
Theorem C15_un_to_D : forall (a b : KTypes.ureal R),
    Vector.sorted (N := RNum) (uc a) -> Vector.sorted (N := RNum) (uc b) ->
    (exists o, bin RNum B_mul (@EU RNum a) (@EU RNum b) = Ok (@EU RNum o) /\
               toD o = dmul R key Rplus Rmult (toD a) (toD b) /\ Vector.sorted (N := RNum) (uc o)) /\
    (exists o, bin RNum B_sub (@EU RNum a) (@EU RNum b) = Ok (@EU RNum o) /\
               toD o = dsub R key Rminus (toD a) (toD b) /\ Vector.sorted (N := RNum) (uc o)) /\
    (exists o, bin RNum B_add (@EU RNum a) (@EU RNum b) = Ok (@EU RNum o) /\
               toD o = dadd R key Rplus (toD a) (toD b) /\ Vector.sorted (N := RNum) (uc o)) /\
    (ux b <> 0%R ->
     exists o, bin RNum B_div (@EU RNum a) (@EU RNum b) = Ok (@EU RNum o) /\
               toD o = dmul R key Rplus Rmult (toD a) (dinv R key Rmult Ropp Rinv' (toD b)) /\
               Vector.sorted (N := RNum) (uc o)) /\
    (ux b = 0%R -> bin RNum B_div (@EU RNum a) (@EU RNum b) = Err ZeroDivisionError).
Proof.
  intros a b Sa Sb. split; [now apply un_mul_hom|]. split; [now apply un_sub_hom|].
  split; [now apply un_add_hom|]. split; [now apply un_div_hom|now apply un_div_zero].
Qed.
Print Assumptions C15_un_to_D.

(* (8) finding C15-1, fixed: _lubksb used to test `sum != 0.0` and skipped a right-hand side whose
   value is zero although its components are not (this theorem was C15_solve_refuted, with
   residual component 1/2 on this very input).  On the repaired model the old witness --
   a = [[2,1],[1,3]], b = [u, 1], u = 0 with component 1 -- is solved in value and in every
   component; it is also a closed instance of the hypotheses of C15_solve_partial on the dual
   numbers (the decomposition invariant holds of it, and the right-hand side tests as zero
   by value without being zero).  The implementation is replayed on the same input on every
   run (regression check kf_lubksb_zero_rhs). *)
Theorem C15_solve_zero_valued_rhs :
  (dq_isz (rb 0%nat) = true /\ rb 0%nat <> dO Qc bool 0%Qc) /\
  (forall lu idx par, ludcmp DQE 2 ra = Ok (lu, idx, par) ->
                      decomposes (D Qc bool) (dO Qc bool 0%Qc) (dI Qc bool 0%Qc 1%Qc) dq_add dq_mul 2 ra lu idx) /\
  exists x, solve DQE 2 ra rb = Ok x /\
    forall i, (i < 2)%nat ->
      dval Qc bool (d_bsum (fun j => dq_mul (ra i j) (x j)) 2) = dval Qc bool (rb i) /\
      forall k, dcomp Qc bool (d_bsum (fun j => dq_mul (ra i j) (x j)) 2) k = dcomp Qc bool (rb i) k.
Proof. split; [exact rb_not_exact|]. split; [exact decomposes_ra|exact solve_zero_valued_rhs]. Qed.
Print Assumptions C15_solve_zero_valued_rhs.

(* non-vacuity: the hypotheses of C15_solve_partial hold of a concrete 3 x 3 rational system
   whose leading element is zero (the first pivot comes from another row), the model returns
   a solution, and the conclusion holds of it *)
Example C15_solve_nonvacuous :
  (forall lu idx par, ludcmp QcE 3 a3 = Ok (lu, idx, par) ->
                      decomposes Qc 0%Qc 1%Qc Qcplus Qcmult 3 a3 lu idx) /\
  (exists lu idx par, ludcmp QcE 3 a3 = Ok (lu, idx, par) /\ idx 0%nat <> 0%nat) /\
  exists x, solve QcE 3 a3 b3 = Ok x /\
            forall i, (i < 3)%nat -> bsum Qc 0%Qc Qcplus (fun j => Qcmult (a3 i j) (x j)) 3 = b3 i.
Proof.
  split; [exact decomposes_a3|]. split.
  - pose proof ludcmp_a3 as C. destruct (ludcmp QcE 3 a3) as [[[lu idx] par]|e]; [|contradiction].
    exists lu, idx, par. split; [reflexivity|]. apply andb_true_iff in C. destruct C as [_ C].
    intros E. rewrite E in C. discriminate.
  - pose proof solve_a3 as C. destruct (solve QcE 3 a3 b3) as [x|e] eqn:E; [|contradiction].
    exists x. split; [reflexivity|].
    exact (solve_partial Qc Qc 0%Qc 1%Qc Qcplus Qcmult Qcminus Qcopp Qcinv qc_isz qc_isz qc_ofZ qc_abs 0%Qc
                         qc_gt qc_ge Qcmult qc_recip Qcrt qc_inv qc_isz_exact 3 a3 b3 x decomposes_a3 E).
Qed.
Print Assumptions C15_solve_nonvacuous.
